(* C11/Proofs.v -- lemmas about the solver models (R instance; operators,
   proximals, gradients are arbitrary functions; no length hypotheses). *)
From Coq Require Import ZArith Reals Lra Lia List Bool.
From Verif Require Import Base.Num Base.Vec Base.VecR C11.Model.
Import ListNotations.
Local Open Scope R_scope.

(* ------------------------------------------------------------ loop algebra *)
Section LoopFacts.
Context {St Ob : Type}.
Implicit Types (f : St -> St) (obs : St -> Ob).

Lemma iter_add f (n m : nat) (s : St) : iter (n + m) f s = iter m f (iter n f s).
Proof. revert s; induction n as [|n IH]; intros s; cbn [iter Nat.add]; [reflexivity | apply IH]. Qed.

Lemma iter_S_out f (n : nat) (s : St) : iter (S n) f s = f (iter n f s).
Proof. replace (S n) with (n + 1)%nat by lia. rewrite iter_add. reflexivity. Qed.

Lemma trace_length obs f (n : nat) (s : St) : length (trace obs n f s) = n.
Proof. revert s; induction n as [|n IH]; intros s; cbn [trace length]; [reflexivity | now rewrite IH]. Qed.

Lemma trace_nth obs f (d : Ob) (n k : nat) (s : St) : (k < n)%nat ->
  nth k (trace obs n f s) d = obs (iter (S k) f s).
Proof.
  revert k s; induction n as [|n IH]; intros k s Hk; [lia|].
  cbn [trace]. destruct k as [|k]; cbn [nth]; [reflexivity|].
  rewrite IH by lia. reflexivity.
Qed.

Lemma trace_app obs f (n m : nat) (s : St) :
  trace obs (n + m) f s = trace obs n f s ++ trace obs m f (iter n f s).
Proof.
  revert s; induction n as [|n IH]; intros s; cbn [trace Nat.add iter app]; [reflexivity|].
  now rewrite IH.
Qed.

Lemma trace_last obs f (d : Ob) (n : nat) (s : St) :
  last (trace obs (S n) f s) d = obs (iter (S n) f s).
Proof.
  revert s; induction n as [|n IH]; intros s; [reflexivity|].
  change (trace obs (S (S n)) f s) with (obs (f s) :: trace obs (S n) f (f s)).
  change (iter (S (S n)) f s) with (iter (S n) f (f s)).
  rewrite <- IH. cbn [trace]. reflexivity.
Qed.

Lemma iter_ext f g : (forall s, f s = g s) -> forall n s, iter n f s = iter n g s.
Proof. intros E n; induction n as [|n IH]; intros s; cbn [iter]; [reflexivity | now rewrite E, IH]. Qed.
Lemma trace_ext obs f g : (forall s, f s = g s) -> forall n s, trace obs n f s = trace obs n g s.
Proof. intros E n; induction n as [|n IH]; intros s; cbn [trace]; [reflexivity | now rewrite E, IH]. Qed.

(* counter-dependent loops *)
Implicit Types (fk : nat -> St -> St).
Lemma iterk_add fk (n m k0 : nat) (s : St) :
  iterk (n + m) k0 fk s = iterk m (k0 + n) fk (iterk n k0 fk s).
Proof.
  revert k0 s; induction n as [|n IH]; intros k0 s; cbn [iterk Nat.add].
  - now rewrite Nat.add_0_r.
  - rewrite IH. now replace (S k0 + n)%nat with (k0 + S n)%nat by lia.
Qed.
Lemma iterk_ext fk gk : (forall k s, fk k s = gk k s) -> forall n k0 s, iterk n k0 fk s = iterk n k0 gk s.
Proof. intros E n; induction n as [|n IH]; intros k0 s; cbn [iterk]; [reflexivity | now rewrite E, IH]. Qed.
Lemma iterk_shift fk (m k0 : nat) (s : St) :
  iterk m k0 fk s = iterk m 0 (fun k => fk (k0 + k)%nat) s.
Proof.
  revert fk k0 s; induction m as [|m IH]; intros fk k0 s; cbn [iterk]; [reflexivity|].
  rewrite Nat.add_0_r, (IH fk (S k0)), (IH (fun k => fk (k0 + k)%nat) 1%nat).
  apply iterk_ext. intros k s'. f_equal. lia.
Qed.
Lemma iterk_const f (n k0 : nat) (s : St) : iterk n k0 (fun _ => f) s = iter n f s.
Proof. revert k0 s; induction n as [|n IH]; intros k0 s; cbn [iterk iter]; [reflexivity | apply IH]. Qed.
Lemma tracek_length obs fk (n k0 : nat) (s : St) : length (tracek obs n k0 fk s) = n.
Proof. revert k0 s; induction n as [|n IH]; intros k0 s; cbn [tracek length]; [reflexivity | now rewrite IH]. Qed.
Lemma tracek_nth obs fk (d : Ob) (n k k0 : nat) (s : St) : (k < n)%nat ->
  nth k (tracek obs n k0 fk s) d = obs (iterk (S k) k0 fk s).
Proof.
  revert k k0 s; induction n as [|n IH]; intros k k0 s Hk; [lia|].
  cbn [tracek]. destruct k as [|k]; cbn [nth]; [reflexivity|].
  rewrite IH by lia. reflexivity.
Qed.
End LoopFacts.

(* simulation: two loops whose states stay related produce the same observations *)
Lemma trace_sim {S1 S2 Ob} (Rel : S1 -> S2 -> Prop) (o1 : S1 -> Ob) (o2 : S2 -> Ob) f1 f2 :
  (forall a b, Rel a b -> Rel (f1 a) (f2 b)) -> (forall a b, Rel a b -> o1 a = o2 b) ->
  forall n a b, Rel a b -> trace o1 n f1 a = trace o2 n f2 b.
Proof.
  intros Hs Ho n; induction n as [|n IH]; intros a b Hab; cbn [trace]; [reflexivity|].
  f_equal; [apply Ho, Hs, Hab | apply IH, Hs, Hab].
Qed.
Lemma iter_sim {S1 S2} (Rel : S1 -> S2 -> Prop) f1 f2 :
  (forall a b, Rel a b -> Rel (f1 a) (f2 b)) -> forall n a b, Rel a b -> Rel (iter n f1 a) (iter n f2 b).
Proof. intros Hs n; induction n as [|n IH]; intros a b Hab; cbn [iter]; [exact Hab | apply IH, Hs, Hab]. Qed.

(* --------------------------------------------- entrywise vector identities *)
(* all of these hold for lists of ANY lengths: vmap2 truncates both sides alike *)
Ltac vind x :=
  unfold vlin, vsub, vadd, vscal, vmul, vdiv;
  induction x as [|? x ?IH]; intros;
  repeat match goal with v : list R |- _ => destruct v; cbn [vmap2 map] end;
  cbn [vmap2 map]; try reflexivity.

Lemma vadd_comm (x y : Rvec) : vadd x y = vadd y x.
Proof.
  revert y; induction x as [|a x IH]; intros [|b y]; unfold vadd in *; cbn [vmap2]; try reflexivity.
  f_equal; [numR; ring | apply IH].
Qed.

Lemma vlin1_neg (c : R) (x d : Rvec) : vlin 1 x (- c) d = vsub x (vscal c d).
Proof.
  unfold vlin, vsub, vscal. revert d; induction x as [|a x IH]; intros [|b d]; cbn [vmap2 map]; try reflexivity.
  f_equal; [numR; ring | apply IH].
Qed.
Lemma vlin1_negdiv (t s : R) (x d : Rvec) : vlin 1 x (- t / s) d = vsub x (vscal (t / s) d).
Proof. replace (- t / s) with (- (t / s)) by (unfold Rdiv; ring). apply vlin1_neg. Qed.
Lemma vlin1_pos (c : R) (x d : Rvec) : vlin 1 x c d = vadd x (vscal c d).
Proof.
  unfold vlin, vadd, vscal. revert d; induction x as [|a x IH]; intros [|b d]; cbn [vmap2 map]; try reflexivity.
  f_equal; [numR; ring | apply IH].
Qed.
Lemma vlin1_sub (c : R) (x a b : Rvec) :
  vlin 1 x c (vsub a b) = vsub (vadd x (vscal c a)) (vscal c b).
Proof.
  unfold vlin, vsub, vadd, vscal. revert a b; induction x as [|e x IH]; intros [|a0 a] [|b0 b];
    cbn [vmap2 map]; try reflexivity.
  f_equal; [numR; ring | apply IH].
Qed.
Lemma vlin_relax (th : R) (x xo : Rvec) :
  vlin (1 + th) x (- th) xo = vadd x (vscal th (vsub x xo)).
Proof.
  unfold vlin, vsub, vadd, vscal. revert xo; induction x as [|a x IH]; intros [|b xo];
    cbn [vmap2 map]; try reflexivity.
  f_equal; [numR; ring | apply IH].
Qed.

(* ================================================================== ADMM *)
Section ADMM_R.
Variables (L Ladj proxf proxg : Rvec -> Rvec) (tau sigma : R) (m : nat).
Let ostep := admm_opt_step L Ladj proxf proxg tau sigma.
Let rstep := admm_ref_step L Ladj proxf proxg tau sigma.

(* loop-head invariant: same x, z, u and  tmp_ran = L(x) *)
Definition admm_inv (o : admm_ost) (r : admm_rst) : Prop :=
  ao_x o = ar_x r /\ ao_z o = ar_z r /\ ao_u o = ar_u r /\ ao_tr o = L (ao_x o).

Lemma admm_inv_init (junk x : Rvec) : admm_inv (admm_opt_init L m junk x) (admm_ref_init m x).
Proof. repeat split. Qed.

Lemma admm_inv_step o r : admm_inv o r -> admm_inv (ostep o) (rstep r).
Proof.
  intros (Hx & Hz & Hu & Ht). unfold ostep, rstep, admm_opt_step, admm_ref_step, admm_inv.
  cbn [ao_x ao_z ao_u ao_tr ar_x ar_z ar_u]. numR.
  rewrite Ht, Hx, Hz, Hu, vlin1_negdiv.
  set (x1 := proxf _).
  repeat split. rewrite (vadd_comm (ar_u r) (L x1)). reflexivity.
Qed.

Lemma admm_refines (n : nat) (junk x : Rvec) :
  admm_opt_trace L Ladj proxf proxg tau sigma m n junk x = admm_ref_trace L Ladj proxf proxg tau sigma m n x.
Proof.
  unfold admm_opt_trace, admm_ref_trace.
  apply (trace_sim admm_inv); [exact admm_inv_step | intros a b H; exact (proj1 H) | apply admm_inv_init].
Qed.

(* the whole carried state agrees as well, and the temporary never matters *)
Lemma admm_state_refines (n : nat) (junk x : Rvec) :
  admm_inv (iter n ostep (admm_opt_init L m junk x)) (iter n rstep (admm_ref_init m x)).
Proof. apply (iter_sim admm_inv); [exact admm_inv_step | apply admm_inv_init]. Qed.
End ADMM_R.

(* ============================================================ doubleprox_dc *)
Section DPDC_R.
Variables (K Kadj proxf proxgc gradphi : Rvec -> Rvec) (gamma mu : R).
Lemma dpdc_step_eq (s : Rvec * Rvec) :
  dpdc_opt_step K Kadj proxf proxgc gradphi gamma mu s = dpdc_ref_step K Kadj proxf proxgc gradphi gamma mu s.
Proof.
  destruct s as [x y]. unfold dpdc_opt_step, dpdc_ref_step. numR.
  rewrite vlin1_sub, vlin1_pos. reflexivity.
Qed.
Lemma dpdc_refines (n : nat) (s : Rvec * Rvec) :
  iter n (dpdc_opt_step K Kadj proxf proxgc gradphi gamma mu) s
  = iter n (dpdc_ref_step K Kadj proxf proxgc gradphi gamma mu) s
  /\ trace fst n (dpdc_opt_step K Kadj proxf proxgc gradphi gamma mu) s
     = trace fst n (dpdc_ref_step K Kadj proxf proxgc gradphi gamma mu) s.
Proof. split; [apply iter_ext | apply trace_ext]; exact dpdc_step_eq. Qed.
End DPDC_R.

(* ==================================================================== PDHG *)
Section PDHG_R.
Variables (L Ladj proxp proxd : Rvec -> Rvec) (tau sigma theta : R).
Lemma pdhg_step_eq (s : pdhg_st) :
  pdhg_step L Ladj proxp proxd tau sigma theta s = pdhg_ref_step L Ladj proxp proxd tau sigma theta s.
Proof.
  unfold pdhg_step, pdhg_ref_step. numR.
  rewrite vlin1_neg, vlin_relax, vlin1_pos. reflexivity.
Qed.
End PDHG_R.

(* =============================================================== adupdates *)
Section ADUP_R.
Variable stepsize : R.
Notation adopR := (@adop R).

Lemma setnth_length (i : nat) (v : Rvec) (l : list Rvec) : length (setnth i v l) = length l.
Proof. revert i; induction l as [|a l IH]; intros [|i]; cbn [setnth length]; auto. Qed.
Lemma getnth_setnth (i : nat) (v : Rvec) (l : list Rvec) : (i < length l)%nat -> getnth i (setnth i v l) = v.
Proof.
  unfold getnth. revert i; induction l as [|a l IH]; intros [|i] Hi; cbn [length] in Hi; try lia;
    cbn [setnth nth]; [reflexivity | apply IH; lia].
Qed.

(* every L[j].range has an entry in tmp_rans *)
Definition keys_ok (ops : list adopR) (tmps : list Rvec) : Prop :=
  Forall (fun o => (ad_key o < length tmps)%nat) ops.

Lemma ad_sweep_refines (ops : list adopR) : forall (duals tmps : list Rvec) (x : Rvec),
  keys_ok ops tmps ->
  let '(xo, dso, _, tro) := ad_sweep_opt stepsize ops duals tmps x in
  (xo, dso, tro) = ad_sweep_ref stepsize ops duals x.
Proof.
  induction ops as [|o ops IH]; intros duals tmps x Hk; [reflexivity|].
  destruct duals as [|d duals]; [reflexivity|].
  cbn [ad_sweep_opt ad_sweep_ref].
  inversion Hk as [|? ? Ho Hops]; subst.
  rewrite getnth_setnth by exact Ho.
  set (t := ad_prox o _). set (x1 := vsub x _).
  assert (Hk' : keys_ok ops (setnth (ad_key o) t tmps)).
  { unfold keys_ok in *. rewrite Forall_forall in *. intros o' Hin. rewrite setnth_length. auto. }
  specialize (IH duals (setnth (ad_key o) t tmps) x1 Hk').
  destruct (ad_sweep_opt stepsize ops duals (setnth (ad_key o) t tmps) x1) as [[[xo dso] tmo] tro].
  destruct (ad_sweep_ref stepsize ops duals x1) as [[xr dsr] trr].
  inversion IH; subst. reflexivity.
Qed.

Lemma ad_sweep_opt_tmps_length (ops : list adopR) : forall (duals tmps : list Rvec) (x : Rvec),
  let '(_, _, tmo, _) := ad_sweep_opt stepsize ops duals tmps x in length tmo = length tmps.
Proof.
  induction ops as [|o ops IH]; intros duals tmps x; [reflexivity|].
  destruct duals as [|d duals]; [reflexivity|].
  cbn [ad_sweep_opt].
  set (t := ad_prox o _). set (x1 := vsub x _).
  specialize (IH duals (setnth (ad_key o) (ad_prox o (ad_arg stepsize o d x)) tmps) x1).
  fold t in IH.
  destruct (ad_sweep_opt stepsize ops duals (setnth (ad_key o) t tmps) x1) as [[[xo dso] tmo] tro].
  rewrite IH. apply setnth_length.
Qed.

Definition ad_rel (ops : list adopR) (o : Rvec * list Rvec * list Rvec) (r : Rvec * list Rvec) : Prop :=
  fst (fst o) = fst r /\ snd (fst o) = snd r /\ keys_ok ops (snd o).

Lemma ad_step_refines (ops : list adopR) o r :
  ad_rel ops o r -> ad_rel ops (ad_opt_step stepsize ops o) (ad_ref_step stepsize ops r).
Proof.
  destruct o as [[x duals] tmps], r as [x' duals']. intros (Hx & Hd & Hk); cbn [fst snd] in *; subst x' duals'.
  unfold ad_opt_step, ad_ref_step.
  pose proof (ad_sweep_refines ops duals tmps (ad_pre stepsize ops duals x) Hk) as E.
  pose proof (ad_sweep_opt_tmps_length ops duals tmps (ad_pre stepsize ops duals x)) as El.
  destruct (ad_sweep_opt stepsize ops duals tmps (ad_pre stepsize ops duals x)) as [[[xo dso] tmo] tro].
  destruct (ad_sweep_ref stepsize ops duals (ad_pre stepsize ops duals x)) as [[xr dsr] trr].
  inversion E; subst. repeat split; cbn [fst snd].
  unfold keys_ok in *. rewrite El. exact Hk.
Qed.

Lemma ad_refines (ops : list adopR) (n : nat) (tmps0 : list Rvec) (x : Rvec) :
  keys_ok ops tmps0 ->
  forall k, (k < n)%nat ->
  nth k (ad_opt_trace stepsize ops n tmps0 x) [] = ad_ref_run stepsize ops (S k) x.
Proof.
  intros Hk k Hlt. unfold ad_opt_trace, ad_ref_run.
  rewrite (trace_nth _ _ [] n k) by exact Hlt.
  pose proof (iter_sim (ad_rel ops) (ad_opt_step stepsize ops) (ad_ref_step stepsize ops)
                (ad_step_refines ops) (S k) (x, ad_duals0 ops, tmps0) (x, ad_duals0 ops)) as Hs.
  destruct Hs as (Hx & _); [repeat split; exact Hk | exact Hx].
Qed.
End ADUP_R.

(* ======================================================== proximal gradient *)
Section PG_R.
Variables (proxf gradg : Rvec -> Rvec) (gamma : R).
Lemma pg_resume (lam : nat -> R) (n m : nat) (x : Rvec) :
  iterk (n + m) 0 (pg_step proxf gradg gamma lam) x
  = iterk m 0 (pg_step proxf gradg gamma (fun k => lam (n + k)%nat)) (iterk n 0 (pg_step proxf gradg gamma lam) x).
Proof. rewrite iterk_add, iterk_shift. reflexivity. Qed.
Lemma pg_resume_const (c : R) (n m : nat) (x : Rvec) :
  iterk (n + m) 0 (pg_step proxf gradg gamma (fun _ => c)) x
  = iterk m 0 (pg_step proxf gradg gamma (fun _ => c)) (iterk n 0 (pg_step proxf gradg gamma (fun _ => c)) x).
Proof. rewrite pg_resume. reflexivity. Qed.
End PG_R.

(* a callable lam passed unchanged to the second call restarts at k = 0:
   1-d, prox = halving, gradient = 0, gamma = 1, lam(0) = 1, lam(k>0) = 0, x = [2]:
   two iterations at once give [1], one + one gives [1/2] *)
Lemma pg_resume_same_lam_counterexample :
  let lam := fun k : nat => match k with O => 1 | _ => 0 end in
  let st := pg_step (fun x : Rvec => map (fun a => a / 2) x) (fun x : Rvec => map (fun _ => 0) x) 1 lam in
  iterk (1 + 1) 0 st [2] <> iterk 1 0 st (iterk 1 0 st [2]).
Proof.
  cbn. unfold pg_step, vlin. cbn [vmap2 map]. numR. intros E. inversion E as [E1]. lra.
Qed.

(* ======================================================= steepest descent *)
Section SD_R.
Variables (grad proj : Rvec -> Rvec) (step tol : R).
Let st := sd_step grad proj step tol.
Lemma sd_stopped_fix (x : Rvec) : st (x, true) = (x, true).
Proof. reflexivity. Qed.
Lemma sd_stopped_iter (n : nat) (x : Rvec) : iter n st (x, true) = (x, true).
Proof. induction n as [|n IH]; [reflexivity | cbn [iter]; rewrite sd_stopped_fix; exact IH]. Qed.
Lemma sd_stop_then_restart (m : nat) (x : Rvec) :
  sd_stops grad tol x = true -> fst (iter m st (x, false)) = x.
Proof.
  intros Hs. destruct m as [|m]; [reflexivity|]. cbn [iter]. unfold st at 2, sd_step. rewrite Hs.
  rewrite sd_stopped_iter. reflexivity.
Qed.
(* the second call forgets the flag: it still produces the same iterate *)
Lemma sd_forget_flag (m : nat) (s : Rvec * bool) :
  (snd s = true -> sd_stops grad tol (fst s) = true) ->
  fst (iter m st (fst s, false)) = fst (iter m st s).
Proof.
  destruct s as [x [|]]; cbn [fst snd]; intros Hinv; [|reflexivity].
  rewrite sd_stopped_iter, sd_stop_then_restart by auto. reflexivity.
Qed.
Lemma sd_flag_inv (n : nat) (s : Rvec * bool) :
  (snd s = true -> sd_stops grad tol (fst s) = true) ->
  snd (iter n st s) = true -> sd_stops grad tol (fst (iter n st s)) = true.
Proof.
  revert s; induction n as [|n IH]; intros s Hinv; cbn [iter]; [exact Hinv|].
  apply IH. destruct s as [x [|]]; cbn [fst snd] in *.
  - unfold st, sd_step. cbn [fst snd]. auto.
  - unfold st, sd_step. destruct (sd_stops grad tol x) eqn:E; cbn [fst snd]; [auto | discriminate].
Qed.
Lemma sd_resume (n m : nat) (x : Rvec) :
  fst (iter (n + m) st (x, false)) = fst (iter m st (fst (iter n st (x, false)), false)).
Proof.
  rewrite iter_add. symmetry. apply sd_forget_flag. apply sd_flag_inv. cbn; discriminate.
Qed.
Lemma sd_trace_le (n : nat) (s : Rvec * bool) : (length (sd_trace grad proj step tol n s) <= n)%nat.
Proof.
  revert s; induction n as [|n IH]; intros s; cbn [sd_trace length]; cbv zeta; [lia|].
  destruct (snd (sd_step grad proj step tol s)); cbn [length]; [lia | specialize (IH (sd_step grad proj step tol s)); lia].
Qed.
(* k-th callback = iterate after k+1 iterations *)
Lemma sd_trace_nth (n k : nat) (s : Rvec * bool) :
  (k < length (sd_trace grad proj step tol n s))%nat ->
  nth k (sd_trace grad proj step tol n s) [] = fst (iter (S k) st s).
Proof.
  revert k s; induction n as [|n IH]; intros k s Hk; cbn [sd_trace] in *; cbv zeta in *; [cbn in Hk; lia|].
  change (sd_step grad proj step tol s) with (st s) in *. destruct (snd (st s)) eqn:E; [cbn in Hk; lia|].
  destruct k as [|k]; cbn [nth]; [reflexivity|].
  cbn [length] in Hk. rewrite IH by lia. reflexivity.
Qed.
(* no early return <-> n callbacks *)
Lemma sd_trace_full (n : nat) (s : Rvec * bool) :
  snd (iter n st s) = false -> length (sd_trace grad proj step tol n s) = n.
Proof.
  revert s; induction n as [|n IH]; intros s Hf; cbn [sd_trace]; cbv zeta; [reflexivity|].
  change (sd_step grad proj step tol s) with (st s). cbn [iter] in Hf.
  destruct (snd (st s)) eqn:E.
  - exfalso. destruct (st s) as [x b] eqn:Es; cbn [snd] in E; subst b.
    rewrite sd_stopped_iter in Hf. discriminate.
  - cbn [length]. rewrite IH; auto.
Qed.
End SD_R.

(* ===================================== sweeps: kaczmarz and osmlem callbacks *)
Section Sweeps_R.
Variable proj : Rvec -> Rvec.
Notation kzopR := (@kzop R).
Lemma kz_sweep_trace_length (ops : list kzopR) (x : Rvec) : length (snd (kz_sweep proj ops x)) = length ops.
Proof.
  revert x; induction ops as [|o ops IH]; intros x; [reflexivity|]. cbn [kz_sweep].
  specialize (IH (kz_one proj o x)). destruct (kz_sweep proj ops (kz_one proj o x)) as [xf tr].
  cbn [snd length] in *. now rewrite IH.
Qed.
Lemma kz_trace_inner_length (ops : list kzopR) (n : nat) (x : Rvec) :
  length (kz_trace_inner proj ops n x) = (n * length ops)%nat.
Proof.
  revert x; induction n as [|n IH]; intros x; [reflexivity|]. cbn [kz_trace_inner].
  pose proof (kz_sweep_trace_length ops x) as E. destruct (kz_sweep proj ops x) as [xf tr]. cbn [snd] in E.
  rewrite app_length, IH, E. lia.
Qed.
(* the last inner callback of a sweep is the outer callback's iterate *)
Lemma kz_sweep_last (ops : list kzopR) (x : Rvec) :
  ops <> [] -> last (snd (kz_sweep proj ops x)) [] = fst (kz_sweep proj ops x).
Proof.
  revert x; induction ops as [|o ops IH]; intros x Hne; [congruence|]. cbn [kz_sweep].
  destruct ops as [|o' ops]; [reflexivity|].
  specialize (IH (kz_one proj o x) ltac:(discriminate)).
  destruct (kz_sweep proj (o' :: ops) (kz_one proj o x)) as [xf tr] eqn:E. cbn [fst snd] in *.
  destruct tr as [|t tr]; [|exact IH].
  exfalso. pose proof (kz_sweep_trace_length (o' :: ops) (kz_one proj o x)) as El. rewrite E in El. cbn in El. lia.
Qed.
(* Kaczmarz with a single operator is Landweber *)
Lemma kz_single_is_landweber (o : kzopR) (x : Rvec) :
  kz_step proj [o] x = landweber_step (kz_A o) (kz_Dadj o) proj (kz_rhs o) (kz_omega o) x.
Proof. reflexivity. Qed.
End Sweeps_R.

Section EM_R.
Variable eps : R.
Notation emopR := (@emop R).
Lemma em_sweep_trace_length (ops : list emopR) (x : Rvec) : length (snd (em_sweep eps ops x)) = length ops.
Proof.
  revert x; induction ops as [|o ops IH]; intros x; [reflexivity|]. cbn [em_sweep].
  specialize (IH (em_one eps o x)). destruct (em_sweep eps ops (em_one eps o x)) as [xf tr].
  cbn [snd length] in *. now rewrite IH.
Qed.
Lemma em_trace_length (ops : list emopR) (n : nat) (x : Rvec) :
  length (em_trace eps ops n x) = (n * length ops)%nat.
Proof.
  revert x; induction n as [|n IH]; intros x; [reflexivity|]. cbn [em_trace].
  pose proof (em_sweep_trace_length ops x) as E. destruct (em_sweep eps ops x) as [xf tr]. cbn [snd] in E.
  rewrite app_length, IH, E. lia.
Qed.
(* mlem = osmlem with one subset: the trace is the plain per-iteration trace *)
Lemma mlem_trace (o : emopR) (n : nat) (x : Rvec) :
  em_trace eps [o] n x = trace (fun x => x) n (em_step eps [o]) x.
Proof.
  revert x; induction n as [|n IH]; intros x; [reflexivity|].
  cbn [em_trace trace em_sweep em_step fst app]. now rewrite IH.
Qed.
End EM_R.

(* ============================= statements in the exact form used by Props.v *)
Lemma lw_resume (A : Rvec -> Rvec) (Dadj : Rvec -> Rvec -> Rvec) (proj : Rvec -> Rvec) (rhs : Rvec) (omega : R)
  (n m : nat) (x : Rvec) :
  iter (n + m) (landweber_step A Dadj proj rhs omega) x
  = iter m (landweber_step A Dadj proj rhs omega) (iter n (landweber_step A Dadj proj rhs omega) x).
Proof. apply iter_add. Qed.
Lemma kz_resume (proj : Rvec -> Rvec) (ops : list (@kzop R)) (n m : nat) (x : Rvec) :
  iter (n + m) (kz_step proj ops) x = iter m (kz_step proj ops) (iter n (kz_step proj ops) x).
Proof. apply iter_add. Qed.
Lemma em_resume (eps : R) (ops : list (@emop R)) (n m : nat) (x : Rvec) :
  iter (n + m) (em_step eps ops) x = iter m (em_step eps ops) (iter n (em_step eps ops) x).
Proof. apply iter_add. Qed.
Lemma pdhg_resume (L Ladj proxp proxd : Rvec -> Rvec) (tau sigma theta : R) (n m : nat) (s : pdhg_st) :
  iter (n + m) (pdhg_step L Ladj proxp proxd tau sigma theta) s
  = iter m (pdhg_step L Ladj proxp proxd tau sigma theta) (iter n (pdhg_step L Ladj proxp proxd tau sigma theta) s).
Proof. apply iter_add. Qed.
Lemma dpdc_resume (K Kadj proxf proxgc gradphi : Rvec -> Rvec) (gamma mu : R) (n m : nat) (s : Rvec * Rvec) :
  iter (n + m) (dpdc_opt_step K Kadj proxf proxgc gradphi gamma mu) s
  = iter m (dpdc_opt_step K Kadj proxf proxgc gradphi gamma mu)
      (iter n (dpdc_opt_step K Kadj proxf proxgc gradphi gamma mu) s).
Proof. apply iter_add. Qed.

Lemma pg_resume_callable_refuted :
  exists (proxf gradg : Rvec -> Rvec) (gamma : R) (lam : nat -> R) (n m : nat) (x : Rvec),
  iterk (n + m) 0 (pg_step proxf gradg gamma lam) x
  <> iterk m 0 (pg_step proxf gradg gamma lam) (iterk n 0 (pg_step proxf gradg gamma lam) x).
Proof.
  exists (fun x => map (fun a => a / 2) x), (fun x => map (fun _ => 0) x), 1,
         (fun k => match k with O => 1 | _ => 0 end), 1%nat, 1%nat, [2].
  exact pg_resume_same_lam_counterexample.
Qed.

Lemma callback_once_gen (St : Type) (obs : St -> Rvec) (f : St -> St) (niter : nat) (s : St) :
  length (trace obs niter f s) = niter
  /\ forall k, (k < niter)%nat -> nth k (trace obs niter f s) [] = obs (iter (S k) f s).
Proof. split; [apply trace_length | intros; now apply trace_nth]. Qed.
Lemma callback_once_counter_gen (St : Type) (obs : St -> Rvec) (f : nat -> St -> St) (niter : nat) (s : St) :
  length (tracek obs niter 0 f s) = niter
  /\ forall k, (k < niter)%nat -> nth k (tracek obs niter 0 f s) [] = obs (iterk (S k) 0 f s).
Proof. split; [apply tracek_length | intros; now apply tracek_nth]. Qed.
Lemma sd_callbacks (grad proj : Rvec -> Rvec) (step tol : R) (maxiter : nat) (x : Rvec) :
  (length (sd_trace grad proj step tol maxiter (x, false)) <= maxiter)%nat
  /\ (snd (iter maxiter (sd_step grad proj step tol) (x, false)) = false ->
      length (sd_trace grad proj step tol maxiter (x, false)) = maxiter)
  /\ forall k, (k < length (sd_trace grad proj step tol maxiter (x, false)))%nat ->
       nth k (sd_trace grad proj step tol maxiter (x, false)) []
       = fst (iter (S k) (sd_step grad proj step tol) (x, false)).
Proof.
  split; [apply sd_trace_le | split; [apply sd_trace_full | intros; now apply sd_trace_nth]].
Qed.

(* ================================================ Douglas-Rachford primal-dual *)
Lemma nth_last_aux (l : list Rvec) (d : Rvec) (n : nat) : length l = S n -> nth n l d = last l d.
Proof.
  revert n; induction l as [|a l IH]; intros n Hl; [discriminate|].
  destruct l as [|b l].
  - cbn in Hl. injection Hl as <-. reflexivity.
  - destruct n as [|n]; [cbn in Hl; lia|].
    change (nth (S n) (a :: b :: l) d) with (nth n (b :: l) d).
    change (last (a :: b :: l) d) with (last (b :: l) d).
    apply IH. cbn in *; lia.
Qed.
Section DR_R.
Variables (proxf : Rvec -> Rvec) (tau : R) (lam : nat -> R).
Notation dropR := (@drop R).
Lemma dr_trace_length (ops : list dropR) (n k0 : nat) s : length (dr_trace proxf tau lam ops n k0 s) = n.
Proof. revert k0 s; induction n as [|n IH]; intros k0 s; cbn [dr_trace length]; [reflexivity | now rewrite IH]. Qed.
Lemma dr_trace_nth (ops : list dropR) (n k0 k : nat) s : (k < n)%nat ->
  nth k (dr_trace proxf tau lam ops n k0 s) [] = dr_p1 proxf tau lam ops (k0 + k) (iterk k k0 (dr_step proxf tau lam ops) s).
Proof.
  revert k0 k s; induction n as [|n IH]; intros k0 k s Hk; [lia|].
  cbn [dr_trace]. destruct k as [|k]; cbn [nth iterk].
  - now rewrite Nat.add_0_r.
  - rewrite IH by lia. now replace (S k0 + k)%nat with (k0 + S k)%nat by lia.
Qed.
(* the k-th callback of any longer run is what a run with niter = k+1 returns;
   in particular the last callback is the returned x *)
Lemma dr_callbacks (ops : list dropR) (n : nat) (x : Rvec) :
  length (dr_trace proxf tau lam ops n 0 (dr_init ops x)) = n
  /\ (forall k, (k < n)%nat ->
        nth k (dr_trace proxf tau lam ops n 0 (dr_init ops x)) [] = dr_run proxf tau lam ops (S k) x)
  /\ dr_run proxf tau lam ops n x = last (dr_trace proxf tau lam ops n 0 (dr_init ops x)) x.
Proof.
  split; [apply dr_trace_length|]. split.
  - intros k Hk. rewrite dr_trace_nth by exact Hk. reflexivity.
  - destruct n as [|n]; [reflexivity|].
    rewrite <- (nth_last_aux _ x n) by apply dr_trace_length.
    rewrite (nth_indep _ x []) by (rewrite dr_trace_length; lia).
    rewrite dr_trace_nth by lia. reflexivity.
Qed.
End DR_R.

Lemma dca_resume (gradfcc gradg : Rvec -> Rvec) (n m : nat) (x : Rvec) :
  iter (n + m) (dca_step gradfcc gradg) x = iter m (dca_step gradfcc gradg) (iter n (dca_step gradfcc gradg) x).
Proof. apply iter_add. Qed.
Lemma prox_dca_resume (gradg proxf : Rvec -> Rvec) (gamma : R) (n m : nat) (x : Rvec) :
  iter (n + m) (prox_dca_step gradg proxf gamma) x
  = iter m (prox_dca_step gradg proxf gamma) (iter n (prox_dca_step gradg proxf gamma) x).
Proof. apply iter_add. Qed.

(* ============================ random order: the permutations are parameters *)
Section ORD_R.
Variable stepsize : R.
Notation adopR := (@adop R).
Lemma ad_sweep_ord_refines (ops : list adopR) (dflt : adopR) (ord : list nat) : forall (duals tmps : list Rvec) (x : Rvec),
  (forall j, In j ord -> (ad_key (nth j ops dflt) < length tmps)%nat) ->
  let '(xo, dso, _) := ad_sweep_ord_opt stepsize ops dflt ord duals tmps x in
  (xo, dso) = ad_sweep_ord_ref stepsize ops dflt ord duals x.
Proof.
  induction ord as [|j ord IH]; intros duals tmps x Hk; [reflexivity|].
  cbn [ad_sweep_ord_opt ad_sweep_ord_ref].
  rewrite getnth_setnth by (apply Hk; now left).
  apply IH. intros i Hi. rewrite setnth_length. apply Hk. now right.
Qed.
Lemma ad_sweep_ord_tmps_length (ops : list adopR) (dflt : adopR) (ord : list nat) : forall (duals tmps : list Rvec) (x : Rvec),
  length (snd (ad_sweep_ord_opt stepsize ops dflt ord duals tmps x)) = length tmps.
Proof.
  induction ord as [|j ord IH]; intros duals tmps x; [reflexivity|].
  cbn [ad_sweep_ord_opt]. rewrite IH. apply setnth_length.
Qed.
(* optimised = reference for every sequence of index lists (one per outer iteration) *)
Lemma ad_ord_refines (ops : list adopR) (dflt : adopR) (order : nat -> list nat) :
  (forall k j, In j (order k) -> (j < length ops)%nat) ->
  forall n k0 x duals tmps,
  (forall j, (j < length ops)%nat -> (ad_key (nth j ops dflt) < length tmps)%nat) ->
  let so := iterk n k0 (fun k => ad_opt_step_ord stepsize ops dflt (order k)) (x, duals, tmps) in
  let sr := iterk n k0 (fun k => ad_ref_step_ord stepsize ops dflt (order k)) (x, duals) in
  fst so = sr.
Proof.
  intros Hord n; induction n as [|n IH]; intros k0 x duals tmps Hk; [reflexivity|].
  cbn [iterk]. unfold ad_opt_step_ord at 2, ad_ref_step_ord at 2.
  pose proof (ad_sweep_ord_refines ops dflt (order k0) duals tmps (ad_pre stepsize ops duals x)
                ltac:(intros j Hj; apply Hk, (Hord k0 j Hj))) as E.
  pose proof (ad_sweep_ord_tmps_length ops dflt (order k0) duals tmps (ad_pre stepsize ops duals x)) as El.
  destruct (ad_sweep_ord_opt stepsize ops dflt (order k0) duals tmps (ad_pre stepsize ops duals x)) as [[xo dso] tmo].
  rewrite <- E. cbn [snd] in El. apply IH. now rewrite El.
Qed.
End ORD_R.
(* resumption with random order: exact when the second call continues the permutation stream *)
Lemma kz_ord_resume (proj : Rvec -> Rvec) (ops : list (@kzop R)) (dflt : @kzop R) (order : nat -> list nat) (n m : nat) (x : Rvec) :
  iterk (n + m) 0 (fun k => kz_step_ord proj ops dflt (order k)) x
  = iterk m 0 (fun k => kz_step_ord proj ops dflt (order (n + k)%nat))
      (iterk n 0 (fun k => kz_step_ord proj ops dflt (order k)) x).
Proof. rewrite iterk_add, iterk_shift. reflexivity. Qed.

(* ===================================== accelerated PDHG: (tau, sigma, x, x_relax, y) is the whole state *)
Section PDHGacc_R.
Variables (L Ladj : Rvec -> Rvec) (proxp proxd : R -> Rvec -> Rvec) (acc : R * R -> R * (R * R)).
Lemma pdhg_acc_resume (n m : nat) (ts : R * R) (st : pdhg_st) :
  pdhg_acc_iter L Ladj proxp proxd acc (n + m) ts st
  = let '(ts1, st1) := pdhg_acc_iter L Ladj proxp proxd acc n ts st in
    pdhg_acc_iter L Ladj proxp proxd acc m ts1 st1.
Proof.
  revert ts st; induction n as [|n IH]; intros ts st; cbn [pdhg_acc_iter Nat.add]; [reflexivity|].
  destruct (acc ts) as [th ts']. apply IH.
Qed.
(* the recursive form is the counter-indexed form used for the regenerated program *)
Lemma pdhg_acc_iter_iterk (n : nat) : forall (k0 : nat) (ts0 ts : R * R) (st : pdhg_st),
  ts = acc_steps acc k0 ts0 ->
  pdhg_acc_iter L Ladj proxp proxd acc n ts st
  = (acc_steps acc (k0 + n) ts0,
     iterk n k0 (fun k => let tk := acc_steps acc k ts0 in
                          pdhg_step L Ladj (proxp (fst tk)) (proxd (snd tk)) (fst tk) (snd tk) (fst (acc tk))) st).
Proof.
  induction n as [|n IH]; intros k0 ts0 ts st E; cbn [pdhg_acc_iter iterk].
  - now rewrite Nat.add_0_r, E.
  - subst ts. destruct (acc (acc_steps acc k0 ts0)) as [th ts'] eqn:Ea.
    rewrite (IH (S k0) ts0 ts').
    + replace (S k0 + n)%nat with (k0 + S n)%nat by lia. cbn [fst]. reflexivity.
    + assert (Hs : forall k t, acc_steps acc (S k) t = snd (acc (acc_steps acc k t))).
      { induction k as [|k IHk]; intros t; cbn [acc_steps]; [reflexivity|]. apply IHk. }
      rewrite Hs, Ea. reflexivity.
Qed.
End PDHGacc_R.
