(* C11/Proofs.v -- lemmas about the solver models. *)
From Coq Require Import ZArith Reals Lra Lia List Bool.
From Verif Require Import Base.Num Base.Vec Base.VecR C11.Model.
Import ListNotations.
Local Open Scope R_scope.

Lemma iter_add {St} (f : St -> St) (n m : nat) (s : St) : iter (n + m) f s = iter m f (iter n f s).
Proof. revert s; induction n as [|n IH]; intros s; cbn [iter Nat.add]; [reflexivity | apply IH]. Qed.
