(* C11/Syntax.v -- a small imperative language for the solver loops as they
   are written in the source: Python names bound to mutable vector objects.
   translate/solvers.py re-emits the preamble and the loop body of each
   translated solver in this language (Gen/Solvers.v) on every run. *)
From Coq Require Import ZArith QArith String List.
Import ListNotations.

(* scalar expressions *)
Inductive sx :=
| SInt (z : Z)                 (* integral literal: 1, 2, 1.0 *)
| SNum (q : Q)                 (* other float literal *)
| SPar (s : string)            (* scalar parameter or scalar local: tau, sigma, theta, lam_k ... *)
| SNeg (a : sx)
| SAdd (a b : sx) | SSub (a b : sx) | SMul (a b : sx) | SDiv (a b : sx).

(* vector expressions: evaluating one never mutates an object; every
   arithmetic node denotes a NEW object *)
Inductive vx :=
| VName (x : string)                        (* the object bound to x *)
| VApp (f : string) (a : vx)                (* f(a): operator, adjoint, proximal, gradient, projection result *)
| VApp2 (f : string) (p a : vx)             (* op.derivative(p).adjoint(a) *)
| VAdd (a b : vx) | VSub (a b : vx)         (* a + b, a - b *)
| VMul (a b : vx) | VDiv (a b : vx)         (* entrywise a * b, a / b *)
| VMaxc (c : sx) (a : vx)                   (* a.ufuncs.maximum(c) *)
| VScal (c : sx) (a : vx)                   (* c * a *)
| VLin (a : sx) (x : vx) (b : sx) (y : vx)  (* the value written by  out.lincomb(a, x, b, y) *)
| VZero (space : string)                    (* space.zero() *)
| VJunk (x : string).                       (* space.element(): uninitialised memory *)

Inductive stmt :=
| Bind (x : string) (e : vx)        (* x = e        : x names a new object *)
| Alias (x y : string)              (* x = y        : x names the object y names *)
| Default (x : string) (s : stmt)   (* if x is None: s *)
| Write (x : string) (e : vx)       (* in place: x[:] = e, x.assign(e), x += .., x.lincomb(..), op(.., out=x) *)
| Callback (x : string)             (* callback(x) *)
| ReturnIfNormSqLt (x : string) (tol : sx).   (* d = -x.norm() ** 2; if np.abs(d) < tol: return *)

(* skeleton of the main loop body of the solvers that loop over a list of
   operators: plain statements and inner loops  for i in range(len(ops))
   whose bodies are per-index programs over indexed names ("duals[j]") *)
Inductive ostmt :=
| OStmt (s : stmt)
| OFor (idx : string) (body : list stmt).
