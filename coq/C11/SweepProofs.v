(* C11/SweepProofs.v -- the list solvers regenerated WITH their preambles
   (Gen/SolversL.v): heap-level statements for every number of operators. *)
From Coq Require Import ZArith QArith Reals Lra Lia List Bool String.
From Verif Require Import Base.Num Base.Vec Base.VecR C11.Model C11.Syntax C11.Interp C11.SyntaxL C11.InterpL.
From Verif Require Import C11.Proofs C11.GenProofs Gen.SolversL.
Import ListNotations.
Local Open Scope string_scope.

(* ------------------------------------------------------------ store laws *)
Lemma oid_eqb_spec (a b : oid) : reflect (a = b) (oid_eqb a b).
Proof.
  destruct a, b; cbn [oid_eqb]; try (constructor; discriminate).
  - destruct (String.eqb_spec s s0); constructor; congruence.
  - destruct (String.eqb_spec s s0), (Nat.eqb_spec j j0); cbn; constructor; congruence.
  - destruct (String.eqb_spec s s0), (Nat.eqb_spec j j0); cbn; constructor; congruence.
  - destruct (String.eqb_spec s s0), (Nat.eqb_spec k k0); cbn; constructor; congruence.
  - destruct (Nat.eqb_spec n n0); constructor; congruence.
Qed.
Lemma hget_hset_same (h : @heap R) o v : hget (hset h o v) o = Some v.
Proof. unfold hget, hset. destruct (oid_eqb_spec o o); congruence. Qed.
Lemma hget_hset_other (h : @heap R) o o' v : o' <> o -> hget (hset h o v) o' = hget h o'.
Proof. intros Hn. unfold hget, hset. destruct (oid_eqb_spec o' o); congruence. Qed.

Ltac oid_neq := first [discriminate | congruence | (intros E; injection E; intros; subst; lia) | (intros E; inversion E; lia)].
(* symbolic execution over an abstract store: compute, then resolve reads through the laws and the
   hypotheses describing the store *)
Ltac lstep :=
  cbn -[vadd vsub vlin vscal vmul vdiv vmaxc vzero hget hset Nat.eqb Nat.ltb Rplus Rminus Rmult Rdiv Ropp Rinv IZR].
Ltac lsym :=
  repeat (progress (lstep;
          repeat match goal with
                 | |- _ => rewrite hget_hset_same
                 | |- _ => rewrite hget_hset_other by oid_neq
                 | H : hget _ _ = Some _ |- _ => rewrite H
                 | H : vget _ _ = Some _ |- _ => rewrite H
                 | H : lget _ _ = Some _ |- _ => rewrite H
                 end)).

(* list facts *)
Lemma skipn_nth_cons {A} (l : list A) (d : A) (j : nat) : (j < List.length l)%nat -> skipn j l = nth j l d :: skipn (S j) l.
Proof.
  revert j; induction l as [|a l IH]; intros j Hj; cbn [List.length] in Hj; [lia|].
  destruct j as [|j]; [reflexivity|]. cbn [skipn nth]. apply IH. lia.
Qed.
Lemma nth_setnth_same (i : nat) (v : Rvec) (l : list Rvec) : (i < List.length l)%nat -> nth i (setnth i v l) [] = v.
Proof. intros Hi. apply (getnth_setnth i v l Hi). Qed.
Lemma nth_setnth_other (i k : nat) (v : Rvec) (l : list Rvec) : k <> i -> nth k (setnth i v l) [] = nth k l [].
Proof.
  revert i k; induction l as [|a l IH]; intros i k Hn; destruct i, k; cbn [setnth nth]; try reflexivity; try congruence.
  apply IH. congruence.
Qed.

Lemma nth_repeat_lt {A} (a d : A) (n k : nat) : (k < n)%nat -> nth k (repeat a n) d = a.
Proof. revert k; induction n as [|n IH]; intros k Hk; [lia|]. destruct k; cbn [repeat nth]; [reflexivity | apply IH; lia]. Qed.

Local Open Scope R_scope.
Section ADUPsweep.
Variables (stepsize : R) (junk : string -> Rvec) (dflt : @adop R).
Variable ops : list (@adop R).
Hypothesis scalar_inner : forall j, (j < List.length ops)%nat -> ad_inner_v (nth j ops dflt) = None.
Definition adI (j : nat) : interp :=
  let o := nth j ops dflt in
  mk_I [("stepsize", stepsize); ("inner_stepsizes[j]", ad_inner o)]
       [("L[i].adjoint", ad_Ladj o); ("L[j]", ad_L o); ("L[j].adjoint", ad_Ladj o);
        ("g[j].convex_conj.proximal(stepsize * inner_stepsizes[j])", ad_prox o)]
       [] [("ranges[j]", vzero (ad_m o))] junk.
Definition adkey (j : nat) : nat := ad_key (nth j ops dflt).
Definition ad_body1 : list lstmt := match adupdates_lbody with IFor b :: _ => b | _ => [] end.
Definition ad_body2 : list lstmt := match adupdates_lbody with _ :: IFor b :: _ => b | _ => [] end.

(* one pass of the second inner loop body at index j, on any store that has x, duals[j] and the temporary *)
Lemma ad_step2 j ve le h nx log x d t :
  vget ve "x" = Some (OCaller "x") -> lget le "duals" = Some KComp -> lget le "tmp_rans" = Some KDict ->
  hget h (OCaller "x") = Some x -> hget h (OList "duals" j) = Some d -> hget h (ODict "tmp_rans" (adkey j)) = Some t ->
  ad_inner_v (nth j ops dflt) = None ->
  let o := nth j ops dflt in
  let p := ad_prox o (ad_arg stepsize o d x) in
  exists ve' h',
    lexec (adI j) adkey j ad_body2 (mk_lst ve le h nx log) = Some (mk_lst ve' le h' (S nx) log)
    /\ vget ve' "x" = Some (OCaller "x")
    /\ hget h' (OCaller "x") = Some (adup_x1 stepsize o x d)
    /\ hget h' (OList "duals" j) = Some p /\ hget h' (ODict "tmp_rans" (adkey j)) = Some p
    /\ forall c, c <> OCaller "x" -> c <> OList "duals" j -> c <> ODict "tmp_rans" (adkey j) -> c <> OFresh nx ->
         hget h' c = hget h c.
Proof.
  intros Hv Hl1 Hl2 Hx Hd Ht Hs o p. subst o p. unfold adup_x1, ad_arg. rewrite Hs.
  eexists; eexists. split.
  - cbv [ad_body2 adupdates_lbody]. unfold lexec. lsym. reflexivity.
  - repeat split; lsym; try reflexivity.
    intros c H1 H2 H3 H4. rewrite !hget_hset_other by assumption. reflexivity.
Qed.

(* first inner loop body at index i *)
Lemma ad_step1 j ve le h nx log x d :
  vget ve "x" = Some (OCaller "x") -> lget le "duals" = Some KComp ->
  hget h (OCaller "x") = Some x -> hget h (OList "duals" j) = Some d ->
  exists h',
    lexec (adI j) adkey j ad_body1 (mk_lst ve le h nx log) = Some (mk_lst ve le h' nx log)
    /\ hget h' (OCaller "x") = Some (ad_pre stepsize [nth j ops dflt] [d] x)
    /\ forall c, c <> OCaller "x" -> hget h' c = hget h c.
Proof.
  intros Hv Hl1 Hx Hd. eexists. split.
  - cbv [ad_body1 adupdates_lbody]. unfold lexec. lsym. reflexivity.
  - split; lsym; try reflexivity. intros c H1. rewrite !hget_hset_other by assumption. reflexivity.
Qed.

(* the whole first loop: x -= (1/stepsize) * sum_i L[i].adjoint(duals[i]), all other cells untouched *)
Lemma ad_loop1 : forall rem j0 ve le h nx log x ds,
  (j0 + rem = List.length ops)%nat ->
  vget ve "x" = Some (OCaller "x") -> lget le "duals" = Some KComp ->
  hget h (OCaller "x") = Some x -> List.length ds = rem ->
  (forall i, (i < rem)%nat -> hget h (OList "duals" (j0 + i)) = Some (nth i ds [])) ->
  exists h',
    lfor adI adkey ad_body1 j0 rem (mk_lst ve le h nx log) = Some (mk_lst ve le h' nx log)
    /\ hget h' (OCaller "x") = Some (ad_pre stepsize (skipn j0 ops) ds x)
    /\ forall c, c <> OCaller "x" -> hget h' c = hget h c.
Proof.
  induction rem as [|rem IH]; intros j0 ve le h nx log x ds Hn Hv Hl1 Hx Hlen Hds.
  - exists h. cbn [lfor]. destruct ds; [|discriminate]. rewrite skipn_all2 by lia. repeat split; assumption.
  - destruct ds as [|d ds]; [discriminate|]. cbn [lfor].
    destruct (ad_step1 j0 ve le h nx log x d Hv Hl1 Hx) as (h1 & E1 & Hx1 & F1).
    { specialize (Hds 0%nat ltac:(lia)). now rewrite Nat.add_0_r in Hds. }
    rewrite E1. cbn [obind].
    destruct (IH (S j0) ve le h1 nx log _ ds ltac:(lia) Hv Hl1 Hx1 ltac:(cbn in Hlen; lia)) as (h2 & E2 & Hx2 & F2).
    { intros i Hi. rewrite F1 by discriminate. specialize (Hds (S i) ltac:(lia)).
      now replace (j0 + S i)%nat with (S j0 + i)%nat in Hds by lia. }
    exists h2. split; [exact E2|]. split.
    + rewrite Hx2. rewrite (skipn_nth_cons ops dflt j0) by lia. reflexivity.
    + intros c Hc. rewrite F2, F1 by assumption. reflexivity.
Qed.

(* the whole second loop = the model's sweep with the shared temporaries, for every number of operators *)
Lemma ad_loop2 : forall rem j0 ve le h nx log x ds ts,
  (j0 + rem = List.length ops)%nat ->
  vget ve "x" = Some (OCaller "x") -> lget le "duals" = Some KComp -> lget le "tmp_rans" = Some KDict ->
  hget h (OCaller "x") = Some x -> List.length ds = rem ->
  (forall i, (i < rem)%nat -> hget h (OList "duals" (j0 + i)) = Some (nth i ds [])) ->
  (forall k, (k < List.length ts)%nat -> hget h (ODict "tmp_rans" k) = Some (nth k ts [])) ->
  (forall i, (i < rem)%nat -> (adkey (j0 + i) < List.length ts)%nat) ->
  exists ve' h' nx',
    lfor adI adkey ad_body2 j0 rem (mk_lst ve le h nx log) = Some (mk_lst ve' le h' nx' log)
    /\ vget ve' "x" = Some (OCaller "x")
    /\ (let '(xf, ds', ts', _) := ad_sweep_opt stepsize (skipn j0 ops) ds ts x in
        hget h' (OCaller "x") = Some xf
        /\ List.length ds' = rem /\ (forall i, (i < rem)%nat -> hget h' (OList "duals" (j0 + i)) = Some (nth i ds' []))
        /\ List.length ts' = List.length ts
        /\ (forall k, (k < List.length ts)%nat -> hget h' (ODict "tmp_rans" k) = Some (nth k ts' [])))
    /\ (forall i, (i < j0)%nat -> hget h' (OList "duals" i) = hget h (OList "duals" i))
    /\ (forall s, hget h' (OCaller s) = hget h (OCaller s) \/ s = "x").
Proof.
  induction rem as [|rem IH]; intros j0 ve le h nx log x ds ts Hn Hv Hl1 Hl2 Hx Hlen Hds Hts Hkeys.
  - exists ve, h, nx. cbn [lfor]. destruct ds; [|discriminate]. rewrite skipn_all2 by lia. cbn [ad_sweep_opt].
    repeat split; auto; try (intros; lia).
  - destruct ds as [|d ds]; [discriminate|]. cbn [lfor].
    assert (Hj0 : (j0 < List.length ops)%nat) by lia.
    assert (Hd : hget h (OList "duals" j0) = Some d).
    { specialize (Hds 0%nat ltac:(lia)). now rewrite Nat.add_0_r in Hds. }
    assert (Hk0 : (adkey j0 < List.length ts)%nat).
    { specialize (Hkeys 0%nat ltac:(lia)). now rewrite Nat.add_0_r in Hkeys. }
    destruct (ad_step2 j0 ve le h nx log x d (nth (adkey j0) ts []) Hv Hl1 Hl2 Hx Hd (Hts _ Hk0) (scalar_inner j0 Hj0))
      as (ve1 & h1 & E1 & Hv1 & Hx1 & Hd1 & Ht1 & F1).
    rewrite E1. cbn [obind].
    set (o := nth j0 ops dflt) in *. set (p := ad_prox o (ad_arg stepsize o d x)) in *.
    set (x1 := adup_x1 stepsize o x d) in *.
    destruct (IH (S j0) ve1 le h1 (S nx) log x1 ds (setnth (adkey j0) p ts) ltac:(lia) Hv1 Hl1 Hl2 Hx1
                ltac:(cbn in Hlen; lia)) as (ve2 & h2 & nx2 & E2 & Hv2 & Hres & Fpre & Fcal).
    { intros i Hi. rewrite F1 by oid_neq. specialize (Hds (S i) ltac:(lia)).
      now replace (j0 + S i)%nat with (S j0 + i)%nat in Hds by lia. }
    { intros k Hk. rewrite setnth_length in Hk. destruct (Nat.eq_dec k (adkey j0)) as [->|Hne].
      - rewrite Ht1, nth_setnth_same by exact Hk0. reflexivity.
      - rewrite F1 by oid_neq. rewrite nth_setnth_other by exact Hne. apply Hts, Hk. }
    { intros i Hi. rewrite setnth_length. specialize (Hkeys (S i) ltac:(lia)).
      now replace (j0 + S i)%nat with (S j0 + i)%nat in Hkeys by lia. }
    exists ve2, h2, nx2. split; [exact E2|]. split; [exact Hv2|]. split; [|split].
    + rewrite (skipn_nth_cons ops dflt j0) by exact Hj0. cbn [ad_sweep_opt]. fold o.
      rewrite (getnth_setnth (adkey j0) _ ts Hk0). fold (ad_key o). change (ad_key o) with (adkey j0). fold p.
      change (vsub x (vscal (none_ / stepsize)%num (ad_Ladj o (vsub p d)))) with x1.
      destruct (ad_sweep_opt stepsize (skipn (S j0) ops) ds (setnth (adkey j0) p ts) x1) as [[[xf ds'] ts'] tr'].
      destruct Hres as (Hxf & Hl' & Hds' & Hlt' & Hts').
      split; [exact Hxf|]. split; [cbn [List.length]; lia|]. split; [|split].
      * intros i Hi. destruct i as [|i].
        -- rewrite Nat.add_0_r, Fpre by lia. exact Hd1.
        -- replace (j0 + S i)%nat with (S j0 + i)%nat by lia. cbn [nth]. apply Hds'. lia.
      * rewrite Hlt'. apply setnth_length.
      * intros k Hk. apply Hts'. now rewrite setnth_length.
    + intros i Hi. rewrite Fpre by lia. apply F1; oid_neq.
    + intros s0. destruct (String.eqb_spec s0 "x") as [->|Hne]; [now right|]. left.
      destruct (Fcal s0) as [E|E]; [|contradiction]. rewrite E. apply F1; oid_neq.
Qed.

(* ---------------------------------------------------------------- reference version *)
Definition ads_body2 : list lstmt := match adupdates_simple_lbody with _ :: IFor b :: _ => b | _ => [] end.
Lemma ads_shapes :
  adupdates_lbody = [IFor ad_body1; IFor ad_body2; IStmt (LCallback (RVar "x"))]
  /\ adupdates_simple_lbody = [IFor ad_body1; IFor ads_body2].
Proof. split; reflexivity. Qed.

Lemma ads_step2 j ve le h nx log x d :
  vget ve "x" = Some (OCaller "x") -> lget le "duals" = Some KComp ->
  hget h (OCaller "x") = Some x -> hget h (OList "duals" j) = Some d ->
  ad_inner_v (nth j ops dflt) = None ->
  let o := nth j ops dflt in
  let p := ad_prox o (ad_arg stepsize o d x) in
  exists ve' h',
    lexec (adI j) adkey j ads_body2 (mk_lst ve le h nx log) = Some (mk_lst ve' le h' (S (S nx)) log)
    /\ vget ve' "x" = Some (OCaller "x")
    /\ hget h' (OCaller "x") = Some (adup_x1 stepsize o x d)
    /\ hget h' (OList "duals" j) = Some p
    /\ forall c, c <> OCaller "x" -> c <> OList "duals" j -> c <> OFresh nx -> c <> OFresh (S nx) ->
         hget h' c = hget h c.
Proof.
  intros Hv Hl1 Hx Hd Hs o p. subst o p. unfold adup_x1, ad_arg. rewrite Hs.
  eexists; eexists. split.
  - cbv [ads_body2 adupdates_simple_lbody]. unfold lexec. lsym. reflexivity.
  - repeat split; lsym; try reflexivity.
    intros c H1 H2 H3 H4. rewrite !hget_hset_other by assumption. reflexivity.
Qed.

Lemma ads_loop2 : forall rem j0 ve le h nx log x ds,
  (j0 + rem = List.length ops)%nat ->
  vget ve "x" = Some (OCaller "x") -> lget le "duals" = Some KComp ->
  hget h (OCaller "x") = Some x -> List.length ds = rem ->
  (forall i, (i < rem)%nat -> hget h (OList "duals" (j0 + i)) = Some (nth i ds [])) ->
  exists ve' h' nx',
    lfor adI adkey ads_body2 j0 rem (mk_lst ve le h nx log) = Some (mk_lst ve' le h' nx' log)
    /\ vget ve' "x" = Some (OCaller "x")
    /\ (let '(xf, ds', _) := ad_sweep_ref stepsize (skipn j0 ops) ds x in
        hget h' (OCaller "x") = Some xf
        /\ List.length ds' = rem /\ (forall i, (i < rem)%nat -> hget h' (OList "duals" (j0 + i)) = Some (nth i ds' [])))
    /\ (forall i, (i < j0)%nat -> hget h' (OList "duals" i) = hget h (OList "duals" i)).
Proof.
  induction rem as [|rem IH]; intros j0 ve le h nx log x ds Hn Hv Hl1 Hx Hlen Hds.
  - exists ve, h, nx. cbn [lfor]. destruct ds; [|discriminate]. rewrite skipn_all2 by lia. cbn [ad_sweep_ref].
    repeat split; auto; try (intros; lia).
  - destruct ds as [|d ds]; [discriminate|]. cbn [lfor].
    assert (Hj0 : (j0 < List.length ops)%nat) by lia.
    assert (Hd : hget h (OList "duals" j0) = Some d).
    { specialize (Hds 0%nat ltac:(lia)). now rewrite Nat.add_0_r in Hds. }
    destruct (ads_step2 j0 ve le h nx log x d Hv Hl1 Hx Hd (scalar_inner j0 Hj0)) as (ve1 & h1 & E1 & Hv1 & Hx1 & Hd1 & F1).
    rewrite E1. cbn [obind].
    set (o := nth j0 ops dflt) in *. set (p := ad_prox o (ad_arg stepsize o d x)) in *.
    set (x1 := adup_x1 stepsize o x d) in *.
    destruct (IH (S j0) ve1 le h1 (S (S nx)) log x1 ds ltac:(lia) Hv1 Hl1 Hx1 ltac:(cbn in Hlen; lia))
      as (ve2 & h2 & nx2 & E2 & Hv2 & Hres & Fpre).
    { intros i Hi. rewrite F1 by oid_neq. specialize (Hds (S i) ltac:(lia)).
      now replace (j0 + S i)%nat with (S j0 + i)%nat in Hds by lia. }
    exists ve2, h2, nx2. split; [exact E2|]. split; [exact Hv2|]. split.
    + rewrite (skipn_nth_cons ops dflt j0) by exact Hj0. cbn [ad_sweep_ref]. fold o. fold p.
      change (vsub x (vscal (none_ / stepsize)%num (ad_Ladj o (vsub p d)))) with x1.
      destruct (ad_sweep_ref stepsize (skipn (S j0) ops) ds x1) as [[xf ds'] tr'].
      destruct Hres as (Hxf & Hl' & Hds').
      split; [exact Hxf|]. split; [cbn [List.length]; lia|].
      intros i Hi. destruct i as [|i].
      * rewrite Nat.add_0_r, Fpre by lia. exact Hd1.
      * replace (j0 + S i)%nat with (S j0 + i)%nat by lia. cbn [nth]. apply Hds'. lia.
    + intros i Hi. rewrite Fpre by lia. apply F1; oid_neq.
Qed.

(* ------------------------------------------------- whole calls: preamble + niter iterations *)
Definition n_ops : nat := List.length ops.
(* what the store looks like at a loop head of adupdates *)
Definition ad_store (s : @lst R) (x : Rvec) (ds ts : list Rvec) : Prop :=
  vget (l_venv s) "x" = Some (OCaller "x") /\ lget (l_lenv s) "duals" = Some KComp
  /\ lget (l_lenv s) "tmp_rans" = Some KDict
  /\ hget (l_heap s) (OCaller "x") = Some x /\ List.length ds = n_ops
  /\ (forall i, (i < n_ops)%nat -> hget (l_heap s) (OList "duals" i) = Some (nth i ds []))
  /\ (forall k, (k < List.length ts)%nat -> hget (l_heap s) (ODict "tmp_rans" k) = Some (nth k ts [])).

Lemma ad_outer s x ds ts :
  ad_store s x ds ts -> (forall j, (j < n_ops)%nat -> (adkey j < List.length ts)%nat) ->
  let '(xf, ds', ts') := ad_opt_step stepsize ops (x, ds, ts) in
  exists s', litems adI adkey n_ops adupdates_lbody s = Some s'
    /\ ad_store s' xf ds' ts' /\ List.length ts' = List.length ts /\ l_log s' = (l_log s ++ [xf])%list.
Proof.
  destruct s as [ve le h nx log]. intros (Hv & Hl1 & Hl2 & Hx & Hlen & Hds & Hts) Hk. cbn [l_venv l_lenv l_heap l_log] in *.
  destruct ads_shapes as [-> _]. unfold ad_opt_step. cbn [litems].
  destruct (ad_loop1 n_ops 0 ve le h nx log x ds eq_refl Hv Hl1 Hx Hlen Hds) as (h1 & E1 & Hx1 & F1).
  rewrite E1. cbn [obind]. cbn [skipn] in Hx1.
  destruct (ad_loop2 n_ops 0 ve le h1 nx log _ ds ts eq_refl Hv Hl1 Hl2 Hx1 Hlen) as (ve2 & h2 & nx2 & E2 & Hv2 & Hres & _ & _).
  { intros i Hi. rewrite F1 by discriminate. apply Hds, Hi. }
  { intros k Hkk. rewrite F1 by discriminate. apply Hts, Hkk. }
  { intros i Hi. apply Hk, Hi. }
  rewrite E2. cbn [obind skipn] in *.
  destruct (ad_sweep_opt stepsize ops ds ts (ad_pre stepsize ops ds x)) as [[[xf ds'] ts'] tr].
  destruct Hres as (Hxf & Hl' & Hds' & Hlt' & Hts').
  cbn [lexec1 resolve l_venv l_heap l_lenv l_next l_log]. rewrite Hv2. cbn [obind]. rewrite Hxf. cbn [obind litems].
  eexists. split; [reflexivity|]. split; [|split; [exact Hlt' | reflexivity]].
  cbn [l_venv l_lenv l_heap]. repeat split; auto. rewrite Hlt'. exact Hts'.
Qed.

Lemma ad_iterate : forall niter s x ds ts,
  ad_store s x ds ts -> (forall j, (j < n_ops)%nat -> (adkey j < List.length ts)%nat) ->
  exists s', liter niter (litems adI adkey n_ops adupdates_lbody) s = Some s'
    /\ (let '(xf, ds', ts') := iter niter (ad_opt_step stepsize ops) (x, ds, ts) in ad_store s' xf ds' ts')
    /\ l_log s' = (l_log s ++ trace (fun st => fst (fst st)) niter (ad_opt_step stepsize ops) (x, ds, ts))%list.
Proof.
  induction niter as [|niter IH]; intros s x ds ts Hs Hk.
  - exists s. cbn [liter iter trace]. rewrite app_nil_r. auto.
  - cbn [liter iter trace]. pose proof (ad_outer s x ds ts Hs Hk) as Ho.
    destruct (ad_opt_step stepsize ops (x, ds, ts)) as [[xf ds'] ts'] eqn:Est.
    destruct Ho as (s1 & E1 & Hs1 & Hlt & Hlog). rewrite E1. cbn [obind].
    destruct (IH s1 xf ds' ts' Hs1 ltac:(intros j Hj; rewrite Hlt; auto)) as (s2 & E2 & Hs2 & Hlog2).
    exists s2. split; [exact E2|]. split; [exact Hs2|]. rewrite Hlog2, Hlog, <- app_assoc. reflexivity.
Qed.

(* reference version: loop head store, outer iteration, iteration *)
Definition ads_store (s : @lst R) (x : Rvec) (ds : list Rvec) : Prop :=
  vget (l_venv s) "x" = Some (OCaller "x") /\ lget (l_lenv s) "duals" = Some KComp
  /\ hget (l_heap s) (OCaller "x") = Some x /\ List.length ds = n_ops
  /\ (forall i, (i < n_ops)%nat -> hget (l_heap s) (OList "duals" i) = Some (nth i ds [])).
Lemma ads_outer s x ds :
  ads_store s x ds ->
  let '(xf, ds') := ad_ref_step stepsize ops (x, ds) in
  exists s', litems adI adkey n_ops adupdates_simple_lbody s = Some s' /\ ads_store s' xf ds' /\ l_log s' = l_log s.
Proof.
  destruct s as [ve le h nx log]. intros (Hv & Hl1 & Hx & Hlen & Hds). cbn [l_venv l_lenv l_heap l_log] in *.
  destruct ads_shapes as [_ ->]. unfold ad_ref_step. cbn [litems].
  destruct (ad_loop1 n_ops 0 ve le h nx log x ds eq_refl Hv Hl1 Hx Hlen Hds) as (h1 & E1 & Hx1 & F1).
  rewrite E1. cbn [obind]. cbn [skipn] in Hx1.
  destruct (ads_loop2 n_ops 0 ve le h1 nx log _ ds eq_refl Hv Hl1 Hx1 Hlen) as (ve2 & h2 & nx2 & E2 & Hv2 & Hres & _).
  { intros i Hi. rewrite F1 by discriminate. apply Hds, Hi. }
  rewrite E2. cbn [obind skipn] in *.
  destruct (ad_sweep_ref stepsize ops ds (ad_pre stepsize ops ds x)) as [[xf ds'] tr].
  destruct Hres as (Hxf & Hl' & Hds').
  eexists. split; [reflexivity|]. split; [|reflexivity]. cbn [l_venv l_lenv l_heap]. repeat split; auto.
Qed.
Lemma ads_iterate : forall niter s x ds,
  ads_store s x ds ->
  exists s', liter niter (litems adI adkey n_ops adupdates_simple_lbody) s = Some s'
    /\ (let '(xf, ds') := iter niter (ad_ref_step stepsize ops) (x, ds) in ads_store s' xf ds')
    /\ l_log s' = l_log s.
Proof.
  induction niter as [|niter IH]; intros s x ds Hs.
  - exists s. cbn [liter iter]. auto.
  - cbn [liter iter]. pose proof (ads_outer s x ds Hs) as Ho.
    destruct (ad_ref_step stepsize ops (x, ds)) as [xf ds'] eqn:Est.
    destruct Ho as (s1 & E1 & Hs1 & Hlog). rewrite E1. cbn [obind].
    destruct (IH s1 xf ds' Hs1) as (s2 & E2 & Hs2 & Hlog2).
    exists s2. split; [exact E2|]. split; [exact Hs2|]. congruence.
Qed.

(* preambles: n NEW dual objects holding zeros, one NEW temporary per distinct range *)
Lemma nth_duals0 i : (i < n_ops)%nat -> nth i (ad_duals0 ops) [] = vzero (ad_m (nth i ops dflt)).
Proof.
  unfold ad_duals0, n_ops. intros Hi. rewrite (nth_indep _ [] (vzero (ad_m dflt))) by (rewrite map_length; exact Hi).
  apply (map_nth (fun o => vzero (ad_m o))).
Qed.
Definition s_init (x : Rvec) : @lst R :=
  mk_lst [("x", OCaller "x")] [] (fun o => match o with OCaller "x" => Some x | _ => None end) 0 [].
Lemma ad_pre_ok (nkeys : nat) (x : Rvec) :
  exists s, pexec adI adkey n_ops nkeys adupdates_lpre (s_init x) = Some s
    /\ ad_store s x (ad_duals0 ops) (repeat (junk "tmp_rans") nkeys) /\ l_log s = [].
Proof.
  eexists. split; [reflexivity|]. split; [|reflexivity].
  unfold ad_store. cbn [l_venv l_lenv l_heap]. repeat split.
  - unfold ad_duals0. now rewrite map_length.
  - intros i Hi. rewrite nth_duals0 by exact Hi. unfold hget. cbn -[Nat.ltb]. apply Nat.ltb_lt in Hi. rewrite Hi. reflexivity.
  - intros k Hk. rewrite repeat_length in Hk. unfold hget. cbn -[Nat.ltb]. apply Nat.ltb_lt in Hk. rewrite Hk.
    rewrite nth_repeat_lt by (apply Nat.ltb_lt; exact Hk). reflexivity.
Qed.
Lemma ads_pre_ok (nkeys : nat) (x : Rvec) :
  exists s, pexec adI adkey n_ops nkeys adupdates_simple_lpre (s_init x) = Some s
    /\ ads_store s x (ad_duals0 ops) /\ l_log s = [].
Proof.
  eexists. split; [reflexivity|]. split; [|reflexivity].
  unfold ads_store. cbn [l_venv l_lenv l_heap]. repeat split.
  - unfold ad_duals0. now rewrite map_length.
  - intros i Hi. rewrite nth_duals0 by exact Hi. unfold hget. cbn -[Nat.ltb]. apply Nat.ltb_lt in Hi. rewrite Hi. reflexivity.
Qed.

(* whole calls of the two regenerated programs *)
Lemma gen_adupdates_run (nkeys niter : nat) (x : Rvec) :
  (forall j, (j < n_ops)%nat -> (adkey j < nkeys)%nat) ->
  exists s, lrun adI adkey n_ops nkeys adupdates_lpre adupdates_lbody niter (s_init x) = Some s
    /\ l_log s = ad_opt_trace stepsize ops niter (repeat (junk "tmp_rans") nkeys) x
    /\ hget (l_heap s) (OCaller "x")
       = Some (fst (fst (iter niter (ad_opt_step stepsize ops) (x, ad_duals0 ops, repeat (junk "tmp_rans") nkeys)))).
Proof.
  intros Hk. destruct (ad_pre_ok nkeys x) as (s0 & E0 & Hs0 & Hlog0).
  destruct (ad_iterate niter s0 x _ _ Hs0 ltac:(intros j Hj; rewrite repeat_length; auto)) as (s1 & E1 & Hs1 & Hlog1).
  exists s1. unfold lrun. rewrite E0. cbn [obind]. split; [exact E1|]. split.
  - rewrite Hlog1, Hlog0. reflexivity.
  - destruct (iter niter (ad_opt_step stepsize ops) (x, ad_duals0 ops, repeat (junk "tmp_rans") nkeys)) as [[xf ds'] ts'].
    destruct Hs1 as (_ & _ & _ & Hx & _). exact Hx.
Qed.
Lemma gen_adupdates_simple_run (nkeys niter : nat) (x : Rvec) :
  exists s, lrun adI adkey n_ops nkeys adupdates_simple_lpre adupdates_simple_lbody niter (s_init x) = Some s
    /\ l_log s = [] /\ hget (l_heap s) (OCaller "x") = Some (ad_ref_run stepsize ops niter x).
Proof.
  destruct (ads_pre_ok nkeys x) as (s0 & E0 & Hs0 & Hlog0).
  destruct (ads_iterate niter s0 x _ Hs0) as (s1 & E1 & Hs1 & Hlog1).
  exists s1. unfold lrun. rewrite E0. cbn [obind]. split; [exact E1|]. split; [congruence|].
  unfold ad_ref_run. destruct (iter niter (ad_ref_step stepsize ops) (x, ad_duals0 ops)) as [xf ds'].
  destruct Hs1 as (_ & _ & Hx & _). exact Hx.
Qed.

(* the two REGENERATED programs, preambles included, any number of operators, any assignment of the
   operators to the temporaries: the k-th callback of adupdates is what adupdates_simple leaves in the
   caller's x after k+1 iterations *)
Lemma gen_adupdates_equiv (nkeys niter k : nat) (x : Rvec) :
  (forall j, (j < n_ops)%nat -> (adkey j < nkeys)%nat) -> (k < niter)%nat ->
  exists so sr,
    lrun adI adkey n_ops nkeys adupdates_lpre adupdates_lbody niter (s_init x) = Some so
    /\ lrun adI adkey n_ops nkeys adupdates_simple_lpre adupdates_simple_lbody (S k) (s_init x) = Some sr
    /\ List.length (l_log so) = niter
    /\ nth_error (l_log so) k = hget (l_heap sr) (OCaller "x").
Proof.
  intros Hk Hlt. destruct (gen_adupdates_run nkeys niter x Hk) as (so & Eo & Hlog & _).
  destruct (gen_adupdates_simple_run nkeys (S k) x) as (sr & Er & _ & Hx).
  exists so, sr. split; [exact Eo|]. split; [exact Er|]. rewrite Hlog, Hx. split.
  - unfold ad_opt_trace. apply trace_length.
  - rewrite <- (ad_refines stepsize ops niter (repeat (junk "tmp_rans") nkeys) x) with (k := k); [|
      unfold keys_ok; apply Forall_forall; intros o Hin; rewrite repeat_length;
      destruct (In_nth ops o dflt Hin) as (j & Hj & <-); apply Hk, Hj | exact Hlt].
    apply nth_error_nth'. unfold ad_opt_trace. rewrite trace_length. exact Hlt.
Qed.

(* ------------------------------------------------ random=True: second loop over a drawn permutation *)
Lemma adr_shapes :
  adupdates_random_lbody = [IFor ad_body1; IForOrd ad_body2; IStmt (LCallback (RVar "x"))]
  /\ adupdates_simple_random_lbody = [IFor ad_body1; IForOrd ads_body2]
  /\ adupdates_random_lpre = adupdates_lpre /\ adupdates_simple_random_lpre = adupdates_simple_lpre.
Proof. repeat split. Qed.

Lemma ad_loop2_ord : forall ord ve le h nx log x ds ts,
  (forall j, In j ord -> (j < n_ops)%nat) ->
  vget ve "x" = Some (OCaller "x") -> lget le "duals" = Some KComp -> lget le "tmp_rans" = Some KDict ->
  hget h (OCaller "x") = Some x -> List.length ds = n_ops ->
  (forall i, (i < n_ops)%nat -> hget h (OList "duals" i) = Some (nth i ds [])) ->
  (forall k, (k < List.length ts)%nat -> hget h (ODict "tmp_rans" k) = Some (nth k ts [])) ->
  (forall j, (j < n_ops)%nat -> (adkey j < List.length ts)%nat) ->
  exists ve' h' nx',
    lforl adI adkey ad_body2 ord (mk_lst ve le h nx log) = Some (mk_lst ve' le h' nx' log)
    /\ vget ve' "x" = Some (OCaller "x")
    /\ (let '(xf, ds', ts') := ad_sweep_ord_opt stepsize ops dflt ord ds ts x in
        hget h' (OCaller "x") = Some xf
        /\ List.length ds' = n_ops /\ (forall i, (i < n_ops)%nat -> hget h' (OList "duals" i) = Some (nth i ds' []))
        /\ List.length ts' = List.length ts
        /\ (forall k, (k < List.length ts)%nat -> hget h' (ODict "tmp_rans" k) = Some (nth k ts' []))).
Proof.
  induction ord as [|j ord IH]; intros ve le h nx log x ds ts Hord Hv Hl1 Hl2 Hx Hlen Hds Hts Hkeys.
  - exists ve, h, nx. cbn [lforl ad_sweep_ord_opt]. repeat split; auto.
  - cbn [lforl]. assert (Hj : (j < n_ops)%nat) by (apply Hord; now left).
    pose proof (Hkeys j Hj) as Hk0.
    destruct (ad_step2 j ve le h nx log x (nth j ds []) (nth (adkey j) ts []) Hv Hl1 Hl2 Hx (Hds j Hj) (Hts _ Hk0)
                (scalar_inner j Hj)) as (ve1 & h1 & E1 & Hv1 & Hx1 & Hd1 & Ht1 & F1).
    rewrite E1. cbn [obind].
    set (o := nth j ops dflt) in *. set (d := nth j ds []) in *. set (p := ad_prox o (ad_arg stepsize o d x)) in *.
    set (x1 := adup_x1 stepsize o x d) in *.
    destruct (IH ve1 le h1 (S nx) log x1 (setnth j p ds) (setnth (adkey j) p ts)
                ltac:(intros i Hi; apply Hord; now right) Hv1 Hl1 Hl2 Hx1 ltac:(now rewrite setnth_length))
      as (ve2 & h2 & nx2 & E2 & Hv2 & Hres).
    { intros i Hi. destruct (Nat.eq_dec i j) as [->|Hne].
      - rewrite Hd1, nth_setnth_same by lia. reflexivity.
      - rewrite F1 by oid_neq. rewrite nth_setnth_other by exact Hne. apply Hds, Hi. }
    { intros k Hk. rewrite setnth_length in Hk. destruct (Nat.eq_dec k (adkey j)) as [->|Hne].
      - rewrite Ht1, nth_setnth_same by exact Hk0. reflexivity.
      - rewrite F1 by oid_neq. rewrite nth_setnth_other by exact Hne. apply Hts, Hk. }
    { intros i Hi. rewrite setnth_length. apply Hkeys, Hi. }
    exists ve2, h2, nx2. split; [exact E2|]. split; [exact Hv2|].
    cbn [ad_sweep_ord_opt]. unfold getnth. fold o. fold d. change (ad_key o) with (adkey j).
    rewrite (nth_setnth_same (adkey j) _ ts Hk0). fold p.
    change (vsub x (vscal (none_ / stepsize)%num (ad_Ladj o (vsub p d)))) with x1.
    destruct (ad_sweep_ord_opt stepsize ops dflt ord (setnth j p ds) (setnth (adkey j) p ts) x1) as [[xf ds'] ts'].
    destruct Hres as (Hxf & Hl' & Hds' & Hlt' & Hts'). rewrite setnth_length in *.
    repeat split; auto.
Qed.
Lemma ads_loop2_ord : forall ord ve le h nx log x ds,
  (forall j, In j ord -> (j < n_ops)%nat) ->
  vget ve "x" = Some (OCaller "x") -> lget le "duals" = Some KComp ->
  hget h (OCaller "x") = Some x -> List.length ds = n_ops ->
  (forall i, (i < n_ops)%nat -> hget h (OList "duals" i) = Some (nth i ds [])) ->
  exists ve' h' nx',
    lforl adI adkey ads_body2 ord (mk_lst ve le h nx log) = Some (mk_lst ve' le h' nx' log)
    /\ vget ve' "x" = Some (OCaller "x")
    /\ (let '(xf, ds') := ad_sweep_ord_ref stepsize ops dflt ord ds x in
        hget h' (OCaller "x") = Some xf
        /\ List.length ds' = n_ops /\ (forall i, (i < n_ops)%nat -> hget h' (OList "duals" i) = Some (nth i ds' []))).
Proof.
  induction ord as [|j ord IH]; intros ve le h nx log x ds Hord Hv Hl1 Hx Hlen Hds.
  - exists ve, h, nx. cbn [lforl ad_sweep_ord_ref]. repeat split; auto.
  - cbn [lforl]. assert (Hj : (j < n_ops)%nat) by (apply Hord; now left).
    destruct (ads_step2 j ve le h nx log x (nth j ds []) Hv Hl1 Hx (Hds j Hj) (scalar_inner j Hj))
      as (ve1 & h1 & E1 & Hv1 & Hx1 & Hd1 & F1).
    rewrite E1. cbn [obind].
    set (o := nth j ops dflt) in *. set (d := nth j ds []) in *. set (p := ad_prox o (ad_arg stepsize o d x)) in *.
    set (x1 := adup_x1 stepsize o x d) in *.
    destruct (IH ve1 le h1 (S (S nx)) log x1 (setnth j p ds)
                ltac:(intros i Hi; apply Hord; now right) Hv1 Hl1 Hx1 ltac:(now rewrite setnth_length))
      as (ve2 & h2 & nx2 & E2 & Hv2 & Hres).
    { intros i Hi. destruct (Nat.eq_dec i j) as [->|Hne].
      - rewrite Hd1, nth_setnth_same by lia. reflexivity.
      - rewrite F1 by oid_neq. rewrite nth_setnth_other by exact Hne. apply Hds, Hi. }
    exists ve2, h2, nx2. split; [exact E2|]. split; [exact Hv2|].
    cbn [ad_sweep_ord_ref]. unfold getnth. fold o. fold d. fold p.
    change (vsub x (vscal (none_ / stepsize)%num (ad_Ladj o (vsub p d)))) with x1.
    destruct (ad_sweep_ord_ref stepsize ops dflt ord (setnth j p ds) x1) as [xf ds'].
    exact Hres.
Qed.

Variable order : nat -> list nat.
Hypothesis order_ok : forall k j, In j (order k) -> (j < n_ops)%nat.

Lemma adr_outer k s x ds ts :
  ad_store s x ds ts -> (forall j, (j < n_ops)%nat -> (adkey j < List.length ts)%nat) ->
  let '(xf, ds', ts') := ad_opt_step_ord stepsize ops dflt (order k) (x, ds, ts) in
  exists s', litems_ord adI adkey n_ops (order k) adupdates_random_lbody s = Some s'
    /\ ad_store s' xf ds' ts' /\ List.length ts' = List.length ts /\ l_log s' = (l_log s ++ [xf])%list.
Proof.
  destruct s as [ve le h nx log]. intros (Hv & Hl1 & Hl2 & Hx & Hlen & Hds & Hts) Hk. cbn [l_venv l_lenv l_heap l_log] in *.
  destruct adr_shapes as (-> & _). unfold ad_opt_step_ord. cbn [litems_ord].
  destruct (ad_loop1 n_ops 0 ve le h nx log x ds eq_refl Hv Hl1 Hx Hlen Hds) as (h1 & E1 & Hx1 & F1).
  rewrite E1. cbn [obind]. cbn [skipn] in Hx1.
  destruct (ad_loop2_ord (order k) ve le h1 nx log _ ds ts (order_ok k) Hv Hl1 Hl2 Hx1 Hlen) as (ve2 & h2 & nx2 & E2 & Hv2 & Hres).
  { intros i Hi. rewrite F1 by discriminate. apply Hds, Hi. }
  { intros kk Hkk. rewrite F1 by discriminate. apply Hts, Hkk. }
  { exact Hk. }
  rewrite E2. cbn [obind] in *.
  destruct (ad_sweep_ord_opt stepsize ops dflt (order k) ds ts (ad_pre stepsize ops ds x)) as [[xf ds'] ts'].
  destruct Hres as (Hxf & Hl' & Hds' & Hlt' & Hts').
  cbn [lexec1 resolve l_venv l_heap l_lenv l_next l_log]. rewrite Hv2. cbn [obind]. rewrite Hxf. cbn [obind litems_ord].
  eexists. split; [reflexivity|]. split; [|split; [exact Hlt' | reflexivity]].
  cbn [l_venv l_lenv l_heap]. repeat split; auto. rewrite Hlt'. exact Hts'.
Qed.
Lemma adsr_outer k s x ds :
  ads_store s x ds ->
  let '(xf, ds') := ad_ref_step_ord stepsize ops dflt (order k) (x, ds) in
  exists s', litems_ord adI adkey n_ops (order k) adupdates_simple_random_lbody s = Some s'
    /\ ads_store s' xf ds' /\ l_log s' = l_log s.
Proof.
  destruct s as [ve le h nx log]. intros (Hv & Hl1 & Hx & Hlen & Hds). cbn [l_venv l_lenv l_heap l_log] in *.
  destruct adr_shapes as (_ & -> & _). unfold ad_ref_step_ord. cbn [litems_ord].
  destruct (ad_loop1 n_ops 0 ve le h nx log x ds eq_refl Hv Hl1 Hx Hlen Hds) as (h1 & E1 & Hx1 & F1).
  rewrite E1. cbn [obind]. cbn [skipn] in Hx1.
  destruct (ads_loop2_ord (order k) ve le h1 nx log _ ds (order_ok k) Hv Hl1 Hx1 Hlen) as (ve2 & h2 & nx2 & E2 & Hv2 & Hres).
  { intros i Hi. rewrite F1 by discriminate. apply Hds, Hi. }
  rewrite E2. cbn [obind] in *.
  destruct (ad_sweep_ord_ref stepsize ops dflt (order k) ds (ad_pre stepsize ops ds x)) as [xf ds'].
  destruct Hres as (Hxf & Hl' & Hds').
  eexists. split; [reflexivity|]. split; [|reflexivity]. cbn [l_venv l_lenv l_heap]. repeat split; auto.
Qed.
Lemma adr_iterate : forall niter k0 s x ds ts,
  ad_store s x ds ts -> (forall j, (j < n_ops)%nat -> (adkey j < List.length ts)%nat) ->
  exists s', literk niter k0 (fun k => litems_ord adI adkey n_ops (order k) adupdates_random_lbody) s = Some s'
    /\ (let '(xf, ds', ts') := iterk niter k0 (fun k => ad_opt_step_ord stepsize ops dflt (order k)) (x, ds, ts) in
        ad_store s' xf ds' ts')
    /\ l_log s' = (l_log s ++ tracek (fun st => fst (fst st)) niter k0
                                (fun k => ad_opt_step_ord stepsize ops dflt (order k)) (x, ds, ts))%list.
Proof.
  induction niter as [|niter IH]; intros k0 s x ds ts Hs Hk.
  - exists s. cbn [literk iterk tracek]. rewrite app_nil_r. auto.
  - cbn [literk iterk tracek]. pose proof (adr_outer k0 s x ds ts Hs Hk) as Ho.
    destruct (ad_opt_step_ord stepsize ops dflt (order k0) (x, ds, ts)) as [[xf ds'] ts'] eqn:Est.
    destruct Ho as (s1 & E1 & Hs1 & Hlt & Hlog). rewrite E1. cbn [obind].
    destruct (IH (S k0) s1 xf ds' ts' Hs1 ltac:(intros j Hj; rewrite Hlt; auto)) as (s2 & E2 & Hs2 & Hlog2).
    exists s2. split; [exact E2|]. split; [exact Hs2|]. rewrite Hlog2, Hlog, <- app_assoc. reflexivity.
Qed.
Lemma adsr_iterate : forall niter k0 s x ds,
  ads_store s x ds ->
  exists s', literk niter k0 (fun k => litems_ord adI adkey n_ops (order k) adupdates_simple_random_lbody) s = Some s'
    /\ (let '(xf, ds') := iterk niter k0 (fun k => ad_ref_step_ord stepsize ops dflt (order k)) (x, ds) in ads_store s' xf ds')
    /\ l_log s' = l_log s.
Proof.
  induction niter as [|niter IH]; intros k0 s x ds Hs.
  - exists s. cbn [literk iterk]. auto.
  - cbn [literk iterk]. pose proof (adsr_outer k0 s x ds Hs) as Ho.
    destruct (ad_ref_step_ord stepsize ops dflt (order k0) (x, ds)) as [xf ds'] eqn:Est.
    destruct Ho as (s1 & E1 & Hs1 & Hlog). rewrite E1. cbn [obind].
    destruct (IH (S k0) s1 xf ds' Hs1) as (s2 & E2 & Hs2 & Hlog2).
    exists s2. split; [exact E2|]. split; [exact Hs2|]. congruence.
Qed.
(* the two regenerated random-order programs under the same stream of permutations: same caller's x *)
Lemma gen_adupdates_random_equiv (nkeys niter : nat) (x : Rvec) :
  (forall j, (j < n_ops)%nat -> (adkey j < nkeys)%nat) ->
  exists s0 s0' so sr,
    pexec adI adkey n_ops nkeys adupdates_random_lpre (s_init x) = Some s0
    /\ literk niter 0 (fun k => litems_ord adI adkey n_ops (order k) adupdates_random_lbody) s0 = Some so
    /\ pexec adI adkey n_ops nkeys adupdates_simple_random_lpre (s_init x) = Some s0'
    /\ literk niter 0 (fun k => litems_ord adI adkey n_ops (order k) adupdates_simple_random_lbody) s0' = Some sr
    /\ List.length (l_log so) = niter
    /\ hget (l_heap so) (OCaller "x") = hget (l_heap sr) (OCaller "x").
Proof.
  intros Hk. destruct adr_shapes as (_ & _ & Ep & Eps). rewrite Ep, Eps.
  destruct (ad_pre_ok nkeys x) as (s0 & E0 & Hs0 & Hlog0). destruct (ads_pre_ok nkeys x) as (s0' & E0' & Hs0' & Hlog0').
  destruct (adr_iterate niter 0 s0 x _ _ Hs0 ltac:(intros j Hj; rewrite repeat_length; auto)) as (so & Eo & Hso & Hlogo).
  destruct (adsr_iterate niter 0 s0' x _ Hs0') as (sr & Er & Hsr & _).
  exists s0, s0', so, sr. repeat (split; [assumption|]). split.
  - rewrite Hlogo, Hlog0. cbn [app]. apply tracek_length.
  - pose proof (ad_ord_refines stepsize ops dflt order order_ok niter 0 x (ad_duals0 ops) (repeat (junk "tmp_rans") nkeys)
                  ltac:(intros j Hj; rewrite repeat_length; apply Hk, Hj)) as E. cbv zeta in E.
    destruct (iterk niter 0 (fun k => ad_opt_step_ord stepsize ops dflt (order k)) (x, ad_duals0 ops, repeat (junk "tmp_rans") nkeys))
      as [[xf ds'] ts'].
    destruct (iterk niter 0 (fun k => ad_ref_step_ord stepsize ops dflt (order k)) (x, ad_duals0 ops)) as [xr dr].
    cbn [fst] in E. injection E as -> ->.
    destruct Hso as (_ & _ & _ & Hxo & _). destruct Hsr as (_ & _ & Hxr & _). congruence.
Qed.
End ADUPsweep.

(* ================================================================ Kaczmarz *)
Section KZsweep.
Variables (proj : Rvec -> Rvec) (junk : string -> Rvec) (dflt : @kzop R).
Variable ops : list (@kzop R).
Variable rkey : nat -> nat.            (* range class of operator j: which entry of tmp_rans it uses *)
Variable nkeys : nat.
Hypothesis keys_ok : forall j, (j < List.length ops)%nat -> (rkey j < nkeys)%nat.
Definition kzI (j : nat) : interp := kz_I proj (nth j ops dflt) junk.
Definition kz_body : list lstmt := match kaczmarz_lbody with IFor b :: _ => b | _ => [] end.
Lemma kz_shape : kaczmarz_lbody = [IFor kz_body; IStmt (LCallback (RVar "x"))].
Proof. reflexivity. Qed.
Definition kz_n : nat := List.length ops.

(* loop-head store: x, the temporary tmp_dom, the caller's rhs list (read only), the dict of temporaries *)
Definition kz_store (s : @lst R) (x : Rvec) : Prop :=
  vget (l_venv s) "x" = Some (OCaller "x") /\ vget (l_venv s) "tmp_dom" = Some (OFresh 0)
  /\ lget (l_lenv s) "rhs" = Some KArg /\ lget (l_lenv s) "tmp_rans" = Some KDict
  /\ hget (l_heap s) (OCaller "x") = Some x
  /\ (exists td, hget (l_heap s) (OFresh 0) = Some td)
  /\ (forall j, (j < kz_n)%nat -> hget (l_heap s) (OArg "rhs" j) = Some (kz_rhs (nth j ops dflt)))
  /\ (forall k, (k < nkeys)%nat -> exists t, hget (l_heap s) (ODict "tmp_rans" k) = Some t)
  /\ (1 <= l_next s)%nat.

Lemma kz_step_heap j s x : kz_store s x -> (j < kz_n)%nat ->
  exists s', lexec (kzI j) rkey j kz_body s = Some s' /\ kz_store s' (kz_one proj (nth j ops dflt) x)
    /\ l_log s' = l_log s.
Proof.
  destruct s as [ve le h nx log]. intros (Hv & Hvt & Hl1 & Hl2 & Hx & (td & Htd) & Hr & Ht & Hnx) Hj.
  cbn [l_venv l_lenv l_heap l_next l_log] in *.
  destruct (Ht (rkey j) (keys_ok j Hj)) as (t & Htj). pose proof (Hr j Hj) as Hrj.
  eexists. split.
  - cbv [kz_body kaczmarz_lbody]. unfold lexec. lsym. reflexivity.
  - split; [|reflexivity]. unfold kz_store. cbn [l_venv l_lenv l_heap l_next].
    split; [lsym; reflexivity|]. split; [lsym; reflexivity|]. split; [exact Hl1|]. split; [exact Hl2|].
    split; [lsym; reflexivity|]. split; [eexists; lsym; reflexivity|]. split; [|split; [|exact Hnx]].
    + intros i Hi. rewrite !hget_hset_other by oid_neq. apply Hr, Hi.
    + intros k Hk. destruct (Nat.eq_dec k (rkey j)) as [->|Hne].
      * eexists. lsym. reflexivity.
      * destruct (Ht k Hk) as (t' & Ht'). exists t'. rewrite !hget_hset_other by oid_neq. exact Ht'.
Qed.

Lemma kz_loop : forall rem j0 s x, (j0 + rem = kz_n)%nat -> kz_store s x ->
  exists s', lfor kzI rkey kz_body j0 rem s = Some s'
    /\ kz_store s' (fst (kz_sweep proj (skipn j0 ops) x)) /\ l_log s' = l_log s.
Proof.
  induction rem as [|rem IH]; intros j0 s x Hn Hs.
  - exists s. cbn [lfor]. unfold kz_n in Hn. rewrite skipn_all2 by lia. cbn [kz_sweep fst]. auto.
  - cbn [lfor]. destruct (kz_step_heap j0 s x Hs ltac:(lia)) as (s1 & E1 & Hs1 & Hlog1). rewrite E1. cbn [obind].
    destruct (IH (S j0) s1 _ ltac:(lia) Hs1) as (s2 & E2 & Hs2 & Hlog2).
    exists s2. split; [exact E2|]. split; [|congruence].
    rewrite (skipn_nth_cons ops dflt j0) by (unfold kz_n in Hn; lia). cbn [kz_sweep].
    destruct (kz_sweep proj (skipn (S j0) ops) (kz_one proj (nth j0 ops dflt) x)) as [xf tr]. exact Hs2.
Qed.

Lemma kz_outer s x : kz_store s x ->
  exists s', litems kzI rkey kz_n kaczmarz_lbody s = Some s'
    /\ kz_store s' (kz_step proj ops x) /\ l_log s' = (l_log s ++ [kz_step proj ops x])%list.
Proof.
  intros Hs. rewrite kz_shape. cbn [litems].
  destruct (kz_loop kz_n 0 s x eq_refl Hs) as (s1 & E1 & Hs1 & Hlog1). rewrite E1. cbn [obind skipn] in *.
  fold (kz_step proj ops x) in Hs1.
  destruct s1 as [ve le h nx log]. pose proof Hs1 as (Hv & Hvt & Hl1 & Hl2 & Hx & Hrest).
  cbn [lexec1 resolve l_venv l_heap l_lenv l_next l_log] in *. rewrite Hv. cbn [obind]. rewrite Hx. cbn [obind].
  eexists. split; [reflexivity|]. split; [|cbn [l_log]; congruence].
  unfold kz_store in *. cbn [l_venv l_lenv l_heap l_next] in *. exact Hs1.
Qed.
Lemma kz_iterate : forall niter s x, kz_store s x ->
  exists s', liter niter (litems kzI rkey kz_n kaczmarz_lbody) s = Some s'
    /\ kz_store s' (iter niter (kz_step proj ops) x)
    /\ l_log s' = (l_log s ++ trace (fun x => x) niter (kz_step proj ops) x)%list.
Proof.
  induction niter as [|niter IH]; intros s x Hs.
  - exists s. cbn [liter iter trace]. rewrite app_nil_r. auto.
  - cbn [liter iter trace]. destruct (kz_outer s x Hs) as (s1 & E1 & Hs1 & Hlog1). rewrite E1. cbn [obind].
    destruct (IH s1 _ Hs1) as (s2 & E2 & Hs2 & Hlog2).
    exists s2. split; [exact E2|]. split; [exact Hs2|]. rewrite Hlog2, Hlog1, <- app_assoc. reflexivity.
Qed.

(* the caller passes x and the list rhs *)
Definition kz_init (x : Rvec) : @lst R :=
  mk_lst [("x", OCaller "x")] [("rhs", KArg)]
         (fun o => match o with
                   | OCaller "x" => Some x
                   | OArg "rhs" j => if Nat.ltb j kz_n then Some (kz_rhs (nth j ops dflt)) else None
                   | _ => None
                   end) 0 [].
Lemma kz_pre_ok x : exists s, pexec kzI rkey kz_n nkeys kaczmarz_lpre (kz_init x) = Some s /\ kz_store s x /\ l_log s = [].
Proof.
  eexists. split; [reflexivity|]. split; [|reflexivity].
  unfold kz_store. cbn [l_venv l_lenv l_heap l_next]. repeat split; try (cbn; lia).
  - eexists. unfold hget, hset. cbn. reflexivity.
  - intros j Hj. unfold hget, hset. cbn -[Nat.ltb]. apply Nat.ltb_lt in Hj. rewrite Hj. reflexivity.
  - intros k Hk. eexists. unfold hget, hset. cbn -[Nat.ltb]. apply Nat.ltb_lt in Hk. rewrite Hk. reflexivity.
Qed.
Lemma gen_kaczmarz_run niter x :
  exists s, lrun kzI rkey kz_n nkeys kaczmarz_lpre kaczmarz_lbody niter (kz_init x) = Some s
    /\ l_log s = trace (fun x => x) niter (kz_step proj ops) x
    /\ hget (l_heap s) (OCaller "x") = Some (iter niter (kz_step proj ops) x).
Proof.
  destruct (kz_pre_ok x) as (s0 & E0 & Hs0 & Hlog0).
  destruct (kz_iterate niter s0 x Hs0) as (s1 & E1 & Hs1 & Hlog1).
  exists s1. unfold lrun. rewrite E0. cbn [obind]. split; [exact E1|]. split.
  - rewrite Hlog1, Hlog0. reflexivity.
  - destruct Hs1 as (_ & _ & _ & _ & Hx & _). exact Hx.
Qed.

(* ------------------------------------------------ random=True *)
Lemma kzr_shape :
  kaczmarz_random_lbody = [IForOrd kz_body; IStmt (LCallback (RVar "x"))] /\ kaczmarz_random_lpre = kaczmarz_lpre.
Proof. split; reflexivity. Qed.
Lemma kz_loop_ord : forall ord s x, (forall j, In j ord -> (j < kz_n)%nat) -> kz_store s x ->
  exists s', lforl kzI rkey kz_body ord s = Some s'
    /\ kz_store s' (kz_step_ord proj ops dflt ord x) /\ l_log s' = l_log s.
Proof.
  induction ord as [|j ord IH]; intros s x Hord Hs.
  - exists s. cbn [lforl]. unfold kz_step_ord, kz_step. cbn. auto.
  - cbn [lforl]. destruct (kz_step_heap j s x Hs ltac:(apply Hord; now left)) as (s1 & E1 & Hs1 & Hlog1).
    rewrite E1. cbn [obind].
    destruct (IH s1 _ ltac:(intros i Hi; apply Hord; now right) Hs1) as (s2 & E2 & Hs2 & Hlog2).
    exists s2. split; [exact E2|]. split; [|congruence].
    unfold kz_step_ord, kz_step in *. cbn [map kz_sweep].
    destruct (kz_sweep proj (map (fun i => nth i ops dflt) ord) (kz_one proj (nth j ops dflt) x)) as [xf tr]. exact Hs2.
Qed.
Variable order : nat -> list nat.
Hypothesis order_ok : forall k j, In j (order k) -> (j < kz_n)%nat.
Lemma kzr_iterate : forall niter k0 s x, kz_store s x ->
  exists s', literk niter k0 (fun k => litems_ord kzI rkey kz_n (order k) kaczmarz_random_lbody) s = Some s'
    /\ kz_store s' (iterk niter k0 (fun k => kz_step_ord proj ops dflt (order k)) x)
    /\ l_log s' = (l_log s ++ tracek (fun x => x) niter k0 (fun k => kz_step_ord proj ops dflt (order k)) x)%list.
Proof.
  induction niter as [|niter IH]; intros k0 s x Hs.
  - exists s. cbn [literk iterk tracek]. rewrite app_nil_r. auto.
  - cbn [literk iterk tracek].
    assert (Ho : exists s1, litems_ord kzI rkey kz_n (order k0) kaczmarz_random_lbody s = Some s1
                  /\ kz_store s1 (kz_step_ord proj ops dflt (order k0) x)
                  /\ l_log s1 = (l_log s ++ [kz_step_ord proj ops dflt (order k0) x])%list).
    { destruct kzr_shape as [-> _]. cbn [litems_ord].
      destruct (kz_loop_ord (order k0) s x (order_ok k0) Hs) as (s1 & E1 & Hs1 & Hlog1). rewrite E1. cbn [obind].
      destruct s1 as [ve le h nx log]. pose proof Hs1 as (Hv & Hvt & Hl1 & Hl2 & Hx & Hrest).
      cbn [lexec1 resolve l_venv l_heap l_lenv l_next l_log] in *. rewrite Hv. cbn [obind]. rewrite Hx. cbn [obind].
      eexists. split; [reflexivity|]. split; [|cbn [l_log]; congruence].
      unfold kz_store in *. cbn [l_venv l_lenv l_heap l_next] in *. exact Hs1. }
    destruct Ho as (s1 & E1 & Hs1 & Hlog1). rewrite E1. cbn [obind].
    destruct (IH (S k0) s1 _ Hs1) as (s2 & E2 & Hs2 & Hlog2).
    exists s2. split; [exact E2|]. split; [exact Hs2|]. rewrite Hlog2, Hlog1, <- app_assoc. reflexivity.
Qed.
Lemma gen_kaczmarz_random_run niter x :
  exists s0 s, pexec kzI rkey kz_n nkeys kaczmarz_random_lpre (kz_init x) = Some s0
    /\ literk niter 0 (fun k => litems_ord kzI rkey kz_n (order k) kaczmarz_random_lbody) s0 = Some s
    /\ l_log s = tracek (fun x => x) niter 0 (fun k => kz_step_ord proj ops dflt (order k)) x
    /\ hget (l_heap s) (OCaller "x") = Some (iterk niter 0 (fun k => kz_step_ord proj ops dflt (order k)) x).
Proof.
  destruct kzr_shape as [_ ->]. destruct (kz_pre_ok x) as (s0 & E0 & Hs0 & Hlog0).
  destruct (kzr_iterate niter 0 s0 x Hs0) as (s1 & E1 & Hs1 & Hlog1).
  exists s0, s1. split; [exact E0|]. split; [exact E1|]. split.
  - rewrite Hlog1, Hlog0. reflexivity.
  - destruct Hs1 as (_ & _ & _ & _ & Hx & _). exact Hx.
Qed.
End KZsweep.

(* ================================================================== OSMLEM *)
Section EMsweep.
Variables (eps : R) (junk : string -> Rvec) (dflt : @emop R).
Variable ops : list (@emop R).
Variable mdim : nat -> nat.            (* size of the range of operator j *)
(* the default sensitivities are the ones the preamble computes *)
Hypothesis sens_default : forall j, (j < List.length ops)%nat ->
  em_sens (nth j ops dflt) = em_default_sens eps (em_Aadj (nth j ops dflt)) (mdim j).
Definition emI (j : nat) : interp :=
  let o := nth j ops dflt in
  mk_I [("eps", eps)] [("op[i]", em_A o); ("op[i].adjoint", em_Aadj o); ("op[j].adjoint", em_Aadj o);
                       ("ones_like", map (fun _ => 1))] [] [("op[j].range", vzero (mdim j))] junk.
Definition em_body : list lstmt := match osmlem_lbody with IFor b :: _ => b | _ => [] end.
Lemma em_shape : osmlem_lbody = [IFor em_body].
Proof. reflexivity. Qed.
Definition em_n : nat := List.length ops.

Definition em_store (s : @lst R) (x : Rvec) : Prop :=
  vget (l_venv s) "x" = Some (OCaller "x") /\ vget (l_venv s) "tmp_dom" = Some (OFresh 0)
  /\ lget (l_lenv s) "data" = Some KComp /\ lget (l_lenv s) "sensitivities" = Some KComp
  /\ lget (l_lenv s) "tmp_ran" = Some KComp
  /\ hget (l_heap s) (OCaller "x") = Some x
  /\ (exists td, hget (l_heap s) (OFresh 0) = Some td)
  /\ (forall j, (j < em_n)%nat -> hget (l_heap s) (OList "data" j) = Some (em_data (nth j ops dflt)))
  /\ (forall j, (j < em_n)%nat -> hget (l_heap s) (OList "sensitivities" j) = Some (em_sens (nth j ops dflt)))
  /\ (forall j, (j < em_n)%nat -> exists t, hget (l_heap s) (OList "tmp_ran" j) = Some t).

Lemma em_step_heap j s x : em_store s x -> (j < em_n)%nat ->
  exists s', lexec (emI j) (fun _ => 0%nat) j em_body s = Some s' /\ em_store s' (em_one eps (nth j ops dflt) x)
    /\ l_log s' = (l_log s ++ [em_one eps (nth j ops dflt) x])%list.
Proof.
  destruct s as [ve le h nx log]. intros (Hv & Hvt & Hl1 & Hl2 & Hl3 & Hx & (td & Htd) & Hd & Hse & Ht) Hj.
  cbn [l_venv l_lenv l_heap l_next l_log] in *.
  destruct (Ht j Hj) as (t & Htj). pose proof (Hd j Hj) as Hdj. pose proof (Hse j Hj) as Hsj.
  eexists. split.
  - cbv [em_body osmlem_lbody]. unfold lexec. lsym. reflexivity.
  - split; [|reflexivity]. unfold em_store. cbn [l_venv l_lenv l_heap l_next].
    split; [exact Hv|]. split; [exact Hvt|]. split; [exact Hl1|]. split; [exact Hl2|]. split; [exact Hl3|].
    split; [lsym; reflexivity|]. split; [eexists; lsym; reflexivity|]. split; [|split].
    + intros i Hi. rewrite !hget_hset_other by oid_neq. apply Hd, Hi.
    + intros i Hi. rewrite !hget_hset_other by oid_neq. apply Hse, Hi.
    + intros i Hi. destruct (Nat.eq_dec i j) as [->|Hne].
      * eexists. lsym. reflexivity.
      * destruct (Ht i Hi) as (t' & Ht'). exists t'. rewrite !hget_hset_other by oid_neq. exact Ht'.
Qed.

Lemma em_loop : forall rem j0 s x, (j0 + rem = em_n)%nat -> em_store s x ->
  exists s', lfor emI (fun _ => 0%nat) em_body j0 rem s = Some s'
    /\ em_store s' (fst (em_sweep eps (skipn j0 ops) x))
    /\ l_log s' = (l_log s ++ snd (em_sweep eps (skipn j0 ops) x))%list.
Proof.
  induction rem as [|rem IH]; intros j0 s x Hn Hs.
  - exists s. cbn [lfor]. unfold em_n in Hn. rewrite skipn_all2 by lia. cbn [em_sweep fst snd]. rewrite app_nil_r. auto.
  - cbn [lfor]. destruct (em_step_heap j0 s x Hs ltac:(lia)) as (s1 & E1 & Hs1 & Hlog1). rewrite E1. cbn [obind].
    destruct (IH (S j0) s1 _ ltac:(lia) Hs1) as (s2 & E2 & Hs2 & Hlog2).
    exists s2. split; [exact E2|].
    rewrite (skipn_nth_cons ops dflt j0) by (unfold em_n in Hn; lia). cbn [em_sweep].
    destruct (em_sweep eps (skipn (S j0) ops) (em_one eps (nth j0 ops dflt) x)) as [xf tr]. cbn [fst snd] in *.
    split; [exact Hs2|]. rewrite Hlog2, Hlog1, <- app_assoc. reflexivity.
Qed.

Lemma em_iterate : forall niter s x, em_store s x ->
  exists s', liter niter (litems emI (fun _ => 0%nat) em_n osmlem_lbody) s = Some s'
    /\ em_store s' (iter niter (em_step eps ops) x)
    /\ l_log s' = (l_log s ++ em_trace eps ops niter x)%list.
Proof.
  induction niter as [|niter IH]; intros s x Hs.
  - exists s. cbn [liter iter em_trace]. rewrite app_nil_r. auto.
  - cbn [liter iter em_trace]. 
    assert (Ho : exists s1, litems emI (fun _ => 0%nat) em_n osmlem_lbody s = Some s1
                  /\ em_store s1 (em_step eps ops x) /\ l_log s1 = (l_log s ++ snd (em_sweep eps ops x))%list).
    { rewrite em_shape. cbn [litems]. destruct (em_loop em_n 0 s x eq_refl Hs) as (s1 & E1 & Hs1 & Hlog1).
      rewrite E1. cbn [obind skipn] in *. exists s1. auto. }
    destruct Ho as (s1 & E1 & Hs1 & Hlog1). rewrite E1. cbn [obind].
    destruct (IH s1 _ Hs1) as (s2 & E2 & Hs2 & Hlog2).
    exists s2. split; [exact E2|]. split; [exact Hs2|].
    rewrite Hlog2, Hlog1, <- app_assoc. unfold em_step. destruct (em_sweep eps ops x) as [xf tr]. reflexivity.
Qed.

Definition em_init (x : Rvec) : @lst R :=
  mk_lst [("x", OCaller "x")] [("data", KArg)]
         (fun o => match o with
                   | OCaller "x" => Some x
                   | OArg "data" j => if Nat.ltb j em_n then Some (em_data (nth j ops dflt)) else None
                   | _ => None
                   end) 0 [].
Lemma ones_like_zero m : map (fun _ : R => 1) (vzero m) = vconst m 1.
Proof. unfold vzero, vconst. induction m; cbn; [reflexivity | now f_equal]. Qed.
Lemma em_pre_ok x : exists s, pexec emI (fun _ => 0%nat) em_n 0 osmlem_lpre (em_init x) = Some s /\ em_store s x /\ l_log s = [].
Proof.
  eexists. split; [reflexivity|]. split; [|reflexivity].
  unfold em_store. cbn [l_venv l_lenv l_heap l_next]. repeat split.
  - eexists. unfold hget, hset. cbn. reflexivity.
  - intros j Hj. unfold hget, hset. cbn -[Nat.ltb]. pose proof Hj as Hj'. apply Nat.ltb_lt in Hj'. rewrite !Hj'. reflexivity.
  - intros j Hj. unfold hget, hset. cbn -[Nat.ltb vzero vmaxc]. pose proof Hj as Hj'. apply Nat.ltb_lt in Hj'. rewrite Hj'.
    rewrite (sens_default j Hj). unfold em_default_sens. rewrite ones_like_zero. reflexivity.
  - intros j Hj. eexists. unfold hget, hset. cbn -[Nat.ltb]. apply Nat.ltb_lt in Hj. rewrite Hj. reflexivity.
Qed.
Lemma gen_osmlem_run niter x :
  exists s, lrun emI (fun _ => 0%nat) em_n 0 osmlem_lpre osmlem_lbody niter (em_init x) = Some s
    /\ l_log s = em_trace eps ops niter x
    /\ hget (l_heap s) (OCaller "x") = Some (iter niter (em_step eps ops) x).
Proof.
  destruct (em_pre_ok x) as (s0 & E0 & Hs0 & Hlog0).
  destruct (em_iterate niter s0 x Hs0) as (s1 & E1 & Hs1 & Hlog1).
  exists s1. unfold lrun. rewrite E0. cbn [obind]. split; [exact E1|]. split.
  - rewrite Hlog1, Hlog0. reflexivity.
  - destruct Hs1 as (_ & _ & _ & _ & _ & Hx & _). exact Hx.
Qed.
End EMsweep.
