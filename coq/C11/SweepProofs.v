(* C11/SweepProofs.v -- the list solvers regenerated WITH their preambles
   (Gen/SolversL.v): heap-level statements for every number of operators. *)
From Coq Require Import ZArith QArith Reals Lra Lia List Bool String.
From Verif Require Import Base.Num Base.Vec Base.VecR C11.Model C11.Syntax C11.Interp C11.SyntaxL C11.InterpL.
From Verif Require Import C11.Proofs C11.GenProofs Gen.SolversL.
Import ListNotations.
Local Open Scope string_scope.

(* ------------------------------------------------------------ store laws *)
Lemma oid_eqb_spec (a b : oid) : reflect (a = b) (oid_eqb a b).
Proof.
  destruct a, b; cbn [oid_eqb]; try (constructor; discriminate).
  - destruct (String.eqb_spec s s0); constructor; congruence.
  - destruct (String.eqb_spec s s0), (Nat.eqb_spec j j0); cbn; constructor; congruence.
  - destruct (String.eqb_spec s s0), (Nat.eqb_spec j j0); cbn; constructor; congruence.
  - destruct (String.eqb_spec s s0), (Nat.eqb_spec k k0); cbn; constructor; congruence.
  - destruct (Nat.eqb_spec n n0); constructor; congruence.
Qed.
Lemma hget_hset_same (h : @heap R) o v : hget (hset h o v) o = Some v.
Proof. unfold hget, hset. destruct (oid_eqb_spec o o); congruence. Qed.
Lemma hget_hset_other (h : @heap R) o o' v : o' <> o -> hget (hset h o v) o' = hget h o'.
Proof. intros Hn. unfold hget, hset. destruct (oid_eqb_spec o' o); congruence. Qed.

Ltac oid_neq := first [discriminate | congruence | (intros E; injection E; intros; subst; lia) | (intros E; inversion E; lia)].
(* symbolic execution over an abstract store: compute, then resolve reads through the laws and the
   hypotheses describing the store *)
Ltac lstep :=
  cbn -[vadd vsub vlin vscal vmul vdiv vmaxc vzero hget hset Nat.eqb Nat.ltb Rplus Rminus Rmult Rdiv Ropp Rinv IZR].
Ltac lsym :=
  repeat (progress (lstep;
          repeat match goal with
                 | |- _ => rewrite hget_hset_same
                 | |- _ => rewrite hget_hset_other by oid_neq
                 | H : hget _ _ = Some _ |- _ => rewrite H
                 | H : vget _ _ = Some _ |- _ => rewrite H
                 | H : lget _ _ = Some _ |- _ => rewrite H
                 end)).

(* list facts *)
Lemma skipn_nth_cons {A} (l : list A) (d : A) (j : nat) : (j < List.length l)%nat -> skipn j l = nth j l d :: skipn (S j) l.
Proof.
  revert j; induction l as [|a l IH]; intros j Hj; cbn [List.length] in Hj; [lia|].
  destruct j as [|j]; [reflexivity|]. cbn [skipn nth]. apply IH. lia.
Qed.
Lemma nth_setnth_same (i : nat) (v : Rvec) (l : list Rvec) : (i < List.length l)%nat -> nth i (setnth i v l) [] = v.
Proof. intros Hi. apply (getnth_setnth i v l Hi). Qed.
Lemma nth_setnth_other (i k : nat) (v : Rvec) (l : list Rvec) : k <> i -> nth k (setnth i v l) [] = nth k l [].
Proof.
  revert i k; induction l as [|a l IH]; intros i k Hn; destruct i, k; cbn [setnth nth]; try reflexivity; try congruence.
  apply IH. congruence.
Qed.

Local Open Scope R_scope.
Section ADUPsweep.
Variables (stepsize : R) (junk : string -> Rvec) (dflt : @adop R).
Variable ops : list (@adop R).
Hypothesis scalar_inner : forall j, (j < List.length ops)%nat -> ad_inner_v (nth j ops dflt) = None.
Definition adI (j : nat) : interp := adup_I stepsize (nth j ops dflt) junk.
Definition adkey (j : nat) : nat := ad_key (nth j ops dflt).
Definition ad_body1 : list lstmt := match adupdates_lbody with IFor b :: _ => b | _ => [] end.
Definition ad_body2 : list lstmt := match adupdates_lbody with _ :: IFor b :: _ => b | _ => [] end.

(* one pass of the second inner loop body at index j, on any store that has x, duals[j] and the temporary *)
Lemma ad_step2 j ve le h nx log x d t :
  vget ve "x" = Some (OCaller "x") -> lget le "duals" = Some KComp -> lget le "tmp_rans" = Some KDict ->
  hget h (OCaller "x") = Some x -> hget h (OList "duals" j) = Some d -> hget h (ODict "tmp_rans" (adkey j)) = Some t ->
  ad_inner_v (nth j ops dflt) = None ->
  let o := nth j ops dflt in
  let p := ad_prox o (ad_arg stepsize o d x) in
  exists ve' h',
    lexec (adI j) adkey j ad_body2 (mk_lst ve le h nx log) = Some (mk_lst ve' le h' (S nx) log)
    /\ vget ve' "x" = Some (OCaller "x")
    /\ hget h' (OCaller "x") = Some (adup_x1 stepsize o x d)
    /\ hget h' (OList "duals" j) = Some p /\ hget h' (ODict "tmp_rans" (adkey j)) = Some p
    /\ forall c, c <> OCaller "x" -> c <> OList "duals" j -> c <> ODict "tmp_rans" (adkey j) -> c <> OFresh nx ->
         hget h' c = hget h c.
Proof.
  intros Hv Hl1 Hl2 Hx Hd Ht Hs o p. subst o p. unfold adup_x1, ad_arg. rewrite Hs.
  eexists; eexists. split.
  - cbv [ad_body2 adupdates_lbody]. unfold lexec. lsym. reflexivity.
  - repeat split; lsym; try reflexivity.
    intros c H1 H2 H3 H4. rewrite !hget_hset_other by assumption. reflexivity.
Qed.

(* first inner loop body at index i *)
Lemma ad_step1 j ve le h nx log x d :
  vget ve "x" = Some (OCaller "x") -> lget le "duals" = Some KComp ->
  hget h (OCaller "x") = Some x -> hget h (OList "duals" j) = Some d ->
  exists h',
    lexec (adI j) adkey j ad_body1 (mk_lst ve le h nx log) = Some (mk_lst ve le h' nx log)
    /\ hget h' (OCaller "x") = Some (ad_pre stepsize [nth j ops dflt] [d] x)
    /\ forall c, c <> OCaller "x" -> hget h' c = hget h c.
Proof.
  intros Hv Hl1 Hx Hd. eexists. split.
  - cbv [ad_body1 adupdates_lbody]. unfold lexec. lsym. reflexivity.
  - split; lsym; try reflexivity. intros c H1. rewrite !hget_hset_other by assumption. reflexivity.
Qed.

(* the whole first loop: x -= (1/stepsize) * sum_i L[i].adjoint(duals[i]), all other cells untouched *)
Lemma ad_loop1 : forall rem j0 ve le h nx log x ds,
  (j0 + rem = List.length ops)%nat ->
  vget ve "x" = Some (OCaller "x") -> lget le "duals" = Some KComp ->
  hget h (OCaller "x") = Some x -> List.length ds = rem ->
  (forall i, (i < rem)%nat -> hget h (OList "duals" (j0 + i)) = Some (nth i ds [])) ->
  exists h',
    lfor adI adkey ad_body1 j0 rem (mk_lst ve le h nx log) = Some (mk_lst ve le h' nx log)
    /\ hget h' (OCaller "x") = Some (ad_pre stepsize (skipn j0 ops) ds x)
    /\ forall c, c <> OCaller "x" -> hget h' c = hget h c.
Proof.
  induction rem as [|rem IH]; intros j0 ve le h nx log x ds Hn Hv Hl1 Hx Hlen Hds.
  - exists h. cbn [lfor]. destruct ds; [|discriminate]. rewrite skipn_all2 by lia. repeat split; assumption.
  - destruct ds as [|d ds]; [discriminate|]. cbn [lfor].
    destruct (ad_step1 j0 ve le h nx log x d Hv Hl1 Hx) as (h1 & E1 & Hx1 & F1).
    { specialize (Hds 0%nat ltac:(lia)). now rewrite Nat.add_0_r in Hds. }
    rewrite E1. cbn [obind].
    destruct (IH (S j0) ve le h1 nx log _ ds ltac:(lia) Hv Hl1 Hx1 ltac:(cbn in Hlen; lia)) as (h2 & E2 & Hx2 & F2).
    { intros i Hi. rewrite F1 by discriminate. specialize (Hds (S i) ltac:(lia)).
      now replace (j0 + S i)%nat with (S j0 + i)%nat in Hds by lia. }
    exists h2. split; [exact E2|]. split.
    + rewrite Hx2. rewrite (skipn_nth_cons ops dflt j0) by lia. reflexivity.
    + intros c Hc. rewrite F2, F1 by assumption. reflexivity.
Qed.

(* the whole second loop = the model's sweep with the shared temporaries, for every number of operators *)
Lemma ad_loop2 : forall rem j0 ve le h nx log x ds ts,
  (j0 + rem = List.length ops)%nat ->
  vget ve "x" = Some (OCaller "x") -> lget le "duals" = Some KComp -> lget le "tmp_rans" = Some KDict ->
  hget h (OCaller "x") = Some x -> List.length ds = rem ->
  (forall i, (i < rem)%nat -> hget h (OList "duals" (j0 + i)) = Some (nth i ds [])) ->
  (forall k, (k < List.length ts)%nat -> hget h (ODict "tmp_rans" k) = Some (nth k ts [])) ->
  (forall i, (i < rem)%nat -> (adkey (j0 + i) < List.length ts)%nat) ->
  exists ve' h' nx',
    lfor adI adkey ad_body2 j0 rem (mk_lst ve le h nx log) = Some (mk_lst ve' le h' nx' log)
    /\ vget ve' "x" = Some (OCaller "x")
    /\ (let '(xf, ds', ts', _) := ad_sweep_opt stepsize (skipn j0 ops) ds ts x in
        hget h' (OCaller "x") = Some xf
        /\ List.length ds' = rem /\ (forall i, (i < rem)%nat -> hget h' (OList "duals" (j0 + i)) = Some (nth i ds' []))
        /\ List.length ts' = List.length ts
        /\ (forall k, (k < List.length ts)%nat -> hget h' (ODict "tmp_rans" k) = Some (nth k ts' [])))
    /\ (forall i, (i < j0)%nat -> hget h' (OList "duals" i) = hget h (OList "duals" i))
    /\ (forall s, hget h' (OCaller s) = hget h (OCaller s) \/ s = "x").
Proof.
  induction rem as [|rem IH]; intros j0 ve le h nx log x ds ts Hn Hv Hl1 Hl2 Hx Hlen Hds Hts Hkeys.
  - exists ve, h, nx. cbn [lfor]. destruct ds; [|discriminate]. rewrite skipn_all2 by lia. cbn [ad_sweep_opt].
    repeat split; auto; try (intros; lia).
  - destruct ds as [|d ds]; [discriminate|]. cbn [lfor].
    assert (Hj0 : (j0 < List.length ops)%nat) by lia.
    assert (Hd : hget h (OList "duals" j0) = Some d).
    { specialize (Hds 0%nat ltac:(lia)). now rewrite Nat.add_0_r in Hds. }
    assert (Hk0 : (adkey j0 < List.length ts)%nat).
    { specialize (Hkeys 0%nat ltac:(lia)). now rewrite Nat.add_0_r in Hkeys. }
    destruct (ad_step2 j0 ve le h nx log x d (nth (adkey j0) ts []) Hv Hl1 Hl2 Hx Hd (Hts _ Hk0) (scalar_inner j0 Hj0))
      as (ve1 & h1 & E1 & Hv1 & Hx1 & Hd1 & Ht1 & F1).
    rewrite E1. cbn [obind].
    set (o := nth j0 ops dflt) in *. set (p := ad_prox o (ad_arg stepsize o d x)) in *.
    set (x1 := adup_x1 stepsize o x d) in *.
    destruct (IH (S j0) ve1 le h1 (S nx) log x1 ds (setnth (adkey j0) p ts) ltac:(lia) Hv1 Hl1 Hl2 Hx1
                ltac:(cbn in Hlen; lia)) as (ve2 & h2 & nx2 & E2 & Hv2 & Hres & Fpre & Fcal).
    { intros i Hi. rewrite F1 by oid_neq. specialize (Hds (S i) ltac:(lia)).
      now replace (j0 + S i)%nat with (S j0 + i)%nat in Hds by lia. }
    { intros k Hk. rewrite setnth_length in Hk. destruct (Nat.eq_dec k (adkey j0)) as [->|Hne].
      - rewrite Ht1, nth_setnth_same by exact Hk0. reflexivity.
      - rewrite F1 by oid_neq. rewrite nth_setnth_other by exact Hne. apply Hts, Hk. }
    { intros i Hi. rewrite setnth_length. specialize (Hkeys (S i) ltac:(lia)).
      now replace (j0 + S i)%nat with (S j0 + i)%nat in Hkeys by lia. }
    exists ve2, h2, nx2. split; [exact E2|]. split; [exact Hv2|]. split; [|split].
    + rewrite (skipn_nth_cons ops dflt j0) by exact Hj0. cbn [ad_sweep_opt]. fold o.
      rewrite (getnth_setnth (adkey j0) _ ts Hk0). fold (ad_key o). change (ad_key o) with (adkey j0). fold p.
      change (vsub x (vscal (none_ / stepsize)%num (ad_Ladj o (vsub p d)))) with x1.
      destruct (ad_sweep_opt stepsize (skipn (S j0) ops) ds (setnth (adkey j0) p ts) x1) as [[[xf ds'] ts'] tr'].
      destruct Hres as (Hxf & Hl' & Hds' & Hlt' & Hts').
      split; [exact Hxf|]. split; [cbn [List.length]; lia|]. split; [|split].
      * intros i Hi. destruct i as [|i].
        -- rewrite Nat.add_0_r, Fpre by lia. exact Hd1.
        -- replace (j0 + S i)%nat with (S j0 + i)%nat by lia. cbn [nth]. apply Hds'. lia.
      * rewrite Hlt'. apply setnth_length.
      * intros k Hk. apply Hts'. now rewrite setnth_length.
    + intros i Hi. rewrite Fpre by lia. apply F1; oid_neq.
    + intros s0. destruct (String.eqb_spec s0 "x") as [->|Hne]; [now right|]. left.
      destruct (Fcal s0) as [E|E]; [|contradiction]. rewrite E. apply F1; oid_neq.
Qed.
End ADUPsweep.
