(* C11/GenProofs.v -- the programs REGENERATED from the solver sources
   (Gen/Solvers.v), run by the heap-level interpreter (C11/Interp.v), compute
   exactly the loop-body models of C11/Model.v -- for every interpretation of
   the operator symbols, every start value, every content of uninitialised
   buffers and every iteration count.  Each per-solver step lemma is closed by
   symbolic execution of the interpreter on the generated program. *)
From Coq Require Import ZArith QArith Reals Lra Lia List Bool String.
From Verif Require Import Base.Num Base.Vec Base.VecR C11.Model C11.Syntax C11.Interp C11.Proofs Gen.Solvers.
Import ListNotations.
Local Open Scope string_scope.

(* ---------------------------------------------- interpretations from tables *)
Fixpoint assoc {A} (d : A) (l : list (string * A)) (s : string) : A :=
  match l with [] => d | (k, v) :: l' => if String.eqb s k then v else assoc d l' s end.
Definition mk_I (sc : list (string * R)) (fn : list (string * (Rvec -> Rvec)))
  (fn2 : list (string * (Rvec -> Rvec -> Rvec))) (zero : list (string * Rvec)) (junk : string -> Rvec)
  : @interp R :=
  mk_interp (assoc 0%R sc) (assoc (fun v => v) fn) (assoc (fun _ v => v) fn2) (assoc [] zero) junk.

(* observations appended by n iterations when one iteration appends [emit s'] *)
Fixpoint traceL {St} (emit : St -> list Rvec) (n : nat) (f : St -> St) (s : St) : list Rvec :=
  match n with O => [] | S k => emit (f s) ++ traceL emit k f (f s) end.
Lemma traceL_single {St} (obs : St -> Rvec) n f (s : St) : traceL (fun s => [obs s]) n f s = trace obs n f s.
Proof. revert s; induction n as [|n IH]; intros s; cbn [traceL trace app]; [reflexivity | now rewrite IH]. Qed.
Lemma traceL_none {St} n f (s : St) : traceL (fun _ => []) n f s = [].
Proof. revert s; induction n as [|n IH]; intros s; cbn [traceL app]; [reflexivity | apply IH]. Qed.
Fixpoint traceLk {St} (emit : St -> list Rvec) (n k0 : nat) (f : nat -> St -> St) (s : St) : list Rvec :=
  match n with O => [] | S k => emit (f k0 s) ++ traceLk emit k (S k0) f (f k0 s) end.
Lemma traceLk_single {St} (obs : St -> Rvec) n k0 f (s : St) :
  traceLk (fun s => [obs s]) n k0 f s = tracek obs n k0 f s.
Proof. revert k0 s; induction n as [|n IH]; intros k0 s; cbn [traceLk tracek app]; [reflexivity | now rewrite IH]. Qed.

(* ------------------------------------------------------- generic simulation *)
Section Sim.
Context {Hs : Type}.
Variables (env0 : list (string * nat)) (enc : Hs -> list Rvec) (emit : Hs -> list Rvec).

Lemma sim_iter (step : hst -> option hst) (hstep : Hs -> Hs) :
  (forall h log, step (mk_hst env0 (enc h) log) = Some (mk_hst env0 (enc (hstep h)) (log ++ emit (hstep h)))) ->
  forall n h log, iter_opt n step (mk_hst env0 (enc h) log)
                  = Some (mk_hst env0 (enc (iter n hstep h)) (log ++ traceL emit n hstep h)).
Proof.
  intros Hb n; induction n as [|n IH]; intros h log; cbn [iter_opt iter traceL].
  - now rewrite app_nil_r.
  - rewrite Hb. cbn [obind]. rewrite IH, app_assoc. reflexivity.
Qed.

Lemma sim_iterk (step : nat -> hst -> option hst) (hstep : nat -> Hs -> Hs) :
  (forall k h log, step k (mk_hst env0 (enc h) log) = Some (mk_hst env0 (enc (hstep k h)) (log ++ emit (hstep k h)))) ->
  forall n k0 h log, iterk_opt n k0 step (mk_hst env0 (enc h) log)
                     = Some (mk_hst env0 (enc (iterk n k0 hstep h)) (log ++ traceLk emit n k0 hstep h)).
Proof.
  intros Hb n; induction n as [|n IH]; intros k0 h log; cbn [iterk_opt iterk traceLk].
  - now rewrite app_nil_r.
  - rewrite Hb. cbn [obind]. rewrite IH, app_assoc. reflexivity.
Qed.
End Sim.

(* symbolic execution: unfold everything except real arithmetic and the vector primitives *)
Ltac symexec :=
  cbv -[Rplus Rminus Rmult Rdiv Ropp Rinv IZR Rle_dec vadd vsub vlin vscal vmul vdiv vzero vmaxc normsq_lt app];
  try reflexivity.

Local Open Scope R_scope.

(* ==================================================================== ADMM *)
Section GenADMM.
Variables (L Ladj proxf proxg : Rvec -> Rvec) (tau sigma : R) (m : nat) (junk : string -> Rvec).
Definition admm_I : interp :=
  mk_I [("tau", tau); ("sigma", sigma)]
       [("L", L); ("L.adjoint", Ladj); ("f.proximal(tau)", proxf); ("g.proximal(sigma)", proxg)]
       [] [("L.range", vzero m)] junk.
(* the caller holds a reference to x *)
Definition env_x : list (string * nat) := [("x", 0%nat); ("caller.x", 0%nat)].

Definition admm_opt_env := (env_x ++ [("z", 1%nat); ("u", 2%nat); ("tmp_ran", 3%nat); ("tmp_dom", 4%nat)])%list.
Definition admm_opt_enc (s : @admm_ost R) : list Rvec := [ao_x s; ao_z s; ao_u s; ao_tr s; ao_td s].
Lemma gen_admm_opt_pre x log :
  option_map canon (exec admm_I admm_linearized_pre (mk_hst env_x [x] log))
  = Some (mk_hst admm_opt_env (admm_opt_enc (admm_opt_init L m (junk "tmp_dom") x)) log).
Proof. symexec. Qed.
Lemma gen_admm_opt_body s log :
  body_step admm_I admm_linearized_body (mk_hst admm_opt_env (admm_opt_enc s) log)
  = Some (mk_hst admm_opt_env (admm_opt_enc (admm_opt_step L Ladj proxf proxg tau sigma s))
            (log ++ [ao_x (admm_opt_step L Ladj proxf proxg tau sigma s)])).
Proof. destruct s. symexec. Qed.
Lemma gen_admm_opt_run n x :
  run_prog admm_I admm_linearized_pre admm_linearized_body n (mk_hst env_x [x] [])
  = Some (mk_hst admm_opt_env
            (admm_opt_enc (iter n (admm_opt_step L Ladj proxf proxg tau sigma) (admm_opt_init L m (junk "tmp_dom") x)))
            (admm_opt_trace L Ladj proxf proxg tau sigma m n (junk "tmp_dom") x)).
Proof.
  unfold run_prog. rewrite gen_admm_opt_pre. cbn [obind].
  rewrite (sim_iter admm_opt_env admm_opt_enc (fun s => [ao_x s]) _ _ gen_admm_opt_body).
  rewrite traceL_single. reflexivity.
Qed.

Definition admm_ref_env := (env_x ++ [("z", 1%nat); ("u", 2%nat)])%list.
Definition admm_ref_enc (s : @admm_rst R) : list Rvec := [ar_x s; ar_z s; ar_u s].
Lemma gen_admm_ref_pre x log :
  option_map canon (exec admm_I admm_linearized_simple_pre (mk_hst env_x [x] log))
  = Some (mk_hst admm_ref_env (admm_ref_enc (admm_ref_init m x)) log).
Proof. symexec. Qed.
Lemma gen_admm_ref_body s log :
  body_step admm_I admm_linearized_simple_body (mk_hst admm_ref_env (admm_ref_enc s) log)
  = Some (mk_hst admm_ref_env (admm_ref_enc (admm_ref_step L Ladj proxf proxg tau sigma s))
            (log ++ [ar_x (admm_ref_step L Ladj proxf proxg tau sigma s)])).
Proof. destruct s. symexec. Qed.
Lemma gen_admm_ref_run n x :
  run_prog admm_I admm_linearized_simple_pre admm_linearized_simple_body n (mk_hst env_x [x] [])
  = Some (mk_hst admm_ref_env
            (admm_ref_enc (iter n (admm_ref_step L Ladj proxf proxg tau sigma) (admm_ref_init m x)))
            (admm_ref_trace L Ladj proxf proxg tau sigma m n x)).
Proof.
  unfold run_prog. rewrite gen_admm_ref_pre. cbn [obind].
  rewrite (sim_iter admm_ref_env admm_ref_enc (fun s => [ar_x s]) _ _ gen_admm_ref_body).
  rewrite traceL_single. reflexivity.
Qed.

(* the two generated programs: same callback log, same final value in the caller's x *)
Lemma gen_admm_equiv n x :
  exists so sr,
    run_prog admm_I admm_linearized_pre admm_linearized_body n (mk_hst env_x [x] []) = Some so
    /\ run_prog admm_I admm_linearized_simple_pre admm_linearized_simple_body n (mk_hst env_x [x] []) = Some sr
    /\ h_log so = h_log sr /\ List.length (h_log so) = n
    /\ deref so "caller.x" = deref sr "caller.x".
Proof.
  eexists; eexists. split; [apply gen_admm_opt_run|]. split; [apply gen_admm_ref_run|].
  cbn [h_log]. split; [apply admm_refines|]. split; [apply trace_length|].
  pose proof (admm_state_refines L Ladj proxf proxg tau sigma m n (junk "tmp_dom") x) as (Hx & _).
  cbv [deref h_env h_heap admm_opt_env admm_ref_env env_x app env_get String.eqb Ascii.eqb Bool.eqb
       nth_error admm_opt_enc admm_ref_enc].
  now rewrite Hx.
Qed.
End GenADMM.

(* ============================================================ doubleprox_dc *)
Section GenDPDC.
Variables (K Kadj proxf proxgc gradphi : Rvec -> Rvec) (gamma mu : R) (junk : string -> Rvec).
Definition dpdc_I : interp :=
  mk_I [("gamma", gamma); ("mu", mu)]
       [("K", K); ("K.adjoint", Kadj); ("f.proximal(gamma)", proxf); ("g.convex_conj.proximal(mu)", proxgc);
        ("phi.gradient", gradphi)] [] [] junk.
(* the caller holds x and y *)
Definition env_xy : list (string * nat) := [("x", 0%nat); ("caller.x", 0%nat); ("y", 1%nat); ("caller.y", 1%nat)].
Definition dpdc_enc (s : Rvec * Rvec) : list Rvec := [fst s; snd s].

Lemma gen_dpdc_opt_pre s log :
  option_map canon (exec dpdc_I doubleprox_dc_pre (mk_hst env_xy (dpdc_enc s) log)) = Some (mk_hst env_xy (dpdc_enc s) log).
Proof. destruct s. symexec. Qed.
Lemma gen_dpdc_opt_body s log :
  body_step dpdc_I doubleprox_dc_body (mk_hst env_xy (dpdc_enc s) log)
  = Some (mk_hst env_xy (dpdc_enc (dpdc_opt_step K Kadj proxf proxgc gradphi gamma mu s))
            (log ++ [fst (dpdc_opt_step K Kadj proxf proxgc gradphi gamma mu s)])).
Proof. destruct s. symexec. Qed.
Lemma gen_dpdc_opt_run n s log :
  run_prog dpdc_I doubleprox_dc_pre doubleprox_dc_body n (mk_hst env_xy (dpdc_enc s) log)
  = Some (mk_hst env_xy (dpdc_enc (iter n (dpdc_opt_step K Kadj proxf proxgc gradphi gamma mu) s))
            (log ++ trace fst n (dpdc_opt_step K Kadj proxf proxgc gradphi gamma mu) s)).
Proof.
  unfold run_prog. rewrite gen_dpdc_opt_pre. cbn [obind].
  rewrite (sim_iter env_xy dpdc_enc (fun s => [fst s]) _ _ gen_dpdc_opt_body), traceL_single. reflexivity.
Qed.

Lemma gen_dpdc_ref_pre s log :
  option_map canon (exec dpdc_I doubleprox_dc_simple_pre (mk_hst env_xy (dpdc_enc s) log))
  = Some (mk_hst env_xy (dpdc_enc s) log).
Proof. destruct s. symexec. Qed.
Lemma gen_dpdc_ref_body s log :
  body_step dpdc_I doubleprox_dc_simple_body (mk_hst env_xy (dpdc_enc s) log)
  = Some (mk_hst env_xy (dpdc_enc (dpdc_ref_step K Kadj proxf proxgc gradphi gamma mu s)) (log ++ [])).
Proof. destruct s. rewrite app_nil_r. symexec. Qed.
Lemma gen_dpdc_ref_run n s log :
  run_prog dpdc_I doubleprox_dc_simple_pre doubleprox_dc_simple_body n (mk_hst env_xy (dpdc_enc s) log)
  = Some (mk_hst env_xy (dpdc_enc (iter n (dpdc_ref_step K Kadj proxf proxgc gradphi gamma mu) s)) log).
Proof.
  unfold run_prog. rewrite gen_dpdc_ref_pre. cbn [obind].
  rewrite (sim_iter env_xy dpdc_enc (fun _ => []) _ _ gen_dpdc_ref_body), traceL_none, app_nil_r. reflexivity.
Qed.

(* generated optimised vs generated reference: same caller-visible x and y after every niter *)
Lemma gen_dpdc_equiv n x y :
  exists so sr,
    run_prog dpdc_I doubleprox_dc_pre doubleprox_dc_body n (mk_hst env_xy [x; y] []) = Some so
    /\ run_prog dpdc_I doubleprox_dc_simple_pre doubleprox_dc_simple_body n (mk_hst env_xy [x; y] []) = Some sr
    /\ deref so "caller.x" = deref sr "caller.x" /\ deref so "caller.y" = deref sr "caller.y"
    /\ List.length (h_log so) = n.
Proof.
  eexists; eexists. split; [apply (gen_dpdc_opt_run n (x, y) [])|]. split; [apply (gen_dpdc_ref_run n (x, y) [])|].
  pose proof (dpdc_refines K Kadj proxf proxgc gradphi gamma mu n (x, y)) as (Hs & _).
  rewrite Hs. repeat split. cbn [h_log app]. apply trace_length.
Qed.
(* resumption on the caller's objects: a second call started on what the first left in x and y *)
Lemma gen_dpdc_resume n m x y :
  exists s1 s2 s12,
    run_prog dpdc_I doubleprox_dc_pre doubleprox_dc_body n (mk_hst env_xy [x; y] []) = Some s1
    /\ (exists x1 y1, deref s1 "caller.x" = Some x1 /\ deref s1 "caller.y" = Some y1
        /\ run_prog dpdc_I doubleprox_dc_pre doubleprox_dc_body m (mk_hst env_xy [x1; y1] []) = Some s2)
    /\ run_prog dpdc_I doubleprox_dc_pre doubleprox_dc_body (n + m) (mk_hst env_xy [x; y] []) = Some s12
    /\ deref s2 "caller.x" = deref s12 "caller.x" /\ deref s2 "caller.y" = deref s12 "caller.y".
Proof.
  eexists; eexists; eexists. split; [apply (gen_dpdc_opt_run n (x, y) [])|].
  split. { eexists; eexists. split; [reflexivity|]. split; [reflexivity|].
           apply (gen_dpdc_opt_run m (_, _) []). }
  split; [apply (gen_dpdc_opt_run (n + m) (x, y) [])|].
  rewrite iter_add.
  destruct (iter n (dpdc_opt_step K Kadj proxf proxgc gradphi gamma mu) (x, y)) as [x1 y1]. split; reflexivity.
Qed.
End GenDPDC.

(* ==================================================================== PDHG *)
Section GenPDHG.
Variables (L Ladj proxp proxd : Rvec -> Rvec) (tau sigma theta : R) (m : nat) (junk : string -> Rvec).
(* L linear: L.derivative(x).adjoint = L.adjoint, whatever x *)
Definition pdhg_I : interp :=
  mk_I [("tau", tau); ("sigma", sigma); ("theta", theta)]
       [("L", L); ("f.proximal(tau)", proxp); ("g.convex_conj.proximal(sigma)", proxd)]
       [("L.derivative.adjoint", fun _ => Ladj)] [("L.range", vzero m)] junk.
(* state of the model plus the three temporaries *)
Definition pdhg_full := (@pdhg_st R * (Rvec * Rvec * Rvec))%type.
Definition pdhg_full_step (f : pdhg_full) : pdhg_full :=
  let s := fst f in
  let dt := vlin 1 (pd_y s) sigma (L (pd_xr s)) in
  let y := proxd dt in
  let pt := vlin 1 (pd_x s) (- tau) (Ladj y) in
  (pdhg_step L Ladj proxp proxd tau sigma theta s, (pd_x s, dt, pt)).
Lemma pdhg_full_fst n f :
  fst (iter n pdhg_full_step f) = iter n (pdhg_step L Ladj proxp proxd tau sigma theta) (fst f).
Proof. revert f; induction n as [|n IH]; intros f; cbn [iter]; [reflexivity | now rewrite IH]. Qed.
Lemma pdhg_full_trace n f :
  trace (fun f : pdhg_full => pd_x (fst f)) n pdhg_full_step f
  = trace pd_x n (pdhg_step L Ladj proxp proxd tau sigma theta) (fst f).
Proof. revert f; induction n as [|n IH]; intros f; cbn [trace]; [reflexivity | now rewrite IH]. Qed.
Definition pdhg_enc (f : pdhg_full) : list Rvec :=
  let '(s, (xo, dt, pt)) := f in [pd_x s; pd_xr s; pd_y s; xo; dt; pt].

(* (a) x_relax and y passed by the caller *)
Definition env_pdhg_in : list (string * nat) :=
  [("x", 0%nat); ("caller.x", 0%nat); ("x_relax", 1%nat); ("caller.x_relax", 1%nat); ("y", 2%nat); ("caller.y", 2%nat)].
Definition env_pdhg : list (string * nat) :=
  (env_pdhg_in ++ [("x_old", 3%nat); ("dual_tmp", 4%nat); ("primal_tmp", 5%nat)])%list.
Definition pdhg_junk : Rvec * Rvec * Rvec := (junk "x_old", junk "dual_tmp", junk "primal_tmp").
Lemma gen_pdhg_pre_passed x xr y log :
  option_map canon (exec pdhg_I pdhg_pre (mk_hst env_pdhg_in [x; xr; y] log))
  = Some (mk_hst env_pdhg (pdhg_enc (mk_pdhg_st x xr y, pdhg_junk)) log).
Proof. symexec. Qed.
Lemma gen_pdhg_body f log :
  body_step pdhg_I pdhg_body (mk_hst env_pdhg (pdhg_enc f) log)
  = Some (mk_hst env_pdhg (pdhg_enc (pdhg_full_step f)) (log ++ [pd_x (fst (pdhg_full_step f))])).
Proof. destruct f as [[x xr y] [[xo dt] pt]]. symexec. Qed.
Lemma gen_pdhg_run_passed n x xr y :
  run_prog pdhg_I pdhg_pre pdhg_body n (mk_hst env_pdhg_in [x; xr; y] [])
  = Some (mk_hst env_pdhg (pdhg_enc (iter n pdhg_full_step (mk_pdhg_st x xr y, pdhg_junk)))
            (trace pd_x n (pdhg_step L Ladj proxp proxd tau sigma theta) (mk_pdhg_st x xr y))).
Proof.
  unfold run_prog. rewrite gen_pdhg_pre_passed. cbn [obind].
  rewrite (sim_iter env_pdhg pdhg_enc (fun f => [pd_x (fst f)]) _ _ gen_pdhg_body), traceL_single.
  cbn [app]. rewrite pdhg_full_trace. reflexivity.
Qed.

(* (b) nothing passed: x_relax = x.copy(), y = L.range.zero() are local objects *)
Definition env_pdhg_none : list (string * nat) :=
  [("x", 0%nat); ("caller.x", 0%nat); ("x_relax", 1%nat); ("y", 2%nat); ("x_old", 3%nat); ("dual_tmp", 4%nat);
   ("primal_tmp", 5%nat)].
Lemma gen_pdhg_pre_none x log :
  option_map canon (exec pdhg_I pdhg_pre (mk_hst [("x", 0%nat); ("caller.x", 0%nat)] [x] log))
  = Some (mk_hst env_pdhg_none (pdhg_enc (pdhg_init m x None None, pdhg_junk)) log).
Proof. symexec. Qed.
Lemma gen_pdhg_body_none f log :
  body_step pdhg_I pdhg_body (mk_hst env_pdhg_none (pdhg_enc f) log)
  = Some (mk_hst env_pdhg_none (pdhg_enc (pdhg_full_step f)) (log ++ [pd_x (fst (pdhg_full_step f))])).
Proof. destruct f as [[x xr y] [[xo dt] pt]]. symexec. Qed.
Lemma gen_pdhg_run_none n x :
  run_prog pdhg_I pdhg_pre pdhg_body n (mk_hst [("x", 0%nat); ("caller.x", 0%nat)] [x] [])
  = Some (mk_hst env_pdhg_none (pdhg_enc (iter n pdhg_full_step (pdhg_init m x None None, pdhg_junk)))
            (trace pd_x n (pdhg_step L Ladj proxp proxd tau sigma theta) (pdhg_init m x None None))).
Proof.
  unfold run_prog. rewrite gen_pdhg_pre_none. cbn [obind].
  rewrite (sim_iter env_pdhg_none pdhg_enc (fun f => [pd_x (fst f)]) _ _ gen_pdhg_body_none), traceL_single.
  cbn [app]. rewrite pdhg_full_trace. reflexivity.
Qed.

(* (c) only x_relax passed, (d) only y passed: the other one is a fresh local object *)
Definition env_pdhg_xr : list (string * nat) :=
  [("x", 0%nat); ("caller.x", 0%nat); ("x_relax", 1%nat); ("caller.x_relax", 1%nat); ("y", 2%nat);
   ("x_old", 3%nat); ("dual_tmp", 4%nat); ("primal_tmp", 5%nat)].
Lemma gen_pdhg_pre_xr x xr log :
  option_map canon (exec pdhg_I pdhg_pre
    (mk_hst [("x", 0%nat); ("caller.x", 0%nat); ("x_relax", 1%nat); ("caller.x_relax", 1%nat)] [x; xr] log))
  = Some (mk_hst env_pdhg_xr (pdhg_enc (pdhg_init m x (Some xr) None, pdhg_junk)) log).
Proof. symexec. Qed.
Lemma gen_pdhg_body_xr f log :
  body_step pdhg_I pdhg_body (mk_hst env_pdhg_xr (pdhg_enc f) log)
  = Some (mk_hst env_pdhg_xr (pdhg_enc (pdhg_full_step f)) (log ++ [pd_x (fst (pdhg_full_step f))])).
Proof. destruct f as [[x xr y] [[xo dt] pt]]. symexec. Qed.
Lemma gen_pdhg_run_xr n x xr :
  run_prog pdhg_I pdhg_pre pdhg_body n
    (mk_hst [("x", 0%nat); ("caller.x", 0%nat); ("x_relax", 1%nat); ("caller.x_relax", 1%nat)] [x; xr] [])
  = Some (mk_hst env_pdhg_xr (pdhg_enc (iter n pdhg_full_step (pdhg_init m x (Some xr) None, pdhg_junk)))
            (trace pd_x n (pdhg_step L Ladj proxp proxd tau sigma theta) (pdhg_init m x (Some xr) None))).
Proof.
  unfold run_prog. rewrite gen_pdhg_pre_xr. cbn [obind].
  rewrite (sim_iter env_pdhg_xr pdhg_enc (fun f => [pd_x (fst f)]) _ _ gen_pdhg_body_xr), traceL_single.
  cbn [app]. rewrite pdhg_full_trace. reflexivity.
Qed.
Definition env_pdhg_y : list (string * nat) :=
  [("x", 0%nat); ("caller.x", 0%nat); ("y", 1%nat); ("caller.y", 1%nat); ("x_relax", 2%nat);
   ("x_old", 3%nat); ("dual_tmp", 4%nat); ("primal_tmp", 5%nat)].
Definition pdhg_enc_y (f : pdhg_full) : list Rvec :=
  let '(s, (xo, dt, pt)) := f in [pd_x s; pd_y s; pd_xr s; xo; dt; pt].
Lemma gen_pdhg_pre_y x y log :
  option_map canon (exec pdhg_I pdhg_pre
    (mk_hst [("x", 0%nat); ("caller.x", 0%nat); ("y", 1%nat); ("caller.y", 1%nat)] [x; y] log))
  = Some (mk_hst env_pdhg_y (pdhg_enc_y (pdhg_init m x None (Some y), pdhg_junk)) log).
Proof. symexec. Qed.
Lemma gen_pdhg_body_y f log :
  body_step pdhg_I pdhg_body (mk_hst env_pdhg_y (pdhg_enc_y f) log)
  = Some (mk_hst env_pdhg_y (pdhg_enc_y (pdhg_full_step f)) (log ++ [pd_x (fst (pdhg_full_step f))])).
Proof. destruct f as [[x xr y] [[xo dt] pt]]. symexec. Qed.
Lemma gen_pdhg_run_y n x y :
  run_prog pdhg_I pdhg_pre pdhg_body n
    (mk_hst [("x", 0%nat); ("caller.x", 0%nat); ("y", 1%nat); ("caller.y", 1%nat)] [x; y] [])
  = Some (mk_hst env_pdhg_y (pdhg_enc_y (iter n pdhg_full_step (pdhg_init m x None (Some y), pdhg_junk)))
            (trace pd_x n (pdhg_step L Ladj proxp proxd tau sigma theta) (pdhg_init m x None (Some y)))).
Proof.
  unfold run_prog. rewrite gen_pdhg_pre_y. cbn [obind].
  rewrite (sim_iter env_pdhg_y pdhg_enc_y (fun f => [pd_x (fst f)]) _ _ gen_pdhg_body_y), traceL_single.
  cbn [app]. rewrite pdhg_full_trace. reflexivity.
Qed.

(* what the caller sees in x, x_relax, y after a call with all three passed *)
Lemma gen_pdhg_caller n x xr y :
  exists s, run_prog pdhg_I pdhg_pre pdhg_body n (mk_hst env_pdhg_in [x; xr; y] []) = Some s
    /\ let r := iter n (pdhg_step L Ladj proxp proxd tau sigma theta) (mk_pdhg_st x xr y) in
       deref s "caller.x" = Some (pd_x r) /\ deref s "caller.x_relax" = Some (pd_xr r)
       /\ deref s "caller.y" = Some (pd_y r) /\ h_log s = trace pd_x n (pdhg_step L Ladj proxp proxd tau sigma theta) (mk_pdhg_st x xr y).
Proof.
  eexists. split; [apply gen_pdhg_run_passed|]. cbv zeta.
  pose proof (pdhg_full_fst n (mk_pdhg_st x xr y, pdhg_junk)) as E. cbn [fst] in E. rewrite <- E.
  destruct (iter n pdhg_full_step (mk_pdhg_st x xr y, pdhg_junk)) as [[x' xr' y'] [[xo dt] pt]].
  repeat split.
Qed.
(* resumption through the caller's objects *)
Lemma gen_pdhg_resume n k x xr y :
  exists s1 x1 xr1 y1 s2 s12,
    run_prog pdhg_I pdhg_pre pdhg_body n (mk_hst env_pdhg_in [x; xr; y] []) = Some s1
    /\ deref s1 "caller.x" = Some x1 /\ deref s1 "caller.x_relax" = Some xr1 /\ deref s1 "caller.y" = Some y1
    /\ run_prog pdhg_I pdhg_pre pdhg_body k (mk_hst env_pdhg_in [x1; xr1; y1] []) = Some s2
    /\ run_prog pdhg_I pdhg_pre pdhg_body (n + k) (mk_hst env_pdhg_in [x; xr; y] []) = Some s12
    /\ deref s2 "caller.x" = deref s12 "caller.x" /\ deref s2 "caller.x_relax" = deref s12 "caller.x_relax"
    /\ deref s2 "caller.y" = deref s12 "caller.y".
Proof.
  destruct (gen_pdhg_caller n x xr y) as (s1 & H1 & Hx1 & Hxr1 & Hy1 & _).
  set (r1 := iter n (pdhg_step L Ladj proxp proxd tau sigma theta) (mk_pdhg_st x xr y)) in *.
  destruct (gen_pdhg_caller k (pd_x r1) (pd_xr r1) (pd_y r1)) as (s2 & H2 & Hx2 & Hxr2 & Hy2 & _).
  destruct (gen_pdhg_caller (n + k) x xr y) as (s12 & H12 & Hx12 & Hxr12 & Hy12 & _).
  exists s1, (pd_x r1), (pd_xr r1), (pd_y r1), s2, s12.
  repeat (split; [assumption|]).
  rewrite Hx2, Hxr2, Hy2, Hx12, Hxr12, Hy12, iter_add. fold r1. destruct r1. repeat split.
Qed.
End GenPDHG.

(* =============================================================== Landweber *)
Section GenLandweber.
Variables (A : Rvec -> Rvec) (Dadj : Rvec -> Rvec -> Rvec) (proj : Rvec -> Rvec) (omega : R) (junk : string -> Rvec).
Definition lw_I : interp :=
  mk_I [("omega", omega)] [("op", A); ("projection", proj)] [("op.derivative.adjoint", Dadj)] [] junk.
Definition env_lw_in : list (string * nat) := [("x", 0%nat); ("caller.x", 0%nat); ("rhs", 1%nat)].
Definition env_lw : list (string * nat) := (env_lw_in ++ [("tmp_ran", 2%nat); ("tmp_dom", 3%nat)])%list.
Definition lw_full_step (rhs : Rvec) (f : Rvec * (Rvec * Rvec)) : Rvec * (Rvec * Rvec) :=
  let x := fst f in
  (landweber_step A Dadj proj rhs omega x, (vsub (A x) rhs, Dadj x (vsub (A x) rhs))).
Definition lw_enc (rhs : Rvec) (f : Rvec * (Rvec * Rvec)) : list Rvec := [fst f; rhs; fst (snd f); snd (snd f)].
Lemma gen_lw_pre x rhs log :
  option_map canon (exec lw_I landweber_pre (mk_hst env_lw_in [x; rhs] log))
  = Some (mk_hst env_lw (lw_enc rhs (x, (junk "tmp_ran", junk "tmp_dom"))) log).
Proof. symexec. Qed.
Lemma gen_lw_body rhs f log :
  body_step lw_I landweber_body (mk_hst env_lw (lw_enc rhs f) log)
  = Some (mk_hst env_lw (lw_enc rhs (lw_full_step rhs f)) (log ++ [fst (lw_full_step rhs f)])).
Proof. destruct f as [x [tr td]]. symexec. Qed.
Lemma lw_full_fst rhs n f : fst (iter n (lw_full_step rhs) f) = iter n (landweber_step A Dadj proj rhs omega) (fst f).
Proof. revert f; induction n as [|n IH]; intros f; cbn [iter]; [reflexivity | now rewrite IH]. Qed.
Lemma lw_full_trace rhs n f :
  trace (fun f : Rvec * (Rvec * Rvec) => fst f) n (lw_full_step rhs) f
  = trace (fun x => x) n (landweber_step A Dadj proj rhs omega) (fst f).
Proof. revert f; induction n as [|n IH]; intros f; cbn [trace]; [reflexivity | now rewrite IH]. Qed.
Lemma gen_lw_run n x rhs :
  exists s, run_prog lw_I landweber_pre landweber_body n (mk_hst env_lw_in [x; rhs] []) = Some s
    /\ deref s "caller.x" = Some (iter n (landweber_step A Dadj proj rhs omega) x)
    /\ h_log s = trace (fun x => x) n (landweber_step A Dadj proj rhs omega) x.
Proof.
  eexists. split.
  - unfold run_prog. rewrite gen_lw_pre. cbn [obind].
    rewrite (sim_iter env_lw (lw_enc rhs) (fun f => [fst f]) _ _ (gen_lw_body rhs)), traceL_single. reflexivity.
  - split.
    + pose proof (lw_full_fst rhs n (x, (junk "tmp_ran", junk "tmp_dom"))) as E. cbn [fst] in E. rewrite <- E.
      reflexivity.
    + cbn [h_log app]. rewrite lw_full_trace. reflexivity.
Qed.
End GenLandweber.

(* ======================================================= proximal gradient *)
Section GenPG.
Variables (proxf gradg : Rvec -> Rvec) (gamma : R) (lam : nat -> R) (junk : string -> Rvec).
(* the interpretation of the loop-local scalar lam_k = lam(k) depends on the counter *)
Definition pg_I (k : nat) : interp :=
  mk_I [("gamma", gamma); ("lam_k", lam k)] [("f.proximal(gamma)", proxf); ("g.gradient", gradg)] [] [] junk.
Definition env_pg : list (string * nat) := [("x", 0%nat); ("caller.x", 0%nat); ("tmp", 1%nat)].
Definition pg_full_step (k : nat) (f : Rvec * Rvec) : Rvec * Rvec :=
  (pg_step proxf gradg gamma lam k (fst f), vlin 1 (fst f) (- gamma) (gradg (fst f))).
Definition pg_enc (f : Rvec * Rvec) : list Rvec := [fst f; snd f].
Lemma gen_pg_pre x log :
  option_map canon (exec (pg_I 0) proximal_gradient_pre (mk_hst [("x", 0%nat); ("caller.x", 0%nat)] [x] log))
  = Some (mk_hst env_pg (pg_enc (x, junk "tmp")) log).
Proof. symexec. Qed.
Lemma gen_pg_body k f log :
  body_step (pg_I k) proximal_gradient_body (mk_hst env_pg (pg_enc f) log)
  = Some (mk_hst env_pg (pg_enc (pg_full_step k f)) (log ++ [fst (pg_full_step k f)])).
Proof. destruct f as [x t]. symexec. Qed.
Lemma pg_full_fst n k0 f : fst (iterk n k0 pg_full_step f) = iterk n k0 (pg_step proxf gradg gamma lam) (fst f).
Proof. revert k0 f; induction n as [|n IH]; intros k0 f; cbn [iterk]; [reflexivity | now rewrite IH]. Qed.
Lemma pg_full_trace n k0 f :
  tracek (fun f : Rvec * Rvec => fst f) n k0 pg_full_step f
  = tracek (fun x => x) n k0 (pg_step proxf gradg gamma lam) (fst f).
Proof. revert k0 f; induction n as [|n IH]; intros k0 f; cbn [tracek]; [reflexivity | now rewrite IH]. Qed.
Lemma gen_pg_run n x :
  exists s,
    obind (option_map canon (exec (pg_I 0) proximal_gradient_pre (mk_hst [("x", 0%nat); ("caller.x", 0%nat)] [x] [])))
          (iterk_opt n 0 (fun k => body_step (pg_I k) proximal_gradient_body)) = Some s
    /\ deref s "caller.x" = Some (iterk n 0 (pg_step proxf gradg gamma lam) x)
    /\ h_log s = tracek (fun x => x) n 0 (pg_step proxf gradg gamma lam) x.
Proof.
  eexists. split.
  - rewrite gen_pg_pre. cbn [obind].
    rewrite (sim_iterk env_pg pg_enc (fun f => [fst f]) _ _ gen_pg_body), traceLk_single. reflexivity.
  - split.
    + pose proof (pg_full_fst n 0 (x, junk "tmp")) as E. cbn [fst] in E. rewrite <- E. reflexivity.
    + cbn [h_log app]. rewrite pg_full_trace. reflexivity.
Qed.
End GenPG.

(* ===================== solvers over lists of operators: per-index programs =====================
   The inner loops  for j in range(len(L))  are regenerated as programs over the
   indexed names "duals[j]", "L[j]", "tmp_rans[L[j].range]", ...  One execution
   for a generic index is proved to compute the per-index step of the model;
   the skeleton of the outer loop body is checked to be the one the model's
   step functions assume.  (The sweep over all indices, with the facts that
   the duals are distinct objects and distinct from the temporaries -- they
   are created by separate .zero() / .element() calls in the hash-pinned
   preamble -- is the hand-written part: ad_sweep_opt, kz_sweep, em_sweep.) *)
Local Open Scope string_scope.

Lemma adupdates_skeleton :
  adupdates_outer = [OFor "i" adupdates_inner1; OFor "j" adupdates_inner2; OStmt (Callback "x")]
  /\ adupdates_simple_outer = [OFor "i" adupdates_simple_inner1; OFor "j" adupdates_simple_inner2]
  /\ adupdates_inner1 = adupdates_simple_inner1.
Proof. repeat split. Qed.
Lemma kaczmarz_skeleton : kaczmarz_outer = [OFor "i" kaczmarz_inner1; OStmt (Callback "x")].
Proof. reflexivity. Qed.
Lemma osmlem_skeleton : osmlem_outer = [OFor "i" osmlem_inner1] /\ mlem_is_osmlem_with_one_operator = true.
Proof. split; reflexivity. Qed.

Section GenADUP.
Variables (stepsize : R) (o : @adop R) (junk : string -> Rvec).
Hypothesis scalar_inner : ad_inner_v o = None.       (* np.isscalar(inner_stepsizes[j]) *)
(* index i / j: the j-th operator, functional and inner step size *)
Definition adup_I : interp :=
  mk_I [("stepsize", stepsize); ("inner_stepsizes[j]", ad_inner o)]
       [("L[i].adjoint", ad_Ladj o); ("L[j]", ad_L o); ("L[j].adjoint", ad_Ladj o); ("proxs[j]", ad_prox o);
        ("g[j].convex_conj.proximal(stepsize * inner_stepsizes[j])", ad_prox o)] [] [] junk.

(* first inner loop (identical in both versions): one step of ad_pre *)
Lemma gen_adup_pre_step x d log :
  body_step adup_I adupdates_inner1 (mk_hst [("x", 0%nat); ("duals[i]", 1%nat)] [x; d] log)
  = Some (mk_hst [("x", 0%nat); ("duals[i]", 1%nat)] [ad_pre stepsize [o] [d] x; d] log).
Proof. symexec. Qed.

(* second inner loop, optimised: x, the dual and the shared temporary after index j *)
Definition adup_x1 (x d : Rvec) : Rvec :=
  vsub x (vscal (1 / stepsize) (ad_Ladj o (vsub (ad_prox o (ad_arg stepsize o d x)) d))).
Lemma gen_adup_opt_step x d t log :
  body_step adup_I adupdates_inner2
    (mk_hst [("x", 0%nat); ("duals[j]", 1%nat); ("tmp_rans[L[j].range]", 2%nat)] [x; d; t] log)
  = Some (mk_hst [("x", 0%nat); ("duals[j]", 1%nat); ("tmp_rans[L[j].range]", 2%nat); ("arg", 3%nat); ("tmp_ran", 2%nat)]
            [adup_x1 x d; ad_prox o (ad_arg stepsize o d x); ad_prox o (ad_arg stepsize o d x); ad_arg stepsize o d x] log).
Proof. unfold adup_x1, ad_arg. rewrite scalar_inner. symexec. Qed.
(* reference *)
Lemma gen_adup_ref_step x d log :
  body_step adup_I adupdates_simple_inner2 (mk_hst [("x", 0%nat); ("duals[j]", 1%nat)] [x; d] log)
  = Some (mk_hst [("x", 0%nat); ("duals[j]", 1%nat); ("dual_tmp", 2%nat)]
            [adup_x1 x d; ad_prox o (ad_arg stepsize o d x); ad_prox o (ad_arg stepsize o d x)] log).
Proof. unfold adup_x1, ad_arg. rewrite scalar_inner. symexec. Qed.
(* these are exactly the per-index steps of the model sweeps *)
Lemma adup_model_step x d tmps :
  (ad_key o < List.length tmps)%nat ->
  ad_sweep_opt stepsize [o] [d] tmps x
  = (adup_x1 x d, [ad_prox o (ad_arg stepsize o d x)], setnth (ad_key o) (ad_prox o (ad_arg stepsize o d x)) tmps,
     [adup_x1 x d])
  /\ ad_sweep_ref stepsize [o] [d] x = (adup_x1 x d, [ad_prox o (ad_arg stepsize o d x)], [adup_x1 x d]).
Proof.
  intros Hk. cbn [ad_sweep_opt ad_sweep_ref]. rewrite (getnth_setnth _ _ _ Hk). split; reflexivity.
Qed.
End GenADUP.

Section GenKaczmarz.
Variables (proj : Rvec -> Rvec) (o : @kzop R) (junk : string -> Rvec).
Definition kz_I : interp :=
  mk_I [("omega[i]", kz_omega o)] [("ops[i]", kz_A o); ("projection", proj)]
       [("ops[i].derivative.adjoint", kz_Dadj o)] [] junk.
Definition kz_env : list (string * nat) :=
  [("x", 0%nat); ("caller.x", 0%nat); ("tmp_dom", 1%nat); ("rhs[i]", 2%nat); ("tmp_rans[ops[i].range]", 3%nat)].
Lemma gen_kz_step x td t log :
  body_step kz_I kaczmarz_inner1 (mk_hst kz_env [x; td; kz_rhs o; t] log)
  = Some (mk_hst (kz_env ++ [("tmp_ran", 3%nat)])%list
            [kz_one proj o x; kz_Dadj o x (vsub (kz_A o x) (kz_rhs o)); kz_rhs o; vsub (kz_A o x) (kz_rhs o)] log).
Proof. symexec. Qed.
End GenKaczmarz.

Section GenOSMLEM.
Variables (eps : R) (o : @emop R) (junk : string -> Rvec).
Definition em_I : interp :=
  mk_I [("eps", eps)] [("op[i]", em_A o); ("op[i].adjoint", em_Aadj o)] [] [] junk.
Definition em_env : list (string * nat) :=
  [("x", 0%nat); ("caller.x", 0%nat); ("tmp_dom", 1%nat); ("tmp_ran[i]", 2%nat); ("data[i]", 3%nat);
   ("sensitivities[i]", 4%nat)].
Lemma gen_em_step x td tr log :
  body_step em_I osmlem_inner1 (mk_hst em_env [x; td; tr; em_data o; em_sens o] log)
  = Some (mk_hst em_env
            [em_one eps o x; vdiv (em_Aadj o (vdiv (em_data o) (vmaxc eps (em_A o x)))) (em_sens o);
             vdiv (em_data o) (vmaxc eps (em_A o x)); em_data o; em_sens o] (log ++ [em_one eps o x])).
Proof. symexec. Qed.
End GenOSMLEM.

(* ============== other valuations of the configuration tests (same source functions) ==============
   projection=None (the projection statement disappears: the model with proj = identity) and
   callback_loop='inner' (the callback moves into the inner loop). *)
Lemma gen_lw_noproj_pre : landweber_noproj_pre = landweber_pre.
Proof. reflexivity. Qed.
Lemma gen_lw_noproj_body (A : Rvec -> Rvec) (Dadj : Rvec -> Rvec -> Rvec) (omega : R) (junk : string -> Rvec)
  (rhs : Rvec) (f : Rvec * (Rvec * Rvec)) (log : list Rvec) :
  body_step (lw_I A Dadj (fun v => v) omega junk) landweber_noproj_body (mk_hst env_lw (lw_enc rhs f) log)
  = Some (mk_hst env_lw (lw_enc rhs (lw_full_step A Dadj (fun v => v) omega rhs f))
            (log ++ [fst (lw_full_step A Dadj (fun v => v) omega rhs f)])).
Proof. destruct f as [x [tr td]]. symexec. Qed.
Lemma gen_lw_noproj_run (A : Rvec -> Rvec) (Dadj : Rvec -> Rvec -> Rvec) (omega : R) (junk : string -> Rvec) n x rhs :
  exists s, run_prog (lw_I A Dadj (fun v => v) omega junk) landweber_noproj_pre landweber_noproj_body n
              (mk_hst env_lw_in [x; rhs] []) = Some s
    /\ deref s "caller.x" = Some (iter n (landweber_step A Dadj (fun v => v) rhs omega) x)
    /\ h_log s = trace (fun x => x) n (landweber_step A Dadj (fun v => v) rhs omega) x.
Proof.
  eexists. split.
  - unfold run_prog. rewrite gen_lw_noproj_pre, gen_lw_pre. cbn [obind].
    rewrite (sim_iter env_lw (lw_enc rhs) (fun f => [fst f]) _ _ (gen_lw_noproj_body A Dadj omega junk rhs)),
      traceL_single. reflexivity.
  - split.
    + pose proof (lw_full_fst A Dadj (fun v => v) omega rhs n (x, (junk "tmp_ran", junk "tmp_dom"))) as E.
      cbn [fst] in E. rewrite <- E. reflexivity.
    + cbn [h_log app]. rewrite lw_full_trace. reflexivity.
Qed.

Lemma gen_kz_noproj_step (o : @kzop R) (junk : string -> Rvec) x td t log :
  body_step (kz_I (fun v => v) o junk) kaczmarz_noproj_inner1 (mk_hst kz_env [x; td; kz_rhs o; t] log)
  = Some (mk_hst (kz_env ++ [("tmp_ran", 3%nat)])%list
            [kz_one (fun v => v) o x; kz_Dadj o x (vsub (kz_A o x) (kz_rhs o)); kz_rhs o;
             vsub (kz_A o x) (kz_rhs o)] log).
Proof. symexec. Qed.
Lemma gen_variant_shapes :
  kaczmarz_noproj_outer = [OFor "i" kaczmarz_noproj_inner1; OStmt (Callback "x")]
  /\ kaczmarz_cbinner_outer = [OFor "i" kaczmarz_cbinner_inner1]
  /\ kaczmarz_cbinner_inner1 = (kaczmarz_inner1 ++ [Callback "x"])%list
  /\ adupdates_cbinner_outer = [OFor "i" adupdates_cbinner_inner1; OFor "j" adupdates_cbinner_inner2]
  /\ adupdates_cbinner_inner1 = adupdates_inner1
  /\ adupdates_cbinner_inner2 = (adupdates_inner2 ++ [Callback "x"])%list.
Proof. repeat split. Qed.
(* callback_loop='inner': the callback sees x after the per-index step *)
Lemma gen_kz_cbinner_step (proj : Rvec -> Rvec) (o : @kzop R) (junk : string -> Rvec) x td t log :
  option_map h_log (body_step (kz_I proj o junk) kaczmarz_cbinner_inner1 (mk_hst kz_env [x; td; kz_rhs o; t] log))
  = Some (log ++ [kz_one proj o x])%list.
Proof. symexec. Qed.
Lemma gen_adup_cbinner_step (stepsize : R) (o : @adop R) (junk : string -> Rvec) x d t log :
  ad_inner_v o = None ->
  option_map h_log (body_step (adup_I stepsize o junk) adupdates_cbinner_inner2
    (mk_hst [("x", 0%nat); ("duals[j]", 1%nat); ("tmp_rans[L[j].range]", 2%nat)] [x; d; t] log))
  = Some (log ++ [adup_x1 stepsize o x d])%list.
Proof. intros Hs. unfold adup_x1, ad_arg. rewrite Hs. symexec. Qed.

(* ======================================= steepest descent, constant step size *)
Section GenSD.
Variables (grad proj : Rvec -> Rvec) (step tol : R) (junk : string -> Rvec).
Definition sd_I : interp := mk_I [("step", step); ("tol", tol)] [("f.gradient", grad); ("projection", proj)] [] [] junk.
Definition env_sd : list (string * nat) := [("x", 0%nat); ("caller.x", 0%nat); ("grad_x", 1%nat)].
Definition env_sd_ret : list (string * nat) := (env_sd ++ [("#returned", 0%nat)])%list.
(* model state (x, returned) and the content of grad_x *)
Definition sd_enc (s : Rvec * bool) (g : Rvec) (log : list Rvec) : hst :=
  mk_hst (if snd s then env_sd_ret else env_sd) [fst s; g] log.
Let st := sd_step grad proj step tol.

Lemma gen_sd_pre x log :
  option_map canon (exec sd_I steepest_descent_pre (mk_hst [("x", 0%nat); ("caller.x", 0%nat)] [x] log))
  = Some (sd_enc (x, false) (junk "grad_x") log).
Proof. symexec. Qed.
Lemma gen_sd_body_returned x g log :
  body_step sd_I steepest_descent_body (sd_enc (x, true) g log) = Some (sd_enc (x, true) g log).
Proof. symexec. Qed.
Lemma gen_sd_body_live x g log :
  body_step sd_I steepest_descent_body (sd_enc (x, false) g log)
  = Some (if sd_stops grad tol x then sd_enc (x, true) (grad x) log
          else sd_enc (st (x, false)) (grad x) (log ++ [fst (st (x, false))])).
Proof.
  unfold st, sd_step, sd_stops. destruct (normsq_lt (grad x) tol) eqn:E.
  - cbv -[Rplus Rminus Rmult Rdiv Ropp Rinv IZR Rle_dec vadd vsub vlin vscal vmul vdiv vzero vmaxc normsq_lt Num_R app].
    rewrite E. reflexivity.
  - cbv -[Rplus Rminus Rmult Rdiv Ropp Rinv IZR Rle_dec vadd vsub vlin vscal vmul vdiv vzero vmaxc normsq_lt Num_R app].
    rewrite E. reflexivity.
Qed.
Lemma sd_trace_stopped n x : sd_trace grad proj step tol n (x, true) = [].
Proof. destruct n; reflexivity. Qed.
Lemma sd_step_stop x : sd_stops grad tol x = true ->
  st (x, false) = (x, true) /\ forall n, sd_trace grad proj step tol (S n) (x, false) = [].
Proof. intros E. unfold st. cbn [sd_trace]. unfold sd_step. rewrite E. split; reflexivity. Qed.
Lemma sd_step_go x : sd_stops grad tol x = false ->
  snd (st (x, false)) = false
  /\ forall n, sd_trace grad proj step tol (S n) (x, false)
               = fst (st (x, false)) :: sd_trace grad proj step tol n (st (x, false)).
Proof. intros E. unfold st. cbn [sd_trace]. unfold sd_step. rewrite E. split; reflexivity. Qed.
Lemma gen_sd_iter n : forall s g log, exists g',
  iter_opt n (body_step sd_I steepest_descent_body) (sd_enc s g log)
  = Some (sd_enc (iter n st s) g' (log ++ sd_trace grad proj step tol n s)).
Proof.
  induction n as [|n IH]; intros [x b] g log.
  - exists g. cbn [iter_opt iter sd_trace]. now rewrite app_nil_r.
  - cbn [iter_opt iter]. destruct b.
    + rewrite gen_sd_body_returned. cbn [obind]. destruct (IH (x, true) g log) as [g' Hg]. exists g'.
      rewrite Hg. change (st (x, true)) with (x, true). rewrite !sd_trace_stopped. reflexivity.
    + rewrite gen_sd_body_live. destruct (sd_stops grad tol x) eqn:E; cbn [obind].
      * destruct (sd_step_stop x E) as [E1 E2]. rewrite E1, E2.
        destruct (IH (x, true) (grad x) log) as [g' Hg]. exists g'. rewrite Hg, sd_trace_stopped. reflexivity.
      * destruct (sd_step_go x E) as [E1 E2]. rewrite E2.
        destruct (IH (st (x, false)) (grad x) (log ++ [fst (st (x, false))])%list) as [g' Hg]. exists g'.
        rewrite Hg, <- app_assoc. reflexivity.
Qed.
(* the generated program: caller's x and callback log are those of the model *)
Lemma gen_sd_run n x :
  exists s, run_prog sd_I steepest_descent_pre steepest_descent_body n
              (mk_hst [("x", 0%nat); ("caller.x", 0%nat)] [x] []) = Some s
    /\ deref s "caller.x" = Some (fst (iter n st (x, false)))
    /\ h_log s = sd_trace grad proj step tol n (x, false).
Proof.
  unfold run_prog. rewrite gen_sd_pre. cbn [obind].
  destruct (gen_sd_iter n (x, false) (junk "grad_x") []) as [g' Hg]. rewrite Hg.
  eexists. split; [reflexivity|]. split; [|reflexivity].
  destruct (iter n st (x, false)) as [xf [|]]; reflexivity.
Qed.
End GenSD.

(* ======================================================== DCA and proximal DCA *)
Section GenDCA.
Variables (gradfcc gradg proxf : Rvec -> Rvec) (gamma : R) (junk : string -> Rvec).
Definition dca_I : interp :=
  mk_I [("gamma", gamma)] [("f.convex_conj.gradient", gradfcc); ("g.gradient", gradg); ("f.proximal(gamma)", proxf)]
       [] [] junk.
Definition enc1 (x : Rvec) : list Rvec := [x].
Lemma gen_dca_body x log :
  body_step dca_I dca_body (mk_hst env_x (enc1 x) log)
  = Some (mk_hst env_x (enc1 (dca_step gradfcc gradg x)) (log ++ [dca_step gradfcc gradg x])).
Proof. symexec. Qed.
Lemma gen_prox_dca_body x log :
  body_step dca_I prox_dca_body (mk_hst env_x (enc1 x) log)
  = Some (mk_hst env_x (enc1 (prox_dca_step gradg proxf gamma x)) (log ++ [prox_dca_step gradg proxf gamma x])).
Proof. symexec. Qed.
Lemma gen_dca_run n x :
  run_prog dca_I dca_pre dca_body n (mk_hst env_x [x] [])
  = Some (mk_hst env_x [iter n (dca_step gradfcc gradg) x] (trace (fun x => x) n (dca_step gradfcc gradg) x)).
Proof.
  unfold run_prog. replace (option_map canon (exec dca_I dca_pre (mk_hst env_x [x] []))) with (Some (mk_hst env_x (enc1 x) []))
    by (symmetry; symexec).
  cbn [obind]. rewrite (sim_iter env_x enc1 (fun x => [x]) _ _ gen_dca_body), traceL_single. reflexivity.
Qed.
Lemma gen_prox_dca_run n x :
  run_prog dca_I prox_dca_pre prox_dca_body n (mk_hst env_x [x] [])
  = Some (mk_hst env_x [iter n (prox_dca_step gradg proxf gamma) x]
            (trace (fun x => x) n (prox_dca_step gradg proxf gamma) x)).
Proof.
  unfold run_prog.
  replace (option_map canon (exec dca_I prox_dca_pre (mk_hst env_x [x] []))) with (Some (mk_hst env_x (enc1 x) []))
    by (symmetry; symexec).
  cbn [obind]. rewrite (sim_iter env_x enc1 (fun x => [x]) _ _ gen_prox_dca_body), traceL_single. reflexivity.
Qed.
End GenDCA.

(* ============ resumption of the generated programs through the caller's x ============ *)
Lemma gen_lw_resume (A : Rvec -> Rvec) (Dadj : Rvec -> Rvec -> Rvec) (proj : Rvec -> Rvec) (omega : R)
  (junk : string -> Rvec) (n m : nat) (x rhs : Rvec) :
  exists s1 x1 s2 s12,
    run_prog (lw_I A Dadj proj omega junk) landweber_pre landweber_body n (mk_hst env_lw_in [x; rhs] []) = Some s1
    /\ deref s1 "caller.x" = Some x1
    /\ run_prog (lw_I A Dadj proj omega junk) landweber_pre landweber_body m (mk_hst env_lw_in [x1; rhs] []) = Some s2
    /\ run_prog (lw_I A Dadj proj omega junk) landweber_pre landweber_body (n + m) (mk_hst env_lw_in [x; rhs] []) = Some s12
    /\ deref s2 "caller.x" = deref s12 "caller.x".
Proof.
  destruct (gen_lw_run A Dadj proj omega junk n x rhs) as (s1 & H1 & Hx1 & _).
  destruct (gen_lw_run A Dadj proj omega junk m (iter n (landweber_step A Dadj proj rhs omega) x) rhs) as (s2 & H2 & Hx2 & _).
  destruct (gen_lw_run A Dadj proj omega junk (n + m) x rhs) as (s12 & H12 & Hx12 & _).
  exists s1, (iter n (landweber_step A Dadj proj rhs omega) x), s2, s12.
  repeat (split; [assumption|]). rewrite Hx2, Hx12, iter_add. reflexivity.
Qed.
(* steepest descent: the second call starts without the "#returned" marker of the first *)
Lemma gen_sd_resume (grad proj : Rvec -> Rvec) (step tol : R) (junk : string -> Rvec) (n m : nat) (x : Rvec) :
  exists s1 x1 s2 s12,
    run_prog (sd_I grad proj step tol junk) steepest_descent_pre steepest_descent_body n (mk_hst env_x [x] []) = Some s1
    /\ deref s1 "caller.x" = Some x1
    /\ run_prog (sd_I grad proj step tol junk) steepest_descent_pre steepest_descent_body m (mk_hst env_x [x1] []) = Some s2
    /\ run_prog (sd_I grad proj step tol junk) steepest_descent_pre steepest_descent_body (n + m) (mk_hst env_x [x] []) = Some s12
    /\ deref s2 "caller.x" = deref s12 "caller.x".
Proof.
  destruct (gen_sd_run grad proj step tol junk n x) as (s1 & H1 & Hx1 & _).
  destruct (gen_sd_run grad proj step tol junk m (fst (iter n (sd_step grad proj step tol) (x, false)))) as (s2 & H2 & Hx2 & _).
  destruct (gen_sd_run grad proj step tol junk (n + m) x) as (s12 & H12 & Hx12 & _).
  exists s1, (fst (iter n (sd_step grad proj step tol) (x, false))), s2, s12.
  repeat (split; [assumption|]). rewrite Hx2, Hx12, sd_resume. reflexivity.
Qed.

(* ===== a whole outer iteration of the generated adupdates programs on ONE heap, two operators =====
   List slots are names ("duals#0", "duals#1", "tmp#k"); entering the inner loop body for index j binds
   the generic names to the objects in the slots (Python: duals[j] evaluates to the object in slot j),
   leaving it stores the binding back (a rebinding  duals[j] = ...  would change the slot).  Bounded
   instance (two operators, both sharing patterns of tmp_rans); all values and interpretations symbolic.
   The statement for every number of operators is adupdates_opt_refines_ref. *)
Section GenADUP2.
Variables (stepsize : R) (o0 o1 : @adop R) (junk : string -> Rvec).
Hypothesis s0 : ad_inner_v o0 = None.
Hypothesis s1 : ad_inner_v o1 = None.
Definition opj (j : nat) : @adop R := match j with O => o0 | _ => o1 end.
Definition slots (tmpname : nat -> string) (j : nat) : list (string * string) :=
  let d := match j with O => "duals#0" | _ => "duals#1" end in
  [("duals[i]", d); ("duals[j]", d); ("tmp_rans[L[j].range]", tmpname j)].
Definition enter (tbl : list (string * string)) : list stmt := map (fun p => Alias (fst p) (snd p)) tbl.
Definition leave (tbl : list (string * string)) : list stmt := map (fun p => Alias (snd p) (fst p)) tbl.
Definition run_for (tmpname : nat -> string) (body : list stmt) (s : hst) : option hst :=
  obind (exec (adup_I stepsize o0 junk) (enter (slots tmpname 0) ++ body ++ leave (slots tmpname 0))%list s)
        (exec (adup_I stepsize o1 junk) (enter (slots tmpname 1) ++ body ++ leave (slots tmpname 1))%list).
Definition run_outer (tmpname : nat -> string) (outer : list ostmt) (s : hst) : option hst :=
  fold_left (fun acc c => obind acc (fun s =>
    match c with
    | OFor _ body => run_for tmpname body s
    | OStmt c => exec (adup_I stepsize o0 junk) [c] s
    end)) outer (Some s).
Definition proj_state (s : option (@hst R)) :=
  match s with
  | Some s => Some (deref s "caller.x", deref s "duals#0", deref s "duals#1", h_log s)
  | None => None
  end.

(* (a) both operators have the same range: ONE shared temporary *)
Definition heap_shared (x d0 d1 t : Rvec) : hst :=
  mk_hst [("x", 0%nat); ("caller.x", 0%nat); ("duals#0", 1%nat); ("duals#1", 2%nat); ("tmp#0", 3%nat)] [x; d0; d1; t] [].
Lemma gen_adup2_shared x d0 d1 t :
  ad_key o0 = 0%nat -> ad_key o1 = 0%nat ->
  let '(xf, ds, _) := ad_opt_step stepsize [o0; o1] (x, [d0; d1], [t]) in
  proj_state (run_outer (fun _ => "tmp#0") adupdates_outer (heap_shared x d0 d1 t))
  = Some (Some xf, nth_error ds 0, nth_error ds 1, [xf])
  /\ proj_state (run_outer (fun _ => "tmp#0") adupdates_simple_outer (heap_shared x d0 d1 t))
     = Some (Some xf, nth_error ds 0, nth_error ds 1, []).
Proof.
  intros k0 k1. unfold ad_opt_step, ad_sweep_opt, ad_pre, ad_arg. rewrite k0, k1, s0, s1.
  cbv [setnth getnth nth]. split; symexec.
Qed.
(* (b) different ranges: two temporaries *)
Definition heap_two (x d0 d1 t0 t1 : Rvec) : hst :=
  mk_hst [("x", 0%nat); ("caller.x", 0%nat); ("duals#0", 1%nat); ("duals#1", 2%nat); ("tmp#0", 3%nat); ("tmp#1", 4%nat)]
         [x; d0; d1; t0; t1] [].
Lemma gen_adup2_distinct x d0 d1 t0 t1 :
  ad_key o0 = 0%nat -> ad_key o1 = 1%nat ->
  let '(xf, ds, _) := ad_opt_step stepsize [o0; o1] (x, [d0; d1], [t0; t1]) in
  proj_state (run_outer (fun j => match j with O => "tmp#0" | _ => "tmp#1" end) adupdates_outer (heap_two x d0 d1 t0 t1))
  = Some (Some xf, nth_error ds 0, nth_error ds 1, [xf]).
Proof.
  intros k0 k1. unfold ad_opt_step, ad_sweep_opt, ad_pre, ad_arg. rewrite k0, k1, s0, s1.
  cbv [setnth getnth nth]. symexec.
Qed.
End GenADUP2.

(* ============================================ accelerated proximal gradient (FISTA) *)
Section GenAPG.
Variables (proxf gradg : Rvec -> Rvec) (gamma : R) (alpha : nat -> R) (junk : string -> Rvec).
Definition apg_I (k : nat) : interp :=
  mk_I [("gamma", gamma); ("alpha'", alpha k)] [("f.proximal(gamma)", proxf); ("g.gradient", gradg)] [] [] junk.
Definition env_apg : list (string * nat) := [("x", 0%nat); ("caller.x", 0%nat); ("tmp", 1%nat); ("y", 2%nat)].
Definition apg_full := ((Rvec * Rvec) * Rvec)%type.
Definition apg_full_step (k : nat) (f : apg_full) : apg_full :=
  (apg_step proxf gradg gamma alpha k (fst f), vlin 1 (snd (fst f)) (- gamma) (gradg (snd (fst f)))).
Definition apg_enc (f : apg_full) : list Rvec := [fst (fst f); snd f; snd (fst f)].
Lemma gen_apg_pre x log :
  option_map canon (exec (apg_I 0) accelerated_proximal_gradient_pre (mk_hst env_x [x] log))
  = Some (mk_hst env_apg (apg_enc ((x, x), junk "tmp")) log).
Proof. symexec. Qed.
Lemma gen_apg_body k f log :
  body_step (apg_I k) accelerated_proximal_gradient_body (mk_hst env_apg (apg_enc f) log)
  = Some (mk_hst env_apg (apg_enc (apg_full_step k f)) (log ++ [fst (fst (apg_full_step k f))])).
Proof. destruct f as [[x y] t]. symexec. Qed.
Lemma apg_full_fst n k0 f : fst (iterk n k0 apg_full_step f) = iterk n k0 (apg_step proxf gradg gamma alpha) (fst f).
Proof. revert k0 f; induction n as [|n IH]; intros k0 f; cbn [iterk]; [reflexivity | now rewrite IH]. Qed.
Lemma apg_full_trace n k0 f :
  tracek (fun f : apg_full => fst (fst f)) n k0 apg_full_step f
  = tracek (@fst Rvec Rvec) n k0 (apg_step proxf gradg gamma alpha) (fst f).
Proof. revert k0 f; induction n as [|n IH]; intros k0 f; cbn [tracek]; [reflexivity | now rewrite IH]. Qed.
(* the y = x.copy() of the preamble is a separate object; callback log and final x are the model's *)
Lemma gen_apg_run n x :
  exists s,
    obind (option_map canon (exec (apg_I 0) accelerated_proximal_gradient_pre (mk_hst env_x [x] [])))
          (iterk_opt n 0 (fun k => body_step (apg_I k) accelerated_proximal_gradient_body)) = Some s
    /\ deref s "caller.x" = Some (fst (iterk n 0 (apg_step proxf gradg gamma alpha) (x, x)))
    /\ h_log s = tracek (@fst Rvec Rvec) n 0 (apg_step proxf gradg gamma alpha) (x, x)
    /\ List.length (h_log s) = n.
Proof.
  eexists. split.
  - rewrite gen_apg_pre. cbn [obind].
    rewrite (sim_iterk env_apg apg_enc (fun f => [fst (fst f)]) _ _ gen_apg_body), traceLk_single. reflexivity.
  - split; [|split].
    + pose proof (apg_full_fst n 0 ((x, x), junk "tmp")) as E. cbn [fst] in E. rewrite <- E. reflexivity.
    + cbn [h_log app]. rewrite apg_full_trace. reflexivity.
    + cbn [h_log app]. apply tracek_length.
Qed.
End GenAPG.

(* =========================== accelerated pdhg (gamma_primal or gamma_dual given) ===========================
   The scalar recursion (theta = 1/sqrt(1 + 2 gamma tau); tau *= theta; sigma /= theta) is a parameter:
   iteration k uses tau k, sigma k (values at the loop head) in the two proximals and the NEW theta
   (named theta' by the translator: updated once before its use) in the relaxation. *)
Section GenPDHGacc.
Variables (L Ladj : Rvec -> Rvec) (proxp proxd : nat -> Rvec -> Rvec) (tau sigma theta : nat -> R) (m : nat)
          (junk : string -> Rvec).
Definition pdhg_acc_I (k : nat) : interp :=
  mk_I [("tau", tau k); ("sigma", sigma k); ("theta'", theta k)]
       [("L", L); ("f.proximal(tau)", proxp k); ("g.convex_conj.proximal(sigma)", proxd k)]
       [("L.derivative.adjoint", fun _ => Ladj)] [("L.range", vzero m)] junk.
Definition pdhg_acc_step (k : nat) : @pdhg_st R -> @pdhg_st R :=
  pdhg_step L Ladj (proxp k) (proxd k) (tau k) (sigma k) (theta k).
Definition pdhg_acc_full_step (k : nat) : pdhg_full -> pdhg_full :=
  pdhg_full_step L Ladj (proxp k) (proxd k) (tau k) (sigma k) (theta k).
Lemma gen_pdhg_acc_same_programs :
  pdhg_accel_dual_body = pdhg_accel_primal_body /\ pdhg_accel_dual_pre = pdhg_pre /\ pdhg_accel_primal_pre = pdhg_pre.
Proof. repeat split. Qed.
Lemma gen_pdhg_acc_pre x log :
  option_map canon (exec (pdhg_acc_I 0) pdhg_accel_primal_pre (mk_hst [("x", 0%nat); ("caller.x", 0%nat)] [x] log))
  = Some (mk_hst env_pdhg_none (pdhg_enc (pdhg_init m x None None, pdhg_junk junk)) log).
Proof. symexec. Qed.
Lemma gen_pdhg_acc_body k f log :
  body_step (pdhg_acc_I k) pdhg_accel_primal_body (mk_hst env_pdhg_none (pdhg_enc f) log)
  = Some (mk_hst env_pdhg_none (pdhg_enc (pdhg_acc_full_step k f)) (log ++ [pd_x (fst (pdhg_acc_full_step k f))])).
Proof. destruct f as [[x xr y] [[xo dt] pt]]. symexec. Qed.
Lemma pdhg_acc_full_trace n k0 f :
  tracek (fun f : pdhg_full => pd_x (fst f)) n k0 pdhg_acc_full_step f = tracek pd_x n k0 pdhg_acc_step (fst f).
Proof. revert k0 f; induction n as [|n IH]; intros k0 f; cbn [tracek]; [reflexivity | now rewrite IH]. Qed.
Lemma gen_pdhg_acc_run n x :
  exists s,
    obind (option_map canon (exec (pdhg_acc_I 0) pdhg_accel_primal_pre (mk_hst [("x", 0%nat); ("caller.x", 0%nat)] [x] [])))
          (iterk_opt n 0 (fun k => body_step (pdhg_acc_I k) pdhg_accel_primal_body)) = Some s
    /\ h_log s = tracek pd_x n 0 pdhg_acc_step (pdhg_init m x None None)
    /\ List.length (h_log s) = n.
Proof.
  eexists. split.
  - rewrite gen_pdhg_acc_pre. cbn [obind].
    rewrite (sim_iterk env_pdhg_none pdhg_enc (fun f => [pd_x (fst f)]) _ _ gen_pdhg_acc_body), traceLk_single.
    reflexivity.
  - cbn [h_log app]. rewrite pdhg_acc_full_trace. split; [reflexivity | apply tracek_length].
Qed.
End GenPDHGacc.
