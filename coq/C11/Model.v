(* C11/Model.v -- executable models of the solver loops (definitions only).

   Vectors are lists over a Num carrier; operators, adjoints, proximals and
   gradients are ARBITRARY functions (Section variables): no theorem of
   C11/Proofs.v needs linearity or length preservation, so every operator /
   functional of the library is inside the quantifier.

   Two kinds of definitions:
   * "_ref" step functions: the textbook iteration as written in the
     *_simple reference implementations (fresh values, no buffers);
   * "_opt" step functions: the memory-optimised loop body, one [let] per
     source statement, with the named temporaries carried in the state
     exactly as the source carries them across loop heads.
   Each statement  op(a, out=b)  is modelled as  b := op a  (the pure value;
   the aliasing contract out-is-input is the subject of C10, the call protocol
   of C03).  [x.lincomb(a, u, b, v)] is  a*u + b*v  entrywise ([vlin]). *)
From Coq Require Import ZArith List Bool.
From Verif Require Import Base.Num Base.Vec.
Import ListNotations.
Local Open Scope num_scope.

(* ------------------------------------------------------------------ loops *)
Section Loops.
Context {St Ob : Type}.
(* n loop iterations *)
Fixpoint iter (n : nat) (f : St -> St) (s : St) : St :=
  match n with O => s | S k => iter k f (f s) end.
(* what a callback placed at the end of the loop body records *)
Fixpoint trace (obs : St -> Ob) (n : nat) (f : St -> St) (s : St) : list Ob :=
  match n with O => [] | S k => let s' := f s in obs s' :: trace obs k f s' end.
(* loop body that depends on the loop counter k = k0, k0+1, ... *)
Fixpoint iterk (n : nat) (k0 : nat) (f : nat -> St -> St) (s : St) : St :=
  match n with O => s | S k => iterk k (S k0) f (f k0 s) end.
Fixpoint tracek (obs : St -> Ob) (n : nat) (k0 : nat) (f : nat -> St -> St) (s : St) : list Ob :=
  match n with O => [] | S k => let s' := f k0 s in obs s' :: tracek obs k (S k0) f s' end.
End Loops.

Section Solvers.
Context {T : Type} `{Num T}.
Notation vec := (list T).
Definition vzero (m : nat) : vec := vconst m nzero.
Definition vmaxc (c : T) (x : vec) : vec := map (fun a => nmax a c) x.   (* ufuncs.maximum(c) *)
(* np.abs(-v.norm() ** 2) < tol *)
Definition normsq_lt (v : vec) (tol : T) : bool := nabs (nopp (normsq v)) <? tol.

(* =========================================================== linearized ADMM *)
Section ADMM.
Variables (L Ladj proxf proxg : vec -> vec) (tau sigma : T) (m : nat).

Record admm_rst := mk_admm_rst { ar_x : vec; ar_z : vec; ar_u : vec }.
Definition admm_ref_init (x : vec) := mk_admm_rst x (vzero m) (vzero m).
(* admm_linearized_simple:
     x[:] = f.proximal(tau)(x - tau / sigma * L.adjoint(L(x) + u - z))
     z = g.proximal(sigma)(L(x) + u)
     u = L(x) + u - z                                                        *)
Definition admm_ref_step (s : admm_rst) : admm_rst :=
  let x1 := proxf (vsub (ar_x s) (vscal (tau / sigma) (Ladj (vsub (vadd (L (ar_x s)) (ar_u s)) (ar_z s))))) in
  let z1 := proxg (vadd (L x1) (ar_u s)) in
  let u1 := vsub (vadd (L x1) (ar_u s)) z1 in
  mk_admm_rst x1 z1 u1.

Record admm_ost := mk_admm_ost { ao_x : vec; ao_z : vec; ao_u : vec; ao_tr : vec; ao_td : vec }.
(* z = u = L.range.zero(); tmp_ran = L(x); tmp_dom = L.domain.element() (uninitialised: [junk]) *)
Definition admm_opt_init (junk x : vec) := mk_admm_ost x (vzero m) (vzero m) (L x) junk.
Definition admm_opt_step (s : admm_ost) : admm_ost :=
  let tr := vadd (ao_tr s) (ao_u s) in                     (* tmp_ran += u *)
  let tr := vsub tr (ao_z s) in                            (* tmp_ran -= z *)
  let td := Ladj tr in                                     (* L.adjoint(tmp_ran, out=tmp_dom) *)
  let x := vlin none_ (ao_x s) (nopp tau / sigma) td in    (* x.lincomb(1, x, -tau / sigma, tmp_dom) *)
  let x := proxf x in                                      (* prox_tau_f(x, out=x) *)
  let tr := L x in                                         (* L(x, out=tmp_ran) *)
  let z := proxg (vadd tr (ao_u s)) in                     (* prox_sigma_g(tmp_ran + u, out=z) *)
  let u := vadd (ao_u s) tr in                             (* u += tmp_ran *)
  let u := vsub u z in                                     (* u -= z *)
  mk_admm_ost x z u tr td.

Definition admm_ref_trace (n : nat) (x : vec) := trace ar_x n admm_ref_step (admm_ref_init x).
Definition admm_opt_trace (n : nat) (junk x : vec) := trace ao_x n admm_opt_step (admm_opt_init junk x).
End ADMM.

(* ================================================= alternating dual updates *)
Section ADUpdates.
(* one entry per (L[i], g[i], inner_stepsizes[i]) *)
Record adop := mk_adop { ad_L : vec -> vec; ad_Ladj : vec -> vec;
                         ad_prox : vec -> vec;      (* g[i].convex_conj.proximal(stepsize * inner[i]) *)
                         ad_inner : T;              (* inner_stepsizes[i] when it is a scalar *)
                         ad_inner_v : option vec;   (* inner_stepsizes[i] when it is an array (np.isscalar false) *)
                         ad_m : nat;                (* size of L[i].range *)
                         ad_key : nat }.            (* which entry of tmp_rans: equal ranges share one buffer *)
Variable stepsize : T.
(* duals[j] + step * L[j](x)  with  step = stepsize * inner_stepsizes[j]  (scalar) or
   stepsize * np.asarray(inner_stepsizes[j])  (array, entrywise product) *)
Definition ad_arg (o : adop) (d x : vec) : vec :=
  match ad_inner_v o with
  | None => vadd d (vscal (stepsize * ad_inner o) (ad_L o x))
  | Some v => vadd d (vmul (vscal stepsize v) (ad_L o x))
  end.

(* for i in range(length): x -= 1.0 / stepsize * L[i].adjoint(duals[i]) *)
Fixpoint ad_pre (ops : list adop) (duals : list vec) (x : vec) : vec :=
  match ops, duals with
  | o :: ops', d :: duals' => ad_pre ops' duals' (vsub x (vscal (none_ / stepsize) (ad_Ladj o d)))
  | _, _ => x
  end.
(* adupdates_simple inner loop (fixed order); also returns the x after each j (callback_loop='inner') *)
Fixpoint ad_sweep_ref (ops : list adop) (duals : list vec) (x : vec) : vec * list vec * list vec :=
  match ops, duals with
  | o :: ops', d :: duals' =>
      let dual_tmp := ad_prox o (ad_arg o d x) in
      let x1 := vsub x (vscal (none_ / stepsize) (ad_Ladj o (vsub dual_tmp d))) in
      let '(xf, ds, tr) := ad_sweep_ref ops' duals' x1 in
      (xf, dual_tmp :: ds, x1 :: tr)
  | _, _ => (x, [], [])
  end.
Definition ad_ref_step (ops : list adop) (s : vec * list vec) : vec * list vec :=
  let '(x, duals) := s in
  let '(xf, ds, _) := ad_sweep_ref ops duals (ad_pre ops duals x) in (xf, ds).

(* optimised: the prox writes into the shared buffer tmp_rans[L[j].range] *)
Fixpoint setnth (i : nat) (v : vec) (l : list vec) : list vec :=
  match l, i with
  | [], _ => []
  | _ :: l', O => v :: l'
  | a :: l', S i' => a :: setnth i' v l'
  end.
Definition getnth (i : nat) (l : list vec) : vec := nth i l [].
Fixpoint ad_sweep_opt (ops : list adop) (duals : list vec) (tmps : list vec) (x : vec)
  : vec * list vec * list vec * list vec :=
  match ops, duals with
  | o :: ops', d :: duals' =>
      let arg := ad_arg o d x in                                            (* arg = duals[j] + step * L[j](x) *)
      let tmps1 := setnth (ad_key o) (ad_prox o arg) tmps in                (* proxs[j](arg, out=tmp_ran) *)
      let tmp_ran := getnth (ad_key o) tmps1 in
      let x1 := vsub x (vscal (none_ / stepsize) (ad_Ladj o (vsub tmp_ran d))) in
      let d1 := tmp_ran in                                                  (* duals[j].assign(tmp_ran) *)
      let '(xf, ds, tmpsf, tr) := ad_sweep_opt ops' duals' tmps1 x1 in
      (xf, d1 :: ds, tmpsf, x1 :: tr)
  | _, _ => (x, [], tmps, [])
  end.
Definition ad_opt_step (ops : list adop) (s : vec * list vec * list vec) : vec * list vec * list vec :=
  let '(x, duals, tmps) := s in
  let '(xf, ds, tmpsf, _) := ad_sweep_opt ops duals tmps (ad_pre ops duals x) in (xf, ds, tmpsf).

(* random=True: the second inner loop runs over the permutation [ord] drawn in this iteration
   (any list of indices); duals are addressed by index *)
Fixpoint ad_sweep_ord_opt (ops : list adop) (dflt : adop) (ord : list nat) (duals tmps : list vec) (x : vec)
  : vec * list vec * list vec :=
  match ord with
  | [] => (x, duals, tmps)
  | j :: ord' =>
      let o := nth j ops dflt in let d := getnth j duals in
      let tmps1 := setnth (ad_key o) (ad_prox o (ad_arg o d x)) tmps in
      let tmp_ran := getnth (ad_key o) tmps1 in
      let x1 := vsub x (vscal (none_ / stepsize) (ad_Ladj o (vsub tmp_ran d))) in
      ad_sweep_ord_opt ops dflt ord' (setnth j tmp_ran duals) tmps1 x1
  end.
Fixpoint ad_sweep_ord_ref (ops : list adop) (dflt : adop) (ord : list nat) (duals : list vec) (x : vec)
  : vec * list vec :=
  match ord with
  | [] => (x, duals)
  | j :: ord' =>
      let o := nth j ops dflt in let d := getnth j duals in
      let dual_tmp := ad_prox o (ad_arg o d x) in
      let x1 := vsub x (vscal (none_ / stepsize) (ad_Ladj o (vsub dual_tmp d))) in
      ad_sweep_ord_ref ops dflt ord' (setnth j dual_tmp duals) x1
  end.
Definition ad_opt_step_ord (ops : list adop) (dflt : adop) (ord : list nat) (s : vec * list vec * list vec) :=
  let '(x, duals, tmps) := s in ad_sweep_ord_opt ops dflt ord duals tmps (ad_pre ops duals x).
Definition ad_ref_step_ord (ops : list adop) (dflt : adop) (ord : list nat) (s : vec * list vec) :=
  let '(x, duals) := s in ad_sweep_ord_ref ops dflt ord duals (ad_pre ops duals x).

Definition ad_duals0 (ops : list adop) : list vec := map (fun o => vzero (ad_m o)) ops.
Definition ad_ref_run (ops : list adop) (n : nat) (x : vec) : vec :=
  fst (iter n (ad_ref_step ops) (x, ad_duals0 ops)).
Definition ad_opt_trace (ops : list adop) (n : nat) (tmps0 : list vec) (x : vec) : list vec :=
  trace (fun s => fst (fst s)) n (ad_opt_step ops) (x, ad_duals0 ops, tmps0).
(* callback_loop = 'inner': one observation after every j *)
Fixpoint ad_opt_trace_inner (ops : list adop) (n : nat) (s : vec * list vec * list vec) : list vec :=
  match n with
  | O => []
  | S k => let '(x, duals, tmps) := s in
           let '(xf, ds, tmpsf, tr) := ad_sweep_opt ops duals tmps (ad_pre ops duals x) in
           tr ++ ad_opt_trace_inner ops k (xf, ds, tmpsf)
  end.
End ADUpdates.

(* ======================================================== double-proximal DC *)
Section DoubleProxDC.
Variables (K Kadj proxf proxgc gradphi : vec -> vec) (gamma mu : T).
(* doubleprox_dc_simple *)
Definition dpdc_ref_step (s : vec * vec) : vec * vec :=
  let '(x, y) := s in
  let x1 := proxf (vsub (vadd x (vscal gamma (Kadj y))) (vscal gamma (gradphi x))) in
  let y1 := proxgc (vadd y (vscal mu (K x1))) in
  (x1, y1).
(* doubleprox_dc *)
Definition dpdc_opt_step (s : vec * vec) : vec * vec :=
  let '(x, y) := s in
  let x := vlin none_ x gamma (vsub (Kadj y) (gradphi x)) in   (* x.lincomb(1, x, gamma, K.adjoint(y) - phi.gradient(x)) *)
  let x := proxf x in                                          (* f.proximal(gamma)(x, out=x) *)
  let y := vlin none_ y mu (K x) in                            (* y.lincomb(1, y, mu, K(x)) *)
  let y := proxgc y in                                         (* g_convex_conj.proximal(mu)(y, out=y) *)
  (x, y).
End DoubleProxDC.

(* ==================================================================== PDHG *)
Section PDHG.
Variables (L Ladj proxp proxd : vec -> vec) (tau sigma theta : T).
Record pdhg_st := mk_pdhg_st { pd_x : vec; pd_xr : vec; pd_y : vec }.
(* x_relax=None -> x.copy(); y=None -> L.range.zero() *)
Definition pdhg_init (m : nat) (x : vec) (xr y : option vec) : pdhg_st :=
  mk_pdhg_st x (match xr with Some v => v | None => x end) (match y with Some v => v | None => vzero m end).
(* loop body, constant step sizes (gamma_primal = gamma_dual = None) *)
Definition pdhg_step (s : pdhg_st) : pdhg_st :=
  let x_old := pd_x s in                                 (* x_old.assign(x) *)
  let dt := L (pd_xr s) in                               (* L(x_relax, out=dual_tmp) *)
  let dt := vlin none_ (pd_y s) sigma dt in              (* dual_tmp.lincomb(1, y, sigma, dual_tmp) *)
  let y := proxd dt in                                   (* proximal_dual_sigma(dual_tmp, out=y) *)
  let pt := Ladj y in                                    (* L.derivative(x).adjoint(y, out=primal_tmp) *)
  let pt := vlin none_ (pd_x s) (nopp tau) pt in         (* primal_tmp.lincomb(1, x, -tau, primal_tmp) *)
  let x := proxp pt in                                   (* proximal_primal_tau(primal_tmp, out=x) *)
  let xr := vlin (none_ + theta) x (nopp theta) x_old in (* x_relax.lincomb(1 + theta, x, -theta, x_old) *)
  mk_pdhg_st x xr y.
(* textbook Chambolle-Pock step *)
Definition pdhg_ref_step (s : pdhg_st) : pdhg_st :=
  let y := proxd (vadd (pd_y s) (vscal sigma (L (pd_xr s)))) in
  let x := proxp (vsub (pd_x s) (vscal tau (Ladj y))) in
  let xr := vadd x (vscal theta (vsub x (pd_x s))) in
  mk_pdhg_st x xr y.
End PDHG.

(* ===================================================== accelerated PDHG, step sizes carried *)
Section PDHGacc.
(* acc (tau, sigma) = (theta, (tau', sigma')): the scalar update of one iteration
   (gamma_primal: theta = 1/sqrt(1 + 2 gamma tau), tau' = tau theta, sigma' = sigma / theta;
    gamma_dual:   theta = 1/sqrt(1 + 2 gamma sigma), tau' = tau / theta, sigma' = sigma theta).
   The proximals depend on the current step sizes. *)
Variables (L Ladj : vec -> vec) (proxp proxd : T -> vec -> vec) (acc : T * T -> T * (T * T)).
Fixpoint pdhg_acc_iter (n : nat) (ts : T * T) (st : pdhg_st) : (T * T) * pdhg_st :=
  match n with
  | O => (ts, st)
  | S k => let '(th, ts') := acc ts in
           pdhg_acc_iter k ts' (pdhg_step L Ladj (proxp (fst ts)) (proxd (snd ts)) (fst ts) (snd ts) th st)
  end.
(* the step sizes at the head of iteration k *)
Fixpoint acc_steps (k : nat) (ts : T * T) : T * T :=
  match k with O => ts | S k' => acc_steps k' (snd (acc ts)) end.
End PDHGacc.

(* =============================================================== Landweber *)
Section Landweber.
(* op, the adjoint of its derivative at a point, optional projection (identity when None) *)
Variables (A : vec -> vec) (Dadj : vec -> vec -> vec) (proj : vec -> vec) (rhs : vec) (omega : T).
Definition landweber_step (x : vec) : vec :=
  let tr := A x in                              (* op(x, out=tmp_ran) *)
  let tr := vsub tr rhs in                      (* tmp_ran -= rhs *)
  let td := Dadj x tr in                        (* op.derivative(x).adjoint(tmp_ran, out=tmp_dom) *)
  let x := vlin none_ x (nopp omega) td in      (* x.lincomb(1, x, -omega, tmp_dom) *)
  proj x.                                       (* projection(x) *)
End Landweber.

(* ================================================================ Kaczmarz *)
Section Kaczmarz.
Record kzop := mk_kzop { kz_A : vec -> vec; kz_Dadj : vec -> vec -> vec; kz_rhs : vec; kz_omega : T }.
Variable proj : vec -> vec.
Definition kz_one (o : kzop) (x : vec) : vec :=
  landweber_step (kz_A o) (kz_Dadj o) proj (kz_rhs o) (kz_omega o) x.
(* one sweep in fixed order; second component: x after every sub-step *)
Fixpoint kz_sweep (ops : list kzop) (x : vec) : vec * list vec :=
  match ops with
  | [] => (x, [])
  | o :: ops' => let x1 := kz_one o x in let '(xf, tr) := kz_sweep ops' x1 in (xf, x1 :: tr)
  end.
Definition kz_step (ops : list kzop) (x : vec) : vec := fst (kz_sweep ops x).
(* random=True: the sweep runs over the permutation [ord] drawn in this iteration *)
Definition kz_step_ord (ops : list kzop) (dflt : kzop) (ord : list nat) (x : vec) : vec :=
  kz_step (map (fun i => nth i ops dflt) ord) x.
Fixpoint kz_trace_inner (ops : list kzop) (n : nat) (x : vec) : list vec :=
  match n with O => [] | S k => let '(xf, tr) := kz_sweep ops x in tr ++ kz_trace_inner ops k xf end.
End Kaczmarz.

(* ======================================================= proximal gradient *)
Section ProxGrad.
Variables (proxf gradg : vec -> vec) (gamma : T) (lam : nat -> T).
Definition pg_step (k : nat) (x : vec) : vec :=
  let lam_k := lam k in
  let tmp := vlin none_ x (nopp gamma) (gradg x) in         (* tmp.lincomb(1, x, -gamma, g_grad(x)) *)
  vlin (none_ - lam_k) x lam_k (proxf tmp).                 (* x.lincomb(1 - lam_k, x, lam_k, f_prox(tmp)) *)
End ProxGrad.

(* ============================================================= MLEM / OSMLEM *)
Section OSMLEM.
Record emop := mk_emop { em_A : vec -> vec; em_Aadj : vec -> vec; em_data : vec; em_sens : vec }.
Variable eps : T.
Definition em_one (o : emop) (x : vec) : vec :=
  let tr := em_A o x in                         (* op[i](x, out=tmp_ran[i]) *)
  let tr := vmaxc eps tr in                     (* tmp_ran[i].ufuncs.maximum(eps, out=tmp_ran[i]) *)
  let tr := vdiv (em_data o) tr in              (* data[i].divide(tmp_ran[i], out=tmp_ran[i]) *)
  let td := em_Aadj o tr in                     (* op[i].adjoint(tmp_ran[i], out=tmp_dom) *)
  let td := vdiv td (em_sens o) in              (* tmp_dom /= sensitivities[i] *)
  vmul x td.                                    (* x *= tmp_dom *)
Fixpoint em_sweep (ops : list emop) (x : vec) : vec * list vec :=
  match ops with
  | [] => (x, [])
  | o :: ops' => let x1 := em_one o x in let '(xf, tr) := em_sweep ops' x1 in (xf, x1 :: tr)
  end.
Definition em_step (ops : list emop) (x : vec) : vec := fst (em_sweep ops x).
(* the callback sits in the inner loop: one call per sub-iteration *)
Fixpoint em_trace (ops : list emop) (n : nat) (x : vec) : list vec :=
  match n with O => [] | S k => let '(xf, tr) := em_sweep ops x in tr ++ em_trace ops k xf end.
(* default sensitivities: np.maximum(op.adjoint(op.range.one()), eps) *)
Definition em_default_sens (Aadj : vec -> vec) (m : nat) : vec := vmaxc eps (Aadj (vconst m none_)).
End OSMLEM.

(* ====================================== steepest descent, ConstantLineSearch *)
Section SteepestDescent.
Variables (grad proj : vec -> vec) (step tol : T).
(* state: iterate and "the loop has returned"; the return test is
   np.abs(-grad_x.norm() ** 2) < tol *)
Definition sd_stops (x : vec) : bool := normsq_lt (grad x) tol.
Definition sd_step (s : vec * bool) : vec * bool :=
  let '(x, stopped) := s in
  if stopped then s
  else if sd_stops x then (x, true)
  else (proj (vlin none_ x (nopp step) (grad x)), false).
(* callbacks: only iterations that did not return call back *)
Fixpoint sd_trace (n : nat) (s : vec * bool) : list vec :=
  match n with
  | O => []
  | S k => let s' := sd_step s in if snd s' then [] else fst s' :: sd_trace k s'
  end.
End SteepestDescent.

(* ============================================ accelerated proximal gradient (FISTA) *)
Section AccProxGrad.
(* alpha k = (t_old - 1) / t of iteration k: the scalar recursion t <- (1 + sqrt(1 + 4 t^2)) / 2
   is a parameter of the model (irrational), the vector plumbing is modelled *)
Variables (proxf gradg : vec -> vec) (gamma : T) (alpha : nat -> T).
Definition apg_step (k : nat) (s : vec * vec) : vec * vec :=
  let '(x, y) := s in
  let tmp := vlin none_ y (nopp gamma) (gradg y) in            (* tmp.lincomb(1, y, -gamma, g_grad(y)) *)
  let y := x in                                                 (* y.assign(x) *)
  let x := proxf tmp in                                         (* f_prox(tmp, out=x) *)
  let y := vlin (none_ + alpha k) x (nopp (alpha k)) y in       (* y.lincomb(1 + alpha, x, -alpha, y) *)
  (x, y).
End AccProxGrad.

(* ======================================================== DCA and proximal DCA *)
Section DCA.
Variables (gradfcc gradg proxf : vec -> vec) (gamma : T).
(* dca:       f_convex_conj.gradient(g.gradient(x), out=x) *)
Definition dca_step (x : vec) : vec := gradfcc (gradg x).
(* prox_dca:  f.proximal(gamma)(x.lincomb(1, x, gamma, g.gradient(x)), out=x) *)
Definition prox_dca_step (x : vec) : vec :=
  let x := vlin none_ x gamma (gradg x) in proxf x.
End DCA.

(* ================================================ Douglas-Rachford primal-dual *)
Section DouglasRachford.
(* one entry per (L[i], g[i], sigma[i], optional l[i]) *)
Record drop := mk_drop { dr_L : vec -> vec; dr_Ladj : vec -> vec;
                         dr_proxg : vec -> vec;            (* g[i].convex_conj.proximal(sigma[i]) *)
                         dr_proxl : option (vec -> vec);   (* l[i].convex_conj.proximal(sigma[i]) when l is given *)
                         dr_sigma : T; dr_m : nat }.
Variables (proxf : vec -> vec) (tau : T) (lam : nat -> T).
(* L[0].adjoint(v[0], out=acc); for Li, vi in zip(L[1:], v[1:]): acc += Li.adjoint(vi) *)
Definition dr_adjsum (ops : list drop) (vs : list vec) : option vec :=
  match ops, vs with
  | o :: ops', v :: vs' =>
      Some (fold_left (fun acc ov => vadd acc (dr_Ladj (fst ov) (snd ov))) (combine ops' vs') (dr_Ladj o v))
  | _, _ => None
  end.
(* first half of the loop body: p1 (what the callback sees), w1, and x after x.lincomb(1, x, -lam_k, p1) *)
Definition dr_half1 (ops : list drop) (k : nat) (x : vec) (vs : list vec) : vec * vec * vec :=
  let z1 := match dr_adjsum ops vs with
            | Some a => vlin none_ x (nopp tau / ntwo) a          (* z1.lincomb(1, x, -tau / 2, z1) *)
            | None => x end in                                    (* z1.assign(x) *)
  let p1 := proxf z1 in                                           (* f.proximal(tau)(z1, out=p1) *)
  let w1 := vlin ntwo p1 (nopp none_) x in                        (* w1.lincomb(2, p1, -1, x) *)
  let x1 := vlin none_ x (nopp (lam k)) p1 in                     (* x.lincomb(1, x, -lam_k, p1) *)
  (p1, w1, x1).
Definition dr_half2 (ops : list drop) (k : nat) (w1 x1 : vec) (vs : list vec) : vec * list vec :=
  let p2s := map (fun ov => dr_proxg (fst ov)
                   (vlin none_ (snd ov) (dr_sigma (fst ov) / ntwo) (dr_L (fst ov) w1))) (combine ops vs) in
  let w2s := map (fun pv => vlin ntwo (fst pv) (nopp none_) (snd pv)) (combine p2s vs) in   (* 2 p2 - v *)
  let p1 := match dr_adjsum ops w2s with Some a => a | None => map (fun _ => nzero) x1 end in   (* p1.set_zero() *)
  let z1 := vlin none_ w1 (nopp tau / ntwo) p1 in                 (* z1.lincomb(1, w1, -tau / 2, p1) *)
  let x2 := vlin none_ x1 (lam k) z1 in                           (* x.lincomb(1, x, lam_k, z1) *)
  let p1 := vlin ntwo z1 (nopp none_) w1 in                       (* p1.lincomb(2, z1, -1, w1) *)
  let vs' := map (fun t =>
      let '(o, w2, p2, v) := t in
      let z2 := vlin none_ w2 (dr_sigma o / ntwo) (dr_L o p1) in  (* z2i.lincomb(1, w2[i], sigma[i] / 2, L[i](p1)) *)
      let z2 := match dr_proxl o with Some pl => pl z2 | None => z2 end in
      let v1 := vlin none_ v (lam k) z2 in                        (* v[i].lincomb(1, v[i], lam_k, z2i) *)
      vlin none_ v1 (nopp (lam k)) p2)                            (* v[i].lincomb(1, v[i], -lam_k, p2[i]) *)
    (combine (combine (combine ops w2s) p2s) vs) in
  (x2, vs').
(* a full (non-final) iteration *)
Definition dr_step (ops : list drop) (k : nat) (s : vec * list vec) : vec * list vec :=
  let '(x, vs) := s in
  let '(p1, w1, x1) := dr_half1 ops k x vs in dr_half2 ops k w1 x1 vs.
Definition dr_p1 (ops : list drop) (k : nat) (s : vec * list vec) : vec :=
  let '(p1, _, _) := dr_half1 ops k (fst s) (snd s) in p1.
Definition dr_init (ops : list drop) (x : vec) : vec * list vec := (x, map (fun o => vzero (dr_m o)) ops).
(* callbacks of a run with niter iterations: p1 of iteration k = 0 .. niter-1 *)
Fixpoint dr_trace (ops : list drop) (n k0 : nat) (s : vec * list vec) : list vec :=
  match n with O => [] | S n' => dr_p1 ops k0 s :: dr_trace ops n' (S k0) (dr_step ops k0 s) end.
(* what the call leaves in x: p1 of the last iteration (k == niter - 1: x.assign(p1); return) *)
Definition dr_run (ops : list drop) (n : nat) (x : vec) : vec :=
  match n with
  | O => x
  | S n' => dr_p1 ops n' (iterk n' 0 (dr_step ops) (dr_init ops x))
  end.
End DouglasRachford.

End Solvers.
