(* C11/InterpL.v -- semantics of C11/SyntaxL.v (definitions only).

   Objects have structured identities: the caller's objects, the j-th object
   passed in a list argument, the j-th object created by a list comprehension
   bound to a name, the object created by a dict comprehension for key k, and
   objects created by plain assignments (numbered by an allocation counter).
   A list comprehension whose element expression creates an object
   (space.zero(), space.element(), a computed value) yields n NEW objects:
   that is what gives OList l j its own identity for every j.  Plain names
   are bound to object identities; in-place writes update the heap cell.
   Rebinding a list slot and comprehensions of references are rejected
   (None): no shipped solver uses them, and a source change introducing one
   must break the proofs. *)
From Coq Require Import ZArith QArith String List Bool.
From Verif Require Import Base.Num Base.Vec C11.Model C11.Syntax C11.Interp C11.SyntaxL.
Import ListNotations.
Local Open Scope string_scope.

Inductive oid :=
| OCaller (s : string)             (* object the caller passed under parameter name s *)
| OArg (s : string) (j : nat)      (* j-th object of the list the caller passed as s *)
| OList (s : string) (j : nat)     (* j-th object created by the comprehension bound to s *)
| ODict (s : string) (k : nat)     (* object created by the dict comprehension bound to s for key k *)
| OFresh (n : nat).                (* object created by the n-th plain allocation *)

Definition oid_eqb (a b : oid) : bool :=
  match a, b with
  | OCaller s, OCaller t => String.eqb s t
  | OArg s j, OArg t k => String.eqb s t && Nat.eqb j k
  | OList s j, OList t k => String.eqb s t && Nat.eqb j k
  | ODict s j, ODict t k => String.eqb s t && Nat.eqb j k
  | OFresh n, OFresh m => Nat.eqb n m
  | _, _ => false
  end.

Inductive lkind := KArg | KComp | KDict.

Section InterpL.
Context {T : Type} `{Num T}.
Notation vec := (list T).

Definition heap := oid -> option vec.
Definition hget (h : heap) (o : oid) : option vec := h o.
Definition hset (h : heap) (o : oid) (v : vec) : heap := fun o' => if oid_eqb o' o then Some v else h o'.

Definition venv := list (string * oid).
Fixpoint vget (e : venv) (x : string) : option oid :=
  match e with [] => None | (y, o) :: e' => if String.eqb x y then Some o else vget e' x end.
Definition vset (e : venv) (x : string) (o : oid) : venv := (x, o) :: e.

Record lst := mk_lst { l_venv : venv; l_lenv : list (string * lkind); l_heap : heap; l_next : nat; l_log : list vec }.

Fixpoint lget (e : list (string * lkind)) (x : string) : option lkind :=
  match e with [] => None | (y, k) :: e' => if String.eqb x y then Some k else lget e' x end.

(* the object a reference denotes at operator index j; rkey j is the key (range class) of operator j *)
Definition resolve (rkey : nat -> nat) (j : nat) (s : lst) (r : vref) : option oid :=
  match r with
  | RVar x => vget (l_venv s) x
  | RIdx l => match lget (l_lenv s) l with
              | Some KArg => Some (OArg l j)
              | Some KComp => Some (OList l j)
              | _ => None
              end
  | RKey d _ => match lget (l_lenv s) d with Some KDict => Some (ODict d (rkey j)) | _ => None end
  | RAt l k => match lget (l_lenv s) l with
               | Some KArg => Some (OArg l k)
               | Some KComp => Some (OList l k)
               | _ => None
               end
  end.

Fixpoint lveval (I : interp) (rkey : nat -> nat) (j : nat) (s : lst) (e : lvx) : option vec :=
  match e with
  | LName r => obind (resolve rkey j s r) (hget (l_heap s))
  | LApp f a => obind (lveval I rkey j s a) (fun v => Some (i_fn I f v))
  | LApp2 f p a => obind (lveval I rkey j s p) (fun u => obind (lveval I rkey j s a) (fun v => Some (i_fn2 I f u v)))
  | LAdd a b => obind (lveval I rkey j s a) (fun u => obind (lveval I rkey j s b) (fun v => Some (vadd u v)))
  | LSub a b => obind (lveval I rkey j s a) (fun u => obind (lveval I rkey j s b) (fun v => Some (vsub u v)))
  | LMul a b => obind (lveval I rkey j s a) (fun u => obind (lveval I rkey j s b) (fun v => Some (vmul u v)))
  | LDiv a b => obind (lveval I rkey j s a) (fun u => obind (lveval I rkey j s b) (fun v => Some (vdiv u v)))
  | LMaxc c a => obind (lveval I rkey j s a) (fun v => Some (vmaxc (seval I c) v))
  | LScal c a => obind (lveval I rkey j s a) (fun v => Some (vscal (seval I c) v))
  | LLin a x b y => obind (lveval I rkey j s x) (fun u => obind (lveval I rkey j s y) (fun v =>
                      Some (vlin (seval I a) u (seval I b) v)))
  | LZero sp => Some (i_zero I sp)
  | LJunk x => Some (i_junk I x)
  end.

Definition lexec1 (I : interp) (rkey : nat -> nat) (j : nat) (s : lst) (c : lstmt) : option lst :=
  match c with
  | LBind x e =>
      obind (lveval I rkey j s e) (fun v =>
        Some (mk_lst (vset (l_venv s) x (OFresh (l_next s))) (l_lenv s)
                     (hset (l_heap s) (OFresh (l_next s)) v) (S (l_next s)) (l_log s)))
  | LAlias x r =>
      obind (resolve rkey j s r) (fun o =>
        Some (mk_lst (vset (l_venv s) x o) (l_lenv s) (l_heap s) (l_next s) (l_log s)))
  | LWrite r e =>
      obind (lveval I rkey j s e) (fun v => obind (resolve rkey j s r) (fun o =>
        match hget (l_heap s) o with
        | Some _ => Some (mk_lst (l_venv s) (l_lenv s) (hset (l_heap s) o v) (l_next s) (l_log s))
        | None => None
        end))
  | LCallback r =>
      obind (obind (resolve rkey j s r) (hget (l_heap s))) (fun v =>
        Some (mk_lst (l_venv s) (l_lenv s) (l_heap s) (l_next s) (l_log s ++ [v])))
  | LSetSlot _ _ => None
  end.

Fixpoint lexec (I : interp) (rkey : nat -> nat) (j : nat) (cs : list lstmt) (s : lst) : option lst :=
  match cs with
  | [] => Some s
  | c :: cs' => obind (lexec1 I rkey j s c) (lexec I rkey j cs')
  end.

(* for idx in range(j0, j0 + cnt): body   -- the interpretation of the operator symbols depends on idx *)
Fixpoint lfor (I : nat -> interp) (rkey : nat -> nat) (body : list lstmt) (j0 cnt : nat) (s : lst) : option lst :=
  match cnt with
  | O => Some s
  | S c => obind (lexec (I j0) rkey j0 body s) (lfor I rkey body (S j0) c)
  end.

(* for idx in <explicit list of indices>: body   (random order: the permutation drawn in this iteration) *)
Fixpoint lforl (I : nat -> interp) (rkey : nat -> nat) (body : list lstmt) (idxs : list nat) (s : lst) : option lst :=
  match idxs with
  | [] => Some s
  | j :: idxs' => obind (lexec (I j) rkey j body s) (lforl I rkey body idxs')
  end.

(* one pass over the main loop body; nops = number of operators *)
Fixpoint litems (I : nat -> interp) (rkey : nat -> nat) (nops : nat) (its : list litem) (s : lst) : option lst :=
  match its with
  | [] => Some s
  | IFor body :: its' => obind (lfor I rkey body 0 nops s) (litems I rkey nops its')
  | IForOrd _ :: _ => None            (* needs the permutation: litems_ord *)
  | IForFrom _ _ :: _ => None         (* litems_last *)
  | IIfLast _ :: _ => None
  | IStmt c :: its' => obind (lexec1 (I 0%nat) rkey 0 s c) (litems I rkey nops its')
  end.
(* the same with the permutation [ord] drawn in this iteration *)
Fixpoint litems_ord (I : nat -> interp) (rkey : nat -> nat) (nops : nat) (ord : list nat) (its : list litem) (s : lst)
  : option lst :=
  match its with
  | [] => Some s
  | IFor body :: its' => obind (lfor I rkey body 0 nops s) (litems_ord I rkey nops ord its')
  | IForOrd body :: its' => obind (lforl I rkey body ord s) (litems_ord I rkey nops ord its')
  | IForFrom _ _ :: _ => None
  | IIfLast _ :: _ => None
  | IStmt c :: its' => obind (lexec1 (I 0%nat) rkey 0 s c) (litems_ord I rkey nops ord its')
  end.
(* main loop body with "if k == niter - 1: ...; return": [last] says whether this is the last iteration *)
Fixpoint litems_last (I : nat -> interp) (rkey : nat -> nat) (nops : nat) (last : bool) (its : list litem) (s : lst)
  : option lst :=
  match its with
  | [] => Some s
  | IFor body :: its' => obind (lfor I rkey body 0 nops s) (litems_last I rkey nops last its')
  | IForFrom st body :: its' => obind (lfor I rkey body st (nops - st) s) (litems_last I rkey nops last its')
  | IIfLast body :: its' => if last then lexec (I 0%nat) rkey 0 body s else litems_last I rkey nops last its' s
  | IForOrd _ :: _ => None
  | IStmt c :: its' => obind (lexec1 (I 0%nat) rkey 0 s c) (litems_last I rkey nops last its')
  end.
Fixpoint literk (n k0 : nat) (f : nat -> lst -> option lst) (s : lst) : option lst :=
  match n with O => Some s | S k => obind (f k0 s) (literk k (S k0) f) end.

(* preamble; nkeys = number of distinct ranges *)
Definition pexec1 (I : nat -> interp) (rkey : nat -> nat) (nops nkeys : nat) (s : lst) (c : pstmt) : option lst :=
  match c with
  | PStmt c => lexec1 (I 0%nat) rkey 0 s c
  | PList l e =>
      Some (mk_lst (l_venv s) ((l, KComp) :: l_lenv s)
              (fun o => match o with
                        | OList l' j => if String.eqb l' l && Nat.ltb j nops then lveval (I j) rkey j s e else l_heap s o
                        | _ => l_heap s o
                        end) (l_next s) (l_log s))
  | PListRef _ _ => None
  | PDict d e =>
      Some (mk_lst (l_venv s) ((d, KDict) :: l_lenv s)
              (fun o => match o with
                        | ODict d' k => if String.eqb d' d && Nat.ltb k nkeys then lveval (I 0%nat) rkey 0 s e else l_heap s o
                        | _ => l_heap s o
                        end) (l_next s) (l_log s))
  end.
Fixpoint pexec (I : nat -> interp) (rkey : nat -> nat) (nops nkeys : nat) (cs : list pstmt) (s : lst) : option lst :=
  match cs with
  | [] => Some s
  | c :: cs' => obind (pexec1 I rkey nops nkeys s c) (pexec I rkey nops nkeys cs')
  end.

Fixpoint liter (n : nat) (f : lst -> option lst) (s : lst) : option lst :=
  match n with O => Some s | S k => obind (f s) (liter k f) end.
Definition lrun (I : nat -> interp) (rkey : nat -> nat) (nops nkeys : nat) (pre : list pstmt) (its : list litem)
  (niter : nat) (s0 : lst) : option lst :=
  obind (pexec I rkey nops nkeys pre s0) (liter niter (litems I rkey nops its)).
End InterpL.
