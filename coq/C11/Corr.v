(* C11/Corr.v -- correspondence checkers (executed at Q by the shards).
   Operators are matrices, functionals come from a small family whose
   proximal / conjugate-proximal / gradient are rational; the implementation's
   callback-recorded iterates and the finals of split runs are compared with
   the model iterates. *)
From Coq Require Import ZArith QArith Qabs List Bool.
From Verif Require Import Base.Num Base.Vec Base.Check C11.Model.
Import ListNotations.
Local Open Scope Q_scope.

Notation qvec := (list Q).
Notation qmat := (list (list Q)).

(* ---- comparison: entrywise, relative to the size of the model vector ---- *)
Definition tol : Q := 1 # 1000000000.
Definition vclose (impl model : qvec) : bool :=
  let bound := tol * (1 + vmaxabs model) in
  all2 (fun a b => Qle_bool (Qabs (a - b)) bound) impl model.
Definition vsclose (impl model : list qvec) : bool := all2 vclose impl model.

(* ---- operators ---- *)
Definition mop (M : qmat) : qvec -> qvec := mvec M.
Definition madj (ncols : nat) (M : qmat) : qvec -> qvec := mvec (transpose ncols M).

(* ---- functionals: prox_sigma, conjugate prox_sigma, gradient ---- *)
Inductive fk :=
| FZero                        (* ZeroFunctional *)
| FL1 (lam : Q)                (* lam * L1Norm *)
| FL2sq (lam : Q)              (* lam * L2NormSquared *)
| FBox (lo hi : Q)             (* IndicatorBox *)
| FNonneg                      (* IndicatorNonnegativity *)
| FTrans (f : fk) (c : qvec)   (* f.translated(c) *)
| FQuad (ncols : nat) (M : qmat) (b : qvec).   (* L2NormSquared.translated(b) * MatrixOperator(M): gradient only *)

Definition qsoft (t a : Q) : Q :=
  if Qle_bool t a then Qred (a - t) else if Qle_bool a (- t) then Qred (a + t) else 0.
Definition qclip (lo hi a : Q) : Q := if Qle_bool a lo then lo else if Qle_bool hi a then hi else a.

Fixpoint prox_of (f : fk) (s : Q) (x : qvec) : qvec :=
  match f with
  | FZero => x
  | FL1 lam => map (qsoft (s * lam)) x
  | FL2sq lam => map (fun a => Qred (a / (1 + 2 * s * lam))) x
  | FBox lo hi => map (qclip lo hi) x
  | FNonneg => map (fun a => if Qle_bool a 0 then 0 else a) x
  | FTrans f c => vadd c (prox_of f s (vsub x c))
  | FQuad _ _ _ => x
  end.
Fixpoint ccprox_of (f : fk) (s : Q) (x : qvec) : qvec :=
  match f with
  | FZero => map (fun _ => 0) x
  | FL1 lam => map (qclip (- lam) lam) x
  | FL2sq lam => map (fun a => Qred (a / (1 + s / (2 * lam)))) x
  | FBox lo hi => map (fun a => Qred (a - s * qclip lo hi (a / s))) x
  | FNonneg => map (fun a => if Qle_bool a 0 then a else 0) x
  | FTrans f c => ccprox_of f s (vsub x (vscal s c))
  | FQuad _ _ _ => x
  end.
Fixpoint grad_of (f : fk) (x : qvec) : qvec :=
  match f with
  | FL2sq lam => vscal (2 * lam) x
  | FTrans f c => grad_of f (vsub x c)
  | FQuad nc M b => madj nc M (vscal 2 (vsub (mop M x) b))
  | _ => map (fun _ => 0) x
  end.

(* conjugate prox with an array-valued step (adupdates with array inner_stepsizes) *)
Fixpoint ccprox_of_v (f : fk) (s : qvec) (x : qvec) : qvec :=
  match f with
  | FL2sq lam => vmap2 (fun a si => Qred (a / (1 + si / (2 * lam)))) x s
  | FBox lo hi => vmap2 (fun a si => Qred (a - si * qclip lo hi (a / si))) x s
  | FTrans f c => ccprox_of_v f s (vsub x (vmul s c))
  | _ => ccprox_of f 1 x
  end.

(* validation of the family itself against the library *)
Record case_fk := { kf_f : fk; kf_s : Q; kf_x : qvec;
                    kf_prox : option qvec; kf_cc : option qvec; kf_grad : option qvec }.
Definition ocheck (impl : option qvec) (model : qvec) : bool :=
  match impl with Some v => vclose v model | None => true end.
Definition check_fk (k : case_fk) : bool :=
  ocheck (kf_prox k) (prox_of (kf_f k) (kf_s k) (kf_x k))
  && ocheck (kf_cc k) (ccprox_of (kf_f k) (kf_s k) (kf_x k))
  && ocheck (kf_grad k) (grad_of (kf_f k) (kf_x k)).

(* a split run: n iterations, then the rest, final iterate *)
Definition splits_ok (finals : list qvec) (model_final : qvec) : bool :=
  forallb (fun v => vclose v model_final) finals.
Definition last_or (l : list qvec) (d : qvec) : qvec := last l d.

(* ---- ADMM ---- *)
Record case_admm := { ka_nc : nat; ka_M : qmat; ka_f : fk; ka_g : fk; ka_tau : Q; ka_sigma : Q;
                      ka_x : qvec; ka_n : nat; ka_opt : list qvec; ka_ref : list qvec }.
Definition check_admm (k : case_admm) : bool :=
  let L := mop (ka_M k) in let Ladj := madj (ka_nc k) (ka_M k) in
  let pf := prox_of (ka_f k) (ka_tau k) in let pg := prox_of (ka_g k) (ka_sigma k) in
  let m := length (ka_M k) in
  vsclose (ka_opt k) (admm_opt_trace L Ladj pf pg (ka_tau k) (ka_sigma k) m (ka_n k) [] (ka_x k))
  && vsclose (ka_ref k) (admm_ref_trace L Ladj pf pg (ka_tau k) (ka_sigma k) m (ka_n k) (ka_x k)).

(* ---- adupdates ---- *)
Record case_adup := { kd_nc : nat; kd_Ms : list qmat; kd_gs : list fk; kd_inner : list Q;
                      kd_inner_v : list (option qvec); kd_keys : list nat;
                      kd_step : Q; kd_x : qvec; kd_n : nat;
                      kd_outer : list qvec;      (* adupdates, callback_loop='outer' *)
                      kd_inner_tr : list qvec;   (* adupdates, callback_loop='inner' *)
                      kd_ref : list qvec }.      (* adupdates_simple run with niter = 1..n from the start *)
Fixpoint mk_adops (nc : nat) (step : Q) (Ms : list qmat) (gs : list fk) (inn : list Q) (innv : list (option qvec))
  (keys : list nat) : list (@adop Q) :=
  match Ms, gs, inn, innv, keys with
  | M :: Ms', g :: gs', i :: inn', iv :: innv', key :: keys' =>
      let px := match iv with
                | None => ccprox_of g (step * i)
                | Some v => ccprox_of_v g (vscal step v)
                end in
      mk_adop (mop M) (madj nc M) px i iv (length M) key :: mk_adops nc step Ms' gs' inn' innv' keys'
  | _, _, _, _, _ => []
  end.
Fixpoint ad_ref_finals (ops : list (@adop Q)) (step : Q) (x : qvec) (n : nat) (s : qvec * list qvec) (k : nat)
  : list qvec :=
  match k with
  | O => []
  | S k' => let s' := ad_ref_step step ops s in fst s' :: ad_ref_finals ops step x n s' k'
  end.
Definition check_adup (k : case_adup) : bool :=
  let ops := mk_adops (kd_nc k) (kd_step k) (kd_Ms k) (kd_gs k) (kd_inner k) (kd_inner_v k) (kd_keys k) in
  let tmps0 := map (fun _ => []) ops in
  vsclose (kd_outer k) (ad_opt_trace (kd_step k) ops (kd_n k) tmps0 (kd_x k))
  && vsclose (kd_inner_tr k) (ad_opt_trace_inner (kd_step k) ops (kd_n k) (kd_x k, ad_duals0 ops, tmps0))
  && vsclose (kd_ref k) (ad_ref_finals ops (kd_step k) (kd_x k) (kd_n k) (kd_x k, ad_duals0 ops) (kd_n k)).

(* ---- doubleprox_dc ---- *)
Record case_dpdc := { kc_nc : nat; kc_K : qmat; kc_f : fk; kc_g : fk; kc_phi : fk; kc_gamma : Q; kc_mu : Q;
                      kc_x : qvec; kc_y : qvec; kc_n : nat;
                      kc_opt : list qvec; kc_opt_y : qvec;      (* callback trace of x, final y *)
                      kc_ref : list qvec; kc_ref_y : list qvec; (* simple: x and y after niter = 1..n *)
                      kc_split_x : list qvec; kc_split_y : list qvec }.
Definition check_dpdc (k : case_dpdc) : bool :=
  let K := mop (kc_K k) in let Kadj := madj (kc_nc k) (kc_K k) in
  let pf := prox_of (kc_f k) (kc_gamma k) in let pgc := ccprox_of (kc_g k) (kc_mu k) in
  let gp := grad_of (kc_phi k) in
  let so := dpdc_opt_step K Kadj pf pgc gp (kc_gamma k) (kc_mu k) in
  let sr := dpdc_ref_step K Kadj pf pgc gp (kc_gamma k) (kc_mu k) in
  let s0 := (kc_x k, kc_y k) in
  let fin := iter (kc_n k) so s0 in
  vsclose (kc_opt k) (trace fst (kc_n k) so s0)
  && vclose (kc_opt_y k) (snd fin)
  && vsclose (kc_ref k) (trace fst (kc_n k) sr s0)
  && vsclose (kc_ref_y k) (trace snd (kc_n k) sr s0)
  && splits_ok (kc_split_x k) (fst fin) && splits_ok (kc_split_y k) (snd fin).

(* ---- PDHG ---- *)
Record case_pdhg := { kp_nc : nat; kp_M : qmat; kp_f : fk; kp_g : fk; kp_tau : Q; kp_sigma : Q; kp_theta : Q;
                      kp_x : qvec; kp_xr : option qvec; kp_y : option qvec; kp_n : nat;
                      kp_tr : list qvec;                         (* callback trace *)
                      kp_fin_xr : option qvec; kp_fin_y : option qvec;   (* passed-in objects after the run *)
                      kp_split_x : list qvec; kp_split_xr : list qvec; kp_split_y : list qvec }.
Definition check_pdhg (k : case_pdhg) : bool :=
  let L := mop (kp_M k) in let Ladj := madj (kp_nc k) (kp_M k) in
  let pp := prox_of (kp_f k) (kp_tau k) in let pd := ccprox_of (kp_g k) (kp_sigma k) in
  let st := pdhg_step L Ladj pp pd (kp_tau k) (kp_sigma k) (kp_theta k) in
  let s0 := pdhg_init (length (kp_M k)) (kp_x k) (kp_xr k) (kp_y k) in
  let fin := iter (kp_n k) st s0 in
  vsclose (kp_tr k) (trace pd_x (kp_n k) st s0)
  && ocheck (kp_fin_xr k) (pd_xr fin) && ocheck (kp_fin_y k) (pd_y fin)
  && splits_ok (kp_split_x k) (pd_x fin) && splits_ok (kp_split_xr k) (pd_xr fin)
  && splits_ok (kp_split_y k) (pd_y fin).

(* ---- projections used by landweber / kaczmarz / steepest descent ---- *)
Inductive pk := PNone | PNonneg | PBox (lo hi : Q).
Definition proj_of (p : pk) (x : qvec) : qvec :=
  match p with
  | PNone => x
  | PNonneg => map (fun a => if Qle_bool a 0 then 0 else a) x
  | PBox lo hi => map (qclip lo hi) x
  end.

(* ---- Landweber ---- *)
(* kl_sq: the operator is  MatrixOperator(M) * PowerOperator(2)  (nonlinear): A x = M (x.x),
   adjoint of the derivative AT x:  y |-> 2 x . (M^T y) *)
Record case_lw := { kl_nc : nat; kl_M : qmat; kl_sq : bool; kl_rhs : qvec; kl_omega : Q; kl_proj : pk; kl_x : qvec; kl_n : nat;
                    kl_tr : list qvec; kl_split : list qvec }.
Definition check_lw (k : case_lw) : bool :=
  let A := if kl_sq k then (fun x => mop (kl_M k) (vmul x x)) else mop (kl_M k) in
  let Dadj := if kl_sq k then (fun x y => vscal 2 (vmul x (madj (kl_nc k) (kl_M k) y)))
              else (fun _ => madj (kl_nc k) (kl_M k)) in
  let st := landweber_step A Dadj (proj_of (kl_proj k)) (kl_rhs k) (kl_omega k) in
  vsclose (kl_tr k) (trace (fun x => x) (kl_n k) st (kl_x k))
  && splits_ok (kl_split k) (iter (kl_n k) st (kl_x k)).

(* ---- Kaczmarz ---- *)
Record case_kz := { kk_nc : nat; kk_Ms : list qmat; kk_rhs : list qvec; kk_omega : list Q; kk_proj : pk;
                    kk_x : qvec; kk_n : nat;
                    kk_outer : list qvec; kk_inner : list qvec; kk_split : list qvec }.
Fixpoint mk_kzops (nc : nat) (Ms : list qmat) (rhs : list qvec) (om : list Q) : list (@kzop Q) :=
  match Ms, rhs, om with
  | M :: Ms', r :: rhs', w :: om' => mk_kzop (mop M) (fun _ => madj nc M) r w :: mk_kzops nc Ms' rhs' om'
  | _, _, _ => []
  end.
Definition check_kz (k : case_kz) : bool :=
  let ops := mk_kzops (kk_nc k) (kk_Ms k) (kk_rhs k) (kk_omega k) in
  let p := proj_of (kk_proj k) in
  vsclose (kk_outer k) (trace (fun x => x) (kk_n k) (kz_step p ops) (kk_x k))
  && vsclose (kk_inner k) (kz_trace_inner p ops (kk_n k) (kk_x k))
  && splits_ok (kk_split k) (iter (kk_n k) (kz_step p ops) (kk_x k)).

(* ---- proximal gradient ---- *)
Record case_pg := { kg_f : fk; kg_g : fk; kg_gamma : Q; kg_lam : list Q;   (* lam(k) for k = 0.. ; constant: one entry *)
                    kg_x : qvec; kg_n : nat; kg_tr : list qvec;
                    kg_split : list qvec;          (* resumed with the SAME lam (restarts at k = 0) *)
                    kg_split_shift : list qvec }.  (* resumed with lam shifted by the iterations already done *)
Definition lam_of (l : list Q) (k : nat) : Q := nth k l (last l 1).
Definition pg_split_finals (k : case_pg) (st : nat -> qvec -> qvec) : list qvec :=
  (* n1 iterations, then (N - n1) iterations with the counter restarting at 0, for n1 = 0..N *)
  map (fun n1 => iterk (kg_n k - n1) 0 st (iterk n1 0 st (kg_x k))) (seq 0 (S (kg_n k))).
Definition check_pg (k : case_pg) : bool :=
  let st := pg_step (prox_of (kg_f k) (kg_gamma k)) (grad_of (kg_g k)) (kg_gamma k) (lam_of (kg_lam k)) in
  vsclose (kg_tr k) (tracek (fun x => x) (kg_n k) 0 st (kg_x k))
  && splits_ok (kg_split_shift k) (iterk (kg_n k) 0 st (kg_x k))
  && vsclose (kg_split k) (pg_split_finals k st).

(* ---- MLEM / OSMLEM ---- *)
Record case_em := { ke_nc : nat; ke_Ms : list qmat; ke_data : list qvec; ke_sens : option (list qvec);
                    ke_x : qvec; ke_n : nat; ke_tr : list qvec; ke_split : list qvec }.
Definition em_eps : Q := 1 # 100000000.
Fixpoint mk_emops (nc : nat) (Ms : list qmat) (data : list qvec) (sens : option (list qvec)) : list (@emop Q) :=
  match Ms, data with
  | M :: Ms', d :: data' =>
      let s := match sens with
               | Some (s :: _) => s
               | _ => em_default_sens em_eps (madj nc M) (length M) end in
      mk_emop (mop M) (madj nc M) d s :: mk_emops nc Ms' data' (option_map (@tl _) sens)
  | _, _ => []
  end.
(* MLEM multiplies: exact rationals double in size per iteration.  Long runs are
   therefore checked step by step from the implementation's own previous
   iterate (each recorded float is a 53-bit rational), short runs in full. *)
Fixpoint em_stepwise (os : list (@emop Q)) (x : qvec) (tr : list qvec) : bool :=
  match os, tr with
  | [], [] => true
  | o :: os', y :: tr' => vclose y (em_one em_eps o x) && em_stepwise os' y tr'
  | _, _ => false
  end.
Definition check_em (k : case_em) : bool :=
  let ops := mk_emops (ke_nc k) (ke_Ms k) (ke_data k) (ke_sens k) in
  em_stepwise (concat (repeat ops (ke_n k))) (ke_x k) (ke_tr k)
  && (if (ke_n k <=? 3)%nat then vsclose (ke_tr k) (em_trace em_eps ops (ke_n k) (ke_x k)) else true)
  && splits_ok (ke_split k) (last (ke_tr k) (ke_x k)).

(* ---- steepest descent ---- *)
Record case_sd := { ks_f : fk; ks_step : Q; ks_tol : Q; ks_proj : pk; ks_x : qvec; ks_n : nat;
                    ks_tr : list qvec; ks_fin : qvec; ks_split : list qvec }.
Definition check_sd (k : case_sd) : bool :=
  let g := grad_of (ks_f k) in let p := proj_of (ks_proj k) in
  let s0 := (ks_x k, false) in
  vsclose (ks_tr k) (sd_trace g p (ks_step k) (ks_tol k) (ks_n k) s0)
  && vclose (ks_fin k) (fst (iter (ks_n k) (sd_step g p (ks_step k) (ks_tol k)) s0))
  && splits_ok (ks_split k) (fst (iter (ks_n k) (sd_step g p (ks_step k) (ks_tol k)) s0)).

(* ---- Douglas-Rachford primal-dual ---- *)
Record case_dr := { kr_nc : nat; kr_Ms : list qmat; kr_f : fk; kr_gs : list fk; kr_ls : option (list fk);
                    kr_tau : Q; kr_sigma : list Q; kr_lam : list Q; kr_x : qvec; kr_n : nat;
                    kr_tr : list qvec; kr_fin : qvec }.
Fixpoint mk_drops (nc : nat) (Ms : list qmat) (gs : list fk) (ls : option (list fk)) (sig : list Q) : list (@drop Q) :=
  match Ms, gs, sig with
  | M :: Ms', g :: gs', s :: sig' =>
      mk_drop (mop M) (madj nc M) (ccprox_of g s)
              (match ls with Some (l :: _) => Some (ccprox_of l s) | _ => None end) s (length M)
      :: mk_drops nc Ms' gs' (option_map (@tl _) ls) sig'
  | _, _, _ => []
  end.
Definition check_dr (k : case_dr) : bool :=
  let ops := mk_drops (kr_nc k) (kr_Ms k) (kr_gs k) (kr_ls k) (kr_sigma k) in
  let pf := prox_of (kr_f k) (kr_tau k) in
  let lam := lam_of (kr_lam k) in
  vsclose (kr_tr k) (dr_trace pf (kr_tau k) lam ops (kr_n k) 0 (dr_init ops (kr_x k)))
  && vclose (kr_fin k) (dr_run pf (kr_tau k) lam ops (kr_n k) (kr_x k)).

(* ---- dca / prox_dca ---- *)
(* gradient of the convex conjugate (smooth strongly convex members of the family) *)
Fixpoint ccgrad_of (f : fk) (y : qvec) : qvec :=
  match f with
  | FL2sq lam => map (fun a => Qred (a / (2 * lam))) y
  | FTrans f c => vadd (ccgrad_of f y) c
  | _ => y
  end.
Record case_dca := { kq_prox : bool; kq_f : fk; kq_g : fk; kq_gamma : Q; kq_x : qvec; kq_n : nat;
                     kq_tr : list qvec; kq_split : list qvec }.
Definition check_dca (k : case_dca) : bool :=
  let st := if kq_prox k then prox_dca_step (grad_of (kq_g k)) (prox_of (kq_f k) (kq_gamma k)) (kq_gamma k)
            else dca_step (ccgrad_of (kq_f k)) (grad_of (kq_g k)) in
  vsclose (kq_tr k) (trace (fun x => x) (kq_n k) st (kq_x k))
  && splits_ok (kq_split k) (iter (kq_n k) st (kq_x k)).

(* ---- accelerated proximal gradient: alpha_k recorded from the implementation's scalar recursion ---- *)
Record case_apg := { kv_f : fk; kv_g : fk; kv_gamma : Q; kv_alpha : list Q; kv_x : qvec; kv_n : nat;
                     kv_tr : list qvec }.
Definition check_apg (k : case_apg) : bool :=
  let st := apg_step (prox_of (kv_f k) (kv_gamma k)) (grad_of (kv_g k)) (kv_gamma k)
                     (fun j => nth j (kv_alpha k) 0) in
  vsclose (kv_tr k) (tracek fst (kv_n k) 0 st (kv_x k, kv_x k)).

(* ---- accelerated pdhg: tau_k, sigma_k, theta_k recorded by replaying the scalar recursion ---- *)
Record case_pdacc := { kw_nc : nat; kw_M : qmat; kw_f : fk; kw_g : fk; kw_tau : list Q; kw_sigma : list Q;
                       kw_theta : list Q; kw_x : qvec; kw_n : nat; kw_tr : list qvec;
                       kw_split : list qvec }.   (* n1 iterations, then the rest with the step sizes reached, x_relax, y passed *)
Definition check_pdacc (k : case_pdacc) : bool :=
  let L := mop (kw_M k) in let Ladj := madj (kw_nc k) (kw_M k) in
  let tau := fun j => nth j (kw_tau k) 0 in let sigma := fun j => nth j (kw_sigma k) 0 in
  let theta := fun j => nth j (kw_theta k) 0 in
  let st := fun j => pdhg_step L Ladj (prox_of (kw_f k) (tau j)) (ccprox_of (kw_g k) (sigma j)) (tau j) (sigma j) (theta j) in
  vsclose (kw_tr k) (tracek pd_x (kw_n k) 0 st (pdhg_init (length (kw_M k)) (kw_x k) None None))
  && splits_ok (kw_split k) (pd_x (iterk (kw_n k) 0 st (pdhg_init (length (kw_M k)) (kw_x k) None None))).

(* ---- random order: the permutations drawn by the implementation (seeded) are part of the case ---- *)
Definition kz_dflt : @kzop Q := mk_kzop (fun v => v) (fun _ v => v) [] 0.
Record case_kzr := { kzr_nc : nat; kzr_Ms : list qmat; kzr_rhs : list qvec; kzr_omega : list Q; kzr_proj : pk;
                     kzr_orders : list (list nat); kzr_x : qvec; kzr_n : nat;
                     kzr_outer : list qvec; kzr_split : list qvec }.
Definition check_kzr (k : case_kzr) : bool :=
  let ops := mk_kzops (kzr_nc k) (kzr_Ms k) (kzr_rhs k) (kzr_omega k) in
  let p := proj_of (kzr_proj k) in
  let st := fun j => kz_step_ord p ops kz_dflt (nth j (kzr_orders k) []) in
  vsclose (kzr_outer k) (tracek (fun x => x) (kzr_n k) 0 st (kzr_x k))
  && splits_ok (kzr_split k) (iterk (kzr_n k) 0 st (kzr_x k)).

Definition ad_dflt : @adop Q := mk_adop (fun v => v) (fun v => v) (fun v => v) 0 None 0 0.
Record case_adr := { kdr_nc : nat; kdr_Ms : list qmat; kdr_gs : list fk; kdr_inner : list Q; kdr_keys : list nat;
                     kdr_step : Q; kdr_orders : list (list nat); kdr_x : qvec; kdr_n : nat;
                     kdr_outer : list qvec;     (* adupdates(random=True), outer callbacks *)
                     kdr_ref : list qvec }.     (* adupdates_simple(random=True) with niter = 1..n, same seed *)
Definition check_adr (k : case_adr) : bool :=
  let ops := mk_adops (kdr_nc k) (kdr_step k) (kdr_Ms k) (kdr_gs k) (kdr_inner k) (map (fun _ => None) (kdr_Ms k)) (kdr_keys k) in
  let tmps0 := map (fun _ => []) ops in
  let ord := fun j => nth j (kdr_orders k) [] in
  vsclose (kdr_outer k)
    (tracek (fun s => fst (fst s)) (kdr_n k) 0 (fun j => ad_opt_step_ord (kdr_step k) ops ad_dflt (ord j))
            (kdr_x k, ad_duals0 ops, tmps0))
  && vsclose (kdr_ref k)
       (tracek fst (kdr_n k) 0 (fun j => ad_ref_step_ord (kdr_step k) ops ad_dflt (ord j)) (kdr_x k, ad_duals0 ops)).
