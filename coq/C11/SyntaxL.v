(* C11/SyntaxL.v -- the language of C11/Syntax.v extended to the solvers that
   work on LISTS of operators: list comprehensions creating objects, a dict of
   temporaries keyed by range, inner loops over the operator index.  The
   preamble and the main loop body of adupdates, adupdates_simple, kaczmarz
   and osmlem are regenerated in this language (Gen/SolversL.v). *)
From Coq Require Import ZArith QArith String List.
From Verif Require Import C11.Syntax.
Import ListNotations.

(* how a vector object is referred to inside the loop over the operator index *)
Inductive vref :=
| RVar (x : string)                (* a plain name *)
| RIdx (l : string)                (* l[idx] : slot idx of the list l *)
| RKey (d : string) (op : string)  (* d[op[idx].range] : entry of the dict d for the range of operator idx *)
| RAt (l : string) (k : nat).      (* l[k] with a literal index *)

Inductive lvx :=
| LName (r : vref)
| LApp (f : string) (a : lvx)
| LApp2 (f : string) (p a : lvx)
| LAdd (a b : lvx) | LSub (a b : lvx) | LMul (a b : lvx) | LDiv (a b : lvx)
| LMaxc (c : sx) (a : lvx)
| LScal (c : sx) (a : lvx)
| LLin (a : sx) (x : lvx) (b : sx) (y : lvx)
| LZero (space : string)
| LJunk (x : string).

Inductive lstmt :=
| LBind (x : string) (e : lvx)       (* x = e : a new object *)
| LAlias (x : string) (r : vref)     (* x = r : another name for an existing object *)
| LWrite (r : vref) (e : lvx)        (* in-place update of the object r refers to *)
| LCallback (r : vref)
| LSetSlot (l : string) (e : lvx).   (* l[idx] = ... : rebinding a list slot (no shipped solver does it;
                                        the semantics rejects it) *)

(* preamble *)
Inductive pstmt :=
| PStmt (s : lstmt)                  (* statement outside any loop over the operators *)
| PList (l : string) (e : lvx)       (* l = [e for idx in range(n)] where e CREATES an object: n new objects *)
| PListRef (l : string) (r : vref)   (* l = [r for ...] : a list of references to existing objects (rejected) *)
| PDict (d : string) (e : lvx).      (* d = {ran: e for ran in set(ranges)} : one new object per distinct range *)

(* main loop body *)
Inductive litem :=
| IFor (body : list lstmt)           (* for idx in range(n): body *)
| IForOrd (body : list lstmt)        (* rng = np.random.permutation(range(n)); for idx in rng: body *)
| IForFrom (start : nat) (body : list lstmt)   (* for a, b in zip(A[start:], B[start:]): body *)
| IIfLast (body : list lstmt)        (* if k == niter - 1: body; return *)
| IStmt (s : lstmt).
