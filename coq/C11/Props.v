(* C11/Props.v -- property theorems only; each is closed by [exact] of a lemma
   from C11/Proofs.v and followed by Print Assumptions.

   All theorems are at the R instance of the models in C11/Model.v.  Operators,
   adjoints, proximals, gradients and projections are universally quantified
   FUNCTIONS list R -> list R (no linearity, no shape hypothesis), vectors are
   lists of any length, iteration counts are arbitrary naturals. *)
From Coq Require Import Reals List Bool String.
From Verif Require Import Base.Num Base.Vec Base.VecR C11.Model C11.Proofs.
From Verif Require Import C11.Syntax C11.Interp Gen.Solvers C11.GenProofs.
From Verif Require Import C11.SyntaxL C11.InterpL Gen.SolversL C11.SweepProofs C11.SweepDR.
Import ListNotations.
Local Open Scope R_scope.
Notation length := List.length.

(* ====================== 1. optimised solver = reference, iterate by iterate *)

(* admm_linearized vs admm_linearized_simple: the callback-observed sequences
   of x are equal for every niter, whatever tmp_dom contained initially. *)
Theorem admm_opt_refines_ref :
  forall (L Ladj proxf proxg : list R -> list R) (tau sigma : R) (m niter : nat) (junk x : list R),
  admm_opt_trace L Ladj proxf proxg tau sigma m niter junk x
  = admm_ref_trace L Ladj proxf proxg tau sigma m niter x.
Proof. exact admm_refines. Qed.
Print Assumptions admm_opt_refines_ref.

(* ... and the carried z, u agree too; tmp_ran = L(x) at every loop head. *)
Theorem admm_state_invariant :
  forall (L Ladj proxf proxg : list R -> list R) (tau sigma : R) (m niter : nat) (junk x : list R),
  let o := iter niter (admm_opt_step L Ladj proxf proxg tau sigma) (admm_opt_init L m junk x) in
  let r := iter niter (admm_ref_step L Ladj proxf proxg tau sigma) (admm_ref_init m x) in
  ao_x o = ar_x r /\ ao_z o = ar_z r /\ ao_u o = ar_u r /\ ao_tr o = L (ao_x o).
Proof. exact admm_state_refines. Qed.
Print Assumptions admm_state_invariant.

(* adupdates (fixed order) vs adupdates_simple, any number of operators, any
   sharing pattern of the temporaries tmp_rans (ad_key), any initial content of
   the temporaries: the k-th outer callback of the optimised solver is what the
   reference returns after k+1 iterations.  Premise: every range has its entry
   in tmp_rans (the dict is built from the set of all ranges). *)
Theorem adupdates_opt_refines_ref :
  forall (stepsize : R) (ops : list (@adop R)) (niter : nat) (tmps0 : list (list R)) (x : list R),
  Forall (fun o => (ad_key o < length tmps0)%nat) ops ->
  forall k, (k < niter)%nat ->
  nth k (ad_opt_trace stepsize ops niter tmps0 x) [] = ad_ref_run stepsize ops (S k) x.
Proof. exact ad_refines. Qed.
Print Assumptions adupdates_opt_refines_ref.

(* doubleprox_dc vs doubleprox_dc_simple: same (x, y) after every niter and the
   same observed x sequence. *)
Theorem doubleprox_dc_opt_refines_ref :
  forall (K Kadj proxf proxgc gradphi : list R -> list R) (gamma mu : R) (niter : nat) (s : list R * list R),
  iter niter (dpdc_opt_step K Kadj proxf proxgc gradphi gamma mu) s
  = iter niter (dpdc_ref_step K Kadj proxf proxgc gradphi gamma mu) s
  /\ trace fst niter (dpdc_opt_step K Kadj proxf proxgc gradphi gamma mu) s
     = trace fst niter (dpdc_ref_step K Kadj proxf proxgc gradphi gamma mu) s.
Proof. exact dpdc_refines. Qed.
Print Assumptions doubleprox_dc_opt_refines_ref.

(* pdhg's in-place loop body is the textbook Chambolle-Pock step (no _simple
   version is shipped; this is the analogous statement). *)
Theorem pdhg_step_is_textbook :
  forall (L Ladj proxp proxd : list R -> list R) (tau sigma theta : R) (s : pdhg_st),
  pdhg_step L Ladj proxp proxd tau sigma theta s = pdhg_ref_step L Ladj proxp proxd tau sigma theta s.
Proof. exact pdhg_step_eq. Qed.
Print Assumptions pdhg_step_is_textbook.

(* ================================================== 2. resumption is exact *)

(* Any solver whose call is "niter times the same state transformer on the
   state the caller holds": landweber (state x), kaczmarz fixed order (x),
   mlem/osmlem (x), doubleprox_dc ((x, y)), pdhg with x_relax and y passed
   back ((x, x_relax, y)).  The instances are spelled out below. *)
Theorem resume_exact_landweber :
  forall (A : list R -> list R) (Dadj : list R -> list R -> list R) (proj : list R -> list R)
         (rhs : list R) (omega : R) (n m : nat) (x : list R),
  iter (n + m) (landweber_step A Dadj proj rhs omega) x
  = iter m (landweber_step A Dadj proj rhs omega) (iter n (landweber_step A Dadj proj rhs omega) x).
Proof. exact lw_resume. Qed.
Print Assumptions resume_exact_landweber.

Theorem resume_exact_kaczmarz :
  forall (proj : list R -> list R) (ops : list (@kzop R)) (n m : nat) (x : list R),
  iter (n + m) (kz_step proj ops) x = iter m (kz_step proj ops) (iter n (kz_step proj ops) x).
Proof. exact kz_resume. Qed.
Print Assumptions resume_exact_kaczmarz.

Theorem resume_exact_osmlem :
  forall (eps : R) (ops : list (@emop R)) (n m : nat) (x : list R),
  iter (n + m) (em_step eps ops) x = iter m (em_step eps ops) (iter n (em_step eps ops) x).
Proof. exact em_resume. Qed.
Print Assumptions resume_exact_osmlem.

Theorem resume_exact_pdhg :
  forall (L Ladj proxp proxd : list R -> list R) (tau sigma theta : R) (n m : nat) (s : pdhg_st),
  iter (n + m) (pdhg_step L Ladj proxp proxd tau sigma theta) s
  = iter m (pdhg_step L Ladj proxp proxd tau sigma theta) (iter n (pdhg_step L Ladj proxp proxd tau sigma theta) s).
Proof. exact pdhg_resume. Qed.
Print Assumptions resume_exact_pdhg.

Theorem resume_exact_doubleprox_dc :
  forall (K Kadj proxf proxgc gradphi : list R -> list R) (gamma mu : R) (n m : nat) (s : list R * list R),
  iter (n + m) (dpdc_opt_step K Kadj proxf proxgc gradphi gamma mu) s
  = iter m (dpdc_opt_step K Kadj proxf proxgc gradphi gamma mu)
      (iter n (dpdc_opt_step K Kadj proxf proxgc gradphi gamma mu) s).
Proof. exact dpdc_resume. Qed.
Print Assumptions resume_exact_doubleprox_dc.

Theorem resume_exact_dca :
  forall (gradfcc gradg : list R -> list R) (n m : nat) (x : list R),
  iter (n + m) (dca_step gradfcc gradg) x = iter m (dca_step gradfcc gradg) (iter n (dca_step gradfcc gradg) x).
Proof. exact dca_resume. Qed.
Print Assumptions resume_exact_dca.
Theorem resume_exact_prox_dca :
  forall (gradg proxf : list R -> list R) (gamma : R) (n m : nat) (x : list R),
  iter (n + m) (prox_dca_step gradg proxf gamma) x
  = iter m (prox_dca_step gradg proxf gamma) (iter n (prox_dca_step gradg proxf gamma) x).
Proof. exact prox_dca_resume. Qed.
Print Assumptions resume_exact_prox_dca.

(* accelerated pdhg (gamma_primal / gamma_dual): resumption is exact when, besides x_relax and y, the
   step sizes reached by the first call are passed to the second one: (tau, sigma, x, x_relax, y) is
   the whole state (theta is recomputed before its use).  acc is the scalar update of one iteration. *)
Theorem resume_exact_pdhg_accelerated :
  forall (L Ladj : list R -> list R) (proxp proxd : R -> list R -> list R) (acc : R * R -> R * (R * R))
         (n m : nat) (ts : R * R) (st : pdhg_st),
  pdhg_acc_iter L Ladj proxp proxd acc (n + m) ts st
  = let '(ts1, st1) := pdhg_acc_iter L Ladj proxp proxd acc n ts st in
    pdhg_acc_iter L Ladj proxp proxd acc m ts1 st1.
Proof. exact pdhg_acc_resume. Qed.
Print Assumptions resume_exact_pdhg_accelerated.
(* ... and this recursive form is the counter-indexed model of gen_pdhg_accelerated_is_model *)
Theorem pdhg_accelerated_forms_agree :
  forall (L Ladj : list R -> list R) (proxp proxd : R -> list R -> list R) (acc : R * R -> R * (R * R))
         (n k0 : nat) (ts0 ts : R * R) (st : pdhg_st),
  ts = acc_steps acc k0 ts0 ->
  pdhg_acc_iter L Ladj proxp proxd acc n ts st
  = (acc_steps acc (k0 + n) ts0,
     iterk n k0 (fun k => let tk := acc_steps acc k ts0 in
                          pdhg_step L Ladj (proxp (fst tk)) (proxd (snd tk)) (fst tk) (snd tk) (fst (acc tk))) st).
Proof. exact (fun L Ladj proxp proxd acc n => pdhg_acc_iter_iterk L Ladj proxp proxd acc n). Qed.
Print Assumptions pdhg_accelerated_forms_agree.

(* steepest descent with ConstantLineSearch, tolerance test and projection: the
   second call starts with a fresh "not returned yet" flag and still ends at
   the same iterate (an early return is a fixed point). *)
Theorem resume_exact_steepest_descent :
  forall (grad proj : list R -> list R) (step tol : R) (n m : nat) (x : list R),
  fst (iter (n + m) (sd_step grad proj step tol) (x, false))
  = fst (iter m (sd_step grad proj step tol) (fst (iter n (sd_step grad proj step tol) (x, false)), false)).
Proof. exact sd_resume. Qed.
Print Assumptions resume_exact_steepest_descent.

(* proximal_gradient.  FULL STATEMENT (false of the faithful model when lam is
   a callable, because every call restarts its counter at k = 0):
     forall lam n m x, iterk (n+m) 0 (pg_step .. lam) x
                       = iterk m 0 (pg_step .. lam) (iterk n 0 (pg_step .. lam) x).
   Proved: (a) with the relaxation shifted by the iterations already done,
   (b) hence for every constant lam (the float case); refuted: (c). *)
Theorem resume_proximal_gradient_partial :
  forall (proxf gradg : list R -> list R) (gamma : R) (lam : nat -> R) (n m : nat) (x : list R),
  iterk (n + m) 0 (pg_step proxf gradg gamma lam) x
  = iterk m 0 (pg_step proxf gradg gamma (fun k => lam (n + k)%nat)) (iterk n 0 (pg_step proxf gradg gamma lam) x).
Proof. exact pg_resume. Qed.
Print Assumptions resume_proximal_gradient_partial.

Theorem resume_exact_proximal_gradient_const_lam :
  forall (proxf gradg : list R -> list R) (gamma c : R) (n m : nat) (x : list R),
  iterk (n + m) 0 (pg_step proxf gradg gamma (fun _ => c)) x
  = iterk m 0 (pg_step proxf gradg gamma (fun _ => c)) (iterk n 0 (pg_step proxf gradg gamma (fun _ => c)) x).
Proof. exact pg_resume_const. Qed.
Print Assumptions resume_exact_proximal_gradient_const_lam.

Theorem resume_proximal_gradient_callable_lam_refuted :
  exists (proxf gradg : list R -> list R) (gamma : R) (lam : nat -> R) (n m : nat) (x : list R),
  iterk (n + m) 0 (pg_step proxf gradg gamma lam) x
  <> iterk m 0 (pg_step proxf gradg gamma lam) (iterk n 0 (pg_step proxf gradg gamma lam) x).
Proof. exact pg_resume_callable_refuted. Qed.
Print Assumptions resume_proximal_gradient_callable_lam_refuted.

(* ============================ 3. callbacks: exactly one iterate per iteration *)

(* A callback at the end of the loop body (admm, pdhg, doubleprox_dc, landweber,
   proximal_gradient, kaczmarz/adupdates with callback_loop='outer', mlem): *)
Theorem callback_once :
  forall (St : Type) (obs : St -> list R) (f : St -> St) (niter : nat) (s : St),
  length (trace obs niter f s) = niter
  /\ forall k, (k < niter)%nat -> nth k (trace obs niter f s) [] = obs (iter (S k) f s).
Proof. exact callback_once_gen. Qed.
Print Assumptions callback_once.

Theorem callback_once_counter :   (* proximal_gradient: body depends on k *)
  forall (St : Type) (obs : St -> list R) (f : nat -> St -> St) (niter : nat) (s : St),
  length (tracek obs niter 0 f s) = niter
  /\ forall k, (k < niter)%nat -> nth k (tracek obs niter 0 f s) [] = obs (iterk (S k) 0 f s).
Proof. exact callback_once_counter_gen. Qed.
Print Assumptions callback_once_counter.

(* callback_loop='inner' (kaczmarz) and osmlem (callback in the subset loop):
   one call per sub-iteration, i.e. niter * len(ops) calls; for mlem (one
   operator) this is one call per iteration with the plain trace. *)
Theorem callback_kaczmarz_inner :
  forall (proj : list R -> list R) (ops : list (@kzop R)) (niter : nat) (x : list R),
  length (kz_trace_inner proj ops niter x) = (niter * length ops)%nat.
Proof. exact kz_trace_inner_length. Qed.
Print Assumptions callback_kaczmarz_inner.

Theorem callback_osmlem :
  forall (eps : R) (ops : list (@emop R)) (niter : nat) (x : list R),
  length (em_trace eps ops niter x) = (niter * length ops)%nat.
Proof. exact em_trace_length. Qed.
Print Assumptions callback_osmlem.

Theorem callback_once_mlem :
  forall (eps : R) (o : @emop R) (niter : nat) (x : list R),
  em_trace eps [o] niter x = trace (fun x => x) niter (em_step eps [o]) x.
Proof. exact mlem_trace. Qed.
Print Assumptions callback_once_mlem.

(* steepest_descent returns early without calling back: at most maxiter calls,
   exactly maxiter when the tolerance test never fires, and the k-th call
   always sees the iterate after k+1 iterations. *)
Theorem callback_steepest_descent :
  forall (grad proj : list R -> list R) (step tol : R) (maxiter : nat) (x : list R),
  (length (sd_trace grad proj step tol maxiter (x, false)) <= maxiter)%nat
  /\ (snd (iter maxiter (sd_step grad proj step tol) (x, false)) = false ->
      length (sd_trace grad proj step tol maxiter (x, false)) = maxiter)
  /\ forall k, (k < length (sd_trace grad proj step tol maxiter (x, false)))%nat ->
       nth k (sd_trace grad proj step tol maxiter (x, false)) []
       = fst (iter (S k) (sd_step grad proj step tol) (x, false)).
Proof. exact sd_callbacks. Qed.
Print Assumptions callback_steepest_descent.

(* douglas_rachford_pd calls back with p1 and, in its last iteration, copies p1
   into x and returns: niter callbacks; the k-th one is what a run with
   niter = k+1 returns in x; the last one is the returned x.  (Any number of
   operators, optional l, relaxation lam(k).) *)
Theorem callback_douglas_rachford :
  forall (proxf : list R -> list R) (tau : R) (lam : nat -> R) (ops : list (@drop R)) (niter : nat) (x : list R),
  length (dr_trace proxf tau lam ops niter 0 (dr_init ops x)) = niter
  /\ (forall k, (k < niter)%nat ->
        nth k (dr_trace proxf tau lam ops niter 0 (dr_init ops x)) [] = dr_run proxf tau lam ops (S k) x)
  /\ dr_run proxf tau lam ops niter x = last (dr_trace proxf tau lam ops niter 0 (dr_init ops x)) x.
Proof. exact dr_callbacks. Qed.
Print Assumptions callback_douglas_rachford.

(* =========== 4. the programs REGENERATED from the source (Gen/Solvers.v) ===========
   [run_prog I pre body n s0]: the heap-level interpreter (C11/Interp.v) runs the
   translated preamble and n times the translated loop body; names are bound to
   objects, "caller.x" is the caller's reference to the object passed as x.
   [mk_I scalars functions functions2 zeros junk] interprets the operator symbols
   found in the source; junk gives the content of every uninitialised buffer. *)
Local Open Scope string_scope.

(* the two generated ADMM programs: same callback log (one entry per iteration),
   same final content of the caller's x *)
Theorem gen_admm_linearized_equals_simple :
  forall (L Ladj proxf proxg : list R -> list R) (tau sigma : R) (m : nat) (junk : string -> list R)
         (niter : nat) (x : list R),
  let I := mk_I [("tau", tau); ("sigma", sigma)]
                [("L", L); ("L.adjoint", Ladj); ("f.proximal(tau)", proxf); ("g.proximal(sigma)", proxg)]
                [] [("L.range", vzero m)] junk in
  let s0 := mk_hst [("x", 0%nat); ("caller.x", 0%nat)] [x] [] in
  exists so sr,
    run_prog I admm_linearized_pre admm_linearized_body niter s0 = Some so
    /\ run_prog I admm_linearized_simple_pre admm_linearized_simple_body niter s0 = Some sr
    /\ h_log so = h_log sr /\ length (h_log so) = niter
    /\ deref so "caller.x" = deref sr "caller.x".
Proof. exact gen_admm_equiv. Qed.
Print Assumptions gen_admm_linearized_equals_simple.

(* ... and the generated optimised program computes the model of C11/Model.v *)
Theorem gen_admm_linearized_is_model :
  forall (L Ladj proxf proxg : list R -> list R) (tau sigma : R) (m : nat) (junk : string -> list R)
         (niter : nat) (x : list R),
  run_prog (admm_I L Ladj proxf proxg tau sigma m junk) admm_linearized_pre admm_linearized_body niter
           (mk_hst env_x [x] [])
  = Some (mk_hst admm_opt_env
            (admm_opt_enc (iter niter (admm_opt_step L Ladj proxf proxg tau sigma) (admm_opt_init L m (junk "tmp_dom") x)))
            (admm_opt_trace L Ladj proxf proxg tau sigma m niter (junk "tmp_dom") x)).
Proof. exact gen_admm_opt_run. Qed.
Print Assumptions gen_admm_linearized_is_model.

Theorem gen_doubleprox_dc_equals_simple :
  forall (K Kadj proxf proxgc gradphi : list R -> list R) (gamma mu : R) (junk : string -> list R)
         (niter : nat) (x y : list R),
  let I := mk_I [("gamma", gamma); ("mu", mu)]
                [("K", K); ("K.adjoint", Kadj); ("f.proximal(gamma)", proxf);
                 ("g.convex_conj.proximal(mu)", proxgc); ("phi.gradient", gradphi)] [] [] junk in
  let s0 := mk_hst [("x", 0%nat); ("caller.x", 0%nat); ("y", 1%nat); ("caller.y", 1%nat)] [x; y] [] in
  exists so sr,
    run_prog I doubleprox_dc_pre doubleprox_dc_body niter s0 = Some so
    /\ run_prog I doubleprox_dc_simple_pre doubleprox_dc_simple_body niter s0 = Some sr
    /\ deref so "caller.x" = deref sr "caller.x" /\ deref so "caller.y" = deref sr "caller.y"
    /\ length (h_log so) = niter.
Proof. exact gen_dpdc_equiv. Qed.
Print Assumptions gen_doubleprox_dc_equals_simple.

(* resumption through the caller's objects, generated doubleprox_dc *)
Theorem gen_doubleprox_dc_resume :
  forall (K Kadj proxf proxgc gradphi : list R -> list R) (gamma mu : R) (junk : string -> list R)
         (n m : nat) (x y : list R),
  let I := dpdc_I K Kadj proxf proxgc gradphi gamma mu junk in
  exists s1 s2 s12,
    run_prog I doubleprox_dc_pre doubleprox_dc_body n (mk_hst env_xy [x; y] []) = Some s1
    /\ (exists x1 y1, deref s1 "caller.x" = Some x1 /\ deref s1 "caller.y" = Some y1
        /\ run_prog I doubleprox_dc_pre doubleprox_dc_body m (mk_hst env_xy [x1; y1] []) = Some s2)
    /\ run_prog I doubleprox_dc_pre doubleprox_dc_body (n + m) (mk_hst env_xy [x; y] []) = Some s12
    /\ deref s2 "caller.x" = deref s12 "caller.x" /\ deref s2 "caller.y" = deref s12 "caller.y".
Proof. exact gen_dpdc_resume. Qed.
Print Assumptions gen_doubleprox_dc_resume.

(* generated pdhg with x_relax and y passed by the caller: after niter iterations the
   caller's three objects hold the model state, the log is the model trace *)
Theorem gen_pdhg_updates_caller_objects :
  forall (L Ladj proxp proxd : list R -> list R) (tau sigma theta : R) (m : nat) (junk : string -> list R)
         (niter : nat) (x xr y : list R),
  let I := mk_I [("tau", tau); ("sigma", sigma); ("theta", theta)]
                [("L", L); ("f.proximal(tau)", proxp); ("g.convex_conj.proximal(sigma)", proxd)]
                [("L.derivative.adjoint", fun _ => Ladj)] [("L.range", vzero m)] junk in
  let s0 := mk_hst [("x", 0%nat); ("caller.x", 0%nat); ("x_relax", 1%nat); ("caller.x_relax", 1%nat);
                    ("y", 2%nat); ("caller.y", 2%nat)] [x; xr; y] [] in
  exists s, run_prog I pdhg_pre pdhg_body niter s0 = Some s
    /\ let r := iter niter (pdhg_step L Ladj proxp proxd tau sigma theta) (mk_pdhg_st x xr y) in
       deref s "caller.x" = Some (pd_x r) /\ deref s "caller.x_relax" = Some (pd_xr r)
       /\ deref s "caller.y" = Some (pd_y r)
       /\ h_log s = trace pd_x niter (pdhg_step L Ladj proxp proxd tau sigma theta) (mk_pdhg_st x xr y).
Proof. exact gen_pdhg_caller. Qed.
Print Assumptions gen_pdhg_updates_caller_objects.

(* hence exact resumption: call with n, call again with k on the same three objects *)
Theorem gen_pdhg_resume_exact :
  forall (L Ladj proxp proxd : list R -> list R) (tau sigma theta : R) (m : nat) (junk : string -> list R)
         (n k : nat) (x xr y : list R),
  let I := pdhg_I L Ladj proxp proxd tau sigma theta m junk in
  exists s1 x1 xr1 y1 s2 s12,
    run_prog I pdhg_pre pdhg_body n (mk_hst env_pdhg_in [x; xr; y] []) = Some s1
    /\ deref s1 "caller.x" = Some x1 /\ deref s1 "caller.x_relax" = Some xr1 /\ deref s1 "caller.y" = Some y1
    /\ run_prog I pdhg_pre pdhg_body k (mk_hst env_pdhg_in [x1; xr1; y1] []) = Some s2
    /\ run_prog I pdhg_pre pdhg_body (n + k) (mk_hst env_pdhg_in [x; xr; y] []) = Some s12
    /\ deref s2 "caller.x" = deref s12 "caller.x" /\ deref s2 "caller.x_relax" = deref s12 "caller.x_relax"
    /\ deref s2 "caller.y" = deref s12 "caller.y".
Proof. exact gen_pdhg_resume. Qed.
Print Assumptions gen_pdhg_resume_exact.

(* nothing passed: x_relax = x.copy() and y = zero are fresh local objects *)
Theorem gen_pdhg_defaults_is_model :
  forall (L Ladj proxp proxd : list R -> list R) (tau sigma theta : R) (m : nat) (junk : string -> list R)
         (niter : nat) (x : list R),
  run_prog (pdhg_I L Ladj proxp proxd tau sigma theta m junk) pdhg_pre pdhg_body niter
           (mk_hst [("x", 0%nat); ("caller.x", 0%nat)] [x] [])
  = Some (mk_hst env_pdhg_none
            (pdhg_enc (iter niter (pdhg_full_step L Ladj proxp proxd tau sigma theta)
                         (pdhg_init m x None None, pdhg_junk junk)))
            (trace pd_x niter (pdhg_step L Ladj proxp proxd tau sigma theta) (pdhg_init m x None None))).
Proof. exact gen_pdhg_run_none. Qed.
Print Assumptions gen_pdhg_defaults_is_model.

(* only one of x_relax / y passed: the log is the model trace from the corresponding initial state *)
Theorem gen_pdhg_partial_defaults_is_model :
  forall (L Ladj proxp proxd : list R -> list R) (tau sigma theta : R) (m : nat) (junk : string -> list R)
         (niter : nat) (x v : list R),
  let I := pdhg_I L Ladj proxp proxd tau sigma theta m junk in
  let st := pdhg_step L Ladj proxp proxd tau sigma theta in
  (exists s, run_prog I pdhg_pre pdhg_body niter
       (mk_hst [("x", 0%nat); ("caller.x", 0%nat); ("x_relax", 1%nat); ("caller.x_relax", 1%nat)] [x; v] []) = Some s
     /\ h_log s = trace pd_x niter st (pdhg_init m x (Some v) None))
  /\ (exists s, run_prog I pdhg_pre pdhg_body niter
       (mk_hst [("x", 0%nat); ("caller.x", 0%nat); ("y", 1%nat); ("caller.y", 1%nat)] [x; v] []) = Some s
     /\ h_log s = trace pd_x niter st (pdhg_init m x None (Some v))).
Proof.
  exact (fun L Ladj proxp proxd tau sigma theta m junk niter x v =>
    conj (ex_intro _ _ (conj (gen_pdhg_run_xr L Ladj proxp proxd tau sigma theta m junk niter x v) eq_refl))
         (ex_intro _ _ (conj (gen_pdhg_run_y L Ladj proxp proxd tau sigma theta m junk niter x v) eq_refl))).
Qed.
Print Assumptions gen_pdhg_partial_defaults_is_model.

(* accelerated pdhg (gamma_primal or gamma_dual given; same vector program for both): iteration k
   uses tau k, sigma k (loop-head values) in the proximals and the updated theta (theta') in the
   relaxation; niter callbacks; the log is the trace of the model with per-iteration parameters *)
Theorem gen_pdhg_accelerated_is_model :
  forall (L Ladj : list R -> list R) (proxp proxd : nat -> list R -> list R) (tau sigma theta : nat -> R) (m : nat)
         (junk : string -> list R) (niter : nat) (x : list R),
  let I := fun k => mk_I [("tau", tau k); ("sigma", sigma k); ("theta'", theta k)]
                         [("L", L); ("f.proximal(tau)", proxp k); ("g.convex_conj.proximal(sigma)", proxd k)]
                         [("L.derivative.adjoint", fun _ => Ladj)] [("L.range", vzero m)] junk in
  (pdhg_accel_dual_body = pdhg_accel_primal_body /\ pdhg_accel_dual_pre = pdhg_pre /\ pdhg_accel_primal_pre = pdhg_pre)
  /\ exists s,
    obind (option_map canon (exec (I 0%nat) pdhg_accel_primal_pre (mk_hst [("x", 0%nat); ("caller.x", 0%nat)] [x] [])))
          (iterk_opt niter 0 (fun k => body_step (I k) pdhg_accel_primal_body)) = Some s
    /\ h_log s = tracek pd_x niter 0
                   (fun k => pdhg_step L Ladj (proxp k) (proxd k) (tau k) (sigma k) (theta k)) (pdhg_init m x None None)
    /\ length (h_log s) = niter.
Proof.
  exact (fun L Ladj proxp proxd tau sigma theta m junk niter x =>
    conj gen_pdhg_acc_same_programs (gen_pdhg_acc_run L Ladj proxp proxd tau sigma theta m junk niter x)).
Qed.
Print Assumptions gen_pdhg_accelerated_is_model.

Theorem gen_landweber_is_model :
  forall (A : list R -> list R) (Dadj : list R -> list R -> list R) (proj : list R -> list R) (omega : R)
         (junk : string -> list R) (niter : nat) (x rhs : list R),
  let I := mk_I [("omega", omega)] [("op", A); ("projection", proj)] [("op.derivative.adjoint", Dadj)] [] junk in
  exists s, run_prog I landweber_pre landweber_body niter
              (mk_hst [("x", 0%nat); ("caller.x", 0%nat); ("rhs", 1%nat)] [x; rhs] []) = Some s
    /\ deref s "caller.x" = Some (iter niter (landweber_step A Dadj proj rhs omega) x)
    /\ h_log s = trace (fun x => x) niter (landweber_step A Dadj proj rhs omega) x.
Proof. exact gen_lw_run. Qed.
Print Assumptions gen_landweber_is_model.

(* resumption of the generated landweber / steepest_descent programs through the caller's x:
   call with n, call again with m on the object the first call updated = one call with n+m
   (for steepest_descent the second call starts without the first call's `return`) *)
Theorem gen_landweber_resume_exact :
  forall (A : list R -> list R) (Dadj : list R -> list R -> list R) (proj : list R -> list R) (omega : R)
         (junk : string -> list R) (n m : nat) (x rhs : list R),
  let I := lw_I A Dadj proj omega junk in
  exists s1 x1 s2 s12,
    run_prog I landweber_pre landweber_body n (mk_hst env_lw_in [x; rhs] []) = Some s1
    /\ deref s1 "caller.x" = Some x1
    /\ run_prog I landweber_pre landweber_body m (mk_hst env_lw_in [x1; rhs] []) = Some s2
    /\ run_prog I landweber_pre landweber_body (n + m) (mk_hst env_lw_in [x; rhs] []) = Some s12
    /\ deref s2 "caller.x" = deref s12 "caller.x".
Proof. exact gen_lw_resume. Qed.
Print Assumptions gen_landweber_resume_exact.
Theorem gen_steepest_descent_resume_exact :
  forall (grad proj : list R -> list R) (step tol : R) (junk : string -> list R) (n m : nat) (x : list R),
  let I := sd_I grad proj step tol junk in
  exists s1 x1 s2 s12,
    run_prog I steepest_descent_pre steepest_descent_body n (mk_hst env_x [x] []) = Some s1
    /\ deref s1 "caller.x" = Some x1
    /\ run_prog I steepest_descent_pre steepest_descent_body m (mk_hst env_x [x1] []) = Some s2
    /\ run_prog I steepest_descent_pre steepest_descent_body (n + m) (mk_hst env_x [x] []) = Some s12
    /\ deref s2 "caller.x" = deref s12 "caller.x".
Proof. exact gen_sd_resume. Qed.
Print Assumptions gen_steepest_descent_resume_exact.

(* generated dca and prox_dca (same file as doubleprox_dc): final x and log are those of the model *)
Theorem gen_dca_prox_dca_are_models :
  forall (gradfcc gradg proxf : list R -> list R) (gamma : R) (junk : string -> list R) (niter : nat) (x : list R),
  let I := mk_I [("gamma", gamma)]
                [("f.convex_conj.gradient", gradfcc); ("g.gradient", gradg); ("f.proximal(gamma)", proxf)] [] [] junk in
  let s0 := mk_hst [("x", 0%nat); ("caller.x", 0%nat)] [x] [] in
  run_prog I dca_pre dca_body niter s0
  = Some (mk_hst [("x", 0%nat); ("caller.x", 0%nat)] [iter niter (dca_step gradfcc gradg) x]
            (trace (fun x => x) niter (dca_step gradfcc gradg) x))
  /\ run_prog I prox_dca_pre prox_dca_body niter s0
     = Some (mk_hst [("x", 0%nat); ("caller.x", 0%nat)] [iter niter (prox_dca_step gradg proxf gamma) x]
               (trace (fun x => x) niter (prox_dca_step gradg proxf gamma) x)).
Proof.
  exact (fun gradfcc gradg proxf gamma junk niter x =>
    conj (gen_dca_run gradfcc gradg proxf gamma junk niter x) (gen_prox_dca_run gradfcc gradg proxf gamma junk niter x)).
Qed.
Print Assumptions gen_dca_prox_dca_are_models.

(* generated accelerated_proximal_gradient: the scalar recursion t, alpha is a parameter (alpha k);
   y = x.copy() is a separate object; niter callbacks, log and final x are those of the model *)
Theorem gen_accelerated_proximal_gradient_is_model :
  forall (proxf gradg : list R -> list R) (gamma : R) (alpha : nat -> R) (junk : string -> list R)
         (niter : nat) (x : list R),
  let I := fun k => mk_I [("gamma", gamma); ("alpha'", alpha k)]
                         [("f.proximal(gamma)", proxf); ("g.gradient", gradg)] [] [] junk in
  exists s,
    obind (option_map canon (exec (I 0%nat) accelerated_proximal_gradient_pre
                               (mk_hst [("x", 0%nat); ("caller.x", 0%nat)] [x] [])))
          (iterk_opt niter 0 (fun k => body_step (I k) accelerated_proximal_gradient_body)) = Some s
    /\ deref s "caller.x" = Some (fst (iterk niter 0 (apg_step proxf gradg gamma alpha) (x, x)))
    /\ h_log s = tracek (@fst (list R) (list R)) niter 0 (apg_step proxf gradg gamma alpha) (x, x)
    /\ length (h_log s) = niter.
Proof. exact gen_apg_run. Qed.
Print Assumptions gen_accelerated_proximal_gradient_is_model.

(* generated steepest_descent (constant step; the `return` inside the loop): the caller's x
   and the callback log are those of the model with its "returned" flag *)
Theorem gen_steepest_descent_is_model :
  forall (grad proj : list R -> list R) (step tol : R) (junk : string -> list R) (maxiter : nat) (x : list R),
  let I := mk_I [("step", step); ("tol", tol)] [("f.gradient", grad); ("projection", proj)] [] [] junk in
  exists s, run_prog I steepest_descent_pre steepest_descent_body maxiter
              (mk_hst [("x", 0%nat); ("caller.x", 0%nat)] [x] []) = Some s
    /\ deref s "caller.x" = Some (fst (iter maxiter (sd_step grad proj step tol) (x, false)))
    /\ h_log s = sd_trace grad proj step tol maxiter (x, false).
Proof. exact gen_sd_run. Qed.
Print Assumptions gen_steepest_descent_is_model.

Theorem gen_proximal_gradient_is_model :
  forall (proxf gradg : list R -> list R) (gamma : R) (lam : nat -> R) (junk : string -> list R)
         (niter : nat) (x : list R),
  let I := fun k => mk_I [("gamma", gamma); ("lam_k", lam k)]
                         [("f.proximal(gamma)", proxf); ("g.gradient", gradg)] [] [] junk in
  exists s,
    obind (option_map canon (exec (I 0%nat) proximal_gradient_pre (mk_hst [("x", 0%nat); ("caller.x", 0%nat)] [x] [])))
          (iterk_opt niter 0 (fun k => body_step (I k) proximal_gradient_body)) = Some s
    /\ deref s "caller.x" = Some (iterk niter 0 (pg_step proxf gradg gamma lam) x)
    /\ h_log s = tracek (fun x => x) niter 0 (pg_step proxf gradg gamma lam) x.
Proof. exact gen_pg_run. Qed.
Print Assumptions gen_proximal_gradient_is_model.

(* ---- solvers over lists of operators: the regenerated per-index programs.
   One pass of the inner loop body for a generic index j (operator record o)
   leaves in x, in duals[j] and in the shared temporary exactly what the
   model's per-index step computes; duals[j] and the temporary remain two
   different objects (ids 1 and 2) holding the same value. *)
Theorem gen_adupdates_index_step :
  forall (stepsize : R) (o : @adop R) (junk : string -> list R), ad_inner_v o = None ->
  forall (x d t : list R) (log : list (list R)),
  let I := adup_I stepsize o junk in
  let p := ad_prox o (ad_arg stepsize o d x) in
  body_step I adupdates_inner2
    (mk_hst [("x", 0%nat); ("duals[j]", 1%nat); ("tmp_rans[L[j].range]", 2%nat)] [x; d; t] log)
  = Some (mk_hst [("x", 0%nat); ("duals[j]", 1%nat); ("tmp_rans[L[j].range]", 2%nat); ("arg", 3%nat); ("tmp_ran", 2%nat)]
            [adup_x1 stepsize o x d; p; p; ad_arg stepsize o d x] log)
  /\ body_step I adupdates_simple_inner2 (mk_hst [("x", 0%nat); ("duals[j]", 1%nat)] [x; d] log)
     = Some (mk_hst [("x", 0%nat); ("duals[j]", 1%nat); ("dual_tmp", 2%nat)] [adup_x1 stepsize o x d; p; p] log)
  /\ body_step I adupdates_inner1 (mk_hst [("x", 0%nat); ("duals[i]", 1%nat)] [x; d] log)
     = Some (mk_hst [("x", 0%nat); ("duals[i]", 1%nat)] [ad_pre stepsize [o] [d] x; d] log).
Proof.
  exact (fun stepsize o junk H x d t log =>
    conj (gen_adup_opt_step stepsize o junk H x d t log)
      (conj (gen_adup_ref_step stepsize o junk H x d log) (gen_adup_pre_step stepsize o junk x d log))).
Qed.
Print Assumptions gen_adupdates_index_step.

(* ... and these ARE the one-operator sweeps of the model; the outer loop body is
   [first sweep; second sweep; callback] in both versions, with the same first sweep *)
Theorem gen_adupdates_step_is_model :
  forall (stepsize : R) (o : @adop R) (x d : list R) (tmps : list (list R)),
  (ad_key o < length tmps)%nat ->
  ad_sweep_opt stepsize [o] [d] tmps x
  = (adup_x1 stepsize o x d, [ad_prox o (ad_arg stepsize o d x)],
     setnth (ad_key o) (ad_prox o (ad_arg stepsize o d x)) tmps, [adup_x1 stepsize o x d])
  /\ ad_sweep_ref stepsize [o] [d] x
     = (adup_x1 stepsize o x d, [ad_prox o (ad_arg stepsize o d x)], [adup_x1 stepsize o x d]).
Proof. exact adup_model_step. Qed.
Print Assumptions gen_adupdates_step_is_model.

Theorem gen_loop_skeletons :
  (adupdates_outer = [OFor "i" adupdates_inner1; OFor "j" adupdates_inner2; OStmt (Callback "x")]
   /\ adupdates_simple_outer = [OFor "i" adupdates_simple_inner1; OFor "j" adupdates_simple_inner2]
   /\ adupdates_inner1 = adupdates_simple_inner1)
  /\ kaczmarz_outer = [OFor "i" kaczmarz_inner1; OStmt (Callback "x")]
  /\ (osmlem_outer = [OFor "i" osmlem_inner1] /\ mlem_is_osmlem_with_one_operator = true).
Proof. exact (conj adupdates_skeleton (conj kaczmarz_skeleton osmlem_skeleton)). Qed.
Print Assumptions gen_loop_skeletons.

Theorem gen_kaczmarz_index_step :
  forall (proj : list R -> list R) (o : @kzop R) (junk : string -> list R) (x td t : list R) (log : list (list R)),
  body_step (kz_I proj o junk) kaczmarz_inner1
    (mk_hst [("x", 0%nat); ("caller.x", 0%nat); ("tmp_dom", 1%nat); ("rhs[i]", 2%nat); ("tmp_rans[ops[i].range]", 3%nat)]
            [x; td; kz_rhs o; t] log)
  = Some (mk_hst [("x", 0%nat); ("caller.x", 0%nat); ("tmp_dom", 1%nat); ("rhs[i]", 2%nat);
                  ("tmp_rans[ops[i].range]", 3%nat); ("tmp_ran", 3%nat)]
            [kz_one proj o x; kz_Dadj o x (vsub (kz_A o x) (kz_rhs o)); kz_rhs o; vsub (kz_A o x) (kz_rhs o)] log).
Proof. exact gen_kz_step. Qed.
Print Assumptions gen_kaczmarz_index_step.

Theorem gen_osmlem_index_step :
  forall (eps : R) (o : @emop R) (junk : string -> list R) (x td tr : list R) (log : list (list R)),
  body_step (em_I eps o junk) osmlem_inner1
    (mk_hst [("x", 0%nat); ("caller.x", 0%nat); ("tmp_dom", 1%nat); ("tmp_ran[i]", 2%nat); ("data[i]", 3%nat);
             ("sensitivities[i]", 4%nat)] [x; td; tr; em_data o; em_sens o] log)
  = Some (mk_hst [("x", 0%nat); ("caller.x", 0%nat); ("tmp_dom", 1%nat); ("tmp_ran[i]", 2%nat); ("data[i]", 3%nat);
                  ("sensitivities[i]", 4%nat)]
            [em_one eps o x; vdiv (em_Aadj o (vdiv (em_data o) (vmaxc eps (em_A o x)))) (em_sens o);
             vdiv (em_data o) (vmaxc eps (em_A o x)); em_data o; em_sens o] (log ++ [em_one eps o x])).
Proof. exact gen_em_step. Qed.
Print Assumptions gen_osmlem_index_step.

(* ---- other valuations of the configuration tests ---- *)
(* projection=None: the generated landweber program without the projection statement *)
Theorem gen_landweber_noproj_is_model :
  forall (A : list R -> list R) (Dadj : list R -> list R -> list R) (omega : R) (junk : string -> list R)
         (niter : nat) (x rhs : list R),
  exists s, run_prog (lw_I A Dadj (fun v => v) omega junk) landweber_noproj_pre landweber_noproj_body niter
              (mk_hst [("x", 0%nat); ("caller.x", 0%nat); ("rhs", 1%nat)] [x; rhs] []) = Some s
    /\ deref s "caller.x" = Some (iter niter (landweber_step A Dadj (fun v => v) rhs omega) x)
    /\ h_log s = trace (fun x => x) niter (landweber_step A Dadj (fun v => v) rhs omega) x.
Proof. exact gen_lw_noproj_run. Qed.
Print Assumptions gen_landweber_noproj_is_model.

Theorem gen_variants :
  (kaczmarz_noproj_outer = [OFor "i" kaczmarz_noproj_inner1; OStmt (Callback "x")]
   /\ kaczmarz_cbinner_outer = [OFor "i" kaczmarz_cbinner_inner1]
   /\ kaczmarz_cbinner_inner1 = (kaczmarz_inner1 ++ [Callback "x"])%list
   /\ adupdates_cbinner_outer = [OFor "i" adupdates_cbinner_inner1; OFor "j" adupdates_cbinner_inner2]
   /\ adupdates_cbinner_inner1 = adupdates_inner1
   /\ adupdates_cbinner_inner2 = (adupdates_inner2 ++ [Callback "x"])%list)
  /\ (forall (o : @kzop R) (junk : string -> list R) (x td t : list R) (log : list (list R)),
        body_step (kz_I (fun v => v) o junk) kaczmarz_noproj_inner1 (mk_hst kz_env [x; td; kz_rhs o; t] log)
        = Some (mk_hst (kz_env ++ [("tmp_ran", 3%nat)])%list
                  [kz_one (fun v => v) o x; kz_Dadj o x (vsub (kz_A o x) (kz_rhs o)); kz_rhs o;
                   vsub (kz_A o x) (kz_rhs o)] log))
  /\ (forall (proj : list R -> list R) (o : @kzop R) (junk : string -> list R) (x td t : list R) (log : list (list R)),
        option_map h_log (body_step (kz_I proj o junk) kaczmarz_cbinner_inner1 (mk_hst kz_env [x; td; kz_rhs o; t] log))
        = Some (log ++ [kz_one proj o x])%list)
  /\ (forall (stepsize : R) (o : @adop R) (junk : string -> list R) (x d t : list R) (log : list (list R)),
        ad_inner_v o = None ->
        option_map h_log (body_step (adup_I stepsize o junk) adupdates_cbinner_inner2
          (mk_hst [("x", 0%nat); ("duals[j]", 1%nat); ("tmp_rans[L[j].range]", 2%nat)] [x; d; t] log))
        = Some (log ++ [adup_x1 stepsize o x d])%list).
Proof. exact (conj gen_variant_shapes (conj gen_kz_noproj_step (conj gen_kz_cbinner_step gen_adup_cbinner_step))). Qed.
Print Assumptions gen_variants.

(* Bounded instance (an Example, not a property theorem): one whole outer iteration of the two
   generated adupdates programs on ONE heap with two operators whose ranges are equal, so that they
   share the single temporary "tmp#0" (list slots are names; entering the inner loop body for index j
   binds duals[j] / tmp_rans[L[j].range] to the objects in the slots and leaving it stores the
   bindings back).  All vectors and operators are symbolic.  Both programs leave in the caller's x
   and in the two dual slots what the model's ad_opt_step computes. *)
Example gen_adupdates_two_operators_shared_temporary :
  forall (stepsize : R) (o0 o1 : @adop R) (junk : string -> list R),
  ad_inner_v o0 = None -> ad_inner_v o1 = None ->
  forall x d0 d1 t : list R, ad_key o0 = 0%nat -> ad_key o1 = 0%nat ->
  let '(xf, ds, _) := ad_opt_step stepsize [o0; o1] (x, [d0; d1], [t]) in
  proj_state (run_outer stepsize o0 o1 junk (fun _ => "tmp#0") adupdates_outer (heap_shared x d0 d1 t))
  = Some (Some xf, nth_error ds 0, nth_error ds 1, [xf])
  /\ proj_state (run_outer stepsize o0 o1 junk (fun _ => "tmp#0") adupdates_simple_outer (heap_shared x d0 d1 t))
     = Some (Some xf, nth_error ds 0, nth_error ds 1, []).
Proof. exact gen_adup2_shared. Qed.
Local Close Scope string_scope.

(* =========== 5. list solvers regenerated WITH their preambles (Gen/SolversL.v) ===========
   [lrun I rkey nops nkeys pre body niter s0] (C11/InterpL.v): objects have structured identities;
   a list comprehension that creates objects yields nops NEW objects OList name j, the dict
   comprehension one NEW object ODict name k per distinct range; rkey j is the range class of
   operator j.  [s_init x]: the caller passes x.  Every number of operators, every assignment of
   operators to temporaries, every niter. *)
Local Open Scope string_scope.

(* the two regenerated adupdates programs, preambles included: niter callbacks, and the k-th
   callback of adupdates is what adupdates_simple run with niter = k+1 leaves in the caller's x *)
Theorem gen_adupdates_equals_simple_all_n :
  forall (stepsize : R) (junk : string -> list R) (dflt : @adop R) (ops : list (@adop R)),
  (forall j, (j < length ops)%nat -> ad_inner_v (nth j ops dflt) = None) ->
  forall (nkeys niter k : nat) (x : list R),
  (forall j, (j < length ops)%nat -> (ad_key (nth j ops dflt) < nkeys)%nat) -> (k < niter)%nat ->
  let I := adI stepsize junk dflt ops in let rkey := adkey dflt ops in
  exists so sr,
    lrun I rkey (length ops) nkeys adupdates_lpre adupdates_lbody niter (s_init x) = Some so
    /\ lrun I rkey (length ops) nkeys adupdates_simple_lpre adupdates_simple_lbody (S k) (s_init x) = Some sr
    /\ length (l_log so) = niter
    /\ nth_error (l_log so) k = hget (l_heap sr) (OCaller "x").
Proof. exact gen_adupdates_equiv. Qed.
Print Assumptions gen_adupdates_equals_simple_all_n.

(* ... and each of them computes the model (log = model trace, caller's x = model iterate) *)
Theorem gen_adupdates_whole_call_is_model :
  forall (stepsize : R) (junk : string -> list R) (dflt : @adop R) (ops : list (@adop R)),
  (forall j, (j < length ops)%nat -> ad_inner_v (nth j ops dflt) = None) ->
  forall (nkeys niter : nat) (x : list R),
  (forall j, (j < length ops)%nat -> (ad_key (nth j ops dflt) < nkeys)%nat) ->
  let I := adI stepsize junk dflt ops in let rkey := adkey dflt ops in
  (exists s, lrun I rkey (length ops) nkeys adupdates_lpre adupdates_lbody niter (s_init x) = Some s
     /\ l_log s = ad_opt_trace stepsize ops niter (repeat (junk "tmp_rans") nkeys) x
     /\ hget (l_heap s) (OCaller "x")
        = Some (fst (fst (iter niter (ad_opt_step stepsize ops) (x, ad_duals0 ops, repeat (junk "tmp_rans") nkeys)))))
  /\ (exists s, lrun I rkey (length ops) nkeys adupdates_simple_lpre adupdates_simple_lbody niter (s_init x) = Some s
     /\ l_log s = [] /\ hget (l_heap s) (OCaller "x") = Some (ad_ref_run stepsize ops niter x)).
Proof.
  exact (fun stepsize junk dflt ops Hs nkeys niter x Hk =>
    conj (gen_adupdates_run stepsize junk dflt ops Hs nkeys niter x Hk)
         (gen_adupdates_simple_run stepsize junk dflt ops Hs nkeys niter x)).
Qed.
Print Assumptions gen_adupdates_whole_call_is_model.

(* kaczmarz (fixed order), preamble included: the caller passes x and the list rhs; tmp_rans gets one
   new object per range class, tmp_dom is a new object; the log is the model trace and the caller's x
   the model iterate -- for every number of operators and every sharing pattern rkey *)
Theorem gen_kaczmarz_whole_call_is_model :
  forall (proj : list R -> list R) (junk : string -> list R) (dflt : @kzop R) (ops : list (@kzop R))
         (rkey : nat -> nat) (nkeys : nat),
  (forall j, (j < length ops)%nat -> (rkey j < nkeys)%nat) ->
  forall (niter : nat) (x : list R),
  exists s, lrun (kzI proj junk dflt ops) rkey (length ops) nkeys kaczmarz_lpre kaczmarz_lbody niter
              (kz_init dflt ops x) = Some s
    /\ l_log s = trace (fun x => x) niter (kz_step proj ops) x
    /\ hget (l_heap s) (OCaller "x") = Some (iter niter (kz_step proj ops) x).
Proof. exact gen_kaczmarz_run. Qed.
Print Assumptions gen_kaczmarz_whole_call_is_model.

(* osmlem with default sensitivities, preamble included (data copied into new objects, sensitivities
   computed, one new temporary per operator): one callback per sub-iteration *)
Theorem gen_osmlem_whole_call_is_model :
  forall (eps : R) (junk : string -> list R) (dflt : @emop R) (ops : list (@emop R)) (mdim : nat -> nat),
  (forall j, (j < length ops)%nat ->
     em_sens (nth j ops dflt) = em_default_sens eps (em_Aadj (nth j ops dflt)) (mdim j)) ->
  forall (niter : nat) (x : list R),
  exists s, lrun (emI eps junk dflt ops mdim) (fun _ => 0%nat) (length ops) 0 osmlem_lpre osmlem_lbody niter
              (em_init dflt ops x) = Some s
    /\ l_log s = em_trace eps ops niter x
    /\ hget (l_heap s) (OCaller "x") = Some (iter niter (em_step eps ops) x).
Proof. exact gen_osmlem_run. Qed.
Print Assumptions gen_osmlem_whole_call_is_model.

(* ---- random=True: the permutation drawn in outer iteration k is a parameter  order k  (any list of
   operator indices); both programs are run under the same stream of permutations ---- *)
Theorem adupdates_random_opt_refines_ref :
  forall (stepsize : R) (ops : list (@adop R)) (dflt : @adop R) (order : nat -> list nat),
  (forall k j, In j (order k) -> (j < length ops)%nat) ->
  forall (n k0 : nat) (x : list R) (duals tmps : list (list R)),
  (forall j, (j < length ops)%nat -> (ad_key (nth j ops dflt) < length tmps)%nat) ->
  fst (iterk n k0 (fun k => ad_opt_step_ord stepsize ops dflt (order k)) (x, duals, tmps))
  = iterk n k0 (fun k => ad_ref_step_ord stepsize ops dflt (order k)) (x, duals).
Proof. exact ad_ord_refines. Qed.
Print Assumptions adupdates_random_opt_refines_ref.

Theorem resume_exact_kaczmarz_random :     (* the second call continues the permutation stream *)
  forall (proj : list R -> list R) (ops : list (@kzop R)) (dflt : @kzop R) (order : nat -> list nat) (n m : nat) (x : list R),
  iterk (n + m) 0 (fun k => kz_step_ord proj ops dflt (order k)) x
  = iterk m 0 (fun k => kz_step_ord proj ops dflt (order (n + k)%nat))
      (iterk n 0 (fun k => kz_step_ord proj ops dflt (order k)) x).
Proof. exact kz_ord_resume. Qed.
Print Assumptions resume_exact_kaczmarz_random.

(* the regenerated random-order programs (preambles included), every number of operators *)
Theorem gen_adupdates_random_equals_simple_all_n :
  forall (stepsize : R) (junk : string -> list R) (dflt : @adop R) (ops : list (@adop R)),
  (forall j, (j < length ops)%nat -> ad_inner_v (nth j ops dflt) = None) ->
  forall (order : nat -> list nat), (forall k j, In j (order k) -> (j < length ops)%nat) ->
  forall (nkeys niter : nat) (x : list R),
  (forall j, (j < length ops)%nat -> (ad_key (nth j ops dflt) < nkeys)%nat) ->
  let I := adI stepsize junk dflt ops in let rkey := adkey dflt ops in
  exists s0 s0' so sr,
    pexec I rkey (length ops) nkeys adupdates_random_lpre (s_init x) = Some s0
    /\ literk niter 0 (fun k => litems_ord I rkey (length ops) (order k) adupdates_random_lbody) s0 = Some so
    /\ pexec I rkey (length ops) nkeys adupdates_simple_random_lpre (s_init x) = Some s0'
    /\ literk niter 0 (fun k => litems_ord I rkey (length ops) (order k) adupdates_simple_random_lbody) s0' = Some sr
    /\ length (l_log so) = niter
    /\ hget (l_heap so) (OCaller "x") = hget (l_heap sr) (OCaller "x").
Proof. exact gen_adupdates_random_equiv. Qed.
Print Assumptions gen_adupdates_random_equals_simple_all_n.

Theorem gen_kaczmarz_random_whole_call_is_model :
  forall (proj : list R -> list R) (junk : string -> list R) (dflt : @kzop R) (ops : list (@kzop R))
         (rkey : nat -> nat) (nkeys : nat),
  (forall j, (j < length ops)%nat -> (rkey j < nkeys)%nat) ->
  forall (order : nat -> list nat), (forall k j, In j (order k) -> (j < length ops)%nat) ->
  forall (niter : nat) (x : list R),
  let I := kzI proj junk dflt ops in
  exists s0 s, pexec I rkey (length ops) nkeys kaczmarz_random_lpre (kz_init dflt ops x) = Some s0
    /\ literk niter 0 (fun k => litems_ord I rkey (length ops) (order k) kaczmarz_random_lbody) s0 = Some s
    /\ l_log s = tracek (fun x => x) niter 0 (fun k => kz_step_ord proj ops dflt (order k)) x
    /\ hget (l_heap s) (OCaller "x") = Some (iterk niter 0 (fun k => kz_step_ord proj ops dflt (order k)) x).
Proof. exact gen_kaczmarz_random_run. Qed.
Print Assumptions gen_kaczmarz_random_whole_call_is_model.

(* douglas_rachford_pd regenerated with its preamble (>= 1 operators, l = None, niter >= 1): v, p2, w2
   are lists of NEW zero objects, z2 one new object per range class, p1, z1, w1 new objects; the main
   loop runs niter - 1 full iterations and a last one that returns after x.assign(p1) (dr_gen_loop).
   The callback log is the model trace and the caller's x ends as the model's returned iterate, for
   every number of operators and every relaxation sequence lam. *)
Theorem gen_douglas_rachford_whole_call_is_model :
  forall (proxf : list R -> list R) (tau : R) (lam : nat -> R) (junk : string -> list R) (dflt : @drop R) (xdim : nat)
         (ops : list (@drop R)),
  (forall j, (j < length ops)%nat -> dr_proxl (nth j ops dflt) = None) ->
  forall (rkey : nat -> nat) (nkeys : nat), (forall j, (j < length ops)%nat -> (rkey j < nkeys)%nat) ->
  (1 <= length ops)%nat ->
  forall (niter : nat) (x : list R), (1 <= niter)%nat ->
  exists s0 s,
    pexec (drI proxf tau lam junk dflt xdim ops 0) rkey (length ops) nkeys douglas_rachford_pd_lpre (s_init x) = Some s0
    /\ dr_gen_loop proxf tau lam junk dflt xdim ops rkey niter 0 s0 = Some s
    /\ l_log s = dr_trace proxf tau lam ops niter 0 (dr_init ops x)
    /\ hget (l_heap s) (OCaller "x") = Some (dr_run proxf tau lam ops niter x).
Proof. exact gen_dr_run. Qed.
Print Assumptions gen_douglas_rachford_whole_call_is_model.
Local Close Scope string_scope.

(* ------------------------------------------------------------ non-vacuity *)
(* the premise of adupdates_opt_refines_ref is satisfiable: two operators
   sharing one temporary *)
Example adupdates_premise_satisfiable :
  let o := mk_adop (fun v : list R => v) (fun v => v) (fun v => v) 1 None 1 0 in
  Forall (fun o => (ad_key o < length [[0]])%nat) [o; o].
Proof. cbn. repeat constructor. Qed.
