(* C11/Props.v -- property theorems only. *)
From Coq Require Import Reals List Bool.
From Verif Require Import Base.Num Base.Vec Base.VecR C11.Model C11.Proofs.
Import ListNotations.

Theorem resume_generic : forall (St : Type) (f : St -> St) (n m : nat) (s : St),
  iter (n + m) f s = iter m f (iter n f s).
Proof. exact @iter_add. Qed.
Print Assumptions resume_generic.
