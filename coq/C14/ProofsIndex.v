(* C14/ProofsIndex.v -- RectPartition.index: point location (searchsorted + edge rules). *)
From Coq Require Import ZArith QArith Reals Lra Lia List Bool.
From Verif Require Import Base.Num Base.Vec C14.Model C14.Proofs.
Import ListNotations.
Local Open Scope R_scope.

(* ---------- searchsorted(left) as "number of leading entries < x" ---------- *)
Lemma count_lt_le_length x (b : Rvec) : (count_lt x b <= length b)%nat.
Proof.
  induction b as [|a b IH]; cbn [count_lt length]; [lia|].
  destruct (nltb a x); lia.
Qed.
Lemma count_lt_lt x (b : Rvec) j : (j < count_lt x b)%nat -> nthR j b < x.
Proof.
  revert j; induction b as [|a b IH]; intros j Hj; cbn [count_lt] in Hj; [lia|].
  destruct (nltb a x) eqn:E; [|lia]. apply ltb_true in E.
  destruct j as [|j]; [exact E|]. cbn [nth]. apply IH. lia.
Qed.
Lemma count_lt_ge x (b : Rvec) : (count_lt x b < length b)%nat -> x <= nthR (count_lt x b) b.
Proof.
  induction b as [|a b IH]; cbn [count_lt length]; intros Hl; [lia|].
  destruct (nltb a x) eqn:E.
  - cbn [nth]. apply IH. lia.
  - apply ltb_false in E. exact E.
Qed.
(* on a strictly increasing vector the count at an entry is its position *)
Lemma count_lt_at (b : Rvec) j : sincr b -> (j < length b)%nat -> count_lt (nthR j b) b = j.
Proof.
  revert j; induction b as [|a b IH]; intros j Hs Hj; cbn [length] in Hj; [lia|].
  destruct j as [|j]; cbn [nth count_lt].
  - replace (nltb a a) with false; [reflexivity|]. symmetry. apply ltb_false. lra.
  - replace (nltb a (nthR j b)) with true.
    + f_equal. apply IH; [eapply sincr_tail; eassumption | lia].
    + symmetry. apply ltb_true.
      exact (sincr_nth (a :: b) 0 (S j) Hs ltac:(lia) ltac:(cbn [length]; lia)).
Qed.

(* the (integer) index returned for x, as a natural number *)
Definition cell_of (ax : Raxis) (x : R) : nat :=
  let b := bdry_vec ax in
  let ind := count_lt x b in
  if (neqb (nth0 ind b) x) && negb (ind =? length b - 1)%nat then ind else (ind - 1)%nat.

Section Index.
Variable ax : Raxis.
Variable x : R.
Hypothesis Hv : valid ax.
Hypothesis Hlo : a_lo ax <= x.
Hypothesis Hhi : x <= a_hi ax.
Let b := bdry_vec ax.
Let n := length (a_cs ax).
Let ind := count_lt x b.

Lemma ind_le_n : (ind <= n)%nat.
Proof.
  destruct (Nat.le_gt_cases ind n) as [H|H]; [exact H|].
  pose proof (count_lt_lt x b n H) as Hc. unfold b, n in Hc.
  rewrite bdry_nth_last in Hc by apply Hv. lra.
Qed.
Lemma ind_zero_edge : ind = 0%nat -> nthR 0 b = x.
Proof.
  intros E. pose proof (count_lt_ge x b) as Hc. fold ind in Hc. rewrite E in Hc.
  unfold b in *. rewrite bdry_length in Hc by apply Hv. specialize (Hc ltac:(lia)).
  rewrite bdry_nth_0 in *. lra.
Qed.
Lemma n_pos : (1 <= n)%nat.
Proof. apply Hv. Qed.
Lemma blen : length b = S n.
Proof. apply bdry_length, Hv. Qed.

Lemma index_axis_nat : index_axis ax x = Z.of_nat (cell_of ax x).
Proof.
  unfold index_axis, cell_of. fold b. fold ind.
  destruct (neqb (nth0 ind b) x && negb (ind =? length b - 1)%nat) eqn:E; [reflexivity|].
  destruct (Nat.eq_dec ind 0) as [E0|E0]; [|lia].
  exfalso. pose proof (ind_zero_edge E0) as He. rewrite E0 in E.
  unfold nth0 in E. apply andb_false_iff in E. destruct E as [E|E].
  - apply eqb_false in E. auto.
  - rewrite blen in E. pose proof n_pos. apply negb_false_iff, Nat.eqb_eq in E. lia.
Qed.

Lemma cell_of_spec : (cell_of ax x < n)%nat /\
  nthR (cell_of ax x) b <= x <= nthR (S (cell_of ax x)) b.
Proof.
  unfold cell_of. fold b. fold ind. rewrite blen. replace (S n - 1)%nat with n by lia.
  pose proof ind_le_n as Hle. pose proof n_pos as Hn.
  destruct (neqb (nth0 ind b) x && negb (ind =? n)%nat) eqn:E.
  - apply andb_true_iff in E. destruct E as [E1 E2]. apply eqb_true in E1. unfold nth0 in E1. numR.
    apply negb_true_iff, Nat.eqb_neq in E2. split; [lia|]. split; [lra|].
    rewrite <- E1. apply bdry_step_weak; [exact Hv | fold n; lia].
  - destruct (Nat.eq_dec ind 0) as [E0|E0].
    + exfalso. pose proof (ind_zero_edge E0) as He. rewrite E0 in E.
      unfold nth0 in E. apply andb_false_iff in E. destruct E as [E|E].
      * apply eqb_false in E. auto.
      * apply negb_false_iff, Nat.eqb_eq in E. lia.
    + split; [lia|]. split.
      * left. apply count_lt_lt. fold ind. lia.
      * replace (S (ind - 1)) with ind by lia. apply count_lt_ge. fold ind. rewrite blen. lia.
Qed.

(* floating index: position inside the cell as a fraction of the cell width *)
Lemma findex_spec :
  let k := cell_of ax x in let f := findex_axis ax x in
  nthR k b + (f - INR k) * (nthR (S k) b - nthR k b) = x /\ INR k <= f <= INR k + 1.
Proof.
  cbv zeta. unfold cell_of, findex_axis. fold b. fold ind. rewrite blen.
  replace (S n - 1)%nat with n by lia.
  pose proof ind_le_n as Hle. pose proof n_pos as Hn. unfold nth0, of_nat. numR.
  rewrite <- !INR_IZR_INZ.
  destruct (Reqb_spec (nthR ind b) x) as [E1|E1]; cbn [andb].
  - destruct (Nat.eqb_spec ind n) as [E2|E2]; cbn [negb].
    + assert (1 <= ind)%nat by lia. replace (S (ind - 1)) with ind by lia.
      rewrite minus_INR by lia. cbn [INR]. split; [rewrite E1; ring | lra].
    + split; [rewrite E1; ring | lra].
  - destruct (Nat.eq_dec ind 0) as [E0|E0].
    { exfalso. apply E1. rewrite E0. apply ind_zero_edge. exact E0. }
    replace (S (ind - 1)) with ind by lia.
    assert (Hl : nthR (ind - 1) b < x) by (apply count_lt_lt; fold ind; lia).
    assert (Hr : x <= nthR ind b) by (apply count_lt_ge; fold ind; rewrite blen; lia).
    assert (Hr' : x < nthR ind b) by lra.
    rewrite minus_INR by lia. cbn [INR].
    set (u := nthR ind b) in *. set (l := nthR (ind - 1) b) in *.
    assert (Hd : u - l > 0) by lra. split.
    + field. lra.
    + assert (0 <= (u - x) / (u - l) <= 1).
      { split; [apply Rmult_le_pos; [lra | left; apply Rinv_0_lt_compat; lra]|].
        apply Rmult_le_reg_r with (u - l); [lra|]. unfold Rdiv. rewrite Rmult_assoc, Rinv_l by lra. lra. }
      lra.
Qed.

(* tie rule: on an edge -> the cell to the right, except at the last edge *)
Lemma cell_of_edge j : sincr b -> (j <= n)%nat -> x = nthR j b ->
  cell_of ax x = if (j =? n)%nat then (n - 1)%nat else j.
Proof.
  intros Hs Hj ->. unfold cell_of. fold b. rewrite count_lt_at by (auto; rewrite blen; lia).
  rewrite blen. replace (S n - 1)%nat with n by lia. unfold nth0.
  replace (neqb (nthR j b) (nthR j b)) with true by (symmetry; apply eqb_true; reflexivity).
  cbn [andb]. destruct (j =? n)%nat eqn:Ej; cbn [negb]; [|reflexivity].
  apply Nat.eqb_eq in Ej. rewrite Ej. reflexivity.
Qed.
(* strictly inside a cell -> that cell *)
Lemma cell_of_interior j : sincr b -> (j < n)%nat -> nthR j b < x < nthR (S j) b ->
  cell_of ax x = j.
Proof.
  intros Hs Hj [H1 H2]. destruct cell_of_spec as [Hk [Hk1 Hk2]].
  set (k := cell_of ax x) in *.
  destruct (Nat.lt_trichotomy k j) as [Hlt|[Heq|Hgt]]; [|exact Heq|].
  - exfalso. assert (nthR (S k) b <= nthR j b).
    { destruct (Nat.eq_dec (S k) j) as [->|Hne]; [lra|].
      left. apply sincr_nth; auto; [lia | rewrite blen; lia]. }
    lra.
  - exfalso. assert (nthR (S j) b <= nthR k b).
    { destruct (Nat.eq_dec (S j) k) as [->|Hne]; [lra|].
      left. apply sincr_nth; auto; [lia | rewrite blen; lia]. }
    lra.
Qed.
End Index.

Lemma index_axis_spec (ax : Raxis) (x : R) : valid ax -> a_lo ax <= x -> x <= a_hi ax ->
  index_axis ax x = Z.of_nat (cell_of ax x) /\
  (cell_of ax x < length (a_cs ax))%nat /\
  nthR (cell_of ax x) (bdry_vec ax) <= x <= nthR (S (cell_of ax x)) (bdry_vec ax).
Proof.
  intros Hv Hlo Hhi. split; [apply index_axis_nat; assumption|].
  apply cell_of_spec; assumption.
Qed.

(* N-d: index() checks membership in the set first (TypeError), then works axis by axis *)
Lemma in_set_spec (p : list Raxis) (x : Rvec) :
  in_set p x = true <-> Forall2 (fun ax v => a_lo ax <= v <= a_hi ax) p x.
Proof.
  revert x; induction p as [|ax p IH]; intros [|v x]; cbn [in_set]; split; intros Hh;
    try discriminate; try constructor; try (inversion Hh; fail).
  - apply andb_true_iff in Hh. destruct Hh as [Hh _]. apply andb_true_iff in Hh.
    destruct Hh as [H1 H2]. apply leb_true in H1. apply leb_true in H2. lra.
  - apply andb_true_iff in Hh. destruct Hh as [_ Hh]. apply IH. exact Hh.
  - inversion Hh as [|? ? ? ? [H1 H2] H3]; subst. apply andb_true_iff. split.
    + apply andb_true_iff. split; apply leb_true; assumption.
    + apply IH. exact H3.
Qed.
Lemma index_nd (p : list Raxis) (x : Rvec) :
  (in_set p x = true -> index p x = Ok (map2 index_axis p x) /\ findex p x = Ok (map2 findex_axis p x)) /\
  (in_set p x = false -> index p x = TypeErr /\ findex p x = TypeErr).
Proof. unfold index, findex. split; intros ->; split; reflexivity. Qed.
Lemma cell_of_interior_all (ax : Raxis) (x : R) (j : nat) :
  valid ax -> a_lo ax <= x -> x <= a_hi ax -> sincr (bdry_vec ax) ->
  (j < length (a_cs ax))%nat -> nthR j (bdry_vec ax) < x < nthR (S j) (bdry_vec ax) ->
  cell_of ax x = j.
Proof. intros. apply cell_of_interior; assumption. Qed.
Lemma cell_of_edge_all (ax : Raxis) (x : R) (j : nat) :
  valid ax -> sincr (bdry_vec ax) -> (j <= length (a_cs ax))%nat -> x = nthR j (bdry_vec ax) ->
  cell_of ax x = if (j =? length (a_cs ax))%nat then (length (a_cs ax) - 1)%nat else j.
Proof.
  intros Hv Hs Hj Hx. pose proof (bdry_length ax (v_ne ax Hv)) as Hl.
  apply cell_of_edge; auto; rewrite Hx.
  - rewrite <- (bdry_nth_0 ax). destruct j as [|j]; [lra|].
    left. apply sincr_nth; auto; lia.
  - rewrite <- (bdry_nth_last ax (v_ne ax Hv)).
    destruct (Nat.eq_dec j (length (a_cs ax))) as [->|Hne]; [lra|].
    left. apply sincr_nth; auto; lia.
Qed.
