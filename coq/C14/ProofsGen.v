(* C14/ProofsGen.v -- the hand-written model (C14/Model.v) is built from the formulas that
   translate/partition.py REGENERATES from /repo on every run (Gen/Partition.v):
   a changed offset, denominator, side or comparison in the source changes the generated
   definition and breaks one of these proofs. *)
From Coq Require Import ZArith QArith Reals Lra Lia List Bool.
From Verif Require Import Base.Num Base.Vec Gen.Partition C14.Model C14.Proofs C14.ProofsUniform.
Import ListNotations.
Local Open Scope R_scope.

(* ---- uniform_grid_fromintv: the four gmin/gmax formulas (any carrier) ---- *)
Lemma ugrid_limits_is_generated {T} `{Num T} (n : Z) (xmin xmax : T) (fl : bool * bool) :
  ugrid_limits n xmin xmax fl = gen_ugrid_limits n xmin xmax (fst fl) (snd fl).
Proof. destruct fl as [[|] [|]]; reflexivity. Qed.

(* ---- uniform_partition: completion formulas ---- *)
Lemma of_Q_R (c : Q) : @of_Q R _ c = IZR (Qnum c) / IZR (Zpos (Qden c)).
Proof. reflexivity. Qed.
Lemma nb_half_is_generated (fl : bool * bool) :
  @nb_half R _ fl = (of_Z (b2z (fst fl) + b2z (snd fl)) / of_Q (2 # 1))%num.
Proof.
  unfold nb_half. rewrite of_Q_R. numR'. cbn [Qnum Qden].
  destruct fl as [[|] [|]]; cbn [fst snd]; unfold b2z; simpl Z.add; lra.
Qed.
Lemma complete_axis_is_generated (rnd : R -> Z) (oxmin oxmax : option R) (on : option Z) (odx : option R)
  (fl : bool * bool) :
  complete_axis rnd oxmin oxmax on odx fl =
  match oxmin, oxmax, on, odx with
  | None, Some xmax, Some n, Some dx => Ok (gen_complete_min 0 xmax n dx (fst fl) (snd fl), xmax, n)
  | Some xmin, None, Some n, Some dx => Ok (xmin, gen_complete_max xmin 0 n dx (fst fl) (snd fl), n)
  | Some xmin, Some xmax, None, Some dx =>
      let n_calc := gen_n_calc xmin xmax 0%Z dx (fst fl) (snd fl) in
      if neqb (of_Z (rnd n_calc)) n_calc then Ok (xmin, xmax, rnd n_calc) else ValueErr
  | Some xmin, Some xmax, Some n, None => Ok (xmin, xmax, n)
  | Some xmin, Some xmax, Some n, Some dx =>
      if neqb xmax (gen_xmax_calc xmin xmax n dx (fst fl) (snd fl)) then Ok (xmin, xmax, n) else ValueErr
  | _, _, _, _ => ValueErr
  end.
Proof.
  unfold complete_axis, gen_complete_min, gen_complete_max, gen_n_calc, gen_xmax_calc.
  rewrite nb_half_is_generated.
  destruct oxmin, oxmax, on, odx; reflexivity.
Qed.

(* ---- boundary_cell_fractions ---- *)
Lemma bdry_fracs_is_generated (ax : Raxis) : (2 <= length (a_cs ax))%nat ->
  bdry_fracs ax = (gen_left_frac (a_cs ax) (a_lo ax) (a_hi ax), gen_right_frac (a_cs ax) (a_lo ax) (a_hi ax)).
Proof.
  intros Hn. rewrite bdry_fracs_two by exact Hn. rewrite last_gap_eq by exact Hn.
  unfold gen_left_frac, gen_right_frac. rewrite !of_Q_R. numR. cbn [Qnum Qden]. reflexivity.
Qed.
Lemma bdry_fracs_single_is_generated (lo hi c : R) :
  fst (bdry_fracs (mkAxis lo hi [c])) = fst (@gen_frac_single R _) /\
  snd (bdry_fracs (mkAxis lo hi [c])) = snd (@gen_frac_single R _).
Proof. unfold bdry_fracs, gen_frac_single. cbn [a_cs fst snd]. rewrite !of_Q_R. numR. cbn [Qnum Qden]. split; lra. Qed.

(* ---- cell boundaries: midpoint rule and the two ends ---- *)
Lemma bdry_vec_is_generated (ax : Raxis) : (1 <= length (a_cs ax))%nat ->
  nthR 0 (bdry_vec ax) = gen_bdry_first (a_lo ax) (a_hi ax) /\
  nthR (length (a_cs ax)) (bdry_vec ax) = gen_bdry_last (a_lo ax) (a_hi ax) /\
  forall i, (S i < length (a_cs ax))%nat -> nthR (1 + i) (bdry_vec ax) = gen_bdry_mid (a_cs ax) i.
Proof.
  intros Hn. split; [reflexivity|]. split; [apply bdry_nth_last; exact Hn|].
  intros i Hi. rewrite bdry_nth_mid by lia. unfold gen_bdry_mid. rewrite of_Q_R. numR. cbn [Qnum Qden].
  replace (1 + i - 1)%nat with (0 + i)%nat by lia. lra.
Qed.

(* ---- RectPartition.index: edge rules after searchsorted (any carrier) ---- *)
Lemma index_axis_is_generated {T} `{Num T} (ax : axis T) (x : T) :
  index_axis ax x = gen_index (bdry_vec ax) (Z.of_nat (count_lt x (bdry_vec ax))) x.
Proof.
  unfold index_axis, gen_index, nth0. rewrite Nat2Z.id.
  set (b := bdry_vec ax). set (k := count_lt x b).
  assert (Hl : (1 <= length b)%nat) by (unfold b, bdry_vec; cbn [length]; lia).
  replace (Z.of_nat k =? Z.of_nat (length b) - 1)%Z with (k =? length b - 1)%nat; [reflexivity|].
  destruct (Nat.eqb_spec k (length b - 1)) as [E|E]; symmetry; [apply Z.eqb_eq|apply Z.eqb_neq]; lia.
Qed.
Lemma findex_axis_is_generated {T} `{Num T} (ax : axis T) (x : T) :
  findex_axis ax x = gen_findex (bdry_vec ax) (Z.of_nat (count_lt x (bdry_vec ax))) x.
Proof.
  unfold findex_axis, gen_findex, nth0, of_nat. rewrite Nat2Z.id.
  replace (Z.to_nat (Z.of_nat (count_lt x (bdry_vec ax)) - 1)) with (count_lt x (bdry_vec ax) - 1)%nat by lia.
  reflexivity.
Qed.

(* ---- normalized_index_expression: wrap, bounds test, int -> slice ---- *)
Lemma norm_ints_is_generated (its : bool) (i n : Z) (l : list item) (sh : list Z) :
  norm_ints its (IInt i :: l) (n :: sh) =
  if gen_out_of_bounds (gen_wrap i n) n then IndexErr
  else bind (norm_ints its l sh) (fun r =>
         Ok ((if its then ISlice (Some (fst (gen_int_slice (gen_wrap i n))))
                                 (Some (snd (gen_int_slice (gen_wrap i n)))) None
              else IInt i) :: r)).
Proof. reflexivity. Qed.
