(* C14/ProofsByaxis.v -- byaxis[...]: the code indexes the unselected axes with 0, the
   selected ones with a full slice, and squeezes the unselected (now one-point) axes away.
   Result: exactly the selected axes, unchanged. *)
From Coq Require Import ZArith QArith Reals Lra Lia List Bool.
From Verif Require Import Base.Num Base.Vec C14.Model C14.Proofs C14.ProofsIndex C14.ProofsSlice
  C14.ProofsNd C14.ProofsAxes.
Import ListNotations.
Local Open Scope R_scope.

(* a full slice returns the axis itself *)
Lemma slice_adjust_full (n : Z) : (0 <= n)%Z -> slice_adjust n (None, None, None) = Some (0%Z, n, 1%Z).
Proof. intros Hn. reflexivity. Qed.
Lemma full_slice_id (ax : Raxis) : valid ax -> sub_ax ax 0 (zlen (a_cs ax)) 1 = ax.
Proof.
  intros Hv. pose proof (v_ne ax Hv) as Hn.
  assert (H0 : (0 <= 0)%Z) by lia. assert (H1 : (0 < zlen (a_cs ax))%Z) by (unfold zlen; lia).
  assert (H2 : (zlen (a_cs ax) <= zlen (a_cs ax))%Z) by lia.
  destruct (getitem_axis_unit ax 0 (zlen (a_cs ax)) Hv H0 H1 H2) as (Hl & Hc & _).
  assert (Hcs : a_cs (sub_ax ax 0 (zlen (a_cs ax)) 1) = a_cs ax).
  { apply (nth_ext _ _ 0 0).
    - rewrite Hl. unfold zlen. lia.
    - intros j Hj. rewrite Hl in Hj. rewrite (Hc j Hj). reflexivity. }
  destruct ax as [lo hi cs]. unfold sub_ax in *. cbn [a_cs a_lo a_hi] in *. rewrite Hcs.
  change (Z.to_nat 0) with 0%nat. rewrite (bdry_nth_0 (mkAxis lo hi cs)). cbn [a_lo]. f_equal.
  unfold zlen. rewrite Nat2Z.id. apply (bdry_nth_last (mkAxis lo hi cs)). exact Hn.
Qed.

Section Byaxis.
Variable sel : list Z.

Fixpoint mk_slc (i : Z) (p : list Raxis) : list item :=
  match p with
  | [] => []
  | _ :: p' => (if zmem i sel then full_slice else IInt 0) :: mk_slc (i + 1) p'
  end.
Fixpoint pick (i : Z) (p : list Raxis) : list Raxis :=
  match p with
  | [] => []
  | ax :: p' => if zmem i sel then ax :: pick (i + 1) p' else pick (i + 1) p'
  end.
Fixpoint cut (i : Z) (p : list Raxis) : list Raxis :=
  match p with
  | [] => []
  | ax :: p' => (if zmem i sel then ax else sub_ax ax 0 1 1) :: cut (i + 1) p'
  end.

Lemma slc_is_mk_slc (p : list Raxis) (k : nat) :
  map (fun j => if zmem (Z.of_nat j) sel then full_slice else IInt 0) (seq k (length p)) = mk_slc (Z.of_nat k) p.
Proof.
  revert k; induction p as [|ax p IH]; intros k; [reflexivity|].
  cbn [length seq map mk_slc]. f_equal. rewrite IH. f_equal. lia.
Qed.

Lemma byaxis_items (i : Z) (p : list Raxis) : Forall valid p ->
  Forall2 int_ok (mk_slc i p) (shape_of p) /\
  Forall2 good_item p (map2 to_slice (mk_slc i p) (shape_of p)) /\
  empty_slice_check (map2 to_slice (mk_slc i p) (shape_of p)) (shape_of p) = false /\
  map2 sub_item p (map2 to_slice (mk_slc i p) (shape_of p)) = cut i p.
Proof.
  intros Hv. revert i; induction Hv as [|ax p Hax Hp IH]; intros i.
  - repeat split; constructor.
  - destruct (IH (i + 1)%Z) as (I1 & I2 & I3 & I4). pose proof (v_ne ax Hax) as Hn.
    assert (Hz : (1 <= zlen (a_cs ax))%Z) by (unfold zlen; lia).
    cbn [mk_slc shape_of map map2 empty_slice_check]. fold (shape_of p).
    destruct (zmem i sel) eqn:Ez.
    + (* selected: full slice *)
      split; [constructor; [exact I|exact I1]|].
      cbn [to_slice full_slice]. split; [constructor; [|exact I2]|].
      { exists None, None, None, 0%Z, (zlen (a_cs ax)), 1%Z. repeat split; try lia. }
      split.
      { cbn [full_slice oz_eqb andb orb]. exact I3. }
      cbn [cut]. rewrite Ez. unfold full_slice. cbn [sub_item]. rewrite slice_adjust_full by lia.
      rewrite full_slice_id by exact Hax. f_equal. exact I4.
    + (* not selected: integer 0 -> cell 0 *)
      split; [constructor; [cbn [int_ok]; lia|exact I1]|].
      cbn [to_slice]. change (0 <? 0)%Z with false. cbv iota. change (0 + 1)%Z with 1%Z.
      split; [constructor; [|exact I2]|].
      { exists (Some 0%Z), (Some 1%Z), None, 0%Z, 1%Z, 1%Z. repeat split; try lia.
        apply (slice_adjust_cell (zlen (a_cs ax)) 0). lia. }
      split.
      { cbn [oz_eqb andb orb]. change (0 =? 1)%Z with false. cbn [andb orb].
        replace (0 =? zlen (a_cs ax))%Z with false by (symmetry; apply Z.eqb_neq; lia). cbn [orb]. exact I3. }
      cbn [cut]. rewrite Ez. cbn [sub_item].
      pose proof (slice_adjust_cell (zlen (a_cs ax)) 0 ltac:(lia)) as Hsa. change (0 + 1)%Z with 1%Z in Hsa.
      unfold oz in *. rewrite Hsa. f_equal. exact I4.
Qed.

Lemma cut_length i p : length (cut i p) = length p.
Proof. revert i; induction p as [|ax p IH]; intros i; [reflexivity|]. cbn [cut length]. rewrite IH. reflexivity. Qed.
Lemma cut_degenerate (ax : Raxis) : valid ax -> nondegen (sub_ax ax 0 1 1) = false.
Proof.
  intros Hv. unfold nondegen. pose proof (v_ne ax Hv) as Hn.
  destruct (getitem_axis_unit ax 0 1 Hv ltac:(lia) ltac:(lia) ltac:(unfold zlen; lia)) as (Hl & _ & _).
  rewrite Hl. reflexivity.
Qed.
(* squeezing exactly the unselected positions of [cut] leaves the selected axes *)
Lemma keep_cut (sq : list Z) (i : Z) (p : list Raxis) : Forall valid p ->
  (forall j, (i <= j < i + zlen p)%Z -> zmem j sq = negb (zmem j sel)) ->
  keep_axes sq i (cut i p) = pick i p.
Proof.
  intros Hv. revert i; induction Hv as [|ax p Hax Hp IH]; intros i Hsq; [reflexivity|].
  cbn [cut keep_axes pick]. rewrite (Hsq i) by (unfold zlen; cbn [length]; lia).
  rewrite IH by (intros j Hj; apply Hsq; unfold zlen in *; cbn [length]; lia).
  destruct (zmem i sel); cbn [negb orb]; [reflexivity|].
  rewrite cut_degenerate by exact Hax. reflexivity.
Qed.
End Byaxis.

Lemma zmem_filter_seq (sel : list Z) (nd : nat) (j : Z) : (0 <= j < Z.of_nat nd)%Z ->
  zmem j (filter (fun i => negb (zmem i sel)) (map Z.of_nat (seq 0 nd))) = negb (zmem j sel).
Proof.
  intros Hj. destruct (zmem j sel) eqn:E; cbn [negb].
  - unfold zmem at 1. apply not_true_is_false. intros Hex. apply existsb_exists in Hex.
    destruct Hex as (x & Hin & Hx). apply Z.eqb_eq in Hx. subst x. apply filter_In in Hin.
    destruct Hin as [_ Hin]. rewrite E in Hin. discriminate.
  - unfold zmem at 1. apply existsb_exists. exists j. split; [|apply Z.eqb_refl].
    apply filter_In. split; [|rewrite E; reflexivity].
    apply in_map_iff. exists (Z.to_nat j). split; [lia|]. apply in_seq. lia.
Qed.
Lemma fancy_idx_id (n : Z) (l : list Z) : (forall j, In j l -> (0 <= j < n)%Z) -> fancy_idx n l = Ok l.
Proof.
  induction l as [|j l IH]; intros Hin; [reflexivity|]. unfold fancy_idx in *. cbn [mapM].
  pose proof (Hin j (or_introl eq_refl)) as Hj.
  replace ((- n <=? j)%Z && (j <? n)%Z) with true by (symmetry; apply andb_true_iff; split; [apply Z.leb_le|apply Z.ltb_lt]; lia).
  replace (j <? 0)%Z with false by (symmetry; apply Z.ltb_ge; lia). cbn [bind].
  rewrite IH by (intros; apply Hin; right; assumption). reflexivity.
Qed.

(* byaxis with any set of selected positions *)
Lemma byaxis_sel_spec (p : list Raxis) (sel : list Z) : Forall valid p ->
  byaxis_sel p sel = Ok (pick sel 0 p).
Proof.
  intros Hv. unfold byaxis_sel. rewrite (slc_is_mk_slc sel p 0). cbn [Z.of_nat].
  destruct (byaxis_items sel 0 p Hv) as (H1 & H2 & H3 & H4).
  destruct (getitem_after_norm p (ETuple (mk_slc sel 0 p)) _ (norm_index_full _ _ H1 H3) Hv H2 H3) as [Hg _].
  rewrite Hg, H4. cbn [bind]. unfold squeeze, axsel_range.
  assert (Hzl : zlen (cut sel 0 p) = Z.of_nat (length p)) by (unfold zlen; rewrite cut_length; reflexivity).
  rewrite fancy_idx_id.
  - cbn [bind]. f_equal. apply keep_cut; [exact Hv|]. intros j Hj. apply zmem_filter_seq. unfold zlen in Hj. lia.
  - intros j Hin. apply filter_In in Hin. destruct Hin as [Hin _]. apply in_map_iff in Hin.
    destruct Hin as (k & <- & Hk). apply in_seq in Hk. rewrite Hzl. lia.
Qed.

(* byaxis[i] for one in-range integer: the partition consisting of axis i *)
Lemma pick_single (i : Z) (k : Z) (p : list Raxis) : (k <= i < k + zlen p)%Z ->
  pick [i] k p = [nth (Z.to_nat (i - k)) p (mkAxis 0 0 [])].
Proof.
  revert k; induction p as [|ax p IH]; intros k Hi; [unfold zlen in Hi; cbn [length] in Hi; lia|].
  cbn [pick]. unfold zmem at 1. cbn [existsb]. rewrite orb_false_r.
  destruct (Z.eqb_spec k i) as [->|Hne].
  - replace (Z.to_nat (i - i)) with 0%nat by lia. cbn [nth]. f_equal.
    assert (Hnone : forall q j, (i < j)%Z -> pick [i] j q = []).
    { induction q as [|a q IHq]; intros j Hj; [reflexivity|]. cbn [pick]. unfold zmem. cbn [existsb].
      replace (j =? i)%Z with false by (symmetry; apply Z.eqb_neq; lia). cbn [orb]. apply IHq. lia. }
    apply Hnone. lia.
  - rewrite IH by (unfold zlen in *; cbn [length] in Hi; lia).
    replace (Z.to_nat (i - k)) with (S (Z.to_nat (i - (k + 1)))) by lia. reflexivity.
Qed.
Lemma byaxis_int_spec (p : list Raxis) (i : Z) : Forall valid p ->
  (- zlen p <= i < zlen p)%Z ->
  byaxis1 p (AxInt i) = Ok [nth (Z.to_nat (if (i <? 0)%Z then i + zlen p else i)) p (mkAxis 0 0 [])].
Proof.
  intros Hv Hi. unfold byaxis1, axsel_range, fancy_idx. cbn [mapM].
  replace ((- zlen p <=? i)%Z && (i <? zlen p)%Z) with true
    by (symmetry; apply andb_true_iff; split; [apply Z.leb_le|apply Z.ltb_lt]; lia).
  cbn [bind]. rewrite byaxis_sel_spec by exact Hv. f_equal.
  rewrite pick_single by (destruct (i <? 0)%Z eqn:E; [apply Z.ltb_lt in E|apply Z.ltb_ge in E]; lia).
  rewrite Z.sub_0_r. reflexivity.
Qed.
Lemma byaxis_int_out_of_range (p : list Raxis) (i : Z) :
  (i < - zlen p \/ zlen p <= i)%Z -> byaxis1 p (AxInt i) = IndexErr.
Proof.
  intros Hi. unfold byaxis1, axsel_range, fancy_idx. cbn [mapM].
  replace ((- zlen p <=? i)%Z && (i <? zlen p)%Z) with false; [reflexivity|].
  symmetry. apply andb_false_iff. destruct Hi; [left; apply Z.leb_gt|right; apply Z.ltb_ge]; lia.
Qed.

(* byaxis[[i1, ..., ik]]: the selected axes stacked in the given order (repetitions allowed) *)
Definition axis_at (p : list Raxis) (i : Z) : Raxis :=
  nth (Z.to_nat (if (i <? 0)%Z then i + zlen p else i)) p (mkAxis 0 0 []).
Lemma byaxis_seq_spec (p : list Raxis) (l : list Z) : Forall valid p ->
  (forall i, In i l -> (- zlen p <= i < zlen p)%Z) ->
  byaxis_seq p l = Ok (map (axis_at p) l).
Proof.
  intros Hv Hin. unfold byaxis_seq.
  assert (E : mapM (fun i => byaxis1 p (AxInt i)) l = Ok (map (fun i => [axis_at p i]) l)).
  { induction l as [|i l IH]; [reflexivity|]. cbn [mapM map].
    rewrite byaxis_int_spec by (auto; apply Hin; left; reflexivity). cbn [bind].
    rewrite IH by (intros; apply Hin; right; assumption). reflexivity. }
  rewrite E. cbn [bind]. destruct l as [|i l]; [reflexivity|]. cbn [map].
  rewrite append_spec. f_equal. cbn [app]. f_equal.
  clear E Hin. induction l as [|j l IH]; [reflexivity|]. cbn [map concat app]. f_equal. apply IH.
Qed.
