(* C14/Transfer.v -- the partition model executed at Q by the correspondence shards is the
   rational restriction of the model the theorems are about: Q2R commutes with every
   executable function of C14/Model.v (under the guards where the code itself does not
   divide by zero). *)
From Coq Require Import ZArith QArith Qreals Reals Lra Lqa Lia List Bool.
From Verif Require Import Base.Num Base.Transfer C14.Model.
Import ListNotations.

Notation QR := (map Q2R).
Definition axR (ax : axis Q) : axis R := mkAxis (Q2R (a_lo ax)) (Q2R (a_hi ax)) (QR (a_cs ax)).
Definition resmap {A B} (f : A -> B) (r : res A) : res B :=
  match r with Ok a => Ok (f a) | ValueErr => ValueErr | IndexErr => IndexErr | TypeErr => TypeErr end.

(* ---------- constants and small helpers ---------- *)
Lemma two_nz : ~ (@ntwo Q _ == 0)%Q.
Proof. unfold ntwo. cbn [of_Z Num_Q]. intros H. unfold Qeq, inject_Z in H. cbn in H. discriminate. Qed.
Lemma Q2R_ntwo : Q2R ntwo = ntwo.
Proof. unfold ntwo. apply Q2R_of_Z. Qed.
Lemma Q2R_half (a : Q) : Q2R (ndiv a ntwo) = ndiv (Q2R a) ntwo.
Proof. rewrite Q2R_ndiv by apply two_nz. rewrite Q2R_ntwo. reflexivity. Qed.
Lemma Q2R_nhalf : Q2R nhalf = nhalf.
Proof.
  unfold nhalf. rewrite Q2R_ndiv, !Q2R_of_Z; [reflexivity|].
  cbn [of_Z Num_Q]. intros H. unfold Qeq, inject_Z in H. cbn in H. discriminate.
Qed.
Lemma Q2R_hd0 (l : list Q) : Q2R (hd0 l) = hd0 (QR l).
Proof. destruct l; [apply Q2R_nzero | reflexivity]. Qed.
Lemma Q2R_last0 (l : list Q) : Q2R (last0 l) = last0 (QR l).
Proof.
  unfold last0. induction l as [|a [|b r] IH]; [apply Q2R_nzero | reflexivity |].
  change (last (a :: b :: r) nzero) with (last (b :: r) nzero).
  change (QR (a :: b :: r)) with (Q2R a :: QR (b :: r)).
  change (last (Q2R a :: QR (b :: r)) nzero) with (last (QR (b :: r)) nzero). exact IH.
Qed.
Lemma Q2R_nth0 (i : nat) (l : list Q) : Q2R (nth0 i l) = nth0 i (QR l).
Proof. unfold nth0. apply Q2R_nth. Qed.
Lemma Q2R_of_nat (n : nat) : Q2R (of_nat n) = of_nat n.
Proof. unfold of_nat. apply Q2R_of_Z. Qed.
Lemma lt_sub_nz (a b : Q) : nltb a b = true -> ~ (nsub b a == 0)%Q.
Proof.
  cbn [nltb nsub Num_Q]. intros H Hz. apply negb_true_iff in H. rewrite Qred_correct in Hz.
  assert (Hle : (b <= a)%Q) by lra. apply Qle_bool_iff in Hle. congruence.
Qed.

(* ---------- cell boundaries, sizes ---------- *)
Lemma mids_transfer (cs : list Q) : QR (mids cs) = mids (QR cs).
Proof.
  induction cs as [|a [|b r] IH]; try reflexivity.
  change (mids (a :: b :: r)) with (ndiv (nadd b a) ntwo :: mids (b :: r)).
  change (QR (a :: b :: r)) with (Q2R a :: Q2R b :: QR r).
  change (mids (Q2R a :: Q2R b :: QR r)) with (ndiv (nadd (Q2R b) (Q2R a)) ntwo :: mids (Q2R b :: QR r)).
  cbn [map]. rewrite Q2R_half, Q2R_nadd. f_equal. exact IH.
Qed.
Lemma bdry_vec_transfer (ax : axis Q) : QR (bdry_vec ax) = bdry_vec (axR ax).
Proof.
  unfold bdry_vec, axR. cbn [a_lo a_hi a_cs map]. rewrite map_app, mids_transfer. reflexivity.
Qed.
Lemma inner_sizes_transfer (cs : list Q) : QR (inner_sizes cs) = inner_sizes (QR cs).
Proof.
  induction cs as [|a [|b [|c r]] IH]; try reflexivity.
  change (inner_sizes (a :: b :: c :: r)) with (ndiv (nsub c a) ntwo :: inner_sizes (b :: c :: r)).
  change (QR (a :: b :: c :: r)) with (Q2R a :: Q2R b :: Q2R c :: QR r).
  change (inner_sizes (Q2R a :: Q2R b :: Q2R c :: QR r))
    with (ndiv (nsub (Q2R c) (Q2R a)) ntwo :: inner_sizes (Q2R b :: Q2R c :: QR r)).
  cbn [map]. rewrite Q2R_half, Q2R_nsub. f_equal. exact IH.
Qed.
Lemma last_size_transfer (hi : Q) (cs : list Q) : Q2R (last_size hi cs) = last_size (Q2R hi) (QR cs).
Proof.
  induction cs as [|a [|b [|c r]] IH]; try apply Q2R_nzero.
  - cbn [last_size map]. rewrite Q2R_nsub, Q2R_half, Q2R_nadd. reflexivity.
  - change (last_size hi (a :: b :: c :: r)) with (last_size hi (b :: c :: r)).
    change (QR (a :: b :: c :: r)) with (Q2R a :: QR (b :: c :: r)).
    change (last_size (Q2R hi) (Q2R a :: QR (b :: c :: r))) with (last_size (Q2R hi) (QR (b :: c :: r))).
    exact IH.
Qed.
Lemma cell_sizes_transfer (ax : axis Q) : QR (cell_sizes ax) = cell_sizes (axR ax).
Proof.
  unfold cell_sizes, axR. cbn [a_lo a_hi a_cs]. destruct (a_cs ax) as [|c0 [|c1 r]] eqn:E.
  - reflexivity.
  - cbn [map]. rewrite Q2R_nzero. reflexivity.
  - change (QR (c0 :: c1 :: r)) with (Q2R c0 :: Q2R c1 :: QR r). cbv iota.
    change (Q2R c0 :: Q2R c1 :: QR r) with (QR (c0 :: c1 :: r)).
    cbn [map]. rewrite map_app. cbn [map].
    rewrite Q2R_nsub, Q2R_half, Q2R_nadd, last_size_transfer.
    change (Q2R c0 :: Q2R c1 :: QR r) with (QR (c0 :: c1 :: r)). rewrite inner_sizes_transfer. reflexivity.
Qed.

(* ---------- constructor checks ---------- *)
Lemma strict_incr_transfer (cs : list Q) : strict_incr cs = strict_incr (QR cs).
Proof.
  induction cs as [|a [|b r] IH]; try reflexivity.
  change (strict_incr (a :: b :: r)) with (nltb a b && strict_incr (b :: r)).
  change (strict_incr (QR (a :: b :: r))) with (nltb (Q2R a) (Q2R b) && strict_incr (QR (b :: r))).
  rewrite Q2R_nltb, IH. reflexivity.
Qed.
Lemma grid_ok_transfer (cs : list Q) : grid_ok cs = grid_ok (QR cs).
Proof. unfold grid_ok. destruct cs as [|a r]; [reflexivity|]. cbn [map]. apply (strict_incr_transfer (a :: r)). Qed.
Lemma axis_ok_transfer (ax : axis Q) : axis_ok ax = axis_ok (axR ax).
Proof.
  unfold axis_ok, axR. cbn [a_lo a_hi a_cs].
  rewrite !Q2R_nleb, grid_ok_transfer, Q2R_hd0, Q2R_last0. reflexivity.
Qed.
Lemma mk_part_transfer (p : list (axis Q)) : mk_part (map axR p) = resmap (map axR) (mk_part p).
Proof.
  unfold mk_part.
  assert (E : forallb axis_ok (map axR p) = forallb axis_ok p).
  { induction p as [|ax p IH]; [reflexivity|]. cbn [forallb map]. rewrite IH, <- axis_ok_transfer. reflexivity. }
  rewrite E. destruct (forallb axis_ok p); reflexivity.
Qed.

(* ---------- nodes on the boundary, fractions ---------- *)
Lemma nodes_on_bdry_transfer (ax : axis Q) : nodes_on_bdry ax = nodes_on_bdry (axR ax).
Proof.
  unfold nodes_on_bdry, axR. cbn [a_lo a_hi a_cs]. rewrite !Q2R_neqb, Q2R_hd0, Q2R_last0. reflexivity.
Qed.
Lemma last_gap_transfer (cs : list Q) : Q2R (last_gap cs) = last_gap (QR cs).
Proof.
  induction cs as [|a [|b [|c r]] IH]; try apply Q2R_nzero.
  - cbn [last_gap map]. apply Q2R_nsub.
  - change (last_gap (a :: b :: c :: r)) with (last_gap (b :: c :: r)).
    change (QR (a :: b :: c :: r)) with (Q2R a :: QR (b :: c :: r)).
    change (last_gap (Q2R a :: QR (b :: c :: r))) with (last_gap (QR (b :: c :: r))). exact IH.
Qed.
Lemma last_gap_nz (cs : list Q) : strict_incr cs = true -> (2 <= length cs)%nat -> ~ (last_gap cs == 0)%Q.
Proof.
  induction cs as [|a [|b [|c r]] IH]; intros Hs Hl; cbn [length] in Hl; try lia.
  - cbn [last_gap]. apply lt_sub_nz. cbn [strict_incr] in Hs. apply andb_prop in Hs. apply Hs.
  - change (last_gap (a :: b :: c :: r)) with (last_gap (b :: c :: r)). apply IH; [|cbn [length]; lia].
    change (strict_incr (a :: b :: c :: r)) with (nltb a b && strict_incr (b :: c :: r)) in Hs.
    apply andb_prop in Hs. apply Hs.
Qed.
Lemma bdry_fracs_transfer (ax : axis Q) : strict_incr (a_cs ax) = true ->
  (Q2R (fst (bdry_fracs ax)), Q2R (snd (bdry_fracs ax))) = bdry_fracs (axR ax).
Proof.
  intros Hs. unfold bdry_fracs, axR. cbn [a_lo a_hi a_cs]. destruct (a_cs ax) as [|c0 [|c1 r]] eqn:E.
  - cbn [fst snd map]. rewrite Q2R_none. reflexivity.
  - cbn [fst snd map]. rewrite Q2R_none. reflexivity.
  - change (QR (c0 :: c1 :: r)) with (Q2R c0 :: Q2R c1 :: QR r). cbv iota. cbn [fst snd].
    change (Q2R c0 :: Q2R c1 :: QR r) with (QR (c0 :: c1 :: r)).
    assert (H01 : nltb c0 c1 = true).
    { change (strict_incr (c0 :: c1 :: r)) with (nltb c0 c1 && strict_incr (c1 :: r)) in Hs.
      apply andb_prop in Hs. apply Hs. }
    rewrite !Q2R_nadd, Q2R_nhalf, Q2R_ndiv by (apply lt_sub_nz; exact H01).
    rewrite Q2R_ndiv by (apply last_gap_nz; [exact Hs | cbn [length]; lia]).
    rewrite !Q2R_nsub, Q2R_last0, last_gap_transfer. reflexivity.
Qed.

(* ---------- stride / cell_sides ---------- *)
Lemma diffs_transfer (cs : list Q) : QR (diffs cs) = diffs (QR cs).
Proof.
  induction cs as [|a [|b r] IH]; try reflexivity.
  change (diffs (a :: b :: r)) with (nsub b a :: diffs (b :: r)).
  change (QR (a :: b :: r)) with (Q2R a :: Q2R b :: QR r).
  change (diffs (Q2R a :: Q2R b :: QR r)) with (nsub (Q2R b) (Q2R a) :: diffs (Q2R b :: QR r)).
  cbn [map]. rewrite Q2R_nsub. f_equal. exact IH.
Qed.
Lemma is_uniform_transfer (cs : list Q) : is_uniform cs = is_uniform (QR cs).
Proof.
  unfold is_uniform. rewrite <- diffs_transfer. destruct (diffs cs) as [|d r]; [reflexivity|].
  cbn [map]. induction r as [|e r IH]; [reflexivity|]. cbn [map forallb]. rewrite IH, Q2R_neqb. reflexivity.
Qed.
Lemma len_minus_one_nz (n : nat) : (2 <= n)%nat -> ~ (nsub (@of_nat Q _ n) none_ == 0)%Q.
Proof.
  intros Hn. unfold of_nat. cbn [nsub none_ of_Z Num_Q]. rewrite Qred_correct.
  intros Hz. assert (E : (inject_Z (Z.of_nat n) == 1)%Q) by lra.
  unfold Qeq, inject_Z in E. cbn in E. lia.
Qed.
Lemma stride_transfer (cs : list Q) : option_map Q2R (stride cs) = stride (QR cs).
Proof.
  unfold stride. rewrite <- is_uniform_transfer. destruct (is_uniform cs); [|reflexivity].
  cbn [option_map]. f_equal. destruct cs as [|a [|b r]]; try apply Q2R_nzero.
  change (QR (a :: b :: r)) with (Q2R a :: Q2R b :: QR r). cbv iota.
  change (Q2R a :: Q2R b :: QR r) with (QR (a :: b :: r)).
  rewrite Q2R_ndiv by (apply len_minus_one_nz; cbn [length]; lia).
  rewrite !Q2R_nsub, Q2R_last0, Q2R_hd0, Q2R_of_nat, Q2R_none, map_length. reflexivity.
Qed.
Lemma cell_side_transfer (ax : axis Q) : option_map Q2R (cell_side ax) = cell_side (axR ax).
Proof.
  unfold cell_side, axR. cbn [a_lo a_hi a_cs]. rewrite <- stride_transfer.
  destruct (stride (a_cs ax)) as [s|]; [|reflexivity]. cbn [option_map]. f_equal.
  rewrite <- Q2R_nzero at 1. rewrite <- Q2R_neqb. destruct (neqb s nzero); [apply Q2R_nsub | reflexivity].
Qed.

(* ---------- index ---------- *)
Lemma count_lt_transfer (x : Q) (l : list Q) : count_lt x l = count_lt (Q2R x) (QR l).
Proof.
  induction l as [|b r IH]; [reflexivity|]. cbn [count_lt map]. rewrite <- Q2R_nltb, IH. reflexivity.
Qed.
Lemma index_axis_transfer (ax : axis Q) (x : Q) : index_axis ax x = index_axis (axR ax) (Q2R x).
Proof.
  unfold index_axis. rewrite <- bdry_vec_transfer, <- count_lt_transfer, map_length.
  rewrite <- Q2R_nth0, <- Q2R_neqb. reflexivity.
Qed.
(* the division in the floating variant is by the width of the cell found *)
Lemma findex_axis_transfer (ax : axis Q) (x : Q) :
  let b := bdry_vec ax in let ind := count_lt x b in
  ~ (nsub (nth0 ind b) (nth0 (ind - 1) b) == 0)%Q ->
  Q2R (findex_axis ax x) = findex_axis (axR ax) (Q2R x).
Proof.
  cbv zeta. intros Hnz. unfold findex_axis. rewrite <- bdry_vec_transfer, <- count_lt_transfer.
  rewrite <- !Q2R_nth0, <- Q2R_neqb.
  destruct (neqb (nth0 (count_lt x (bdry_vec ax)) (bdry_vec ax)) x); [apply Q2R_of_nat|].
  rewrite Q2R_nsub, Q2R_ndiv by exact Hnz. rewrite !Q2R_nsub, Q2R_of_nat. reflexivity.
Qed.
Lemma in_set_transfer (p : list (axis Q)) (x : list Q) : in_set p x = in_set (map axR p) (QR x).
Proof.
  revert x; induction p as [|ax p IH]; intros [|v x]; try reflexivity.
  cbn [in_set map]. unfold axR at 1 2. cbn [a_lo a_hi]. rewrite <- !Q2R_nleb, IH. reflexivity.
Qed.
Lemma index_transfer (p : list (axis Q)) (x : list Q) : index p x = index (map axR p) (QR x).
Proof.
  unfold index. rewrite <- in_set_transfer. destruct (in_set p x); [|reflexivity]. f_equal.
  revert x; induction p as [|ax p IH]; intros [|v x]; try reflexivity.
  cbn [map2 map]. rewrite index_axis_transfer, IH. reflexivity.
Qed.

(* ---------- __getitem__ per axis ---------- *)
Lemma take_idx_transfer (l : list Q) (idxs : list Z) : QR (take_idx l idxs) = take_idx (QR l) idxs.
Proof.
  unfold take_idx. induction idxs as [|i idxs IH]; [reflexivity|]. cbn [flat_map].
  rewrite map_app, IH. f_equal. rewrite nth_error_map. destruct (nth_error l (Z.to_nat i)); reflexivity.
Qed.
Lemma sub_limits_transfer (ax : axis Q) (it : item) :
  resmap (fun ab => (Q2R (fst ab), Q2R (snd ab))) (sub_limits ax it) = sub_limits (axR ax) it.
Proof.
  unfold sub_limits. destruct it as [i|a b c| |]; try reflexivity.
  unfold axR at 1. cbn [a_cs]. unfold zlen. rewrite map_length.
  destruct (slice_idx (Z.of_nat (length (a_cs ax))) (a, b, None)) as [[|i0 r]|]; try reflexivity.
  cbn [resmap fst snd]. rewrite <- bdry_vec_transfer, !Q2R_nth0. reflexivity.
Qed.
Lemma sub_axis_transfer (ax : axis Q) (it : item) (lim : Q * Q) :
  resmap axR (sub_axis ax it lim) = sub_axis (axR ax) it (Q2R (fst lim), Q2R (snd lim)).
Proof.
  unfold sub_axis. destruct it as [i|a b c| |]; try reflexivity.
  unfold axR at 2. cbn [a_cs]. unfold zlen. rewrite map_length.
  destruct (slice_idx (Z.of_nat (length (a_cs ax))) (a, b, c)) as [idxs|]; [|reflexivity].
  cbn [resmap fst snd]. unfold axR. cbn [a_lo a_hi a_cs]. rewrite take_idx_transfer. reflexivity.
Qed.

(* ---------- uniform grids ---------- *)
Lemma of_Z_nz (z : Z) : z <> 0%Z -> ~ (@of_Z Q _ z == 0)%Q.
Proof. intros Hz H. cbn [of_Z Num_Q] in H. unfold Qeq, inject_Z in H. cbn in H. lia. Qed.
Lemma ugrid_limits_transfer (n : Z) (xmin xmax : Q) (fl : bool * bool) : (1 <= n)%Z ->
  (Q2R (fst (ugrid_limits n xmin xmax fl)), Q2R (snd (ugrid_limits n xmin xmax fl)))
  = ugrid_limits n (Q2R xmin) (Q2R xmax) fl.
Proof.
  intros Hn. unfold ugrid_limits. destruct fl as [[|] [|]]; cbn [fst snd];
    rewrite ?Q2R_nadd, ?Q2R_nsub, ?Q2R_ndiv by (apply of_Z_nz; lia);
    rewrite ?Q2R_nsub, ?Q2R_of_Z; reflexivity.
Qed.
Lemma linspace_transfer (a b : Q) (n : nat) : QR (linspace a b n) = linspace (Q2R a) (Q2R b) n.
Proof.
  unfold linspace. destruct n as [|[|n]]; try reflexivity.
  rewrite map_map. apply map_ext. intros i.
  rewrite Q2R_nadd, Q2R_nmul, Q2R_ndiv by (apply len_minus_one_nz; lia).
  rewrite !Q2R_nsub, !Q2R_of_nat, Q2R_none. reflexivity.
Qed.
Lemma ugrid_axis_transfer (n : Z) (xmin xmax : Q) (fl : bool * bool) : (1 <= n)%Z ->
  QR (ugrid_axis n xmin xmax fl) = ugrid_axis n (Q2R xmin) (Q2R xmax) fl.
Proof.
  intros Hn. unfold ugrid_axis. rewrite <- (ugrid_limits_transfer n xmin xmax fl Hn).
  destruct (ugrid_limits n xmin xmax fl) as [gmin gmax]. cbn [fst snd].
  destruct (n <? 0)%Z; [reflexivity | apply linspace_transfer].
Qed.

(* ---------- default limits of nonuniform_partition / uniform_partition_fromgrid ---------- *)
Lemma nonuniform_axis_transfer (cs : list Q) (omin omax : option Q) (fl : bool * bool) :
  resmap axR (nonuniform_axis cs omin omax fl) =
  nonuniform_axis (QR cs) (option_map Q2R omin) (option_map Q2R omax) fl.
Proof.
  unfold nonuniform_axis.
  assert (Hone : match QR cs with [_] => true | _ => false end = match cs with [_] => true | _ => false end)
    by (destruct cs as [|a [|b r]]; reflexivity).
  rewrite Hone.
  destruct omin as [lo|], omax as [hi|], fl as [[|] [|]]; cbn [option_map resmap]; try reflexivity;
    unfold axR; cbn [a_lo a_hi a_cs]; f_equal; f_equal;
    repeat match goal with |- context [if ?c then _ else _] => destruct c end;
    rewrite ?Q2R_nadd, ?Q2R_nsub, ?Q2R_half, ?Q2R_nsub, ?Q2R_hd0, ?Q2R_last0, ?Q2R_nth0, ?last_gap_transfer;
    reflexivity.
Qed.
Lemma fromgrid_axis_transfer (cs : list Q) (omin omax : option Q) :
  resmap axR (fromgrid_axis cs omin omax) = fromgrid_axis (QR cs) (option_map Q2R omin) (option_map Q2R omax).
Proof.
  unfold fromgrid_axis.
  destruct omin as [lo|], omax as [hi|]; cbn [option_map bind]; destruct cs as [|c0 [|c1 r]];
    cbn [map bind resmap]; try reflexivity; unfold axR; cbn [a_lo a_hi a_cs map]; f_equal; f_equal;
    rewrite ?Q2R_nadd, ?Q2R_nsub, ?Q2R_half, ?Q2R_nsub;
    try (change (Q2R c0 :: Q2R c1 :: QR r) with (QR (c0 :: c1 :: r)); rewrite <- ?Q2R_last0, <- ?last_gap_transfer);
    reflexivity.
Qed.

(* ---------- uniform_partition: completion of the missing argument ---------- *)
Lemma nb_half_transfer (fl : bool * bool) : Q2R (nb_half fl) = nb_half fl.
Proof.
  unfold nb_half. rewrite Q2R_half, Q2R_nadd.
  destruct fl as [[|] [|]]; cbn [fst snd]; rewrite ?Q2R_none, ?Q2R_nzero; reflexivity.
Qed.
Definition triR (t : Q * Q * Z) : R * R * Z := (Q2R (fst (fst t)), Q2R (snd (fst t)), snd t).
Lemma complete_axis_transfer (rndQ : Q -> Z) (rndR : R -> Z) (oxmin oxmax : option Q) (on : option Z)
  (odx : option Q) (fl : bool * bool) :
  (forall q, rndR (Q2R q) = rndQ q) ->
  (forall dx, odx = Some dx -> ~ (dx == 0)%Q) ->
  resmap triR (complete_axis rndQ oxmin oxmax on odx fl) =
  complete_axis rndR (option_map Q2R oxmin) (option_map Q2R oxmax) on (option_map Q2R odx) fl.
Proof.
  intros Hr Hdx. unfold complete_axis.
  destruct oxmin as [xmin|], oxmax as [xmax|], on as [n|], odx as [dx|]; cbn [option_map resmap]; try reflexivity.
  - rewrite <- nb_half_transfer, <- Q2R_of_Z, <- Q2R_nsub, <- Q2R_nmul, <- Q2R_nadd, <- Q2R_neqb.
    destruct (neqb xmax _); reflexivity.
  - pose proof (Hdx dx eq_refl) as Hz.
    rewrite <- nb_half_transfer, <- Q2R_nsub, <- Q2R_ndiv, <- Q2R_nadd by exact Hz. rewrite Hr.
    rewrite <- Q2R_of_Z, <- Q2R_neqb. destruct (neqb _ _); reflexivity.
  - unfold triR. cbn [fst snd]. rewrite Q2R_nadd, Q2R_nmul, Q2R_nsub, Q2R_of_Z, nb_half_transfer. reflexivity.
  - unfold triR. cbn [fst snd]. rewrite Q2R_nsub, Q2R_nmul, Q2R_nsub, Q2R_of_Z, nb_half_transfer. reflexivity.
Qed.
