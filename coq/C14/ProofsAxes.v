(* C14/ProofsAxes.v -- insert / append / squeeze act on the LIST of axes (no arithmetic):
   proved for an arbitrary carrier. *)
From Coq Require Import ZArith Lia List Bool.
From Verif Require Import Base.Num C14.Model.
Import ListNotations.

Section Axes.
Context {T : Type} `{Num T}.
Notation part := (list (axis T)).

Definition splice (p : part) (i : nat) (q : part) : part := firstn i p ++ q ++ skipn i p.
Definition norm_pos (nd index : Z) : Z := if (index <? 0)%Z then (index + nd)%Z else index.

Lemma splice_length p i q : (i <= length p)%nat -> length (splice p i q) = (length p + length q)%nat.
Proof.
  intros Hi. unfold splice. rewrite !app_length, firstn_length, skipn_length. lia.
Qed.
Lemma splice_splice p i q q' : (i <= length p)%nat ->
  splice (splice p i q) (i + length q) q' = splice p i (q ++ q').
Proof.
  intros Hi. unfold splice.
  assert (Hf : length (firstn i p) = i) by (rewrite firstn_length; lia).
  rewrite (app_assoc (firstn i p) q).
  rewrite firstn_app, skipn_app, app_length, Hf.
  replace (i + length q - (i + length q))%nat with 0%nat by lia. cbn [firstn skipn].
  rewrite firstn_all2, skipn_all2 by (rewrite app_length, Hf; lia).
  rewrite app_nil_r. cbn [app]. rewrite <- !app_assoc. reflexivity.
Qed.

Lemma insert_parts_eq (fuel : nat) (p : part) (index : Z) (parts : list part) :
  insert_parts fuel p index parts =
  if negb ((- zlen p <=? index)%Z && (index <=? zlen p)%Z) then IndexErr
  else match parts with
       | [] => Ok p
       | [q] => Ok (splice p (Z.to_nat (norm_pos (zlen p) index)) q)
       | q :: rest =>
           match fuel with
           | O => Ok p
           | S fuel' => insert_parts fuel' (splice p (Z.to_nat (norm_pos (zlen p) index)) q)
                                     (norm_pos (zlen p) index + zlen q)%Z rest
           end
       end.
Proof. destruct fuel; reflexivity. Qed.

(* insert(index, q1, ..., qN): all parts are spliced in, in order, at position index *)
Lemma insert_parts_spec (parts : list part) : forall (fuel : nat) (p : part) (index : Z),
  (length parts <= fuel)%nat -> (- zlen p <= index <= zlen p)%Z ->
  insert_parts fuel p index parts = Ok (splice p (Z.to_nat (norm_pos (zlen p) index)) (concat parts)).
Proof.
  induction parts as [|q rest IH]; intros fuel p index Hf Hidx; rewrite insert_parts_eq;
    (replace ((- zlen p <=? index)%Z && (index <=? zlen p)%Z) with true
      by (symmetry; apply andb_true_iff; split; apply Z.leb_le; lia)); cbn [negb].
  - cbn [concat]. unfold splice. cbn [app]. rewrite firstn_skipn. reflexivity.
  - assert (Hn : (0 <= norm_pos (zlen p) index <= zlen p)%Z).
    { unfold norm_pos. destruct (index <? 0)%Z eqn:E; [apply Z.ltb_lt in E|apply Z.ltb_ge in E]; lia. }
    set (i := Z.to_nat (norm_pos (zlen p) index)) in *.
    assert (Hi : (i <= length p)%nat) by (unfold i, zlen in *; lia).
    destruct rest as [|q' rest'].
    + cbn [concat]. rewrite app_nil_r. reflexivity.
    + destruct fuel as [|fuel]; [cbn [length] in Hf; lia|].
      rewrite IH.
      * assert (Hl : zlen (splice p i q) = (zlen p + zlen q)%Z) by (unfold zlen; rewrite splice_length by exact Hi; lia).
        unfold norm_pos at 1. replace (norm_pos (zlen p) index + zlen q <? 0)%Z with false
          by (symmetry; apply Z.ltb_ge; unfold zlen in *; lia).
        replace (Z.to_nat (norm_pos (zlen p) index + zlen q)) with (i + length q)%nat by (unfold i, zlen in *; lia).
        rewrite splice_splice by exact Hi. reflexivity.
      * cbn [length] in *. lia.
      * unfold zlen in *. rewrite splice_length by exact Hi. lia.
Qed.
Lemma insert_spec (p : part) (index : Z) (parts : list part) :
  (- zlen p <= index <= zlen p)%Z ->
  insert p index parts = Ok (splice p (Z.to_nat (norm_pos (zlen p) index)) (concat parts)).
Proof. intros Hi. unfold insert. apply insert_parts_spec; [lia | exact Hi]. Qed.
Lemma insert_out_of_range (p : part) (index : Z) (parts : list part) :
  (index < - zlen p \/ zlen p < index)%Z -> insert p index parts = IndexErr.
Proof.
  intros Hi. unfold insert. rewrite insert_parts_eq.
  replace ((- zlen p <=? index)%Z && (index <=? zlen p)%Z) with false; [reflexivity|].
  symmetry; apply andb_false_iff; destruct Hi; [left|right]; apply Z.leb_gt; lia.
Qed.
Lemma append_spec (p : part) (parts : list part) : append p parts = Ok (p ++ concat parts).
Proof.
  unfold append. rewrite insert_spec by (unfold zlen; lia).
  unfold norm_pos. replace (zlen p <? 0)%Z with false by (symmetry; apply Z.ltb_ge; unfold zlen; lia).
  unfold splice, zlen. rewrite Nat2Z.id, firstn_all, skipn_all, app_nil_r. reflexivity.
Qed.

(* squeeze(): exactly the one-point axes are removed *)
Lemma keep_axes_all (rng : list Z) (p : part) (i : Z) :
  (forall j, (i <= j < i + zlen p)%Z -> zmem j rng = true) ->
  keep_axes rng i p = filter nondegen p.
Proof.
  revert i; induction p as [|ax p IH]; intros i Hin; [reflexivity|].
  cbn [keep_axes filter]. rewrite (Hin i) by (unfold zlen; cbn [length]; lia). cbn [negb orb].
  rewrite IH by (intros j Hj; apply Hin; unfold zlen in *; cbn [length]; lia).
  reflexivity.
Qed.
Lemma zmem_seq (n : nat) (j : Z) : (0 <= j < Z.of_nat n)%Z -> zmem j (map Z.of_nat (seq 0 n)) = true.
Proof.
  intros Hj. unfold zmem. apply existsb_exists. exists j. split; [|apply Z.eqb_refl].
  apply in_map_iff. exists (Z.to_nat j). split; [lia|]. apply in_seq. lia.
Qed.
Lemma squeeze_all (p : part) : squeeze p AxAll = Ok (filter nondegen p).
Proof.
  unfold squeeze, axsel_range. cbn [bind]. f_equal. apply keep_axes_all.
  intros j Hj. apply zmem_seq. unfold zlen in *. lia.
Qed.
(* squeeze(axis): an axis is dropped iff it is selected AND has one point *)
Lemma keep_axes_none (rng : list Z) (p : part) (i : Z) :
  (forall j, (i <= j < i + zlen p)%Z -> zmem j rng = false) -> keep_axes rng i p = p.
Proof.
  revert i; induction p as [|ax p IH]; intros i Hin; [reflexivity|].
  cbn [keep_axes]. rewrite (Hin i) by (unfold zlen; cbn [length]; lia). cbn [negb orb].
  rewrite IH by (intros j Hj; apply Hin; unfold zlen in *; cbn [length]; lia).
  reflexivity.
Qed.
Lemma keep_axes_app (rng : list Z) (p q : part) (i : Z) :
  keep_axes rng i (p ++ q) = keep_axes rng i p ++ keep_axes rng (i + zlen p) q.
Proof.
  revert i; induction p as [|ax p IH]; intros i.
  - cbn [app keep_axes]. unfold zlen; cbn [length]. rewrite Z.add_0_r. reflexivity.
  - cbn [app keep_axes]. rewrite IH.
    replace (i + 1 + zlen p)%Z with (i + zlen (ax :: p))%Z by (unfold zlen; cbn [length]; lia).
    destruct (negb (zmem i rng) || nondegen ax); reflexivity.
Qed.

Lemma skipn_nth_cons {A} (l : list A) (k : nat) (d : A) : (k < length l)%nat ->
  skipn k l = nth k l d :: skipn (S k) l.
Proof.
  revert k; induction l as [|a l IH]; intros k Hk; cbn [length] in Hk; [lia|].
  destruct k as [|k]; [reflexivity|].
  change (skipn k l = nth k l d :: skipn (S k) l). apply IH. lia.
Qed.
(* squeeze(axis=i): axis i is dropped iff it has one point; everything else stays *)
Lemma zmem_single (j i : Z) : zmem j [i] = (j =? i)%Z.
Proof. unfold zmem. cbn [existsb]. apply orb_false_r. Qed.
Lemma squeeze_int (p : part) (i : Z) (d : axis T) : (- zlen p <= i < zlen p)%Z ->
  let k := Z.to_nat (norm_pos (zlen p) i) in
  squeeze p (AxInt i) = Ok (if nondegen (nth k p d) then p else firstn k p ++ skipn (S k) p).
Proof.
  intros Hi. cbv zeta. unfold squeeze, axsel_range, fancy_idx. cbn [mapM].
  replace ((- zlen p <=? i)%Z && (i <? zlen p)%Z) with true
    by (symmetry; apply andb_true_iff; split; [apply Z.leb_le|apply Z.ltb_lt]; lia).
  cbn [bind]. fold (norm_pos (zlen p) i). f_equal.
  assert (Hn : (0 <= norm_pos (zlen p) i < zlen p)%Z).
  { unfold norm_pos. destruct (i <? 0)%Z eqn:E; [apply Z.ltb_lt in E|apply Z.ltb_ge in E]; lia. }
  set (i' := norm_pos (zlen p) i) in *. set (k := Z.to_nat i').
  assert (Hk : (k < length p)%nat) by (unfold k, zlen in *; lia).
  assert (Hsplit : p = firstn k p ++ nth k p d :: skipn (S k) p).
  { rewrite <- (firstn_skipn k p) at 1. f_equal. apply skipn_nth_cons. exact Hk. }
  assert (Hfl : zlen (firstn k p) = i') by (unfold zlen; rewrite firstn_length; unfold k, zlen in *; lia).
  rewrite Hsplit at 1. rewrite keep_axes_app, Hfl.
  rewrite keep_axes_none.
  2:{ intros j Hj. rewrite zmem_single. apply Z.eqb_neq. lia. }
  cbn [keep_axes]. rewrite zmem_single, Z.eqb_refl. cbn [negb orb].
  rewrite keep_axes_none.
  2:{ intros j Hj. rewrite zmem_single. apply Z.eqb_neq. lia. }
  destruct (nondegen (nth k p d)); [symmetry; exact Hsplit | reflexivity].
Qed.
Lemma squeeze_int_out_of_range (p : part) (i : Z) :
  (i < - zlen p \/ zlen p <= i)%Z -> squeeze p (AxInt i) = IndexErr.
Proof.
  intros Hi. unfold squeeze, axsel_range, fancy_idx. cbn [mapM].
  replace ((- zlen p <=? i)%Z && (i <? zlen p)%Z) with false; [reflexivity|].
  symmetry. apply andb_false_iff. destruct Hi; [left; apply Z.leb_gt|right; apply Z.ltb_ge]; lia.
Qed.

(* squeeze(axis=[...]) / squeeze(axis=slice): the axes that stay are those that are not selected
   or have more than one point, in their original order *)
Fixpoint positions (i : Z) (p : part) : list (Z * axis T) :=
  match p with [] => [] | ax :: p' => (i, ax) :: positions (i + 1) p' end.
Lemma keep_axes_filter (rng : list Z) (i : Z) (p : part) :
  keep_axes rng i p =
  map snd (filter (fun ja => negb (zmem (fst ja) rng) || nondegen (snd ja)) (positions i p)).
Proof.
  revert i; induction p as [|ax p IH]; intros i; [reflexivity|].
  cbn [keep_axes positions filter fst snd]. rewrite IH.
  destruct (negb (zmem i rng) || nondegen ax); reflexivity.
Qed.
Lemma squeeze_list (p : part) (l : list Z) : (forall j, In j l -> (0 <= j < zlen p)%Z) ->
  squeeze p (AxList l) =
  Ok (map snd (filter (fun ja => negb (zmem (fst ja) l) || nondegen (snd ja)) (positions 0 p))).
Proof.
  intros Hin. unfold squeeze, axsel_range.
  assert (E : fancy_idx (zlen p) l = Ok l).
  { induction l as [|j l IH]; [reflexivity|]. unfold fancy_idx in *. cbn [mapM].
    pose proof (Hin j (or_introl eq_refl)) as Hj.
    replace ((- zlen p <=? j)%Z && (j <? zlen p)%Z) with true
      by (symmetry; apply andb_true_iff; split; [apply Z.leb_le|apply Z.ltb_lt]; lia).
    replace (j <? 0)%Z with false by (symmetry; apply Z.ltb_ge; lia). cbn [bind].
    rewrite IH by (intros; apply Hin; right; assumption). reflexivity. }
  rewrite E. cbn [bind]. f_equal. apply keep_axes_filter.
Qed.
End Axes.
