(* C14/Proofs.v -- lemmas about the partition model at R. *)
From Coq Require Import ZArith QArith Reals Lra Lia List Bool.
From Verif Require Import Base.Num Base.Vec C14.Model.
Import ListNotations.
Local Open Scope R_scope.

Notation Rvec := (list R).
Notation Raxis := (axis R).
Notation nthR i l := (nth i l 0).

Ltac numR' := unfold ntwo, nhalf, of_nat, hd0, last0, nth0 in *; numR.

(* ---------- booleans at R ---------- *)
Lemma ltb_true a b : @nltb R _ a b = true <-> a < b.
Proof. numR; destruct (Rltb_spec a b); split; auto; discriminate. Qed.
Lemma leb_true a b : @nleb R _ a b = true <-> a <= b.
Proof. numR; destruct (Rleb_spec a b); split; auto; discriminate. Qed.
Lemma eqb_true a b : @neqb R _ a b = true <-> a = b.
Proof. numR; destruct (Reqb_spec a b); split; auto; discriminate. Qed.
Lemma ltb_false a b : @nltb R _ a b = false <-> b <= a.
Proof. numR; destruct (Rltb_spec a b); split; auto; try discriminate; lra. Qed.
Lemma eqb_false a b : @neqb R _ a b = false <-> a <> b.
Proof. numR; destruct (Reqb_spec a b); split; auto; try discriminate; congruence. Qed.

(* ---------- strictly increasing lists ---------- *)
Fixpoint sincr (l : Rvec) : Prop :=
  match l with
  | a :: ((b :: _) as r) => a < b /\ sincr r
  | _ => True
  end.
Lemma strict_incr_spec (cs : Rvec) : strict_incr cs = true <-> sincr cs.
Proof.
  induction cs as [|a [|b r] IH]; cbn [strict_incr sincr]; try tauto.
  rewrite andb_true_iff, ltb_true, IH. tauto.
Qed.
Lemma sincr_tail a (l : Rvec) : sincr (a :: l) -> sincr l.
Proof. destruct l; cbn; tauto. Qed.
Lemma sincr_nth_S (l : Rvec) i : sincr l -> (S i < length l)%nat -> nthR i l < nthR (S i) l.
Proof.
  revert i; induction l as [|a [|b r] IH]; intros i Hs Hi; cbn [length] in Hi; try lia.
  destruct i as [|i]; [cbn; apply Hs|].
  change (nthR i (b :: r) < nthR (S i) (b :: r)). apply IH; [apply Hs | cbn [length]; lia].
Qed.
Lemma sincr_nth (l : Rvec) i j : sincr l -> (i < j)%nat -> (j < length l)%nat -> nthR i l < nthR j l.
Proof.
  intros Hs Hij Hj. induction j as [|j IH]; [lia|].
  destruct (Nat.eq_dec i j) as [->|Hne].
  - apply sincr_nth_S; assumption.
  - eapply Rlt_trans; [apply IH; lia | apply sincr_nth_S; assumption].
Qed.
Lemma sincr_of_nth (l : Rvec) :
  (forall i, (S i < length l)%nat -> nthR i l < nthR (S i) l) -> sincr l.
Proof.
  induction l as [|a [|b r] IH]; intros Hn; cbn [sincr]; auto. split.
  - apply (Hn 0%nat). cbn; lia.
  - apply IH. intros i Hi. apply (Hn (S i)). cbn [length] in *; lia.
Qed.
Lemma last_nth (l : Rvec) : last l 0 = nthR (length l - 1) l.
Proof.
  induction l as [|a [|b r] IH]; try reflexivity.
  change (last (a :: b :: r) 0) with (last (b :: r) 0). rewrite IH. cbn [length].
  replace (S (S (length r)) - 1)%nat with (S (length r - 0)) by lia.
  cbn [nth]. replace (S (length r) - 1)%nat with (length r - 0)%nat by lia. reflexivity.
Qed.
Lemma hd_nth (l : Rvec) : hd 0 l = nthR 0 l.
Proof. destruct l; reflexivity. Qed.

(* ---------- the cell-boundary vector ---------- *)
Lemma mids_length (cs : Rvec) : length (mids cs) = (length cs - 1)%nat.
Proof.
  induction cs as [|a [|b r] IH]; try reflexivity.
  cbn [mids length] in *. rewrite IH. lia.
Qed.
Lemma mids_nth (cs : Rvec) i : (S i < length cs)%nat ->
  nthR i (mids cs) = (nthR (S i) cs + nthR i cs) / 2.
Proof.
  revert i; induction cs as [|a [|b r] IH]; intros i Hi; cbn [length] in Hi; try lia.
  destruct i as [|i].
  - cbn. numR'. reflexivity.
  - change (nthR i (mids (b :: r)) = (nthR (S i) (b :: r) + nthR i (b :: r)) / 2).
    apply IH. cbn [length]; lia.
Qed.
Lemma bdry_length (ax : Raxis) : (1 <= length (a_cs ax))%nat ->
  length (bdry_vec ax) = S (length (a_cs ax)).
Proof.
  intros Hn. unfold bdry_vec. cbn [length]. rewrite app_length, mids_length. cbn [length]. lia.
Qed.
Lemma bdry_nth_0 (ax : Raxis) : nthR 0 (bdry_vec ax) = a_lo ax.
Proof. reflexivity. Qed.
Lemma bdry_nth_mid (ax : Raxis) i : (1 <= i)%nat -> (i < length (a_cs ax))%nat ->
  nthR i (bdry_vec ax) = (nthR i (a_cs ax) + nthR (i - 1) (a_cs ax)) / 2.
Proof.
  intros H1 Hi. unfold bdry_vec. destruct i as [|i]; [lia|]. cbn [nth].
  rewrite app_nth1 by (rewrite mids_length; lia).
  rewrite mids_nth by lia. replace (S i - 1)%nat with i by lia. reflexivity.
Qed.
Lemma bdry_nth_last (ax : Raxis) : (1 <= length (a_cs ax))%nat ->
  nthR (length (a_cs ax)) (bdry_vec ax) = a_hi ax.
Proof.
  intros Hn. unfold bdry_vec. destruct (length (a_cs ax)) as [|n] eqn:E; [lia|]. cbn [nth].
  rewrite app_nth2 by (rewrite mids_length; lia).
  rewrite mids_length, E. replace (n - (S n - 1))%nat with 0%nat by lia. reflexivity.
Qed.

(* what RectPartition.__init__ accepts *)
Record valid (ax : Raxis) : Prop := {
  v_lohi : a_lo ax <= a_hi ax;
  v_ne : (1 <= length (a_cs ax))%nat;
  v_incr : sincr (a_cs ax);
  v_lo : a_lo ax <= nthR 0 (a_cs ax);
  v_hi : nthR (length (a_cs ax) - 1) (a_cs ax) <= a_hi ax }.
Lemma axis_ok_valid (ax : Raxis) : axis_ok ax = true <-> valid ax.
Proof.
  unfold axis_ok, grid_ok. rewrite !andb_true_iff, !leb_true.
  unfold hd0, last0. rewrite hd_nth, last_nth. split.
  - intros [[[H1 H2] H3] H4]. destruct (a_cs ax) as [|c r] eqn:E; [discriminate|].
    constructor; rewrite ?E; auto. + cbn; lia. + apply strict_incr_spec; exact H2.
  - intros [H1 H2 H3 H4 H5]. destruct (a_cs ax) as [|c r] eqn:E; [cbn in H2; lia|].
    repeat split; auto. apply strict_incr_spec; exact H3.
Qed.

(* consecutive boundaries are strictly increasing (n >= 2, or one point and lo < hi) *)
Lemma bdry_step (ax : Raxis) i : valid ax ->
  (2 <= length (a_cs ax))%nat \/ a_lo ax < a_hi ax ->
  (i < length (a_cs ax))%nat ->
  nthR i (bdry_vec ax) < nthR (S i) (bdry_vec ax).
Proof.
  intros [H1 H2 H3 H4 H5] Hn Hi.
  destruct (Nat.eq_dec (length (a_cs ax)) 1) as [En|En].
  - assert (i = 0)%nat by lia; subst i. rewrite bdry_nth_0.
    rewrite <- En. rewrite bdry_nth_last by lia.
    destruct Hn; [lia | assumption].
  - destruct (Nat.eq_dec i 0) as [->|Hi0].
    + rewrite bdry_nth_0, bdry_nth_mid by lia. cbn [Nat.sub].
      pose proof (sincr_nth_S _ 0 H3 ltac:(lia)). lra.
    + destruct (Nat.eq_dec (S i) (length (a_cs ax))) as [Ei|Ei].
      * rewrite Ei. rewrite bdry_nth_last by lia.
        rewrite bdry_nth_mid by lia.
        pose proof (sincr_nth_S _ (i - 1) H3 ltac:(lia)) as Hs.
        replace (S (i - 1)) with i in Hs by lia.
        replace (length (a_cs ax) - 1)%nat with i in H5 by lia. lra.
      * rewrite !bdry_nth_mid by lia. replace (S i - 1)%nat with i by lia.
        pose proof (sincr_nth _ (i - 1) (S i) H3 ltac:(lia) ltac:(lia)). lra.
Qed.
Lemma bdry_step_weak (ax : Raxis) i : valid ax -> (i < length (a_cs ax))%nat ->
  nthR i (bdry_vec ax) <= nthR (S i) (bdry_vec ax).
Proof.
  intros Hv Hi. destruct (Nat.le_gt_cases 2 (length (a_cs ax))) as [Hn|Hn].
  - left. apply bdry_step; auto.
  - assert (E : length (a_cs ax) = 1%nat) by (destruct Hv; lia).
    assert (i = 0)%nat by lia; subst i. rewrite bdry_nth_0.
    rewrite <- E at 1. rewrite bdry_nth_last by lia. apply Hv.
Qed.
Lemma bdry_sincr (ax : Raxis) : valid ax ->
  (2 <= length (a_cs ax))%nat \/ a_lo ax < a_hi ax -> sincr (bdry_vec ax).
Proof.
  intros Hv Hn. apply sincr_of_nth. intros i Hi. rewrite bdry_length in Hi by apply Hv.
  apply bdry_step; auto; lia.
Qed.

(* every grid point lies in its own cell *)
Lemma node_in_cell (ax : Raxis) i : valid ax -> (i < length (a_cs ax))%nat ->
  nthR i (bdry_vec ax) <= nthR i (a_cs ax) <= nthR (S i) (bdry_vec ax).
Proof.
  intros [H1 H2 H3 H4 H5] Hi. split.
  - destruct (Nat.eq_dec i 0) as [->|Hi0]; [rewrite bdry_nth_0; exact H4|].
    rewrite bdry_nth_mid by lia.
    pose proof (sincr_nth_S _ (i - 1) H3 ltac:(lia)) as Hs.
    replace (S (i - 1)) with i in Hs by lia. lra.
  - destruct (Nat.eq_dec (S i) (length (a_cs ax))) as [Ei|Ei].
    + rewrite Ei. rewrite bdry_nth_last by lia.
      replace (length (a_cs ax) - 1)%nat with i in H5 by lia. exact H5.
    + rewrite bdry_nth_mid by lia. replace (S i - 1)%nat with i by lia.
      pose proof (sincr_nth_S _ i H3 ltac:(lia)). lra.
Qed.

(* ---------- cell sizes ---------- *)
Lemma inner_sizes_length (cs : Rvec) : length (inner_sizes cs) = (length cs - 2)%nat.
Proof.
  induction cs as [|a [|b [|c r]] IH]; try reflexivity.
  cbn [inner_sizes length] in *. rewrite IH. lia.
Qed.
Lemma inner_sizes_nth (cs : Rvec) i : (S (S i) < length cs)%nat ->
  nthR i (inner_sizes cs) = (nthR (S (S i)) cs - nthR i cs) / 2.
Proof.
  revert i; induction cs as [|a [|b [|c r]] IH]; intros i Hi; cbn [length] in Hi; try lia.
  destruct i as [|i].
  - cbn. numR'. reflexivity.
  - change (nthR i (inner_sizes (b :: c :: r)) = (nthR (S (S i)) (b :: c :: r) - nthR i (b :: c :: r)) / 2).
    apply IH. cbn [length]; lia.
Qed.
Lemma last_size_eq hi (cs : Rvec) : (2 <= length cs)%nat ->
  last_size hi cs = hi - (nthR (length cs - 2) cs + nthR (length cs - 1) cs) / 2.
Proof.
  induction cs as [|a [|b [|c r]] IH]; intros Hn; cbn [length] in Hn; try lia.
  - cbn. numR'. reflexivity.
  - change (last_size hi (a :: b :: c :: r)) with (last_size hi (b :: c :: r)).
    rewrite IH by (cbn [length]; lia). cbn [length].
    replace (S (S (S (length r))) - 2)%nat with (S (S (S (length r)) - 2)) by lia.
    replace (S (S (S (length r))) - 1)%nat with (S (S (S (length r)) - 1)) by lia.
    reflexivity.
Qed.
Lemma last_gap_eq (cs : Rvec) : (2 <= length cs)%nat ->
  last_gap cs = nthR (length cs - 1) cs - nthR (length cs - 2) cs.
Proof.
  induction cs as [|a [|b [|c r]] IH]; intros Hn; cbn [length] in Hn; try lia.
  - cbn. numR'. reflexivity.
  - change (last_gap (a :: b :: c :: r)) with (last_gap (b :: c :: r)).
    rewrite IH by (cbn [length]; lia). cbn [length].
    replace (S (S (S (length r))) - 2)%nat with (S (S (S (length r)) - 2)) by lia.
    replace (S (S (S (length r))) - 1)%nat with (S (S (S (length r)) - 1)) by lia.
    reflexivity.
Qed.
Lemma cell_sizes_length (ax : Raxis) : length (cell_sizes ax) = length (a_cs ax).
Proof.
  unfold cell_sizes. destruct (a_cs ax) as [|c0 [|c1 r]] eqn:E; try reflexivity.
  cbn [length]. rewrite app_length, inner_sizes_length. cbn [length]. lia.
Qed.
(* for >= 2 grid points, entry i of cell_sizes_vecs is exactly the width of cell i *)
Lemma cell_sizes_nth (ax : Raxis) i : (2 <= length (a_cs ax))%nat -> (i < length (a_cs ax))%nat ->
  nthR i (cell_sizes ax) = nthR (S i) (bdry_vec ax) - nthR i (bdry_vec ax).
Proof.
  intros Hn Hi.
  assert (Hcs : cell_sizes ax = ((nthR 0 (a_cs ax) + nthR 1 (a_cs ax)) / 2 - a_lo ax)
                                 :: inner_sizes (a_cs ax) ++ [last_size (a_hi ax) (a_cs ax)]).
  { unfold cell_sizes. destruct (a_cs ax) as [|c0 [|c1 r]] eqn:E; cbn [length] in *; try lia.
    cbn [nth]. numR'. reflexivity. }
  rewrite Hcs. destruct (Nat.eq_dec i 0) as [->|Hi0].
  - cbn [nth]. rewrite bdry_nth_0.
    rewrite bdry_nth_mid by lia. cbn [Nat.sub]. lra.
  - destruct i as [|i]; [lia|]. cbn [nth].
    destruct (Nat.eq_dec (S (S i)) (length (a_cs ax))) as [Ei|Ei].
    + rewrite app_nth2 by (rewrite inner_sizes_length; lia).
      rewrite inner_sizes_length. replace (i - (length (a_cs ax) - 2))%nat with 0%nat by lia. cbn [nth].
      rewrite last_size_eq by lia.
      rewrite Ei. rewrite bdry_nth_last by lia.
      rewrite bdry_nth_mid by lia.
      replace (length (a_cs ax) - 2)%nat with (S i - 1)%nat by lia.
      replace (length (a_cs ax) - 1)%nat with (S i) by lia. lra.
    + rewrite app_nth1 by (rewrite inner_sizes_length; lia).
      rewrite inner_sizes_nth by lia.
      rewrite !bdry_nth_mid by lia.
      replace (S (S i) - 1)%nat with (S i) by lia. replace (S i - 1)%nat with i by lia. lra.
Qed.
(* telescoping sum *)
Lemma sumf_telescope (s b : Rvec) : length b = S (length s) ->
  (forall i, (i < length s)%nat -> nthR i s = nthR (S i) b - nthR i b) ->
  sumf s = nthR (length s) b - nthR 0 b.
Proof.
  revert b; induction s as [|x s IH]; intros b Hl Hn.
  - cbn. numR. lra.
  - destruct b as [|b0 b]; [discriminate|]. cbn [sumf length]. numR.
    rewrite (IH b).
    + pose proof (Hn 0%nat ltac:(cbn; lia)) as H0. cbn [nth] in H0.
      change (nthR (S (length s)) (b0 :: b)) with (nthR (length s) b). cbn [nth]. lra.
    + cbn [length] in Hl. lia.
    + intros i Hi. apply (Hn (S i)). cbn [length]; lia.
Qed.
Lemma cell_sizes_sum (ax : Raxis) : valid ax -> (2 <= length (a_cs ax))%nat ->
  sumf (cell_sizes ax) = a_hi ax - a_lo ax.
Proof.
  intros Hv Hn. rewrite (sumf_telescope _ (bdry_vec ax)).
  - rewrite cell_sizes_length, bdry_nth_last, bdry_nth_0 by lia. reflexivity.
  - rewrite bdry_length, cell_sizes_length by lia. reflexivity.
  - intros i Hi. rewrite cell_sizes_length in Hi. apply cell_sizes_nth; assumption.
Qed.
(* the documented exception: one grid point -> size 0.0, whatever the extent *)
Lemma cell_sizes_single (lo hi c : R) : cell_sizes (mkAxis lo hi [c]) = [0].
Proof. reflexivity. Qed.
Lemma cell_sizes_sum_refuted :
  exists ax : Raxis, valid ax /\ sumf (cell_sizes ax) <> a_hi ax - a_lo ax.
Proof.
  exists (mkAxis 0 1 [0]). split.
  - constructor; cbn; auto; try lra; try lia.
  - cbn. numR. lra.
Qed.
Lemma bdry_strict_refuted :
  exists ax : Raxis, valid ax /\ ~ sincr (bdry_vec ax).
Proof.
  exists (mkAxis 0 0 [0]). split.
  - constructor; cbn; auto; try lra; try lia.
  - cbn. lra.
Qed.
Lemma bdry_limits (ax : Raxis) : valid ax ->
  length (bdry_vec ax) = S (length (a_cs ax)) /\
  nthR 0 (bdry_vec ax) = a_lo ax /\
  nthR (length (a_cs ax)) (bdry_vec ax) = a_hi ax.
Proof.
  intros Hv. split; [apply bdry_length, Hv|]. split; [apply bdry_nth_0|apply bdry_nth_last, Hv].
Qed.
Lemma example_axis_valid : valid (mkAxis 0 3 [1/2; 1; 5/2]).
Proof. constructor; cbn; intuition (lra || lia). Qed.
