(* C14/Proofs.v -- lemmas about the partition model at R. *)
From Coq Require Import ZArith QArith Reals Lra Lia List Bool.
From Verif Require Import Base.Num C14.Model.
Import ListNotations.
Local Open Scope R_scope.
