(* C14/ProofsSlice.v -- RectPartition.__getitem__ per axis: Python slice arithmetic,
   the new limits (hull of start:stop) and the selected grid points. *)
From Coq Require Import ZArith QArith Reals Lra Lia List Bool.
From Verif Require Import Base.Num Base.Vec C14.Model C14.Proofs C14.ProofsIndex.
Import ListNotations.
Local Open Scope R_scope.

(* ---------- Python slices with positive step ---------- *)
Local Open Scope Z_scope.
Lemma slice_adjust_pos (n : Z) (a b : oz) (c : oz) s e k :
  0 <= n -> slice_adjust n (a, b, c) = Some (s, e, k) -> 0 < k ->
  0 <= s <= n /\ 0 <= e <= n /\ slice_adjust n (a, b, None) = Some (s, e, 1).
Proof.
  intros Hn H Hk. unfold slice_adjust in *.
  set (step := match c with Some k0 => k0 | None => 1 end) in *.
  destruct (step =? 0) eqn:E0; [discriminate|].
  assert (Hs : step = k) by (inversion H; reflexivity).
  assert (Hlt : (step <? 0) = false) by (apply Z.ltb_ge; lia).
  rewrite Hlt in H. change (1 =? 0) with false. change (1 <? 0) with false. cbv iota.
  inversion H as [[H1 H2 H3]]. clear H.
  repeat split; try (destruct a as [v|]; [destruct (v <? 0) eqn:Ev; [apply Z.ltb_lt in Ev|apply Z.ltb_ge in Ev]|]; lia);
    try (destruct b as [v|]; [destruct (v <? 0) eqn:Ev; [apply Z.ltb_lt in Ev|apply Z.ltb_ge in Ev]|]; lia).
Qed.
Lemma range_len_pos s e k : 0 < k -> s < e -> range_len s e k = (e - s - 1) / k + 1 /\ 1 <= range_len s e k.
Proof.
  intros Hk Hse. unfold range_len. replace (0 <? k) with true by (symmetry; apply Z.ltb_lt; lia).
  replace (s <? e) with true by (symmetry; apply Z.ltb_lt; lia). split; [reflexivity|].
  pose proof (Z.div_pos (e - s - 1) k ltac:(lia) Hk). lia.
Qed.
Lemma range_len_empty s e k : 0 < k -> e <= s -> range_len s e k = 0.
Proof.
  intros Hk Hse. unfold range_len. replace (0 <? k) with true by (symmetry; apply Z.ltb_lt; lia).
  replace (s <? e) with false by (symmetry; apply Z.ltb_ge; lia). reflexivity.
Qed.
Lemma range_bound s e k j : 0 < k -> s < e -> 0 <= j < range_len s e k -> s <= s + j * k <= e - 1.
Proof.
  intros Hk Hse [Hj0 Hj]. destruct (range_len_pos s e k Hk Hse) as [E _]. rewrite E in Hj.
  assert (j <= (e - s - 1) / k) by lia.
  pose proof (Z.mul_div_le (e - s - 1) k Hk). nia.
Qed.
Lemma range_len_unit s e : s < e -> range_len s e 1 = e - s.
Proof. intros H. destruct (range_len_pos s e 1 ltac:(lia) H) as [E _]. rewrite E, Z.div_1_r. lia. Qed.
Local Close Scope Z_scope.

Lemma zrange_length s e k : length (zrange s e k) = Z.to_nat (range_len s e k).
Proof. unfold zrange. rewrite map_length, seq_length. reflexivity. Qed.
Lemma zrange_nth s e k j d : (j < Z.to_nat (range_len s e k))%nat ->
  nth j (zrange s e k) d = (s + Z.of_nat j * k)%Z.
Proof.
  intros Hj. unfold zrange.
  rewrite (nth_indep _ d (s + Z.of_nat 0 * k)%Z) by (rewrite map_length, seq_length; exact Hj).
  rewrite (map_nth (fun i => (s + Z.of_nat i * k)%Z)), seq_nth by exact Hj. reflexivity.
Qed.

(* take_idx on in-range indices is a plain map *)
Lemma take_idx_map (l : Rvec) (idxs : list Z) :
  (forall i, In i idxs -> (0 <= i < zlen l)%Z) ->
  take_idx l idxs = map (fun i => nthR (Z.to_nat i) l) idxs.
Proof.
  induction idxs as [|i idxs IH]; intros Hin; [reflexivity|].
  unfold take_idx in *. cbn [flat_map map]. rewrite IH by (intros; apply Hin; right; assumption).
  pose proof (Hin i (or_introl eq_refl)) as Hi. unfold zlen in Hi.
  destruct (nth_error l (Z.to_nat i)) as [v|] eqn:E.
  - cbn [app]. f_equal. symmetry. apply nth_error_nth. exact E.
  - apply nth_error_None in E. lia.
Qed.
Lemma zrange_in s e k i : (0 < k)%Z -> In i (zrange s e k) -> (s <= i <= e - 1)%Z /\ (s < e)%Z.
Proof.
  intros Hk Hin. unfold zrange in Hin. apply in_map_iff in Hin. destruct Hin as (j & <- & Hj).
  apply in_seq in Hj. destruct (Z_lt_le_dec s e) as [Hse|Hse].
  - split; [|exact Hse]. apply range_bound; auto. lia.
  - rewrite range_len_empty in Hj by lia. cbn in Hj. lia.
Qed.

(* ---------- monotone boundaries ---------- *)
Lemma bdry_mono (ax : Raxis) i j : valid ax -> (i <= j)%nat -> (j <= length (a_cs ax))%nat ->
  nthR i (bdry_vec ax) <= nthR j (bdry_vec ax).
Proof.
  intros Hv Hij Hj. induction j as [|j IH]; [replace i with 0%nat by lia; lra|].
  destruct (Nat.eq_dec i (S j)) as [->|Hne]; [lra|].
  eapply Rle_trans; [apply IH; lia | apply bdry_step_weak; [exact Hv | lia]].
Qed.

(* ---------- the sub-axis selected by start:stop:step (normalised, step > 0) ---------- *)
Definition sub_ax (ax : Raxis) (s e k : Z) : Raxis :=
  mkAxis (nthR (Z.to_nat s) (bdry_vec ax)) (nthR (Z.to_nat e) (bdry_vec ax))
         (take_idx (a_cs ax) (zrange s e k)).

Section Sub.
Variables (ax : Raxis) (s e k : Z).
Hypothesis Hv : valid ax.
Hypothesis Hs : (0 <= s)%Z.
Hypothesis Hse : (s < e)%Z.
Hypothesis He : (e <= zlen (a_cs ax))%Z.
Hypothesis Hk : (0 < k)%Z.
Let m := Z.to_nat (range_len s e k).

Lemma sub_cs_map : a_cs (sub_ax ax s e k) = map (fun i => nthR (Z.to_nat i) (a_cs ax)) (zrange s e k).
Proof.
  unfold sub_ax. cbn [a_cs]. apply take_idx_map. intros i Hi.
  destruct (zrange_in s e k i Hk Hi) as [H1 _]. lia.
Qed.
Lemma sub_cs_length : length (a_cs (sub_ax ax s e k)) = m.
Proof. rewrite sub_cs_map, map_length, zrange_length. reflexivity. Qed.
Lemma sub_cs_nth j : (j < m)%nat ->
  nthR j (a_cs (sub_ax ax s e k)) = nthR (Z.to_nat (s + Z.of_nat j * k)) (a_cs ax).
Proof.
  intros Hj. rewrite sub_cs_map.
  rewrite (nth_indep _ 0 ((fun i => nthR (Z.to_nat i) (a_cs ax)) 0%Z)) by (rewrite map_length, zrange_length; exact Hj).
  rewrite (map_nth (fun i => nthR (Z.to_nat i) (a_cs ax))). rewrite zrange_nth by exact Hj. reflexivity.
Qed.
Lemma m_pos : (1 <= m)%nat.
Proof. unfold m. destruct (range_len_pos s e k Hk Hse) as [_ H]. lia. Qed.
Lemma sub_idx_bound j : (j < m)%nat -> (s <= s + Z.of_nat j * k <= e - 1)%Z.
Proof. intros Hj. apply range_bound; auto. unfold m in Hj. lia. Qed.

Lemma sub_valid : valid (sub_ax ax s e k).
Proof.
  pose proof m_pos as Hm. unfold zlen in He.
  constructor.
  - unfold sub_ax; cbn [a_lo a_hi]. apply bdry_mono; [exact Hv | lia | lia].
  - rewrite sub_cs_length. exact Hm.
  - apply sincr_of_nth. intros i Hi. rewrite sub_cs_length in Hi. rewrite !sub_cs_nth by lia.
    pose proof (sub_idx_bound i ltac:(lia)). pose proof (sub_idx_bound (S i) ltac:(lia)).
    apply sincr_nth; [apply Hv | | ]; lia.
  - rewrite sub_cs_nth by lia. unfold sub_ax; cbn [a_lo]. cbn [Z.of_nat]. rewrite Z.mul_0_l, Z.add_0_r.
    apply node_in_cell; [exact Hv | lia].
  - rewrite sub_cs_length, sub_cs_nth by lia. unfold sub_ax; cbn [a_hi].
    pose proof (sub_idx_bound (m - 1) ltac:(lia)) as Hb.
    set (t := Z.to_nat (s + Z.of_nat (m - 1) * k)).
    eapply Rle_trans; [apply (node_in_cell ax t Hv); unfold t; lia|].
    apply bdry_mono; [exact Hv | unfold t; lia | lia].
Qed.
End Sub.

(* unit step: the cells of the result are exactly cells s .. e-1 of the original *)
Section Unit.
Variables (ax : Raxis) (s e : Z).
Hypothesis Hv : valid ax.
Hypothesis Hs : (0 <= s)%Z.
Hypothesis Hse : (s < e)%Z.
Hypothesis He : (e <= zlen (a_cs ax))%Z.

Lemma unit_length : length (a_cs (sub_ax ax s e 1)) = Z.to_nat (e - s).
Proof. rewrite sub_cs_length by (auto; lia). rewrite range_len_unit by lia. reflexivity. Qed.
Lemma unit_cs_nth j : (j < Z.to_nat (e - s))%nat ->
  nthR j (a_cs (sub_ax ax s e 1)) = nthR (Z.to_nat s + j) (a_cs ax).
Proof.
  intros Hj. rewrite sub_cs_nth by (auto; try lia; rewrite range_len_unit by lia; exact Hj).
  f_equal. lia.
Qed.
Lemma unit_bdry_nth j : (j <= Z.to_nat (e - s))%nat ->
  nthR j (bdry_vec (sub_ax ax s e 1)) = nthR (Z.to_nat s + j) (bdry_vec ax).
Proof.
  intros Hj. pose proof unit_length as Hl. unfold zlen in He.
  destruct (Nat.eq_dec j 0) as [->|Hj0].
  - rewrite bdry_nth_0. unfold sub_ax; cbn [a_lo]. f_equal. lia.
  - destruct (Nat.eq_dec j (Z.to_nat (e - s))) as [Ej|Ej].
    + rewrite Ej. rewrite <- Hl. rewrite bdry_nth_last by (rewrite Hl; lia).
      rewrite Hl. unfold sub_ax; cbn [a_hi]. f_equal. lia.
    + rewrite !bdry_nth_mid by (rewrite ?Hl; lia).
      rewrite !unit_cs_nth by lia.
      replace (Z.to_nat s + j - 1)%nat with (Z.to_nat s + (j - 1))%nat by lia. reflexivity.
Qed.
End Unit.

(* ---------- tie to the functions __getitem__ maps over the axes ---------- *)
Lemma last_indep {A} (a d : A) (b : A) (r : list A) : last (b :: r) a = last (b :: r) d.
Proof. revert b; induction r as [|c r IH]; intros b; [reflexivity|]. change (last (c :: r) a = last (c :: r) d). apply IH. Qed.
Lemma last_cons_default {A} (a d : A) (r : list A) : last r a = last (a :: r) d.
Proof. destruct r as [|b r]; [reflexivity|]. change (last (b :: r) a = last (b :: r) d). apply last_indep. Qed.

Lemma map_seq_head_last {A} (f : nat -> A) m' :
  exists r, map f (seq 0 (S m')) = f 0%nat :: r /\ last r (f 0%nat) = f m'.
Proof.
  exists (map f (seq 1 m')). split; [reflexivity|].
  rewrite (last_cons_default _ (f 0%nat)).
  change (f 0%nat :: map f (seq 1 m')) with (map f (seq 0 (S m'))).
  rewrite seq_S, map_app. cbn [map Nat.add]. apply last_last.
Qed.

Lemma sub_limits_slice (ax : Raxis) (a b c : oz) s e :
  slice_adjust (zlen (a_cs ax)) (a, b, None) = Some (s, e, 1%Z) ->
  (0 <= s)%Z ->
  sub_limits ax (ISlice a b c) =
  if (s <? e)%Z then Ok (nthR (Z.to_nat s) (bdry_vec ax), nthR (Z.to_nat e) (bdry_vec ax)) else IndexErr.
Proof.
  intros Ha Hs. unfold sub_limits, slice_idx. rewrite Ha.
  destruct (s <? e)%Z eqn:Ese.
  - apply Z.ltb_lt in Ese. unfold zrange. rewrite range_len_unit by lia.
    destruct (Z.to_nat (e - s)) as [|m'] eqn:Em; [lia|].
    destruct (map_seq_head_last (fun i => (s + Z.of_nat i * 1)%Z) m') as (r & -> & Hlast).
    rewrite Hlast. unfold nth0. numR. repeat f_equal; lia.
  - apply Z.ltb_ge in Ese. unfold zrange. rewrite range_len_empty by lia. reflexivity.
Qed.
Lemma sub_axis_slice (ax : Raxis) (a b c : oz) s e k lim :
  slice_adjust (zlen (a_cs ax)) (a, b, c) = Some (s, e, k) ->
  sub_axis ax (ISlice a b c) lim = Ok (mkAxis (fst lim) (snd lim) (take_idx (a_cs ax) (zrange s e k))).
Proof. intros Ha. unfold sub_axis, slice_idx. rewrite Ha. reflexivity. Qed.

(* one axis of p[...]: slice a:b:c with positive step on a valid axis *)
Lemma getitem_axis_slice (ax : Raxis) (a b c : oz) s e k :
  valid ax -> slice_adjust (zlen (a_cs ax)) (a, b, c) = Some (s, e, k) -> (0 < k)%Z ->
  (e <= s)%Z /\ sub_limits ax (ISlice a b c) = IndexErr
  \/ (s < e)%Z /\
     sub_limits ax (ISlice a b c) = Ok (a_lo (sub_ax ax s e k), a_hi (sub_ax ax s e k)) /\
     sub_axis ax (ISlice a b c) (a_lo (sub_ax ax s e k), a_hi (sub_ax ax s e k)) = Ok (sub_ax ax s e k) /\
     valid (sub_ax ax s e k).
Proof.
  intros Hv Ha Hk.
  destruct (slice_adjust_pos (zlen (a_cs ax)) a b c s e k ltac:(unfold zlen; lia) Ha Hk) as (Hs & He & Ha1).
  rewrite (sub_limits_slice ax a b c s e Ha1 ltac:(lia)).
  destruct (s <? e)%Z eqn:Ese.
  - right. apply Z.ltb_lt in Ese. split; [exact Ese|]. split; [reflexivity|]. split.
    + rewrite (sub_axis_slice ax a b c s e k _ Ha). reflexivity.
    + apply sub_valid; auto; lia.
  - left. apply Z.ltb_ge in Ese. split; [exact Ese | reflexivity].
Qed.

(* ---------- integer indices ---------- *)
Lemma norm_int_in_range (its : bool) (i n : Z) (l : list item) (sh : list Z) :
  (- n <= i < n)%Z ->
  norm_ints its (IInt i :: l) (n :: sh) =
  bind (norm_ints its l sh) (fun r =>
    Ok ((if its then let i' := (if i <? 0 then i + n else i)%Z in ISlice (Some i') (Some (i' + 1)%Z) None
         else IInt i) :: r)).
Proof.
  intros Hi. cbn [norm_ints].
  replace ((n <=? (if i <? 0 then i + n else i))%Z || ((if i <? 0 then i + n else i) <? 0)%Z) with false;
    [reflexivity|].
  symmetry. apply orb_false_iff. destruct (i <? 0)%Z eqn:E; [apply Z.ltb_lt in E|apply Z.ltb_ge in E]; split.
  - apply Z.leb_gt. lia.
  - apply Z.ltb_ge. lia.
  - apply Z.leb_gt. lia.
  - apply Z.ltb_ge. lia.
Qed.
(* every integer outside [-n, n) is rejected *)
Lemma norm_int_out_of_range (its : bool) (i n : Z) (l : list item) (sh : list Z) :
  (i < - n \/ n <= i)%Z -> (0 <= n)%Z -> norm_ints its (IInt i :: l) (n :: sh) = IndexErr.
Proof.
  intros Hi Hn. cbn [norm_ints].
  replace ((n <=? (if i <? 0 then i + n else i))%Z || ((if i <? 0 then i + n else i) <? 0)%Z) with true;
    [reflexivity|].
  symmetry. apply orb_true_iff. destruct (i <? 0)%Z eqn:E; [apply Z.ltb_lt in E|apply Z.ltb_ge in E].
  - destruct Hi; [right; apply Z.ltb_lt; lia | lia].
  - left. apply Z.leb_le. lia.
Qed.
Lemma norm_int_below_minus_n_example : norm_ints true [IInt (-5)] [3%Z] = IndexErr.
Proof. reflexivity. Qed.
Lemma slice_adjust_cell (n i : Z) : (0 <= i < n)%Z ->
  slice_adjust n (Some i, Some (i + 1)%Z, None) = Some (i, (i + 1)%Z, 1%Z).
Proof.
  intros Hi. unfold slice_adjust. change (1 =? 0)%Z with false. change (1 <? 0)%Z with false. cbv iota.
  replace (i <? 0)%Z with false by (symmetry; apply Z.ltb_ge; lia).
  replace (i + 1 <? 0)%Z with false by (symmetry; apply Z.ltb_ge; lia).
  rewrite !Z.min_l by lia. reflexivity.
Qed.

(* p[i]: exactly cell i, with its grid point *)
Lemma getitem_axis_int (ax : Raxis) (i : Z) : valid ax -> (0 <= i < zlen (a_cs ax))%Z ->
  let it := ISlice (Some i) (Some (i + 1)%Z) None in
  let ax' := sub_ax ax i (i + 1) 1 in
  sub_limits ax it = Ok (a_lo ax', a_hi ax') /\ sub_axis ax it (a_lo ax', a_hi ax') = Ok ax' /\
  valid ax' /\
  a_cs ax' = [nthR (Z.to_nat i) (a_cs ax)] /\
  bdry_vec ax' = [nthR (Z.to_nat i) (bdry_vec ax); nthR (S (Z.to_nat i)) (bdry_vec ax)].
Proof.
  intros Hv Hi. cbv zeta.
  pose proof (slice_adjust_cell _ i Hi) as Ha.
  destruct (getitem_axis_slice ax (Some i) (Some (i + 1)%Z) None i (i + 1)%Z 1%Z Hv Ha ltac:(lia))
    as [[Hc _]|(_ & H1 & H2 & H3)]; [lia|].
  split; [exact H1|]. split; [exact H2|]. split; [exact H3|].
  assert (Hcs : a_cs (sub_ax ax i (i + 1) 1) = [nthR (Z.to_nat i) (a_cs ax)]).
  { assert (Hl : length (a_cs (sub_ax ax i (i + 1) 1)) = Z.to_nat (i + 1 - i)) by (apply unit_length; auto; lia).
    assert (Hn : (0 < Z.to_nat (i + 1 - i))%nat ->
                 nthR 0 (a_cs (sub_ax ax i (i + 1) 1)) = nthR (Z.to_nat i + 0) (a_cs ax)) by (apply unit_cs_nth; auto; lia).
    replace (Z.to_nat (i + 1 - i)) with 1%nat in * by lia.
    destruct (a_cs (sub_ax ax i (i + 1) 1)) as [|c0 [|c1 r]]; cbn [length] in Hl; try lia.
    cbn [nth] in Hn. rewrite Hn by lia. repeat f_equal. lia. }
  split; [exact Hcs|].
  unfold bdry_vec. rewrite Hcs. cbn [mids app]. unfold sub_ax; cbn [a_lo a_hi].
  repeat f_equal. lia.
Qed.

(* slices with a step > 1 (and index lists) keep the selected GRID POINTS and the hull of
   start:stop -- the cells of the result are NOT the selected cells *)
Lemma stepped_slice_cells_refuted :
  exists (ax : Raxis), valid ax /\
    nthR 1 (bdry_vec (sub_ax ax 0 4 2)) <> nthR 1 (bdry_vec ax).
Proof.
  exists (mkAxis 0 4 [1/2; 3/2; 5/2; 7/2]). split.
  - constructor; cbn; intuition (lra || lia).
  - unfold sub_ax, bdry_vec. cbn [a_cs a_lo a_hi].
    change (zrange 0 4 2) with [0%Z; 2%Z].
    change (Z.to_nat 0) with 0%nat. change (Z.to_nat 4) with 4%nat. change (Z.to_nat 2) with 2%nat.
    unfold take_idx. cbn [flat_map]. change (Z.to_nat 0) with 0%nat. change (Z.to_nat 2) with 2%nat.
    cbn [nth_error app mids nth]. numR'. lra.
Qed.

(* p[p.index(x)] is the one-cell partition whose cell contains x *)
Lemma index_then_getitem (ax : Raxis) (x : R) : valid ax -> a_lo ax <= x -> x <= a_hi ax ->
  let i := index_axis ax x in
  let ax' := sub_ax ax i (i + 1) 1 in
  (0 <= i < zlen (a_cs ax))%Z /\
  sub_limits ax (ISlice (Some i) (Some (i + 1)%Z) None) = Ok (a_lo ax', a_hi ax') /\
  sub_axis ax (ISlice (Some i) (Some (i + 1)%Z) None) (a_lo ax', a_hi ax') = Ok ax' /\
  valid ax' /\ length (a_cs ax') = 1%nat /\ a_lo ax' <= x <= a_hi ax'.
Proof.
  intros Hv Hlo Hhi. cbv zeta.
  destruct (index_axis_spec ax x Hv Hlo Hhi) as (Hi & Hk & Hin). rewrite Hi.
  set (k := cell_of ax x) in *.
  assert (Hr : (0 <= Z.of_nat k < zlen (a_cs ax))%Z) by (unfold zlen; lia).
  destruct (getitem_axis_int ax (Z.of_nat k) Hv Hr) as (H1 & H2 & H3 & H4 & H5).
  split; [exact Hr|]. split; [exact H1|]. split; [exact H2|]. split; [exact H3|].
  split; [rewrite H4; reflexivity|].
  unfold sub_ax; cbn [a_lo a_hi]. rewrite Nat2Z.id.
  replace (Z.to_nat (Z.of_nat k + 1)) with (S k) by lia. exact Hin.
Qed.

(* general positive step: selected grid points, hull limits, valid result *)
Lemma getitem_axis_step (ax : Raxis) (s e k : Z) :
  valid ax -> (0 <= s)%Z -> (s < e)%Z -> (e <= zlen (a_cs ax))%Z -> (0 < k)%Z ->
  let ax' := sub_ax ax s e k in
  valid ax' /\
  a_lo ax' = nthR (Z.to_nat s) (bdry_vec ax) /\ a_hi ax' = nthR (Z.to_nat e) (bdry_vec ax) /\
  length (a_cs ax') = Z.to_nat (range_len s e k) /\
  forall j, (j < Z.to_nat (range_len s e k))%nat ->
    nthR j (a_cs ax') = nthR (Z.to_nat (s + Z.of_nat j * k)) (a_cs ax).
Proof.
  intros Hv Hs Hse He Hk. cbv zeta.
  split; [apply sub_valid; assumption|]. split; [reflexivity|]. split; [reflexivity|].
  split; [apply sub_cs_length; assumption|]. intros j Hj. apply sub_cs_nth; assumption.
Qed.
(* unit step: cell j of the result is cell s + j of the original *)
Lemma getitem_axis_unit (ax : Raxis) (s e : Z) :
  valid ax -> (0 <= s)%Z -> (s < e)%Z -> (e <= zlen (a_cs ax))%Z ->
  let ax' := sub_ax ax s e 1 in
  length (a_cs ax') = Z.to_nat (e - s) /\
  (forall j, (j < Z.to_nat (e - s))%nat -> nthR j (a_cs ax') = nthR (Z.to_nat s + j) (a_cs ax)) /\
  (forall j, (j <= Z.to_nat (e - s))%nat -> nthR j (bdry_vec ax') = nthR (Z.to_nat s + j) (bdry_vec ax)).
Proof.
  intros Hv Hs Hse He. cbv zeta.
  split; [apply unit_length; assumption|].
  split; [intros j Hj; apply unit_cs_nth; assumption | intros j Hj; apply unit_bdry_nth; assumption].
Qed.
