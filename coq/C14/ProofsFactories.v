(* C14/ProofsFactories.v -- nonuniform_partition / uniform_partition_fromgrid: default limits. *)
From Coq Require Import ZArith QArith Reals Lra Lia List Bool.
From Verif Require Import Base.Num Base.Vec C14.Model C14.Proofs C14.ProofsUniform.
Import ListNotations.
Local Open Scope R_scope.

Section Defaults.
Variable cs : Rvec.
Hypothesis Hs : sincr cs.
Hypothesis Hn : (2 <= length cs)%nat.
Let n := length cs.
Let c0 := nthR 0 cs.
Let c1 := nthR 1 cs.
Let cl := nthR (n - 1) cs.
Let cp := nthR (n - 2) cs.

Lemma gaps_pos : c0 < c1 /\ cp < cl /\ c0 < cl /\ c1 <= cl.
Proof.
  unfold c0, c1, cl, cp, n. split; [apply sincr_nth; auto; lia|].
  split; [apply sincr_nth; auto; lia|]. split; [apply sincr_nth; auto; lia|].
  destruct (Nat.eq_dec (length cs) 2) as [E|E]; [rewrite E; cbn [Nat.sub]; lra|].
  left. apply sincr_nth; auto; lia.
Qed.

(* the axis nonuniform_partition builds when neither limit is given *)
Definition default_axis (fl : bool * bool) : Raxis :=
  mkAxis (if fst fl then c0 else c0 - (c1 - c0) / 2) (if snd fl then cl else cl + (cl - cp) / 2) cs.

Lemma nonuniform_default (fl : bool * bool) :
  nonuniform_axis cs None None fl = Ok (default_axis fl).
Proof.
  unfold nonuniform_axis, default_axis. destruct fl as [bl br]. cbn [fst snd].
  assert (E : exists a b r, cs = a :: b :: r).
  { destruct cs as [|a [|b r]]; cbn [length] in Hn; try lia. eauto. }
  destruct E as (a & b & r & E).
  assert (Hone : match cs with [_] => true | _ => false end = false) by (rewrite E; reflexivity).
  rewrite Hone, !orb_false_r. unfold hd0, last0, nth0. rewrite hd_nth, last_nth, last_gap_eq by exact Hn.
  fold n c0 c1 cl cp. numR'. destruct bl, br; reflexivity.
Qed.
Lemma default_axis_valid fl : valid (default_axis fl).
Proof.
  destruct gaps_pos as (H1 & H2 & H3 & H4). unfold default_axis.
  constructor; cbn [a_lo a_hi a_cs]; fold n; fold c0; fold cl; auto; try lia;
    destruct fl as [[|] [|]]; cbn [fst snd]; lra.
Qed.
Lemma default_axis_nodes_on_bdry fl : nodes_on_bdry (default_axis fl) = fl.
Proof.
  destruct gaps_pos as (H1 & H2 & H3 & H4). unfold nodes_on_bdry, default_axis, hd0, last0.
  cbn [a_lo a_hi a_cs]. rewrite hd_nth, last_nth. fold n c0 cl.
  destruct fl as [bl br]; cbn [fst snd]. f_equal.
  - destruct bl; [apply eqb_true; lra | apply eqb_false; lra].
  - destruct br; [apply eqb_true; lra | apply eqb_false; lra].
Qed.
(* the outermost nodes are the midpoints of their cells unless placed on the boundary *)
Lemma default_axis_fracs fl :
  bdry_fracs (default_axis fl) = (if fst fl then 1 / 2 else 1, if snd fl then 1 / 2 else 1).
Proof.
  destruct gaps_pos as (H1 & H2 & H3 & H4).
  rewrite bdry_fracs_two by exact Hn. unfold default_axis. cbn [a_lo a_hi a_cs].
  rewrite last_gap_eq by exact Hn. fold n c0 c1 cl cp.
  destruct fl as [[|] [|]]; cbn [fst snd]; f_equal; field; lra.
Qed.
(* uniform_partition_fromgrid with no limits given is the same axis *)
Lemma fromgrid_default : fromgrid_axis cs None None = Ok (default_axis (false, false)).
Proof.
  unfold fromgrid_axis, default_axis. cbn [fst snd].
  assert (E : exists a b r, cs = a :: b :: r).
  { destruct cs as [|a [|b r]]; cbn [length] in Hn; try lia. eauto. }
  destruct E as (a & b & r & E). rewrite E at 1 2. cbn [bind].
  unfold last0. rewrite last_nth, last_gap_eq by exact Hn. fold n cl cp.
  unfold c0, c1. rewrite E. cbn [nth]. numR'. reflexivity.
Qed.
End Defaults.

(* explicit limits are taken as they are (and contradict a nodes_on_bdry flag: ValueError) *)
Lemma nonuniform_given (cs : Rvec) (lo hi : R) :
  nonuniform_axis cs (Some lo) (Some hi) (false, false) = Ok (mkAxis lo hi cs).
Proof. reflexivity. Qed.
Lemma nonuniform_redundant (cs : Rvec) (lo : R) (omax : option R) (br : bool) :
  nonuniform_axis cs (Some lo) omax (true, br) = ValueErr.
Proof. unfold nonuniform_axis. destruct omax; reflexivity. Qed.
(* one point: the default interval is the point itself *)
Lemma nonuniform_single (c : R) fl : nonuniform_axis [c] None None fl = Ok (mkAxis c c [c]).
Proof. unfold nonuniform_axis. destruct fl as [[|] [|]]; reflexivity. Qed.

Lemma nonuniform_default_spec (cs : Rvec) (fl : bool * bool) : sincr cs -> (2 <= length cs)%nat ->
  let ax := default_axis cs fl in
  nonuniform_axis cs None None fl = Ok ax /\ valid ax /\ nodes_on_bdry ax = fl /\
  bdry_fracs ax = (if fst fl then 1 / 2 else 1, if snd fl then 1 / 2 else 1) /\
  fromgrid_axis cs None None = Ok (default_axis cs (false, false)).
Proof.
  intros Hs Hn. cbv zeta.
  split; [apply nonuniform_default; assumption|]. split; [apply default_axis_valid; assumption|].
  split; [apply default_axis_nodes_on_bdry; assumption|].
  split; [apply default_axis_fracs; assumption | apply fromgrid_default; assumption].
Qed.

(* ---------- boundary_cell_fractions on any valid axis with >= 2 points ---------- *)
Lemma bdry_fracs_spec (ax : Raxis) : valid ax -> (2 <= length (a_cs ax))%nat ->
  let n := length (a_cs ax) in
  let l := fst (bdry_fracs ax) in let r := snd (bdry_fracs ax) in
  l * (nthR 1 (a_cs ax) - nthR 0 (a_cs ax)) = nthR 1 (bdry_vec ax) - nthR 0 (bdry_vec ax) /\
  r * (nthR (n - 1) (a_cs ax) - nthR (n - 2) (a_cs ax)) = nthR n (bdry_vec ax) - nthR (n - 1) (bdry_vec ax) /\
  1 / 2 <= l /\ 1 / 2 <= r /\
  (l = 1 / 2 <-> nthR 0 (a_cs ax) = a_lo ax) /\ (r = 1 / 2 <-> nthR (n - 1) (a_cs ax) = a_hi ax).
Proof.
  intros Hv Hn. cbv zeta. rewrite bdry_fracs_two by exact Hn. cbn [fst snd].
  rewrite last_gap_eq by exact Hn.
  destruct (gaps_pos (a_cs ax) (v_incr ax Hv) Hn) as (H1 & H2 & H3 & H4).
  pose proof (v_lo ax Hv) as Hlo. pose proof (v_hi ax Hv) as Hhi.
  rewrite bdry_nth_0, bdry_nth_last by lia. rewrite !bdry_nth_mid by lia.
  replace (length (a_cs ax) - 1 - 1)%nat with (length (a_cs ax) - 2)%nat by lia. cbn [Nat.sub].
  set (c0 := nthR 0 (a_cs ax)) in *. set (c1 := nthR 1 (a_cs ax)) in *.
  set (cl := nthR (length (a_cs ax) - 1) (a_cs ax)) in *. set (cp := nthR (length (a_cs ax) - 2) (a_cs ax)) in *.
  assert (Hd0 : 0 < / (c1 - c0)) by (apply Rinv_0_lt_compat; lra).
  assert (Hd1 : 0 < / (cl - cp)) by (apply Rinv_0_lt_compat; lra).
  split; [field; lra|]. split; [field; lra|].
  assert (Ha : 0 <= (c0 - a_lo ax) / (c1 - c0)) by (apply Rmult_le_pos; lra).
  assert (Hb : 0 <= (a_hi ax - cl) / (cl - cp)) by (apply Rmult_le_pos; lra).
  split; [lra|]. split; [lra|]. split; split; intros Hq.
  - assert (Hz : (c0 - a_lo ax) / (c1 - c0) = 0) by lra.
    unfold Rdiv in Hz. apply Rmult_integral in Hz. destruct Hz; lra.
  - rewrite Hq. unfold Rdiv. rewrite Rminus_diag_eq by reflexivity. lra.
  - assert (Hz : (a_hi ax - cl) / (cl - cp) = 0) by lra.
    unfold Rdiv in Hz. apply Rmult_integral in Hz. destruct Hz; lra.
  - rewrite Hq. unfold Rdiv. rewrite Rminus_diag_eq by reflexivity. lra.
Qed.

(* ---------- uniform_partition_fromgrid with explicit limits (dict / sequence arguments) ---------- *)
Definition fromgrid_lo (cs : Rvec) (omin : option R) : R :=
  match omin with Some v => v | None => nthR 0 cs - (nthR 1 cs - nthR 0 cs) / 2 end.
Definition fromgrid_hi (cs : Rvec) (omax : option R) : R :=
  match omax with
  | Some v => v
  | None => nthR (length cs - 1) cs + (nthR (length cs - 1) cs - nthR (length cs - 2) cs) / 2
  end.
Lemma fromgrid_axis_spec (cs : Rvec) (omin omax : option R) : (2 <= length cs)%nat ->
  fromgrid_axis cs omin omax = Ok (mkAxis (fromgrid_lo cs omin) (fromgrid_hi cs omax) cs).
Proof.
  intros Hn. unfold fromgrid_axis, fromgrid_lo, fromgrid_hi.
  assert (E : exists a b r, cs = a :: b :: r).
  { destruct cs as [|a [|b r]]; cbn [length] in Hn; try lia. eauto. }
  destruct E as (a & b & r & E).
  assert (H1 : match cs with c0 :: c1 :: _ => Ok (c0 - (c1 - c0) / ntwo)%num | _ => @ValueErr R end
               = Ok (nthR 0 cs - (nthR 1 cs - nthR 0 cs) / 2)).
  { rewrite E. cbn [nth]. numR'. reflexivity. }
  assert (H2 : match cs with _ :: _ :: _ => Ok (last0 cs + last_gap cs / ntwo)%num | _ => @ValueErr R end
               = Ok (nthR (length cs - 1) cs + (nthR (length cs - 1) cs - nthR (length cs - 2) cs) / 2)).
  { rewrite last_gap_eq by exact Hn. unfold last0. rewrite last_nth. rewrite E at 1. numR'. reflexivity. }
  destruct omin, omax; cbn [bind]; rewrite ?H1, ?H2; cbn [bind]; reflexivity.
Qed.
(* the result is accepted by RectPartition iff the given limits enclose the grid *)
Lemma fromgrid_axis_valid (cs : Rvec) (omin omax : option R) : sincr cs -> (2 <= length cs)%nat ->
  (forall v, omin = Some v -> v <= nthR 0 cs) ->
  (forall v, omax = Some v -> nthR (length cs - 1) cs <= v) ->
  valid (mkAxis (fromgrid_lo cs omin) (fromgrid_hi cs omax) cs).
Proof.
  intros Hs Hn Hlo Hhi. destruct (gaps_pos cs Hs Hn) as (H1 & H2 & H3 & H4).
  assert (Ha : fromgrid_lo cs omin <= nthR 0 cs).
  { unfold fromgrid_lo. destruct omin as [v|]; [apply Hlo; reflexivity | lra]. }
  assert (Hb : nthR (length cs - 1) cs <= fromgrid_hi cs omax).
  { unfold fromgrid_hi. destruct omax as [v|]; [apply Hhi; reflexivity | lra]. }
  constructor; cbn [a_lo a_hi a_cs]; auto; try lia; lra.
Qed.
Lemma fromgrid_axis_single (c : R) (omax : option R) : fromgrid_axis [c] None omax = ValueErr.
Proof. reflexivity. Qed.
Lemma fromgrid_axis_single_given (c lo hi : R) : fromgrid_axis [c] (Some lo) (Some hi) = Ok (mkAxis lo hi [c]).
Proof. reflexivity. Qed.

(* ---------- one grid point with explicit limits (nonuniform_partition / fromgrid) ---------- *)
Definition or_default (o : option R) (d : R) : R := match o with Some v => v | None => d end.
Lemma nonuniform_single_limits (c : R) (omin omax : option R) (fl : bool * bool) :
  (omin <> None -> fst fl = false) -> (omax <> None -> snd fl = false) ->
  nonuniform_axis [c] omin omax fl = Ok (mkAxis (or_default omin c) (or_default omax c) [c]).
Proof.
  intros H1 H2. unfold nonuniform_axis, or_default, hd0, last0.
  destruct omin as [lo|], omax as [hi|], fl as [[|] [|]]; cbn [fst snd] in *;
    try (specialize (H1 ltac:(discriminate)); discriminate);
    try (specialize (H2 ltac:(discriminate)); discriminate); reflexivity.
Qed.
Lemma single_point_axis_valid (c lo hi : R) : lo <= c <= hi -> valid (mkAxis lo hi [c]).
Proof. intros [H1 H2]. constructor; cbn; auto; lra. Qed.
(* the user's limits are never discarded, for any number of grid points *)
Lemma nonuniform_given_limits_kept (cs : Rvec) (lo hi : R) (omin omax : option R) (fl : bool * bool) (ax : Raxis) :
  nonuniform_axis cs omin omax fl = Ok ax ->
  (omin = Some lo -> a_lo ax = lo) /\ (omax = Some hi -> a_hi ax = hi) /\ a_cs ax = cs.
Proof.
  unfold nonuniform_axis. intros Hax.
  destruct omin as [l|], omax as [h|], fl as [[|] [|]]; try discriminate Hax;
    inversion Hax; subst; cbn [a_lo a_hi a_cs]; repeat split; intros E; try discriminate E; inversion E; reflexivity.
Qed.
