(* C14/Corr.v -- correspondence checkers (executed at Q by the shards).
   A case = one operation of the anchored code with its inputs + what the
   implementation returned (every observable of the resulting partition, or
   the exception class).  [check] runs the model and compares. *)
From Coq Require Import ZArith QArith Qround List Bool.
From Verif Require Import Base.Num Base.Check C14.Model.
Import ListNotations.

Definition part := list (axis Q).

(* everything the harness reads off a RectPartition *)
Record pobs := {
  ob_lo : list Q; ob_hi : list Q;            (* set.min_pt, set.max_pt *)
  ob_cs : list (list Q);                     (* grid.coord_vectors *)
  ob_bd : list (list Q);                     (* cell_boundary_vecs *)
  ob_sz : list (list Q);                     (* cell_sizes_vecs *)
  ob_fr : list (list Q);                     (* boundary_cell_fractions, [l; r] per axis *)
  ob_nb : list (bool * bool);                (* nodes_on_bdry_byaxis *)
  ob_sd : list (option Q) }.                 (* cell_sides, NaN = None *)

Inductive err := EValue | EIndex | EType | EOther.
Inductive iout := IPart (o : pobs) | IZs (l : list Z) | IQs (l : list Q) | IErr (e : err).

Definition obs_of (p : part) : pobs := {|
  ob_lo := map a_lo p; ob_hi := map a_hi p; ob_cs := map a_cs p;
  ob_bd := map bdry_vec p; ob_sz := map cell_sizes p;
  ob_fr := map (fun ax => let '(l, r) := bdry_fracs ax in [l; r]) p;
  ob_nb := map nodes_on_bdry p; ob_sd := map cell_side p |}.

Definition tol : Q := 1 # 1000000000000.
Definition qs_close := Qsclose tol tol.
Definition qss_close := Qssclose tol tol.
Definition bb_eq (a b : bool * bool) : bool := Bool.eqb (fst a) (fst b) && Bool.eqb (snd a) (snd b).
Definition pobs_close (impl model : pobs) : bool :=
  qs_close (ob_lo impl) (ob_lo model) && qs_close (ob_hi impl) (ob_hi model) &&
  qss_close (ob_cs impl) (ob_cs model) && qss_close (ob_bd impl) (ob_bd model) &&
  qss_close (ob_sz impl) (ob_sz model) && qss_close (ob_fr impl) (ob_fr model) &&
  all2 bb_eq (ob_nb impl) (ob_nb model) && all2 (opt_close tol tol) (ob_sd impl) (ob_sd model).

Inductive bysel := ByOne (s : axsel) | BySeq (l : list Z).

Inductive op :=
  | OInit (lo hi : list Q) (cs : list (list Q))
  | OIndex (p : part) (x : list Q) (floating : bool)
  | OGet (p : part) (e : iexpr)
  | OInsert (p : part) (index : Z) (parts : list part)
  | OAppend (p : part) (parts : list part)
  | OSqueeze (p : part) (s : axsel)
  | OByaxis (p : part) (s : bysel)
  | OFromIntv (lo hi : list Q) (shape : list Z) (flags : list (bool * bool))
  | OUniform (xmin xmax : list (option Q)) (n : list (option Z)) (dx : list (option Q))
             (flags : list (bool * bool))
  | OFromGrid (cs : list (list Q)) (omin omax : list (option Q))
  | ONonuniform (cs : list (list Q)) (omin omax : list (option Q)) (flags : list (bool * bool)).

Record case := { c_op : op; c_out : iout }.

(* Python round(): nearest integer (ties never occur in accepted inputs) *)
Definition qround (x : Q) : Z := Qfloor (x + (1 # 2)).

Inductive mout := MPart (r : res part) | MZs (r : res (list Z)) | MQs (r : res (list Q)).

Definition run (o : op) : mout :=
  match o with
  | OInit lo hi cs => MPart (mk_part_raw lo hi cs)
  | OIndex p x false => MZs (index p x)
  | OIndex p x true => MQs (findex p x)
  | OGet p e => MPart (getitem p e)
  | OInsert p i parts => MPart (insert p i parts)
  | OAppend p parts => MPart (append p parts)
  | OSqueeze p s => MPart (squeeze p s)
  | OByaxis p (ByOne s) => MPart (byaxis1 p s)
  | OByaxis p (BySeq l) => MPart (byaxis_seq p l)
  | OFromIntv lo hi shape flags => MPart (upart_fromintv lo hi shape flags)
  | OUniform xmin xmax n dx flags => MPart (uniform_partition qround xmin xmax n dx flags)
  | OFromGrid cs omin omax => MPart (upart_fromgrid cs omin omax)
  | ONonuniform cs omin omax flags => MPart (nonuniform_partition cs omin omax flags)
  end.

Definition res_match {A B} (f : A -> B -> bool) (impl : iout) (get : iout -> option A) (r : res B) : bool :=
  match r, impl with
  | Ok b, _ => match get impl with Some a => f a b | None => false end
  | ValueErr, IErr EValue => true
  | IndexErr, IErr EIndex => true
  | TypeErr, IErr EType => true
  | _, _ => false
  end.

Definition check (c : case) : bool :=
  match run (c_op c) with
  | MPart r => res_match (fun o p => pobs_close o (obs_of p)) (c_out c)
                 (fun i => match i with IPart o => Some o | _ => None end) r
  | MZs r => res_match Zeqs (c_out c) (fun i => match i with IZs l => Some l | _ => None end) r
  | MQs r => res_match qs_close (c_out c) (fun i => match i with IQs l => Some l | _ => None end) r
  end.
