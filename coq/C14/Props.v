(* C14/Props.v -- property theorems only; each is closed by [exact] of a lemma
   from C14/Proofs.v and followed by Print Assumptions.  The model (C14/Model.v)
   is hand-written from odl/discr/partition.py, grid.py, domain.py, normalize.py
   and tied to the code by the correspondence shards (C14/Corr.v).

   An axis of a partition is (a_lo, a_hi, a_cs) = (set.min_pt[ax], set.max_pt[ax],
   grid.coord_vectors[ax]);  [valid ax] is exactly what RectPartition.__init__
   accepts ([axis_ok ax = true], lemma [valid_is_what_the_code_accepts]):
   lo <= hi, at least one grid point, strictly increasing, all inside [lo, hi].
   [nthR i l] is [nth i l 0]. *)
From Coq Require Import ZArith QArith Reals List Bool.
From Verif Require Import Base.Num Base.Vec Gen.Partition C14.Model C14.ProofsGen C14.Proofs C14.ProofsIndex C14.ProofsUniform C14.ProofsSlice C14.ProofsNd C14.ProofsAxes C14.ProofsFactories C14.ProofsByaxis C14.ProofsList Base.Transfer C14.Transfer.
Import ListNotations.
Local Open Scope R_scope.

Theorem valid_is_what_the_code_accepts : forall ax : axis R, axis_ok ax = true <-> valid ax.
Proof. exact axis_ok_valid. Qed.
Print Assumptions valid_is_what_the_code_accepts.

(* ------------------------------------------------------------------ *)
(* T1. Tiling: for every valid axis with n grid points (any n >= 1, any
   non-uniform vector, any limits) the boundary vector has n+1 entries, starts
   and ends exactly at the domain limits, is strictly increasing, and node i
   lies in cell i = [b_i, b_(i+1)]. *)
Theorem boundaries_start_and_end_at_the_limits : forall ax : axis R, valid ax ->
  length (bdry_vec ax) = S (length (a_cs ax)) /\
  nthR 0 (bdry_vec ax) = a_lo ax /\
  nthR (length (a_cs ax)) (bdry_vec ax) = a_hi ax.
Proof. exact bdry_limits. Qed.
Print Assumptions boundaries_start_and_end_at_the_limits.

(* strictly increasing -- for >= 2 points always; for a single point iff the
   interval is not degenerate (lo < hi) *)
Theorem boundaries_strictly_increasing : forall (ax : axis R) (i : nat), valid ax ->
  (2 <= length (a_cs ax))%nat \/ a_lo ax < a_hi ax ->
  (i < length (a_cs ax))%nat ->
  nthR i (bdry_vec ax) < nthR (S i) (bdry_vec ax).
Proof. exact bdry_step. Qed.
Print Assumptions boundaries_strictly_increasing.

(* the unrestricted statement "strictly increasing for EVERY partition" is false
   of the faithful model: a zero-extent axis (e.g. nonuniform_partition(1)) has
   boundaries [c, c].  Weak monotonicity holds always. *)
Theorem boundaries_strictly_increasing_refuted :
  exists ax : axis R, valid ax /\ ~ sincr (bdry_vec ax).
Proof. exact bdry_strict_refuted. Qed.
Theorem boundaries_weakly_increasing : forall (ax : axis R) (i : nat), valid ax ->
  (i < length (a_cs ax))%nat -> nthR i (bdry_vec ax) <= nthR (S i) (bdry_vec ax).
Proof. exact bdry_step_weak. Qed.
Print Assumptions boundaries_weakly_increasing.

Theorem each_grid_point_in_its_own_cell : forall (ax : axis R) (i : nat), valid ax ->
  (i < length (a_cs ax))%nat ->
  nthR i (bdry_vec ax) <= nthR i (a_cs ax) <= nthR (S i) (bdry_vec ax).
Proof. exact node_in_cell. Qed.
Print Assumptions each_grid_point_in_its_own_cell.

(* T1. cell_sizes_vecs: for >= 2 points entry i is exactly the width of cell i,
   hence the sizes sum to the extent. *)
Theorem cell_sizes_are_the_cell_widths : forall (ax : axis R) (i : nat),
  (2 <= length (a_cs ax))%nat -> (i < length (a_cs ax))%nat ->
  nthR i (cell_sizes ax) = nthR (S i) (bdry_vec ax) - nthR i (bdry_vec ax).
Proof. exact cell_sizes_nth. Qed.
Print Assumptions cell_sizes_are_the_cell_widths.

Theorem cell_sizes_sum_to_extent_partial : forall ax : axis R, valid ax ->
  (2 <= length (a_cs ax))%nat -> sumf (cell_sizes ax) = a_hi ax - a_lo ax.
Proof. exact cell_sizes_sum. Qed.
Print Assumptions cell_sizes_sum_to_extent_partial.

(* Full statement  "forall ax, valid ax -> sumf (cell_sizes ax) = a_hi ax - a_lo ax"
   is FALSE of the faithful model (finding C14/cell_sizes-single-point-axis,
   documented in the docstring: "For axes with 1 grid point, cell size is set to 0.0"). *)
Theorem cell_sizes_sum_to_extent_refuted :
  exists ax : axis R, valid ax /\ sumf (cell_sizes ax) <> a_hi ax - a_lo ax.
Proof. exact cell_sizes_sum_refuted. Qed.
Theorem cell_sizes_single_point : forall lo hi c : R, cell_sizes (mkAxis lo hi [c]) = [0].
Proof. exact cell_sizes_single. Qed.

Example a_valid_axis_exists : valid (mkAxis 0 3 [1/2; 1; 5/2]).
Proof. exact example_axis_valid. Qed.

(* ------------------------------------------------------------------ *)
(* T1. index(p): for every valid axis (any number of points, any spacing) and
   every point x of the interval, the returned integer k = cell_of ax x is a
   cell number (0 <= k < n) and x lies in that cell  [b_k, b_(k+1)]. *)
Theorem index_returns_the_containing_cell : forall (ax : axis R) (x : R),
  valid ax -> a_lo ax <= x -> x <= a_hi ax ->
  index_axis ax x = Z.of_nat (cell_of ax x) /\
  (cell_of ax x < length (a_cs ax))%nat /\
  nthR (cell_of ax x) (bdry_vec ax) <= x <= nthR (S (cell_of ax x)) (bdry_vec ax).
Proof. exact index_axis_spec. Qed.
Print Assumptions index_returns_the_containing_cell.

(* floating=True: f = k + (distance from the left boundary of cell k) / (width of cell k),
   stated without division:  b_k + (f - k) * (b_(k+1) - b_k) = x  and  k <= f <= k + 1,
   where k is the integer index of the same point. *)
Theorem floating_index_is_the_fractional_position : forall (ax : axis R) (x : R),
  valid ax -> a_lo ax <= x -> x <= a_hi ax ->
  let k := cell_of ax x in let f := findex_axis ax x in
  nthR k (bdry_vec ax) + (f - INR k) * (nthR (S k) (bdry_vec ax) - nthR k (bdry_vec ax)) = x /\
  INR k <= f <= INR k + 1.
Proof. exact findex_spec. Qed.
Print Assumptions floating_index_is_the_fractional_position.

(* which cell, exactly: strictly inside cell j -> j; on edge j -> the cell to the
   right of the edge, except for the last edge (-> last cell). *)
Theorem index_interior_point : forall (ax : axis R) (x : R) (j : nat),
  valid ax -> a_lo ax <= x -> x <= a_hi ax -> sincr (bdry_vec ax) ->
  (j < length (a_cs ax))%nat -> nthR j (bdry_vec ax) < x < nthR (S j) (bdry_vec ax) ->
  cell_of ax x = j.
Proof. exact cell_of_interior_all. Qed.
Theorem index_edge_point : forall (ax : axis R) (x : R) (j : nat),
  valid ax -> sincr (bdry_vec ax) -> (j <= length (a_cs ax))%nat -> x = nthR j (bdry_vec ax) ->
  cell_of ax x = if (j =? length (a_cs ax))%nat then (length (a_cs ax) - 1)%nat else j.
Proof. exact cell_of_edge_all. Qed.
Print Assumptions index_edge_point.

(* N-d: membership in the set is checked first (TypeError outside), then every axis
   is treated independently by the 1-d rule above. *)
Theorem index_is_axiswise : forall (p : list (axis R)) (x : list R),
  (in_set p x = true -> index p x = Ok (map2 index_axis p x) /\ findex p x = Ok (map2 findex_axis p x)) /\
  (in_set p x = false -> index p x = TypeErr /\ findex p x = TypeErr).
Proof. exact index_nd. Qed.
Theorem in_set_means_inside_every_interval : forall (p : list (axis R)) (x : list R),
  in_set p x = true <-> Forall2 (fun ax v => a_lo ax <= v <= a_hi ax) p x.
Proof. exact in_set_spec. Qed.

(* ------------------------------------------------------------------ *)
(* T1. Uniform partitions (uniform_partition_fromintv -> uniform_grid_fromintv, the four
   gmin/gmax formulas + np.linspace): for every n >= 2, every interval xmin < xmax and
   every per-side nodes_on_bdry pair fl = (b_l, b_r), with
        s = (xmax - xmin) / (n - (b_l + b_r)/2)          [half_count fl = (b_l + b_r)/2]
   the result is a valid partition with n nodes  x_i = xmin + (0 | s/2) + i*s,
   "cell side times cell count reproduces the extent":  s * (n - (b_l+b_r)/2) = xmax - xmin,
   cell_sides reports exactly s, the nodes sit on the boundary exactly on the requested
   sides (nodes_on_bdry_byaxis = fl), and the boundary cell fractions are 1/2 resp. 1. *)
Theorem uniform_partition_side_count_extent_partial : forall (n : Z) (xmin xmax : R) (fl : bool * bool),
  (2 <= n)%Z -> xmin < xmax ->
  let s := (xmax - xmin) / (IZR n - half_count fl) in
  let ax := mkAxis xmin xmax (ugrid_axis n xmin xmax fl) in
  valid ax /\
  length (a_cs ax) = Z.to_nat n /\
  (forall i, (i < Z.to_nat n)%nat ->
     nthR i (a_cs ax) = xmin + (if fst fl then 0 else s / 2) + INR i * s) /\
  s * (IZR n - half_count fl) = xmax - xmin /\
  cell_side ax = Some s /\
  nodes_on_bdry ax = fl /\
  bdry_fracs ax = (if fst fl then 1 / 2 else 1, if snd fl then 1 / 2 else 1).
Proof. exact uniform_axis_spec. Qed.
Print Assumptions uniform_partition_side_count_extent_partial.

(* shape 1: the single node goes to xmin / xmax / the midpoint, cell_sides reports the extent *)
Theorem uniform_partition_single_point : forall (xmin xmax : R) (fl : bool * bool), xmin <= xmax ->
  let ax := mkAxis xmin xmax (ugrid_axis 1 xmin xmax fl) in
  valid ax /\
  a_cs ax = [match fl with (true, _) => xmin | (false, true) => xmax | (false, false) => (xmin + xmax) / 2 end] /\
  cell_side ax = Some (xmax - xmin).
Proof. exact uniform_single_point_spec. Qed.
Print Assumptions uniform_partition_single_point.

(* Full statement (all n >= 1):  cell_side * (n - (b_l+b_r)/2) = extent  and  nodes_on_bdry = fl.
   FALSE of the faithful model for n = 1 when a node is requested on the boundary of a
   non-degenerate interval (finding C14/uniform-one-point-nodes-on-bdry). *)
Theorem uniform_partition_side_count_extent_refuted :
  exists (xmin xmax : R) (fl : bool * bool), xmin < xmax /\
    forall sd, cell_side (mkAxis xmin xmax (ugrid_axis 1 xmin xmax fl)) = Some sd ->
    sd * (1 - half_count fl) <> xmax - xmin.
Proof. exact uniform_single_point_refuted. Qed.
Theorem uniform_partition_placement_refuted :
  exists (xmin xmax : R), xmin < xmax /\
    nodes_on_bdry (mkAxis xmin xmax (ugrid_axis 1 xmin xmax (true, true))) <> (true, true).
Proof. exact uniform_single_point_placement_refuted. Qed.

(* T1. Completion of the missing argument in uniform_partition: whichever ONE of min_pt, max_pt, shape,
   cell_sides is left out (or none), a consistent quadruple
        xmax = xmin + (n - (b_l+b_r)/2) * dx,  dx <> 0
   is completed to the same (xmin, xmax, n).  [rnd] is Python's round(); all that is used is
   that it returns k on the float k. *)
Theorem every_consistent_parameter_subset_gives_the_same_axis :
  forall (rnd : R -> Z) (d : dropped) (xmin xmax : R) (n : Z) (dx : R) (fl : bool * bool),
  (forall k : Z, rnd (IZR k) = k) -> dx <> 0 ->
  xmax = xmin + (IZR n - half_count fl) * dx ->
  complete_given rnd d xmin xmax n dx fl = Ok (xmin, xmax, n).
Proof. exact complete_axis_consistent. Qed.
Print Assumptions every_consistent_parameter_subset_gives_the_same_axis.

(* N-d, a different parameter dropped in every axis: uniform_partition(...) is the partition
   uniform_partition_fromintv(IntervalProd(xmin, xmax), shape, nodes_on_bdry). *)
Theorem every_consistent_parameter_subset_gives_the_same_partition :
  forall (rnd : R -> Z) (l : list axis_spec),
  (forall k : Z, rnd (IZR k) = k) -> Forall consistent l ->
  uniform_partition rnd (map (fun a => fst (fst (fst (g4 a)))) l) (map (fun a => snd (fst (fst (g4 a)))) l)
                    (map (fun a => snd (fst (g4 a))) l) (map (fun a => snd (g4 a)) l) (map s_fl l)
  = upart_fromintv (map s_min l) (map s_max l) (map s_n l) (map s_fl l).
Proof. exact uniform_partition_same. Qed.
Print Assumptions every_consistent_parameter_subset_gives_the_same_partition.

(* ... and that partition has exactly the requested cell side *)
Theorem completed_partition_has_the_requested_cell_side :
  forall (xmin xmax : R) (n : Z) (dx : R) (fl : bool * bool),
  (2 <= n)%Z -> 0 < dx -> xmax = xmin + (IZR n - half_count fl) * dx ->
  xmin < xmax /\ cell_side (mkAxis xmin xmax (ugrid_axis n xmin xmax fl)) = Some dx.
Proof. exact consistent_side. Qed.
Print Assumptions completed_partition_has_the_requested_cell_side.

(* ------------------------------------------------------------------ *)
(* T1. __getitem__, one axis.  After normalized_index_expression every entry is a slice
   a:b:c; Python's slice arithmetic (slice_adjust = PySlice_AdjustIndices) turns it into
   (s, e, k).  For every valid axis and every slice with positive step the code either raises
   IndexError (empty hull, e <= s) or returns the axis [sub_ax ax s e k], which is again a
   VALID axis (so all tiling theorems above apply to the result): *)
Theorem getitem_slice_per_axis : forall (ax : axis R) (a b c : option Z) (s e k : Z),
  valid ax -> slice_adjust (zlen (a_cs ax)) (a, b, c) = Some (s, e, k) -> (0 < k)%Z ->
  (e <= s)%Z /\ sub_limits ax (ISlice a b c) = IndexErr
  \/ (s < e)%Z /\
     sub_limits ax (ISlice a b c) = Ok (a_lo (sub_ax ax s e k), a_hi (sub_ax ax s e k)) /\
     sub_axis ax (ISlice a b c) (a_lo (sub_ax ax s e k), a_hi (sub_ax ax s e k)) = Ok (sub_ax ax s e k) /\
     valid (sub_ax ax s e k).
Proof. exact getitem_axis_slice. Qed.
Print Assumptions getitem_slice_per_axis.

(* unit step (also every integer index): the grid points AND the cells of the result are
   exactly grid points / cells s .. e-1 of the original. *)
Theorem getitem_unit_step_selects_exactly_the_cells : forall (ax : axis R) (s e : Z),
  valid ax -> (0 <= s)%Z -> (s < e)%Z -> (e <= zlen (a_cs ax))%Z ->
  let ax' := sub_ax ax s e 1 in
  length (a_cs ax') = Z.to_nat (e - s) /\
  (forall j, (j < Z.to_nat (e - s))%nat -> nthR j (a_cs ax') = nthR (Z.to_nat s + j) (a_cs ax)) /\
  (forall j, (j <= Z.to_nat (e - s))%nat -> nthR j (bdry_vec ax') = nthR (Z.to_nat s + j) (bdry_vec ax)).
Proof. exact getitem_axis_unit. Qed.
Print Assumptions getitem_unit_step_selects_exactly_the_cells.

(* any step k >= 1: the result has the selected GRID POINTS x_(s + j k) and covers the hull
   [b_s, b_e] of start:stop (the documented behaviour). *)
Theorem getitem_step_partial : forall (ax : axis R) (s e k : Z),
  valid ax -> (0 <= s)%Z -> (s < e)%Z -> (e <= zlen (a_cs ax))%Z -> (0 < k)%Z ->
  let ax' := sub_ax ax s e k in
  valid ax' /\
  a_lo ax' = nthR (Z.to_nat s) (bdry_vec ax) /\ a_hi ax' = nthR (Z.to_nat e) (bdry_vec ax) /\
  length (a_cs ax') = Z.to_nat (range_len s e k) /\
  forall j, (j < Z.to_nat (range_len s e k))%nat ->
    nthR j (a_cs ax') = nthR (Z.to_nat (s + Z.of_nat j * k)) (a_cs ax).
Proof. exact getitem_axis_step. Qed.
Print Assumptions getitem_step_partial.
(* Full statement "the cells of p[a:b:k] are exactly the selected cells" is FALSE of the
   faithful model for k > 1 (finding C14/getitem-step-slice-cells; documented: p[::2] keeps max_pt). *)
Theorem getitem_step_cells_refuted :
  exists (ax : axis R), valid ax /\ nthR 1 (bdry_vec (sub_ax ax 0 4 2)) <> nthR 1 (bdry_vec ax).
Proof. exact stepped_slice_cells_refuted. Qed.

(* integers: every i in [-n, n) becomes the one-cell slice i' : i'+1 (i' = i mod n);
   p[i] is exactly cell i' with its grid point. *)
Theorem int_index_normalisation : forall (its : bool) (i n : Z) (l : list item) (sh : list Z),
  (- n <= i < n)%Z ->
  norm_ints its (IInt i :: l) (n :: sh) =
  bind (norm_ints its l sh) (fun r =>
    Ok ((if its then let i' := (if i <? 0 then i + n else i)%Z in ISlice (Some i') (Some (i' + 1)%Z) None
         else IInt i) :: r)).
Proof. exact norm_int_in_range. Qed.
Theorem getitem_int_is_that_cell : forall (ax : axis R) (i : Z), valid ax -> (0 <= i < zlen (a_cs ax))%Z ->
  let it := ISlice (Some i) (Some (i + 1)%Z) None in
  let ax' := sub_ax ax i (i + 1) 1 in
  sub_limits ax it = Ok (a_lo ax', a_hi ax') /\ sub_axis ax it (a_lo ax', a_hi ax') = Ok ax' /\
  valid ax' /\
  a_cs ax' = [nthR (Z.to_nat i) (a_cs ax)] /\
  bdry_vec ax' = [nthR (Z.to_nat i) (bdry_vec ax); nthR (S (Z.to_nat i)) (bdry_vec ax)].
Proof. exact getitem_axis_int. Qed.
Print Assumptions getitem_int_is_that_cell.
(* every integer outside [-n, n) is an IndexError (full statement; it was _refuted for i < -n
   before /repo commit 2a3c64a, finding C14/getitem-int-below-minus-n, now fixed: p[-5] on 3 cells
   used to return cell 1). *)
Theorem int_index_out_of_range_rejected : forall (its : bool) (i n : Z) (l : list item) (sh : list Z),
  (i < - n \/ n <= i)%Z -> (0 <= n)%Z -> norm_ints its (IInt i :: l) (n :: sh) = IndexErr.
Proof. exact norm_int_out_of_range. Qed.
Print Assumptions int_index_out_of_range_rejected.
Example int_index_minus_5_of_3_rejected : norm_ints true [IInt (-5)] [3%Z] = IndexErr.
Proof. exact norm_int_below_minus_n_example. Qed.

(* T1. p[p.index(x)] extracts the cell in which x lies. *)
Theorem index_then_getitem_extracts_the_cell : forall (ax : axis R) (x : R),
  valid ax -> a_lo ax <= x -> x <= a_hi ax ->
  let i := index_axis ax x in
  let ax' := sub_ax ax i (i + 1) 1 in
  (0 <= i < zlen (a_cs ax))%Z /\
  sub_limits ax (ISlice (Some i) (Some (i + 1)%Z) None) = Ok (a_lo ax', a_hi ax') /\
  sub_axis ax (ISlice (Some i) (Some (i + 1)%Z) None) (a_lo ax', a_hi ax') = Ok ax' /\
  valid ax' /\ length (a_cs ax') = 1%nat /\ a_lo ax' <= x <= a_hi ax'.
Proof. exact index_then_getitem. Qed.
Print Assumptions index_then_getitem_extracts_the_cell.

(* ------------------------------------------------------------------ *)
(* T1. __getitem__, whole partition (any number of axes): one positive-step slice with a
   non-empty hull per axis ([good_item]) -- after normalisation this is what every tuple of
   in-range integers and slices is -- cuts every axis independently ([sub_item] = the
   per-axis [sub_ax] above); the result is a valid partition.  [empty_slice_check] is the
   code's own test "Slices with empty axes not allowed" (ValueError when it fires). *)
Theorem getitem_acts_axiswise : forall (p : list (axis R)) (items : list item),
  Forall valid p -> Forall2 good_item p items ->
  empty_slice_check items (shape_of p) = false ->
  getitem p (ETuple items) = Ok (map2 sub_item p items) /\ Forall valid (map2 sub_item p items).
Proof. exact getitem_nd_slices. Qed.
Print Assumptions getitem_acts_axiswise.
Theorem getitem_empty_axis_is_rejected : forall (p : list (axis R)) (items : list item),
  forallb is_slice items = true -> length items = length p ->
  empty_slice_check items (shape_of p) = true -> getitem p (ETuple items) = ValueErr.
Proof. exact getitem_nd_empty_axis. Qed.

(* T1. insert / append / squeeze act on the list of axes (any carrier, any number of parts):
   insert(index, q1..qN) splices all axes of q1..qN, in order, before axis index (negative
   index counts from the end, anything outside [-ndim, ndim] is an IndexError);
   append = concatenation; squeeze() removes exactly the one-point axes. *)
Theorem insert_splices_the_axes : forall (T : Type) (p : list (axis T)) (index : Z)
  (parts : list (list (axis T))),
  (- zlen p <= index <= zlen p)%Z ->
  insert p index parts = Ok (splice p (Z.to_nat (norm_pos (zlen p) index)) (concat parts)).
Proof. exact (@insert_spec). Qed.
Print Assumptions insert_splices_the_axes.
Theorem insert_rejects_other_positions : forall (T : Type) (p : list (axis T)) (index : Z)
  (parts : list (list (axis T))),
  (index < - zlen p \/ zlen p < index)%Z -> insert p index parts = IndexErr.
Proof. exact (@insert_out_of_range). Qed.
Theorem append_concatenates_the_axes : forall (T : Type) (p : list (axis T))
  (parts : list (list (axis T))), append p parts = Ok (p ++ concat parts).
Proof. exact (@append_spec). Qed.
Print Assumptions append_concatenates_the_axes.
Theorem squeeze_removes_exactly_the_one_point_axes : forall (T : Type) (p : list (axis T)),
  squeeze p AxAll = Ok (filter nondegen p).
Proof. exact (@squeeze_all). Qed.
Print Assumptions squeeze_removes_exactly_the_one_point_axes.

(* ------------------------------------------------------------------ *)
(* T2. nonuniform_partition(coords, nodes_on_bdry=fl) / uniform_partition_fromgrid(grid) without
   explicit limits, any strictly increasing vector with >= 2 points:
     default_axis cs fl = (x_0 | x_0 - (x_1 - x_0)/2,  x_last | x_last + (x_last - x_prev)/2,  cs)
   is what both build; it is a valid partition, the nodes are on the boundary exactly on the
   requested sides, and the boundary fractions are 1/2 resp. 1 (outermost nodes are cell
   midpoints).  One point: the interval collapses to the point. *)
Theorem nonuniform_partition_default_limits : forall (cs : list R) (fl : bool * bool),
  sincr cs -> (2 <= length cs)%nat ->
  let ax := default_axis cs fl in
  nonuniform_axis cs None None fl = Ok ax /\ valid ax /\ nodes_on_bdry ax = fl /\
  bdry_fracs ax = (if fst fl then 1 / 2 else 1, if snd fl then 1 / 2 else 1) /\
  fromgrid_axis cs None None = Ok (default_axis cs (false, false)).
Proof. exact nonuniform_default_spec. Qed.
Print Assumptions nonuniform_partition_default_limits.
Theorem nonuniform_partition_single_point : forall (c : R) (fl : bool * bool),
  nonuniform_axis [c] None None fl = Ok (mkAxis c c [c]).
Proof. exact nonuniform_single. Qed.
Theorem nonuniform_partition_given_limits : forall (cs : list R) (lo hi : R),
  nonuniform_axis cs (Some lo) (Some hi) (false, false) = Ok (mkAxis lo hi cs).
Proof. exact nonuniform_given. Qed.

(* ------------------------------------------------------------------ *)
(* T2. All index expressions: normalized_index_expression reduces every accepted expression to
   the case "one slice per axis" covered by [getitem_acts_axiswise]:
   - a scalar i is (i, Ellipsis), a single slice / Ellipsis is a 1-tuple (by definition of items_of);
   - an Ellipsis stands for ndim - (number of other entries) full slices;
   - fewer entries than axes are filled up with full slices from the right;
   - an in-range integer i becomes the one-cell slice i':i'+1 ([to_slice]). *)
Theorem ellipsis_expands_to_full_slices : forall (its : bool) (pre post : list item) (shape : list Z),
  existsb is_ell pre = false -> existsb is_ell post = false ->
  (length pre + length post <= length shape)%nat ->
  norm_index (ETuple (pre ++ IEll :: post)) shape its =
  norm_index (ETuple (pre ++ repeat full_slice (length shape - length pre - length post) ++ post)) shape its.
Proof. exact norm_index_ellipsis. Qed.
Print Assumptions ellipsis_expands_to_full_slices.
Theorem too_few_indices_are_filled_from_the_right : forall (its : bool) (items : list item) (shape : list Z),
  existsb is_ell items = false -> (length items < length shape)%nat ->
  norm_index (ETuple items) shape its =
  norm_index (ETuple (items ++ repeat full_slice (length shape - length items))) shape its.
Proof. exact norm_index_too_few. Qed.
Theorem getitem_ints_and_slices_axiswise : forall (p : list (axis R)) (items : list item),
  Forall valid p -> Forall2 int_ok items (shape_of p) ->
  Forall2 good_item p (map2 to_slice items (shape_of p)) ->
  empty_slice_check (map2 to_slice items (shape_of p)) (shape_of p) = false ->
  getitem p (ETuple items) = Ok (map2 sub_item p (map2 to_slice items (shape_of p))) /\
  Forall valid (map2 sub_item p (map2 to_slice items (shape_of p))).
Proof. exact getitem_ints_and_slices. Qed.
Print Assumptions getitem_ints_and_slices_axiswise.

(* ------------------------------------------------------------------ *)
(* T2. byaxis.  The code indexes the unselected axes with 0 and the selected ones with ":",
   then squeezes the unselected axes; the model does the same through [getitem] and [squeeze].
   For every valid partition (any number of axes) the result is exactly the list of selected
   axes, unchanged ([pick sel 0 p] keeps axis i iff i is in sel); byaxis[i] is axis i (negative
   i from the end, IndexError outside [-ndim, ndim)); byaxis[[i1..ik]] stacks the axes in that order. *)
Theorem byaxis_returns_the_selected_axes : forall (p : list (axis R)) (sel : list Z),
  Forall valid p -> byaxis_sel p sel = Ok (pick sel 0 p).
Proof. exact byaxis_sel_spec. Qed.
Print Assumptions byaxis_returns_the_selected_axes.
Theorem byaxis_int_is_that_axis : forall (p : list (axis R)) (i : Z),
  Forall valid p -> (- zlen p <= i < zlen p)%Z ->
  byaxis1 p (AxInt i) = Ok [nth (Z.to_nat (if (i <? 0)%Z then i + zlen p else i)) p (mkAxis 0 0 [])].
Proof. exact byaxis_int_spec. Qed.
Theorem byaxis_int_out_of_range_rejected : forall (p : list (axis R)) (i : Z),
  (i < - zlen p \/ zlen p <= i)%Z -> byaxis1 p (AxInt i) = IndexErr.
Proof. exact byaxis_int_out_of_range. Qed.
Theorem byaxis_sequence_stacks_the_axes : forall (p : list (axis R)) (l : list Z),
  Forall valid p -> (forall i, In i l -> (- zlen p <= i < zlen p)%Z) ->
  byaxis_seq p l = Ok (map (axis_at p) l).
Proof. exact byaxis_seq_spec. Qed.
Print Assumptions byaxis_sequence_stacks_the_axes.

(* index lists p[[i1..ik]] (first axis): the same hull rule; FALSE "cells = selected cells"
   for a non-contiguous list (finding C14/getitem-list-noncontiguous-cells). *)
Theorem getitem_list_cells_refuted_for_gaps :
  exists (p q : list (axis R)), Forall valid p /\ getitem_list p [0%Z; 2%Z] = Ok q /\
    nthR 1 (bdry_vec (hd (mkAxis 0 0 []) q)) <> nthR 1 (bdry_vec (hd (mkAxis 0 0 []) p)).
Proof. exact getitem_list_cells_refuted. Qed.

(* T2. boundary_cell_fractions on ANY valid axis with >= 2 points (non-uniform included):
   fraction * "natural" width of the outermost cell = actual width of that cell; both
   fractions are >= 1/2, and = 1/2 exactly when the node lies on the boundary. *)
Theorem boundary_cell_fractions_are_the_contained_fractions : forall ax : axis R,
  valid ax -> (2 <= length (a_cs ax))%nat ->
  let n := length (a_cs ax) in
  let l := fst (bdry_fracs ax) in let r := snd (bdry_fracs ax) in
  l * (nthR 1 (a_cs ax) - nthR 0 (a_cs ax)) = nthR 1 (bdry_vec ax) - nthR 0 (bdry_vec ax) /\
  r * (nthR (n - 1) (a_cs ax) - nthR (n - 2) (a_cs ax)) = nthR n (bdry_vec ax) - nthR (n - 1) (bdry_vec ax) /\
  1 / 2 <= l /\ 1 / 2 <= r /\
  (l = 1 / 2 <-> nthR 0 (a_cs ax) = a_lo ax) /\ (r = 1 / 2 <-> nthR (n - 1) (a_cs ax) = a_hi ax).
Proof. exact bdry_fracs_spec. Qed.
Print Assumptions boundary_cell_fractions_are_the_contained_fractions.

(* ------------------------------------------------------------------ *)
(* T2. Index lists p[[i1..ik]] (first axis), any strictly increasing list of in-range
   indices, gaps allowed: the result has exactly the selected grid points, its limits are the
   left edge of the first and the right edge of the last selected cell, it is a valid
   partition, and the other axes are untouched.  (For a list without gaps this is the slice
   i1:ik+1; with gaps the cells are not the selected cells, see the _refuted theorem above.) *)
Theorem getitem_index_list_partial : forall (ax : axis R) (p' : list (axis R)) (l : list Z),
  valid ax -> Forall valid p' -> (1 <= length l)%nat -> zincr l ->
  (forall i, In i l -> (0 <= i < zlen (a_cs ax))%Z) ->
  getitem_list (ax :: p') l = Ok (list_ax ax l :: p') /\ valid (list_ax ax l) /\
  length (a_cs (list_ax ax l)) = length l /\
  forall j, (j < length l)%nat -> nthR j (a_cs (list_ax ax l)) = nthR (Z.to_nat (nth j l 0%Z)) (a_cs ax).
Proof. exact getitem_list_spec. Qed.
Print Assumptions getitem_index_list_partial.

(* T2. Negative steps: whenever a slice a:b:k with k < 0 selects two or more grid points the
   selected vector is decreasing, so no limits make it an acceptable axis (RectGrid raises
   ValueError "not sorted") and the whole partition is rejected. *)
Theorem negative_step_with_two_points_is_rejected :
  forall (ax : axis R) (a b : option Z) (k s e k' : Z) (lo hi : R),
  valid ax -> (k < 0)%Z -> slice_adjust (zlen (a_cs ax)) (a, b, Some k) = Some (s, e, k') ->
  (2 <= range_len s e k')%Z ->
  axis_ok (mkAxis lo hi (take_idx (a_cs ax) (zrange s e k'))) = false.
Proof. exact neg_step_unsorted. Qed.
Print Assumptions negative_step_with_two_points_is_rejected.
Theorem one_bad_axis_rejects_the_partition : forall (p q : list (axis R)) (ax : axis R),
  axis_ok ax = false -> mk_part (p ++ ax :: q) = ValueErr.
Proof. exact mk_part_rejects. Qed.

(* T2. squeeze(axis=i): axis i (negative i from the end) is dropped iff it has one grid point;
   outside [-ndim, ndim) IndexError.  (Any carrier.) *)
Theorem squeeze_one_axis : forall (T : Type) (p : list (axis T)) (i : Z) (d : axis T),
  (- zlen p <= i < zlen p)%Z ->
  let k := Z.to_nat (norm_pos (zlen p) i) in
  squeeze p (AxInt i) = Ok (if nondegen (nth k p d) then p else firstn k p ++ skipn (S k) p).
Proof. exact (@squeeze_int). Qed.
Print Assumptions squeeze_one_axis.
Theorem squeeze_axis_out_of_range : forall (T : Type) (p : list (axis T)) (i : Z),
  (i < - zlen p \/ zlen p <= i)%Z -> squeeze p (AxInt i) = IndexErr.
Proof. exact (@squeeze_int_out_of_range). Qed.

(* T2. uniform_partition_fromgrid with explicit limits in some axes (dict arguments): given
   limits are used as they are, missing ones are half a gap outside the outermost node; the
   result is accepted iff the given limits enclose the grid; with one grid point a missing
   limit is a ValueError. *)
Theorem fromgrid_explicit_limits : forall (cs : list R) (omin omax : option R), (2 <= length cs)%nat ->
  fromgrid_axis cs omin omax = Ok (mkAxis (fromgrid_lo cs omin) (fromgrid_hi cs omax) cs).
Proof. exact fromgrid_axis_spec. Qed.
Theorem fromgrid_explicit_limits_valid : forall (cs : list R) (omin omax : option R),
  sincr cs -> (2 <= length cs)%nat ->
  (forall v, omin = Some v -> v <= nthR 0 cs) ->
  (forall v, omax = Some v -> nthR (length cs - 1) cs <= v) ->
  valid (mkAxis (fromgrid_lo cs omin) (fromgrid_hi cs omax) cs).
Proof. exact fromgrid_axis_valid. Qed.
Print Assumptions fromgrid_explicit_limits_valid.
Theorem fromgrid_single_point_needs_limits : forall (c : R) (omax : option R),
  fromgrid_axis [c] None omax = ValueErr.
Proof. exact fromgrid_axis_single. Qed.

(* ------------------------------------------------------------------ *)
(* TIE TO THE SOURCE.  Gen/Partition.v is REGENERATED from /repo on every run by the fail-closed
   translator translate/partition.py.  The hand-written model is proved to be built from the
   generated formulas, so a changed offset, denominator, side or comparison in
   uniform_grid_fromintv, uniform_partition, boundary_cell_fractions, the midpoint rule, the
   edge rules of index() or the bounds test of normalized_index_expression breaks a proof here
   (besides the correspondence). *)
Theorem model_ugrid_limits_is_the_generated_formula :
  forall (T : Type) (NT : Num T) (n : Z) (xmin xmax : T) (fl : bool * bool),
  ugrid_limits n xmin xmax fl = gen_ugrid_limits n xmin xmax (fst fl) (snd fl).
Proof. exact (@ugrid_limits_is_generated). Qed.
Print Assumptions model_ugrid_limits_is_the_generated_formula.
Theorem model_completion_is_the_generated_formulas :
  forall (rnd : R -> Z) (oxmin oxmax : option R) (on : option Z) (odx : option R) (fl : bool * bool),
  complete_axis rnd oxmin oxmax on odx fl =
  match oxmin, oxmax, on, odx with
  | None, Some xmax, Some n, Some dx => Ok (gen_complete_min 0 xmax n dx (fst fl) (snd fl), xmax, n)
  | Some xmin, None, Some n, Some dx => Ok (xmin, gen_complete_max xmin 0 n dx (fst fl) (snd fl), n)
  | Some xmin, Some xmax, None, Some dx =>
      let n_calc := gen_n_calc xmin xmax 0%Z dx (fst fl) (snd fl) in
      if neqb (of_Z (rnd n_calc)) n_calc then Ok (xmin, xmax, rnd n_calc) else ValueErr
  | Some xmin, Some xmax, Some n, None => Ok (xmin, xmax, n)
  | Some xmin, Some xmax, Some n, Some dx =>
      if neqb xmax (gen_xmax_calc xmin xmax n dx (fst fl) (snd fl)) then Ok (xmin, xmax, n) else ValueErr
  | _, _, _, _ => ValueErr
  end.
Proof. exact complete_axis_is_generated. Qed.
Print Assumptions model_completion_is_the_generated_formulas.
Theorem model_fractions_are_the_generated_formulas : forall ax : axis R, (2 <= length (a_cs ax))%nat ->
  bdry_fracs ax = (gen_left_frac (a_cs ax) (a_lo ax) (a_hi ax), gen_right_frac (a_cs ax) (a_lo ax) (a_hi ax)).
Proof. exact bdry_fracs_is_generated. Qed.
Theorem model_fractions_one_point_are_the_generated_value : forall lo hi c : R,
  fst (bdry_fracs (mkAxis lo hi [c])) = fst (@gen_frac_single R _) /\
  snd (bdry_fracs (mkAxis lo hi [c])) = snd (@gen_frac_single R _).
Proof. exact bdry_fracs_single_is_generated. Qed.
Theorem model_boundaries_are_the_generated_midpoint_rule : forall ax : axis R, (1 <= length (a_cs ax))%nat ->
  nthR 0 (bdry_vec ax) = gen_bdry_first (a_lo ax) (a_hi ax) /\
  nthR (length (a_cs ax)) (bdry_vec ax) = gen_bdry_last (a_lo ax) (a_hi ax) /\
  forall i, (S i < length (a_cs ax))%nat -> nthR (1 + i) (bdry_vec ax) = gen_bdry_mid (a_cs ax) i.
Proof. exact bdry_vec_is_generated. Qed.
Print Assumptions model_boundaries_are_the_generated_midpoint_rule.
Theorem model_index_is_the_generated_edge_rule : forall (T : Type) (NT : Num T) (ax : axis T) (x : T),
  index_axis ax x = gen_index (bdry_vec ax) (Z.of_nat (count_lt x (bdry_vec ax))) x.
Proof. exact (@index_axis_is_generated). Qed.
Theorem model_floating_index_is_the_generated_rule : forall (T : Type) (NT : Num T) (ax : axis T) (x : T),
  findex_axis ax x = gen_findex (bdry_vec ax) (Z.of_nat (count_lt x (bdry_vec ax))) x.
Proof. exact (@findex_axis_is_generated). Qed.
Print Assumptions model_floating_index_is_the_generated_rule.
Theorem model_int_bounds_test_is_the_generated_one : forall (its : bool) (i n : Z) (l : list item) (sh : list Z),
  norm_ints its (IInt i :: l) (n :: sh) =
  if gen_out_of_bounds (gen_wrap i n) n then IndexErr
  else bind (norm_ints its l sh) (fun r =>
         Ok ((if its then ISlice (Some (fst (gen_int_slice (gen_wrap i n))))
                                 (Some (snd (gen_int_slice (gen_wrap i n)))) None
              else IInt i) :: r)).
Proof. exact norm_ints_is_generated. Qed.
Print Assumptions model_int_bounds_test_is_the_generated_one.

(* ------------------------------------------------------------------ *)
(* TRANSFER.  The model the correspondence shards EXECUTE (carrier Q, reduced rationals) is the
   rational restriction of the model the theorems above are ABOUT (carrier R): Q2R commutes with
   every executable function of C14/Model.v.  Guards are the places where the code divides:
   strictly increasing coordinates (boundary fractions), the width of the located cell
   (floating index), n >= 1 (uniform grids), cell_sides <> 0 (computed shape).
   [axR] maps an axis over Q to the axis over R; [resmap] maps under the outcome enum. *)
Theorem transfer_cell_vectors : forall ax : axis Q,
  map Q2R (bdry_vec ax) = bdry_vec (axR ax) /\
  map Q2R (cell_sizes ax) = cell_sizes (axR ax) /\
  nodes_on_bdry ax = nodes_on_bdry (axR ax) /\
  option_map Q2R (cell_side ax) = cell_side (axR ax) /\
  axis_ok ax = axis_ok (axR ax).
Proof.
  exact (fun ax => conj (bdry_vec_transfer ax) (conj (cell_sizes_transfer ax)
          (conj (nodes_on_bdry_transfer ax) (conj (cell_side_transfer ax) (axis_ok_transfer ax))))).
Qed.
Print Assumptions transfer_cell_vectors.
Theorem transfer_boundary_cell_fractions : forall ax : axis Q, strict_incr (a_cs ax) = true ->
  (Q2R (fst (bdry_fracs ax)), Q2R (snd (bdry_fracs ax))) = bdry_fracs (axR ax).
Proof. exact bdry_fracs_transfer. Qed.
Theorem transfer_constructor : forall p : list (axis Q),
  mk_part (map axR p) = resmap (map axR) (mk_part p).
Proof. exact mk_part_transfer. Qed.
Theorem transfer_index : forall (p : list (axis Q)) (x : list Q),
  index p x = index (map axR p) (map Q2R x).
Proof. exact index_transfer. Qed.
Theorem transfer_floating_index : forall (ax : axis Q) (x : Q),
  let b := bdry_vec ax in let ind := count_lt x b in
  ~ (nsub (nth0 ind b) (nth0 (ind - 1) b) == 0)%Q ->
  Q2R (findex_axis ax x) = findex_axis (axR ax) (Q2R x).
Proof. exact findex_axis_transfer. Qed.
Theorem transfer_getitem_axis : forall (ax : axis Q) (it : item) (lim : Q * Q),
  resmap (fun ab => (Q2R (fst ab), Q2R (snd ab))) (sub_limits ax it) = sub_limits (axR ax) it /\
  resmap axR (sub_axis ax it lim) = sub_axis (axR ax) it (Q2R (fst lim), Q2R (snd lim)).
Proof. exact (fun ax it lim => conj (sub_limits_transfer ax it) (sub_axis_transfer ax it lim)). Qed.
Theorem transfer_uniform_grid : forall (n : Z) (xmin xmax : Q) (fl : bool * bool), (1 <= n)%Z ->
  map Q2R (ugrid_axis n xmin xmax fl) = ugrid_axis n (Q2R xmin) (Q2R xmax) fl.
Proof. exact ugrid_axis_transfer. Qed.
Theorem transfer_completion : forall (rndQ : Q -> Z) (rndR : R -> Z) (oxmin oxmax : option Q) (on : option Z)
  (odx : option Q) (fl : bool * bool),
  (forall q, rndR (Q2R q) = rndQ q) ->
  (forall dx, odx = Some dx -> ~ (dx == 0)%Q) ->
  resmap triR (complete_axis rndQ oxmin oxmax on odx fl) =
  complete_axis rndR (option_map Q2R oxmin) (option_map Q2R oxmax) on (option_map Q2R odx) fl.
Proof. exact complete_axis_transfer. Qed.
Theorem transfer_factories : forall (cs : list Q) (omin omax : option Q) (fl : bool * bool),
  resmap axR (nonuniform_axis cs omin omax fl) =
    nonuniform_axis (map Q2R cs) (option_map Q2R omin) (option_map Q2R omax) fl /\
  resmap axR (fromgrid_axis cs omin omax) =
    fromgrid_axis (map Q2R cs) (option_map Q2R omin) (option_map Q2R omax).
Proof. exact (fun cs omin omax fl => conj (nonuniform_axis_transfer cs omin omax fl) (fromgrid_axis_transfer cs omin omax)). Qed.
Print Assumptions transfer_factories.

(* ------------------------------------------------------------------ *)
(* T3 (round 3 widening). *)
(* index lists with negative entries: every entry in [-n, n) is wrapped once (NumPy integer-array
   indexing), anything outside is an IndexError; if the wrapped list is increasing the result is
   the valid partition [list_ax] of the theorem getitem_index_list_partial. *)
Theorem getitem_index_list_with_negative_entries : forall (ax : axis R) (p' : list (axis R)) (l : list Z),
  valid ax -> Forall valid p' -> (1 <= length l)%nat ->
  (forall i, In i l -> (- zlen (a_cs ax) <= i < zlen (a_cs ax))%Z) ->
  zincr (map (wrap_idx (zlen (a_cs ax))) l) ->
  getitem_list (ax :: p') l = Ok (list_ax ax (map (wrap_idx (zlen (a_cs ax))) l) :: p') /\
  valid (list_ax ax (map (wrap_idx (zlen (a_cs ax))) l)).
Proof. exact getitem_list_wrapped. Qed.
Print Assumptions getitem_index_list_with_negative_entries.
Theorem getitem_index_list_out_of_range : forall (ax : axis R) (p' : list (axis R)) (l : list Z),
  (exists i, In i l /\ (i < - zlen (a_cs ax) \/ zlen (a_cs ax) <= i)%Z) ->
  getitem_list (ax :: p') l = IndexErr.
Proof. exact getitem_list_out_of_range. Qed.

(* rejected index expressions: two Ellipses -> ValueError; a None entry -> ValueError; more
   entries than axes -> IndexError (tuples without integers/Ellipsis passing the empty-axes test) *)
Theorem two_ellipses_are_rejected : forall (its : bool) (a b c : list item) (shape : list Z),
  norm_index (ETuple (a ++ IEll :: b ++ IEll :: c)) shape its = ValueErr.
Proof. exact norm_index_two_ellipses. Qed.
Theorem new_axis_is_rejected : forall (its : bool) (l : list item) (shape : list Z),
  existsb is_int l = false -> existsb is_ell l = false -> (length shape <= length l)%nat ->
  empty_slice_check l shape = false -> existsb is_new l = true ->
  norm_index (ETuple l) shape its = ValueErr.
Proof. exact norm_index_new_axis. Qed.
Theorem too_many_indices_are_rejected : forall (its : bool) (l : list item) (shape : list Z),
  existsb is_int l = false -> existsb is_ell l = false -> (length shape < length l)%nat ->
  empty_slice_check l shape = false -> existsb is_new l = false ->
  norm_index (ETuple l) shape its = IndexErr.
Proof. exact norm_index_too_many. Qed.
Print Assumptions too_many_indices_are_rejected.

(* squeeze(axis=[...]): the axes that stay are those not selected or with more than one point,
   in their original order (any carrier) *)
Theorem squeeze_axis_list : forall (T : Type) (p : list (axis T)) (l : list Z),
  (forall j, In j l -> (0 <= j < zlen p)%Z) ->
  squeeze p (AxList l) =
  Ok (map snd (filter (fun ja => negb (zmem (fst ja) l) || nondegen (snd ja)) (positions 0 p))).
Proof. exact (@squeeze_list). Qed.
Print Assumptions squeeze_axis_list.

(* ------------------------------------------------------------------ *)
(* T3 (round 5).  Explicit limits are never discarded -- any number of grid points, in particular
   ONE: whatever nonuniform_partition accepts has exactly the given min_pt / max_pt and the given
   coordinates; for a one-point axis the missing limits default to the point itself and the
   result is a valid partition iff the point lies between the limits. *)
Theorem nonuniform_partition_keeps_given_limits :
  forall (cs : list R) (lo hi : R) (omin omax : option R) (fl : bool * bool) (ax : axis R),
  nonuniform_axis cs omin omax fl = Ok ax ->
  (omin = Some lo -> a_lo ax = lo) /\ (omax = Some hi -> a_hi ax = hi) /\ a_cs ax = cs.
Proof. exact nonuniform_given_limits_kept. Qed.
Print Assumptions nonuniform_partition_keeps_given_limits.
Theorem nonuniform_partition_single_point_with_limits :
  forall (c : R) (omin omax : option R) (fl : bool * bool),
  (omin <> None -> fst fl = false) -> (omax <> None -> snd fl = false) ->
  nonuniform_axis [c] omin omax fl = Ok (mkAxis (or_default omin c) (or_default omax c) [c]).
Proof. exact nonuniform_single_limits. Qed.
Theorem single_point_axis_is_valid : forall c lo hi : R, lo <= c <= hi -> valid (mkAxis lo hi [c]).
Proof. exact single_point_axis_valid. Qed.
Theorem fromgrid_single_point_with_both_limits : forall c lo hi : R,
  fromgrid_axis [c] (Some lo) (Some hi) = Ok (mkAxis lo hi [c]).
Proof. exact fromgrid_axis_single_given. Qed.
