(* C14/Props.v -- property theorems only. *)
From Coq Require Import ZArith Reals List Bool.
From Verif Require Import Base.Num C14.Model C14.Proofs.
Import ListNotations.
Local Open Scope R_scope.
