(* C14/ProofsUniform.v -- uniform_grid_fromintv / uniform_partition_fromintv /
   uniform_partition: the four gmin/gmax formulas, linspace, parameter completion. *)
From Coq Require Import ZArith QArith Reals Lra Lia List Bool.
From Verif Require Import Base.Num Base.Vec C14.Model C14.Proofs.
Import ListNotations.
Local Open Scope R_scope.

(* ---------- arithmetic progressions ---------- *)
Definition lin (a t : R) (k m : nat) : Rvec := map (fun i => a + INR i * t) (seq k m).
Lemma lin_length a t k m : length (lin a t k m) = m.
Proof. unfold lin. rewrite map_length, seq_length. reflexivity. Qed.
Lemma lin_cons a t k m : lin a t k (S m) = (a + INR k * t) :: lin a t (S k) m.
Proof. reflexivity. Qed.
Lemma lin_nth a t k m i : (i < m)%nat -> nthR i (lin a t k m) = a + INR (k + i) * t.
Proof.
  revert k i; induction m as [|m IH]; intros k i Hi; [lia|]. rewrite lin_cons.
  destruct i as [|i]; cbn [nth].
  - replace (k + 0)%nat with k by lia. reflexivity.
  - rewrite IH by lia. replace (S k + i)%nat with (k + S i)%nat by lia. reflexivity.
Qed.
Lemma lin_sincr a t k m : 0 < t -> sincr (lin a t k m).
Proof.
  intros Ht. apply sincr_of_nth. intros i Hi. rewrite lin_length in Hi.
  rewrite !lin_nth by lia. replace (k + S i)%nat with (S (k + i)) by lia. rewrite S_INR. nra.
Qed.
Lemma diffs_cons2 (a b : R) (r : Rvec) : diffs (a :: b :: r) = (b - a) :: diffs (b :: r).
Proof. reflexivity. Qed.
Lemma diffs_lin a t k m : diffs (lin a t k m) = repeat t (m - 1).
Proof.
  revert k; induction m as [|m IH]; intros k; [reflexivity|].
  destruct m as [|m]; [reflexivity|].
  rewrite (lin_cons a t k (S m)). specialize (IH (S k)). rewrite (lin_cons a t (S k) m) in *.
  rewrite diffs_cons2, IH. cbn [Nat.sub repeat]. replace (m - 0)%nat with m by lia. f_equal.
  rewrite S_INR. ring.
Qed.
Lemma is_uniform_lin a t k m : is_uniform (lin a t k m) = true.
Proof.
  unfold is_uniform. rewrite diffs_lin. destruct (m - 1)%nat as [|j]; [reflexivity|].
  cbn [repeat]. induction j as [|j IH]; [reflexivity|].
  cbn [repeat forallb]. rewrite IH, andb_true_r. apply eqb_true. reflexivity.
Qed.

Lemma linspace_lin a b (n : nat) : (2 <= n)%nat ->
  linspace a b n = lin a ((b - a) / (INR n - 1)) 0 n.
Proof.
  intros Hn. unfold linspace, lin. destruct n as [|[|n]]; try lia.
  apply map_ext. intros i. unfold of_nat. numR. rewrite <- !INR_IZR_INZ. reflexivity.
Qed.

(* ---------- uniform_grid_fromintv, n >= 2 ---------- *)
Definition half_count (fl : bool * bool) : R :=
  ((if fst fl then 1 else 0) + (if snd fl then 1 else 0)) / 2.
Lemma nb_half_R fl : @nb_half R _ fl = half_count fl.
Proof. unfold nb_half, half_count. numR'. reflexivity. Qed.
(* the cell side:  s * (n - (b_l + b_r)/2) = extent *)
Definition side (n : Z) (xmin xmax : R) (fl : bool * bool) : R :=
  (xmax - xmin) / (IZR n - half_count fl).

Lemma stride_two (cs : Rvec) : (2 <= length cs)%nat -> is_uniform cs = true ->
  stride cs = Some ((nthR (length cs - 1) cs - nthR 0 cs) / (INR (length cs) - 1)).
Proof.
  intros Hl Hu. unfold stride. rewrite Hu. destruct cs as [|a [|b r]]; cbn [length] in Hl; try lia.
  unfold last0, hd0, of_nat. rewrite last_nth, hd_nth. numR. rewrite <- INR_IZR_INZ. reflexivity.
Qed.
Lemma bdry_fracs_two (ax : Raxis) : (2 <= length (a_cs ax))%nat ->
  bdry_fracs ax = (1 / 2 + (nthR 0 (a_cs ax) - a_lo ax) / (nthR 1 (a_cs ax) - nthR 0 (a_cs ax)),
                   1 / 2 + (a_hi ax - nthR (length (a_cs ax) - 1) (a_cs ax)) / last_gap (a_cs ax)).
Proof.
  intros Hl. unfold bdry_fracs. destruct (a_cs ax) as [|a [|b r]] eqn:E; cbn [length] in Hl; try lia.
  unfold last0. rewrite last_nth. numR'. reflexivity.
Qed.

Lemma ugrid_limits_R (n : Z) (xmin xmax : R) (fl : bool * bool) :
  ugrid_limits n xmin xmax fl =
  match fl with
  | (true, true) => (xmin, xmax)
  | (true, false) => (xmin, xmax - (xmax - xmin) / (2 * IZR n - 1))
  | (false, true) => (xmin + (xmax - xmin) / (2 * IZR n - 1), xmax)
  | (false, false) => (xmin + (xmax - xmin) / (2 * IZR n), xmax - (xmax - xmin) / (2 * IZR n))
  end.
Proof.
  unfold ugrid_limits. destruct fl as [[|] [|]]; numR; rewrite ?minus_IZR, ?mult_IZR; reflexivity.
Qed.

Section Uniform.
Variables (n : Z) (xmin xmax : R) (fl : bool * bool).
Hypothesis Hn : (2 <= n)%Z.
Hypothesis Hext : xmin < xmax.
Let s := side n xmin xmax fl.
Let g0 := xmin + (if fst fl then 0 else s / 2).
Let N := Z.to_nat n.

Lemma n_INR : INR N = IZR n.
Proof. unfold N. rewrite INR_IZR_INZ, Z2Nat.id by lia. reflexivity. Qed.
Lemma n_ge2 : 2 <= IZR n.
Proof. apply IZR_le in Hn. exact Hn. Qed.
Lemma hc_range : 0 <= half_count fl <= 1.
Proof. unfold half_count. destruct fl as [[|] [|]]; cbn [fst snd]; lra. Qed.
Lemma s_pos : 0 < s.
Proof.
  unfold s, side. pose proof n_ge2. pose proof hc_range.
  apply Rmult_lt_0_compat; [lra | apply Rinv_0_lt_compat; lra].
Qed.
Lemma side_times_count : s * (IZR n - half_count fl) = xmax - xmin.
Proof. unfold s, side. pose proof n_ge2. pose proof hc_range. field. lra. Qed.

Lemma ugrid_is_lin : ugrid_axis n xmin xmax fl = lin g0 s 0 N.
Proof.
  unfold ugrid_axis. pose proof n_ge2 as H2. pose proof side_times_count as Hs.
  assert (HN : (2 <= N)%nat) by (unfold N; lia).
  rewrite ugrid_limits_R.
  assert (Hg : forall gmin gmax, gmin = g0 -> (gmax - gmin) / (IZR n - 1) = s ->
     (let '(gmin, gmax) := (gmin, gmax) in if (n <? 0)%Z then [] else linspace gmin gmax (Z.to_nat n))
     = lin g0 s 0 N).
  { intros gmin gmax E1 E2. rewrite E1. rewrite <- E2. rewrite E1. replace (n <? 0)%Z with false by (symmetry; apply Z.ltb_ge; lia).
    fold N. rewrite linspace_lin by exact HN. rewrite n_INR. reflexivity. }
  unfold g0, s, side, half_count in *.
  destruct fl as [[|] [|]]; cbn [fst snd] in *; apply Hg; field; lra.
Qed.

Lemma ugrid_length : length (ugrid_axis n xmin xmax fl) = N.
Proof. rewrite ugrid_is_lin, lin_length. reflexivity. Qed.
Lemma ugrid_nth i : (i < N)%nat -> nthR i (ugrid_axis n xmin xmax fl) = g0 + INR i * s.
Proof. intros Hi. rewrite ugrid_is_lin, lin_nth by exact Hi. reflexivity. Qed.

Let ax := mkAxis xmin xmax (ugrid_axis n xmin xmax fl).

Lemma ugrid_last : nthR (N - 1) (ugrid_axis n xmin xmax fl) = xmax - (if snd fl then 0 else s / 2).
Proof.
  assert (HN : (2 <= N)%nat) by (unfold N; lia).
  rewrite ugrid_nth by lia. rewrite minus_INR by lia. rewrite n_INR. cbn [INR].
  pose proof side_times_count as Hs. unfold g0, half_count in *.
  destruct fl as [[|] [|]]; cbn [fst snd] in *; lra.
Qed.
Lemma ugrid_valid : valid ax.
Proof.
  assert (HN : (2 <= N)%nat) by (unfold N; lia). pose proof s_pos as Hs.
  constructor; unfold ax; cbn [a_lo a_hi a_cs].
  - lra.
  - rewrite ugrid_length. lia.
  - rewrite ugrid_is_lin. apply lin_sincr. exact Hs.
  - rewrite ugrid_nth by lia. cbn [INR]. unfold g0. destruct (fst fl); lra.
  - rewrite ugrid_length, ugrid_last. destruct (snd fl); lra.
Qed.
(* the requested placement is realised *)
Lemma ugrid_nodes_on_bdry : nodes_on_bdry ax = fl.
Proof.
  assert (HN : (2 <= N)%nat) by (unfold N; lia). pose proof s_pos as Hs.
  unfold nodes_on_bdry, ax, hd0, last0. cbn [a_lo a_hi a_cs].
  rewrite hd_nth, last_nth, ugrid_length, ugrid_last, ugrid_nth by lia. cbn [INR]. unfold g0.
  destruct fl as [bl br]; cbn [fst snd]. f_equal.
  - destruct bl; [apply eqb_true; lra | apply eqb_false; lra].
  - destruct br; [apply eqb_true; lra | apply eqb_false; lra].
Qed.
(* cell_sides = s *)
Lemma ugrid_cell_side : cell_side ax = Some s.
Proof.
  assert (HN : (2 <= N)%nat) by (unfold N; lia). pose proof s_pos as Hs.
  unfold cell_side, ax. cbn [a_lo a_hi a_cs].
  rewrite stride_two; [|rewrite ugrid_length; lia | rewrite ugrid_is_lin; apply is_uniform_lin].
  rewrite ugrid_length, !ugrid_nth by lia. rewrite minus_INR by lia. cbn [INR].
  assert (Hst : (g0 + (INR N - 1) * s - (g0 + 0 * s)) / (INR N - 1) = s).
  { assert (2 <= INR N) by (rewrite n_INR; apply n_ge2). field. lra. }
  rewrite Hst. replace (@neqb R _ s nzero) with false; [reflexivity|].
  symmetry. apply (eqb_false s 0). lra.
Qed.
(* boundary cell fractions are 1/2 (node on the boundary) or 1 *)
Lemma ugrid_bdry_fracs :
  bdry_fracs ax = (if fst fl then 1 / 2 else 1, if snd fl then 1 / 2 else 1).
Proof.
  assert (HN : (2 <= N)%nat) by (unfold N; lia). pose proof s_pos as Hs.
  rewrite bdry_fracs_two by (unfold ax; cbn [a_cs]; rewrite ugrid_length; lia).
  unfold ax. cbn [a_lo a_hi a_cs].
  rewrite last_gap_eq by (rewrite ugrid_length; lia).
  rewrite ugrid_length.
  assert (H : g0 + (INR N - 1) * s = xmax - (if snd fl then 0 else s / 2)).
  { rewrite <- ugrid_last, ugrid_nth by lia. rewrite minus_INR by lia. reflexivity. }
  rewrite !ugrid_nth by lia. rewrite !minus_INR by lia. cbn [INR].
  replace (g0 + (INR N - 1) * s - (g0 + (INR N - (1 + 1)) * s)) with s by ring.
  rewrite H. replace (g0 + 1 * s - (g0 + 0 * s)) with s by ring.
  unfold g0. destruct fl as [[|] [|]]; cbn [fst snd]; f_equal; field; lra.
Qed.
End Uniform.

(* ---------- one grid point (shape 1) ---------- *)
Lemma ugrid_single (xmin xmax : R) (fl : bool * bool) :
  ugrid_axis 1 xmin xmax fl =
  [match fl with
   | (true, _) => xmin
   | (false, true) => xmax
   | (false, false) => (xmin + xmax) / 2
   end].
Proof.
  unfold ugrid_axis. rewrite ugrid_limits_R.
  change (Z.to_nat 1) with 1%nat. change (1 <? 0)%Z with false.
  destruct fl as [[|] [|]]; cbn [linspace]; f_equal; field.
Qed.
Lemma ugrid_single_valid (xmin xmax : R) fl : xmin <= xmax ->
  valid (mkAxis xmin xmax (ugrid_axis 1 xmin xmax fl)).
Proof.
  intros Hle. rewrite ugrid_single. constructor; cbn; auto; destruct fl as [[|] [|]]; lra.
Qed.
Lemma ugrid_single_cell_side (xmin xmax : R) fl :
  cell_side (mkAxis xmin xmax (ugrid_axis 1 xmin xmax fl)) = Some (xmax - xmin).
Proof.
  rewrite ugrid_single. unfold cell_side, stride. cbn [a_cs a_lo a_hi is_uniform diffs].
  replace (@neqb R _ nzero nzero) with true by (symmetry; apply eqb_true; reflexivity). reflexivity.
Qed.
(* side * (n - (b_l + b_r)/2) = extent fails for one point with a node on the boundary *)
Lemma uniform_single_point_refuted :
  exists (xmin xmax : R) (fl : bool * bool), xmin < xmax /\
    forall sd, cell_side (mkAxis xmin xmax (ugrid_axis 1 xmin xmax fl)) = Some sd ->
    sd * (1 - half_count fl) <> xmax - xmin.
Proof.
  exists 0, 1, (true, false). split; [lra|]. intros sd Hsd.
  rewrite ugrid_single_cell_side in Hsd. inversion Hsd; subst. unfold half_count; cbn [fst snd]. lra.
Qed.
(* ... and nodes_on_bdry=True cannot be honoured with one point on a non-degenerate interval *)
Lemma uniform_single_point_placement_refuted :
  exists (xmin xmax : R), xmin < xmax /\
    nodes_on_bdry (mkAxis xmin xmax (ugrid_axis 1 xmin xmax (true, true))) <> (true, true).
Proof.
  exists 0, 1. split; [lra|]. rewrite ugrid_single. unfold nodes_on_bdry, hd0, last0. cbn.
  replace (Reqb 0 1) with false; [discriminate|]. symmetry. apply (eqb_false 0 1). lra.
Qed.

(* ---------- uniform_partition: completion of the missing parameter ---------- *)
Inductive dropped := DNothing | DMin | DMax | DShape | DSide.
Definition given (d : dropped) (xmin xmax : R) (n : Z) (dx : R)
  : option R * option R * option Z * option R :=
  match d with
  | DNothing => (Some xmin, Some xmax, Some n, Some dx)
  | DMin => (None, Some xmax, Some n, Some dx)
  | DMax => (Some xmin, None, Some n, Some dx)
  | DShape => (Some xmin, Some xmax, None, Some dx)
  | DSide => (Some xmin, Some xmax, Some n, None)
  end.
Definition complete_given (rnd : R -> Z) (d : dropped) xmin xmax n dx fl :=
  let '(a, b, c, e) := given d xmin xmax n dx in complete_axis rnd a b c e fl.

Lemma complete_axis_consistent (rnd : R -> Z) (d : dropped) (xmin xmax : R) (n : Z) (dx : R) fl :
  (forall k : Z, rnd (IZR k) = k) -> dx <> 0 ->
  xmax = xmin + (IZR n - half_count fl) * dx ->
  complete_given rnd d xmin xmax n dx fl = Ok (xmin, xmax, n).
Proof.
  intros Hr Hdx Hc. unfold complete_given, given, complete_axis. rewrite nb_half_R.
  destruct d; numR.
  - replace (Reqb xmax (xmin + (IZR n - half_count fl) * dx)) with true; [reflexivity|].
    symmetry. apply eqb_true. exact Hc.
  - do 3 f_equal. rewrite Hc. ring.
  - do 3 f_equal. rewrite Hc. reflexivity.
  - assert (E : (xmax - xmin) / dx + half_count fl = IZR n) by (rewrite Hc; field; exact Hdx).
    rewrite E, Hr. replace (Reqb (IZR n) (IZR n)) with true; [reflexivity|].
    symmetry. apply eqb_true. reflexivity.
  - reflexivity.
Qed.

(* N-d: whatever is left out in each axis, uniform_partition builds the same partition *)
Record axis_spec := { s_drop : dropped; s_min : R; s_max : R; s_n : Z; s_dx : R; s_fl : bool * bool }.
Definition consistent (a : axis_spec) : Prop :=
  s_dx a <> 0 /\ s_max a = s_min a + (IZR (s_n a) - half_count (s_fl a)) * s_dx a.
Definition g4 (a : axis_spec) := given (s_drop a) (s_min a) (s_max a) (s_n a) (s_dx a).
Lemma uniform_partition_same (rnd : R -> Z) (l : list axis_spec) :
  (forall k : Z, rnd (IZR k) = k) -> Forall consistent l ->
  uniform_partition rnd (map (fun a => fst (fst (fst (g4 a)))) l) (map (fun a => snd (fst (fst (g4 a)))) l)
                    (map (fun a => snd (fst (g4 a))) l) (map (fun a => snd (g4 a)) l) (map s_fl l)
  = upart_fromintv (map s_min l) (map s_max l) (map s_n l) (map s_fl l).
Proof.
  intros Hr Hc. unfold uniform_partition.
  assert (E : mapM5 (complete_axis rnd) (map (fun a => fst (fst (fst (g4 a)))) l)
                (map (fun a => snd (fst (fst (g4 a)))) l) (map (fun a => snd (fst (g4 a))) l)
                (map (fun a => snd (g4 a)) l) (map s_fl l)
              = Ok (map (fun a => (s_min a, s_max a, s_n a)) l)).
  { induction Hc as [|a l [Ha1 Ha2] Hl IH]; [reflexivity|]. cbn [map mapM5].
    pose proof (complete_axis_consistent rnd (s_drop a) _ _ _ _ _ Hr Ha1 Ha2) as Hca.
    unfold complete_given in Hca. unfold g4. destruct (given (s_drop a) (s_min a) (s_max a) (s_n a) (s_dx a)) as [[[o1 o2] o3] o4].
    cbn [fst snd]. rewrite Hca. cbn [bind]. unfold g4 in IH. rewrite IH. reflexivity. }
  rewrite E. cbn [bind]. rewrite !map_map. cbn [fst snd]. reflexivity.
Qed.

(* the completed partition has exactly the requested cell side (>= 2 points) *)
Lemma consistent_side (xmin xmax : R) (n : Z) (dx : R) fl :
  (2 <= n)%Z -> 0 < dx -> xmax = xmin + (IZR n - half_count fl) * dx ->
  xmin < xmax /\ cell_side (mkAxis xmin xmax (ugrid_axis n xmin xmax fl)) = Some dx.
Proof.
  intros Hn Hdx Hc. assert (H2 : 2 <= IZR n) by (apply IZR_le in Hn; exact Hn).
  assert (Hh : 0 <= half_count fl <= 1) by (unfold half_count; destruct fl as [[|] [|]]; cbn [fst snd]; lra).
  assert (Hlt : xmin < xmax) by (rewrite Hc; nra).
  split; [exact Hlt|]. rewrite ugrid_cell_side by assumption. f_equal.
  unfold side. rewrite Hc. field. lra.
Qed.

Lemma uniform_axis_spec (n : Z) (xmin xmax : R) (fl : bool * bool) : (2 <= n)%Z -> xmin < xmax ->
  let s := (xmax - xmin) / (IZR n - half_count fl) in
  let ax := mkAxis xmin xmax (ugrid_axis n xmin xmax fl) in
  valid ax /\
  length (a_cs ax) = Z.to_nat n /\
  (forall i, (i < Z.to_nat n)%nat ->
     nthR i (a_cs ax) = xmin + (if fst fl then 0 else s / 2) + INR i * s) /\
  s * (IZR n - half_count fl) = xmax - xmin /\
  cell_side ax = Some s /\
  nodes_on_bdry ax = fl /\
  bdry_fracs ax = (if fst fl then 1 / 2 else 1, if snd fl then 1 / 2 else 1).
Proof.
  intros Hn Hext. cbv zeta. fold (side n xmin xmax fl). cbn [a_cs].
  split; [apply ugrid_valid; assumption|].
  split; [apply ugrid_length; assumption|].
  split; [intros i Hi; apply ugrid_nth; assumption|].
  split; [apply side_times_count; assumption|].
  split; [apply ugrid_cell_side; assumption|].
  split; [apply ugrid_nodes_on_bdry; assumption | apply ugrid_bdry_fracs; assumption].
Qed.
Lemma uniform_single_point_spec (xmin xmax : R) (fl : bool * bool) : xmin <= xmax ->
  let ax := mkAxis xmin xmax (ugrid_axis 1 xmin xmax fl) in
  valid ax /\
  a_cs ax = [match fl with (true, _) => xmin | (false, true) => xmax | (false, false) => (xmin + xmax) / 2 end] /\
  cell_side ax = Some (xmax - xmin).
Proof.
  intros Hle. cbv zeta. split; [apply ugrid_single_valid; assumption|].
  split; [apply ugrid_single | apply ugrid_single_cell_side].
Qed.
