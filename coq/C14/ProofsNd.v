(* C14/ProofsNd.v -- __getitem__ on a whole partition: normalized_index_expression on a
   tuple of slices, then the per-axis results of ProofsSlice.v put together. *)
From Coq Require Import ZArith QArith Reals Lra Lia List Bool.
From Verif Require Import Base.Num Base.Vec C14.Model C14.Proofs C14.ProofsIndex C14.ProofsSlice.
Import ListNotations.
Local Open Scope R_scope.

Definition is_slice (it : item) : bool := match it with ISlice _ _ _ => true | _ => false end.

Lemma norm_ints_slices (strict its : bool) (l : list item) : forall shape,
  forallb is_slice l = true -> norm_ints strict its l shape = Ok l.
Proof.
  induction l as [|it l IH]; intros shape Hs; [destruct shape; reflexivity|].
  cbn [forallb] in Hs. apply andb_true_iff in Hs. destruct Hs as [H1 H2].
  destruct shape as [|n shape]; [reflexivity|].
  destruct it; try discriminate. cbn [norm_ints]. rewrite IH by exact H2. reflexivity.
Qed.
Lemma slices_no_ell (l : list item) : forallb is_slice l = true -> existsb is_ell l = false.
Proof.
  induction l as [|it l IH]; intros Hs; [reflexivity|].
  cbn [forallb existsb] in *. apply andb_true_iff in Hs. destruct Hs as [H1 H2].
  rewrite IH by exact H2. destruct it; try discriminate; reflexivity.
Qed.
Lemma slices_no_new (l : list item) : forallb is_slice l = true -> existsb is_new l = false.
Proof.
  induction l as [|it l IH]; intros Hs; [reflexivity|].
  cbn [forallb existsb] in *. apply andb_true_iff in Hs. destruct Hs as [H1 H2].
  rewrite IH by exact H2. destruct it; try discriminate; reflexivity.
Qed.
(* a tuple of exactly ndim slices that passes the "empty axes" test is left as it is *)
Lemma norm_index_slices (strict its : bool) (l : list item) (shape : list Z) :
  forallb is_slice l = true -> length l = length shape -> empty_slice_check l shape = false ->
  norm_index strict (ETuple l) shape its = Ok l.
Proof.
  intros Hs Hl Hc. unfold norm_index, norm_index_list, items_of.
  rewrite Hl, Nat.ltb_irrefl. cbn [andb]. rewrite (slices_no_ell l Hs). cbn [bind].
  rewrite norm_ints_slices by exact Hs. cbn [bind]. rewrite Hc, (slices_no_new l Hs), Hl, Nat.ltb_irrefl.
  reflexivity.
Qed.
Lemma norm_index_slices_empty (strict its : bool) (l : list item) (shape : list Z) :
  forallb is_slice l = true -> length l = length shape -> empty_slice_check l shape = true ->
  norm_index strict (ETuple l) shape its = ValueErr.
Proof.
  intros Hs Hl Hc. unfold norm_index, norm_index_list, items_of.
  rewrite Hl, Nat.ltb_irrefl. cbn [andb]. rewrite (slices_no_ell l Hs). cbn [bind].
  rewrite norm_ints_slices by exact Hs. cbn [bind]. rewrite Hc. reflexivity.
Qed.

(* the axis selected by one normalised slice *)
Definition sub_item (ax : Raxis) (it : item) : Raxis :=
  match it with
  | ISlice a b c =>
      match slice_adjust (zlen (a_cs ax)) (a, b, c) with
      | Some (s, e, k) => sub_ax ax s e k
      | None => ax
      end
  | _ => ax
  end.
(* "slice with positive step and non-empty hull" *)
Definition good_item (ax : Raxis) (it : item) : Prop :=
  exists a b c s e k, it = ISlice a b c /\ slice_adjust (zlen (a_cs ax)) (a, b, c) = Some (s, e, k) /\
                      (0 < k)%Z /\ (s < e)%Z.

Lemma mk_part_valid (p : list Raxis) : Forall valid p -> mk_part p = Ok p.
Proof.
  intros Hv. unfold mk_part. replace (forallb axis_ok p) with true; [reflexivity|].
  symmetry. apply forallb_forall. intros ax Hin. apply axis_ok_valid.
  rewrite Forall_forall in Hv. apply Hv. exact Hin.
Qed.

Lemma good_item_results (ax : Raxis) (it : item) : valid ax -> good_item ax it ->
  sub_limits ax it = Ok (a_lo (sub_item ax it), a_hi (sub_item ax it)) /\
  sub_axis ax it (a_lo (sub_item ax it), a_hi (sub_item ax it)) = Ok (sub_item ax it) /\
  valid (sub_item ax it) /\ is_slice it = true.
Proof.
  intros Hv (a & b & c & s & e & k & -> & Ha & Hk & Hse).
  unfold sub_item. rewrite Ha.
  destruct (getitem_axis_slice ax a b c s e k Hv Ha Hk) as [[Hc _]|(_ & H1 & H2 & H3)]; [lia|].
  split; [exact H1|]. split; [exact H2|]. split; [exact H3|reflexivity].
Qed.

Lemma getitem_nd_parts (p : list Raxis) (items : list item) :
  Forall valid p -> Forall2 good_item p items ->
  mapM2 sub_limits p items = Ok (map2 (fun ax it => (a_lo (sub_item ax it), a_hi (sub_item ax it))) p items) /\
  mapM3 sub_axis p items (map2 (fun ax it => (a_lo (sub_item ax it), a_hi (sub_item ax it))) p items)
    = Ok (map2 sub_item p items) /\
  Forall valid (map2 sub_item p items) /\ forallb is_slice items = true /\ length items = length p.
Proof.
  intros Hv Hg. induction Hg as [|ax it p items Hgi Hg IH].
  - repeat split; constructor.
  - inversion Hv as [|? ? Hvax Hvp]; subst.
    destruct (good_item_results ax it Hvax Hgi) as (H1 & H2 & H3 & H4).
    destruct (IH Hvp) as (I1 & I2 & I3 & I4 & I5).
    cbn [mapM2 mapM3 map2 forallb length]. rewrite H1, H2. cbn [bind]. rewrite I1, I2. cbn [bind].
    repeat split; auto. rewrite H4, I4. reflexivity.
Qed.

(* p[s_1, ..., s_d] with one (positive-step, non-empty) slice per axis: every axis is cut
   independently, nothing else happens *)
Lemma getitem_nd_slices (strict : bool) (p : list Raxis) (items : list item) :
  Forall valid p -> Forall2 good_item p items ->
  empty_slice_check items (shape_of p) = false ->
  getitem strict p (ETuple items) = Ok (map2 sub_item p items) /\ Forall valid (map2 sub_item p items).
Proof.
  intros Hv Hg Hc. destruct (getitem_nd_parts p items Hv Hg) as (H1 & H2 & H3 & H4 & H5).
  split; [|exact H3]. unfold getitem, getitem_expr.
  assert (Hl : length items = length (shape_of p)) by (unfold shape_of; rewrite map_length; exact H5).
  rewrite (norm_index_slices strict true items _ H4 Hl Hc). cbn [bind]. rewrite H1. cbn [bind].
  rewrite (norm_index_slices strict false items _ H4 Hl Hc). cbn [bind]. rewrite H2. cbn [bind].
  apply mk_part_valid. exact H3.
Qed.
(* ... and the one check the code makes before looking at the axes *)
Lemma getitem_nd_empty_axis (strict : bool) (p : list Raxis) (items : list item) :
  forallb is_slice items = true -> length items = length p ->
  empty_slice_check items (shape_of p) = true -> getitem strict p (ETuple items) = ValueErr.
Proof.
  intros H4 H5 Hc. unfold getitem, getitem_expr.
  assert (Hl : length items = length (shape_of p)) by (unfold shape_of; rewrite map_length; exact H5).
  rewrite (norm_index_slices_empty strict true items _ H4 Hl Hc). reflexivity.
Qed.
