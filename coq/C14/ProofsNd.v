(* C14/ProofsNd.v -- __getitem__ on a whole partition: normalized_index_expression on a
   tuple of slices, then the per-axis results of ProofsSlice.v put together. *)
From Coq Require Import ZArith QArith Reals Lra Lia List Bool.
From Verif Require Import Base.Num Base.Vec C14.Model C14.Proofs C14.ProofsIndex C14.ProofsSlice.
Import ListNotations.
Local Open Scope R_scope.

Definition is_slice (it : item) : bool := match it with ISlice _ _ _ => true | _ => false end.

Lemma norm_ints_slices (its : bool) (l : list item) : forall shape,
  forallb is_slice l = true -> norm_ints its l shape = Ok l.
Proof.
  induction l as [|it l IH]; intros shape Hs; [destruct shape; reflexivity|].
  cbn [forallb] in Hs. apply andb_true_iff in Hs. destruct Hs as [H1 H2].
  destruct shape as [|n shape]; [reflexivity|].
  destruct it; try discriminate. cbn [norm_ints]. rewrite IH by exact H2. reflexivity.
Qed.
Lemma slices_no_ell (l : list item) : forallb is_slice l = true -> existsb is_ell l = false.
Proof.
  induction l as [|it l IH]; intros Hs; [reflexivity|].
  cbn [forallb existsb] in *. apply andb_true_iff in Hs. destruct Hs as [H1 H2].
  rewrite IH by exact H2. destruct it; try discriminate; reflexivity.
Qed.
Lemma slices_no_new (l : list item) : forallb is_slice l = true -> existsb is_new l = false.
Proof.
  induction l as [|it l IH]; intros Hs; [reflexivity|].
  cbn [forallb existsb] in *. apply andb_true_iff in Hs. destruct Hs as [H1 H2].
  rewrite IH by exact H2. destruct it; try discriminate; reflexivity.
Qed.
(* a tuple of exactly ndim slices that passes the "empty axes" test is left as it is *)
Lemma norm_index_slices (its : bool) (l : list item) (shape : list Z) :
  forallb is_slice l = true -> length l = length shape -> empty_slice_check l shape = false ->
  norm_index (ETuple l) shape its = Ok l.
Proof.
  intros Hs Hl Hc. unfold norm_index, norm_index_list, items_of.
  rewrite Hl, Nat.ltb_irrefl. cbn [andb]. rewrite (slices_no_ell l Hs). cbn [bind].
  rewrite norm_ints_slices by exact Hs. cbn [bind]. rewrite Hc, (slices_no_new l Hs), Hl, Nat.ltb_irrefl.
  reflexivity.
Qed.
Lemma norm_index_slices_empty (its : bool) (l : list item) (shape : list Z) :
  forallb is_slice l = true -> length l = length shape -> empty_slice_check l shape = true ->
  norm_index (ETuple l) shape its = ValueErr.
Proof.
  intros Hs Hl Hc. unfold norm_index, norm_index_list, items_of.
  rewrite Hl, Nat.ltb_irrefl. cbn [andb]. rewrite (slices_no_ell l Hs). cbn [bind].
  rewrite norm_ints_slices by exact Hs. cbn [bind]. rewrite Hc. reflexivity.
Qed.

(* the axis selected by one normalised slice *)
Definition sub_item (ax : Raxis) (it : item) : Raxis :=
  match it with
  | ISlice a b c =>
      match slice_adjust (zlen (a_cs ax)) (a, b, c) with
      | Some (s, e, k) => sub_ax ax s e k
      | None => ax
      end
  | _ => ax
  end.
(* "slice with positive step and non-empty hull" *)
Definition good_item (ax : Raxis) (it : item) : Prop :=
  exists a b c s e k, it = ISlice a b c /\ slice_adjust (zlen (a_cs ax)) (a, b, c) = Some (s, e, k) /\
                      (0 < k)%Z /\ (s < e)%Z.

Lemma mk_part_valid (p : list Raxis) : Forall valid p -> mk_part p = Ok p.
Proof.
  intros Hv. unfold mk_part. replace (forallb axis_ok p) with true; [reflexivity|].
  symmetry. apply forallb_forall. intros ax Hin. apply axis_ok_valid.
  rewrite Forall_forall in Hv. apply Hv. exact Hin.
Qed.

Lemma good_item_results (ax : Raxis) (it : item) : valid ax -> good_item ax it ->
  sub_limits ax it = Ok (a_lo (sub_item ax it), a_hi (sub_item ax it)) /\
  sub_axis ax it (a_lo (sub_item ax it), a_hi (sub_item ax it)) = Ok (sub_item ax it) /\
  valid (sub_item ax it) /\ is_slice it = true.
Proof.
  intros Hv (a & b & c & s & e & k & -> & Ha & Hk & Hse).
  unfold sub_item. rewrite Ha.
  destruct (getitem_axis_slice ax a b c s e k Hv Ha Hk) as [[Hc _]|(_ & H1 & H2 & H3)]; [lia|].
  split; [exact H1|]. split; [exact H2|]. split; [exact H3|reflexivity].
Qed.

Lemma getitem_nd_parts (p : list Raxis) (items : list item) :
  Forall valid p -> Forall2 good_item p items ->
  mapM2 sub_limits p items = Ok (map2 (fun ax it => (a_lo (sub_item ax it), a_hi (sub_item ax it))) p items) /\
  mapM3 sub_axis p items (map2 (fun ax it => (a_lo (sub_item ax it), a_hi (sub_item ax it))) p items)
    = Ok (map2 sub_item p items) /\
  Forall valid (map2 sub_item p items) /\ forallb is_slice items = true /\ length items = length p.
Proof.
  intros Hv Hg. induction Hg as [|ax it p items Hgi Hg IH].
  - repeat split; constructor.
  - inversion Hv as [|? ? Hvax Hvp]; subst.
    destruct (good_item_results ax it Hvax Hgi) as (H1 & H2 & H3 & H4).
    destruct (IH Hvp) as (I1 & I2 & I3 & I4 & I5).
    cbn [mapM2 mapM3 map2 forallb length]. rewrite H1, H2. cbn [bind]. rewrite I1, I2. cbn [bind].
    repeat split; auto. rewrite H4, I4. reflexivity.
Qed.

(* p[s_1, ..., s_d] with one (positive-step, non-empty) slice per axis: every axis is cut
   independently, nothing else happens *)
Lemma getitem_nd_slices (p : list Raxis) (items : list item) :
  Forall valid p -> Forall2 good_item p items ->
  empty_slice_check items (shape_of p) = false ->
  getitem p (ETuple items) = Ok (map2 sub_item p items) /\ Forall valid (map2 sub_item p items).
Proof.
  intros Hv Hg Hc. destruct (getitem_nd_parts p items Hv Hg) as (H1 & H2 & H3 & H4 & H5).
  split; [|exact H3]. unfold getitem, getitem_expr.
  assert (Hl : length items = length (shape_of p)) by (unfold shape_of; rewrite map_length; exact H5).
  rewrite (norm_index_slices true items _ H4 Hl Hc). cbn [bind]. rewrite H1. cbn [bind].
  rewrite (norm_index_slices false items _ H4 Hl Hc). cbn [bind]. rewrite H2. cbn [bind].
  apply mk_part_valid. exact H3.
Qed.
(* ... and the one check the code makes before looking at the axes *)
Lemma getitem_nd_empty_axis (p : list Raxis) (items : list item) :
  forallb is_slice items = true -> length items = length p ->
  empty_slice_check items (shape_of p) = true -> getitem p (ETuple items) = ValueErr.
Proof.
  intros H4 H5 Hc. unfold getitem, getitem_expr.
  assert (Hl : length items = length (shape_of p)) by (unfold shape_of; rewrite map_length; exact H5).
  rewrite (norm_index_slices_empty true items _ H4 Hl Hc). reflexivity.
Qed.

(* ---------- integers, ellipsis, too few indices ---------- *)
Definition int_ok (it : item) (n : Z) : Prop :=
  match it with IInt i => (- n <= i < n)%Z | ISlice _ _ _ => True | _ => False end.
Definition to_slice (it : item) (n : Z) : item :=
  match it with
  | IInt i => let i' := (if i <? 0 then i + n else i)%Z in ISlice (Some i') (Some (i' + 1)%Z) None
  | _ => it
  end.

Lemma norm_ints_mixed (l : list item) (shape : list Z) :
  Forall2 int_ok l shape ->
  norm_ints true l shape = Ok (map2 to_slice l shape) /\
  forallb is_slice (map2 to_slice l shape) = true /\
  existsb is_ell l = false /\ length (map2 to_slice l shape) = length shape /\ length l = length shape.
Proof.
  induction 1 as [|it n l shape Hit Hrest IH].
  - repeat split; reflexivity.
  - destruct IH as (I1 & I2 & I3 & I4 & I5). destruct it as [i|a b c| |]; cbn [int_ok] in Hit; try contradiction.
    + rewrite norm_int_in_range by exact Hit. rewrite I1. cbn [bind map2 to_slice forallb is_slice existsb is_ell length].
      rewrite I2, I3, I4, I5. repeat split; reflexivity.
    + cbn [norm_ints]. rewrite I1. cbn [bind map2 to_slice forallb is_slice existsb is_ell length].
      rewrite I2, I3, I4, I5. repeat split; reflexivity.
Qed.

(* exactly ndim entries, each an in-range integer or a slice *)
Lemma norm_index_full (items : list item) (shape : list Z) :
  Forall2 int_ok items shape ->
  empty_slice_check (map2 to_slice items shape) shape = false ->
  norm_index (ETuple items) shape true = Ok (map2 to_slice items shape).
Proof.
  intros Hok Hc. destruct (norm_ints_mixed items shape Hok) as (H1 & H2 & H3 & H4 & Hl).
  unfold norm_index, norm_index_list, items_of. rewrite Hl, Nat.ltb_irrefl. cbn [andb]. rewrite H3. cbn [bind].
  rewrite H1. cbn [bind]. rewrite Hc, (slices_no_new _ H2), H4, Nat.ltb_irrefl. reflexivity.
Qed.

(* an Ellipsis stands for as many full slices as are needed to reach ndim entries *)
Lemma find_ell_app (pre post : list item) : existsb is_ell pre = false ->
  find_ell (pre ++ IEll :: post) = length pre.
Proof.
  induction pre as [|it pre IH]; intros Hp; [reflexivity|].
  cbn [existsb] in Hp. apply orb_false_iff in Hp. destruct Hp as [H1 H2].
  cbn [app find_ell length]. rewrite H1, IH by exact H2. reflexivity.
Qed.
Lemma filter_ell_none (l : list item) : existsb is_ell l = false -> filter is_ell l = [].
Proof.
  induction l as [|it l IH]; intros Hl; [reflexivity|].
  cbn [existsb] in Hl. apply orb_false_iff in Hl. destruct Hl as [H1 H2].
  cbn [filter]. rewrite H1. apply IH. exact H2.
Qed.
Lemma repeat_full_no_ell (k : nat) : existsb is_ell (repeat full_slice k) = false.
Proof. induction k as [|k IH]; [reflexivity|]. cbn [repeat existsb]. exact IH. Qed.
Lemma norm_index_ellipsis (its : bool) (pre post : list item) (shape : list Z) :
  existsb is_ell pre = false -> existsb is_ell post = false ->
  (length pre + length post <= length shape)%nat ->
  norm_index (ETuple (pre ++ IEll :: post)) shape its =
  norm_index (ETuple (pre ++ repeat full_slice (length shape - length pre - length post) ++ post)) shape its.
Proof.
  intros Hp Hq Hl. unfold norm_index, norm_index_list, items_of.
  assert (He : existsb is_ell (pre ++ IEll :: post) = true).
  { rewrite existsb_app. cbn [existsb is_ell]. rewrite orb_true_r. reflexivity. }
  rewrite He. cbn [negb]. rewrite andb_false_r. cbv iota. rewrite He.
  rewrite filter_app. cbn [filter is_ell]. rewrite (filter_ell_none pre Hp), (filter_ell_none post Hq).
  cbn [app length]. rewrite (Nat.ltb_irrefl 1).
  rewrite find_ell_app by exact Hp.
  rewrite firstn_app, Nat.sub_diag, firstn_all. cbn [firstn]. rewrite app_nil_r.
  replace (skipn (S (length pre)) (pre ++ IEll :: post)) with post.
  2:{ rewrite skipn_app. rewrite skipn_all2 by lia. replace (S (length pre) - length pre)%nat with 1%nat by lia.
      reflexivity. }
  rewrite app_length. cbn [length].
  replace (Z.to_nat (Z.of_nat (length shape) - Z.of_nat (length pre + S (length post)) + 1))
    with (length shape - length pre - length post)%nat by lia.
  set (l2 := pre ++ repeat full_slice (length shape - length pre - length post) ++ post).
  assert (Hl2 : length l2 = length shape).
  { unfold l2. rewrite !app_length, repeat_length. lia. }
  assert (He2 : existsb is_ell l2 = false).
  { unfold l2. rewrite !existsb_app, Hp, Hq. cbn [orb]. rewrite orb_false_r. apply repeat_full_no_ell. }
  rewrite Hl2, Nat.ltb_irrefl. cbn [andb]. rewrite He2. reflexivity.
Qed.
(* fewer indices than axes (no Ellipsis): filled up from the right *)
Lemma norm_index_too_few (its : bool) (items : list item) (shape : list Z) :
  existsb is_ell items = false -> (length items < length shape)%nat ->
  norm_index (ETuple items) shape its =
  norm_index (ETuple (items ++ repeat full_slice (length shape - length items))) shape its.
Proof.
  intros He Hl.
  transitivity (norm_index (ETuple (items ++ IEll :: [])) shape its).
  - unfold norm_index, norm_index_list, items_of.
    replace (length items <? length shape)%nat with true by (symmetry; apply Nat.ltb_lt; exact Hl).
    rewrite He. cbn [negb andb].
    assert (Hn : (length (items ++ [IEll]) <? length shape)%nat && negb (existsb is_ell (items ++ [IEll])) = false).
    { rewrite existsb_app. cbn [existsb is_ell]. rewrite orb_true_r. cbn [negb]. apply andb_false_r. }
    rewrite Hn. reflexivity.
  - rewrite norm_index_ellipsis by (auto; cbn [length]; lia). cbn [length]. rewrite Nat.sub_0_r, app_nil_r.
    reflexivity.
Qed.

(* once the index expression is normalised to good slices, every axis is cut independently *)
Lemma getitem_after_norm (p : list Raxis) (e : iexpr) (idx : list item) :
  norm_index e (shape_of p) true = Ok idx ->
  Forall valid p -> Forall2 good_item p idx -> empty_slice_check idx (shape_of p) = false ->
  getitem_expr p e = Ok (map2 sub_item p idx) /\ Forall valid (map2 sub_item p idx).
Proof.
  intros Hn Hv Hg Hc. destruct (getitem_nd_parts p idx Hv Hg) as (H1 & H2 & H3 & H4 & H5).
  split; [|exact H3]. unfold getitem_expr. rewrite Hn. cbn [bind]. rewrite H1. cbn [bind].
  assert (Hl : length idx = length (shape_of p)) by (unfold shape_of; rewrite map_length; exact H5).
  rewrite (norm_index_slices false idx _ H4 Hl Hc). cbn [bind]. rewrite H2. cbn [bind].
  apply mk_part_valid. exact H3.
Qed.
(* p[i_1, ..., i_d], every entry an in-range integer or a slice *)
Lemma getitem_ints_and_slices (p : list Raxis) (items : list item) :
  Forall valid p -> Forall2 int_ok items (shape_of p) ->
  Forall2 good_item p (map2 to_slice items (shape_of p)) ->
  empty_slice_check (map2 to_slice items (shape_of p)) (shape_of p) = false ->
  getitem p (ETuple items) = Ok (map2 sub_item p (map2 to_slice items (shape_of p))) /\
  Forall valid (map2 sub_item p (map2 to_slice items (shape_of p))).
Proof.
  intros Hv Hok Hg Hc. unfold getitem. apply getitem_after_norm; auto.
  apply norm_index_full; assumption.
Qed.

(* index lists: the hull of the first and last selected cell is kept, so for a
   non-contiguous list the cells of the result are not the selected cells *)
Lemma getitem_list_cells_refuted :
  exists (p q : list Raxis), Forall valid p /\ getitem_list p [0%Z; 2%Z] = Ok q /\
    nthR 1 (bdry_vec (hd (mkAxis 0 0 []) q)) <> nthR 1 (bdry_vec (hd (mkAxis 0 0 []) p)).
Proof.
  exists [mkAxis 0 3 [1/2; 3/2; 5/2]], [mkAxis 0 3 [1/2; 5/2]].
  assert (Hv : valid (mkAxis 0 3 [1/2; 3/2; 5/2])) by (constructor; cbn; intuition (lra || lia)).
  assert (Hv' : valid (mkAxis 0 3 [1/2; 5/2])) by (constructor; cbn; intuition (lra || lia)).
  split; [constructor; [exact Hv|constructor]|]. split.
  - unfold getitem_list. change (fancy_idx (zlen (a_cs (mkAxis 0 3 [1/2; 3/2; 5/2]))) [0%Z; 2%Z]) with (Ok [0%Z; 2%Z]).
    cbn [bind hd last]. change (Z.to_nat 0) with 0%nat. change (Z.to_nat 2) with 2%nat.
    unfold nth0, bdry_vec, take_idx. cbn [a_lo a_hi a_cs mids app nth flat_map nth_error].
    change (Z.to_nat 0) with 0%nat. change (Z.to_nat 2) with 2%nat. cbn [nth_error app]. numR.
    replace (Rltb 3 0) with false by (symmetry; apply (ltb_false 3 0); lra).
    apply mk_part_valid. constructor; [exact Hv'|constructor].
  - cbn. numR'. lra.
Qed.

(* ---------- rejected index expressions ---------- *)
Definition is_int (it : item) : bool := match it with IInt _ => true | _ => false end.
Lemma norm_ints_no_int (its : bool) (l : list item) : forall shape,
  existsb is_int l = false -> norm_ints its l shape = Ok l.
Proof.
  induction l as [|it l IH]; intros shape Hs; [destruct shape; reflexivity|].
  cbn [existsb] in Hs. apply orb_false_iff in Hs. destruct Hs as [H1 H2].
  destruct shape as [|n shape]; [reflexivity|].
  destruct it; try discriminate; cbn [norm_ints]; rewrite IH by exact H2; reflexivity.
Qed.
(* more than one Ellipsis: ValueError *)
Lemma norm_index_two_ellipses (its : bool) (a b c : list item) (shape : list Z) :
  norm_index (ETuple (a ++ IEll :: b ++ IEll :: c)) shape its = ValueErr.
Proof.
  unfold norm_index, norm_index_list, items_of.
  set (l0 := a ++ IEll :: b ++ IEll :: c).
  assert (He : existsb is_ell l0 = true).
  { unfold l0. rewrite existsb_app. cbn [existsb is_ell]. rewrite orb_true_r. reflexivity. }
  rewrite He. cbn [negb]. rewrite andb_false_r. cbv iota. rewrite He.
  assert (Hc : (1 <? length (filter is_ell l0))%nat = true).
  { unfold l0. rewrite filter_app. cbn [filter is_ell]. rewrite filter_app. cbn [filter is_ell].
    rewrite !app_length. cbn [length]. rewrite app_length. cbn [length]. apply Nat.ltb_lt. lia. }
  rewrite Hc. reflexivity.
Qed.
(* no integers, no Ellipsis, at least ndim entries, the "empty axes" test passes:
   a None entry is a ValueError, otherwise more entries than axes is an IndexError *)
Lemma norm_index_new_axis (its : bool) (l : list item) (shape : list Z) :
  existsb is_int l = false -> existsb is_ell l = false -> (length shape <= length l)%nat ->
  empty_slice_check l shape = false -> existsb is_new l = true ->
  norm_index (ETuple l) shape its = ValueErr.
Proof.
  intros Hi He Hl Hc Hn. unfold norm_index, norm_index_list, items_of.
  replace (length l <? length shape)%nat with false by (symmetry; apply Nat.ltb_ge; exact Hl).
  cbn [andb]. rewrite He. cbn [bind]. rewrite norm_ints_no_int by exact Hi. cbn [bind].
  rewrite Hc, Hn. reflexivity.
Qed.
Lemma norm_index_too_many (its : bool) (l : list item) (shape : list Z) :
  existsb is_int l = false -> existsb is_ell l = false -> (length shape < length l)%nat ->
  empty_slice_check l shape = false -> existsb is_new l = false ->
  norm_index (ETuple l) shape its = IndexErr.
Proof.
  intros Hi He Hl Hc Hn. unfold norm_index, norm_index_list, items_of.
  replace (length l <? length shape)%nat with false by (symmetry; apply Nat.ltb_ge; lia).
  cbn [andb]. rewrite He. cbn [bind]. rewrite norm_ints_no_int by exact Hi. cbn [bind].
  rewrite Hc, Hn. replace (length shape <? length l)%nat with true by (symmetry; apply Nat.ltb_lt; exact Hl).
  reflexivity.
Qed.
