(* C14/ProofsList.v -- p[[i1, ..., ik]] (index list along the first axis) for any strictly
   increasing list of in-range indices: selected grid points, hull of the first and last
   selected cell, valid result.  Also: negative steps with >= 2 selected points are rejected. *)
From Coq Require Import ZArith QArith Reals Lra Lia List Bool.
From Verif Require Import Base.Num Base.Vec C14.Model C14.Proofs C14.ProofsIndex C14.ProofsSlice
  C14.ProofsNd C14.ProofsAxes C14.ProofsByaxis.
Import ListNotations.
Local Open Scope R_scope.

Fixpoint zincr (l : list Z) : Prop :=
  match l with
  | a :: ((b :: _) as r) => (a < b)%Z /\ zincr r
  | _ => True
  end.
Lemma zincr_nth_S (l : list Z) i : zincr l -> (S i < length l)%nat -> (nth i l 0 < nth (S i) l 0)%Z.
Proof.
  revert i; induction l as [|a [|b r] IH]; intros i Hs Hi; cbn [length] in Hi; try lia.
  destruct i as [|i]; [cbn; apply Hs|].
  change (nth i (b :: r) 0 < nth (S i) (b :: r) 0)%Z. apply IH; [apply Hs | cbn [length]; lia].
Qed.
Lemma zincr_nth (l : list Z) i j : zincr l -> (i < j)%nat -> (j < length l)%nat -> (nth i l 0 < nth j l 0)%Z.
Proof.
  intros Hs Hij Hj. induction j as [|j IH]; [lia|].
  destruct (Nat.eq_dec i j) as [->|Hne].
  - apply zincr_nth_S; assumption.
  - eapply Z.lt_trans; [apply IH; lia | apply zincr_nth_S; assumption].
Qed.
Lemma zlast_nth (l : list Z) : last l 0%Z = nth (length l - 1) l 0%Z.
Proof.
  induction l as [|a [|b r] IH]; try reflexivity.
  change (last (a :: b :: r) 0%Z) with (last (b :: r) 0%Z). rewrite IH. cbn [length].
  replace (S (S (length r)) - 1)%nat with (S (length r - 0)) by lia.
  cbn [nth]. replace (S (length r) - 1)%nat with (length r - 0)%nat by lia. reflexivity.
Qed.
Lemma zhd_nth (l : list Z) : hd 0%Z l = nth 0 l 0%Z.
Proof. destruct l; reflexivity. Qed.

Definition list_ax (ax : Raxis) (l : list Z) : Raxis :=
  mkAxis (nthR (Z.to_nat (hd 0%Z l)) (bdry_vec ax)) (nthR (S (Z.to_nat (last l 0%Z))) (bdry_vec ax))
         (take_idx (a_cs ax) l).

Section ListIdx.
Variables (ax : Raxis) (l : list Z).
Hypothesis Hv : valid ax.
Hypothesis Hne : (1 <= length l)%nat.
Hypothesis Hinc : zincr l.
Hypothesis Hin : forall i, In i l -> (0 <= i < zlen (a_cs ax))%Z.

Lemma l_nth_range j : (j < length l)%nat -> (0 <= nth j l 0 < zlen (a_cs ax))%Z.
Proof. intros Hj. apply Hin. apply nth_In. exact Hj. Qed.
Lemma list_cs_map : a_cs (list_ax ax l) = map (fun i => nthR (Z.to_nat i) (a_cs ax)) l.
Proof. unfold list_ax. cbn [a_cs]. apply take_idx_map. exact Hin. Qed.
Lemma list_cs_nth j : (j < length l)%nat ->
  nthR j (a_cs (list_ax ax l)) = nthR (Z.to_nat (nth j l 0%Z)) (a_cs ax).
Proof.
  intros Hj. rewrite list_cs_map.
  rewrite (nth_indep _ 0 ((fun i => nthR (Z.to_nat i) (a_cs ax)) 0%Z)) by (rewrite map_length; exact Hj).
  rewrite (map_nth (fun i => nthR (Z.to_nat i) (a_cs ax))). reflexivity.
Qed.
Lemma list_valid : valid (list_ax ax l).
Proof.
  assert (Hlen : length (a_cs (list_ax ax l)) = length l) by (rewrite list_cs_map, map_length; reflexivity).
  pose proof (l_nth_range 0 ltac:(lia)) as H0. pose proof (l_nth_range (length l - 1) ltac:(lia)) as Hl.
  assert (H0l : (nth 0 l 0 <= nth (length l - 1) l 0)%Z).
  { destruct (Nat.eq_dec (length l - 1) 0) as [->|Hne']; [lia|]. apply Z.lt_le_incl. apply zincr_nth; auto; lia. }
  unfold zlen in *.
  constructor.
  - unfold list_ax; cbn [a_lo a_hi]. rewrite zhd_nth, zlast_nth. apply bdry_mono; [exact Hv | lia | lia].
  - rewrite Hlen. exact Hne.
  - apply sincr_of_nth. intros i Hi. rewrite Hlen in Hi. rewrite !list_cs_nth by lia.
    pose proof (zincr_nth_S l i Hinc Hi). pose proof (l_nth_range i ltac:(lia)). pose proof (l_nth_range (S i) Hi).
    unfold zlen in *. apply sincr_nth; [apply Hv | lia | lia].
  - rewrite list_cs_nth by lia. unfold list_ax; cbn [a_lo]. rewrite zhd_nth.
    apply node_in_cell; [exact Hv | lia].
  - rewrite Hlen, list_cs_nth by lia. unfold list_ax; cbn [a_hi]. rewrite zlast_nth.
    apply node_in_cell; [exact Hv | lia].
Qed.
Lemma getitem_list_incr (p' : list Raxis) : Forall valid p' ->
  getitem_list (ax :: p') l = Ok (list_ax ax l :: p').
Proof.
  intros Hp. unfold getitem_list. destruct l as [|i0 r] eqn:El; [cbn [length] in Hne; lia|].
  rewrite <- El in *. rewrite fancy_idx_id by exact Hin. cbn [bind]. fold (list_ax ax l).
  pose proof list_valid as Hlv.
  replace (nltb (nth0 (S (Z.to_nat (last l 0%Z))) (bdry_vec ax)) (nth0 (Z.to_nat (hd 0%Z l)) (bdry_vec ax))) with false.
  - unfold nth0. apply (mk_part_valid (list_ax ax l :: p')). constructor; assumption.
  - symmetry. apply ltb_false. exact (v_lohi _ Hlv).
Qed.
End ListIdx.

Lemma getitem_list_spec (ax : Raxis) (p' : list Raxis) (l : list Z) :
  valid ax -> Forall valid p' -> (1 <= length l)%nat -> zincr l ->
  (forall i, In i l -> (0 <= i < zlen (a_cs ax))%Z) ->
  getitem_list (ax :: p') l = Ok (list_ax ax l :: p') /\ valid (list_ax ax l) /\
  length (a_cs (list_ax ax l)) = length l /\
  forall j, (j < length l)%nat -> nthR j (a_cs (list_ax ax l)) = nthR (Z.to_nat (nth j l 0%Z)) (a_cs ax).
Proof.
  intros Hv Hp Hne Hinc Hin.
  split; [apply getitem_list_incr; assumption|]. split; [apply list_valid; assumption|].
  split; [rewrite list_cs_map by assumption; apply map_length|].
  intros j Hj. apply list_cs_nth; assumption.
Qed.
(* the empty list gives the 0-dimensional partition; an index outside [-n, n) is an IndexError *)
Lemma getitem_list_empty (p : list Raxis) : getitem_list p [] = Ok [].
Proof. reflexivity. Qed.

(* ---------- negative steps ---------- *)
Local Open Scope Z_scope.
Lemma slice_adjust_neg (n : Z) (a b : oz) (k s e k' : Z) :
  0 <= n -> k < 0 -> slice_adjust n (a, b, Some k) = Some (s, e, k') ->
  k' = k /\ -1 <= s <= n - 1 /\ -1 <= e <= n - 1.
Proof.
  intros Hn Hk H. unfold slice_adjust in H.
  replace (k =? 0) with false in H by (symmetry; apply Z.eqb_neq; lia).
  replace (k <? 0) with true in H by (symmetry; apply Z.ltb_lt; lia).
  inversion H as [[H1 H2 H3]]. clear H.
  repeat split; try (destruct a as [v|]; [destruct (v <? 0) eqn:Ev; [apply Z.ltb_lt in Ev|apply Z.ltb_ge in Ev]|]; lia);
    try (destruct b as [v|]; [destruct (v <? 0) eqn:Ev; [apply Z.ltb_lt in Ev|apply Z.ltb_ge in Ev]|]; lia).
Qed.
Lemma range_len_neg (s e k : Z) : k < 0 -> 2 <= range_len s e k -> e < s /\ e + 1 <= s + k.
Proof.
  intros Hk Hl. unfold range_len in Hl.
  replace (0 <? k) with false in Hl by (symmetry; apply Z.ltb_ge; lia).
  revert Hl. destruct (e <? s) eqn:E; intros Hl; [apply Z.ltb_lt in E|lia]. split; [exact E|].
  assert (1 <= (s - e - 1) / - k) by lia.
  pose proof (Z.mul_div_le (s - e - 1) (- k) ltac:(lia)). nia.
Qed.
Local Close Scope Z_scope.

(* a negative step that selects two or more grid points yields a decreasing vector:
   RectGrid rejects it (ValueError "not sorted"), whatever the limits *)
Lemma neg_step_unsorted (ax : Raxis) (a b : oz) (k s e k' : Z) (lo hi : R) :
  valid ax -> (k < 0)%Z -> slice_adjust (zlen (a_cs ax)) (a, b, Some k) = Some (s, e, k') ->
  (2 <= range_len s e k')%Z ->
  axis_ok (mkAxis lo hi (take_idx (a_cs ax) (zrange s e k'))) = false.
Proof.
  intros Hv Hk Ha Hl.
  destruct (slice_adjust_neg (zlen (a_cs ax)) a b k s e k' ltac:(unfold zlen; lia) Hk Ha) as (-> & Hs & He).
  destruct (range_len_neg s e k Hk Hl) as (Hes & Hsk).
  unfold zrange. destruct (Z.to_nat (range_len s e k)) as [|[|m]] eqn:Em; try lia.
  cbn [seq map]. unfold take_idx. cbn [flat_map].
  unfold zlen in *.
  destruct (nth_error (a_cs ax) (Z.to_nat (s + Z.of_nat 0 * k))) as [x|] eqn:Ex;
    [|apply nth_error_None in Ex; lia].
  destruct (nth_error (a_cs ax) (Z.to_nat (s + Z.of_nat 1 * k))) as [y|] eqn:Ey;
    [|apply nth_error_None in Ey; lia].
  cbn [app]. unfold axis_ok. cbn [a_lo a_hi a_cs]. unfold grid_ok. cbn [strict_incr].
  apply (nth_error_nth _ _ 0) in Ex. apply (nth_error_nth _ _ 0) in Ey.
  assert (Hyx : y < x).
  { rewrite <- Ex, <- Ey. apply sincr_nth; [apply Hv | lia | lia]. }
  replace (nltb x y) with false by (symmetry; apply ltb_false; lra).
  cbn [andb]. rewrite andb_false_r. reflexivity.
Qed.
(* ... hence the whole __getitem__ fails with ValueError as soon as it gets to the grid *)
Lemma mk_part_rejects (p q : list Raxis) (ax : Raxis) : axis_ok ax = false -> mk_part (p ++ ax :: q) = ValueErr.
Proof.
  intros Hax. unfold mk_part. rewrite forallb_app. cbn [forallb]. rewrite Hax.
  rewrite andb_false_r. reflexivity.
Qed.

(* ---------- index lists with negative entries / out-of-range entries ---------- *)
Definition wrap_idx (n i : Z) : Z := if (i <? 0)%Z then (i + n)%Z else i.
Lemma fancy_idx_wrap (n : Z) (l : list Z) : (forall i, In i l -> (- n <= i < n)%Z) ->
  fancy_idx n l = Ok (map (wrap_idx n) l).
Proof.
  induction l as [|j l IH]; intros Hin; [reflexivity|]. unfold fancy_idx in *. cbn [mapM map].
  pose proof (Hin j (or_introl eq_refl)) as Hj.
  replace ((- n <=? j)%Z && (j <? n)%Z) with true
    by (symmetry; apply andb_true_iff; split; [apply Z.leb_le|apply Z.ltb_lt]; lia).
  cbn [bind]. rewrite IH by (intros; apply Hin; right; assumption). reflexivity.
Qed.
Lemma fancy_idx_out_of_range (n : Z) (l : list Z) :
  (exists i, In i l /\ (i < - n \/ n <= i)%Z) -> fancy_idx n l = IndexErr.
Proof.
  induction l as [|j l IH]; intros (i & Hin & Hi); [destruct Hin|]. unfold fancy_idx in *. cbn [mapM].
  destruct ((- n <=? j)%Z && (j <? n)%Z) eqn:E; [|reflexivity]. cbn [bind].
  destruct Hin as [->|Hin].
  - apply andb_prop in E. destruct E as [E1 E2]. apply Z.leb_le in E1. apply Z.ltb_lt in E2. lia.
  - rewrite IH by (exists i; split; assumption). reflexivity.
Qed.
Lemma getitem_list_wrapped (ax : Raxis) (p' : list Raxis) (l : list Z) :
  valid ax -> Forall valid p' -> (1 <= length l)%nat ->
  (forall i, In i l -> (- zlen (a_cs ax) <= i < zlen (a_cs ax))%Z) ->
  zincr (map (wrap_idx (zlen (a_cs ax))) l) ->
  getitem_list (ax :: p') l = Ok (list_ax ax (map (wrap_idx (zlen (a_cs ax))) l) :: p') /\
  valid (list_ax ax (map (wrap_idx (zlen (a_cs ax))) l)).
Proof.
  intros Hv Hp Hne Hin Hinc.
  destruct l as [|i0 r]; [cbn [length] in Hne; lia|].
  set (l := i0 :: r) in *. set (idxs := map (wrap_idx (zlen (a_cs ax))) l) in *.
  assert (Hr : forall i, In i idxs -> (0 <= i < zlen (a_cs ax))%Z).
  { intros i Hi. unfold idxs in Hi. apply in_map_iff in Hi. destruct Hi as (j & <- & Hj).
    pose proof (Hin j Hj). unfold wrap_idx. destruct (j <? 0)%Z eqn:E; [apply Z.ltb_lt in E|apply Z.ltb_ge in E]; lia. }
  assert (Hl : (1 <= length idxs)%nat) by (unfold idxs; rewrite map_length; exact Hne).
  pose proof (list_valid ax idxs Hv Hl Hinc Hr) as Hlv. split; [|exact Hlv].
  unfold getitem_list. unfold l at 1. fold l.
  rewrite fancy_idx_wrap by exact Hin. cbn [bind]. fold idxs. fold (list_ax ax idxs).
  match goal with |- context [nltb ?a ?b] => destruct (nltb a b) eqn:Elt end.
  - exfalso. apply ltb_true in Elt. pose proof (v_lohi _ Hlv) as Hle.
    unfold list_ax in Hle. cbn [a_lo a_hi] in Hle. unfold nth0 in Elt. numR. lra.
  - unfold nth0. apply (mk_part_valid (list_ax ax idxs :: p')). constructor; assumption.
Qed.
Lemma getitem_list_out_of_range (ax : Raxis) (p' : list Raxis) (l : list Z) :
  (exists i, In i l /\ (i < - zlen (a_cs ax) \/ zlen (a_cs ax) <= i)%Z) ->
  getitem_list (ax :: p') l = IndexErr.
Proof.
  intros Hex. unfold getitem_list. destruct l as [|i0 r] eqn:El; [destruct Hex as (i & [] & _)|].
  rewrite <- El in *. rewrite fancy_idx_out_of_range by exact Hex. reflexivity.
Qed.
