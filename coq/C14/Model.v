(* C14/Model.v -- executable model of odl/discr/partition.py (RectPartition and
   the uniform/nonuniform factories), the parts of odl/discr/grid.py,
   odl/set/domain.py and odl/util/normalize.py they call.
   Definitions only; polymorphic over the carrier (run at Q, proved at R).

   A partition is a list of axes; an axis is (lo, hi, coordinate vector):
   lo/hi are the limits of the partitioned interval (IntervalProd.min_pt /
   max_pt in that axis), the coordinate vector is RectGrid.coord_vectors[ax]. *)
From Coq Require Import ZArith List Bool.
From Verif Require Import Base.Num.
Import ListNotations.
Local Open Scope num_scope.

(* outcome enum: the exception classes the anchored code raises *)
Inductive res (A : Type) := Ok (a : A) | ValueErr | IndexErr | TypeErr.
Arguments Ok {A}. Arguments ValueErr {A}. Arguments IndexErr {A}. Arguments TypeErr {A}.
Definition bind {A B} (r : res A) (f : A -> res B) : res B :=
  match r with Ok a => f a | ValueErr => ValueErr | IndexErr => IndexErr | TypeErr => TypeErr end.
Fixpoint mapM {A B} (f : A -> res B) (l : list A) : res (list B) :=
  match l with
  | [] => Ok []
  | a :: l' => bind (f a) (fun b => bind (mapM f l') (fun bs => Ok (b :: bs)))
  end.

Record axis (T : Type) := mkAxis { a_lo : T; a_hi : T; a_cs : list T }.
Arguments mkAxis {T}. Arguments a_lo {T}. Arguments a_hi {T}. Arguments a_cs {T}.

(* ------------------------------------------------------------------ *)
(* Python slice semantics over Z (CPython PySlice_AdjustIndices)        *)
Definition oz := option Z.
Local Open Scope Z_scope.
Definition slice_adjust (n : Z) (s : oz * oz * oz) : option (Z * Z * Z) :=
  let '(st, sp, se) := s in
  let step := match se with Some k => k | None => 1 end in
  if step =? 0 then None else
  let lower := if step <? 0 then -1 else 0 in
  let upper := if step <? 0 then n - 1 else n in
  let clampf := fun v => if v <? 0 then Z.max (v + n) lower else Z.min v upper in
  let start := match st with None => if step <? 0 then upper else lower | Some v => clampf v end in
  let stop := match sp with None => if step <? 0 then lower else upper | Some v => clampf v end in
  Some (start, stop, step).
Definition range_len (start stop step : Z) : Z :=
  if 0 <? step then (if start <? stop then (stop - start - 1) / step + 1 else 0)
  else (if stop <? start then (start - stop - 1) / (- step) + 1 else 0).
Definition zrange (start stop step : Z) : list Z :=
  map (fun i => start + Z.of_nat i * step) (seq 0 (Z.to_nat (range_len start stop step))).
(* indices selected by l[s] for a sequence of length n; None = "slice step cannot be zero" *)
Definition slice_idx (n : Z) (s : oz * oz * oz) : option (list Z) :=
  match slice_adjust n s with
  | Some (a, b, c) => Some (zrange a b c)
  | None => None
  end.
Local Close Scope Z_scope.
Definition take_idx {A} (l : list A) (idxs : list Z) : list A :=
  flat_map (fun i => match nth_error l (Z.to_nat i) with Some a => [a] | None => [] end) idxs.
Definition zlen {A} (l : list A) : Z := Z.of_nat (length l).

(* NumPy integer ("fancy") indexing of a length-n sequence by a list of ints:
   negative entries wrap once, anything outside raises IndexError *)
Definition fancy_idx (n : Z) (l : list Z) : res (list Z) :=
  mapM (fun i => if ((- n <=? i) && (i <? n))%Z then Ok (if (i <? 0)%Z then (i + n)%Z else i) else IndexErr) l.

(* ------------------------------------------------------------------ *)
(* odl/util/normalize.py: normalized_index_expression                  *)
Inductive item := IInt (i : Z) | ISlice (a b c : oz) | IEll | INew.
Inductive iexpr := ESingle (it : item) | ETuple (l : list item) | EList (l : list Z).

Definition is_ell (it : item) : bool := match it with IEll => true | _ => false end.
Definition is_new (it : item) : bool := match it with INew => true | _ => false end.
Fixpoint find_ell (l : list item) : nat :=
  match l with [] => O | it :: l' => if is_ell it then O else S (find_ell l') end.
Definition full_slice : item := ISlice None None None.

(* the loop "for (i, idx), n in zip(enumerate(indices), shape)" *)
(* a negative index is wrapped once; "idx >= n or idx < 0" -> IndexError
   (the second test was added by /repo commit 2a3c64a, former finding C14/getitem-int-below-minus-n) *)
Fixpoint norm_ints (int_to_slice : bool) (l : list item) (shape : list Z) : res (list item) :=
  match l, shape with
  | it :: l', n :: shape' =>
      match it with
      | IInt i =>
          let i' := if (i <? 0)%Z then (i + n)%Z else i in
          if (n <=? i')%Z || (i' <? 0)%Z then IndexErr
          else bind (norm_ints int_to_slice l' shape')
                    (fun r => Ok ((if int_to_slice then ISlice (Some i') (Some (i' + 1)%Z) None else IInt i) :: r))
      | _ => bind (norm_ints int_to_slice l' shape') (fun r => Ok (it :: r))
      end
  | _, _ => Ok l
  end.
Definition oz_eqb (a b : oz) : bool :=
  match a, b with Some x, Some y => (x =? y)%Z | None, None => true | _, _ => false end.
(* "s.start == s.stop and s.start is not None or s.start == n" over zip(indices, shape) *)
Fixpoint empty_slice_check (l : list item) (shape : list Z) : bool :=
  match l, shape with
  | it :: l', n :: shape' =>
      (match it with
       | ISlice a b _ => (oz_eqb a b && match a with Some _ => true | None => false end) || oz_eqb a (Some n)
       | _ => false
       end) || empty_slice_check l' shape'
  | _, _ => false
  end.

Definition norm_index_list (l0 : list item) (shape : list Z) (int_to_slice : bool) : res (list item) :=
  let ndim := length shape in
  let l1 := if (length l0 <? ndim)%nat && negb (existsb is_ell l0) then l0 ++ [IEll] else l0 in
  bind (if existsb is_ell l1 then
          if (1 <? length (filter is_ell l1))%nat then ValueErr
          else let e := find_ell l1 in
               let extra := (Z.of_nat ndim - Z.of_nat (length l1) + 1)%Z in
               Ok (firstn e l1 ++ repeat full_slice (Z.to_nat extra) ++ skipn (S e) l1)
        else Ok l1)
  (fun l2 => bind (norm_ints int_to_slice l2 shape)
  (fun l3 => if empty_slice_check l3 shape then ValueErr
             else if existsb is_new l3 then ValueErr
             else if (ndim <? length l3)%nat then IndexErr
             else Ok l3)).
Definition items_of (e : iexpr) : list item :=
  match e with
  | ESingle (IInt i) => [IInt i; IEll]
  | ESingle it => [it]
  | ETuple l => l
  | EList _ => []
  end.
Definition norm_index (e : iexpr) (shape : list Z) (int_to_slice : bool) : res (list item) :=
  norm_index_list (items_of e) shape int_to_slice.

(* ------------------------------------------------------------------ *)
Section Model.
Context {T : Type} `{Num T}.

Definition hd0 (l : list T) : T := hd nzero l.
Definition last0 (l : list T) : T := last l nzero.
Definition nth0 (i : nat) (l : list T) : T := nth i l nzero.
Definition of_nat (n : nat) : T := of_Z (Z.of_nat n).

(* ---- RectGrid.__init__ / IntervalProd.__init__ / RectPartition.__init__ checks ---- *)
Fixpoint strict_incr (cs : list T) : bool :=
  match cs with
  | a :: ((b :: _) as r) => (a <? b) && strict_incr r
  | _ => true
  end.
(* non-empty, sorted, no duplicates  (else ValueError) *)
Definition grid_ok (cs : list T) : bool := match cs with [] => false | _ => strict_incr cs end.
(* max >= min (IntervalProd), grid valid (RectGrid), grid inside the set (contains_set, atol = 0) *)
Definition axis_ok (ax : axis T) : bool :=
  (a_lo ax <=? a_hi ax) && grid_ok (a_cs ax) &&
  (a_lo ax <=? hd0 (a_cs ax)) && (last0 (a_cs ax) <=? a_hi ax).
Definition mk_part (axes : list (axis T)) : res (list (axis T)) :=
  if forallb axis_ok axes then Ok axes else ValueErr.
Fixpoint zip_axes (lo hi : list T) (cs : list (list T)) : list (axis T) :=
  match lo, hi, cs with
  | a :: lo', b :: hi', c :: cs' => mkAxis a b c :: zip_axes lo' hi' cs'
  | _, _, _ => []
  end.
(* RectPartition(IntervalProd(lo, hi), RectGrid( *cs )) *)
Definition mk_part_raw (lo hi : list T) (cs : list (list T)) : res (list (axis T)) :=
  if (length lo =? length hi)%nat && (length lo =? length cs)%nat
  then mk_part (zip_axes lo hi cs) else ValueErr.

(* ---- cell boundaries:  bdry[1:-1] = (vec[1:] + vec[:-1]) / 2,  bdry[0] = min, bdry[-1] = max ---- *)
Fixpoint mids (cs : list T) : list T :=
  match cs with
  | a :: ((b :: _) as r) => (b + a) / ntwo :: mids r
  | _ => []
  end.
Definition bdry_vec (ax : axis T) : list T := a_lo ax :: mids (a_cs ax) ++ [a_hi ax].

(* ---- cell_sizes_vecs ---- *)
Fixpoint inner_sizes (cs : list T) : list T :=
  match cs with
  | a :: ((_ :: c :: _) as r) => (c - a) / ntwo :: inner_sizes r
  | _ => []
  end.
Fixpoint last_size (hi : T) (cs : list T) : T :=
  match cs with
  | a :: ((b :: r') as r) => match r' with [] => hi - (a + b) / ntwo | _ => last_size hi r end
  | _ => nzero
  end.
Definition cell_sizes (ax : axis T) : list T :=
  match a_cs ax with
  | [] => []
  | [_] => [nzero]
  | c0 :: c1 :: _ => ((c0 + c1) / ntwo - a_lo ax) :: inner_sizes (a_cs ax) ++ [last_size (a_hi ax) (a_cs ax)]
  end.

(* ---- boundary_cell_fractions ---- *)
Fixpoint last_gap (cs : list T) : T :=
  match cs with
  | a :: ((b :: r') as r) => match r' with [] => b - a | _ => last_gap r end
  | _ => nzero
  end.
Definition bdry_fracs (ax : axis T) : T * T :=
  match a_cs ax with
  | c0 :: c1 :: _ =>
      (nhalf + (c0 - a_lo ax) / (c1 - c0), nhalf + (a_hi ax - last0 (a_cs ax)) / last_gap (a_cs ax))
  | _ => (none_, none_)
  end.

(* ---- nodes_on_bdry_byaxis (np.isclose modelled as equality) ---- *)
Definition nodes_on_bdry (ax : axis T) : bool * bool :=
  (hd0 (a_cs ax) =? a_lo ax, last0 (a_cs ax) =? a_hi ax).

(* ---- RectGrid.stride / RectPartition.cell_sides (np.allclose modelled as equality) ---- *)
Fixpoint diffs (cs : list T) : list T :=
  match cs with
  | a :: ((b :: _) as r) => (b - a) :: diffs r
  | _ => []
  end.
Definition is_uniform (cs : list T) : bool :=
  match diffs cs with [] => true | d :: r => forallb (fun e => e =? d) r end.
(* None = NaN (non-uniform axis) *)
Definition stride (cs : list T) : option T :=
  if is_uniform cs then
    Some (match cs with
          | _ :: _ :: _ => (last0 cs - hd0 cs) / (of_nat (length cs) - none_)
          | _ => nzero
          end)
  else None.
Definition cell_side (ax : axis T) : option T :=
  match stride (a_cs ax) with
  | Some s => Some (if s =? nzero then a_hi ax - a_lo ax else s)
  | None => None
  end.

(* ---- RectPartition.index ---- *)
(* np.searchsorted(v, x) (side='left') on a sorted vector = number of leading entries < x *)
Fixpoint count_lt (x : T) (l : list T) : nat :=
  match l with
  | b :: r => if b <? x then S (count_lt x r) else O
  | [] => O
  end.
Definition index_axis (ax : axis T) (x : T) : Z :=
  let b := bdry_vec ax in
  let ind := count_lt x b in
  if (nth0 ind b =? x) && negb (ind =? length b - 1)%nat then Z.of_nat ind else (Z.of_nat ind - 1)%Z.
Definition findex_axis (ax : axis T) (x : T) : T :=
  let b := bdry_vec ax in
  let ind := count_lt x b in
  if nth0 ind b =? x then of_nat ind
  else of_nat ind - (nth0 ind b - x) / (nth0 ind b - nth0 (ind - 1) b).
(* value in self.set  (else TypeError from IntervalProd.element) *)
Fixpoint in_set (p : list (axis T)) (x : list T) : bool :=
  match p, x with
  | [], [] => true
  | ax :: p', v :: x' => (a_lo ax <=? v) && (v <=? a_hi ax) && in_set p' x'
  | _, _ => false
  end.
Fixpoint map2 {A B C} (f : A -> B -> C) (l : list A) (m : list B) : list C :=
  match l, m with a :: l', b :: m' => f a b :: map2 f l' m' | _, _ => [] end.
Definition index (p : list (axis T)) (x : list T) : res (list Z) :=
  if in_set p x then Ok (map2 index_axis p x) else TypeErr.
Definition findex (p : list (axis T)) (x : list T) : res (list T) :=
  if in_set p x then Ok (map2 findex_axis p x) else TypeErr.

(* ---- RectPartition.__getitem__ (index expression, not a list) ---- *)
Definition shape_of (p : list (axis T)) : list Z := map (fun ax => zlen (a_cs ax)) p.
(* new limits: cvec[:-1][start:stop][0], cvec[1:][start:stop][-1]  (IndexError when empty) *)
Definition sub_limits (ax : axis T) (it : item) : res (T * T) :=
  match it with
  | ISlice a b _ =>
      match slice_idx (zlen (a_cs ax)) (a, b, None) with
      | Some (i0 :: r) =>
          let b_ := bdry_vec ax in
          Ok (nth0 (Z.to_nat i0) b_, nth0 (S (Z.to_nat (last r i0))) b_)
      | _ => IndexErr
      end
  | _ => IndexErr
  end.
(* grid[indices]: vec[idx] with the full slice (step included), then RectGrid / RectPartition checks *)
Definition sub_axis (ax : axis T) (it : item) (lim : T * T) : res (axis T) :=
  match it with
  | ISlice a b c =>
      match slice_idx (zlen (a_cs ax)) (a, b, c) with
      | Some idxs => Ok (mkAxis (fst lim) (snd lim) (take_idx (a_cs ax) idxs))
      | None => ValueErr
      end
  | _ => ValueErr
  end.
Fixpoint mapM2 {A B C} (f : A -> B -> res C) (l : list A) (m : list B) : res (list C) :=
  match l, m with
  | a :: l', b :: m' => bind (f a b) (fun c => bind (mapM2 f l' m') (fun cs => Ok (c :: cs)))
  | _, _ => Ok []
  end.
Fixpoint mapM3 {A B C D} (f : A -> B -> C -> res D) (l : list A) (m : list B) (k : list C) : res (list D) :=
  match l, m, k with
  | a :: l', b :: m', c :: k' => bind (f a b c) (fun d => bind (mapM3 f l' m' k') (fun ds => Ok (d :: ds)))
  | _, _, _ => Ok []
  end.
Definition getitem_expr (p : list (axis T)) (e : iexpr) : res (list (axis T)) :=
  bind (norm_index e (shape_of p) true) (fun idx =>
  bind (mapM2 sub_limits p idx) (fun lims =>
  (* self.grid[indices] normalizes once more (now all slices), int_to_slice=False *)
  bind (norm_index (ETuple idx) (shape_of p) false) (fun idx' =>
  bind (mapM3 sub_axis p idx' lims) mk_part))).

(* index list: slice along the first axis by NumPy integer-array indexing *)
Definition getitem_list (p : list (axis T)) (l : list Z) : res (list (axis T)) :=
  match l, p with
  | [], _ => Ok []
  | _, [] => IndexErr
  | _ :: _, ax :: p' =>
      bind (fancy_idx (zlen (a_cs ax)) l) (fun idxs =>
        let b_ := bdry_vec ax in
        let lo' := nth0 (Z.to_nat (hd 0%Z idxs)) b_ in
        let hi' := nth0 (S (Z.to_nat (last idxs 0%Z))) b_ in
        if (hi' <? lo') then ValueErr
        else mk_part (mkAxis lo' hi' (take_idx (a_cs ax) idxs) :: p'))
  end.
Definition getitem (p : list (axis T)) (e : iexpr) : res (list (axis T)) :=
  match e with EList l => getitem_list p l | _ => getitem_expr p e end.

(* ---- insert / append (RectGrid.insert + IntervalProd.insert, recursion over the parts) ---- *)
Fixpoint insert_parts (fuel : nat) (p : list (axis T)) (index : Z) (parts : list (list (axis T)))
  : res (list (axis T)) :=
  let nd := zlen p in
  if negb ((- nd <=? index) && (index <=? nd))%Z then IndexErr
  else let i := if (index <? 0)%Z then (index + nd)%Z else index in
       match parts with
       | [] => Ok p
       | [q] => Ok (firstn (Z.to_nat i) p ++ q ++ skipn (Z.to_nat i) p)
       | q :: rest =>
           match fuel with
           | O => Ok p
           | S fuel' => insert_parts fuel' (firstn (Z.to_nat i) p ++ q ++ skipn (Z.to_nat i) p)
                                     (i + zlen q)%Z rest
           end
       end.
Definition insert (p : list (axis T)) (index : Z) (parts : list (list (axis T))) :=
  insert_parts (length parts) p index parts.
Definition append (p : list (axis T)) (parts : list (list (axis T))) := insert p (zlen p) parts.

(* ---- squeeze(axis) : np.arange(ndim)[axis] ---- *)
Inductive axsel := AxAll | AxInt (i : Z) | AxList (l : list Z) | AxSlice (a b c : oz).
Definition axsel_range (nd : Z) (s : axsel) : res (list Z) :=
  match s with
  | AxAll => Ok (map Z.of_nat (seq 0 (Z.to_nat nd)))
  | AxInt i => fancy_idx nd [i]
  | AxList l => fancy_idx nd l
  | AxSlice a b c => match slice_idx nd (a, b, c) with Some l => Ok l | None => ValueErr end
  end.
Definition zmem (i : Z) (l : list Z) : bool := existsb (Z.eqb i) l.
Definition nondegen (ax : axis T) : bool := (1 <? length (a_cs ax))%nat.
Fixpoint keep_axes (rng : list Z) (i : Z) (p : list (axis T)) : list (axis T) :=
  match p with
  | [] => []
  | ax :: p' => if negb (zmem i rng) || nondegen ax then ax :: keep_axes rng (i + 1)%Z p'
                else keep_axes rng (i + 1)%Z p'
  end.
Definition squeeze (p : list (axis T)) (s : axsel) : res (list (axis T)) :=
  bind (axsel_range (zlen p) s) (fun rng => Ok (keep_axes rng 0%Z p)).

(* ---- byaxis ---- *)
(* slc = zeros(ndim, object); slc[indices] = slice(None); part[tuple(slc)].squeeze(where(slc == 0)) *)
Definition byaxis_sel (p : list (axis T)) (sel : list Z) : res (list (axis T)) :=
  let nd := length p in
  let slc := map (fun i => if zmem (Z.of_nat i) sel then full_slice else IInt 0) (seq 0 nd) in
  let sq := filter (fun i => negb (zmem i sel)) (map Z.of_nat (seq 0 nd)) in
  bind (getitem_expr p (ETuple slc)) (fun q => squeeze q (AxList sq)).
Definition byaxis1 (p : list (axis T)) (s : axsel) : res (list (axis T)) :=
  bind (axsel_range (zlen p) s) (byaxis_sel p).
(* sequence: parts = [byaxis[i] for i in indices]; parts[0].append( *parts[1:] ) *)
Definition byaxis_seq (p : list (axis T)) (l : list Z) : res (list (axis T)) :=
  bind (mapM (fun i => byaxis1 p (AxInt i)) l) (fun parts =>
    match parts with
    | [] => Ok []
    | q :: rest => append q rest
    end).

(* ---- uniform_grid_fromintv / uniform_partition_fromintv ---- *)
(* np.linspace(a, b, n, endpoint=True): step = (b - a) / (n - 1); a + i * step *)
Definition linspace (a b : T) (n : nat) : list T :=
  match n with
  | O => []
  | S O => [a]
  | _ => map (fun i => a + of_nat i * ((b - a) / (of_nat n - none_))) (seq 0 n)
  end.
Definition ugrid_limits (n : Z) (xmin xmax : T) (fl : bool * bool) : T * T :=
  match fl with
  | (true, true) => (xmin, xmax)
  | (true, false) => (xmin, xmax - (xmax - xmin) / (of_Z (2 * n - 1)))
  | (false, true) => (xmin + (xmax - xmin) / (of_Z (2 * n - 1)), xmax)
  | (false, false) => (xmin + (xmax - xmin) / (of_Z (2 * n)), xmax - (xmax - xmin) / (of_Z (2 * n)))
  end.
Definition ugrid_axis (n : Z) (xmin xmax : T) (fl : bool * bool) : list T :=
  let '(gmin, gmax) := ugrid_limits n xmin xmax fl in
  if (n <? 0)%Z then [] else linspace gmin gmax (Z.to_nat n).
Definition upart_fromintv (lo hi : list T) (shape : list Z) (flags : list (bool * bool))
  : res (list (axis T)) :=
  if (length lo =? length hi)%nat && (length lo =? length shape)%nat && (length lo =? length flags)%nat
  then if forallb (fun ab => fst ab <=? snd ab) (combine lo hi)
       then mk_part_raw lo hi (map (fun k => let '(n, (a, b), fl) := k in ugrid_axis n a b fl)
                                   (combine (combine shape (combine lo hi)) flags))
       else ValueErr
  else ValueErr.

(* ---- uniform_partition: completion of the missing parameter, per axis ----
   [rnd] is Python's round() on the computed number of nodes; the code accepts it only
   within 1e-5 of the computed value -- modelled as: the computed value is that integer. *)
Definition nb_half (fl : bool * bool) : T :=
  ((if fst fl then none_ else nzero) + (if snd fl then none_ else nzero)) / ntwo.
Definition complete_axis (rnd : T -> Z) (oxmin oxmax : option T) (on : option Z) (odx : option T)
  (fl : bool * bool) : res (T * T * Z) :=
  match oxmin, oxmax, on, odx with
  | None, Some xmax, Some n, Some dx => Ok (xmax - (of_Z n - nb_half fl) * dx, xmax, n)
  | Some xmin, None, Some n, Some dx => Ok (xmin, xmin + (of_Z n - nb_half fl) * dx, n)
  | Some xmin, Some xmax, None, Some dx =>
      let n_calc := (xmax - xmin) / dx + nb_half fl in
      let n := rnd n_calc in
      if of_Z n =? n_calc then Ok (xmin, xmax, n) else ValueErr
  | Some xmin, Some xmax, Some n, None => Ok (xmin, xmax, n)
  | Some xmin, Some xmax, Some n, Some dx =>
      if xmax =? xmin + (of_Z n - nb_half fl) * dx then Ok (xmin, xmax, n) else ValueErr
  | _, _, _, _ => ValueErr
  end.
Fixpoint mapM5 {A B C D E F} (f : A -> B -> C -> D -> E -> res F)
  (a : list A) (b : list B) (c : list C) (d : list D) (e : list E) : res (list F) :=
  match a, b, c, d, e with
  | x :: a', y :: b', z :: c', u :: d', v :: e' =>
      bind (f x y z u v) (fun r => bind (mapM5 f a' b' c' d' e') (fun rs => Ok (r :: rs)))
  | _, _, _, _, _ => Ok []
  end.
Definition uniform_partition (rnd : T -> Z) (xmin xmax : list (option T)) (n : list (option Z))
  (dx : list (option T)) (flags : list (bool * bool)) : res (list (axis T)) :=
  bind (mapM5 (complete_axis rnd) xmin xmax n dx flags) (fun l =>
    upart_fromintv (map (fun t => fst (fst t)) l) (map (fun t => snd (fst t)) l) (map snd l) flags).

(* ---- uniform_partition_fromgrid: None = "half a step outside the outermost node" ---- *)
Definition fromgrid_axis (cs : list T) (omin omax : option T) : res (axis T) :=
  bind (match omin with
        | Some v => Ok v
        | None => match cs with c0 :: c1 :: _ => Ok (c0 - (c1 - c0) / ntwo) | _ => ValueErr end
        end) (fun lo =>
  bind (match omax with
        | Some v => Ok v
        | None => match cs with _ :: _ :: _ => Ok (last0 cs + last_gap cs / ntwo) | _ => ValueErr end
        end) (fun hi => Ok (mkAxis lo hi cs))).
Definition upart_fromgrid (cs : list (list T)) (omin omax : list (option T)) : res (list (axis T)) :=
  bind (mapM3 fromgrid_axis cs omin omax) mk_part.

(* ---- nonuniform_partition ---- *)
Definition nonuniform_axis (cs : list T) (omin omax : option T) (fl : bool * bool) : res (axis T) :=
  match omin, omax, fl with
  | Some _, _, (true, _) => ValueErr
  | _, Some _, (_, true) => ValueErr
  | _, _, (bl, br) =>
      let one := match cs with [_] => true | _ => false end in
      let lo := match omin with
                | Some v => v
                | None => if bl || one then hd0 cs else hd0 cs - (nth0 1 cs - hd0 cs) / ntwo
                end in
      let hi := match omax with
                | Some v => v
                | None => if br || one then last0 cs else last0 cs + last_gap cs / ntwo
                end in
      Ok (mkAxis lo hi cs)
  end.
Fixpoint mapM4 {A B C D E} (f : A -> B -> C -> D -> res E)
  (a : list A) (b : list B) (c : list C) (d : list D) : res (list E) :=
  match a, b, c, d with
  | x :: a', y :: b', z :: c', u :: d' =>
      bind (f x y z u) (fun r => bind (mapM4 f a' b' c' d') (fun rs => Ok (r :: rs)))
  | _, _, _, _ => Ok []
  end.
Definition nonuniform_partition (cs : list (list T)) (omin omax : list (option T))
  (flags : list (bool * bool)) : res (list (axis T)) :=
  bind (mapM4 nonuniform_axis cs omin omax flags) mk_part.

End Model.
