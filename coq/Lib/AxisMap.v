(* Lib/AxisMap.v -- a map on entries commutes with "apply along an axis":
   if map h (F l) = G (map h l) on lines, then map h (along_axis F x) = along_axis G (map h x).
   Generic in both element types; used for the Q -> R transfer of N-d models. *)
From Coq Require Import List Arith.
From Verif Require Import Lib.Axis.
Import ListNotations.

Section AxisMap.
Context {A B : Type} (h : A -> B).
Notation hv := (map h).
Notation hm := (map (map h)).

Lemma map_repeat_nil n : hm (repeat (@nil A) n) = repeat (@nil B) n.
Proof. induction n as [|n IH]; cbn [repeat map]; [reflexivity | rewrite IH; reflexivity]. Qed.

Lemma map_chunks k n (l : list A) : hm (chunks k n l) = chunks k n (hv l).
Proof.
  revert l; induction n as [|n IH]; intros l; cbn [chunks map]; [reflexivity|].
  rewrite IH, firstn_map, skipn_map. reflexivity.
Qed.

Lemma map_zipcons (r : list A) cols : hm (zipcons r cols) = zipcons (hv r) (hm cols).
Proof.
  revert cols; induction r as [|a r IH]; intros [|c cols]; try reflexivity.
  cbn [zipcons map]. rewrite IH. reflexivity.
Qed.

Lemma map_transp n (M : list (list A)) : hm (transp n M) = transp n (hm M).
Proof.
  induction M as [|r M IH]; cbn [transp map]; [apply map_repeat_nil|].
  rewrite map_zipcons, IH. reflexivity.
Qed.

Lemma map_along outer n inner n' (F : list A -> list A) (G : list B -> list B) (x : list A) :
  (forall l, hv (F l) = G (hv l)) -> hv (along outer n inner n' F x) = along outer n inner n' G (hv x).
Proof.
  intros HF. unfold along. rewrite concat_map, map_map, <- map_chunks, map_map. f_equal. apply map_ext. intros blk.
  unfold along_block. rewrite concat_map, map_transp, <- map_chunks, <- (map_transp inner (chunks inner n blk)).
  f_equal. f_equal. rewrite !map_map. apply map_ext. intros l. apply HF.
Qed.

Lemma map_along_axis (shape : list nat) (ax : nat) (F : list A -> list A) (G : list B -> list B) (x : list A) :
  (forall l, hv (F l) = G (hv l)) -> hv (along_axis shape ax F x) = along_axis shape ax G (hv x).
Proof. intros HF. unfold along_axis. apply map_along. exact HF. Qed.
End AxisMap.
