(* Lib/AxisR.v -- lemmas about Lib/Axis at the R instance: the transpose
   (adjoint) of "apply a 1-d map along an axis" is "apply the 1-d adjoint along
   that axis", for every outer/inner extent and every line length.  This lifts
   each 1-d adjoint theorem (C13, C16, ...) to N-d arrays in flat C order. *)
From Coq Require Import ZArith Arith ArithRing Reals Lra Lia List Bool.
From Verif Require Import Base.Num Base.Vec Base.VecR Lib.Axis.
Import ListNotations.
Local Open Scope R_scope.

Notation Rmat := (list (list R)).

(* sum of row-wise dots *)
Fixpoint mdot (a b : Rmat) : R :=
  match a, b with
  | r :: a', s :: b' => dot r s + mdot a' b'
  | _, _ => 0
  end.

(* [rect r c m]: r rows, each of length c *)
Definition rect (r c : nat) (m : Rmat) : Prop :=
  length m = r /\ Forall (fun row => length row = c) m.

Lemma rect_nil c : rect 0 c [].
Proof. split; [reflexivity | constructor]. Qed.
Lemma rect_cons r c row m : length row = c -> rect r c m -> rect (S r) c (row :: m).
Proof. intros Hl [Hr Hf]; split; [cbn; congruence | constructor; assumption]. Qed.
Lemma rect_inv r c row m : rect (S r) c (row :: m) -> length row = c /\ rect r c m.
Proof.
  intros [Hr Hf]; inversion Hf as [|? ? Hrow Hm]; subst.
  split; [reflexivity | split; [cbn in Hr; congruence | assumption]].
Qed.

Lemma dot_app (x x' y y' : Rvec) : length x = length y ->
  dot (x ++ x') (y ++ y') = dot x y + dot x' y'.
Proof.
  revert y; induction x as [|a x IH]; intros [|b y] Hl; cbn in Hl; try congruence.
  - cbn [app]; rewrite dot_nil_l; lra.
  - cbn [app]; rewrite !dot_cons, IH by congruence; lra.
Qed.

Lemma dot_concat (a b : Rmat) r c : rect r c a -> rect r c b ->
  dot (concat a) (concat b) = mdot a b.
Proof.
  revert b r; induction a as [|row a IH]; intros [|s b] r Ha Hb.
  - reflexivity.
  - destruct Ha as [Ha _], Hb as [Hb _]; cbn in *; congruence.
  - destruct Ha as [Ha _], Hb as [Hb _]; cbn in *; congruence.
  - destruct r as [|r]; [destruct Ha as [Ha _]; cbn in Ha; congruence|].
    apply rect_inv in Ha as [Hl Ha]; apply rect_inv in Hb as [Hs Hb].
    cbn [concat mdot]; rewrite dot_app by congruence; rewrite (IH b r) by assumption; reflexivity.
Qed.

(* ---- shape of zipcons / transp ---- *)
Lemma zipcons_rect (row : Rvec) (cols : Rmat) r :
  rect (length row) r cols -> rect (length row) (S r) (Axis.zipcons row cols).
Proof.
  revert cols; induction row as [|a row IH]; intros [|c cols] Hc.
  - apply rect_nil.
  - destruct Hc as [Hc _]; cbn in Hc; congruence.
  - destruct Hc as [Hc _]; cbn in Hc; congruence.
  - cbn [length] in *. apply rect_inv in Hc as [Hl Hc].
    cbn [Axis.zipcons]; apply rect_cons; [cbn; congruence | apply IH; assumption].
Qed.

Lemma rect_repeat_nil c : rect c 0 (repeat (@nil R) c).
Proof.
  split; [apply repeat_length|].
  induction c as [|c IH]; cbn; constructor; [reflexivity | assumption].
Qed.

Lemma transp_rect r c (m : Rmat) : rect r c m -> rect c r (transp c m).
Proof.
  revert r; induction m as [|row m IH]; intros r Hm.
  - destruct Hm as [Hr _]; cbn in Hr; subst r; cbn [transp]; apply rect_repeat_nil.
  - destruct r as [|r]; [destruct Hm as [Hr _]; cbn in Hr; congruence|].
    apply rect_inv in Hm as [Hl Hm]. cbn [transp]. subst c.
    apply zipcons_rect, IH, Hm.
Qed.

(* ---- mdot is invariant under simultaneous transposition ---- *)
Lemma mdot_zipcons (a b : Rvec) (x y : Rmat) r :
  length a = length b -> rect (length a) r x -> rect (length a) r y ->
  mdot (Axis.zipcons a x) (Axis.zipcons b y) = dot a b + mdot x y.
Proof.
  revert b x y; induction a as [|h a IH]; intros [|k b] x y Hl Hx Hy; cbn in Hl; try congruence.
  - destruct x, y; cbn; rewrite ?dot_nil_l; try lra;
      destruct Hx as [Hx _], Hy as [Hy _]; cbn in *; congruence.
  - destruct x as [|x0 x]; [destruct Hx as [Hx _]; cbn in Hx; congruence|].
    destruct y as [|y0 y]; [destruct Hy as [Hy _]; cbn in Hy; congruence|].
    cbn [length] in *. apply rect_inv in Hx as [Hx0 Hx]; apply rect_inv in Hy as [Hy0 Hy].
    cbn [Axis.zipcons mdot]. rewrite !dot_cons, IH by (assumption || congruence). lra.
Qed.

Lemma mdot_repeat_nil c : mdot (repeat (@nil R) c) (repeat (@nil R) c) = 0.
Proof. induction c as [|c IH]; cbn [repeat mdot]; [reflexivity | rewrite IH, dot_nil_l; lra]. Qed.

Lemma mdot_transp r c (a b : Rmat) : rect r c a -> rect r c b ->
  mdot (transp c a) (transp c b) = mdot a b.
Proof.
  revert b r; induction a as [|row a IH]; intros [|s b] r Ha Hb.
  - cbn [transp mdot]; apply mdot_repeat_nil.
  - destruct Ha as [Ha _], Hb as [Hb _]; cbn in *; congruence.
  - destruct Ha as [Ha _], Hb as [Hb _]; cbn in *; congruence.
  - destruct r as [|r]; [destruct Ha as [Ha _]; cbn in Ha; congruence|].
    apply rect_inv in Ha as [Hl Ha]; apply rect_inv in Hb as [Hs Hb].
    cbn [transp mdot]. subst c.
    rewrite (mdot_zipcons row s _ _ r); [ | congruence | apply transp_rect; assumption
      | apply transp_rect; assumption ].
    rewrite (IH b r) by assumption. reflexivity.
Qed.

(* ---- transposition is an involution on rectangular matrices ---- *)
Lemma transp_zipcons (a : Rvec) (x : Rmat) r : rect (length a) r x ->
  transp (S r) (Axis.zipcons a x) = a :: transp r x.
Proof.
  revert x; induction a as [|h a IH]; intros [|x0 x] Hx.
  - reflexivity.
  - destruct Hx as [Hx _]; cbn in Hx; congruence.
  - destruct Hx as [Hx _]; cbn in Hx; congruence.
  - cbn [length] in Hx; apply rect_inv in Hx as [Hx0 Hx].
    cbn [Axis.zipcons]. cbn [transp]. rewrite IH by assumption. reflexivity.
Qed.

Lemma transp_repeat_nil c : transp 0 (repeat (@nil R) c) = [].
Proof. destruct c; reflexivity. Qed.

Lemma transp_invol r c (m : Rmat) : rect r c m -> transp r (transp c m) = m.
Proof.
  revert r; induction m as [|row m IH]; intros r Hm.
  - destruct Hm as [Hr _]; cbn in Hr; subst r. cbn [transp]. apply transp_repeat_nil.
  - destruct r as [|r]; [destruct Hm as [Hr _]; cbn in Hr; congruence|].
    apply rect_inv in Hm as [Hl Hm]. cbn [transp]. subst c.
    rewrite transp_zipcons by (apply transp_rect; assumption).
    rewrite IH by assumption. reflexivity.
Qed.

(* ---- chunks ---- *)
Lemma chunks_rect k n (l : Rvec) : length l = (n * k)%nat -> rect n k (chunks k n l).
Proof.
  revert l; induction n as [|n IH]; intros l Hl; cbn [chunks].
  - apply rect_nil.
  - apply rect_cons.
    + rewrite firstn_length; cbn in Hl; lia.
    + apply IH; rewrite skipn_length; cbn in Hl; lia.
Qed.

Lemma concat_chunks k n (l : Rvec) : length l = (n * k)%nat -> concat (chunks k n l) = l.
Proof.
  revert l; induction n as [|n IH]; intros l Hl; cbn [chunks concat].
  - destruct l; [reflexivity | cbn in Hl; congruence].
  - rewrite IH by (rewrite skipn_length; cbn in Hl; lia). apply firstn_skipn.
Qed.

Lemma concat_rect_length r c (m : Rmat) : rect r c m -> length (concat m) = (r * c)%nat.
Proof.
  revert r; induction m as [|row m IH]; intros r Hm.
  - destruct Hm as [Hr _]; cbn in Hr; subst r; reflexivity.
  - destruct r as [|r]; [destruct Hm as [Hr _]; cbn in Hr; congruence|].
    apply rect_inv in Hm as [Hl Hm]. cbn [concat]. rewrite app_length, (IH r) by assumption. lia.
Qed.

Lemma map_rect (F : Rvec -> Rvec) r c c' (m : Rmat) :
  (forall l, length l = c -> length (F l) = c') -> rect r c m -> rect r c' (map F m).
Proof.
  intros HF [Hr Hf]; split; [rewrite map_length; assumption|].
  clear Hr. induction Hf as [|row m Hrow _ IH]; cbn [map]; constructor; [apply HF; assumption | assumption].
Qed.

Lemma mdot_map_adj (k : R) (F G : Rvec -> Rvec) r c c' (a b : Rmat) :
  (forall l m, length l = c -> length m = c' -> dot (F l) m = k * dot l (G m)) ->
  rect r c a -> rect r c' b -> mdot (map F a) b = k * mdot a (map G b).
Proof.
  intros Hadj; revert b r; induction a as [|row a IH]; intros [|s b] r Ha Hb;
    try (cbn [map mdot]; lra).
  destruct r as [|r]; [destruct Ha as [Ha _]; cbn in Ha; congruence|].
  apply rect_inv in Ha as [Hl Ha]; apply rect_inv in Hb as [Hs Hb].
  cbn [map mdot]. rewrite Hadj by assumption. rewrite (IH b r) by assumption. lra.
Qed.

(* ---- one block, then the whole array ---- *)
Section Along.
Variables (k : R) (n inner n' : nat) (F G : Rvec -> Rvec).
Hypothesis HF : forall l, length l = n -> length (F l) = n'.
Hypothesis HG : forall m, length m = n' -> length (G m) = n.
Hypothesis Hadj : forall l m, length l = n -> length m = n' -> dot (F l) m = k * dot l (G m).

Lemma along_block_length (blk : Rvec) : length blk = (n * inner)%nat ->
  length (along_block n inner n' F blk) = (n' * inner)%nat.
Proof.
  intros Hb. unfold along_block.
  apply (concat_rect_length n' inner), transp_rect, (map_rect F inner n n'); [exact HF|].
  apply transp_rect, chunks_rect, Hb.
Qed.

Lemma along_block_adjoint (blk yb : Rvec) :
  length blk = (n * inner)%nat -> length yb = (n' * inner)%nat ->
  dot (along_block n inner n' F blk) yb = k * dot blk (along_block n' inner n G yb).
Proof.
  intros Hb Hy. unfold along_block.
  set (M := chunks inner n blk). set (Y := chunks inner n' yb).
  assert (HM : rect n inner M) by (apply chunks_rect, Hb).
  assert (HY : rect n' inner Y) by (apply chunks_rect, Hy).
  assert (HMt : rect inner n (transp inner M)) by (apply transp_rect, HM).
  assert (HYt : rect inner n' (transp inner Y)) by (apply transp_rect, HY).
  assert (HP : rect inner n' (map F (transp inner M))) by (apply (map_rect F inner n n'); assumption).
  assert (HQ : rect inner n (map G (transp inner Y))) by (apply (map_rect G inner n' n); assumption).
  rewrite <- (concat_chunks inner n' yb Hy) at 1. fold Y.
  rewrite (dot_concat _ _ n' inner) by (try apply transp_rect; assumption).
  rewrite <- (transp_invol n' inner Y HY) at 1.
  rewrite (mdot_transp inner n') by assumption.
  rewrite (mdot_map_adj k F G inner n n') by assumption.
  rewrite <- (mdot_transp inner n) by assumption.
  rewrite (transp_invol n inner M HM).
  rewrite <- (dot_concat _ _ n inner) by (try apply transp_rect; assumption).
  unfold M. rewrite (concat_chunks inner n blk Hb). reflexivity.
Qed.
End Along.

Theorem along_adjoint (k : R) (outer n inner n' : nat) (F G : Rvec -> Rvec) (x y : Rvec) :
  (forall l, length l = n -> length (F l) = n') ->
  (forall m, length m = n' -> length (G m) = n) ->
  (forall l m, length l = n -> length m = n' -> dot (F l) m = k * dot l (G m)) ->
  length x = (outer * (n * inner))%nat -> length y = (outer * (n' * inner))%nat ->
  dot (along outer n inner n' F x) y = k * dot x (along outer n' inner n G y).
Proof.
  intros HF HG Hadj Hx Hy. unfold along.
  set (X := chunks (n * inner) outer x). set (Y := chunks (n' * inner) outer y).
  assert (HX : rect outer (n * inner) X) by (apply chunks_rect, Hx).
  assert (HY : rect outer (n' * inner) Y) by (apply chunks_rect, Hy).
  rewrite <- (concat_chunks (n' * inner) outer y Hy) at 1. fold Y.
  rewrite (dot_concat _ _ outer (n' * inner));
    [ | apply (map_rect _ outer (n * inner) (n' * inner));
        [intros l Hl; apply along_block_length; assumption | assumption] | assumption ].
  rewrite (mdot_map_adj k (along_block n inner n' F) (along_block n' inner n G) outer (n * inner) (n' * inner));
    [ | intros l m Hl Hm; apply along_block_adjoint; assumption | assumption | assumption ].
  rewrite <- (dot_concat _ _ outer (n * inner));
    [ | assumption | apply (map_rect _ outer (n' * inner) (n * inner));
        [intros l Hl; apply along_block_length; assumption | assumption] ].
  unfold X. rewrite (concat_chunks (n * inner) outer x Hx). reflexivity.
Qed.

Lemma along_length (outer n inner n' : nat) (F : Rvec -> Rvec) (x : Rvec) :
  (forall l, length l = n -> length (F l) = n') ->
  length x = (outer * (n * inner))%nat ->
  length (along outer n inner n' F x) = (outer * (n' * inner))%nat.
Proof.
  intros HF Hx. unfold along.
  apply (concat_rect_length outer (n' * inner)), (map_rect _ outer (n * inner) (n' * inner)).
  - intros l Hl; apply along_block_length; assumption.
  - apply chunks_rect, Hx.
Qed.

(* shape bookkeeping for [along_axis] *)
Lemma prodn_split (shape : list nat) (ax : nat) : (ax < length shape)%nat ->
  prodn shape = (prodn (firstn ax shape) * (nth ax shape 0 * prodn (skipn (S ax) shape)))%nat.
Proof.
  revert ax; induction shape as [|s shape IH]; intros ax Hax; cbn in Hax; [lia|].
  destruct ax as [|ax].
  - unfold prodn. cbn [firstn skipn nth fold_right]. lia.
  - specialize (IH ax ltac:(lia)).
    change (skipn (S (S ax)) (s :: shape)) with (skipn (S ax) shape).
    cbn [firstn nth]. unfold prodn in *. cbn [fold_right].
    rewrite IH. ring.
Qed.

Theorem along_axis_adjoint (k : R) (shape : list nat) (ax : nat) (F G : Rvec -> Rvec) (x y : Rvec) :
  (ax < length shape)%nat ->
  (forall l, length l = nth ax shape 0%nat -> length (F l) = nth ax shape 0%nat) ->
  (forall l, length l = nth ax shape 0%nat -> length (G l) = nth ax shape 0%nat) ->
  (forall l m, length l = nth ax shape 0%nat -> length m = nth ax shape 0%nat ->
     dot (F l) m = k * dot l (G m)) ->
  length x = prodn shape -> length y = prodn shape ->
  dot (along_axis shape ax F x) y = k * dot x (along_axis shape ax G y).
Proof.
  intros Hax HF HG Hadj Hx Hy. unfold along_axis.
  rewrite (prodn_split shape ax Hax) in Hx, Hy.
  apply along_adjoint; assumption.
Qed.

Lemma along_axis_length (shape : list nat) (ax : nat) (F : Rvec -> Rvec) (x : Rvec) :
  (ax < length shape)%nat ->
  (forall l, length l = nth ax shape 0%nat -> length (F l) = nth ax shape 0%nat) ->
  length x = prodn shape -> length (along_axis shape ax F x) = prodn shape.
Proof.
  intros Hax HF Hx. unfold along_axis. rewrite (prodn_split shape ax Hax) in Hx |- *.
  apply along_length; assumption.
Qed.

(* ================================================================== *)
(* Extensionality and additivity of "apply along an axis"              *)
(* ================================================================== *)
Fixpoint zipw {A} (f : A -> A -> A) (x y : list A) : list A :=
  match x, y with a :: x', b :: y' => f a b :: zipw f x' y' | _, _ => [] end.

Lemma map_ext_rect (F G : Rvec -> Rvec) r c (m : Rmat) :
  (forall l, length l = c -> F l = G l) -> rect r c m -> map F m = map G m.
Proof.
  intros HFG [_ Hf]. induction Hf as [|row m Hrow _ IH]; cbn [map]; [reflexivity|].
  rewrite HFG by assumption. rewrite IH. reflexivity.
Qed.

Lemma along_block_ext n inner n' (F G : Rvec -> Rvec) (blk : Rvec) :
  (forall l, length l = n -> F l = G l) -> length blk = (n * inner)%nat ->
  along_block n inner n' F blk = along_block n inner n' G blk.
Proof.
  intros HFG Hb. unfold along_block.
  rewrite (map_ext_rect F G inner n); [reflexivity | assumption | apply transp_rect, chunks_rect, Hb].
Qed.

Lemma along_ext outer n inner n' (F G : Rvec -> Rvec) (x : Rvec) :
  (forall l, length l = n -> F l = G l) -> length x = (outer * (n * inner))%nat ->
  along outer n inner n' F x = along outer n inner n' G x.
Proof.
  intros HFG Hx. unfold along.
  rewrite (map_ext_rect (along_block n inner n' F) (along_block n inner n' G) outer (n * inner));
    [reflexivity | intros l Hl; apply along_block_ext; assumption | apply chunks_rect, Hx].
Qed.

Lemma along_axis_ext (shape : list nat) (ax : nat) (F G : Rvec -> Rvec) (x : Rvec) :
  (ax < length shape)%nat -> (forall l, length l = nth ax shape 0%nat -> F l = G l) ->
  length x = prodn shape -> along_axis shape ax F x = along_axis shape ax G x.
Proof.
  intros Hax HFG Hx. unfold along_axis. rewrite (prodn_split shape ax Hax) in Hx.
  apply along_ext; assumption.
Qed.

Section Zipw.
Variable op : R -> R -> R.

Lemma vmap2_app (a a' b b' : Rvec) : length a = length b ->
  vmap2 op (a ++ a') (b ++ b') = vmap2 op a b ++ vmap2 op a' b'.
Proof.
  revert b; induction a as [|h a IH]; intros [|k b] Hl; cbn in Hl; try congruence; cbn [app vmap2].
  - reflexivity.
  - rewrite IH by congruence. reflexivity.
Qed.

Lemma concat_zipw (a b : Rmat) r c : rect r c a -> rect r c b ->
  concat (zipw (vmap2 op) a b) = vmap2 op (concat a) (concat b).
Proof.
  revert b r; induction a as [|row a IH]; intros [|s b] r Ha Hb.
  - reflexivity.
  - destruct Ha as [Ha _], Hb as [Hb _]; cbn in *; congruence.
  - destruct Ha as [Ha _], Hb as [Hb _]; cbn in *; congruence.
  - destruct r as [|r]; [destruct Ha as [Ha _]; cbn in Ha; congruence|].
    apply rect_inv in Ha as [Hl Ha]; apply rect_inv in Hb as [Hs Hb].
    cbn [zipw concat]. rewrite vmap2_app by congruence. rewrite (IH b r) by assumption. reflexivity.
Qed.

Lemma zipcons_zipw (a b : Rvec) (x y : Rmat) r : length a = length b ->
  rect (length a) r x -> rect (length a) r y ->
  Axis.zipcons (vmap2 op a b) (zipw (vmap2 op) x y) =
  zipw (vmap2 op) (Axis.zipcons a x) (Axis.zipcons b y).
Proof.
  revert b x y; induction a as [|h a IH]; intros [|k b] x y Hl Hx Hy; cbn in Hl; try congruence.
  - reflexivity.
  - destruct x as [|x0 x]; [destruct Hx as [Hx _]; cbn in Hx; congruence|].
    destruct y as [|y0 y]; [destruct Hy as [Hy _]; cbn in Hy; congruence|].
    cbn [length] in *. apply rect_inv in Hx as [Hx0 Hx]; apply rect_inv in Hy as [Hy0 Hy].
    cbn [vmap2 zipw Axis.zipcons]. rewrite IH by (assumption || congruence). reflexivity.
Qed.

Lemma zipw_repeat_nil c : zipw (vmap2 op) (repeat (@nil R) c) (repeat (@nil R) c) = repeat [] c.
Proof. induction c as [|c IH]; cbn [repeat zipw vmap2]; [reflexivity | rewrite IH; reflexivity]. Qed.

Lemma transp_zipw (a b : Rmat) r c : rect r c a -> rect r c b ->
  transp c (zipw (vmap2 op) a b) = zipw (vmap2 op) (transp c a) (transp c b).
Proof.
  revert b r; induction a as [|row a IH]; intros [|s b] r Ha Hb.
  - cbn [zipw transp]. rewrite zipw_repeat_nil. reflexivity.
  - destruct Ha as [Ha _], Hb as [Hb _]; cbn in *; congruence.
  - destruct Ha as [Ha _], Hb as [Hb _]; cbn in *; congruence.
  - destruct r as [|r]; [destruct Ha as [Ha _]; cbn in Ha; congruence|].
    apply rect_inv in Ha as [Hl Ha]; apply rect_inv in Hb as [Hs Hb].
    cbn [zipw transp]. rewrite (IH b r) by assumption. subst c.
    apply (zipcons_zipw row s _ _ r); [congruence | apply transp_rect; assumption | apply transp_rect; assumption].
Qed.

Lemma map_zipw (F1 F2 : Rvec -> Rvec) (m : Rmat) :
  map (fun l => vmap2 op (F1 l) (F2 l)) m = zipw (vmap2 op) (map F1 m) (map F2 m).
Proof. induction m as [|row m IH]; cbn [map zipw]; [reflexivity | rewrite IH; reflexivity]. Qed.

Lemma along_block_vmap2 n inner n' (F1 F2 : Rvec -> Rvec) (blk : Rvec) :
  (forall l, length l = n -> length (F1 l) = n') -> (forall l, length l = n -> length (F2 l) = n') ->
  length blk = (n * inner)%nat ->
  along_block n inner n' (fun l => vmap2 op (F1 l) (F2 l)) blk =
  vmap2 op (along_block n inner n' F1 blk) (along_block n inner n' F2 blk).
Proof.
  intros H1 H2 Hb. unfold along_block.
  assert (HMt : rect inner n (transp inner (chunks inner n blk))) by (apply transp_rect, chunks_rect, Hb).
  rewrite map_zipw.
  rewrite (transp_zipw _ _ inner n') by (apply (map_rect _ inner n n'); assumption).
  apply (concat_zipw _ _ n' inner); apply transp_rect, (map_rect _ inner n n'); assumption.
Qed.

Lemma along_vmap2 outer n inner n' (F1 F2 : Rvec -> Rvec) (x : Rvec) :
  (forall l, length l = n -> length (F1 l) = n') -> (forall l, length l = n -> length (F2 l) = n') ->
  length x = (outer * (n * inner))%nat ->
  along outer n inner n' (fun l => vmap2 op (F1 l) (F2 l)) x =
  vmap2 op (along outer n inner n' F1 x) (along outer n inner n' F2 x).
Proof.
  intros H1 H2 Hx. unfold along.
  assert (HX : rect outer (n * inner) (chunks (n * inner) outer x)) by (apply chunks_rect, Hx).
  rewrite (map_ext_rect _ (fun b => vmap2 op (along_block n inner n' F1 b) (along_block n inner n' F2 b))
             outer (n * inner)); [ | intros l Hl; apply along_block_vmap2; assumption | assumption ].
  rewrite map_zipw.
  apply (concat_zipw _ _ outer (n' * inner)); apply (map_rect _ outer (n * inner) (n' * inner)); try assumption;
    intros l Hl; apply along_block_length; assumption.
Qed.

Lemma along_axis_vmap2 (shape : list nat) (ax : nat) (F1 F2 : Rvec -> Rvec) (x : Rvec) :
  (ax < length shape)%nat ->
  (forall l, length l = nth ax shape 0%nat -> length (F1 l) = nth ax shape 0%nat) ->
  (forall l, length l = nth ax shape 0%nat -> length (F2 l) = nth ax shape 0%nat) ->
  length x = prodn shape ->
  along_axis shape ax (fun l => vmap2 op (F1 l) (F2 l)) x =
  vmap2 op (along_axis shape ax F1 x) (along_axis shape ax F2 x).
Proof.
  intros Hax H1 H2 Hx. unfold along_axis. rewrite (prodn_split shape ax Hax) in Hx.
  apply along_vmap2; assumption.
Qed.
End Zipw.
