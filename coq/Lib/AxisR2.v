(* Lib/AxisR2.v -- "apply along an axis" over TWO arrays combined entry-wise:
   if F (l (+) k) = F1 l (+) F2 k on lines, then
   along_axis F (x (+) h) = along_axis F1 x (+) along_axis F2 h.
   Used for affine / additive statements about N-d operators (C13). *)
From Coq Require Import Reals List Arith Lia.
From Verif Require Import Base.Num Base.Vec Base.VecR Lib.Axis Lib.AxisR.
Import ListNotations.

Section Zip2.
Variable op : R -> R -> R.

Lemma firstn_vmap2 (k : nat) : forall (x h : Rvec),
  firstn k (vmap2 op x h) = vmap2 op (firstn k x) (firstn k h).
Proof.
  induction k as [|k IH]; intros [|a x] [|b h]; cbn [firstn vmap2]; try reflexivity.
  rewrite IH. reflexivity.
Qed.

Lemma skipn_vmap2 (k : nat) : forall (x h : Rvec),
  skipn k (vmap2 op x h) = vmap2 op (skipn k x) (skipn k h).
Proof.
  induction k as [|k IH]; intros x h; [reflexivity|].
  destruct x as [|a x]; [reflexivity|].
  destruct h as [|b h].
  - simpl. destruct (skipn k x); reflexivity.
  - simpl. apply IH.
Qed.

Lemma chunks_vmap2 (k n : nat) : forall (x h : Rvec),
  chunks k n (vmap2 op x h) = zipw (vmap2 op) (chunks k n x) (chunks k n h).
Proof.
  induction n as [|n IH]; intros x h; cbn [chunks zipw]; [reflexivity|].
  rewrite firstn_vmap2, skipn_vmap2, IH. reflexivity.
Qed.

Lemma zipw_rect (a b : Rmat) r c : rect r c a -> rect r c b -> rect r c (zipw (vmap2 op) a b).
Proof.
  revert b r; induction a as [|row a IH]; intros [|s b] r Ha Hb.
  - destruct Ha as [Ha _]; cbn in Ha; subst r. apply rect_nil.
  - destruct Ha as [Ha _], Hb as [Hb _]; cbn in *; congruence.
  - destruct Ha as [Ha _], Hb as [Hb _]; cbn in *; congruence.
  - destruct r as [|r]; [destruct Ha as [Ha _]; cbn in Ha; congruence|].
    apply rect_inv in Ha as [Hl Ha]; apply rect_inv in Hb as [Hs Hb].
    cbn [zipw]. apply rect_cons; [rewrite vmap2_length; congruence | apply IH; assumption].
Qed.

Lemma map_zipw2 (F F1 F2 : Rvec -> Rvec) (a b : Rmat) r c :
  (forall l k, length l = c -> length k = c -> F (vmap2 op l k) = vmap2 op (F1 l) (F2 k)) ->
  rect r c a -> rect r c b ->
  map F (zipw (vmap2 op) a b) = zipw (vmap2 op) (map F1 a) (map F2 b).
Proof.
  intros HF. revert b r; induction a as [|row a IH]; intros [|s b] r Ha Hb; cbn [zipw map]; try reflexivity.
  destruct r as [|r]; [destruct Ha as [Ha _]; cbn in Ha; congruence|].
  apply rect_inv in Ha as [Hl Ha]; apply rect_inv in Hb as [Hs Hb].
  rewrite HF by assumption. rewrite (IH b r) by assumption. reflexivity.
Qed.

Lemma along_block_zip2 n inner n' (F F1 F2 : Rvec -> Rvec) (x h : Rvec) :
  (forall l k, length l = n -> length k = n -> F (vmap2 op l k) = vmap2 op (F1 l) (F2 k)) ->
  (forall l, length l = n -> length (F1 l) = n') -> (forall l, length l = n -> length (F2 l) = n') ->
  length x = (n * inner)%nat -> length h = (n * inner)%nat ->
  along_block n inner n' F (vmap2 op x h) =
  vmap2 op (along_block n inner n' F1 x) (along_block n inner n' F2 h).
Proof.
  intros HF H1 H2 Hx Hh. unfold along_block.
  assert (HX : rect n inner (chunks inner n x)) by (apply chunks_rect, Hx).
  assert (HH : rect n inner (chunks inner n h)) by (apply chunks_rect, Hh).
  rewrite chunks_vmap2.
  rewrite (transp_zipw op _ _ n inner) by assumption.
  rewrite (map_zipw2 F F1 F2 _ _ inner n) by (try assumption; apply transp_rect; assumption).
  rewrite (transp_zipw op _ _ inner n')
    by (apply (map_rect _ inner n n'); try assumption; apply transp_rect; assumption).
  apply (concat_zipw op _ _ n' inner); apply transp_rect, (map_rect _ inner n n'); try assumption;
    apply transp_rect; assumption.
Qed.

Lemma along_zip2 outer n inner n' (F F1 F2 : Rvec -> Rvec) (x h : Rvec) :
  (forall l k, length l = n -> length k = n -> F (vmap2 op l k) = vmap2 op (F1 l) (F2 k)) ->
  (forall l, length l = n -> length (F1 l) = n') -> (forall l, length l = n -> length (F2 l) = n') ->
  length x = (outer * (n * inner))%nat -> length h = (outer * (n * inner))%nat ->
  along outer n inner n' F (vmap2 op x h) =
  vmap2 op (along outer n inner n' F1 x) (along outer n inner n' F2 h).
Proof.
  intros HF H1 H2 Hx Hh. unfold along.
  assert (HX : rect outer (n * inner) (chunks (n * inner) outer x)) by (apply chunks_rect, Hx).
  assert (HH : rect outer (n * inner) (chunks (n * inner) outer h)) by (apply chunks_rect, Hh).
  rewrite chunks_vmap2.
  rewrite (map_zipw2 (along_block n inner n' F) (along_block n inner n' F1) (along_block n inner n' F2)
             _ _ outer (n * inner)); try assumption.
  - apply (concat_zipw op _ _ outer (n' * inner)); apply (map_rect _ outer (n * inner) (n' * inner));
      try assumption; intros l Hl; apply along_block_length; assumption.
  - intros l k Hl Hk. apply along_block_zip2; assumption.
Qed.

Theorem along_axis_zip2 (shape : list nat) (ax : nat) (F F1 F2 : Rvec -> Rvec) (x h : Rvec) :
  (ax < length shape)%nat ->
  (forall l k, length l = nth ax shape 0%nat -> length k = nth ax shape 0%nat ->
               F (vmap2 op l k) = vmap2 op (F1 l) (F2 k)) ->
  (forall l, length l = nth ax shape 0%nat -> length (F1 l) = nth ax shape 0%nat) ->
  (forall l, length l = nth ax shape 0%nat -> length (F2 l) = nth ax shape 0%nat) ->
  length x = prodn shape -> length h = prodn shape ->
  along_axis shape ax F (vmap2 op x h) =
  vmap2 op (along_axis shape ax F1 x) (along_axis shape ax F2 h).
Proof.
  intros Hax HF H1 H2 Hx Hh. unfold along_axis.
  rewrite (prodn_split shape ax Hax) in Hx, Hh.
  apply along_zip2; assumption.
Qed.
End Zip2.
