(* Lib/Axis.v -- N-d arrays as flat C-order lists: apply a 1-d map along an axis.
   Definitions only (generic in the element type); proofs at R in Lib/AxisR.v. *)
From Coq Require Import List Arith.
Import ListNotations.

Section Axis.
Context {A : Type}.

(* n consecutive chunks of size k *)
Fixpoint chunks (k n : nat) (l : list A) : list (list A) :=
  match n with
  | O => []
  | S n' => firstn k l :: chunks k n' (skipn k l)
  end.

Fixpoint zipcons (r : list A) (cols : list (list A)) : list (list A) :=
  match r, cols with
  | a :: r', c :: cols' => (a :: c) :: zipcons r' cols'
  | _, _ => []
  end.
(* transpose of a list of rows with [ncols] columns *)
Fixpoint transp (ncols : nat) (m : list (list A)) : list (list A) :=
  match m with
  | [] => repeat [] ncols
  | r :: m' => zipcons r (transp ncols m')
  end.

(* One block of n rows x inner columns (flat), map F along the rows index:
   each of the [inner] lines (length n) is replaced by F line (length n'). *)
Definition along_block (n inner n' : nat) (F : list A -> list A) (blk : list A) : list A :=
  concat (transp n' (map F (transp inner (chunks inner n blk)))).

(* Array of shape outer x n x inner (flat C order); F acts along the middle axis
   and returns lines of length n'. *)
Definition along (outer n inner n' : nat) (F : list A -> list A) (x : list A) : list A :=
  concat (map (along_block n inner n' F) (chunks (n * inner) outer x)).

Definition prodn (l : list nat) : nat := fold_right Nat.mul 1 l.
(* apply along axis [ax] of an array with the given shape (length preserved: n' = n) *)
Definition along_axis (shape : list nat) (ax : nat) (F : list A -> list A) (x : list A) : list A :=
  let n := nth ax shape 0 in
  along (prodn (firstn ax shape)) n (prodn (skipn (S ax) shape)) n F x.
End Axis.
