(* C02/OneNorm.v -- the headline statement in terms of uniform_discr inputs:
   for every list of (n >= 1, a < b, nodes_on_bdry left/right) the constant function one has
   norm sqrt(volume). *)
From Coq Require Import ZArith Reals Lra Lia List Bool Psatz.
From Verif Require Import Base.Num Base.Vec Base.VecR C02.Model C02.Roots C02.IPS C02.TensorR C02.DiscrR
  C02.TreeR C02.Mink C02.LeafR.
Import ListNotations.
Local Open Scope R_scope.

Lemma mk_axis_one_ok (a b : R) bl br : a < b ->
  ax_ok (mk_axis 1 a b bl br) /\ ax_exact (mk_axis 1 a b bl br).
Proof.
  intros Hab. destruct (mk_axis_fields 1 a b bl br) as (En & Ea & Eb).
  assert (Eg : ax_g1 (mk_axis 1 a b bl br) = ax_g0 (mk_axis 1 a b bl br) /\
               ax_g0 (mk_axis 1 a b bl br) = fst (grid_ends 1 a b bl br)).
  { unfold mk_axis. destruct (grid_ends 1 a b bl br). cbn. auto. }
  destruct Eg as [Eg1 Eg0]. rewrite grid_ends_R in Eg0. cbn [INR] in Eg0.
  split.
  - unfold ax_ok. rewrite En, Ea, Eb, Eg1, Eg0.
    repeat split; try lia; try lra; destruct bl, br; cbn [fst]; try lra;
      try (replace (2 * 1 - 1) with 1 by ring; unfold Rdiv; rewrite Rinv_1; lra);
      try (unfold Rdiv; assert (0 < (b - a) * / (2 * 1)) by (apply Rmult_lt_0_compat; [lra | apply Rinv_0_lt_compat; lra]);
           assert ((b - a) * / (2 * 1) = (b - a) / 2) by (field); lra).
  - unfold ax_exact. rewrite ax_fracs_1 by assumption. cbn [fst snd]. split; intros _; reflexivity.
Qed.

Record axspec := { s_n : nat; s_a : R; s_b : R; s_bl : bool; s_br : bool }.
Definition spec_ok (s : axspec) : Prop := (1 <= s_n s)%nat /\ s_a s < s_b s.
Definition axis_of (s : axspec) : @axis R := mk_axis (s_n s) (s_a s) (s_b s) (s_bl s) (s_br s).

Lemma axis_of_ok (s : axspec) : spec_ok s -> ax_ok (axis_of s) /\ ax_exact (axis_of s).
Proof.
  intros [Hn Hab]. unfold axis_of. destruct (Nat.eq_dec (s_n s) 1) as [E|E].
  - rewrite E. apply mk_axis_one_ok; assumption.
  - split; [apply mk_axis_fracs | apply mk_axis_exact]; try assumption; lia.
Qed.

Lemma npoints_pos (axes : list (@axis R)) : Forall ax_ok axes -> (1 <= npoints axes)%nat.
Proof.
  induction 1 as [|ax axes Hax _ IH]; [cbn; lia|]. cbn [npoints fold_right]. fold (npoints axes).
  destruct Hax as (Hn & _). nia.
Qed.

Lemma extent_volume_specs (specs : list axspec) :
  extent_volume (map axis_of specs) = fold_right (fun s acc => (s_b s - s_a s) * acc) 1 specs.
Proof.
  induction specs as [|s specs IH]; [reflexivity|]. cbn [map fold_right]. rewrite extent_volume_cons, IH.
  unfold axis_of. destruct (mk_axis_fields (s_n s) (s_a s) (s_b s) (s_bl s) (s_br s)) as (_ & -> & ->). reflexivity.
Qed.

(* uniform_discr(min_pt, max_pt, shape, nodes_on_bdry=...) with the default weighting, exponent 2 *)
Theorem uniform_discr_one_norm q (specs : list axspec) :
  specs <> [] -> Forall spec_ok specs ->
  let axes := map axis_of specs in
  let one := repeat 1 (npoints axes) in
  (q_unweighted_skips q = false \/ cell_volume axes <> 1) ->
  leaf_inner q (LDiscr axes LDefault (PFin 2)) one one
    = Ok (fold_right (fun s acc => (s_b s - s_a s) * acc) 1 specs) /\
  leaf_norm q (LDiscr axes LDefault (PFin 2)) one
    = Ok (sqrt (fold_right (fun s acc => (s_b s - s_a s) * acc) 1 specs)).
Proof.
  intros Hne Hspecs axes one Hq.
  assert (Hok : Forall ax_ok axes /\ Forall ax_exact axes).
  { unfold axes. clear -Hspecs. induction Hspecs as [|s specs Hs _ IH]; [split; constructor|].
    destruct IH as [I1 I2]. destruct (axis_of_ok s Hs) as [O E]. cbn [map]. split; constructor; assumption. }
  destruct Hok as [Hok Hex].
  assert (Hane : axes <> []) by (unfold axes; destruct specs; [congruence | cbn; congruence]).
  pose proof (discr_one_inner q axes Hok Hex Hane Hq) as Ein. fold one in Ein.
  rewrite <- extent_volume_specs. fold axes. split; [exact Ein|].
  assert (Hlen : length one = npoints axes) by (unfold one; apply repeat_length).
  assert (Hokp : leaf_okp (LDiscr axes LDefault (PFin 2)) (length one)).
  { cbn [leaf_okp pvalid]. repeat split; try lia; try assumption.
    destruct axes as [|ax0 axes0] eqn:Ea; [congruence|]. cbn [d_weight tw_ok]. rewrite <- Ea in *.
    apply cell_volume_pos; assumption. }
  assert (Hone : one <> []).
  { pose proof (npoints_pos axes Hok). unfold one. destruct (npoints axes); [lia | cbn; congruence]. }
  rewrite (leaf_norm_value q _ one Hokp). f_equal.
  destruct (leaf_norm2_inner q _ one Hokp eq_refl) as [E1 E2].
  rewrite E2. f_equal. pose proof Ein as Ein'. rewrite E1 in Ein'. injection Ein' as Ein'. exact Ein'.
Qed.
