(* C02/IPS.v -- abstract real (semi-)inner-product space: Cauchy-Schwarz, and the
   induced norm sqrt(<x,x>) is absolutely homogeneous and satisfies the triangle
   inequality.  Everything is a Section: the hypotheses become explicit premises
   and are discharged for weighted R^n (TensorR.v) and for nested product spaces
   (TreeR.v). *)
From Coq Require Import Reals Lra Psatz.
Local Open Scope R_scope.

(* discriminant argument *)
Lemma quad_nonneg_discr (A B C : R) :
  (forall t : R, 0 <= A * t * t + 2 * B * t + C) -> B * B <= A * C.
Proof.
  intros Hq.
  assert (HC : 0 <= C) by (specialize (Hq 0); lra).
  destruct (Rtotal_order A 0) as [HA|[HA|HA]].
  - (* A < 0 : impossible for large t *)
    exfalso.
    pose (t := C / (- A) + 1).
    assert (Hd : 0 <= C / - A).
    { apply Rmult_le_pos; [assumption | left; apply Rinv_0_lt_compat; lra]. }
    assert (Ht1 : 1 <= t) by (unfold t; lra).
    assert (HAt : A * t = A - C) by (unfold t; field; lra).
    pose proof (Hq t) as H1. pose proof (Hq (- t)) as H2.
    assert (Hsum : 0 <= A * t * t + C) by nra.
    assert (A * t * t <= A * t) by nra.
    lra.
  - subst A. destruct (Req_dec B 0) as [HB|HB]; [subst; lra|].
    exfalso. specialize (Hq (- (C + 1) / (2 * B))).
    replace (0 * (- (C + 1) / (2 * B)) * (- (C + 1) / (2 * B)) + 2 * B * (- (C + 1) / (2 * B)) + C)
      with (-1) in Hq by (field; assumption). lra.
  - specialize (Hq (- B / A)).
    replace (A * (- B / A) * (- B / A) + 2 * B * (- B / A) + C) with (C - B * B / A) in Hq by (field; lra).
    assert (B * B / A <= C) by lra.
    apply (Rmult_le_compat_l A) in H; [|lra].
    replace (A * (B * B / A)) with (B * B) in H by (field; lra). lra.
Qed.

Section IPS.
Variable V : Type.
Variable ok : V -> Prop.                 (* well-formed elements of the space *)
Variable add : V -> V -> V.
Variable scal : R -> V -> V.
Variable ip : V -> V -> R.
Hypothesis ok_add : forall x y, ok x -> ok y -> ok (add x y).
Hypothesis ok_scal : forall a x, ok x -> ok (scal a x).
Hypothesis ip_sym : forall x y, ok x -> ok y -> ip x y = ip y x.
Hypothesis ip_add_l : forall x y z, ok x -> ok y -> ok z -> ip (add x y) z = ip x z + ip y z.
Hypothesis ip_scal_l : forall a x y, ok x -> ok y -> ip (scal a x) y = a * ip x y.
Hypothesis ip_nonneg : forall x, ok x -> 0 <= ip x x.

Lemma ip_add_r x y z : ok x -> ok y -> ok z -> ip x (add y z) = ip x y + ip x z.
Proof. intros. rewrite ip_sym, ip_add_l, (ip_sym y x), (ip_sym z x); auto. Qed.
Lemma ip_scal_r a x y : ok x -> ok y -> ip x (scal a y) = a * ip x y.
Proof. intros. rewrite ip_sym, ip_scal_l, (ip_sym y x); auto. Qed.

Lemma ip_expand t x y : ok x -> ok y ->
  ip (add (scal t x) y) (add (scal t x) y) = ip x x * t * t + 2 * ip x y * t + ip y y.
Proof.
  intros Hx Hy.
  rewrite ip_add_l, !ip_add_r, !ip_scal_l, !ip_scal_r, (ip_sym y x); auto. ring.
Qed.

Theorem ips_cauchy_schwarz x y : ok x -> ok y -> ip x y * ip x y <= ip x x * ip y y.
Proof.
  intros Hx Hy. apply quad_nonneg_discr. intros t.
  rewrite <- ip_expand by assumption. apply ip_nonneg; auto.
Qed.

Definition inorm (x : V) : R := sqrt (ip x x).

Lemma inorm_nonneg x : 0 <= inorm x.
Proof. apply sqrt_pos. Qed.

Theorem ips_norm_homog a x : ok x -> inorm (scal a x) = Rabs a * inorm x.
Proof.
  intros Hx. unfold inorm. rewrite ip_scal_l, ip_scal_r by auto.
  replace (a * (a * ip x x)) with (Rsqr a * ip x x) by (unfold Rsqr; ring).
  rewrite sqrt_mult by (try apply Rle_0_sqr; auto). rewrite sqrt_Rsqr_abs. reflexivity.
Qed.

Lemma ip_le_norms x y : ok x -> ok y -> ip x y <= inorm x * inorm y.
Proof.
  intros Hx Hy. unfold inorm. rewrite <- sqrt_mult by auto.
  pose proof (ips_cauchy_schwarz x y Hx Hy) as Hcs.
  destruct (Rle_lt_dec (ip x y) 0) as [Hn|Hp].
  - pose proof (sqrt_pos (ip x x * ip y y)). lra.
  - rewrite <- (sqrt_square (ip x y)) by lra. apply sqrt_le_1_alt. assumption.
Qed.

Theorem ips_norm_triangle x y : ok x -> ok y -> inorm (add x y) <= inorm x + inorm y.
Proof.
  intros Hx Hy.
  assert (Hs : inorm (add x y) * inorm (add x y) <= (inorm x + inorm y) * (inorm x + inorm y)).
  { unfold inorm at 1 2. rewrite sqrt_sqrt by auto.
    rewrite ip_add_l, !ip_add_r, (ip_sym y x) by auto.
    pose proof (ip_le_norms x y Hx Hy) as Hb.
    assert (inorm x * inorm x = ip x x) by (unfold inorm; apply sqrt_sqrt; auto).
    assert (inorm y * inorm y = ip y y) by (unfold inorm; apply sqrt_sqrt; auto).
    nra. }
  pose proof (inorm_nonneg (add x y)). pose proof (inorm_nonneg x). pose proof (inorm_nonneg y).
  nra.
Qed.
End IPS.
