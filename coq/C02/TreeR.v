(* C02/TreeR.v -- nested product spaces at R.
   Main result: on every space tree whose nodes all have exponent 2 (the only case in which
   the code defines an inner product) the product-space inner product is the weighted dot
   product of the flattened data, the weight of an entry being its leaf weight times the
   product of the component weights along the path.  The inner-product axioms and
   Cauchy-Schwarz for arbitrary nesting follow from the abstract IPS section. *)
From Coq Require Import ZArith Reals Lra Lia List Bool Psatz.
From Verif Require Import Base.Num Base.Vec Base.VecR C02.Model C02.Roots C02.IPS C02.TensorR C02.DiscrR.
Import ListNotations.
Local Open Scope R_scope.

(* ------------------------------------------------------------------ *)
(* induction principles for the nested types *)
Lemma space_ind' (P : @space R -> Prop) :
  (forall lf, P (SLeaf lf)) ->
  (forall w p cs, Forall P cs -> P (SProd w p cs)) -> forall s, P s.
Proof.
  intros Hl Hp. fix IH 1. intros [lf|w p cs]; [apply Hl|]. apply Hp.
  induction cs as [|c cs IHcs]; constructor; [apply IH | exact IHcs].
Qed.
Lemma elem_ind' (P : @elem R -> Prop) :
  (forall a, P (ELeaf a)) ->
  (forall xs, Forall P xs -> P (ENode xs)) -> forall x, P x.
Proof.
  intros Hl Hn. fix IH 1. intros [a|xs]; [apply Hl|]. apply Hn.
  induction xs as [|x xs IHxs]; constructor; [apply IH | exact IHxs].
Qed.

(* pointwise relation on two lists, as a fixpoint (usable inside structural recursion) *)
Definition all2 {A B : Type} (P : A -> B -> Prop) :=
  fix go (l : list A) (m : list B) : Prop :=
    match l, m with
    | [], [] => True
    | a :: l', b :: m' => P a b /\ go l' m'
    | _, _ => False
    end.
Lemma all2_length {A B} (P : A -> B -> Prop) l m : all2 P l m -> length l = length m.
Proof. revert m; induction l as [|a l IH]; intros [|b m] H; cbn in *; try tauto. f_equal. apply IH. tauto. Qed.

(* ------------------------------------------------------------------ *)
(* shapes *)
Fixpoint same_shape (x y : @elem R) {struct x} : Prop :=
  match x, y with
  | ELeaf a, ELeaf b => length a = length b
  | ENode xs, ENode ys => all2 same_shape xs ys
  | _, _ => False
  end.

Lemma same_shape_refl x : same_shape x x.
Proof.
  induction x as [a|xs IH] using elem_ind'; [reflexivity|]. cbn [same_shape].
  induction IH as [|x xs Hx _ IHxs]; cbn; auto.
Qed.
Lemma same_shape_sym x : forall y, same_shape x y -> same_shape y x.
Proof.
  induction x as [a|xs IH] using elem_ind'; intros [b|ys] H; cbn [same_shape] in *; try tauto; [lia|].
  revert ys H. induction IH as [|x xs Hx _ IHxs]; intros [|y ys] H; cbn in *; try tauto.
  destruct H as [H1 H2]. split; [apply Hx, H1 | apply IHxs, H2].
Qed.
Lemma same_shape_trans x : forall y z, same_shape x y -> same_shape y z -> same_shape x z.
Proof.
  induction x as [a|xs IH] using elem_ind'; intros [b|ys] [c|zs] H1 H2; cbn [same_shape] in *; try tauto; [lia|].
  revert ys zs H1 H2. induction IH as [|x xs Hx _ IHxs]; intros [|y ys] [|z zs] H1 H2; cbn in *; try tauto.
  destruct H1 as [H1 H1'], H2 as [H2 H2']. split; [eapply Hx; eassumption | eapply IHxs; eassumption].
Qed.

Fixpoint flat (x : @elem R) : Rvec :=
  match x with ELeaf a => a | ENode xs => concat (map flat xs) end.

Lemma vadd_app (a a' b b' : Rvec) : length a = length b ->
  vadd (a ++ a') (b ++ b') = vadd a b ++ vadd a' b'.
Proof.
  revert b; induction a as [|u a IH]; intros [|v b] Hl; cbn in Hl; try lia; [reflexivity|].
  unfold vadd in *. cbn [app vmap2]. rewrite IH by lia. reflexivity.
Qed.
Lemma vsub_app (a a' b b' : Rvec) : length a = length b ->
  vsub (a ++ a') (b ++ b') = vsub a b ++ vsub a' b'.
Proof.
  revert b; induction a as [|u a IH]; intros [|v b] Hl; cbn in Hl; try lia; [reflexivity|].
  unfold vsub in *. cbn [app vmap2]. rewrite IH by lia. reflexivity.
Qed.
Lemma vscal_app k (a a' : Rvec) : vscal k (a ++ a') = vscal k a ++ vscal k a'.
Proof. unfold vscal. apply map_app. Qed.

Lemma same_shape_flat_length x : forall y, same_shape x y -> length (flat x) = length (flat y).
Proof.
  induction x as [a|xs IH] using elem_ind'; intros [b|ys] H; cbn [same_shape flat] in *; try tauto.
  revert ys H. induction IH as [|x xs Hx _ IHxs]; intros [|y ys] H; cbn in *; try tauto.
  destruct H as [H1 H2]. rewrite !app_length. f_equal; [apply Hx, H1 | apply IHxs, H2].
Qed.

Lemma flat_eadd x : forall y, same_shape x y ->
  flat (eadd x y) = vadd (flat x) (flat y) /\ same_shape x (eadd x y).
Proof.
  induction x as [a|xs IH] using elem_ind'; intros [b|ys] H; cbn [same_shape] in H; try tauto.
  - cbn [eadd flat same_shape]. split; [reflexivity|]. rewrite vadd_length; auto.
  - cbn [eadd flat same_shape].
    revert ys H. induction IH as [|x xs Hx _ IHxs]; intros [|y ys] H; cbn in H; try tauto.
    destruct H as [H1 H2]. destruct (Hx y H1) as [E1 S1]. destruct (IHxs ys H2) as [E2 S2].
    cbn [zip_with map concat all2]. fold (@zip_with (@elem R) eadd). rewrite E1, E2.
    split; [|split; assumption].
    rewrite vadd_app by (apply same_shape_flat_length; assumption). reflexivity.
Qed.
Lemma flat_esub x : forall y, same_shape x y ->
  flat (esub x y) = vsub (flat x) (flat y) /\ same_shape x (esub x y).
Proof.
  induction x as [a|xs IH] using elem_ind'; intros [b|ys] H; cbn [same_shape] in H; try tauto.
  - cbn [esub flat same_shape]. split; [reflexivity|]. rewrite vsub_length; auto.
  - cbn [esub flat same_shape].
    revert ys H. induction IH as [|x xs Hx _ IHxs]; intros [|y ys] H; cbn in H; try tauto.
    destruct H as [H1 H2]. destruct (Hx y H1) as [E1 S1]. destruct (IHxs ys H2) as [E2 S2].
    cbn [zip_with map concat all2]. fold (@zip_with (@elem R) esub). rewrite E1, E2.
    split; [|split; assumption].
    rewrite vsub_app by (apply same_shape_flat_length; assumption). reflexivity.
Qed.
Lemma flat_escal k x : flat (escal k x) = vscal k (flat x) /\ same_shape x (escal k x).
Proof.
  induction x as [a|xs IH] using elem_ind'.
  - cbn [escal flat same_shape]. split; [reflexivity|]. rewrite vscal_length. reflexivity.
  - cbn [escal flat same_shape]. induction IH as [|x xs [E1 S1] _ [E2 S2]].
    + cbn. split; [reflexivity | exact I].
    + cbn [map concat all2]. rewrite E1, E2, vscal_app. split; [reflexivity | split; assumption].
Qed.

(* ------------------------------------------------------------------ *)
(* exponent-2 leaves as weighted dot products *)
Definition leaf_w (q : quirks) (lf : @leaf R) (n : nat) : Rvec :=
  match lf with
  | LTensor w _ => tw_vec n (t_weight w)
  | LDiscr axes w p =>
      let tw := d_weight axes w p in
      if unif_weighted q axes tw p then tw_vec n tw
      else vmul (tw_vec n tw) (bdry_w (fun f => f) axes)
  end.
Definition leaf_ok2 (lf : @leaf R) (n : nat) : Prop :=
  match lf with
  | LTensor w p => p = PFin 2 /\ tw_ok n (t_weight w)
  | LDiscr axes w p => p = PFin 2 /\ tw_ok n (d_weight axes w p) /\ Forall ax_ok axes /\ n = npoints axes
  end.

Lemma wdot_vmul_shift (u a W b : Rvec) : wdot u (vmul a W) b = wdot (vmul u W) a b.
Proof.
  revert a W b; induction u as [|c u IH]; intros [|x a] [|f W] [|y b]; try reflexivity.
  change (wdot (c :: u) (vmul (x :: a) (f :: W)) (y :: b)) with (c * ((x * f) * y) + wdot u (vmul a W) b).
  change (wdot (vmul (c :: u) (f :: W)) (x :: a) (y :: b)) with ((c * f) * (x * y) + wdot (vmul u W) a b).
  rewrite IH. ring.
Qed.
Lemma vmul_pos (u v : Rvec) : Forall (fun c => 0 < c) u -> Forall (fun c => 0 < c) v -> Forall (fun c => 0 < c) (vmul u v).
Proof.
  intros Hu; revert v; induction Hu as [|a u Ha Hu IH]; intros v Hv; [constructor|].
  destruct Hv as [|b v Hb Hv]; [constructor|]. unfold vmul in *. cbn [vmap2]. constructor; [numR; nra | apply IH, Hv].
Qed.

Lemma leaf_w_ok q lf n : leaf_ok2 lf n -> Forall (fun c => 0 < c) (leaf_w q lf n) /\ length (leaf_w q lf n) = n.
Proof.
  destruct lf as [w p | axes w p]; cbn [leaf_ok2 leaf_w].
  - intros [_ Hw]. split; [apply tw_vec_pos | apply tw_vec_length]; assumption.
  - intros (_ & Hw & Hax & Hn). destruct (unif_weighted q axes (d_weight axes w p) p).
    + split; [apply tw_vec_pos | apply tw_vec_length]; assumption.
    + split.
      * apply vmul_pos; [apply tw_vec_pos; assumption | apply bdry_w_pos; assumption].
      * rewrite vmul_length; [apply tw_vec_length; assumption|].
        rewrite tw_vec_length, bdry_w_length by assumption. assumption.
Qed.

Lemma leaf_inner_wdot q lf (a b : Rvec) : leaf_ok2 lf (length a) -> length b = length a ->
  leaf_inner q lf a b = Ok (wdot (leaf_w q lf (length a)) a b).
Proof.
  destruct lf as [w p | axes w p]; cbn [leaf_ok2 leaf_w leaf_inner].
  - intros [-> Hw] Hl. unfold t_inner. cbn [is2]. rewrite t_inner_wdot by congruence. reflexivity.
  - intros (-> & Hw & Hax & Hn) Hl. destruct (unif_weighted q axes (d_weight axes w (PFin 2)) (PFin 2)).
    + unfold t_inner. cbn [is2]. rewrite t_inner_wdot by congruence. reflexivity.
    + unfold t_inner. cbn [is2]. unfold scale_bdry.
      assert (Hlw : length (vmul a (bdry_w (fun f : R => f) axes)) = length a).
      { apply vmul_length. rewrite bdry_w_length. assumption. }
      rewrite t_inner_wdot by congruence. rewrite Hlw, wdot_vmul_shift. reflexivity.
Qed.

(* ------------------------------------------------------------------ *)
(* exponent-2 trees *)
Definition pw_vec (k : nat) (w : @pweight R) : Rvec :=
  match w with PWConst c => repeat c k | PWArr a => a end.
Definition pw_ok (k : nat) (w : @pweight R) : Prop :=
  match w with PWConst c => 0 < c | PWArr a => length a = k /\ Forall (fun c => 0 < c) a end.
Lemma pw_vec_ok k w : pw_ok k w -> Forall (fun c => 0 < c) (pw_vec k w) /\ length (pw_vec k w) = k.
Proof.
  destruct w as [c|a]; cbn; [|tauto]. intros Hc. split; [|apply repeat_length].
  apply Forall_forall. intros x Hx. apply repeat_spec in Hx. subst. assumption.
Qed.
Lemma dot_repeat_r c (v : Rvec) : dot v (repeat c (length v)) = c * sumf v.
Proof.
  induction v as [|a v IH]; [cbn; unfold dot; cbn; numR; lra|].
  cbn [length repeat]. rewrite dot_cons, sumf_cons, IH. lra.
Qed.
Lemma ps_inner_comb_dot w (v : Rvec) : ps_inner_comb w v = dot v (pw_vec (length v) w).
Proof. destruct w as [c|a]; cbn [ps_inner_comb pw_vec]; [rewrite dot_repeat_r|]; reflexivity. Qed.

(* s is a Hilbert tree and x has the shape of an element of s *)
Fixpoint hshape (s : @space R) (x : @elem R) {struct s} : Prop :=
  match s, x with
  | SLeaf lf, ELeaf a => leaf_ok2 lf (length a)
  | SProd w p cs, ENode xs =>
      p = PFin 2 /\ cs <> [] /\ pw_ok (length cs) w /\ all2 hshape cs xs
  | _, _ => False
  end.

Definition scaled_concat (f : @space R -> @elem R -> Rvec) :=
  fix go (cs : list (@space R)) (xs : list (@elem R)) (us : Rvec) : Rvec :=
    match cs, xs, us with
    | c :: cs', a :: xs', u :: us' => map (Rmult u) (f c a) ++ go cs' xs' us'
    | _, _, _ => []
    end.
(* the weight of every flattened entry: leaf weight times the component weights along the path *)
Fixpoint flat_w (q : quirks) (s : @space R) (x : @elem R) {struct s} : Rvec :=
  match s, x with
  | SLeaf lf, ELeaf a => leaf_w q lf (length a)
  | SProd w p cs, ENode xs => scaled_concat (flat_w q) cs xs (pw_vec (length cs) w)
  | _, _ => []
  end.

Lemma wdot_app (w w' x x' y y' : Rvec) : length w = length x -> length w = length y ->
  wdot (w ++ w') (x ++ x') (y ++ y') = wdot w x y + wdot w' x' y'.
Proof.
  revert x y; induction w as [|c w IH]; intros [|a x] [|b y] H1 H2; cbn in H1, H2; try lia.
  - cbn [app]. unfold wdot at 2. cbn. numR. lra.
  - cbn [app]. rewrite !wdot_cons, IH by lia. lra.
Qed.
Lemma wdot_scale_w u (w x y : Rvec) : wdot (map (Rmult u) w) x y = u * wdot w x y.
Proof.
  revert x y; induction w as [|c w IH]; intros [|a x] [|b y]; try (unfold wdot; cbn; numR; lra).
  cbn [map]. rewrite !wdot_cons, IH. lra.
Qed.

(* THE flattening theorem *)
Theorem sp_inner_flat q (s : @space R) : forall x y, hshape s x -> same_shape x y ->
  sp_inner q s x y = Ok (wdot (flat_w q s x) (flat x) (flat y))
  /\ length (flat_w q s x) = length (flat x)
  /\ Forall (fun c => 0 < c) (flat_w q s x).
Proof.
  induction s as [lf|w p cs IH] using space_ind'; intros [a|xs] [b|ys] Hs Hsh;
    cbn [hshape same_shape] in Hs, Hsh; try tauto.
  - cbn [sp_inner flat_w flat]. destruct (leaf_w_ok q lf (length a) Hs) as [Hpos Hlen].
    split; [apply leaf_inner_wdot; [assumption | lia] | split; assumption].
  - destruct Hs as (-> & Hne & Hw & Hall).
    destruct (pw_vec_ok _ _ Hw) as [Hupos Hulen].
    cbn [sp_inner flat_w flat is2 negb].
    assert (Hmain : forall us, length us = length cs -> Forall (fun c => 0 < c) us ->
              exists v, collect2 (sp_inner q) cs xs ys = Ok v /\ length v = length cs /\
                dot v us = wdot (scaled_concat (flat_w q) cs xs us) (concat (map flat xs)) (concat (map flat ys))
                /\ length (scaled_concat (flat_w q) cs xs us) = length (concat (map flat xs))
                /\ Forall (fun c => 0 < c) (scaled_concat (flat_w q) cs xs us)).
    { clear Hne Hw Hupos Hulen. revert xs ys Hall Hsh.
      induction IH as [|c cs Hc _ IHcs]; intros [|x xs] [|y ys] Hall Hsh us Hlu Hup; cbn in Hall, Hsh; try tauto.
      - exists []. destruct us; [|cbn in Hlu; lia]. cbn. repeat split; auto.
      - destruct Hall as [Hx Hall], Hsh as [Hxy Hsh]. destruct us as [|u us]; [cbn in Hlu; lia|].
        inversion Hup as [|? ? Hu Hup']; subst.
        destruct (Hc x y Hx Hxy) as (E1 & L1 & P1).
        destruct (IHcs xs ys Hall Hsh us ltac:(cbn in Hlu; lia) Hup') as (v & E2 & L2 & D2 & Len2 & P2).
        exists (wdot (flat_w q c x) (flat x) (flat y) :: v).
        cbn [collect2]. fold (collect2 (sp_inner q)). rewrite E1. cbn [bind]. rewrite E2. cbn [bind].
        split; [reflexivity|]. split; [cbn; lia|].
        cbn [scaled_concat map concat]. fold (scaled_concat (flat_w q)).
        split; [|split].
        + rewrite dot_cons, D2.
          rewrite wdot_app by (rewrite map_length, L1; first [reflexivity | apply same_shape_flat_length; assumption]).
          rewrite wdot_scale_w. lra.
        + rewrite !app_length, map_length, L1, Len2. reflexivity.
        + apply Forall_app. split; [|assumption].
          apply Forall_forall. intros z Hz. apply in_map_iff in Hz. destruct Hz as [z' [<- Hz']].
          rewrite Forall_forall in P1. specialize (P1 z' Hz'). nra. }
    destruct (Hmain (pw_vec (length cs) w) Hulen Hupos) as (v & E & Lv & D & Len & P).
    destruct cs as [|c0 cs0]; [congruence|].
    rewrite E. cbn [bind]. rewrite ps_inner_comb_dot, Lv, D. repeat split; assumption.
Qed.

(* flat weights depend only on the shape *)
Lemma flat_w_shape q (s : @space R) : forall x y, same_shape x y -> flat_w q s x = flat_w q s y.
Proof.
  induction s as [lf|w p cs IH] using space_ind'; intros [a|xs] [b|ys] Hsh; cbn [same_shape] in Hsh; try tauto;
    cbn [flat_w]; try reflexivity.
  - rewrite Hsh. reflexivity.
  - generalize (pw_vec (length cs) w). revert xs ys Hsh.
    induction IH as [|c cs Hc _ IHcs]; intros [|x xs] [|y ys] Hsh us; cbn in Hsh; try tauto; try reflexivity.
    destruct Hsh as [H1 H2]. destruct us as [|u us]; [reflexivity|].
    cbn [scaled_concat]. fold (scaled_concat (flat_w q)). rewrite (Hc x y H1), (IHcs xs ys H2). reflexivity.
Qed.
Lemma hshape_shape (s : @space R) : forall x y, hshape s x -> same_shape x y -> hshape s y.
Proof.
  induction s as [lf|w p cs IH] using space_ind'; intros [a|xs] [b|ys] Hs Hsh;
    cbn [hshape same_shape] in *; try tauto.
  - rewrite <- Hsh. assumption.
  - destruct Hs as (Hp & Hne & Hw & Hall). repeat split; try assumption.
    clear Hne Hw. revert xs ys Hall Hsh.
    induction IH as [|c cs Hc _ IHcs]; intros [|x xs] [|y ys] Hall Hsh; cbn in *; try tauto.
    destruct Hall, Hsh. split; [eapply Hc; eassumption | eapply IHcs; eassumption].
Qed.

(* ------------------------------------------------------------------ *)
(* inner-product axioms on arbitrary exponent-2 trees *)
Section TreeIPS.
Variable q : quirks.
Variable s : @space R.
Variable x0 : @elem R.              (* any element of the space: fixes the shape *)
Hypothesis Hx0 : hshape s x0.
Let W := flat_w q s x0.
Let okx (x : @elem R) := same_shape x0 x.
Definition tree_ip (x y : @elem R) : R := wdot W (flat x) (flat y).

Lemma tree_inner_value x y : okx x -> okx y -> sp_inner q s x y = Ok (tree_ip x y).
Proof.
  unfold okx; intros Hx Hy.
  assert (Hxy : same_shape x y) by (eapply same_shape_trans; [apply same_shape_sym; exact Hx | exact Hy]).
  destruct (sp_inner_flat q s x y (hshape_shape s x0 x Hx0 Hx) Hxy) as [E _].
  rewrite E. unfold tree_ip, W. rewrite (flat_w_shape q s x0 x Hx). reflexivity.
Qed.

Lemma W_pos : Forall (fun c => 0 < c) W /\ length W = length (flat x0).
Proof.
  destruct (sp_inner_flat q s x0 x0 Hx0 (same_shape_refl x0)) as (_ & L & P). split; assumption.
Qed.
Lemma okx_len x : okx x -> length (flat x) = length W.
Proof. unfold okx; intros Hx. destruct W_pos as [_ L]. rewrite L. symmetry. apply same_shape_flat_length, Hx. Qed.

Lemma okx_add x y : okx x -> okx y -> okx (eadd x y).
Proof.
  unfold okx; intros Hx Hy.
  assert (Hxy : same_shape x y) by (eapply same_shape_trans; [apply same_shape_sym; exact Hx | exact Hy]).
  eapply same_shape_trans; [exact Hx | apply (flat_eadd x y Hxy)].
Qed.
Lemma okx_scal a x : okx x -> okx (escal a x).
Proof. unfold okx; intros Hx. eapply same_shape_trans; [exact Hx | apply flat_escal]. Qed.

Lemma tree_ip_sym x y : okx x -> okx y -> tree_ip x y = tree_ip y x.
Proof. intros _ _. unfold tree_ip. apply wdot_comm. Qed.
Lemma tree_ip_add_l x y z : okx x -> okx y -> okx z -> tree_ip (eadd x y) z = tree_ip x z + tree_ip y z.
Proof.
  unfold okx; intros Hx Hy Hz. unfold tree_ip.
  assert (Hxy : same_shape x y) by (eapply same_shape_trans; [apply same_shape_sym; exact Hx | exact Hy]).
  destruct (flat_eadd x y Hxy) as [-> _]. apply wdot_vadd_l. apply same_shape_flat_length, Hxy.
Qed.
Lemma tree_ip_scal_l a x y : okx x -> okx y -> tree_ip (escal a x) y = a * tree_ip x y.
Proof. intros _ _. unfold tree_ip. destruct (flat_escal a x) as [-> _]. apply wdot_vscal_l. Qed.
Lemma tree_ip_nonneg x : okx x -> 0 <= tree_ip x x.
Proof. intros _. unfold tree_ip. apply wdot_self_nonneg, Forall_pos_nonneg, W_pos. Qed.
Lemma tree_ip_definite x : okx x -> tree_ip x x = 0 -> Forall (fun a => a = 0) (flat x).
Proof.
  intros Hx Hz. unfold tree_ip in Hz. eapply wdot_self_zero; [apply W_pos | apply okx_len, Hx | exact Hz].
Qed.

Lemma tree_cauchy_schwarz x y : okx x -> okx y -> tree_ip x y * tree_ip x y <= tree_ip x x * tree_ip y y.
Proof.
  apply (ips_cauchy_schwarz _ okx eadd escal tree_ip okx_add okx_scal tree_ip_sym tree_ip_add_l tree_ip_scal_l tree_ip_nonneg).
Qed.
Lemma tree_norm_triangle x y : okx x -> okx y ->
  sqrt (tree_ip (eadd x y) (eadd x y)) <= sqrt (tree_ip x x) + sqrt (tree_ip y y).
Proof.
  apply (ips_norm_triangle _ okx eadd escal tree_ip okx_add okx_scal tree_ip_sym tree_ip_add_l tree_ip_scal_l tree_ip_nonneg).
Qed.
Lemma tree_norm_homog a x : okx x -> sqrt (tree_ip (escal a x) (escal a x)) = Rabs a * sqrt (tree_ip x x).
Proof.
  apply (ips_norm_homog _ okx escal tree_ip okx_scal tree_ip_sym tree_ip_scal_l tree_ip_nonneg).
Qed.
End TreeIPS.

(* packaged for Props.v *)
Theorem pspace_ips q (s : @space R) (x0 : @elem R) : hshape s x0 ->
  let ok := same_shape x0 in let ip := tree_ip q s x0 in
  (forall x y, ok x -> ok y -> sp_inner q s x y = Ok (ip x y)) /\
  (forall x y, ok x -> ok y -> ip x y = wdot (flat_w q s x0) (flat x) (flat y)) /\
  (forall x y, ok x -> ok y -> ip x y = ip y x) /\
  (forall a x y z, ok x -> ok y -> ok z -> ip (eadd (escal a x) y) z = a * ip x z + ip y z) /\
  (forall x, ok x -> 0 <= ip x x /\ (ip x x = 0 -> Forall (fun t => t = 0) (flat x))) /\
  (forall x y, ok x -> ok y -> ip x y * ip x y <= ip x x * ip y y).
Proof.
  intros H0. cbn zeta. repeat split.
  - intros; apply tree_inner_value; assumption.
  - intros; apply tree_ip_sym; assumption.
  - intros a x y z Hx Hy Hz.
    rewrite (tree_ip_add_l q s x0) by (try apply okx_scal; assumption).
    rewrite (tree_ip_scal_l q s x0) by assumption. reflexivity.
  - apply tree_ip_nonneg; assumption.
  - apply tree_ip_definite; assumption.
  - intros; apply tree_cauchy_schwarz; assumption.
Qed.

(* one node: the product-space inner product is the weighted sum of the component inner products *)
Lemma pspace_inner_node q w c cs (xs ys : list (@elem R)) (v : Rvec) :
  collect2 (sp_inner q) (c :: cs) xs ys = Ok v ->
  sp_inner q (SProd w (PFin 2) (c :: cs)) (ENode xs) (ENode ys)
  = Ok (match w with PWConst k => k * sumf v | PWArr a => dot v a end).
Proof. intros E. cbn [sp_inner is2 negb]. rewrite E. destruct w; reflexivity. Qed.

(* the recorded finding: exponent-2 product over exponent-1 components *)
Definition l1leaf : @space R := SLeaf (LTensor LDefault (PFin 1)).
Lemma pspace_norm_refuted : exists q (s : @space R) (x y : @elem R),
  q_ps2_via_inner q = true /\
  (exists d, sp_dist q s x y = Ok d) /\ sp_norm q s (esub x y) = NotImpl.
Proof.
  exists wit_quirks, (SProd (PWConst 1) (PFin 2) [l1leaf; l1leaf]),
         (ENode [ELeaf [1; 1; 1]; ELeaf [1; 1; 1]]), (ENode [ELeaf [0; 0; 0]; ELeaf [0; 0; 0]]).
  split; [reflexivity|]. split; [eexists; reflexivity | reflexivity].
Qed.

Example hilbert_tree_example :
  let lf := SLeaf (LTensor (LConst 2) (PFin 2)) in
  let s := SProd (PWArr [1; 3]) (PFin 2) [lf; SProd (PWConst (/ 2)) (PFin 2) [lf]] in
  hshape s (ENode [ELeaf [1; 2]; ENode [ELeaf [0; 5; 1]]]).
Proof.
  cbn. repeat split; try congruence; try lra; repeat constructor; lra.
Qed.
