(* C02/DiscrR.v -- uniformly discretized spaces at R: partitions, boundary-cell
   fractions, the boundary weight array, and  || one ||^2 = domain volume. *)
From Coq Require Import ZArith QArith Reals Lra Lia List Bool Psatz.
From Verif Require Import Base.Num Base.Vec Base.VecR C02.Model C02.Roots C02.IPS C02.TensorR.
Import ListNotations.
Local Open Scope R_scope.

Lemma of_nat_R (n : nat) : @of_nat R _ n = INR n.
Proof. unfold of_nat. numR. symmetry. apply INR_IZR_INZ. Qed.

Lemma nhalf_R : @nhalf R _ = / 2.
Proof. unfold nhalf. numR. lra. Qed.

Lemma of_Q_R_tol : @of_Q R _ (1001 # 100000000)%Q = 1001 / 100000000.
Proof. unfold of_Q. cbn [Qnum Qden]. numR. reflexivity. Qed.

Lemma close1_R_true f : @close1 R _ f = true <-> Rabs (f - 1) <= 1001 / 100000000.
Proof. unfold close1. rewrite nleb_R_true, of_Q_R_tol. numR. tauto. Qed.
Lemma close1_one : @close1 R _ 1 = true.
Proof. apply close1_R_true. replace (1 - 1) with 0 by ring. rewrite Rabs_R0. lra. Qed.
Lemma close1_half : @close1 R _ (/ 2) = false.
Proof.
  destruct (close1 (/ 2)) eqn:E; [|reflexivity]. apply close1_R_true in E.
  replace (/ 2 - 1) with (- / 2) in E by lra. rewrite Rabs_Ropp, Rabs_pos_eq in E by lra. lra.
Qed.

(* ------------------------------------------------------------------ *)
(* sums of outer products *)
Lemma sumf_app' (x y : Rvec) : sumf (x ++ y) = sumf x + sumf y.
Proof. apply sumf_app. Qed.
Lemma sumf_repeat c n : sumf (repeat c n : Rvec) = INR n * c.
Proof.
  induction n as [|n IH]; [cbn; numR; lra|]. cbn [repeat]. rewrite sumf_cons, IH, S_INR. lra.
Qed.
Theorem sumf_kron (u v : Rvec) : sumf (kron u v) = sumf u * sumf v.
Proof.
  unfold kron. induction u as [|a u IH]; cbn [flat_map]; [rewrite sumf_nil; lra|].
  rewrite sumf_app, IH, sumf_cons. numR. rewrite sumf_map_scal. lra.
Qed.
Lemma kron_length (u v : Rvec) : length (kron u v) = (length u * length v)%nat.
Proof.
  unfold kron. induction u as [|a u IH]; [reflexivity|]. cbn [flat_map length].
  rewrite app_length, map_length, IH. lia.
Qed.

(* ------------------------------------------------------------------ *)
(* one axis *)
Definition ax_ok (ax : @axis R) : Prop :=
  (1 <= ax_n ax)%nat /\ ax_a ax < ax_b ax /\ ax_a ax <= ax_g0 ax /\ ax_g1 ax <= ax_b ax /\
  ((2 <= ax_n ax)%nat -> ax_g0 ax < ax_g1 ax) /\ (ax_n ax = 1%nat -> ax_g1 ax = ax_g0 ax).
(* a fraction that np.isclose snaps to 1 is exactly 1 (true of every uniform_partition) *)
Definition ax_exact (ax : @axis R) : Prop :=
  (close1 (fst (ax_fracs ax)) = true -> fst (ax_fracs ax) = 1) /\
  (close1 (snd (ax_fracs ax)) = true -> snd (ax_fracs ax) = 1).

Lemma ax_stride_ge2 (ax : @axis R) : (2 <= ax_n ax)%nat ->
  ax_stride ax = (ax_g1 ax - ax_g0 ax) / INR (ax_n ax - 1).
Proof.
  intros Hn. unfold ax_stride. destruct (Nat.ltb_spec 1 (ax_n ax)); [|lia].
  rewrite of_nat_R. numR. reflexivity.
Qed.
Lemma ax_stride_pos (ax : @axis R) : ax_ok ax -> (2 <= ax_n ax)%nat -> 0 < ax_stride ax.
Proof.
  intros (Hn & Hab & Ha & Hb & Hg & H1) H2. rewrite ax_stride_ge2 by assumption.
  apply Rdiv_lt_0_compat; [specialize (Hg H2); lra|]. apply lt_0_INR. lia.
Qed.
Lemma ax_side_ge2 (ax : @axis R) : ax_ok ax -> (2 <= ax_n ax)%nat -> ax_side ax = ax_stride ax.
Proof.
  intros Hok H2. unfold ax_side. pose proof (ax_stride_pos ax Hok H2) as Hp.
  destruct (neqb (ax_stride ax) nzero) eqn:E; [|reflexivity].
  apply neqb_R_true in E. numR. lra.
Qed.
Lemma ax_side_1 (ax : @axis R) : ax_n ax = 1%nat -> ax_side ax = ax_b ax - ax_a ax.
Proof.
  intros H1. unfold ax_side, ax_stride. rewrite H1. cbn [Nat.ltb Nat.leb].
  destruct (neqb (@nzero R _) nzero) eqn:E; [numR; reflexivity|].
  assert (@neqb R _ nzero nzero = true) by (apply neqb_R_true; reflexivity). congruence.
Qed.
Lemma ax_side_pos (ax : @axis R) : ax_ok ax -> 0 < ax_side ax.
Proof.
  intros Hok. pose proof Hok as (Hn & Hab & _).
  destruct (Nat.eq_dec (ax_n ax) 1) as [E|E].
  - rewrite ax_side_1 by assumption. lra.
  - rewrite ax_side_ge2 by (auto; lia). apply ax_stride_pos; [assumption | lia].
Qed.

Lemma ax_fracs_ge2 (ax : @axis R) : (2 <= ax_n ax)%nat ->
  ax_fracs ax = (/ 2 + (ax_g0 ax - ax_a ax) / ax_stride ax, / 2 + (ax_b ax - ax_g1 ax) / ax_stride ax).
Proof.
  intros H2. unfold ax_fracs. destruct (Nat.eqb_spec (ax_n ax) 1); [lia|].
  rewrite nhalf_R. numR. reflexivity.
Qed.
Lemma ax_fracs_1 (ax : @axis R) : ax_n ax = 1%nat -> ax_fracs ax = (1, 1).
Proof. intros H1. unfold ax_fracs. rewrite H1. cbn. numR. reflexivity. Qed.

Lemma ax_fracs_pos (ax : @axis R) : ax_ok ax -> / 2 <= fst (ax_fracs ax) /\ / 2 <= snd (ax_fracs ax).
Proof.
  intros Hok. pose proof Hok as (Hn & Hab & Ha & Hb & Hg & H1).
  destruct (Nat.eq_dec (ax_n ax) 1) as [E|E].
  - rewrite ax_fracs_1 by assumption. cbn. lra.
  - assert (H2 : (2 <= ax_n ax)%nat) by lia. rewrite ax_fracs_ge2 by assumption. cbn [fst snd].
    pose proof (ax_stride_pos ax Hok H2) as Hp.
    assert (0 <= (ax_g0 ax - ax_a ax) / ax_stride ax) by (apply Rmult_le_pos; [lra | left; apply Rinv_0_lt_compat; lra]).
    assert (0 <= (ax_b ax - ax_g1 ax) / ax_stride ax) by (apply Rmult_le_pos; [lra | left; apply Rinv_0_lt_compat; lra]).
    lra.
Qed.

(* the per-axis vector and its length *)
Lemma ax_wvec_length (r : R -> R) (ax : @axis R) : length (ax_wvec r ax) = ax_n ax.
Proof.
  unfold ax_wvec. destruct (ax_fracs ax) as [fl fr]. destruct (ax_n ax) as [|[|k]]; try reflexivity.
  cbn [length]. rewrite app_length, repeat_length. cbn. lia.
Qed.

(* cell side times the sum of the (exponent-1) boundary vector = extent of the axis *)
Lemma ax_side_times_sum (ax : @axis R) : ax_ok ax -> ax_exact ax ->
  ax_side ax * sumf (ax_wvec (fun f => f) ax) = ax_b ax - ax_a ax.
Proof.
  intros Hok [Hel Her]. pose proof Hok as (Hn & Hab & Ha & Hb & Hg & H1).
  destruct (Nat.eq_dec (ax_n ax) 1) as [E|E].
  - rewrite ax_side_1 by assumption. unfold ax_wvec. rewrite ax_fracs_1, E by assumption.
    rewrite close1_one. rewrite sumf_cons, sumf_nil. numR. lra.
  - assert (H2 : (2 <= ax_n ax)%nat) by lia.
    rewrite ax_side_ge2 by assumption.
    pose proof (ax_stride_pos ax Hok H2) as Hp.
    unfold ax_wvec. destruct (ax_fracs ax) as [fl fr] eqn:Ef. cbn [fst snd] in Hel, Her.
    set (sl := if close1 fl then none_ else fl). set (sr := if close1 fr then none_ else fr).
    assert (Esl : sl = fl) by (unfold sl; destruct (close1 fl); [symmetry; apply Hel; reflexivity | reflexivity]).
    assert (Esr : sr = fr) by (unfold sr; destruct (close1 fr); [symmetry; apply Her; reflexivity | reflexivity]).
    destruct (ax_n ax) as [|[|k]] eqn:En; try lia.
    rewrite sumf_cons, sumf_app, sumf_repeat, sumf_cons, sumf_nil, Esl, Esr. numR.
    rewrite ax_fracs_ge2 in Ef by lia. injection Ef as <- <-.
    assert (Hs : ax_stride ax * INR (S k) = ax_g1 ax - ax_g0 ax).
    { rewrite ax_stride_ge2 by lia. rewrite En. replace (S (S k) - 1)%nat with (S k) by lia.
      field. apply not_0_INR. lia. }
    rewrite S_INR in Hs. field_simplify; [|lra]. nra.
Qed.

(* ------------------------------------------------------------------ *)
(* N-d: cell volume times the sum of the boundary weight array = volume of the domain *)
Definition npoints (axes : list (@axis R)) : nat := fold_right (fun ax acc => (ax_n ax * acc)%nat) 1%nat axes.

Lemma cell_volume_cons (ax : @axis R) axes : cell_volume (ax :: axes) = ax_side ax * cell_volume axes.
Proof. reflexivity. Qed.
Lemma extent_volume_cons (ax : @axis R) axes :
  extent_volume (ax :: axes) = (ax_b ax - ax_a ax) * extent_volume axes.
Proof. reflexivity. Qed.
Lemma bdry_w_cons r (ax : @axis R) axes : bdry_w r (ax :: axes) = kron (ax_wvec r ax) (bdry_w r axes).
Proof. reflexivity. Qed.

Lemma bdry_w_length r (axes : list (@axis R)) : length (bdry_w r axes) = npoints axes.
Proof.
  induction axes as [|ax axes IH]; [reflexivity|]. rewrite bdry_w_cons. cbn [fold_right npoints].
  rewrite kron_length, ax_wvec_length, IH. reflexivity.
Qed.

Theorem volume_times_weight_sum (axes : list (@axis R)) :
  Forall ax_ok axes -> Forall ax_exact axes ->
  cell_volume axes * sumf (bdry_w (fun f => f) axes) = extent_volume axes.
Proof.
  intros Hok Hex. induction axes as [|ax axes IH].
  - cbn. numR. lra.
  - inversion Hok; inversion Hex; subst.
    rewrite cell_volume_cons, extent_volume_cons, bdry_w_cons, sumf_kron.
    rewrite <- IH by assumption. rewrite <- (ax_side_times_sum ax) by assumption. ring.
Qed.

Lemma cell_volume_pos (axes : list (@axis R)) : Forall ax_ok axes -> 0 < cell_volume axes.
Proof.
  induction 1 as [|ax axes Hax _ IH]; [cbn; numR; lra|].
  rewrite cell_volume_cons. apply Rmult_lt_0_compat; [apply ax_side_pos; assumption | exact IH].
Qed.

(* the boundary weights are positive (fractions >= 1/2) *)
Lemma ax_wvec_pos (ax : @axis R) : ax_ok ax -> Forall (fun c => 0 < c) (ax_wvec (fun f => f) ax).
Proof.
  intros Hok. pose proof (ax_fracs_pos ax Hok) as [Hl Hr].
  unfold ax_wvec. destruct (ax_fracs ax) as [fl fr]. cbn [fst snd] in *.
  assert (0 < (if close1 fl then none_ else fl)) by (destruct (close1 fl); numR; lra).
  assert (0 < (if close1 fr then none_ else fr)) by (destruct (close1 fr); numR; lra).
  destruct (ax_n ax) as [|[|k]]; [constructor | constructor; [numR; nra | constructor] |].
  constructor; [assumption|]. apply Forall_app. split.
  - apply Forall_forall. intros c Hc. apply repeat_spec in Hc. subst. numR. lra.
  - constructor; [assumption | constructor].
Qed.
Lemma kron_pos (u v : Rvec) : Forall (fun c => 0 < c) u -> Forall (fun c => 0 < c) v -> Forall (fun c => 0 < c) (kron u v).
Proof.
  intros Hu Hv. unfold kron. induction Hu as [|a u Ha Hu IH]; [constructor|].
  cbn [flat_map]. apply Forall_app. split; [|exact IH].
  apply Forall_forall. intros c Hc. apply in_map_iff in Hc. destruct Hc as [b [<- Hb]].
  rewrite Forall_forall in Hv. specialize (Hv b Hb). numR. nra.
Qed.
Lemma bdry_w_pos (axes : list (@axis R)) : Forall ax_ok axes -> Forall (fun c => 0 < c) (bdry_w (fun f => f) axes).
Proof.
  induction 1 as [|ax axes Hax _ IH]; [constructor; [numR; lra | constructor]|].
  rewrite bdry_w_cons. apply kron_pos; [apply ax_wvec_pos; assumption | exact IH].
Qed.

(* ------------------------------------------------------------------ *)
(* inner product of a discretized leaf as a weighted sum *)
Lemma dot_vmul_l (x w y : Rvec) : dot (vmul x w) y = wdot w x y.
Proof. apply wdot_alt. Qed.

Lemma vmul_ones (x : Rvec) n : length x = n -> vmul x (repeat 1 n) = x.
Proof.
  intros <-. induction x as [|a x IH]; [reflexivity|]. cbn [length repeat]. unfold vmul in *. cbn [vmap2].
  rewrite IH. numR. f_equal. lra.
Qed.

Lemma wdot_ones (w : Rvec) : wdot w (repeat 1 (length w)) (repeat 1 (length w)) = sumf w.
Proof.
  induction w as [|c w IH]; [reflexivity|]. cbn [length repeat]. rewrite wdot_cons, sumf_cons, IH. lra.
Qed.

(* when every fraction is inside the isclose band, the model's weight array is all ones,
   so skipping the scaling (is_uniformly_weighted) changes nothing *)
Lemma ax_wvec_all_close r (ax : @axis R) : (1 <= ax_n ax)%nat ->
  (let '(fl, fr) := ax_fracs ax in close1 fl && close1 fr) = true ->
  ax_wvec r ax = repeat 1 (ax_n ax).
Proof.
  intros Hn. unfold ax_wvec. destruct (ax_fracs ax) as [fl fr]. intros Hc.
  apply andb_true_iff in Hc. destruct Hc as [-> ->].
  destruct (ax_n ax) as [|[|k]]; [lia | cbn; numR; f_equal; lra |].
  numR. cbn [repeat]. f_equal. symmetry. apply repeat_cons.
Qed.
Lemma map_one_repeat m : map (nmul 1) (repeat 1 m) = repeat (1:R) m.
Proof. induction m as [|m IHm]; [reflexivity|]. cbn [repeat map]. rewrite IHm. numR. f_equal. lra. Qed.
Lemma kron_ones n m : kron (repeat 1 n) (repeat 1 m) = repeat 1 (n * m).
Proof.
  unfold kron. induction n as [|n IH]; [reflexivity|]. cbn [repeat flat_map]. rewrite IH.
  rewrite map_one_repeat, <- repeat_app. reflexivity.
Qed.
Lemma bdry_w_all_close r (axes : list (@axis R)) : Forall ax_ok axes -> all_close1 axes = true ->
  bdry_w r axes = repeat 1 (npoints axes).
Proof.
  intros Hok. induction Hok as [|ax axes Hax _ IH]; intros Hc; [reflexivity|].
  cbn [all_close1 forallb] in Hc. apply andb_true_iff in Hc. destruct Hc as [Hc1 Hc2].
  rewrite bdry_w_cons. cbn [npoints fold_right]. fold (npoints axes). unfold all_close1 in IH. rewrite IH by assumption.
  rewrite ax_wvec_all_close by (try apply Hax; assumption). apply kron_ones.
Qed.

(* the exponent-2 inner product of a discretized space, for every branch of
   is_uniformly_weighted except the recorded "unweighted skips" one *)
Lemma discr_inner_value q axes (w : @lweight R) (x y : Rvec) :
  Forall ax_ok axes -> length x = npoints axes ->
  (q_unweighted_skips q && negb (is_weighted (d_weight axes w (PFin 2)))) = false ->
  leaf_inner q (LDiscr axes w (PFin 2)) x y
  = Ok (t_inner_v (d_weight axes w (PFin 2)) (scale_bdry (fun f => f) axes x) y).
Proof.
  intros Hok Hl Hq. cbn [leaf_inner]. unfold unif_weighted. rewrite Hq. cbn [isinf orb].
  rewrite orb_false_r. destruct (all_close1 axes) eqn:Ec; [|reflexivity].
  unfold scale_bdry. rewrite bdry_w_all_close, vmul_ones by assumption. reflexivity.
Qed.

(* THE volume theorem: default weighting (cell volume), any number of axes, any number of points
   per axis (one-point axes included), any position of the grid inside the domain *)
Theorem discr_one_inner q (axes : list (@axis R)) :
  Forall ax_ok axes -> Forall ax_exact axes -> axes <> [] ->
  (q_unweighted_skips q = false \/ cell_volume axes <> 1) ->
  leaf_inner q (LDiscr axes LDefault (PFin 2)) (repeat 1 (npoints axes)) (repeat 1 (npoints axes))
  = Ok (extent_volume axes).
Proof.
  intros Hok Hex Hne Hq.
  assert (Ew : d_weight axes LDefault (PFin 2) = WConst (cell_volume axes)) by (destruct axes; [congruence|reflexivity]).
  rewrite discr_inner_value; [| assumption | apply repeat_length |].
  - rewrite Ew. cbn [t_inner_v]. unfold scale_bdry. rewrite dot_vmul_l.
    rewrite <- (bdry_w_length (fun f => f) axes) at 1 2. rewrite wdot_ones. numR.
    rewrite volume_times_weight_sum by assumption. reflexivity.
  - rewrite Ew. cbn [is_weighted]. destruct Hq as [-> | Hne1]; [reflexivity|].
    destruct (neqb (cell_volume axes) none_) eqn:E; [|apply andb_false_r].
    apply neqb_R_true in E. numR. contradiction.
Qed.

(* ------------------------------------------------------------------ *)
(* uniform_grid_fromintv: for each of the four nodes_on_bdry formulas the axis is well-formed
   and the boundary fractions are exactly 1/2 (node on the boundary) or 1 *)
Lemma mk_axis_fields n (a b : R) bl br :
  ax_n (mk_axis n a b bl br) = n /\ ax_a (mk_axis n a b bl br) = a /\ ax_b (mk_axis n a b bl br) = b.
Proof. unfold mk_axis. destruct (grid_ends n a b bl br). cbn. auto. Qed.

Lemma mk_axis_g n (a b : R) bl br : (2 <= n)%nat ->
  ax_g0 (mk_axis n a b bl br) = fst (grid_ends n a b bl br) /\
  ax_g1 (mk_axis n a b bl br) = snd (grid_ends n a b bl br).
Proof.
  intros Hn. unfold mk_axis. destruct (grid_ends n a b bl br). cbn.
  destruct (Nat.eqb_spec n 1); [lia|]. auto.
Qed.

Lemma grid_ends_R n (a b : R) bl br :
  grid_ends n a b bl br =
  match bl, br with
  | true, true => (a, b)
  | true, false => (a, b - (b - a) / (2 * INR n - 1))
  | false, true => (a + (b - a) / (2 * INR n - 1), b)
  | false, false => (a + (b - a) / (2 * INR n), b - (b - a) / (2 * INR n))
  end.
Proof. unfold grid_ends. rewrite !of_nat_R. numR. destruct bl, br; reflexivity. Qed.

Theorem mk_axis_fracs n (a b : R) bl br : (2 <= n)%nat -> a < b ->
  ax_ok (mk_axis n a b bl br) /\
  ax_fracs (mk_axis n a b bl br) = ((if bl then / 2 else 1), (if br then / 2 else 1)).
Proof.
  intros Hn Hab.
  destruct (mk_axis_fields n a b bl br) as (En & Ea & Eb).
  destruct (mk_axis_g n a b bl br Hn) as (Eg0 & Eg1).
  assert (Hn2 : 2 <= INR n) by (apply (le_INR 2); assumption).
  assert (Hn1 : INR (n - 1) = INR n - 1) by (rewrite minus_INR by lia; reflexivity).
  rewrite grid_ends_R in Eg0, Eg1.
  assert (HL : 0 < b - a) by lra.
  assert (Hd1 : 0 < 2 * INR n - 1) by lra. assert (Hd2 : 0 < 2 * INR n) by lra.
  assert (Hq1 : 0 < (b - a) / (2 * INR n - 1)) by (apply Rdiv_lt_0_compat; lra).
  assert (Hq2 : 0 < (b - a) / (2 * INR n)) by (apply Rdiv_lt_0_compat; lra).
  assert (Hq1' : (b - a) / (2 * INR n - 1) * (2 * INR n - 1) = b - a) by (field; lra).
  assert (Hq2' : (b - a) / (2 * INR n) * (2 * INR n) = b - a) by (field; lra).
  assert (Hok : ax_ok (mk_axis n a b bl br)).
  { unfold ax_ok. rewrite En, Ea, Eb, Eg0, Eg1.
    assert (Hlt : (b - a) / (2 * INR n - 1) < b - a) by nra.
    assert (Hlt2 : 2 * ((b - a) / (2 * INR n)) < b - a) by nra.
    repeat split; try lia; destruct bl, br; cbn [fst snd]; try lra; intros; lra. }
  split; [exact Hok|].
  rewrite ax_fracs_ge2 by (rewrite En; assumption).
  pose proof (ax_stride_pos _ Hok ltac:(rewrite En; assumption)) as Hsp.
  assert (Hs : ax_stride (mk_axis n a b bl br) * (INR n - 1) = ax_g1 (mk_axis n a b bl br) - ax_g0 (mk_axis n a b bl br)).
  { rewrite ax_stride_ge2 by (rewrite En; assumption). rewrite En, Hn1. field. lra. }
  rewrite Ea, Eb. rewrite Eg0, Eg1 in *.
  set (h := ax_stride (mk_axis n a b bl br)) in *.
  destruct bl, br; cbn [fst snd] in *; f_equal.
  all: try (replace (a - a) with 0 by ring; unfold Rdiv; rewrite Rmult_0_l; lra).
  all: try (replace (b - b) with 0 by ring; unfold Rdiv; rewrite Rmult_0_l; lra).
  1, 2: set (q := (b - a) / (2 * INR n - 1)) in *.
  3, 4: set (q := (b - a) / (2 * INR n)) in *.
  all: assert (Hh : h = 2 * q) by (apply (Rmult_eq_reg_r (INR n - 1)); [nra | lra]).
  all: rewrite Hh; field; lra.
Qed.

Lemma mk_axis_one (a b : R) bl br : a < b -> bl = br \/ True ->
  ax_n (mk_axis 1 a b bl br) = 1%nat.
Proof. intros _ _. apply mk_axis_fields. Qed.

Theorem mk_axis_exact n (a b : R) bl br : (2 <= n)%nat -> a < b -> ax_exact (mk_axis n a b bl br).
Proof.
  intros Hn Hab. destruct (mk_axis_fracs n a b bl br Hn Hab) as [_ Ef].
  unfold ax_exact. rewrite Ef. cbn [fst snd].
  split; [destruct bl | destruct br]; try (intros _; reflexivity); rewrite close1_half; discriminate.
Qed.

(* ------------------------------------------------------------------ *)
(* the recorded finding: cell volume exactly 1 => tspace weighting is const 1.0 =>
   "not is_weighted" => the boundary fractions are skipped.  uniform_discr(0, 2, 3, nodes_on_bdry=True) *)
Definition wit_axis : @axis R := {| ax_n := 3; ax_a := 0; ax_b := 2; ax_g0 := 0; ax_g1 := 2 |}.
Definition wit_quirks : quirks :=
  {| q_unweighted_skips := true; q_ps2_via_inner := true |}.
Lemma wit_ok : ax_ok wit_axis.
Proof. unfold ax_ok, wit_axis; cbn. repeat split; try lia; try lra; intros; try lra; lia. Qed.
Lemma wit_stride : ax_stride wit_axis = 1.
Proof. rewrite ax_stride_ge2 by (cbn; lia). cbn. field. Qed.
Lemma wit_exact : ax_exact wit_axis.
Proof.
  unfold ax_exact. rewrite ax_fracs_ge2 by (cbn; lia). rewrite wit_stride. cbn [fst snd wit_axis ax_g0 ax_a ax_b ax_g1].
  replace (/ 2 + (0 - 0) / 1) with (/ 2) by lra. replace (/ 2 + (2 - 2) / 1) with (/ 2) by lra.
  rewrite close1_half. split; discriminate.
Qed.
Lemma wit_volume : cell_volume [wit_axis] = 1.
Proof. cbn [cell_volume fold_right]. rewrite ax_side_ge2 by (try apply wit_ok; cbn; lia). rewrite wit_stride. numR. lra. Qed.

Lemma discr_one_refuted : exists q (axes : list (@axis R)),
  q_unweighted_skips q = true /\ Forall ax_ok axes /\ Forall ax_exact axes /\ axes <> [] /\
  leaf_inner q (LDiscr axes LDefault (PFin 2)) (repeat 1 (npoints axes)) (repeat 1 (npoints axes))
  <> Ok (extent_volume axes).
Proof.
  exists wit_quirks, [wit_axis]. split; [reflexivity|].
  split; [constructor; [apply wit_ok | constructor]|].
  split; [constructor; [apply wit_exact | constructor]|].
  split; [congruence|].
  cbn [leaf_inner d_weight]. rewrite wit_volume.
  unfold unif_weighted. cbn [q_unweighted_skips wit_quirks isinf is_weighted].
  assert (E : @neqb R _ 1 none_ = true) by (apply neqb_R_true; reflexivity).
  rewrite E. cbn [negb andb]. rewrite orb_true_r.
  unfold t_inner. cbn [is2]. cbn. numR. intros H. injection H as H. lra.
Qed.

Lemma discr_example :
  let axes := [mk_axis 3 0 1 true true] in
  Forall ax_ok axes /\ Forall ax_exact axes /\ cell_volume axes <> 1.
Proof.
  cbn zeta.
  destruct (mk_axis_fracs 3 0 1 true true ltac:(lia) ltac:(lra)) as [Hok Hf].
  split; [constructor; [exact Hok | constructor]|].
  split; [constructor; [apply mk_axis_exact; [lia | lra] | constructor]|].
  cbn [cell_volume fold_right].
  destruct (mk_axis_fields 3 0 1 true true) as (En & Ea & Eb).
  destruct (mk_axis_g 3 0 1 true true ltac:(lia)) as (Eg0 & Eg1).
  rewrite grid_ends_R in Eg0, Eg1. cbn [fst snd] in Eg0, Eg1.
  rewrite ax_side_ge2 by (try exact Hok; rewrite En; lia).
  rewrite ax_stride_ge2 by (rewrite En; lia). rewrite En, Eg0, Eg1. cbn [Nat.sub INR]. numR. lra.
Qed.
