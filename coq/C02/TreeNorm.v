(* C02/TreeNorm.v -- norms and distances on nested product spaces with arbitrary (mixed)
   exponents: value of the code's combination of component norms as a documented weighted
   p-norm of the vector of component norms; absolute homogeneity and triangle inequality by
   induction over the space tree; dist(x, y) = norm(x - y). *)
From Coq Require Import ZArith Reals Lra Lia List Bool Psatz.
From Verif Require Import Base.Num Base.Vec Base.VecR C02.Model C02.Roots C02.IPS C02.TensorR C02.DiscrR
  C02.TreeR C02.Mink C02.LeafR.
Import ListNotations.
Local Open Scope R_scope.

(* ---------- the combination of component norms ---------- *)
Definition comb_v (w : @pweight R) (p : expo) (norms : Rvec) : R :=
  match p with
  | PInf => wnorm_inf (pw_vec (length norms) w) norms
  | PFin k => wnorm_p k (pw_vec (length norms) w) norms
  end.

Lemma abs_nonneg_map (v : Rvec) : Forall (fun a => 0 <= a) v -> map Rabs v = v.
Proof. induction 1 as [|a v Ha _ IH]; [reflexivity|]. cbn [map]. rewrite IH, Rabs_pos_eq by assumption. reflexivity. Qed.

Lemma map_abs_vmul_pos (n a : Rvec) : Forall (fun c => 0 < c) a -> map nabs (vmul n a) = vmul (map Rabs n) a.
Proof.
  intros Ha; revert n; induction Ha as [|c a Hc _ IH]; intros [|u n]; try reflexivity.
  unfold vmul in *. cbn [vmap2 map]. rewrite IH. numR. rewrite Rabs_mult, (Rabs_pos_eq c) by lra. reflexivity.
Qed.
Lemma vmul_repeat1_l (W : Rvec) : vmul (repeat 1 (length W)) W = W.
Proof. induction W as [|f W IH]; [reflexivity|]. cbn [length repeat]. unfold vmul in *. cbn [vmap2]. rewrite IH. numR. f_equal. lra. Qed.
Lemma psum_as_wpsum k (v : Rvec) : psum k v = wpsum k (repeat 1 (length v)) v.
Proof. rewrite wpsum_repeat. lra. Qed.
Lemma root_rel_map k (a : Rvec) : (1 <= k)%nat -> Forall (fun c => 0 < c) a -> root_rel k (map (Rroot k) a) a.
Proof.
  intros Hk Ha. induction Ha as [|c a Hc _ IH]; cbn [map]; constructor; [|exact IH].
  split; [apply Rroot_nonneg | apply Rroot_pow; [assumption | lra]].
Qed.

Lemma lpnorm_ok (p : expo) (v : Rvec) : v <> [] -> lpnorm p v = Ok (lpnorm_v p v).
Proof. destruct v; [congruence|]. destruct p; reflexivity. Qed.
Lemma lpnorm_fin_ok (k : nat) (v : Rvec) : lpnorm (PFin k) v = Ok (lpnorm_v (PFin k) v).
Proof. destruct v; reflexivity. Qed.

Lemma wpsum_1_sum1_pos (n a : Rvec) : Forall (fun c => 0 < c) a -> length n = length a ->
  sum1 (vmul n a) = wpsum 1 a n.
Proof.
  intros Ha; revert n; induction Ha as [|c a Hc _ IH]; intros [|u n] Hl; cbn in Hl; try lia; [reflexivity|].
  unfold sum1, vmul in *. cbn [vmap2 map]. rewrite sumf_cons, wpsum_cons, IH by lia. numR.
  rewrite Rabs_mult, (Rabs_pos_eq c) by lra. cbn [pow]. lra.
Qed.

Theorem ps_norm_comb_value (w : @pweight R) (p : expo) (norms : Rvec) :
  pvalid p -> pw_ok (length norms) w -> norms <> [] ->
  ps_norm_comb w p norms = Ok (comb_v w p norms).
Proof.
  intros Hp Hw Hne. destruct (pw_vec_ok _ _ Hw) as [Hupos Hulen].
  destruct w as [c|a]; cbn [pw_ok pw_vec] in *.
  - (* constant *)
    cbn [ps_norm_comb]. rewrite lpnorm_ok by assumption. cbn [bind]. f_equal.
    destruct p as [|k]; cbn [comb_v is1inf pw_vec].
    + unfold wnorm_inf. cbn [lpnorm_v]. rewrite vmul_abs_repeat, vmaxl_scal by lra. reflexivity.
    + cbn [pvalid] in Hp. unfold wnorm_p. rewrite wpsum_repeat.
      rewrite Rroot_mult by (try assumption; try lra; apply psum_nonneg).
      rewrite <- lpnorm_v_fin by assumption.
      destruct k as [|[|k]]; [lia | cbn [is1inf]; rewrite Rroot_1 by lra; reflexivity | cbn [is1inf]; rootR; reflexivity].
  - (* array *)
    destruct Hw as [Hl Hpos]. cbn [ps_norm_comb].
    destruct p as [|k]; cbn [comb_v is1inf pw_vec].
    + rewrite lpnorm_ok.
      * f_equal. cbn [lpnorm_v]. unfold wnorm_inf. rewrite map_abs_vmul_pos by assumption. reflexivity.
      * destruct norms as [|u n]; [congruence|]. destruct a as [|c a]; [cbn in Hl; lia|]. cbn. congruence.
    + cbn [pvalid] in Hp. rewrite !lpnorm_fin_ok.
      destruct k as [|[|k]]; [lia | |].
      * cbn [is1inf]. f_equal. cbn [lpnorm_v]. unfold wnorm_p.
        rewrite wpsum_1_sum1_pos by (auto; lia).
        rewrite Rroot_1 by (apply wpsum_nonneg, Forall_pos_nonneg; assumption). reflexivity.
      * cbn [is1inf]. f_equal. rewrite lpnorm_v_fin by lia. unfold wnorm_p. f_equal.
        rewrite psum_as_wpsum. rootR.
        rewrite (wpsum_shift (S (S k)) (map (Rroot (S (S k))) a) a) by (apply root_rel_map; [lia | assumption]).
        rewrite vmul_length by (rewrite map_length; lia).
        rewrite <- Hl at 1. rewrite vmul_repeat1_l. reflexivity.
Qed.

(* monotonicity of the weighted norms on non-negative vectors *)
Lemma wpsum_mono k (w a b : Rvec) : Forall (fun c => 0 <= c) w ->
  Forall2 (fun u v => 0 <= u <= v) a b -> wpsum k w a <= wpsum k w b.
Proof.
  intros Hw H; revert w Hw; induction H as [|u v a b [Hu Huv] _ IH]; intros w Hw.
  - rewrite !wpsum_nil_x. lra.
  - destruct Hw as [|c w Hc Hw]; [rewrite !wpsum_nil_w; lra|].
    rewrite !wpsum_cons. specialize (IH w Hw).
    rewrite !Rabs_pos_eq by lra.
    pose proof (pow_incr u v k (conj Hu Huv)). nra.
Qed.
Lemma wnorm_p_mono k (w a b : Rvec) : (1 <= k)%nat -> Forall (fun c => 0 <= c) w ->
  Forall2 (fun u v => 0 <= u <= v) a b -> wnorm_p k w a <= wnorm_p k w b.
Proof.
  intros Hk Hw H. unfold wnorm_p. apply Rroot_le; [assumption | apply wpsum_nonneg; assumption | apply wpsum_mono; assumption].
Qed.
Lemma wnorm_inf_mono (w a b : Rvec) : Forall (fun c => 0 <= c) w ->
  Forall2 (fun u v => 0 <= u <= v) a b -> wnorm_inf w a <= wnorm_inf w b.
Proof.
  intros Hw H. unfold wnorm_inf.
  assert (Hin : forall z, In z (vmul (map Rabs a) w) -> exists z', In z' (vmul (map Rabs b) w) /\ z <= z').
  { revert w Hw. induction H as [|u v a b [Hu Huv] _ IH]; intros w Hw z Hz; [destruct w; contradiction|].
    destruct Hw as [|c w Hc Hw]; [contradiction|].
    unfold vmul in *. cbn [map vmap2] in *. destruct Hz as [<-|Hz].
    - eexists; split; [left; reflexivity|]. numR. rewrite !Rabs_pos_eq by lra. nra.
    - destruct (IH w Hw z Hz) as [z' [Hz' Hle]]. exists z'. split; [right; assumption | assumption]. }
  destruct (vmul (map Rabs a) w) as [|z0 r] eqn:E.
  - cbn [vmaxl]. numR. apply vmaxl_nonneg, absw_nonneg; assumption.
  - apply vmaxl_le; [congruence|]. intros z Hz. rewrite <- E in *.
    destruct (Hin z Hz) as [z' [Hz' Hle]]. apply vmaxl_ge in Hz'. lra.
Qed.
Lemma wnorm_p_nonneg k w x : 0 <= wnorm_p k w x.
Proof. apply Rroot_nonneg. Qed.
Lemma wnorm_inf_nonneg (w x : Rvec) : Forall (fun c => 0 <= c) w -> 0 <= wnorm_inf w x.
Proof. intros Hw. apply vmaxl_nonneg, absw_nonneg; assumption. Qed.

Lemma comb_v_nonneg w p norms : pw_ok (length norms) w -> 0 <= comb_v w p norms.
Proof.
  intros Hw. destruct (pw_vec_ok _ _ Hw) as [Hpos _]. destruct p; cbn [comb_v];
    [apply wnorm_inf_nonneg, Forall_pos_nonneg; assumption | apply wnorm_p_nonneg].
Qed.
Lemma comb_v_homog w p k (norms : Rvec) : pvalid p -> pw_ok (length norms) w ->
  comb_v w p (vscal (Rabs k) norms) = Rabs k * comb_v w p norms.
Proof.
  intros Hp Hw. destruct (pw_vec_ok _ _ Hw) as [Hpos _]. unfold comb_v. rewrite vscal_length.
  destruct p; [rewrite wnorm_inf_homog | rewrite wnorm_p_homog by (try assumption; apply Forall_pos_nonneg; assumption)];
    rewrite Rabs_Rabsolu; reflexivity.
Qed.
Lemma comb_v_sub_additive w p (nx ny nz : Rvec) : pvalid p -> pw_ok (length nx) w ->
  length ny = length nx -> length nz = length nx ->
  Forall2 (fun u v => 0 <= u <= v) nz (vadd nx ny) ->
  comb_v w p nz <= comb_v w p nx + comb_v w p ny.
Proof.
  intros Hp Hw Hy Hz Hle. destruct (pw_vec_ok _ _ Hw) as [Hpos Hlen].
  pose proof (Forall_pos_nonneg _ Hpos) as H0.
  unfold comb_v. rewrite Hy, Hz.
  destruct p as [|k].
  - eapply Rle_trans; [apply wnorm_inf_mono; eassumption|].
    apply wnorm_inf_triangle; [assumption | congruence].
  - eapply Rle_trans; [apply wnorm_p_mono; eassumption|].
    apply wnorm_p_triangle; try assumption; congruence.
Qed.

(* ---------- norms on trees ---------- *)
Definition map2v (f : @space R -> @elem R -> R) :=
  fix go (cs : list (@space R)) (xs : list (@elem R)) : Rvec :=
    match cs, xs with
    | c :: cs', a :: xs' => f c a :: go cs' xs'
    | _, _ => []
    end.

Fixpoint sp_norm_v (q : quirks) (s : @space R) (x : @elem R) {struct s} : R :=
  match s, x with
  | SLeaf lf, ELeaf a => leaf_norm_v q lf a
  | SProd w p cs, ENode xs =>
      if is2 p && q_ps2_via_inner q then sqrt (wdot (flat_w q s x) (flat x) (flat x))
      else comb_v w p (map2v (sp_norm_v q) cs xs)
  | _, _ => 0
  end.

(* x is an element of a space on which the code's norm is defined *)
Fixpoint normable (q : quirks) (s : @space R) (x : @elem R) {struct s} : Prop :=
  match s, x with
  | SLeaf lf, ELeaf a => leaf_okp lf (length a) /\ a <> []
  | SProd w p cs, ENode xs =>
      pvalid p /\ cs <> [] /\ pw_ok (length cs) w /\
      (if is2 p && q_ps2_via_inner q then hshape s x else all2 (normable q) cs xs)
  | _, _ => False
  end.

Lemma leaf_norm_v_nonneg q lf (x : Rvec) : leaf_okp lf (length x) -> 0 <= leaf_norm_v q lf x.
Proof.
  intros Hok. unfold leaf_norm_v. destruct (leaf_tw_okp lf _ Hok) as [Ht _].
  destruct (leaf_expo lf); [apply wnorm_inf_nonneg, Forall_pos_nonneg; assumption | apply wnorm_p_nonneg].
Qed.

Lemma zip_with_length {A} (f : A -> A -> A) xs ys : length xs = length ys -> length (zip_with f xs ys) = length xs.
Proof. revert ys; induction xs as [|x xs IH]; intros [|y ys] Hl; cbn in *; try lia. f_equal. apply IH. lia. Qed.
Lemma map2v_length f cs xs : length cs = length xs -> length (map2v f cs xs) = length cs.
Proof. revert xs; induction cs as [|c cs IH]; intros [|x xs] Hl; cbn in *; try lia. f_equal. apply IH. lia. Qed.

Theorem sp_norm_value q (s : @space R) : forall x, normable q s x ->
  sp_norm q s x = Ok (sp_norm_v q s x) /\ 0 <= sp_norm_v q s x.
Proof.
  induction s as [lf|w p cs IH] using space_ind'; intros [a|xs] Hn; cbn [normable] in Hn; try tauto.
  - destruct Hn as [Hok Hne]. cbn [sp_norm sp_norm_v].
    split; [apply leaf_norm_value; assumption | apply leaf_norm_v_nonneg; assumption].
  - destruct Hn as (Hp & Hne & Hw & Hrest). cbn [sp_norm sp_norm_v].
    assert (Enil : is_nil cs = false) by (destruct cs; [congruence | reflexivity]). rewrite Enil. cbn [andb]. clear Enil.
    destruct (is2 p && q_ps2_via_inner q) eqn:Eb.
    + (* exponent 2 through the components' inner products *)
      destruct (sp_inner_flat q (SProd w p cs) (ENode xs) (ENode xs) Hrest (same_shape_refl _)) as (E & L & P).
      cbn [hshape] in Hrest. destruct Hrest as (-> & _).
      cbn [sp_inner is2 negb] in E.
      destruct cs as [|c0 cs0]; [congruence|].
      destruct (collect2 (sp_inner q) (c0 :: cs0) xs xs) as [v| | | | |] eqn:Ec; cbn [bind] in E; try discriminate.
      injection E as E. cbn [bind]. rewrite E. rootR.
      assert (0 <= wdot (flat_w q (SProd w (PFin 2) (c0 :: cs0)) (ENode xs)) (flat (ENode xs)) (flat (ENode xs)))
        by (apply wdot_self_nonneg, Forall_pos_nonneg; assumption).
      rewrite Rroot_2_sqrt by assumption. split; [reflexivity | apply sqrt_pos].
    + assert (Hc : collect1 (sp_norm q) cs xs = Ok (map2v (sp_norm_v q) cs xs)
                   /\ length cs = length xs).
      { clear Hne Hw Eb. revert xs Hrest.
        induction IH as [|c cs Hc _ IHcs]; intros [|x xs] Hall; cbn in Hall; try tauto; try (split; reflexivity).
        destruct Hall as [Hx Hall]. destruct (Hc x Hx) as [E1 _]. destruct (IHcs xs Hall) as [E2 L2].
        cbn [collect1 map2v]. fold (collect1 (sp_norm q)). fold (map2v (sp_norm_v q)).
        rewrite E1. cbn [bind]. rewrite E2. cbn [bind]. split; [reflexivity | cbn; lia]. }
      destruct Hc as [Hc Hl]. rewrite Hc. cbn [bind].
      assert (Hlen : length (map2v (sp_norm_v q) cs xs) = length cs) by (apply map2v_length; assumption).
      split.
      * apply ps_norm_comb_value; [assumption | rewrite Hlen; assumption |].
        destruct cs; [congruence|]. destruct xs; [cbn in Hl; lia|]. cbn. congruence.
      * apply comb_v_nonneg. rewrite Hlen. assumption.
Qed.

(* shape transfer *)
Lemma normable_shape q (s : @space R) : forall x y, normable q s x -> same_shape x y -> normable q s y.
Proof.
  induction s as [lf|w p cs IH] using space_ind'; intros [a|xs] [b|ys] Hn Hsh;
    cbn [normable same_shape] in *; try tauto.
  - destruct Hn as [Hok Hne]. rewrite <- Hsh. split; [assumption|]. destruct a; [congruence|]. destruct b; [cbn in Hsh; lia | congruence].
  - destruct Hn as (Hp & Hne & Hw & Hrest). repeat split; try assumption.
    destruct (is2 p && q_ps2_via_inner q).
    + apply (hshape_shape (SProd w p cs) (ENode xs) (ENode ys)); assumption.
    + clear Hne Hw. revert xs ys Hrest Hsh.
      induction IH as [|c cs Hc _ IHcs]; intros [|x xs] [|y ys] Hall Hsh; cbn in *; try tauto.
      destruct Hall, Hsh. split; [eapply Hc; eassumption | eapply IHcs; eassumption].
Qed.

Lemma wdot_vscal_both k (W f : Rvec) : wdot W (vscal k f) (vscal k f) = (k * k) * wdot W f f.
Proof. rewrite wdot_vscal_l, wdot_comm, wdot_vscal_l. ring. Qed.

Theorem sp_norm_homog q (s : @space R) k : forall x, normable q s x ->
  sp_norm_v q s (escal k x) = Rabs k * sp_norm_v q s x.
Proof.
  induction s as [lf|w p cs IH] using space_ind'; intros [a|xs] Hn; cbn [normable] in Hn; try tauto.
  - cbn [escal sp_norm_v]. apply leaf_norm_homog. tauto.
  - destruct Hn as (Hp & Hne & Hw & Hrest).
    change (escal k (ENode xs)) with (ENode (map (escal k) xs)).
    cbn [sp_norm_v]. destruct (is2 p && q_ps2_via_inner q) eqn:Eb.
    + change (ENode (map (escal k) xs)) with (escal k (ENode xs)).
      destruct (flat_escal k (ENode xs)) as [Ef Es].
      rewrite Ef, <- (flat_w_shape q (SProd w p cs) (ENode xs) (escal k (ENode xs)) Es).
      rewrite wdot_vscal_both.
      destruct (sp_inner_flat q (SProd w p cs) (ENode xs) (ENode xs) Hrest (same_shape_refl _)) as (_ & _ & P).
      rewrite sqrt_mult by (try nra; apply wdot_self_nonneg, Forall_pos_nonneg; assumption).
      replace (k * k) with (Rsqr k) by reflexivity. rewrite sqrt_Rsqr_abs. reflexivity.
    + assert (Hm : map2v (sp_norm_v q) cs (map (escal k) xs) = vscal (Rabs k) (map2v (sp_norm_v q) cs xs)
                   /\ length cs = length xs).
      { clear Hne Hw Eb. revert xs Hrest.
        induction IH as [|c cs Hc _ IHcs]; intros [|x xs] Hall; cbn in Hall; try tauto; try (split; reflexivity).
        destruct Hall as [Hx Hall]. destruct (IHcs xs Hall) as [E2 L2].
        cbn [map map2v]. fold (map2v (sp_norm_v q)). rewrite (Hc x Hx), E2. split; [reflexivity | cbn; lia]. }
      destruct Hm as [Hm Hl]. rewrite Hm. apply comb_v_homog; [assumption|].
      rewrite map2v_length by assumption. assumption.
Qed.

Theorem sp_norm_triangle q (s : @space R) : forall x y, normable q s x -> same_shape x y ->
  sp_norm_v q s (eadd x y) <= sp_norm_v q s x + sp_norm_v q s y.
Proof.
  induction s as [lf|w p cs IH] using space_ind'; intros [a|xs] [b|ys] Hn Hsh;
    cbn [normable same_shape] in Hn, Hsh; try tauto.
  - cbn [eadd sp_norm_v]. apply leaf_norm_triangle; [tauto | lia].
  - pose proof Hn as (Hp & Hne & Hw & Hrest).
    cbn [eadd]. cbn [sp_norm_v]. destruct (is2 p && q_ps2_via_inner q) eqn:Eb.
    + change (ENode (zip_with eadd xs ys)) with (eadd (ENode xs) (ENode ys)).
      assert (Hsh' : same_shape (ENode xs) (ENode ys)) by exact Hsh.
      destruct (flat_eadd (ENode xs) (ENode ys) Hsh') as [Ef Es].
      rewrite <- (flat_w_shape q (SProd w p cs) (ENode xs) _ Es).
      rewrite <- (flat_w_shape q (SProd w p cs) (ENode xs) (ENode ys) Hsh').
      apply (tree_norm_triangle q (SProd w p cs) (ENode xs) Hrest); [apply same_shape_refl | exact Hsh'].
    + assert (Hm : Forall2 (fun u v => 0 <= u <= v) (map2v (sp_norm_v q) cs (zip_with eadd xs ys))
                     (vadd (map2v (sp_norm_v q) cs xs) (map2v (sp_norm_v q) cs ys))
                   /\ length cs = length xs /\ length cs = length ys).
      { clear Hne Hw Eb Hn. revert xs ys Hrest Hsh.
        induction IH as [|c cs Hc _ IHcs]; intros [|x xs] [|y ys] Hall Hsh; cbn in Hall, Hsh; try tauto;
          try (split; [constructor | split; reflexivity]).
        destruct Hall as [Hx Hall], Hsh as [Hxy Hsh]. destruct (IHcs xs ys Hall Hsh) as (F & L1 & L2).
        cbn [zip_with map2v]. fold (@zip_with (@elem R) eadd). fold (map2v (sp_norm_v q)).
        unfold vadd in *. cbn [vmap2]. split; [|split; cbn; lia].
        constructor; [|exact F]. split.
        - destruct (flat_eadd x y Hxy) as [_ Es]. apply (sp_norm_value q c). eapply normable_shape; eassumption.
        - numR. apply Hc; assumption. }
      destruct Hm as (Hm & L1 & L2).
      apply comb_v_sub_additive; try assumption.
      * rewrite map2v_length by assumption. assumption.
      * rewrite !map2v_length by assumption. reflexivity.
      * apply all2_length in Hsh. rewrite (map2v_length _ cs xs) by assumption.
        rewrite map2v_length; [reflexivity|]. rewrite zip_with_length by lia. assumption.
Qed.

(* ---------- dist ---------- *)
Lemma ps_dist_comb_eq (c : R) (p : expo) (v : Rvec) : 0 < c ->
  ps_dist_comb_const c p v = ps_norm_comb (PWConst c) p v.
Proof.
  intros Hc. unfold ps_dist_comb_const, ps_norm_comb.
  destruct (lpnorm p v) as [n| | | | |]; cbn [bind]; try reflexivity.
  destruct p as [|[|[|k]]]; cbn [is1inf]; try reflexivity.
  rootR. rewrite Rroot_1 by lra. reflexivity.
Qed.

(* dist(x, y) = norm(x - y): every leaf, every array-weighted product space, and every
   constant-weighted product space except the exponent-2 node that goes through inner *)
Theorem sp_dist_value q (s : @space R) (x y : @elem R) : normable q s x -> same_shape x y ->
  (match s with SProd (PWConst _) p _ => is2 p && q_ps2_via_inner q = false | _ => True end) ->
  sp_dist q s x y = Ok (sp_norm_v q s (esub x y)).
Proof.
  intros Hn Hsh Hbr.
  destruct (flat_esub x y Hsh) as [_ Hsd].
  pose proof (normable_shape q s x (esub x y) Hn Hsd) as Hnd.
  destruct s as [lf|w p cs]; destruct x as [a|xs]; destruct y as [b|ys]; cbn [normable same_shape] in Hn, Hsh; try tauto.
  - cbn [sp_dist esub sp_norm_v]. apply leaf_dist_value; [tauto | lia].
  - destruct w as [c|arr].
    + cbn [sp_dist]. cbn [esub] in *.
      destruct Hn as (Hp & Hne & Hw & _). cbn [pw_ok] in Hw.
      assert (Enil : is_nil cs = false) by (destruct cs; [congruence | reflexivity]). rewrite Enil. cbn [andb].
      destruct (sp_norm_value q _ _ Hnd) as [E _]. cbn [sp_norm] in E. rewrite Enil in E. cbn [andb] in E. rewrite Hbr in E.
      rewrite <- E. destruct (collect1 (sp_norm q) cs (zip_with esub xs ys)); cbn [bind]; try reflexivity.
      apply ps_dist_comb_eq. assumption.
    + cbn [sp_dist]. apply (sp_norm_value q _ _ Hnd).
Qed.
