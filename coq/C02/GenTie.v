(* C02/GenTie.v -- the hand-written model (C02/Model.v) USES exactly the dispatch that
   translate/weighting.py regenerates from the current source (Gen/Weighting.v): a change of a
   branch condition, a factor or an operand in the weighting classes changes the generated tables
   and breaks one of these proofs.  All statements are polymorphic in the carrier, so they hold
   for the executed instance (Q) and for the proved one (R). *)
From Coq Require Import ZArith QArith List Bool.
From Verif Require Import Base.Num Base.Vec C02.Model C02.GenSyntax C02.GenSem Gen.Weighting.
Import ListNotations.
Local Open Scope num_scope.

(* the two variant switches of the model are read off the generated code *)
Definition gen_quirks : quirks :=
  {| q_unweighted_skips := existsb is_unw gen_unif_weighted; q_ps2_via_inner := gen_ps2_via_inner |}.

(* _inner_default: in EVERY size regime real data get the plain sum (the model's [dot]) and complex
   data the sum with the SECOND argument conjugated (the model's [c_inner_v]) *)
Lemma tie_inner_default : forall large : bool,
  ksel true large gen_inner_default = KBilinear /\ ksel false large gen_inner_default = KConjSecond.
Proof. intros [|]; split; reflexivity. Qed.

Section Tie.
Context {T : Type} `{Num T} `{Root T}.

(* NumpyTensorSpaceConstWeighting.norm / .dist / .inner, NumpyTensorSpaceArrayWeighting.inner *)
Lemma tie_tconst_norm (c : T) p x : t_norm_v (WConst c) p x = eval_tab c [] p x [] [] gen_tconst_norm.
Proof. destruct p as [|[|[|[|k]]]]; reflexivity. Qed.
Lemma tie_tconst_dist (c : T) p x y : t_dist_v (WConst c) p x y = eval_tab c [] p x y [] gen_tconst_dist.
Proof. destruct p as [|[|[|[|k]]]]; reflexivity. Qed.
Lemma tie_tconst_inner (c : T) p x y : t_inner_v (WConst c) x y = eval c [] p x y [] gen_tconst_inner.
Proof. reflexivity. Qed.
Lemma tie_tarr_inner (a : list T) p x y : t_inner_v (WArr a) x y = eval nzero a p x y [] gen_tarr_inner.
Proof. reflexivity. Qed.

(* ProductSpaceConstWeighting.dist / .norm (component-norm branch), ProductSpaceArrayWeighting.norm *)
Lemma lpnorm_ok_value (p : expo) (v : list T) n : lpnorm p v = Ok n -> n = lpnorm_v p v.
Proof. destruct p, v; cbn; intros E; try discriminate; injection E as <-; reflexivity. Qed.
Lemma tie_pconst_dist (c : T) p dn n : lpnorm p dn = Ok n ->
  ps_dist_comb_const c p dn = Ok (eval_tab c [] p [] [] dn gen_pconst_dist).
Proof.
  intros E. unfold ps_dist_comb_const. rewrite E. cbn [bind]. apply lpnorm_ok_value in E. subst n.
  destruct p as [|[|[|[|k]]]]; reflexivity.
Qed.
Lemma tie_pconst_norm (c : T) p norms n : lpnorm p norms = Ok n ->
  ps_norm_comb (PWConst c) p norms = Ok (eval_tab c [] p [] [] norms gen_pconst_norm).
Proof.
  intros E. cbn [ps_norm_comb]. rewrite E. cbn [bind]. apply lpnorm_ok_value in E. subst n.
  destruct p as [|[|[|[|k]]]]; reflexivity.
Qed.
Lemma tie_parr_norm (a : list T) p norms :
  ps_norm_comb (PWArr a) p norms = lpnorm p (eval_scale_tab a p norms gen_parr_norm_scaling).
Proof. destruct p as [|[|[|[|k]]]]; reflexivity. Qed.

(* DiscretizedSpace.is_uniformly_weighted, for whichever disjunction the source contains today *)
Lemma tie_unif_weighted (axes : list (@axis T)) (w : @tweight T) p :
  unif_weighted gen_quirks axes w p = existsb (eval_uatom axes w p) gen_unif_weighted.
Proof.
  unfold unif_weighted, gen_quirks. cbn.
  destruct (all_close1 axes), (isinf p), (is_weighted w); reflexivity.
Qed.

(* _scaling_func_list: factor of one boundary slice, as used by ax_wvec *)
Lemma tie_scaling (r : T -> T) (f : T) : (if close1 f then none_ else r f) = eval_side gen_scaling r f.
Proof. reflexivity. Qed.

(* uniform_discr_frompartition: default weighting *)
Lemma tie_default_weighting (axes : list (@axis T)) p :
  d_weight axes LDefault p = WConst (eval_default gen_default_weighting axes p).
Proof. destruct p as [|k], axes as [|ax axes]; reflexivity. Qed.
End Tie.

Lemma model_follows_generated : forall (T : Type) (HN : Num T) (HR : Root T),
  (forall (c : T) p x, t_norm_v (WConst c) p x = eval_tab c [] p x [] [] gen_tconst_norm) /\
  (forall (c : T) p x y, t_dist_v (WConst c) p x y = eval_tab c [] p x y [] gen_tconst_dist) /\
  (forall (c : T) p x y, t_inner_v (WConst c) x y = eval c [] p x y [] gen_tconst_inner) /\
  (forall (a : list T) p x y, t_inner_v (WArr a) x y = eval nzero a p x y [] gen_tarr_inner) /\
  (forall (c : T) p dn n, lpnorm p dn = Ok n ->
     ps_dist_comb_const c p dn = Ok (eval_tab c [] p [] [] dn gen_pconst_dist)) /\
  (forall (c : T) p norms n, lpnorm p norms = Ok n ->
     ps_norm_comb (PWConst c) p norms = Ok (eval_tab c [] p [] [] norms gen_pconst_norm)) /\
  (forall (a : list T) p norms,
     ps_norm_comb (PWArr a) p norms = lpnorm p (eval_scale_tab a p norms gen_parr_norm_scaling)) /\
  (forall (axes : list (@axis T)) (w : @tweight T) p,
     unif_weighted gen_quirks axes w p = existsb (eval_uatom axes w p) gen_unif_weighted) /\
  (forall (r : T -> T) (f : T), (if close1 f then none_ else r f) = eval_side gen_scaling r f) /\
  (forall (axes : list (@axis T)) p,
     d_weight axes LDefault p = WConst (eval_default gen_default_weighting axes p)).
Proof.
  intros T HN HR.
  split; [intros; apply tie_tconst_norm|]. split; [intros; apply tie_tconst_dist|].
  split; [intros; apply tie_tconst_inner|]. split; [intros; apply tie_tarr_inner|].
  split; [intros; eapply tie_pconst_dist; eassumption|]. split; [intros; eapply tie_pconst_norm; eassumption|].
  split; [intros; apply tie_parr_norm|]. split; [intros; apply tie_unif_weighted|].
  split; [intros; apply tie_scaling | intros; apply tie_default_weighting].
Qed.
