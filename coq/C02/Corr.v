(* C02/Corr.v -- correspondence checkers (executed at Q by the shards). *)
From Coq Require Import ZArith QArith Qabs List Bool.
From Verif Require Import Base.Num Base.Vec Base.Check C02.Model.
Import ListNotations.

Inductive impl_out := IVal (v : Q) | INotImpl | IValueErr | IBlasErr | IIndexErr | IOtherErr.
Inductive opk := OInner | ONorm | ODist.

(* closed-form vectors for the large-size regimes: x[i] = ((a*i + b) mod m) - off *)
Fixpoint gen_from (n : nat) (i : Z) (a b m off : Z) : list Q :=
  match n with
  | O => []
  | S k => inject_Z (((a * i + b) mod m) - off)%Z :: gen_from k (i + 1)%Z a b m off
  end.
Definition gen_vec (n : Z) (a b m off : Z) : list Q := gen_from (Z.to_nat n) 0 a b m off.

Definition rtol : Q := 1 # 10000000000.        (* 1e-10 *)
Definition atol : Q := 1 # 1000000000000.      (* 1e-12 *)

Definition agree_tol (rt : Q) (m : outcome Q) (i : impl_out) : bool :=
  match m, i with
  | Ok v, IVal v' => Qclose atol rt v' v
  | NotImpl, INotImpl => true
  | ValueErr, IValueErr => true
  | BlasErr, IBlasErr => true
  | IndexErr, IIndexErr => true
  | _, _ => false
  end.
Definition agree := agree_tol rtol.

(* ---- real spaces: tensor / discretized leaves and nested product spaces ---- *)
Record sp_case := { k_q : quirks; k_s : @space Q; k_x : @elem Q; k_y : @elem Q;
                    k_op : opk; k_out : impl_out; k_rtol : Q }.
Definition sp_model (k : sp_case) : outcome Q :=
  match k_op k with
  | OInner => sp_inner (k_q k) (k_s k) (k_x k) (k_y k)
  | ONorm => sp_norm (k_q k) (k_s k) (k_x k)
  | ODist => sp_dist (k_q k) (k_s k) (k_x k) (k_y k)
  end.
Definition check_sp (k : sp_case) : bool := agree_tol (k_rtol k) (sp_model k) (k_out k).

(* ---- complex leaves: data as (re, im) ---- *)
Record c_case := { c_q : quirks; c_lf : @leaf Q; c_xr : list Q; c_xi : list Q; c_yr : list Q; c_yi : list Q;
                   c_op : opk; c_out : impl_out; c_out_im : Q }.
Definition cmod (xr xi : list Q) : list Q := map (nroot 2) (c_abs2 xr xi).
(* the weighting / boundary data of a leaf *)
Definition leaf_parts (q : quirks) (lf : @leaf Q) : @tweight Q * expo * option (list (@axis Q)) :=
  match lf with
  | LTensor w p => (t_weight w, p, None)
  | LDiscr axes w p =>
      let tw := d_weight axes w p in
      (tw, p, if unif_weighted q axes tw p then None else Some axes)
  end.
Definition check_c (k : c_case) : bool :=
  let '(tw, p, ax) := leaf_parts (c_q k) (c_lf k) in
  let sc (r : Q -> Q) (v : list Q) := match ax with None => v | Some axes => scale_bdry r axes v end in
  match c_op k with
  | OInner =>
      if is2 p then
        let '(re, im) := c_inner_v tw (sc (fun f => f) (c_xr k)) (sc (fun f => f) (c_xi k)) (c_yr k) (c_yi k) in
        match c_out k with IVal v => Qclose atol rtol v re && Qclose atol rtol (c_out_im k) im | _ => false end
      else match c_out k with INotImpl => true | _ => false end
  | ONorm =>
      let m := cmod (sc (frac_root p) (c_xr k)) (sc (frac_root p) (c_xi k)) in
      agree (t_norm tw p m) (c_out k)
  | ODist =>
      let dr := vsub (sc (frac_root p) (c_xr k)) (sc (frac_root p) (c_yr k)) in
      let di := vsub (sc (frac_root p) (c_xi k)) (sc (frac_root p) (c_yi k)) in
      agree (t_norm tw p (cmod dr di)) (c_out k)
  end.

(* ---- complex spaces of any nesting: inner product on (re, im) element trees ---- *)
Record ct_case := { t_q : quirks; t_s : @space Q; t_xr : @elem Q; t_xi : @elem Q; t_yr : @elem Q; t_yi : @elem Q;
                    t_op : opk; t_out : impl_out; t_out_im : Q }.
Definition check_ct (k : ct_case) : bool :=
  match t_op k with
  | OInner =>
      match csp_inner (t_q k) (t_s k) (t_xr k) (t_xi k) (t_yr k) (t_yi k), t_out k with
      | Ok (re, im), IVal v => Qclose atol rtol v re && Qclose atol rtol (t_out_im k) im
      | NotImpl, INotImpl => true
      | ValueErr, IValueErr => true
      | IndexErr, IIndexErr => true
      | _, _ => false
      end
  | ONorm => agree (csp_norm (t_q k) (t_s k) (t_xr k) (t_xi k)) (t_out k)
  | ODist => agree (csp_dist (t_q k) (t_s k) (t_xr k) (t_xi k) (t_yr k) (t_yi k)) (t_out k)
  end.

(* ---- partitions: grid ends, stride/cell side, boundary fractions, cell volume ---- *)
Record p_case := { p_n : nat; p_a : Q; p_b : Q; p_bl : bool; p_br : bool;
                   p_g0 : Q; p_g1 : Q; p_side : Q; p_fl : Q; p_fr : Q }.
Definition check_p (k : p_case) : bool :=
  let ax := mk_axis (p_n k) (p_a k) (p_b k) (p_bl k) (p_br k) in
  let '(fl, fr) := ax_fracs ax in
  Qclose atol rtol (p_g0 k) (ax_g0 ax) && Qclose atol rtol (p_g1 k) (ax_g1 ax)
  && Qclose atol rtol (p_side k) (ax_side ax)
  && Qclose atol rtol (p_fl k) fl && Qclose atol rtol (p_fr k) fr.

(* N-d: cell volume, extent volume and the boundary weight array (exponent-1 scaling of ones) *)
Record v_case := { v_axes : list (@axis Q); v_vol : Q; v_ext : Q; v_w : list Q }.
Definition check_v (k : v_case) : bool :=
  Qclose atol rtol (v_vol k) (cell_volume (v_axes k))
  && Qclose atol rtol (v_ext k) (extent_volume (v_axes k))
  && Qsclose atol rtol (v_w k) (bdry_w (fun f => f) (v_axes k)).
