(* C02/Model.v -- executable model of inner / norm / dist of
     odl/space/npy_tensors.py   (NumpyTensorSpaceConstWeighting / ArrayWeighting,
                                 _inner_default, _norm_default, _pnorm_default, _pnorm_diagweight)
     odl/space/weighting.py     (Weighting.norm / dist defaults)
     odl/space/pspace.py        (ProductSpaceConstWeighting / ArrayWeighting, nested product spaces)
     odl/discr/discr_space.py   (DiscretizedSpace._inner/_norm/_dist, is_uniformly_weighted,
                                 _scaling_func_list, uniform_discr_frompartition default weighting)
     odl/discr/partition.py     (boundary_cell_fractions, cell_sides, cell_volume)
     odl/discr/grid.py          (uniform_grid_fromintv: the four nodes_on_bdry formulas)
     odl/util/numerics.py       (apply_on_boundary(only_once=False) as an outer product of per-axis vectors)
   Definitions only.  Polymorphic over the carrier [Num T] plus a p-th root
   operation [Root T]; executed at Q (roots: exact on perfect powers, otherwise
   floor-approximations to 2^-64), proved at R (C02/Proofs.v). Arrays are flat
   lists in C order. *)
From Coq Require Import ZArith QArith List Bool.
From Verif Require Import Base.Num Base.Vec.
Import ListNotations.
Local Open Scope num_scope.

Class Root (T : Type) := { nroot : nat -> T -> T }.   (* nroot p x = x^(1/p), x >= 0, p >= 1 *)

(* result of a call: a value or the class of the exception raised *)
Inductive outcome (A : Type) :=
  Ok (v : A) | NotImpl | ValueErr | BlasErr | IndexErr | ShapeErr.
Arguments Ok {A} v.
Arguments NotImpl {A}.
Arguments ValueErr {A}.
Arguments BlasErr {A}.
Arguments IndexErr {A}.
Arguments ShapeErr {A}.

Definition bind {A B} (o : outcome A) (f : A -> outcome B) : outcome B :=
  match o with
  | Ok v => f v
  | NotImpl => NotImpl | ValueErr => ValueErr | BlasErr => BlasErr
  | IndexErr => IndexErr | ShapeErr => ShapeErr
  end.

(* exponent of a space: inf or a natural number p >= 1 (p = 2 is the Hilbert case) *)
Inductive expo := PInf | PFin (p : nat).
Definition is2 (p : expo) : bool := match p with PFin 2 => true | _ => false end.
Definition is1inf (p : expo) : bool := match p with PFin 1 | PInf => true | _ => false end.
Definition isinf (p : expo) : bool := match p with PInf => true | _ => false end.

(* behaviours recorded as OPEN findings: [true] = what the code does today.
   The harness measures each flag on the finding's own replay input.
   (Repaired and therefore no longer switches: size-0 / 0-d tensors and empty product spaces
   now have norm 0 -- fix commits 9526a83, 6e7d07d, 3007c52.) *)
Record quirks := {
  q_unweighted_skips : bool;  (* DiscretizedSpace: tspace weighting == const 1.0 => boundary fractions skipped *)
  q_ps2_via_inner : bool      (* product space, p = 2: norm goes through the components' inner *)
}.

Section M.
Context {T : Type} `{Num T} `{Root T}.

Definition of_nat (n : nat) : T := of_Z (Z.of_nat n).

Fixpoint npow (x : T) (n : nat) : T :=
  match n with O => none_ | S k => x * npow x k end.
Definition psum (p : nat) (x : list T) : T := sumf (map (fun a => npow (nabs a) p) x).
(* np.max of a non-empty array *)
Definition vmaxl (x : list T) : T :=
  match x with [] => nzero | a :: r => fold_left nmax r a end.

(* np.linalg.norm(v, ord=p) for a 1-d array *)
Definition lpnorm_v (p : expo) (v : list T) : T :=
  match p with
  | PInf => vmaxl (map nabs v)
  | PFin 1 => sum1 v
  | PFin 2 => nroot 2 (dot v v)
  | PFin q => nroot q (psum q v)
  end.
Definition lpnorm (p : expo) (v : list T) : outcome T :=
  match p, v with
  | PInf, [] => ValueErr
  | _, _ => Ok (lpnorm_v p v)
  end.

(* ------------------------------------------------------------------ *)
(* tensor spaces: NumpyTensorSpaceConstWeighting / ArrayWeighting      *)
Inductive tweight := WConst (c : T) | WArr (a : list T).

(* _inner_default(x1, x2) = dot ;  array weighting: _inner_default(x1 * w, x2) *)
Definition t_inner_v (w : tweight) (x y : list T) : T :=
  match w with
  | WConst c => c * dot x y
  | WArr a => dot (vmul x a) y
  end.
Definition t_inner (w : tweight) (p : expo) (x y : list T) : outcome T :=
  if is2 p then Ok (t_inner_v w x y) else NotImpl.

(* ConstWeighting.norm:  sqrt(c) * nrm2(x) | c * max|x| | c**(1/p) * norm(x, p)
   ArrayWeighting.norm:  sqrt(max(inner(x,x), 0)) | _pnorm_diagweight *)
Definition t_norm_v (w : tweight) (p : expo) (x : list T) : T :=
  match w with
  | WConst c =>
      match p with
      | PFin 2 => nroot 2 c * nroot 2 (dot x x)
      | PInf => c * vmaxl (map nabs x)
      | PFin q => nroot q c * lpnorm_v p x
      end
  | WArr a =>
      match p with
      | PFin 2 => let s := dot (vmul x a) x in nroot 2 (if s <? nzero then nzero else s)
      | PInf => vmaxl (vmul (map nabs x) a)
      | PFin q => nroot q (sumf (vmul (map (fun t => npow (nabs t) q) x) a))
      end
  end.
(* total: an empty array has norm 0 (early return in _norm_default / _pnorm_*; all formulas give 0 on []) *)
Definition t_norm (w : tweight) (p : expo) (x : list T) : outcome T := Ok (t_norm_v w p x).

(* ConstWeighting.dist repeats the three formulas on x1 - x2; ArrayWeighting inherits
   Weighting.dist = norm(x1 - x2) *)
Definition t_dist_v (w : tweight) (p : expo) (x y : list T) : T :=
  match w with
  | WConst c =>
      match p with
      | PFin 2 => nroot 2 c * nroot 2 (dot (vsub x y) (vsub x y))
      | PInf => c * vmaxl (map nabs (vsub x y))
      | PFin q => nroot q c * lpnorm_v p (vsub x y)
      end
  | WArr a => t_norm_v w p (vsub x y)
  end.
Definition t_dist (w : tweight) (p : expo) (x y : list T) : outcome T := Ok (t_dist_v w p x y).

(* ------------------------------------------------------------------ *)
(* uniform partitions: grid.uniform_grid_fromintv, partition.*          *)
Record axis := { ax_n : nat; ax_a : T; ax_b : T; ax_g0 : T; ax_g1 : T }.

(* first / last grid point for n points on [a, b] with nodes_on_bdry = (bl, br) *)
Definition grid_ends (n : nat) (a b : T) (bl br : bool) : T * T :=
  let L := b - a in
  match bl, br with
  | true, true => (a, b)
  | true, false => (a, b - L / (of_Z 2 * of_nat n - of_Z 1))
  | false, true => (a + L / (of_Z 2 * of_nat n - of_Z 1), b)
  | false, false => (a + L / (of_Z 2 * of_nat n), b - L / (of_Z 2 * of_nat n))
  end.
Definition mk_axis (n : nat) (a b : T) (bl br : bool) : axis :=
  let '(g0, g1) := grid_ends n a b bl br in
  {| ax_n := n; ax_a := a; ax_b := b; ax_g0 := g0; ax_g1 := (if (n =? 1)%nat then g0 else g1) |}.

(* RectGrid.stride (0 on one-point axes), RectPartition.cell_sides, boundary_cell_fractions *)
Definition ax_stride (ax : axis) : T :=
  if (1 <? ax_n ax)%nat then (ax_g1 ax - ax_g0 ax) / of_nat (ax_n ax - 1) else nzero.
Definition ax_side (ax : axis) : T :=
  let s := ax_stride ax in if s =? nzero then ax_b ax - ax_a ax else s.
Definition ax_fracs (ax : axis) : T * T :=
  if (ax_n ax =? 1)%nat then (none_, none_)
  else (nhalf + (ax_g0 ax - ax_a ax) / ax_stride ax, nhalf + (ax_b ax - ax_g1 ax) / ax_stride ax).
Definition cell_volume (axes : list axis) : T :=
  fold_right (fun ax acc => ax_side ax * acc) none_ axes.
Definition extent_volume (axes : list axis) : T :=
  fold_right (fun ax acc => (ax_b ax - ax_a ax) * acc) none_ axes.

(* np.isclose(f, 1.0): |f - 1| <= 1e-8 + 1e-5 *)
Definition close1 (f : T) : bool := nabs (f - none_) <=? of_Q (1001 # 100000000).
Definition all_close1 (axes : list axis) : bool :=
  forallb (fun ax => let '(fl, fr) := ax_fracs ax in close1 fl && close1 fr) axes.

(* _scaling_func_list + apply_on_boundary(only_once=False): along each axis the first
   slice is multiplied by r(frac_l) and the last by r(frac_r) unless the fraction is
   close to 1 (func None); r = (fun f => f ** (1/exponent)).  Net effect on a C-order
   flat array: entry-wise product with the outer product of the per-axis vectors. *)
Definition ax_wvec (r : T -> T) (ax : axis) : list T :=
  let '(fl, fr) := ax_fracs ax in
  let sl := if close1 fl then none_ else r fl in
  let sr := if close1 fr then none_ else r fr in
  match ax_n ax with
  | O => []
  | S O => [sl * sr]
  | S (S k) => sl :: repeat none_ k ++ [sr]
  end.
Definition kron (u v : list T) : list T := flat_map (fun a => map (nmul a) v) u.
Definition bdry_w (r : T -> T) (axes : list axis) : list T :=
  fold_right (fun ax acc => kron (ax_wvec r ax) acc) [none_] axes.
Definition scale_bdry (r : T -> T) (axes : list axis) (x : list T) : list T :=
  vmul x (bdry_w r axes).
Definition frac_root (p : expo) (f : T) : T :=
  match p with PInf => none_ | PFin q => nroot q f end.

(* ------------------------------------------------------------------ *)
(* leaves of a space tree: tensor space or uniformly discretized space *)
Inductive lweight := LDefault | LConst (c : T) | LArr (a : list T).
Inductive leaf :=
| LTensor (w : lweight) (p : expo)
| LDiscr (axes : list axis) (w : lweight) (p : expo).

Definition t_weight (w : lweight) : tweight :=
  match w with LDefault => WConst none_ | LConst c => WConst c | LArr a => WArr a end.
(* uniform_discr_frompartition: weighting None -> cell volume (1.0 for exponent inf / 0-d) *)
Definition d_weight (axes : list axis) (w : lweight) (p : expo) : tweight :=
  match w with
  | LDefault => match p, axes with
                | PInf, _ | _, [] => WConst none_
                | _, _ => WConst (cell_volume axes)
                end
  | LConst c => WConst c
  | LArr a => WArr a
  end.
Definition is_const (w : tweight) : bool := match w with WConst _ => true | WArr _ => false end.
Definition is_weighted (w : tweight) : bool :=
  match w with WConst c => negb (c =? none_) | WArr _ => true end.
(* DiscretizedSpace.is_uniformly_weighted *)
Definition unif_weighted (q : quirks) (axes : list axis) (w : tweight) (p : expo) : bool :=
  all_close1 axes || isinf p || (q_unweighted_skips q && negb (is_weighted w)).

Definition leaf_inner (q : quirks) (lf : leaf) (x y : list T) : outcome T :=
  match lf with
  | LTensor w p => t_inner (t_weight w) p x y
  | LDiscr axes w p =>
      let tw := d_weight axes w p in
      if unif_weighted q axes tw p then t_inner tw p x y
      else t_inner tw p (scale_bdry (fun f => f) axes x) y
  end.
Definition leaf_norm (q : quirks) (lf : leaf) (x : list T) : outcome T :=
  match lf with
  | LTensor w p => t_norm (t_weight w) p x
  | LDiscr axes w p =>
      let tw := d_weight axes w p in
      if unif_weighted q axes tw p then t_norm tw p x
      else t_norm tw p (scale_bdry (frac_root p) axes x)
  end.
Definition leaf_dist (q : quirks) (lf : leaf) (x y : list T) : outcome T :=
  match lf with
  | LTensor w p => t_dist (t_weight w) p x y
  | LDiscr axes w p =>
      let tw := d_weight axes w p in
      if unif_weighted q axes tw p then t_dist tw p x y
      else t_dist tw p (scale_bdry (frac_root p) axes x) (scale_bdry (frac_root p) axes y)
  end.

(* ------------------------------------------------------------------ *)
(* nested product spaces                                               *)
Inductive pweight := PWConst (c : T) | PWArr (a : list T).
Inductive space := SLeaf (lf : leaf) | SProd (w : pweight) (p : expo) (cs : list space).
Inductive elem := ELeaf (x : list T) | ENode (xs : list elem).

Definition zip_with {A : Type} (f : A -> A -> A) :=
  fix go (xs ys : list A) : list A :=
    match xs, ys with
    | a :: xs', b :: ys' => f a b :: go xs' ys'
    | _, _ => []
    end.
Fixpoint esub (x y : elem) {struct x} : elem :=
  match x, y with
  | ELeaf a, ELeaf b => ELeaf (vsub a b)
  | ENode xs, ENode ys => ENode (zip_with esub xs ys)
  | _, _ => ENode []
  end.
Fixpoint escal (a : T) (x : elem) : elem :=
  match x with
  | ELeaf v => ELeaf (vscal a v)
  | ENode xs => ENode (map (escal a) xs)
  end.
Fixpoint eadd (x y : elem) {struct x} : elem :=
  match x, y with
  | ELeaf a, ELeaf b => ELeaf (vadd a b)
  | ENode xs, ENode ys => ENode (zip_with eadd xs ys)
  | _, _ => ENode []
  end.

(* collect f(c_i, x_i) over the components, first exception wins *)
Definition collect1 (f : space -> elem -> outcome T) :=
  fix go (cs : list space) (xs : list elem) : outcome (list T) :=
    match cs, xs with
    | [], [] => Ok []
    | c :: cs', a :: xs' => bind (f c a) (fun v => bind (go cs' xs') (fun vs => Ok (v :: vs)))
    | _, _ => ShapeErr
    end.
Definition collect2 (f : space -> elem -> elem -> outcome T) :=
  fix go (cs : list space) (xs ys : list elem) : outcome (list T) :=
    match cs, xs, ys with
    | [], [], [] => Ok []
    | c :: cs', a :: xs', b :: ys' =>
        bind (f c a b) (fun v => bind (go cs' xs' ys') (fun vs => Ok (v :: vs)))
    | _, _, _ => ShapeErr
    end.

(* ProductSpace{Const,Array}Weighting.inner : c * sum(inners) | dot(inners, w) *)
Definition ps_inner_comb (w : pweight) (inners : list T) : T :=
  match w with PWConst c => c * sumf inners | PWArr a => dot inners a end.

Fixpoint sp_inner (q : quirks) (s : space) (x y : elem) {struct s} : outcome T :=
  match s, x, y with
  | SLeaf lf, ELeaf a, ELeaf b => leaf_inner q lf a b
  | SProd w p cs, ENode xs, ENode ys =>
      if negb (is2 p) then NotImpl
      else bind (collect2 (sp_inner q) cs xs ys) (fun v => Ok (ps_inner_comb w v))
  | _, _, _ => ShapeErr
  end.

(* norms of the components combined:  p in {1, inf}: weights multiply the norms,
   otherwise their p-th roots do *)
Definition ps_norm_comb (w : pweight) (p : expo) (norms : list T) : outcome T :=
  match w with
  | PWConst c =>
      bind (lpnorm p norms) (fun n =>
        Ok (if is1inf p then c * n else match p with PFin k => nroot k c * n | PInf => c * n end))
  | PWArr a =>
      lpnorm p (if is1inf p then vmul norms a
                else match p with PFin k => vmul norms (map (nroot k) a) | PInf => vmul norms a end)
  end.

Definition is_nil {A : Type} (l : list A) : bool := match l with [] => true | _ => false end.

Fixpoint sp_norm (q : quirks) (s : space) (x : elem) {struct s} : outcome T :=
  match s, x with
  | SLeaf lf, ELeaf a => leaf_norm q lf a
  | SProd w p cs, ENode xs =>
      if is_nil cs then Ok nzero                  (* len(x) == 0: return 0.0 *)
      else if is2 p && q_ps2_via_inner q then
        bind (collect2 (sp_inner q) cs xs xs) (fun v => Ok (nroot 2 (ps_inner_comb w v)))
      else bind (collect1 (sp_norm q) cs xs) (ps_norm_comb w p)
  | _, _ => ShapeErr
  end.

(* ProductSpaceConstWeighting.dist: component norms of the differences, then
   c * max (p = inf) or c**(1/p) * p-norm (every finite p, also 1 and 2);
   ProductSpaceArrayWeighting inherits Weighting.dist = norm(x1 - x2). *)
Definition ps_dist_comb_const (c : T) (p : expo) (dn : list T) : outcome T :=
  bind (lpnorm p dn) (fun n =>
    Ok (match p with PInf => c * n | PFin k => nroot k c * n end)).

Definition sp_dist (q : quirks) (s : space) (x y : elem) : outcome T :=
  match s, x, y with
  | SLeaf lf, ELeaf a, ELeaf b => leaf_dist q lf a b
  | SProd (PWConst c) p cs, ENode xs, ENode ys =>
      if is_nil cs then Ok nzero else
      match esub x y with
      | ENode ds => bind (collect1 (sp_norm q) cs ds) (ps_dist_comb_const c p)
      | _ => ShapeErr
      end
  | SProd (PWArr a) p cs, ENode xs, ENode ys => sp_norm q s (esub x y)
  | _, _, _ => ShapeErr
  end.

(* ------------------------------------------------------------------ *)
(* complex tensors as (re, im) pairs of flat lists: _inner_default = vdot(x2, x1) *)
Definition c_inner_v (w : tweight) (xr xi yr yi : list T) : T * T :=
  (t_inner_v w xr yr + t_inner_v w xi yi, t_inner_v w xi yr - t_inner_v w xr yi).
(* |z|^2 summed: the real quantity the complex norms are built from *)
Definition c_abs2 (xr xi : list T) : list T := vadd (vmul xr xr) (vmul xi xi).

(* complex spaces of any nesting: an element is a pair (re, im) of element trees of one shape.
   Leaves: tensor / discretized (boundary scaling acts on re and im of the FIRST argument).
   Nodes: ProductSpace{Const,Array}Weighting.inner gathers x1i.inner(x2i) -- in this operand
   order -- and returns const * sum(inners) resp. dot(inners, w) with real weights. *)
Definition c_leaf_inner (q : quirks) (lf : leaf) (xr xi yr yi : list T) : outcome (T * T) :=
  match lf with
  | LTensor w p => if is2 p then Ok (c_inner_v (t_weight w) xr xi yr yi) else NotImpl
  | LDiscr axes w p =>
      let tw := d_weight axes w p in
      if negb (is2 p) then NotImpl
      else if unif_weighted q axes tw p then Ok (c_inner_v tw xr xi yr yi)
      else Ok (c_inner_v tw (scale_bdry (fun f => f) axes xr) (scale_bdry (fun f => f) axes xi) yr yi)
  end.
Definition collect4 (f : space -> elem -> elem -> elem -> elem -> outcome (T * T)) :=
  fix go (cs : list space) (xr xi yr yi : list elem) : outcome (list (T * T)) :=
    match cs, xr, xi, yr, yi with
    | [], [], [], [], [] => Ok []
    | c :: cs', a :: xr', b :: xi', u :: yr', v :: yi' =>
        bind (f c a b u v) (fun z => bind (go cs' xr' xi' yr' yi') (fun zs => Ok (z :: zs)))
    | _, _, _, _, _ => ShapeErr
    end.
Definition cps_inner_comb (w : pweight) (zs : list (T * T)) : T * T :=
  (ps_inner_comb w (map fst zs), ps_inner_comb w (map snd zs)).
Fixpoint csp_inner (q : quirks) (s : space) (xr xi yr yi : elem) {struct s} : outcome (T * T) :=
  match s, xr, xi, yr, yi with
  | SLeaf lf, ELeaf ar, ELeaf ai, ELeaf br, ELeaf bi => c_leaf_inner q lf ar ai br bi
  | SProd w p cs, ENode xrs, ENode xis, ENode yrs, ENode yis =>
      if negb (is2 p) then NotImpl
      else bind (collect4 (csp_inner q) cs xrs xis yrs yis) (fun zs => Ok (cps_inner_comb w zs))
  | _, _, _, _, _ => ShapeErr
  end.

(* norm and dist of complex elements: |z| entry-wise on the leaves (np.abs / nrm2 of complex data),
   then the real code paths: |r z| = r |z| for the non-negative boundary factors, <x,x> = sum w |z|^2 *)
Fixpoint emod (xr xi : elem) {struct xr} : elem :=
  match xr, xi with
  | ELeaf a, ELeaf b => ELeaf (map (nroot 2) (c_abs2 a b))
  | ENode xs, ENode ys => ENode (zip_with emod xs ys)
  | _, _ => ENode []
  end.
Definition csp_norm (q : quirks) (s : space) (xr xi : elem) : outcome T := sp_norm q s (emod xr xi).
Definition csp_dist (q : quirks) (s : space) (xr xi yr yi : elem) : outcome T :=
  let m := emod (esub xr yr) (esub xi yi) in sp_dist q s m (escal nzero m).
End M.

(* ------------------------------------------------------------------ *)
(* executable roots at Q: exact on perfect powers, else floor(2^64 * root) / 2^64 *)
Fixpoint newton_root (fuel : nat) (p n y : Z) : Z :=
  match fuel with
  | O => y
  | S f => let y' := (((p - 1) * y + n / (y ^ (p - 1))) / p)%Z in
           if (y' <? y)%Z then newton_root f p n y' else y
  end.
(* floor of the p-th root of n >= 0, p >= 1 *)
Definition Zroot (p : nat) (n : Z) : Z :=
  if (n <=? 0)%Z then 0%Z
  else let pz := Z.of_nat p in
       let y0 := (2 ^ (Z.log2 n / pz + 1))%Z in
       newton_root 300 pz n y0.
Definition Qroot (p : nat) (x : Q) : Q :=
  let x := Qred x in
  let n := Qnum x in let d := Zpos (Qden x) in
  if (n <=? 0)%Z then 0%Q
  else let rn := Zroot p n in let rd := Zroot p d in
       if ((rn ^ Z.of_nat p =? n) && (rd ^ Z.of_nat p =? d))%Z then Qred (Qmake rn (Z.to_pos rd))
       else let s := (2 ^ 64)%Z in
            Qred (Qmake (Zroot p (n * s ^ Z.of_nat p / d)) (Z.to_pos s)).
Global Instance Root_Q : Root Q := {| nroot := fun p x => match p with 1%nat => x | _ => Qroot p x end |}.
