(* C02/LeafR.v -- norms and distances of leaves (tensor and discretized spaces), every exponent:
   the value computed by DiscretizedSpace._norm/_dist (boundary slices scaled by frac^(1/p), then
   the tensor-space norm) is the documented weighted p-norm with weights
   (tspace weight) * (boundary-cell fractions). *)
From Coq Require Import ZArith Reals Lra Lia List Bool Psatz.
From Verif Require Import Base.Num Base.Vec Base.VecR C02.Model C02.Roots C02.IPS C02.TensorR C02.DiscrR C02.TreeR C02.Mink.
Import ListNotations.
Local Open Scope R_scope.

Definition pvalid (p : expo) : Prop := match p with PFin q => (1 <= q)%nat | PInf => True end.

(* r_i >= 0 and r_i^k = f_i, entry-wise *)
Definition root_rel (k : nat) (u v : Rvec) : Prop := Forall2 (fun r f => 0 <= r /\ r ^ k = f) u v.

Lemma root_rel_app k u u' v v' : root_rel k u v -> root_rel k u' v' -> root_rel k (u ++ u') (v ++ v').
Proof. apply Forall2_app. Qed.
Lemma root_rel_scale k a b u v : 0 <= a -> a ^ k = b -> root_rel k u v ->
  root_rel k (map (nmul a) u) (map (nmul b) v).
Proof.
  intros Ha Hab H. induction H as [|r f u v [Hr Hf] _ IH]; cbn [map]; constructor; [|exact IH].
  numR. split; [nra|]. rewrite Rpow_mult_distr, Hab, Hf. reflexivity.
Qed.
Lemma root_rel_kron k u v u' v' : root_rel k u v -> root_rel k u' v' -> root_rel k (kron u u') (kron v v').
Proof.
  intros H H'. unfold kron. induction H as [|r f u v [Hr Hf] _ IH]; cbn [flat_map]; [constructor|].
  apply root_rel_app; [apply root_rel_scale; assumption | exact IH].
Qed.
Lemma root_rel_repeat1 k n : root_rel k (repeat 1 n) (repeat 1 n).
Proof. induction n; cbn [repeat]; constructor; [split; [lra | apply pow1] | assumption]. Qed.

Lemma ax_wvec_root k (ax : @axis R) : (1 <= k)%nat -> ax_ok ax ->
  root_rel k (ax_wvec (Rroot k) ax) (ax_wvec (fun f => f) ax).
Proof.
  intros Hk Hok. pose proof (ax_fracs_pos ax Hok) as [Hl Hr].
  unfold ax_wvec. destruct (ax_fracs ax) as [fl fr]. cbn [fst snd] in *.
  assert (Pl : 0 <= (if close1 fl then none_ else Rroot k fl) /\
               (if close1 fl then none_ else Rroot k fl) ^ k = (if close1 fl then none_ else fl)).
  { destruct (close1 fl); numR; [split; [lra | apply pow1] | split; [apply Rroot_nonneg | apply Rroot_pow; [assumption | lra]]]. }
  assert (Pr : 0 <= (if close1 fr then none_ else Rroot k fr) /\
               (if close1 fr then none_ else Rroot k fr) ^ k = (if close1 fr then none_ else fr)).
  { destruct (close1 fr); numR; [split; [lra | apply pow1] | split; [apply Rroot_nonneg | apply Rroot_pow; [assumption | lra]]]. }
  destruct Pl as [Pl1 Pl2], Pr as [Pr1 Pr2].
  destruct (ax_n ax) as [|[|n]]; [constructor | |].
  - constructor; [|constructor]. numR. split; [nra|]. rewrite Rpow_mult_distr, Pl2, Pr2. reflexivity.
  - constructor; [split; assumption|]. apply root_rel_app; [apply root_rel_repeat1|].
    constructor; [split; assumption | constructor].
Qed.
Lemma bdry_w_root k (axes : list (@axis R)) : (1 <= k)%nat -> Forall ax_ok axes ->
  root_rel k (bdry_w (Rroot k) axes) (bdry_w (fun f => f) axes).
Proof.
  intros Hk Hok. induction Hok as [|ax axes Hax _ IH].
  - cbn. constructor; [numR; split; [lra | apply pow1] | constructor].
  - rewrite !bdry_w_cons. apply root_rel_kron; [apply ax_wvec_root; assumption | exact IH].
Qed.

Lemma wpsum_shift k (W' W : Rvec) : root_rel k W' W -> forall tw x : Rvec,
  wpsum k tw (vmul x W') = wpsum k (vmul tw W) x.
Proof.
  induction 1 as [|r f W' W [Hr Hf] _ IH]; intros tw x.
  - destruct x as [|a x], tw as [|c tw]; unfold vmul; cbn [vmap2];
      rewrite ?wpsum_nil_x, ?wpsum_nil_w; reflexivity.
  - destruct x as [|a x]; [rewrite !wpsum_nil_x; reflexivity|].
    destruct tw as [|c tw]; [rewrite !wpsum_nil_w; reflexivity|].
    unfold vmul in *. cbn [vmap2]. rewrite !wpsum_cons, IH. numR.
    rewrite Rabs_mult, Rpow_mult_distr, (Rabs_pos_eq r), Hf by assumption. ring.
Qed.

Lemma vsub_vmul_distr (x y W : Rvec) : vsub (vmul x W) (vmul y W) = vmul (vsub x y) W.
Proof.
  revert y W; induction x as [|a x IH]; intros [|b y] [|f W]; try reflexivity.
  unfold vsub, vmul in *. cbn [vmap2]. rewrite IH. numR. f_equal. ring.
Qed.

(* well-formed leaf of any exponent, holding n entries *)
Definition leaf_okp (lf : @leaf R) (n : nat) : Prop :=
  match lf with
  | LTensor w p => pvalid p /\ tw_ok n (t_weight w)
  | LDiscr axes w p => pvalid p /\ tw_ok n (d_weight axes w p) /\ Forall ax_ok axes /\ n = npoints axes
  end.
Definition leaf_expo (lf : @leaf R) : expo := match lf with LTensor _ p | LDiscr _ _ p => p end.
(* the tensor-space weight vector alone (what p = inf uses) *)
Definition leaf_tw (lf : @leaf R) (n : nat) : Rvec :=
  match lf with
  | LTensor w _ => tw_vec n (t_weight w)
  | LDiscr axes w p => tw_vec n (d_weight axes w p)
  end.
(* the documented norm of a leaf *)
Definition leaf_norm_v (q : quirks) (lf : @leaf R) (x : Rvec) : R :=
  match leaf_expo lf with
  | PInf => wnorm_inf (leaf_tw lf (length x)) x
  | PFin k => wnorm_p k (leaf_w q lf (length x)) x
  end.

Lemma leaf_w_okp q lf n : leaf_okp lf n -> Forall (fun c => 0 < c) (leaf_w q lf n) /\ length (leaf_w q lf n) = n.
Proof.
  destruct lf as [w p | axes w p]; cbn [leaf_okp leaf_w].
  - intros (_ & Hw). split; [apply tw_vec_pos | apply tw_vec_length]; assumption.
  - intros (_ & Hw & Hax & Hn). destruct (unif_weighted q axes (d_weight axes w p) p).
    + split; [apply tw_vec_pos | apply tw_vec_length]; assumption.
    + split.
      * apply vmul_pos; [apply tw_vec_pos; assumption | apply bdry_w_pos; assumption].
      * rewrite vmul_length; [apply tw_vec_length; assumption|].
        rewrite tw_vec_length, bdry_w_length by assumption. assumption.
Qed.
Lemma leaf_tw_okp lf n : leaf_okp lf n -> Forall (fun c => 0 < c) (leaf_tw lf n) /\ length (leaf_tw lf n) = n.
Proof.
  destruct lf as [w p | axes w p]; cbn [leaf_okp leaf_tw].
  - intros (_ & Hw). split; [apply tw_vec_pos | apply tw_vec_length]; assumption.
  - intros (_ & Hw & _). split; [apply tw_vec_pos | apply tw_vec_length]; assumption.
Qed.

(* value of the tensor-level norm in terms of a weight vector *)
Lemma t_norm_v_as_wnorm (tw : @tweight R) p (x : Rvec) : tw_ok (length x) tw -> pvalid p ->
  t_norm_v tw p x = match p with PInf => wnorm_inf (tw_vec (length x) tw) x
                               | PFin k => wnorm_p k (tw_vec (length x) tw) x end.
Proof. intros Hw Hp. destruct p; [apply t_norm_v_inf | apply t_norm_v_fin]; assumption. Qed.

Lemma unif_inf q axes (tw : @tweight R) : unif_weighted q axes tw PInf = true.
Proof. unfold unif_weighted. cbn [isinf]. rewrite orb_true_r. reflexivity. Qed.

(* norm of the scaled array = documented weighted norm of the original array *)
Lemma discr_scaled_norm q axes w p (x : Rvec) :
  leaf_okp (LDiscr axes w p) (length x) ->
  t_norm_v (d_weight axes w p) p
    (if unif_weighted q axes (d_weight axes w p) p then x else scale_bdry (frac_root p) axes x)
  = leaf_norm_v q (LDiscr axes w p) x.
Proof.
  intros (Hp & Hw & Hax & Hn). unfold leaf_norm_v. cbn [leaf_expo leaf_tw leaf_w].
  destruct p as [|k].
  - rewrite unif_inf. apply t_norm_v_inf; assumption.
  - cbn [pvalid] in Hp.
    destruct (unif_weighted q axes (d_weight axes w (PFin k)) (PFin k)); [apply t_norm_v_fin; assumption|].
    unfold scale_bdry. change (frac_root (PFin k)) with (Rroot k).
    assert (Hl : length (vmul x (bdry_w (Rroot k) axes)) = length x).
    { apply vmul_length. rewrite bdry_w_length. assumption. }
    rewrite t_norm_v_fin by (try assumption; rewrite Hl; assumption).
    unfold wnorm_p. rewrite Hl. f_equal. apply wpsum_shift. apply bdry_w_root; assumption.
Qed.

Theorem leaf_norm_value q lf (x : Rvec) : leaf_okp lf (length x) ->
  leaf_norm q lf x = Ok (leaf_norm_v q lf x).
Proof.
  intros Hok. destruct lf as [w p | axes w p].
  - destruct Hok as (Hp & Hw). cbn [leaf_norm]. rewrite t_norm_ok.
    rewrite t_norm_v_as_wnorm by assumption. unfold leaf_norm_v. cbn [leaf_expo leaf_tw leaf_w]. destruct p; reflexivity.
  - pose proof (discr_scaled_norm q axes w p x Hok) as E.
    cbn [leaf_norm]. destruct (unif_weighted q axes (d_weight axes w p) p); rewrite t_norm_ok; f_equal; exact E.
Qed.

(* dist(x, y) = norm(x - y) on every leaf, including the discretized path that scales x and y separately *)
Theorem leaf_dist_value q lf (x y : Rvec) : leaf_okp lf (length x) -> length y = length x ->
  leaf_dist q lf x y = Ok (leaf_norm_v q lf (vsub x y)).
Proof.
  intros Hok Hl.
  assert (Hls : length (vsub x y) = length x) by (apply vsub_length; congruence).
  destruct lf as [w p | axes w p].
  - destruct Hok as (Hp & Hw). cbn [leaf_dist]. rewrite t_dist_ok.
    rewrite t_norm_v_as_wnorm by (rewrite ?Hls; assumption).
    unfold leaf_norm_v. cbn [leaf_expo leaf_tw leaf_w]. destruct p; reflexivity.
  - assert (Hok' : leaf_okp (LDiscr axes w p) (length (vsub x y))) by (rewrite Hls; exact Hok).
    pose proof (discr_scaled_norm q axes w p (vsub x y) Hok') as E.
    cbn [leaf_dist]. destruct (unif_weighted q axes (d_weight axes w p) p).
    + rewrite t_dist_ok. f_equal. exact E.
    + unfold scale_bdry in *. rewrite t_dist_ok, vsub_vmul_distr. f_equal. exact E.
Qed.

(* homogeneity and triangle inequality for every leaf and every exponent *)
Theorem leaf_norm_homog q lf k (x : Rvec) : leaf_okp lf (length x) ->
  leaf_norm_v q lf (vscal k x) = Rabs k * leaf_norm_v q lf x.
Proof.
  intros Hok. unfold leaf_norm_v. rewrite vscal_length.
  destruct (leaf_w_okp q lf _ Hok) as [Hw _]. destruct (leaf_tw_okp lf _ Hok) as [Ht _].
  destruct (leaf_expo lf) as [|p] eqn:E.
  - apply wnorm_inf_homog.
  - apply wnorm_p_homog; [|apply Forall_pos_nonneg; assumption].
    destruct lf; cbn [leaf_okp leaf_expo] in *; subst; cbn [pvalid] in *; tauto.
Qed.
Theorem leaf_norm_triangle q lf (x y : Rvec) : leaf_okp lf (length x) -> length y = length x ->
  leaf_norm_v q lf (vadd x y) <= leaf_norm_v q lf x + leaf_norm_v q lf y.
Proof.
  intros Hok Hl. unfold leaf_norm_v. rewrite vadd_length, Hl by congruence.
  destruct (leaf_w_okp q lf _ Hok) as [Hw Hwl]. destruct (leaf_tw_okp lf _ Hok) as [Ht Htl].
  destruct (leaf_expo lf) as [|p] eqn:E.
  - apply wnorm_inf_triangle; [apply Forall_pos_nonneg; assumption | congruence].
  - apply wnorm_p_triangle; try assumption; try congruence.
    destruct lf; cbn [leaf_okp leaf_expo] in *; subst; cbn [pvalid] in *; tauto.
Qed.
(* p = 2: norm = sqrt(inner(x, x)) on every leaf *)
Theorem leaf_norm2_inner q lf (x : Rvec) : leaf_okp lf (length x) -> leaf_expo lf = PFin 2 ->
  leaf_inner q lf x x = Ok (wdot (leaf_w q lf (length x)) x x) /\
  leaf_norm_v q lf x = sqrt (wdot (leaf_w q lf (length x)) x x).
Proof.
  intros Hok E. split.
  - apply leaf_inner_wdot; [|reflexivity].
    destruct lf; cbn [leaf_okp leaf_ok2 leaf_expo] in *; subst; tauto.
  - unfold leaf_norm_v. rewrite E. unfold wnorm_p. rewrite wpsum_2_wdot.
    apply Rroot_2_sqrt. apply wdot_self_nonneg, Forall_pos_nonneg. apply (leaf_w_okp q lf _ Hok).
Qed.
