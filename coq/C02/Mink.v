(* C02/Mink.v -- Minkowski's inequality for weighted p-norms, every natural p >= 1. *)
From Coq Require Import ZArith Reals Lra Lia List Bool Psatz.
From Verif Require Import Base.Num Base.Vec Base.VecR C02.Model C02.Roots C02.IPS C02.TensorR.
Import ListNotations.
Local Open Scope R_scope.

Lemma pow_mono_nonneg (a b : R) (p : nat) : 0 <= a -> a <= b -> a ^ p <= b ^ p.
Proof. intros. apply pow_incr. lra. Qed.

Lemma pow_diff_sign (a b : R) (p : nat) : 0 <= a -> 0 <= b -> 0 <= (a - b) * (a ^ p - b ^ p).
Proof.
  intros Ha Hb. destruct (Rle_lt_dec a b) as [H|H].
  - pose proof (pow_mono_nonneg a b p Ha H). nra.
  - pose proof (pow_mono_nonneg b a p Hb ltac:(lra)). nra.
Qed.

(* convexity of t |-> t^p on [0, inf) *)
Lemma pow_convex (a b t : R) (p : nat) : 0 <= a -> 0 <= b -> 0 <= t <= 1 ->
  (t * a + (1 - t) * b) ^ p <= t * a ^ p + (1 - t) * b ^ p.
Proof.
  intros Ha Hb Ht. induction p as [|p IH]; [cbn; lra|].
  cbn [pow].
  assert (Hc : 0 <= t * a + (1 - t) * b) by nra.
  apply Rle_trans with ((t * a + (1 - t) * b) * (t * a ^ p + (1 - t) * b ^ p)).
  - apply Rmult_le_compat_l; assumption.
  - pose proof (pow_diff_sign a b p Ha Hb) as Hs.
    assert (Ht2 : 0 <= t * (1 - t)) by nra.
    assert (E : t * (a * a ^ p) + (1 - t) * (b * b ^ p) - (t * a + (1 - t) * b) * (t * a ^ p + (1 - t) * b ^ p)
                = t * (1 - t) * ((a - b) * (a ^ p - b ^ p))) by ring.
    assert (0 <= t * (1 - t) * ((a - b) * (a ^ p - b ^ p))) by (apply Rmult_le_pos; assumption).
    lra.
Qed.

Lemma abs_convex_pow (a b t : R) (p : nat) : 0 <= t <= 1 ->
  Rabs (t * a + (1 - t) * b) ^ p <= t * Rabs a ^ p + (1 - t) * Rabs b ^ p.
Proof.
  intros Ht.
  apply Rle_trans with ((t * Rabs a + (1 - t) * Rabs b) ^ p).
  - apply pow_mono_nonneg; [apply Rabs_pos|].
    eapply Rle_trans; [apply Rabs_triang|]. rewrite !Rabs_mult.
    rewrite (Rabs_pos_eq t), (Rabs_pos_eq (1 - t)) by lra. lra.
  - apply pow_convex; try apply Rabs_pos. assumption.
Qed.

Lemma wpsum_convex p t (w x y : Rvec) : 0 <= t <= 1 -> Forall (fun c => 0 <= c) w -> length x = length y ->
  wpsum p w (vadd (vscal t x) (vscal (1 - t) y)) <= t * wpsum p w x + (1 - t) * wpsum p w y.
Proof.
  intros Ht Hw; revert x y; induction Hw as [|c w Hc Hw IH]; intros [|a x] [|b y] Hl; cbn in Hl; try lia;
    unfold vadd, vscal in *; cbn [map vmap2]; rewrite ?wpsum_nil_x, ?wpsum_nil_w, ?wpsum_cons; try lra.
  specialize (IH x y ltac:(lia)). numR.
  pose proof (abs_convex_pow a b t p Ht) as Hab. nra.
Qed.

Lemma vadd_as_combination (A B : R) (x y : Rvec) : 0 < A -> 0 < B -> length x = length y ->
  vadd x y = vscal (A + B) (vadd (vscal (A / (A + B)) (vscal (/ A) x)) (vscal (1 - A / (A + B)) (vscal (/ B) y))).
Proof.
  intros HA HB; revert y; induction x as [|a x IH]; intros [|b y] Hl; cbn in Hl; try lia; [reflexivity|].
  unfold vadd, vscal in *. cbn [map vmap2]. rewrite <- IH by lia. numR. f_equal. field. lra.
Qed.

Theorem wnorm_p_triangle (p : nat) (w x y : Rvec) : (1 <= p)%nat ->
  Forall (fun c => 0 < c) w -> length x = length w -> length y = length w ->
  wnorm_p p w (vadd x y) <= wnorm_p p w x + wnorm_p p w y.
Proof.
  intros Hp Hw Hx Hy.
  pose proof (Forall_pos_nonneg w Hw) as Hw0.
  set (A := wnorm_p p w x). set (B := wnorm_p p w y).
  assert (HA0 : 0 <= A) by apply Rroot_nonneg. assert (HB0 : 0 <= B) by apply Rroot_nonneg.
  assert (HSx : A ^ p = wpsum p w x) by (apply Rroot_pow; [assumption | apply wpsum_nonneg; assumption]).
  assert (HSy : B ^ p = wpsum p w y) by (apply Rroot_pow; [assumption | apply wpsum_nonneg; assumption]).
  (* zero cases: the vector itself vanishes *)
  assert (Hzero : forall z : Rvec, length z = length w -> wpsum p w z = 0 -> Forall (fun a => a = 0) z).
  { clear -Hw Hp. induction Hw as [|c w Hc Hw IH]; intros [|a z] Hl Hz; cbn in Hl; try lia; constructor.
    - rewrite wpsum_cons in Hz.
      assert (0 <= wpsum p w z) by (apply wpsum_nonneg, Forall_pos_nonneg; assumption).
      assert (0 <= Rabs a ^ p) by (apply pow_le, Rabs_pos).
      assert (Hap : Rabs a ^ p = 0) by nra.
      destruct (Req_dec a 0) as [E|E]; [assumption|]. exfalso.
      assert (0 < Rabs a) by (apply Rabs_pos_lt; assumption).
      pose proof (pow_lt (Rabs a) p H1). lra.
    - apply IH; [lia|]. rewrite wpsum_cons in Hz.
      assert (0 <= wpsum p w z) by (apply wpsum_nonneg, Forall_pos_nonneg; assumption).
      assert (0 <= Rabs a ^ p) by (apply pow_le, Rabs_pos). nra. }
  assert (Hadd0l : forall u v : Rvec, length u = length v -> Forall (fun a => a = 0) u -> vadd u v = v).
  { clear. induction u as [|a u IH]; intros [|b v] Hl Hz; cbn in Hl; try lia; [reflexivity|].
    inversion Hz; subst. unfold vadd in *. cbn [vmap2]. rewrite IH by (auto; lia). numR. f_equal. lra. }
  assert (Hadd0r : forall u v : Rvec, length u = length v -> Forall (fun a => a = 0) v -> vadd u v = u).
  { clear. induction u as [|a u IH]; intros [|b v] Hl Hz; cbn in Hl; try lia; [reflexivity|].
    inversion Hz; subst. unfold vadd in *. cbn [vmap2]. rewrite IH by (auto; lia). numR. f_equal. lra. }
  destruct (Req_dec A 0) as [EA|NA].
  { assert (wpsum p w x = 0) by (rewrite <- HSx, EA; destruct p; [lia | cbn; lra]).
    rewrite (Hadd0l x y) by (try congruence; apply Hzero; assumption). fold B. lra. }
  destruct (Req_dec B 0) as [EB|NB].
  { assert (wpsum p w y = 0) by (rewrite <- HSy, EB; destruct p; [lia | cbn; lra]).
    rewrite (Hadd0r x y) by (try congruence; apply Hzero; assumption). fold A. lra. }
  assert (HA : 0 < A) by lra. assert (HB : 0 < B) by lra.
  (* S(x + y) <= (A + B)^p *)
  assert (HS : wpsum p w (vadd x y) <= (A + B) ^ p).
  { rewrite (vadd_as_combination A B x y HA HB) by congruence.
    rewrite wpsum_scal. rewrite (Rabs_pos_eq (A + B)) by lra.
    set (t := A / (A + B)).
    assert (Ht : 0 <= t <= 1).
    { unfold t. split; [apply Rmult_le_pos; [lra | left; apply Rinv_0_lt_compat; lra]|].
      apply (Rmult_le_reg_r (A + B)); [lra|]. unfold Rdiv. rewrite Rmult_assoc, Rinv_l by lra. lra. }
    pose proof (wpsum_convex p t w (vscal (/ A) x) (vscal (/ B) y) Ht Hw0
                  ltac:(rewrite !vscal_length; congruence)) as Hc.
    rewrite !wpsum_scal in Hc.
    rewrite !(Rabs_pos_eq (/ _)) in Hc by (left; apply Rinv_0_lt_compat; assumption).
    rewrite <- HSx, <- HSy, <- !Rpow_mult_distr in Hc.
    rewrite !Rinv_l, !pow1 in Hc by lra.
    assert (0 <= (A + B) ^ p) by (apply pow_le; lra). nra. }
  unfold wnorm_p at 1.
  rewrite <- (Rroot_of_pow p (A + B)) by (auto; lra).
  apply Rroot_le; [assumption | apply wpsum_nonneg; assumption | exact HS].
Qed.

(* all exponents *)
Theorem t_norm_v_triangle_all (w : @tweight R) (p : expo) (x y : Rvec) :
  length x = length y -> tw_ok (length x) w ->
  (match p with PFin q => (1 <= q)%nat | PInf => True end) ->
  t_norm_v w p (vadd x y) <= t_norm_v w p x + t_norm_v w p y.
Proof.
  intros Hl Hw Hp.
  assert (Hwy : tw_ok (length y) w) by (rewrite <- Hl; assumption).
  assert (Hwa : tw_ok (length (vadd x y)) w) by (rewrite vadd_length; assumption).
  pose proof (tw_vec_pos _ _ Hw) as Hpos. pose proof (tw_vec_length _ _ Hw) as Hlen.
  destruct p as [|q].
  - rewrite !t_norm_v_inf by auto. rewrite vadd_length, <- Hl by assumption.
    apply wnorm_inf_triangle; [apply Forall_pos_nonneg|]; assumption.
  - rewrite !t_norm_v_fin by auto. rewrite vadd_length, <- Hl by assumption.
    apply wnorm_p_triangle; [assumption | assumption | lia | lia].
Qed.
