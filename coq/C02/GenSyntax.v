(* C02/GenSyntax.v -- syntax of the dispatch tables regenerated from the weighting classes
   (translate/weighting.py -> Gen/Weighting.v).  Meaning: C02/GenSem.v. *)
From Coq Require Import List.

Inductive warg := AX | AY | AXmY | AXw | AV.
(* AX: x / x1   AY: x2   AXmY: x1 - x2   AXw: x1 * self.array   AV: norms / dnorms *)
Inductive wexpr :=
| WC                          (* self.const *)
| WSqrt (e : wexpr)           (* np.sqrt(e) *)
| WMul (a b : wexpr)
| WPowInv (e : wexpr)         (* e ** (1 / self.exponent) *)
| WNrm2 (a : warg)            (* _norm_default(a) *)
| WPnorm (a : warg)           (* _pnorm_default(a, self.exponent) / np.linalg.norm(a, ord=self.exponent) *)
| WDot (a b : warg).          (* _inner_default(a, b), real dtype *)
Inductive wcond := CExp2 | CExpNot2 | CExpInf | CExp1Inf | CElse.
Definition wtable := list (wcond * wexpr).
Inductive wscale := SWeights | SWeightsPowInv.
Inductive uatom := UAllClose | UExpInf | UNotWeighted.
Inductive wcond_frac := FIsClose1.
Inductive fscale := FIdentity | FMulPowInv.
Inductive datom := DExpInf | DNdim0.
Inductive dval := DOne | DCellVolume.

(* _inner_default: decision tree over dtype class and size regime, leaves = which sum is computed *)
Inductive kcond := KIsReal | KIsLarge.
Inductive kernel := KBilinear | KConjSecond | KConjFirst.
Inductive ktree := KLeaf (k : kernel) | KIf (c : kcond) (a b : ktree).
