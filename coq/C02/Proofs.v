(* C02/Proofs.v -- lemmas at R (placeholder, filled below). *)
From Coq Require Import ZArith QArith Reals Lra Lia List Bool.
From Verif Require Import Base.Num Base.Vec Base.VecR C02.Model.
