(* C02/Proofs.v -- lemmas at R.  The proofs are split by topic:
     Roots.v    p-th root on R (proof instance of Model.Root), powers
     IPS.v      abstract semi-inner-product space: Cauchy-Schwarz, induced norm
     TensorR.v  tensor-space weightings (const / array), all exponents
     DiscrR.v   uniform partitions, boundary-cell fractions, ||1||^2 = volume
     TreeR.v    nested product spaces
   This file only re-exports them. *)
From Verif Require Export C02.Roots C02.IPS C02.TensorR C02.DiscrR C02.TreeR.
