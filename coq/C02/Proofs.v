(* C02/Proofs.v -- lemmas at R.  The proofs are split by topic:
     Roots.v    p-th root on R (proof instance of Model.Root), powers
     IPS.v      abstract semi-inner-product space: Cauchy-Schwarz, induced norm
     TensorR.v  tensor-space weightings (const / array), all exponents
     Mink.v     Minkowski's inequality for weighted p-norms, every natural p
     ComplexR.v complex tensor spaces as (re, im): sesquilinearity, Cauchy-Schwarz
     DiscrR.v   uniform partitions, boundary-cell fractions, ||1||^2 = volume
     TreeR.v    nested product spaces with exponent 2: flattening theorem, inner-product axioms
     LeafR.v    norms / dist of tensor and discretized leaves, every exponent
     TreeNorm.v norms / dist on nested product spaces with mixed exponents
     OneNorm.v  ||one|| = sqrt(volume) stated on uniform_discr inputs
     ComplexTree.v complex product trees on (re, im): decomposition, conjugate symmetry, C-linearity
     TreeDist.v dist = norm(x - y) on the exponent-2-through-inner branch; symmetry of dist
   This file only re-exports them. *)
From Verif Require Export C02.Roots C02.IPS C02.TensorR C02.Mink C02.ComplexR C02.DiscrR C02.TreeR C02.LeafR C02.TreeNorm C02.TreeDist C02.OneNorm C02.ComplexTree.
