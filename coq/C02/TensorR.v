(* C02/TensorR.v -- tensor-space weightings at R: inner-product axioms, Cauchy-Schwarz,
   norms for p in {1, 2, inf, generic natural p}, dist. *)
From Coq Require Import ZArith Reals Lra Lia List Bool Psatz Permutation.
From Verif Require Import Base.Num Base.Vec Base.VecR C02.Model C02.Roots C02.IPS.
Import ListNotations.
Local Open Scope R_scope.

(* ------------------------------------------------------------------ *)
(* generic list facts *)
Lemma vmap2_len (f : R -> R -> R) (x y : Rvec) : length x = length y -> length (vmap2 f x y) = length x.
Proof. apply vmap2_length. Qed.
Lemma vscal_length a (x : Rvec) : length (vscal a x) = length x.
Proof. unfold vscal. apply map_length. Qed.
Lemma vadd_length (x y : Rvec) : length x = length y -> length (vadd x y) = length x.
Proof. apply vmap2_length. Qed.
Lemma vsub_length (x y : Rvec) : length x = length y -> length (vsub x y) = length x.
Proof. apply vmap2_length. Qed.
Lemma vmul_length (x y : Rvec) : length x = length y -> length (vmul x y) = length x.
Proof. apply vmap2_length. Qed.

Lemma sumf_cons a (l : Rvec) : sumf (a :: l) = a + sumf l.
Proof. reflexivity. Qed.
Lemma sumf_nil : sumf ([] : Rvec) = 0.
Proof. reflexivity. Qed.

Lemma sumf_nonneg (l : Rvec) : Forall (fun a => 0 <= a) l -> 0 <= sumf l.
Proof. induction 1; [rewrite sumf_nil; lra | rewrite sumf_cons; lra]. Qed.

Lemma sumf_map_scal k (l : Rvec) : sumf (map (Rmult k) l) = k * sumf l.
Proof. induction l as [|a l IH]; cbn [map]; rewrite ?sumf_nil, ?sumf_cons, ?IH; lra. Qed.

Lemma sumf_perm (l l' : Rvec) : Permutation l l' -> sumf l = sumf l'.
Proof. induction 1; rewrite ?sumf_cons in *; lra. Qed.

(* weighted dot product as the common form of both weightings *)
Lemma wdot_nil_x w y : wdot w ([] : Rvec) y = 0.
Proof. unfold wdot. destruct w; reflexivity. Qed.

Lemma wdot_alt (a x y : Rvec) : dot (vmul x a) y = wdot a x y.
Proof.
  revert a y; induction x as [|u x IH]; intros [|c a] [|v y]; try reflexivity.
  change (dot (vmul (u :: x) (c :: a)) (v :: y)) with ((u * c) * v + dot (vmul x a) y).
  rewrite wdot_cons, IH. lra.
Qed.

Lemma wdot_repeat c (x y : Rvec) : length x = length y ->
  wdot (repeat c (length x)) x y = c * dot x y.
Proof.
  revert y; induction x as [|u x IH]; intros [|v y] Hl; cbn in Hl; try lia.
  - cbn. unfold wdot, dot. cbn. numR. lra.
  - cbn [length repeat]. rewrite wdot_cons, dot_cons, IH by lia. lra.
Qed.

Lemma wdot_vadd_l (w x x' y : Rvec) : length x = length x' ->
  wdot w (vadd x x') y = wdot w x y + wdot w x' y.
Proof.
  revert x x' y; induction w as [|c w IH]; intros [|a x] [|a' x'] [|b y] Hl; cbn in Hl; try lia;
    try (unfold wdot; cbn; numR; lra).
  unfold vadd in *. cbn [vmap2]. rewrite !wdot_cons, IH by lia. numR. lra.
Qed.

Lemma wdot_vscal_l k (w x y : Rvec) : wdot w (vscal k x) y = k * wdot w x y.
Proof.
  revert x y; induction w as [|c w IH]; intros [|a x] [|b y]; try (unfold wdot; cbn; numR; lra).
  unfold vscal in *. cbn [map]. rewrite !wdot_cons, IH. numR. lra.
Qed.

Lemma wdot_self_nonneg (w x : Rvec) : Forall (fun c => 0 <= c) w -> 0 <= wdot w x x.
Proof.
  intros Hw; revert x; induction Hw as [|c w Hc Hw IH]; intros [|a x]; try (unfold wdot; cbn; numR; lra).
  rewrite wdot_cons. specialize (IH x). nra.
Qed.

Lemma wdot_self_zero (w x : Rvec) : Forall (fun c => 0 < c) w -> length x = length w ->
  wdot w x x = 0 -> Forall (fun a => a = 0) x.
Proof.
  intros Hw; revert x; induction Hw as [|c w Hc Hw IH]; intros [|a x] Hl Hz; cbn in Hl; try lia; [constructor|].
  rewrite wdot_cons in Hz.
  assert (H0 : 0 <= wdot w x x) by (apply wdot_self_nonneg; eapply Forall_impl; [|exact Hw]; intros; cbn in *; lra).
  assert (H1 : 0 <= c * (a * a)) by (apply Rmult_le_pos; [lra | nra]).
  assert (H2 : c * (a * a) = 0) by lra.
  constructor.
  - apply Rmult_integral in H2. destruct H2 as [H2|H2]; [lra|].
    apply Rmult_integral in H2. tauto.
  - apply IH; [lia | lra].
Qed.

(* ------------------------------------------------------------------ *)
(* the weight vector of a tensor weighting on n entries, and well-formedness *)
Definition tw_vec (n : nat) (w : @tweight R) : Rvec :=
  match w with WConst c => repeat c n | WArr a => a end.
Definition tw_ok (n : nat) (w : @tweight R) : Prop :=
  match w with WConst c => 0 < c | WArr a => length a = n /\ Forall (fun c => 0 < c) a end.

Lemma tw_vec_length n w : tw_ok n w -> length (tw_vec n w) = n.
Proof. destruct w; cbn; [intros; apply repeat_length | tauto]. Qed.
Lemma tw_vec_pos n w : tw_ok n w -> Forall (fun c => 0 < c) (tw_vec n w).
Proof.
  destruct w as [c|a]; cbn; [|tauto]. intros Hc. apply Forall_forall. intros x Hx.
  apply repeat_spec in Hx. subst. assumption.
Qed.
Lemma Forall_pos_nonneg (l : Rvec) : Forall (fun c => 0 < c) l -> Forall (fun c => 0 <= c) l.
Proof. apply Forall_impl. intros; lra. Qed.

(* the model's inner product IS the documented weighted sum  sum_i w_i x_i y_i *)
Lemma t_inner_wdot (w : @tweight R) (x y : Rvec) : length x = length y ->
  t_inner_v w x y = wdot (tw_vec (length x) w) x y.
Proof.
  intros Hl. destruct w as [c|a]; cbn [t_inner_v tw_vec].
  - rewrite wdot_repeat by assumption. reflexivity.
  - apply wdot_alt.
Qed.

Section TensorIPS.
Variable n : nat.
Variable w : @tweight R.
Hypothesis Hw : tw_ok n w.
Let okv (x : Rvec) := length x = n.

Lemma ti_sym x y : okv x -> okv y -> t_inner_v w x y = t_inner_v w y x.
Proof.
  unfold okv; intros Hx Hy. rewrite !t_inner_wdot by congruence. rewrite Hx, Hy. apply wdot_comm.
Qed.
Lemma ti_add_l x y z : okv x -> okv y -> okv z ->
  t_inner_v w (vadd x y) z = t_inner_v w x z + t_inner_v w y z.
Proof.
  unfold okv; intros Hx Hy Hz.
  rewrite !t_inner_wdot by (rewrite ?vadd_length; congruence).
  rewrite vadd_length, Hx, Hy by congruence. apply wdot_vadd_l. congruence.
Qed.
Lemma ti_scal_l a x y : okv x -> okv y -> t_inner_v w (vscal a x) y = a * t_inner_v w x y.
Proof.
  unfold okv; intros Hx Hy.
  rewrite !t_inner_wdot by (rewrite ?vscal_length; congruence).
  rewrite vscal_length. apply wdot_vscal_l.
Qed.
Lemma ti_nonneg x : okv x -> 0 <= t_inner_v w x x.
Proof.
  unfold okv; intros Hx. rewrite t_inner_wdot by reflexivity. rewrite Hx.
  apply wdot_self_nonneg, Forall_pos_nonneg, tw_vec_pos, Hw.
Qed.
Lemma ti_definite x : okv x -> t_inner_v w x x = 0 -> Forall (fun a => a = 0) x.
Proof.
  unfold okv; intros Hx Hz. rewrite t_inner_wdot in Hz by reflexivity. rewrite Hx in Hz.
  eapply wdot_self_zero; [apply tw_vec_pos, Hw | rewrite tw_vec_length; auto | exact Hz].
Qed.
Lemma okv_add x y : okv x -> okv y -> okv (vadd x y).
Proof. unfold okv; intros. rewrite vadd_length; congruence. Qed.
Lemma okv_scal a x : okv x -> okv (vscal a x).
Proof. unfold okv; intros. rewrite vscal_length; congruence. Qed.

Lemma ti_cauchy_schwarz x y : okv x -> okv y ->
  t_inner_v w x y * t_inner_v w x y <= t_inner_v w x x * t_inner_v w y y.
Proof.
  apply (ips_cauchy_schwarz Rvec okv vadd vscal (t_inner_v w) okv_add okv_scal ti_sym ti_add_l ti_scal_l ti_nonneg).
Qed.
Lemma ti_norm_triangle x y : okv x -> okv y ->
  sqrt (t_inner_v w (vadd x y) (vadd x y)) <= sqrt (t_inner_v w x x) + sqrt (t_inner_v w y y).
Proof.
  apply (ips_norm_triangle Rvec okv vadd vscal (t_inner_v w) okv_add okv_scal ti_sym ti_add_l ti_scal_l ti_nonneg).
Qed.
Lemma ti_norm_homog a x : okv x ->
  sqrt (t_inner_v w (vscal a x) (vscal a x)) = Rabs a * sqrt (t_inner_v w x x).
Proof.
  apply (ips_norm_homog Rvec okv vscal (t_inner_v w) okv_scal ti_sym ti_scal_l ti_nonneg).
Qed.
End TensorIPS.

(* ------------------------------------------------------------------ *)
(* the documented weighted p-norms *)
Definition wpsum (p : nat) (w x : Rvec) : R := sumf (vmul (map (fun t => Rabs t ^ p) x) w).
Definition wnorm_p (p : nat) (w x : Rvec) : R := Rroot p (wpsum p w x).
Definition wnorm_inf (w x : Rvec) : R := vmaxl (vmul (map Rabs x) w).

Lemma wpsum_cons p c a (w x : Rvec) : wpsum p (c :: w) (a :: x) = Rabs a ^ p * c + wpsum p w x.
Proof. reflexivity. Qed.
Lemma wpsum_nil_x p w : wpsum p w [] = 0.
Proof. reflexivity. Qed.
Lemma wpsum_nil_w p x : wpsum p [] x = 0.
Proof. unfold wpsum. destruct x; reflexivity. Qed.

Lemma wpsum_nonneg p (w x : Rvec) : Forall (fun c => 0 <= c) w -> 0 <= wpsum p w x.
Proof.
  intros Hw; revert x; induction Hw as [|c w Hc Hw IH]; intros [|a x];
    rewrite ?wpsum_nil_x, ?wpsum_nil_w, ?wpsum_cons; try lra.
  specialize (IH x). assert (0 <= Rabs a ^ p) by (apply pow_le, Rabs_pos). nra.
Qed.

Lemma wpsum_scal p k (w x : Rvec) : wpsum p w (vscal k x) = Rabs k ^ p * wpsum p w x.
Proof.
  revert w; induction x as [|a x IH]; intros [|c w]; unfold vscal in *; cbn [map];
    rewrite ?wpsum_nil_x, ?wpsum_nil_w, ?wpsum_cons; try lra.
  rewrite IH. numR. rewrite Rabs_mult, Rpow_mult_distr. lra.
Qed.

Lemma psum_cons p a (x : Rvec) : psum p (a :: x) = Rabs a ^ p + psum p x.
Proof. unfold psum. cbn [map]. rewrite sumf_cons, npow_R. reflexivity. Qed.
Lemma psum_nil p : psum p ([] : Rvec) = 0.
Proof. reflexivity. Qed.
Lemma wpsum_repeat p c (x : Rvec) : wpsum p (repeat c (length x)) x = c * psum p x.
Proof.
  induction x as [|a x IH]; cbn [length repeat].
  - rewrite wpsum_nil_x, psum_nil. lra.
  - rewrite wpsum_cons, psum_cons, IH. lra.
Qed.

Lemma wpsum_2_wdot (w x : Rvec) : wpsum 2 w x = wdot w x x.
Proof.
  revert w; induction x as [|a x IH]; intros [|c w];
    rewrite ?wpsum_nil_x, ?wpsum_nil_w, ?wdot_nil_x; try reflexivity.
  rewrite wpsum_cons, wdot_cons, IH. cbn [pow]. rewrite Rmult_1_r.
  replace (Rabs a * Rabs a) with (a * a) by (rewrite <- Rabs_mult; symmetry; apply Rabs_pos_eq; nra). lra.
Qed.

Theorem wnorm_p_homog p k (w x : Rvec) : (1 <= p)%nat -> Forall (fun c => 0 <= c) w ->
  wnorm_p p w (vscal k x) = Rabs k * wnorm_p p w x.
Proof.
  intros Hp Hw. unfold wnorm_p. rewrite wpsum_scal. apply Rroot_scale; [assumption|].
  apply wpsum_nonneg; assumption.
Qed.

(* p = 1 triangle *)
Lemma wpsum_1_triangle (w x y : Rvec) : Forall (fun c => 0 <= c) w -> length x = length y ->
  wpsum 1 w (vadd x y) <= wpsum 1 w x + wpsum 1 w y.
Proof.
  intros Hw; revert x y; induction Hw as [|c w Hc Hw IH]; intros [|a x] [|b y] Hl; cbn in Hl; try lia;
    unfold vadd in *; cbn [vmap2]; rewrite ?wpsum_nil_x, ?wpsum_nil_w, ?wpsum_cons; try lra.
  specialize (IH x y ltac:(lia)). numR. cbn [pow]. rewrite !Rmult_1_r.
  pose proof (Rabs_triang a b). nra.
Qed.

(* ---- maxima ---- *)
Lemma fold_max_ge_init (r : Rvec) a : a <= fold_left nmax r a.
Proof.
  revert a; induction r as [|b r IH]; intros a; cbn [fold_left]; [lra|].
  eapply Rle_trans; [|apply IH]. rewrite nmax_R. apply Rmax_l.
Qed.
Lemma fold_max_ge_in (r : Rvec) a b : In b r -> b <= fold_left nmax r a.
Proof.
  revert a; induction r as [|c r IH]; intros a Hin; [contradiction|].
  cbn [fold_left]. destruct Hin as [->|Hin].
  - eapply Rle_trans; [|apply fold_max_ge_init]. rewrite nmax_R. apply Rmax_r.
  - apply IH; assumption.
Qed.
Lemma fold_max_in (r : Rvec) a : In (fold_left nmax r a) (a :: r).
Proof.
  revert a; induction r as [|c r IH]; intros a; cbn [fold_left]; [left; reflexivity|].
  destruct (IH (nmax a c)) as [He|Hin].
  - rewrite <- He. rewrite nmax_R. unfold Rmax. destruct (Rle_dec a c); [right; left|left]; reflexivity.
  - right; right; assumption.
Qed.

Lemma vmaxl_ge (l : Rvec) b : In b l -> b <= vmaxl l.
Proof.
  destruct l as [|a r]; [contradiction|]. cbn [vmaxl]. intros [->|Hin].
  - apply fold_max_ge_init.
  - apply fold_max_ge_in; assumption.
Qed.
Lemma vmaxl_in (l : Rvec) : l <> [] -> In (vmaxl l) l.
Proof. destruct l as [|a r]; [congruence|]. intros _. apply fold_max_in. Qed.
Lemma vmaxl_le (l : Rvec) m : l <> [] -> (forall b, In b l -> b <= m) -> vmaxl l <= m.
Proof. intros Hne Hall. apply Hall, vmaxl_in, Hne. Qed.
Lemma vmaxl_nonneg (l : Rvec) : Forall (fun a => 0 <= a) l -> 0 <= vmaxl l.
Proof.
  intros Hl. destruct l as [|a r]; [cbn; numR; lra|].
  pose proof (vmaxl_in (a :: r) ltac:(congruence)) as Hin.
  rewrite Forall_forall in Hl. apply Hl, Hin.
Qed.

Lemma vmaxl_scal k (l : Rvec) : 0 <= k -> vmaxl (map (Rmult k) l) = k * vmaxl l.
Proof.
  intros Hk. destruct l as [|a r]; [cbn; numR; lra|].
  apply Rle_antisym.
  - apply vmaxl_le; [cbn; congruence|]. intros b Hb. apply in_map_iff in Hb. destruct Hb as [c [<- Hc]].
    apply Rmult_le_compat_l; [assumption | apply vmaxl_ge, Hc].
  - pose proof (vmaxl_in (a :: r) ltac:(congruence)) as Hin.
    apply vmaxl_ge. apply in_map_iff. eexists; split; [reflexivity | exact Hin].
Qed.

Lemma absw_scal k (x w : Rvec) : vmul (map Rabs (vscal k x)) w = map (Rmult (Rabs k)) (vmul (map Rabs x) w).
Proof.
  revert w; induction x as [|a x IH]; intros [|c w]; try reflexivity.
  unfold vscal, vmul in *. cbn [map vmap2]. rewrite IH. numR. rewrite Rabs_mult. f_equal. ring.
Qed.

Theorem wnorm_inf_homog k (w x : Rvec) : wnorm_inf w (vscal k x) = Rabs k * wnorm_inf w x.
Proof. unfold wnorm_inf. rewrite absw_scal. apply vmaxl_scal, Rabs_pos. Qed.

Lemma absw_nonneg (x w : Rvec) : Forall (fun c => 0 <= c) w -> Forall (fun a => 0 <= a) (vmul (map Rabs x) w).
Proof.
  intros Hw; revert x; induction Hw as [|c w Hc Hw IH]; intros [|a x]; try constructor.
  - numR. pose proof (Rabs_pos a). nra.
  - apply IH.
Qed.

Lemma absw_in_add (w x y : Rvec) b : Forall (fun c => 0 <= c) w -> length x = length y ->
  In b (vmul (map Rabs (vadd x y)) w) ->
  exists u v, In u (vmul (map Rabs x) w) /\ In v (vmul (map Rabs y) w) /\ b <= u + v.
Proof.
  intros Hw; revert x y; induction Hw as [|c w Hc Hw IH]; intros [|a x] [|a' y] Hl Hin; cbn in Hl; try lia;
    try (cbn in Hin; contradiction).
  unfold vadd, vmul in *. cbn [vmap2 map] in *. destruct Hin as [<-|Hin].
  - exists (Rabs a * c), (Rabs a' * c). numR. repeat split; try (left; reflexivity).
    pose proof (Rabs_triang a a'). nra.
  - destruct (IH x y ltac:(lia) Hin) as [u [v [Hu [Hv Hle]]]].
    exists u, v. repeat split; try (right; assumption). assumption.
Qed.

Theorem wnorm_inf_triangle (w x y : Rvec) : Forall (fun c => 0 <= c) w -> length x = length y ->
  wnorm_inf w (vadd x y) <= wnorm_inf w x + wnorm_inf w y.
Proof.
  intros Hw Hl. unfold wnorm_inf.
  destruct (vmul (map Rabs (vadd x y)) w) as [|b0 r0] eqn:E.
  - cbn [vmaxl]. numR.
    pose proof (vmaxl_nonneg _ (absw_nonneg x w Hw)). pose proof (vmaxl_nonneg _ (absw_nonneg y w Hw)). lra.
  - apply vmaxl_le; [congruence|]. intros b Hb. rewrite <- E in Hb.
    destruct (absw_in_add w x y b Hw Hl Hb) as [u [v [Hu [Hv Hle]]]].
    apply vmaxl_ge in Hu. apply vmaxl_ge in Hv. lra.
Qed.

Theorem wnorm_1_triangle (w x y : Rvec) : Forall (fun c => 0 <= c) w -> length x = length y ->
  wnorm_p 1 w (vadd x y) <= wnorm_p 1 w x + wnorm_p 1 w y.
Proof.
  intros Hw Hl. unfold wnorm_p.
  rewrite !Rroot_1 by (apply wpsum_nonneg; assumption). apply wpsum_1_triangle; assumption.
Qed.

Theorem wnorm_2_triangle (w x y : Rvec) : Forall (fun c => 0 < c) w -> length x = length w -> length y = length w ->
  wnorm_p 2 w (vadd x y) <= wnorm_p 2 w x + wnorm_p 2 w y.
Proof.
  intros Hw Hx Hy. unfold wnorm_p.
  rewrite !Rroot_2_sqrt by (apply wpsum_nonneg, Forall_pos_nonneg; assumption).
  rewrite !wpsum_2_wdot.
  pose proof (ti_norm_triangle (length w) (WArr w) (conj eq_refl Hw) x y Hx Hy) as H.
  cbn [t_inner_v] in H. rewrite !wdot_alt in H. exact H.
Qed.

(* ------------------------------------------------------------------ *)
(* the model's norms are the documented ones *)
Lemma vmul_abs_repeat c (x : Rvec) : vmul (map Rabs x) (repeat c (length x)) = map (Rmult c) (map Rabs x).
Proof.
  induction x as [|a x IH]; [reflexivity|]. cbn [length repeat map]. unfold vmul in *. cbn [vmap2].
  rewrite IH. numR. f_equal. ring.
Qed.

Lemma sum1_psum (x : Rvec) : sum1 x = psum 1 x.
Proof.
  unfold sum1, psum. induction x as [|a x IH]; [reflexivity|]. cbn [map]. rewrite !sumf_cons, IH, npow_R.
  numR. cbn [pow]. lra.
Qed.
Lemma dot_psum2 (x : Rvec) : dot x x = psum 2 x.
Proof.
  unfold psum. induction x as [|a x IH]; [reflexivity|]. cbn [map]. rewrite dot_cons, sumf_cons, IH, npow_R.
  numR. cbn [pow]. rewrite Rmult_1_r.
  replace (Rabs a * Rabs a) with (a * a) by (rewrite <- Rabs_mult; symmetry; apply Rabs_pos_eq; nra). lra.
Qed.
Lemma psum_nonneg p (x : Rvec) : 0 <= psum p x.
Proof.
  unfold psum. apply sumf_nonneg. apply Forall_forall. intros b Hb. apply in_map_iff in Hb.
  destruct Hb as [a [<- _]]. rewrite npow_R. numR. apply pow_le, Rabs_pos.
Qed.

Lemma lpnorm_v_fin (p : nat) (x : Rvec) : (1 <= p)%nat -> lpnorm_v (PFin p) x = Rroot p (psum p x).
Proof.
  intros Hp. destruct p as [|[|[|p]]]; try lia; cbn [lpnorm_v]; rootR.
  - rewrite Rroot_1 by apply psum_nonneg. apply sum1_psum.
  - rewrite dot_psum2. reflexivity.
  - reflexivity.
Qed.

Lemma map_npow_pow p (x : Rvec) : map (fun t => npow (nabs t) p) x = map (fun t => Rabs t ^ p) x.
Proof. apply map_ext. intros t. rewrite npow_R. reflexivity. Qed.

(* finite p, any weighting:  norm = (sum_i w_i |x_i|^p)^(1/p) *)
Theorem t_norm_v_fin (p : nat) (w : @tweight R) (x : Rvec) : (1 <= p)%nat -> tw_ok (length x) w ->
  t_norm_v w (PFin p) x = wnorm_p p (tw_vec (length x) w) x.
Proof.
  intros Hp Hw. unfold wnorm_p. destruct w as [c|a]; cbn [tw_vec tw_ok] in *.
  - rewrite wpsum_repeat.
    rewrite Rroot_mult by (try assumption; try lra; apply psum_nonneg).
    assert (E : t_norm_v (WConst c) (PFin p) x = Rroot p c * lpnorm_v (PFin p) x).
    { destruct p as [|[|[|p]]]; try lia; cbn [t_norm_v]; rootR;
        first [reflexivity | cbn [lpnorm_v]; rootR; reflexivity]. }
    rewrite E, lpnorm_v_fin by assumption. reflexivity.
  - destruct Hw as [Hl Hpos].
    assert (Hnn : 0 <= wpsum p a x) by (apply wpsum_nonneg, Forall_pos_nonneg; assumption).
    destruct p as [|[|[|p]]]; try lia; cbn [t_norm_v]; rootR.
    + rewrite map_npow_pow. reflexivity.
    + rewrite wdot_alt, <- wpsum_2_wdot.
      destruct (nltb (wpsum 2 a x) nzero) eqn:E; [|reflexivity].
      apply nltb_R_true in E. numR. lra.
    + rewrite map_npow_pow. reflexivity.
Qed.

(* p = inf:  c * max|x|  resp.  max(w |x|) *)
Theorem t_norm_v_inf (w : @tweight R) (x : Rvec) : tw_ok (length x) w ->
  t_norm_v w PInf x = wnorm_inf (tw_vec (length x) w) x.
Proof.
  intros Hw. unfold wnorm_inf. destruct w as [c|a]; cbn [tw_vec tw_ok t_norm_v] in *.
  - rewrite vmul_abs_repeat, vmaxl_scal by lra. reflexivity.
  - reflexivity.
Qed.

(* p = 2: norm = sqrt(inner(x, x)) *)
Theorem t_norm_v_2_inner (w : @tweight R) (x : Rvec) : tw_ok (length x) w ->
  t_norm_v w (PFin 2) x = sqrt (t_inner_v w x x).
Proof.
  intros Hw. rewrite t_norm_v_fin by (auto; lia). unfold wnorm_p.
  rewrite wpsum_2_wdot, <- t_inner_wdot by reflexivity.
  apply Rroot_2_sqrt. apply (ti_nonneg (length x) w Hw). reflexivity.
Qed.

(* the outcome-level functions return exactly these values on non-empty data *)
Lemma t_norm_ok (w : @tweight R) p (x : Rvec) : t_norm w p x = Ok (t_norm_v w p x).
Proof. reflexivity. Qed.
Lemma t_inner_ok (w : @tweight R) (x y : Rvec) : t_inner w (PFin 2) x y = Ok (t_inner_v w x y).
Proof. reflexivity. Qed.
Lemma t_inner_notimpl (w : @tweight R) p (x y : Rvec) : is2 p = false -> t_inner w p x y = NotImpl.
Proof. unfold t_inner. intros ->. reflexivity. Qed.

(* dist: the duplicated formulas of ConstWeighting.dist are norm(x - y) *)
Theorem t_dist_v_norm (w : @tweight R) p (x y : Rvec) : t_dist_v w p x y = t_norm_v w p (vsub x y).
Proof. destruct w as [c|a]; [|reflexivity]. destruct p as [|[|[|[|p]]]]; reflexivity. Qed.
Lemma t_dist_ok (w : @tweight R) p (x y : Rvec) : t_dist w p x y = Ok (t_norm_v w p (vsub x y)).
Proof. unfold t_dist. rewrite t_dist_v_norm. reflexivity. Qed.

Lemma vsub_swap (x y : Rvec) : vsub y x = vscal (-1) (vsub x y).
Proof.
  revert y; induction x as [|a x IH]; intros [|b y]; try reflexivity.
  unfold vsub, vscal in *. cbn [vmap2 map]. rewrite IH. numR. f_equal. ring.
Qed.

(* all norms of the model, any exponent: absolute homogeneity *)
Theorem t_norm_v_homog (w : @tweight R) p k (x : Rvec) :
  tw_ok (length x) w -> (match p with PFin q => (1 <= q)%nat | PInf => True end) ->
  t_norm_v w p (vscal k x) = Rabs k * t_norm_v w p x.
Proof.
  intros Hw Hp. destruct p as [|q].
  - rewrite !t_norm_v_inf by (rewrite ?vscal_length; assumption). rewrite vscal_length. apply wnorm_inf_homog.
  - rewrite !t_norm_v_fin by (rewrite ?vscal_length; assumption). rewrite vscal_length.
    apply wnorm_p_homog; [assumption|]. apply Forall_pos_nonneg, tw_vec_pos, Hw.
Qed.

Theorem t_dist_v_sym (w : @tweight R) p (x y : Rvec) : length x = length y ->
  tw_ok (length x) w -> (match p with PFin q => (1 <= q)%nat | PInf => True end) ->
  t_dist_v w p x y = t_dist_v w p y x.
Proof.
  intros Hl Hw Hp. rewrite !t_dist_v_norm, (vsub_swap x y).
  rewrite t_norm_v_homog; [| rewrite vsub_length; assumption | assumption].
  assert (E1 : Rabs (-1) = 1) by (unfold Rabs; destruct (Rcase_abs (-1)); lra).
  rewrite E1. lra.
Qed.

(* triangle inequality, p in {1, 2, inf} *)
Theorem t_norm_v_triangle (w : @tweight R) p (x y : Rvec) : length x = length y -> tw_ok (length x) w ->
  (p = PFin 1 \/ p = PFin 2 \/ p = PInf) ->
  t_norm_v w p (vadd x y) <= t_norm_v w p x + t_norm_v w p y.
Proof.
  intros Hl Hw Hp.
  assert (Hwy : tw_ok (length y) w) by (rewrite <- Hl; assumption).
  assert (Hwa : tw_ok (length (vadd x y)) w) by (rewrite vadd_length; assumption).
  pose proof (tw_vec_pos _ _ Hw) as Hpos. pose proof (tw_vec_length _ _ Hw) as Hlen.
  destruct Hp as [->|[->| ->]].
  - rewrite !t_norm_v_fin by (auto; lia). rewrite vadd_length, <- Hl by assumption.
    apply wnorm_1_triangle; [apply Forall_pos_nonneg|]; assumption.
  - rewrite !t_norm_v_fin by (auto; lia). rewrite vadd_length, <- Hl by assumption.
    apply wnorm_2_triangle; [assumption | lia | lia].
  - rewrite !t_norm_v_inf by auto. rewrite vadd_length, <- Hl by assumption.
    apply wnorm_inf_triangle; [apply Forall_pos_nonneg|]; assumption.
Qed.

(* memory layout: any simultaneous re-ordering of (w, x, y) leaves the weighted sums unchanged *)
Fixpoint zip3 (w x y : Rvec) : list (R * R * R) :=
  match w, x, y with
  | c :: w', a :: x', b :: y' => (c, a, b) :: zip3 w' x' y'
  | _, _, _ => []
  end.
Lemma wdot_zip3 (w x y : Rvec) : wdot w x y = sumf (map (fun t => let '(c, a, b) := t in c * (a * b)) (zip3 w x y)).
Proof.
  revert x y; induction w as [|c w IH]; intros x y; [reflexivity|].
  destruct x as [|a x]; [reflexivity|]. destruct y as [|b y]; [reflexivity|].
  rewrite wdot_cons. cbn [zip3 map]. rewrite sumf_cons, IH. reflexivity.
Qed.
Theorem wdot_layout_invariant (w x y w' x' y' : Rvec) :
  Permutation (zip3 w x y) (zip3 w' x' y') -> wdot w x y = wdot w' x' y'.
Proof. intros Hp. rewrite !wdot_zip3. apply sumf_perm, Permutation_map, Hp. Qed.

(* packaged statements used by Props.v *)
Lemma ti_linear (n : nat) (w : @tweight R) (a : R) (x y z : Rvec) :
  tw_ok n w -> length x = n -> length y = n -> length z = n ->
  t_inner_v w (vadd (vscal a x) y) z = a * t_inner_v w x z + t_inner_v w y z.
Proof.
  intros Hw Hx Hy Hz.
  rewrite (ti_add_l n w) by (rewrite ?vscal_length; assumption).
  rewrite (ti_scal_l n w) by assumption. reflexivity.
Qed.
Lemma ti_positive (n : nat) (w : @tweight R) (x : Rvec) :
  tw_ok n w -> length x = n ->
  0 <= t_inner_v w x x /\ (t_inner_v w x x = 0 -> Forall (fun a => a = 0) x).
Proof. intros Hw Hx. split; [apply (ti_nonneg n w Hw x Hx) | apply (ti_definite n w Hw x Hx)]. Qed.
Lemma t_calls_total (w : @tweight R) (p : expo) (x y : Rvec) :
  t_inner w (PFin 2) x y = Ok (t_inner_v w x y) /\
  t_norm w p x = Ok (t_norm_v w p x) /\
  t_dist w p x y = Ok (t_norm_v w p (vsub x y)).
Proof. split; [reflexivity|]. split; [reflexivity | apply t_dist_ok]. Qed.
Lemma ti_sym_pkg (n : nat) (w : @tweight R) (x y : Rvec) :
  tw_ok n w -> length x = n -> length y = n -> t_inner_v w x y = t_inner_v w y x.
Proof. intros _. apply ti_sym. Qed.
Lemma ti_cs_pkg (n : nat) (w : @tweight R) (x y : Rvec) :
  tw_ok n w -> length x = n -> length y = n ->
  t_inner_v w x y * t_inner_v w x y <= t_inner_v w x x * t_inner_v w y y.
Proof. intros Hw. apply (ti_cauchy_schwarz n w Hw). Qed.
