(* C02/Roots.v -- the p-th root on R (the proof instance of Model.Root) and powers. *)
From Coq Require Import ZArith Reals Lra Lia List Bool Psatz.
From Verif Require Import Base.Num Base.Vec Base.VecR C02.Model.
Import ListNotations.
Local Open Scope R_scope.

Definition Rroot (p : nat) (x : R) : R :=
  if Rle_dec x 0 then 0 else exp (ln x / INR p).
Global Instance Root_R : Root R := {| nroot := Rroot |}.

Ltac rootR := cbn [nroot Root_R] in *.

Lemma npow_R (x : R) (n : nat) : npow x n = x ^ n.
Proof. induction n as [|n IH]; cbn [npow pow]; numR; [reflexivity | rewrite IH; reflexivity]. Qed.

Lemma exp_pow_nat (a : R) (n : nat) : exp a ^ n = exp (INR n * a).
Proof.
  induction n as [|n IH].
  - cbn. rewrite Rmult_0_l, exp_0. reflexivity.
  - rewrite S_INR. cbn [pow]. rewrite IH, <- exp_plus. f_equal. lra.
Qed.

Lemma Rroot_nonneg p x : 0 <= Rroot p x.
Proof. unfold Rroot. destruct (Rle_dec x 0); [lra | left; apply exp_pos]. Qed.

Lemma Rroot_0 p : Rroot p 0 = 0.
Proof. unfold Rroot. destruct (Rle_dec 0 0); [reflexivity | lra]. Qed.

Lemma Rroot_pow p x : (1 <= p)%nat -> 0 <= x -> Rroot p x ^ p = x.
Proof.
  intros Hp Hx. unfold Rroot. destruct (Rle_dec x 0) as [Hle|Hgt].
  - assert (x = 0) by lra. subst. destruct p; [lia|]. cbn. lra.
  - rewrite exp_pow_nat.
    replace (INR p * (ln x / INR p)) with (ln x).
    + apply exp_ln. lra.
    + field. apply not_0_INR. lia.
Qed.

Lemma pow_lt_nonneg (a b : R) (p : nat) : (1 <= p)%nat -> 0 <= a -> a < b -> a ^ p < b ^ p.
Proof.
  intros Hp Ha Hab. induction p as [|p IH]; [lia|].
  destruct p as [|p].
  - cbn. lra.
  - assert (H1 : a ^ S p < b ^ S p) by (apply IH; lia).
    assert (H0 : 0 <= a ^ S p) by (apply pow_le; lra).
    change (a * a ^ S p < b * b ^ S p). nra.
Qed.

Lemma pow_inj_nonneg (a b : R) (p : nat) :
  (1 <= p)%nat -> 0 <= a -> 0 <= b -> a ^ p = b ^ p -> a = b.
Proof.
  intros Hp Ha Hb He.
  destruct (Rtotal_order a b) as [Hl|[Heq|Hg]]; [|assumption|].
  - pose proof (pow_lt_nonneg a b p Hp Ha Hl). lra.
  - pose proof (pow_lt_nonneg b a p Hp Hb Hg). lra.
Qed.

Lemma Rroot_unique p x y : (1 <= p)%nat -> 0 <= y -> y ^ p = x -> Rroot p x = y.
Proof.
  intros Hp Hy He.
  assert (Hx : 0 <= x) by (rewrite <- He; apply pow_le; assumption).
  apply (pow_inj_nonneg _ _ p Hp (Rroot_nonneg p x) Hy).
  rewrite Rroot_pow by assumption. symmetry; assumption.
Qed.

Lemma Rroot_of_pow p y : (1 <= p)%nat -> 0 <= y -> Rroot p (y ^ p) = y.
Proof. intros Hp Hy. apply Rroot_unique; auto. Qed.

Lemma Rroot_mult p a b : (1 <= p)%nat -> 0 <= a -> 0 <= b ->
  Rroot p (a * b) = Rroot p a * Rroot p b.
Proof.
  intros Hp Ha Hb. apply Rroot_unique; [assumption| |].
  - apply Rmult_le_pos; apply Rroot_nonneg.
  - rewrite Rpow_mult_distr, !Rroot_pow by assumption. reflexivity.
Qed.

Lemma Rroot_1 x : 0 <= x -> Rroot 1 x = x.
Proof. intros Hx. apply Rroot_unique; [lia | assumption | cbn; lra]. Qed.

Lemma Rroot_2_sqrt x : 0 <= x -> Rroot 2 x = sqrt x.
Proof.
  intros Hx. apply Rroot_unique; [lia | apply sqrt_pos |].
  cbn. rewrite Rmult_1_r. apply sqrt_sqrt. assumption.
Qed.

Lemma Rroot_le p a b : (1 <= p)%nat -> 0 <= a -> a <= b -> Rroot p a <= Rroot p b.
Proof.
  intros Hp Ha Hab.
  destruct (Rle_lt_dec (Rroot p a) (Rroot p b)) as [H|H]; [assumption|].
  pose proof (pow_lt_nonneg _ _ p Hp (Rroot_nonneg p b) H) as Hlt.
  rewrite !Rroot_pow in Hlt by (assumption || lra). lra.
Qed.

Lemma Rroot_pos_zero p x : (1 <= p)%nat -> 0 <= x -> Rroot p x = 0 -> x = 0.
Proof.
  intros Hp Hx Hr. rewrite <- (Rroot_pow p x Hp Hx), Hr.
  destruct p; [lia|]. cbn. lra.
Qed.

(* |a|^p root *)
Lemma Rroot_scale p (a s : R) : (1 <= p)%nat -> 0 <= s ->
  Rroot p (Rabs a ^ p * s) = Rabs a * Rroot p s.
Proof.
  intros Hp Hs. rewrite Rroot_mult; auto.
  - rewrite Rroot_of_pow; auto. apply Rabs_pos.
  - apply pow_le, Rabs_pos.
Qed.

(* booleans of the model at R *)
Lemma nltb_R_true a b : (@nltb R _ a b) = true <-> a < b.
Proof. numR. destruct (Rltb_spec a b); split; intros; try assumption; try reflexivity; try discriminate; contradiction. Qed.
Lemma nleb_R_true a b : (@nleb R _ a b) = true <-> a <= b.
Proof. numR. destruct (Rleb_spec a b); split; intros; try assumption; try reflexivity; try discriminate; contradiction. Qed.
Lemma neqb_R_true a b : (@neqb R _ a b) = true <-> a = b.
Proof. numR. destruct (Reqb_spec a b); split; intros; try assumption; try reflexivity; try discriminate; contradiction. Qed.
