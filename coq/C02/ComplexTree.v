(* C02/ComplexTree.v -- complex spaces of any nesting, elements as (re, im) trees: the
   product-space inner product gathered as x1i.inner(x2i) is
     ( <xr,yr> + <xi,yi> ,  <xi,yr> - <xr,yi> )      (<.,.> the real tree inner product),
   hence conjugate-symmetric and linear in the FIRST argument over C. *)
From Coq Require Import ZArith Reals Lra Lia List Bool Psatz.
From Verif Require Import Base.Num Base.Vec Base.VecR C02.Model C02.Roots C02.IPS C02.TensorR C02.DiscrR C02.TreeR.
Import ListNotations.
Local Open Scope R_scope.

Lemma bind_ok {A B} (o : outcome A) (f : A -> outcome B) v :
  bind o f = Ok v -> exists u, o = Ok u /\ f u = Ok v.
Proof. destruct o; cbn; intros H; try discriminate. eexists; split; [reflexivity | exact H]. Qed.

Lemma sumf_vadd (x y : Rvec) : length x = length y -> sumf (vadd x y) = sumf x + sumf y.
Proof.
  revert y; induction x as [|a x IH]; intros [|b y] Hl; cbn in Hl; try lia; [cbn; numR; lra|].
  unfold vadd in *. cbn [vmap2]. rewrite !sumf_cons, IH by lia. numR. lra.
Qed.
Lemma sumf_vsub (x y : Rvec) : length x = length y -> sumf (vsub x y) = sumf x - sumf y.
Proof.
  revert y; induction x as [|a x IH]; intros [|b y] Hl; cbn in Hl; try lia; [cbn; numR; lra|].
  unfold vsub in *. cbn [vmap2]. rewrite !sumf_cons, IH by lia. numR. lra.
Qed.
Lemma dot_vadd_l' (x x' y : Rvec) : length x = length x' -> dot (vadd x x') y = dot x y + dot x' y.
Proof.
  revert x' y; induction x as [|a x IH]; intros [|a' x'] y Hl; cbn in Hl; try lia; [unfold vadd; cbn [vmap2]; rewrite !dot_nil_l; lra|].
  destruct y as [|b y]; [unfold dot, vadd, vmul; cbn [vmap2 sumf]; numR; lra|].
  unfold vadd in *. cbn [vmap2]. rewrite !dot_cons, IH by lia. numR. lra.
Qed.
Lemma dot_vsub_l' (x x' y : Rvec) : length x = length x' -> dot (vsub x x') y = dot x y - dot x' y.
Proof.
  revert x' y; induction x as [|a x IH]; intros [|a' x'] y Hl; cbn in Hl; try lia; [unfold vsub; cbn [vmap2]; rewrite !dot_nil_l; lra|].
  destruct y as [|b y]; [unfold dot, vsub, vmul; cbn [vmap2 sumf]; numR; lra|].
  unfold vsub in *. cbn [vmap2]. rewrite !dot_cons, IH by lia. numR. lra.
Qed.
Lemma comb_vadd w (x y : Rvec) : length x = length y ->
  ps_inner_comb w (vadd x y) = ps_inner_comb w x + ps_inner_comb w y.
Proof. intros Hl. destruct w; cbn [ps_inner_comb]; [rewrite sumf_vadd by assumption; numR; ring | apply dot_vadd_l'; assumption]. Qed.
Lemma comb_vsub w (x y : Rvec) : length x = length y ->
  ps_inner_comb w (vsub x y) = ps_inner_comb w x - ps_inner_comb w y.
Proof. intros Hl. destruct w; cbn [ps_inner_comb]; [rewrite sumf_vsub by assumption; numR; ring | apply dot_vsub_l'; assumption]. Qed.

Lemma collect2_length q cs : forall xs ys v, collect2 (sp_inner q) cs xs ys = Ok v -> length v = length cs.
Proof.
  induction cs as [|c cs IH]; intros [|x xs] [|y ys] v H; cbn in H; try discriminate.
  - injection H as <-. reflexivity.
  - apply bind_ok in H. destruct H as (u & _ & H). apply bind_ok in H. destruct H as (us & H1 & H2).
    injection H2 as <-. cbn. f_equal. eapply IH; eassumption.
Qed.

(* the structural decomposition, for every space tree *)
Theorem csp_inner_decomp q (s : @space R) : forall xr xi yr yi a b c d,
  sp_inner q s xr yr = Ok a -> sp_inner q s xi yi = Ok b ->
  sp_inner q s xi yr = Ok c -> sp_inner q s xr yi = Ok d ->
  csp_inner q s xr xi yr yi = Ok (a + b, c - d).
Proof.
  induction s as [lf|w p cs IH] using space_ind'; intros xr xi yr yi a b c d Ha Hb Hc Hd.
  - destruct xr as [ar|]; [|discriminate]. destruct yr as [br|]; [|discriminate].
    destruct xi as [ai|]; [|discriminate]. destruct yi as [bi|]; [|discriminate].
    cbn [sp_inner csp_inner] in *. destruct lf as [lw p | axes lw p]; cbn [leaf_inner c_leaf_inner] in *.
    + unfold t_inner in *. destruct (is2 p); [|discriminate].
      injection Ha as <-. injection Hb as <-. injection Hc as <-. injection Hd as <-. reflexivity.
    + unfold t_inner in *. destruct (is2 p); cbn [negb].
      * destruct (unif_weighted q axes (d_weight axes lw p) p);
          injection Ha as <-; injection Hb as <-; injection Hc as <-; injection Hd as <-; reflexivity.
      * destruct (unif_weighted q axes (d_weight axes lw p) p); discriminate.
  - destruct xr as [|xrs]; [discriminate|]. destruct yr as [|yrs]; [cbn in Ha; discriminate|].
    destruct xi as [|xis]; [discriminate|]. destruct yi as [|yis]; [cbn in Hb; discriminate|].
    cbn [sp_inner csp_inner] in *. destruct (negb (is2 p)); [discriminate|].
    + apply bind_ok in Ha. destruct Ha as (va & Ea & Ha). injection Ha as <-.
      apply bind_ok in Hb. destruct Hb as (vb & Eb & Hb). injection Hb as <-.
      apply bind_ok in Hc. destruct Hc as (vc & Ec & Hc). injection Hc as <-.
      apply bind_ok in Hd. destruct Hd as (vd & Ed & Hd). injection Hd as <-.
      assert (Hz : exists zs, collect4 (csp_inner q) cs xrs xis yrs yis = Ok zs /\
                   map fst zs = vadd va vb /\ map snd zs = vsub vc vd).
      { clear w. revert xrs xis yrs yis va vb vc vd Ea Eb Ec Ed.
        induction IH as [|c cs Hc0 _ IHcs]; intros xrs xis yrs yis va vb vc vd Ea Eb Ec Ed.
        - destruct xrs, yrs; cbn in Ea; try discriminate. destruct xis, yis; cbn in Eb; try discriminate.
          injection Ea as <-. injection Eb as <-. cbn in Ec, Ed. injection Ec as <-. injection Ed as <-.
          exists []. repeat split.
        - destruct xrs as [|xr xrs], yrs as [|yr yrs]; cbn in Ea; try discriminate.
          destruct xis as [|xi xis], yis as [|yi yis]; cbn in Eb; try discriminate.
          cbn in Ec, Ed.
          apply bind_ok in Ea. destruct Ea as (a1 & Ea1 & Ea). apply bind_ok in Ea. destruct Ea as (va' & Ea2 & Ea). injection Ea as <-.
          apply bind_ok in Eb. destruct Eb as (b1 & Eb1 & Eb). apply bind_ok in Eb. destruct Eb as (vb' & Eb2 & Eb). injection Eb as <-.
          apply bind_ok in Ec. destruct Ec as (c1 & Ec1 & Ec). apply bind_ok in Ec. destruct Ec as (vc' & Ec2 & Ec). injection Ec as <-.
          apply bind_ok in Ed. destruct Ed as (d1 & Ed1 & Ed). apply bind_ok in Ed. destruct Ed as (vd' & Ed2 & Ed). injection Ed as <-.
          destruct (IHcs xrs xis yrs yis va' vb' vc' vd' Ea2 Eb2 Ec2 Ed2) as (zs & Ez & F1 & F2).
          exists ((a1 + b1, c1 - d1) :: zs).
          cbn [collect4]. fold (collect4 (csp_inner q)).
          rewrite (Hc0 xr xi yr yi a1 b1 c1 d1 Ea1 Eb1 Ec1 Ed1). cbn [bind]. rewrite Ez. cbn [bind].
          split; [reflexivity|]. cbn [map fst snd]. rewrite F1, F2. split; reflexivity. }
      destruct Hz as (zs & Ez & F1 & F2). rewrite Ez. cbn [bind]. unfold cps_inner_comb. rewrite F1, F2.
      pose proof (collect2_length q _ _ _ _ Ea) as La. pose proof (collect2_length q _ _ _ _ Eb) as Lb.
      pose proof (collect2_length q _ _ _ _ Ec) as Lc. pose proof (collect2_length q _ _ _ _ Ed) as Ld.
      rewrite comb_vadd, comb_vsub by congruence. reflexivity.
Qed.

(* ---------- on exponent-2 trees: value, conjugate symmetry, linearity over C ---------- *)
Section CTree.
Variable q : quirks.
Variable s : @space R.
Variable x0 : @elem R.
Hypothesis Hx0 : hshape s x0.
Let okx := same_shape x0.
Let tip := tree_ip q s x0.

Theorem csp_inner_value xr xi yr yi : okx xr -> okx xi -> okx yr -> okx yi ->
  csp_inner q s xr xi yr yi = Ok (tip xr yr + tip xi yi, tip xi yr - tip xr yi).
Proof.
  intros Hxr Hxi Hyr Hyi.
  apply csp_inner_decomp; apply (tree_inner_value q s x0 Hx0); assumption.
Qed.

(* <y, x> = conj <x, y> *)
Theorem csp_inner_conj_sym xr xi yr yi : okx xr -> okx xi -> okx yr -> okx yi ->
  exists re im, csp_inner q s xr xi yr yi = Ok (re, im) /\ csp_inner q s yr yi xr xi = Ok (re, - im).
Proof.
  intros Hxr Hxi Hyr Hyi. eexists; eexists. split; [apply csp_inner_value; assumption|].
  rewrite csp_inner_value by assumption. unfold tip.
  rewrite (tree_ip_sym q s x0 yr xr), (tree_ip_sym q s x0 yi xi), (tree_ip_sym q s x0 yi xr), (tree_ip_sym q s x0 yr xi) by assumption.
  f_equal. f_equal; lra.
Qed.

(* a x + z for a = ar + i ai, on (re, im) trees *)
Definition ce_re (ar ai : R) (xr xi zr : @elem R) : @elem R := eadd (eadd (escal ar xr) (escal (- ai) xi)) zr.
Definition ce_im (ar ai : R) (xr xi zi : @elem R) : @elem R := eadd (eadd (escal ar xi) (escal ai xr)) zi.

Lemma okx_lin a b u v z : okx u -> okx v -> okx z -> okx (eadd (eadd (escal a u) (escal b v)) z).
Proof. intros. repeat first [assumption | apply (okx_add x0) | apply (okx_scal x0)]. Qed.
Lemma tip_lin a b u v z y : okx u -> okx v -> okx z -> okx y ->
  tip (eadd (eadd (escal a u) (escal b v)) z) y = a * tip u y + b * tip v y + tip z y.
Proof.
  intros Hu Hv Hz Hy. unfold tip.
  rewrite (tree_ip_add_l q s x0) by (repeat first [assumption | apply (okx_add x0) | apply (okx_scal x0)]).
  rewrite (tree_ip_add_l q s x0) by (repeat first [assumption | apply (okx_scal x0)]).
  rewrite !(tree_ip_scal_l q s x0) by assumption. reflexivity.
Qed.

(* <a x + z, y> = a <x, y> + <z, y>  with complex multiplication written out *)
Theorem csp_inner_linear_first ar ai xr xi zr zi yr yi :
  okx xr -> okx xi -> okx zr -> okx zi -> okx yr -> okx yi ->
  exists re im zre zim,
    csp_inner q s xr xi yr yi = Ok (re, im) /\ csp_inner q s zr zi yr yi = Ok (zre, zim) /\
    csp_inner q s (ce_re ar ai xr xi zr) (ce_im ar ai xr xi zi) yr yi
      = Ok (ar * re - ai * im + zre, ar * im + ai * re + zim).
Proof.
  intros Hxr Hxi Hzr Hzi Hyr Hyi. do 4 eexists.
  split; [apply csp_inner_value; assumption|]. split; [apply csp_inner_value; assumption|].
  unfold ce_re, ce_im. rewrite csp_inner_value by (try assumption; apply okx_lin; assumption).
  rewrite !tip_lin by assumption. f_equal. f_equal; ring.
Qed.

(* <x, x> is real and non-negative, zero only for x = 0 *)
Theorem csp_inner_positive xr xi : okx xr -> okx xi ->
  exists re, csp_inner q s xr xi xr xi = Ok (re, 0) /\ 0 <= re /\
    (re = 0 -> Forall (fun t => t = 0) (flat xr) /\ Forall (fun t => t = 0) (flat xi)).
Proof.
  intros Hxr Hxi. exists (tip xr xr + tip xi xi).
  pose proof (tree_ip_nonneg q s x0 Hx0 xr Hxr) as N1. pose proof (tree_ip_nonneg q s x0 Hx0 xi Hxi) as N2.
  fold tip in N1, N2.
  split.
  - rewrite csp_inner_value by assumption. unfold tip at 3. rewrite (tree_ip_sym q s x0 xi xr) by assumption.
    fold tip. f_equal. f_equal. lra.
  - split; [lra|]. intros Hz.
    split; [apply (tree_ip_definite q s x0 Hx0 xr Hxr) | apply (tree_ip_definite q s x0 Hx0 xi Hxi)]; fold tip; lra.
Qed.
End CTree.

(* one node, component-sum formula with complex components:
   <x, y> = c * sum_i <x_i, y_i>_i   resp.   sum_i w_i <x_i, y_i>_i   (re and im separately, real weights) *)
Lemma csp_inner_node q w c cs (xrs xis yrs yis : list (@elem R)) (zs : list (R * R)) :
  collect4 (csp_inner q) (c :: cs) xrs xis yrs yis = Ok zs ->
  csp_inner q (SProd w (PFin 2) (c :: cs)) (ENode xrs) (ENode xis) (ENode yrs) (ENode yis)
  = Ok (match w with
        | PWConst k => (k * sumf (map fst zs), k * sumf (map snd zs))
        | PWArr a => (dot (map fst zs) a, dot (map snd zs) a)
        end).
Proof. intros E. cbn [csp_inner is2 negb]. rewrite E. destruct w; reflexivity. Qed.
