(* C02/GenSem.v -- meaning of the regenerated dispatch tables over any carrier. *)
From Coq Require Import ZArith QArith List Bool.
From Verif Require Import Base.Num Base.Vec C02.Model C02.GenSyntax.
Import ListNotations.
Local Open Scope num_scope.

(* which kernel _inner_default runs for a dtype class (real?) and a size regime (> THRESHOLD_MEDIUM?) *)
Fixpoint ksel (real large : bool) (t : ktree) : kernel :=
  match t with
  | KLeaf k => k
  | KIf KIsReal a b => if real then ksel real large a else ksel real large b
  | KIf KIsLarge a b => if large then ksel real large a else ksel real large b
  end.

Section Sem.
Context {T : Type} `{Num T} `{Root T}.

(* e ** (1 / exponent);  1 / inf = 0 and e ** 0 = 1 *)
Definition pinv (p : expo) (t : T) : T := match p with PFin k => nroot k t | PInf => none_ end.

Section Env.
Variables (c : T) (arr : list T) (p : expo) (x y v : list T).
Definition eval_arg (a : warg) : list T :=
  match a with AX => x | AY => y | AXmY => vsub x y | AXw => vmul x arr | AV => v end.
Fixpoint eval (e : wexpr) : T :=
  match e with
  | WC => c
  | WSqrt e => nroot 2 (eval e)
  | WMul a b => eval a * eval b
  | WPowInv e => pinv p (eval e)
  | WNrm2 a => nroot 2 (dot (eval_arg a) (eval_arg a))
  | WPnorm a => lpnorm_v p (eval_arg a)
  | WDot a b => dot (eval_arg a) (eval_arg b)
  end.
Definition holds (cd : wcond) : bool :=
  match cd with
  | CExp2 => is2 p | CExpNot2 => negb (is2 p) | CExpInf => isinf p | CExp1Inf => is1inf p | CElse => true
  end.
Fixpoint eval_tab (tab : wtable) : T :=
  match tab with
  | [] => nzero
  | (cd, e) :: tab' => if holds cd then eval e else eval_tab tab'
  end.
Definition eval_scale (s : wscale) : list T :=
  match s with SWeights => vmul v arr | SWeightsPowInv => vmul v (map (pinv p) arr) end.
Fixpoint eval_scale_tab (tab : list (wcond * wscale)) : list T :=
  match tab with
  | [] => v
  | (cd, s) :: tab' => if holds cd then eval_scale s else eval_scale_tab tab'
  end.
End Env.

(* is_uniformly_weighted as a disjunction of atoms *)
Definition eval_uatom (axes : list (@axis T)) (w : @tweight T) (p : expo) (a : uatom) : bool :=
  match a with
  | UAllClose => all_close1 axes
  | UExpInf => isinf p
  | UNotWeighted => negb (is_weighted w)
  end.
Definition is_unw (a : uatom) : bool := match a with UNotWeighted => true | _ => false end.

(* _scaling_func_list: the factor applied to one boundary slice *)
Definition eval_fscale (s : fscale) (r : T -> T) (f : T) : T :=
  match s with FIdentity => none_ | FMulPowInv => r f end.
Definition eval_side (g : wcond_frac * fscale * fscale) (r : T -> T) (f : T) : T :=
  let '(_, a, b) := g in if close1 f then eval_fscale a r f else eval_fscale b r f.

(* uniform_discr_frompartition: default weighting constant *)
Definition eval_datom (axes : list (@axis T)) (p : expo) (a : datom) : bool :=
  match a with DExpInf => isinf p | DNdim0 => match axes with [] => true | _ => false end end.
Definition eval_dval (axes : list (@axis T)) (d : dval) : T :=
  match d with DOne => none_ | DCellVolume => cell_volume axes end.
Definition eval_default (g : list datom * dval * dval) (axes : list (@axis T)) (p : expo) : T :=
  let '(atoms, a, b) := g in
  if existsb (eval_datom axes p) atoms then eval_dval axes a else eval_dval axes b.
End Sem.
