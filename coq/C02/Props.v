(* C02/Props.v -- property theorems only; each is closed by [exact] of a lemma from
   C02/{Roots,IPS,TensorR,DiscrR,TreeR}.v (re-exported by C02/Proofs.v) and followed by
   Print Assumptions.  The model (C02/Model.v) is hand-written and tied to /repo by the
   in-Coq correspondence (C02/Corr.v, harness/c02.py) on every run.
   Carrier: R.  Arrays are flat lists; [tw_ok n w] says the weighting is a positive constant
   or an array of n positive entries; [tw_vec n w] is its weight vector. *)
From Coq Require Import QArith Qreals Reals List Bool Permutation.
From Verif Require Import Base.Num Base.Vec Base.VecR C02.Model C02.Proofs.
From Verif Require Import C02.GenSyntax C02.GenSem Gen.Weighting C02.GenTie C02.Transfer.
Import ListNotations.
Local Open Scope R_scope.

(* ================= tensor spaces (NumpyTensorSpace{Const,Array}Weighting) ================= *)

(* the inner product equals the documented weighted sum  sum_i w_i x_i y_i *)
Theorem tensor_inner_weighted_sum : forall (w : @tweight R) (x y : list R),
  length x = length y -> t_inner_v w x y = wdot (tw_vec (length x) w) x y.
Proof. exact t_inner_wdot. Qed.
Print Assumptions tensor_inner_weighted_sum.

Theorem tensor_inner_symmetric : forall (n : nat) (w : @tweight R) (x y : list R),
  tw_ok n w -> length x = n -> length y = n -> t_inner_v w x y = t_inner_v w y x.
Proof. exact ti_sym_pkg. Qed.
Print Assumptions tensor_inner_symmetric.

Theorem tensor_inner_linear_first : forall (n : nat) (w : @tweight R) (a : R) (x y z : list R),
  tw_ok n w -> length x = n -> length y = n -> length z = n ->
  t_inner_v w (vadd (vscal a x) y) z = a * t_inner_v w x z + t_inner_v w y z.
Proof. exact ti_linear. Qed.
Print Assumptions tensor_inner_linear_first.

Theorem tensor_inner_positive : forall (n : nat) (w : @tweight R) (x : list R),
  tw_ok n w -> length x = n ->
  0 <= t_inner_v w x x /\ (t_inner_v w x x = 0 -> Forall (fun a => a = 0) x).
Proof. exact ti_positive. Qed.
Print Assumptions tensor_inner_positive.

Theorem tensor_cauchy_schwarz : forall (n : nat) (w : @tweight R) (x y : list R),
  tw_ok n w -> length x = n -> length y = n ->
  t_inner_v w x y * t_inner_v w x y <= t_inner_v w x x * t_inner_v w y y.
Proof. exact ti_cs_pkg. Qed.
Print Assumptions tensor_cauchy_schwarz.

(* p = 2: the norm the code computes (sqrt(c) * nrm2(x), resp. sqrt(max(inner, 0))) is sqrt(inner(x,x)) *)
Theorem tensor_norm2_sqrt_inner : forall (w : @tweight R) (x : list R),
  tw_ok (length x) w -> t_norm_v w (PFin 2) x = sqrt (t_inner_v w x x).
Proof. exact t_norm_v_2_inner. Qed.
Print Assumptions tensor_norm2_sqrt_inner.

(* every finite natural exponent: the norm is the documented (sum_i w_i |x_i|^p)^(1/p),
   i.e. c^(1/p) ||x||_p for constant weighting; p = inf: max_i w_i |x_i|, i.e. c ||x||_inf *)
Theorem tensor_norm_documented_p : forall (p : nat) (w : @tweight R) (x : list R),
  (1 <= p)%nat -> tw_ok (length x) w ->
  t_norm_v w (PFin p) x = Rroot p (sumf (vmul (map (fun t => Rabs t ^ p) x) (tw_vec (length x) w))).
Proof. exact t_norm_v_fin. Qed.
Print Assumptions tensor_norm_documented_p.
Theorem tensor_norm_documented_inf : forall (w : @tweight R) (x : list R),
  tw_ok (length x) w -> t_norm_v w PInf x = vmaxl (vmul (map Rabs x) (tw_vec (length x) w)).
Proof. exact t_norm_v_inf. Qed.
Print Assumptions tensor_norm_documented_inf.

(* absolute homogeneity, EVERY exponent (inf and all natural p >= 1) *)
Theorem tensor_norm_homogeneous : forall (w : @tweight R) (p : expo) (k : R) (x : list R),
  tw_ok (length x) w -> (match p with PFin q => (1 <= q)%nat | PInf => True end) ->
  t_norm_v w p (vscal k x) = Rabs k * t_norm_v w p x.
Proof. exact t_norm_v_homog. Qed.
Print Assumptions tensor_norm_homogeneous.

(* triangle inequality, EVERY exponent (Minkowski for every natural p >= 1, and inf) *)
Theorem tensor_norm_triangle : forall (w : @tweight R) (p : expo) (x y : list R),
  length x = length y -> tw_ok (length x) w ->
  (match p with PFin q => (1 <= q)%nat | PInf => True end) ->
  t_norm_v w p (vadd x y) <= t_norm_v w p x + t_norm_v w p y.
Proof. exact t_norm_v_triangle_all. Qed.
Print Assumptions tensor_norm_triangle.

(* dist(x, y) = norm(x - y) (the duplicated formulas of ConstWeighting.dist), and symmetric *)
Theorem tensor_dist_norm_sub : forall (w : @tweight R) (p : expo) (x y : list R),
  t_dist_v w p x y = t_norm_v w p (vsub x y).
Proof. exact t_dist_v_norm. Qed.
Print Assumptions tensor_dist_norm_sub.
Theorem tensor_dist_symmetric : forall (w : @tweight R) (p : expo) (x y : list R),
  length x = length y -> tw_ok (length x) w ->
  (match p with PFin q => (1 <= q)%nat | PInf => True end) ->
  t_dist_v w p x y = t_dist_v w p y x.
Proof. exact t_dist_v_sym. Qed.
Print Assumptions tensor_dist_symmetric.

(* the call-level functions return exactly these values and never raise, empty arrays included
   (norm 0: fix commits 9526a83 / 6e7d07d made this the behaviour of the code) *)
Theorem tensor_calls_total : forall (w : @tweight R) (p : expo) (x y : list R),
  t_inner w (PFin 2) x y = Ok (t_inner_v w x y) /\
  t_norm w p x = Ok (t_norm_v w p x) /\
  t_dist w p x y = Ok (t_norm_v w p (vsub x y)).
Proof. exact t_calls_total. Qed.
Print Assumptions tensor_calls_total.

(* C / F memory layout: any simultaneous re-ordering of weights and data leaves the sum unchanged *)
Theorem tensor_layout_invariant : forall (w x y w' x' y' : list R),
  Permutation (zip3 w x y) (zip3 w' x' y') -> wdot w x y = wdot w' x' y'.
Proof. exact wdot_layout_invariant. Qed.
Print Assumptions tensor_layout_invariant.

(* ================= uniformly discretized spaces ================= *)

(* uniform_grid_fromintv: for each of the four nodes_on_bdry formulas, every n >= 2 and every
   interval, the partition is well-formed and the boundary-cell fractions are exactly 1/2
   (node on the boundary) or 1 *)
Theorem grid_boundary_fractions : forall (n : nat) (a b : R) (bl br : bool),
  (2 <= n)%nat -> a < b ->
  ax_ok (mk_axis n a b bl br) /\
  ax_fracs (mk_axis n a b bl br) = ((if bl then / 2 else 1), (if br then / 2 else 1)).
Proof. exact mk_axis_fracs. Qed.
Print Assumptions grid_boundary_fractions.

(* cell-volume quadrature with boundary-cell fractions: for ANY number of axes, ANY number of
   points per axis (one-point axes included) and ANY position of a uniform grid inside the
   domain:  cell_volume * sum(boundary weight array) = volume of the domain *)
Theorem quadrature_weights_sum_to_volume : forall axes : list (@axis R),
  Forall ax_ok axes -> Forall ax_exact axes ->
  cell_volume axes * sumf (bdry_w (fun f => f) axes) = extent_volume axes.
Proof. exact volume_times_weight_sum. Qed.
Print Assumptions quadrature_weights_sum_to_volume.

(* ... hence <one, one> = ||one||^2 = domain volume, at the level of DiscretizedSpace._inner
   with the default weighting.  FULL statement (no side condition on the cell volume):
     forall q axes, Forall ax_ok axes -> Forall ax_exact axes -> axes <> [] ->
       leaf_inner q (LDiscr axes LDefault (PFin 2)) ones ones = Ok (extent_volume axes)
   It is FALSE of the faithful model for today's code (q_unweighted_skips = true) when the
   cell volume is exactly 1: finding discr-unit-cell-volume-skips-bdry-fractions. *)
Theorem discr_one_norm_sq_partial : forall q (axes : list (@axis R)),
  Forall ax_ok axes -> Forall ax_exact axes -> axes <> [] ->
  (q_unweighted_skips q = false \/ cell_volume axes <> 1) ->
  leaf_inner q (LDiscr axes LDefault (PFin 2)) (repeat 1 (npoints axes)) (repeat 1 (npoints axes))
  = Ok (extent_volume axes).
Proof. exact discr_one_inner. Qed.
Print Assumptions discr_one_norm_sq_partial.

Theorem discr_one_norm_sq_refuted : exists q (axes : list (@axis R)),
  q_unweighted_skips q = true /\ Forall ax_ok axes /\ Forall ax_exact axes /\ axes <> [] /\
  leaf_inner q (LDiscr axes LDefault (PFin 2)) (repeat 1 (npoints axes)) (repeat 1 (npoints axes))
  <> Ok (extent_volume axes).
Proof. exact discr_one_refuted. Qed.
Print Assumptions discr_one_norm_sq_refuted.

(* the same on uniform_discr inputs: [specs] lists, per axis, the number of points n >= 1, the
   interval a < b and nodes_on_bdry = (bl, br); default weighting, exponent 2.  Then
   <one, one> = prod (b - a)  and  ||one|| = sqrt(prod (b - a)), under the same side condition. *)
Theorem uniform_discr_one_norm_is_sqrt_volume_partial : forall q (specs : list axspec),
  specs <> [] -> Forall spec_ok specs ->
  let axes := map axis_of specs in
  let one := repeat 1 (npoints axes) in
  (q_unweighted_skips q = false \/ cell_volume axes <> 1) ->
  leaf_inner q (LDiscr axes LDefault (PFin 2)) one one
    = Ok (fold_right (fun s acc => (s_b s - s_a s) * acc) 1 specs) /\
  leaf_norm q (LDiscr axes LDefault (PFin 2)) one
    = Ok (sqrt (fold_right (fun s acc => (s_b s - s_a s) * acc) 1 specs)).
Proof. exact uniform_discr_one_norm. Qed.
Print Assumptions uniform_discr_one_norm_is_sqrt_volume_partial.

(* non-vacuity: uniform_discr(0, 1, 3, nodes_on_bdry=True) satisfies every premise *)
Example discr_premises_satisfiable :
  let axes := [mk_axis 3 0 1 true true] in
  Forall ax_ok axes /\ Forall ax_exact axes /\ cell_volume axes <> 1.
Proof. exact discr_example. Qed.

(* ================= product spaces (ProductSpace{Const,Array}Weighting), arbitrary nesting ========== *)

(* one node: <x, y> = c * sum_i <x_i, y_i>_i  resp.  sum_i w_i <x_i, y_i>_i *)
Theorem pspace_inner_component_sum : forall q w c cs (xs ys : list (@elem R)) (v : list R),
  collect2 (sp_inner q) (c :: cs) xs ys = Ok v ->
  sp_inner q (SProd w (PFin 2) (c :: cs)) (ENode xs) (ENode ys)
  = Ok (match w with PWConst k => k * sumf v | PWArr a => dot v a end).
Proof. exact pspace_inner_node. Qed.
Print Assumptions pspace_inner_component_sum.

(* all trees (any depth, any arity >= 1, tensor or discretized leaves, constant or array weights
   at every level), all nodes and leaves with exponent 2 -- [hshape s x0]: the inner product never
   raises, equals the weighted dot product of the flattened data (weights = leaf weight times the
   component weights along the path), is symmetric, linear in the first argument, positive
   definite and satisfies Cauchy-Schwarz.  [same_shape x0 x]: x has the shape of x0. *)
Theorem pspace_inner_product_space : forall q (s : @space R) (x0 : @elem R), hshape s x0 ->
  let ok := same_shape x0 in let ip := tree_ip q s x0 in
  (forall x y, ok x -> ok y -> sp_inner q s x y = Ok (ip x y)) /\
  (forall x y, ok x -> ok y -> ip x y = wdot (flat_w q s x0) (flat x) (flat y)) /\
  (forall x y, ok x -> ok y -> ip x y = ip y x) /\
  (forall a x y z, ok x -> ok y -> ok z -> ip (eadd (escal a x) y) z = a * ip x z + ip y z) /\
  (forall x, ok x -> 0 <= ip x x /\ (ip x x = 0 -> Forall (fun t => t = 0) (flat x))) /\
  (forall x y, ok x -> ok y -> ip x y * ip x y <= ip x x * ip y y).
Proof. exact pspace_ips. Qed.
Print Assumptions pspace_inner_product_space.

Example pspace_premise_satisfiable :
  let lf := SLeaf (LTensor (LConst 2) (PFin 2)) in
  let s := SProd (PWArr [1; 3]) (PFin 2) [lf; SProd (PWConst (/ 2)) (PFin 2) [lf]] in
  hshape s (ENode [ELeaf [1; 2]; ENode [ELeaf [0; 5; 1]]]).
Proof. exact hilbert_tree_example. Qed.

(* FULL statement "dist(x,y) = norm(x-y) on every product space" is FALSE of the faithful model of
   today's code (q_ps2_via_inner = true): on ProductSpace(rn(3, exponent=1), 2, exponent=2) dist
   returns a value while norm(x - y) raises NotImplementedError
   (finding pspace-exp2-over-exp1-components). *)
Theorem pspace_dist_norm_refuted : exists q (s : @space R) (x y : @elem R),
  q_ps2_via_inner q = true /\
  (exists d, sp_dist q s x y = Ok d) /\ sp_norm q s (esub x y) = NotImpl.
Proof. exact pspace_norm_refuted. Qed.
Print Assumptions pspace_dist_norm_refuted.

(* ================= complex tensor spaces, data as (re, im) ================= *)
(* c_inner_v w xr xi yr yi = (Re, Im) of  sum_i w_i x_i conj(y_i)   (_inner_default = vdot(x2, x1)) *)

Theorem complex_inner_conjugate_symmetric : forall (n : nat) (w : @tweight R) (xr xi yr yi : list R),
  length xr = n -> length xi = n -> length yr = n -> length yi = n ->
  c_inner_v w yr yi xr xi = (fst (c_inner_v w xr xi yr yi), - snd (c_inner_v w xr xi yr yi)).
Proof. exact c_inner_conj_sym. Qed.
Print Assumptions complex_inner_conjugate_symmetric.

(* <a x + z, y> = a <x, y> + <z, y> for a = ar + i ai *)
Theorem complex_inner_linear_first : forall (n : nat) (w : @tweight R) (ar ai : R) (xr xi zr zi yr yi : list R),
  length xr = n -> length xi = n -> length zr = n -> length zi = n -> length yr = n -> length yi = n ->
  let '(re, im) := c_inner_v w xr xi yr yi in
  let '(zre, zim) := c_inner_v w zr zi yr yi in
  c_inner_v w (vadd (cscal_r ar ai xr xi) zr) (vadd (cscal_i ar ai xr xi) zi) yr yi
  = (ar * re - ai * im + zre, ar * im + ai * re + zim).
Proof. exact c_inner_linear_first. Qed.
Print Assumptions complex_inner_linear_first.

Theorem complex_inner_positive : forall (n : nat) (w : @tweight R), tw_ok n w -> forall xr xi : list R,
  length xr = n -> length xi = n ->
  snd (c_inner_v w xr xi xr xi) = 0 /\ 0 <= fst (c_inner_v w xr xi xr xi) /\
  (fst (c_inner_v w xr xi xr xi) = 0 -> Forall (fun a => a = 0) xr /\ Forall (fun a => a = 0) xi).
Proof. exact c_inner_positive. Qed.
Print Assumptions complex_inner_positive.

Theorem complex_cauchy_schwarz : forall (n : nat) (w : @tweight R), tw_ok n w -> forall xr xi yr yi : list R,
  length xr = n -> length xi = n -> length yr = n -> length yi = n ->
  let '(re, im) := c_inner_v w xr xi yr yi in
  re * re + im * im <= fst (c_inner_v w xr xi xr xi) * fst (c_inner_v w yr yi yr yi).
Proof. exact c_cauchy_schwarz. Qed.
Print Assumptions complex_cauchy_schwarz.

(* ================= leaves (tensor AND discretized), every exponent ================= *)
(* [leaf_okp lf n]: positive weights, exponent inf or natural p >= 1, n entries, well-formed
   partition.  [leaf_w q lf n]: (tensor-space weight) x (boundary-cell fractions), the fractions
   being present exactly when the code applies them.  [leaf_norm_v]: the documented weighted
   p-norm  (sum_i W_i |x_i|^p)^(1/p)  resp.  max_i w_i |x_i|. *)

(* DiscretizedSpace._norm scales boundary slices by frac^(1/p) and calls the tensor norm:
   the result IS the documented weighted p-norm, no exception is raised *)
Theorem leaf_norm_documented : forall q (lf : @leaf R) (x : list R),
  leaf_okp lf (length x) -> leaf_norm q lf x = Ok (leaf_norm_v q lf x).
Proof. exact leaf_norm_value. Qed.
Print Assumptions leaf_norm_documented.

(* dist(x, y) = norm(x - y) on every leaf, including DiscretizedSpace._dist which scales x and y separately *)
Theorem leaf_dist_is_norm_of_difference : forall q (lf : @leaf R) (x y : list R),
  leaf_okp lf (length x) -> length y = length x ->
  leaf_dist q lf x y = Ok (leaf_norm_v q lf (vsub x y)).
Proof. exact leaf_dist_value. Qed.
Print Assumptions leaf_dist_is_norm_of_difference.

Theorem leaf_norm_homogeneous : forall q (lf : @leaf R) (k : R) (x : list R),
  leaf_okp lf (length x) -> leaf_norm_v q lf (vscal k x) = Rabs k * leaf_norm_v q lf x.
Proof. exact leaf_norm_homog. Qed.
Print Assumptions leaf_norm_homogeneous.

Theorem leaf_norm_triangle_inequality : forall q (lf : @leaf R) (x y : list R),
  leaf_okp lf (length x) -> length y = length x ->
  leaf_norm_v q lf (vadd x y) <= leaf_norm_v q lf x + leaf_norm_v q lf y.
Proof. exact leaf_norm_triangle. Qed.
Print Assumptions leaf_norm_triangle_inequality.

(* exponent 2: inner(x, x) is the weighted sum and norm = sqrt(inner(x, x)) on every leaf *)
Theorem leaf_norm2_sqrt_inner : forall q (lf : @leaf R) (x : list R),
  leaf_okp lf (length x) -> leaf_expo lf = PFin 2 ->
  leaf_inner q lf x x = Ok (wdot (leaf_w q lf (length x)) x x) /\
  leaf_norm_v q lf x = sqrt (wdot (leaf_w q lf (length x)) x x).
Proof. exact leaf_norm2_inner. Qed.
Print Assumptions leaf_norm2_sqrt_inner.

(* ================= nested product spaces, mixed exponents ================= *)
(* [normable q s x]: every node has exponent inf or natural p >= 1, positive weights and >= 1
   component; an exponent-2 node that goes through inner (today's code) sits on an all-exponent-2
   subtree.  [sp_norm_v]: the documented value -- weighted p-norm [comb_v] of the vector of
   component norms (weights w_i for every p, i.e. norms scaled by w_i^(1/p)), sqrt(inner) at
   exponent-2 nodes. *)

(* the code's combination of component norms is the documented weighted p-norm of their vector *)
Theorem pspace_norm_from_component_norms : forall (w : @pweight R) (p : expo) (norms : list R),
  pvalid p -> pw_ok (length norms) w -> norms <> [] ->
  ps_norm_comb w p norms = Ok (comb_v w p norms).
Proof. exact ps_norm_comb_value. Qed.
Print Assumptions pspace_norm_from_component_norms.

Theorem pspace_norm_total : forall q (s : @space R) (x : @elem R), normable q s x ->
  sp_norm q s x = Ok (sp_norm_v q s x) /\ 0 <= sp_norm_v q s x.
Proof. exact sp_norm_value. Qed.
Print Assumptions pspace_norm_total.

Theorem pspace_norm_homogeneous : forall q (s : @space R) (k : R) (x : @elem R), normable q s x ->
  sp_norm_v q s (escal k x) = Rabs k * sp_norm_v q s x.
Proof. exact sp_norm_homog. Qed.
Print Assumptions pspace_norm_homogeneous.

Theorem pspace_norm_triangle_inequality : forall q (s : @space R) (x y : @elem R),
  normable q s x -> same_shape x y ->
  sp_norm_v q s (eadd x y) <= sp_norm_v q s x + sp_norm_v q s y.
Proof. exact sp_norm_triangle. Qed.
Print Assumptions pspace_norm_triangle_inequality.

(* dist(x, y) = norm(x - y) and dist(y, x) = dist(x, y) on EVERY normable tree: leaves, array- and
   constant-weighted product spaces of any exponent, including the exponent-2 node of today's code
   where norm goes through the components' inner products while dist goes through their norms
   ([hleaves_ok]: the leaves below such a node hold at least one entry and are not 0-d).
   The unrestricted statement (any components under an exponent-2 node) is refuted above. *)
Theorem pspace_dist_is_norm_of_difference_and_symmetric : forall q (s : @space R) (x y : @elem R),
  normable q s x -> same_shape x y ->
  (match s with
   | SProd (PWConst _) p _ => is2 p && q_ps2_via_inner q = true -> hleaves_ok s x
   | _ => True end) ->
  sp_dist q s x y = Ok (sp_norm_v q s (esub x y)) /\
  sp_dist q s y x = Ok (sp_norm_v q s (esub x y)).
Proof. exact sp_dist_all. Qed.
Print Assumptions pspace_dist_is_norm_of_difference_and_symmetric.

(* non-vacuity of [normable] with mixed exponents: an exponent-inf product of an exponent-1 tensor
   space and an exponent-3 product space *)
Example normable_example :
  let l1 := SLeaf (LTensor (LConst 2) (PFin 1)) in
  let l3 := SLeaf (LTensor (LArr [1; 2]) (PFin 3)) in
  let s := SProd (PWArr [1; 3]) PInf [l1; SProd (PWConst (/ 2)) (PFin 3) [l3; l1]] in
  normable wit_quirks s (ENode [ELeaf [1; 2]; ENode [ELeaf [0; 5]; ELeaf [1]]]).
Proof. exact normable_example_proof. Qed.

(* ================= complex spaces of any nesting, elements as (re, im) trees ================= *)
(* [csp_inner] mirrors ProductSpace{Const,Array}Weighting.inner on complex components: the component
   inner products are gathered as x1i.inner(x2i) (this operand order) and combined with real weights. *)

(* one node: <x, y> = c * sum_i <x_i, y_i>_i resp. sum_i w_i <x_i, y_i>_i, re and im separately *)
Theorem complex_pspace_inner_component_sum : forall q w c cs (xrs xis yrs yis : list (@elem R)) (zs : list (R * R)),
  collect4 (csp_inner q) (c :: cs) xrs xis yrs yis = Ok zs ->
  csp_inner q (SProd w (PFin 2) (c :: cs)) (ENode xrs) (ENode xis) (ENode yrs) (ENode yis)
  = Ok (match w with
        | PWConst k => (k * sumf (map fst zs), k * sumf (map snd zs))
        | PWArr a => (dot (map fst zs) a, dot (map snd zs) a)
        end).
Proof. exact csp_inner_node. Qed.
Print Assumptions complex_pspace_inner_component_sum.

(* every space tree: (Re, Im) <x, y> = (<xr,yr> + <xi,yi>, <xi,yr> - <xr,yi>) in terms of the real
   tree inner product -- whenever those four exist *)
Theorem complex_pspace_inner_decomposition : forall q (s : @space R) xr xi yr yi a b c d,
  sp_inner q s xr yr = Ok a -> sp_inner q s xi yi = Ok b ->
  sp_inner q s xi yr = Ok c -> sp_inner q s xr yi = Ok d ->
  csp_inner q s xr xi yr yi = Ok (a + b, c - d).
Proof. exact csp_inner_decomp. Qed.
Print Assumptions complex_pspace_inner_decomposition.

(* all exponent-2 trees (any depth/arity, const / array / default weights at every level):
   conjugate symmetry *)
Theorem complex_pspace_inner_conjugate_symmetric : forall q (s : @space R) (x0 : @elem R), hshape s x0 ->
  forall xr xi yr yi, same_shape x0 xr -> same_shape x0 xi -> same_shape x0 yr -> same_shape x0 yi ->
  exists re im, csp_inner q s xr xi yr yi = Ok (re, im) /\ csp_inner q s yr yi xr xi = Ok (re, - im).
Proof. exact csp_inner_conj_sym. Qed.
Print Assumptions complex_pspace_inner_conjugate_symmetric.

(* ... linearity in the FIRST argument with a complex scalar a = ar + i ai:
   <a x + z, y> = a <x, y> + <z, y>  ([ce_re], [ce_im]: re and im trees of a x + z) *)
Theorem complex_pspace_inner_linear_first : forall q (s : @space R) (x0 : @elem R), hshape s x0 ->
  forall ar ai xr xi zr zi yr yi,
  same_shape x0 xr -> same_shape x0 xi -> same_shape x0 zr -> same_shape x0 zi ->
  same_shape x0 yr -> same_shape x0 yi ->
  exists re im zre zim,
    csp_inner q s xr xi yr yi = Ok (re, im) /\ csp_inner q s zr zi yr yi = Ok (zre, zim) /\
    csp_inner q s (ce_re ar ai xr xi zr) (ce_im ar ai xr xi zi) yr yi
      = Ok (ar * re - ai * im + zre, ar * im + ai * re + zim).
Proof. exact csp_inner_linear_first. Qed.
Print Assumptions complex_pspace_inner_linear_first.

(* ... <x, x> is real, >= 0, and 0 only for x = 0 *)
Theorem complex_pspace_inner_positive : forall q (s : @space R) (x0 : @elem R), hshape s x0 ->
  forall xr xi, same_shape x0 xr -> same_shape x0 xi ->
  exists re, csp_inner q s xr xi xr xi = Ok (re, 0) /\ 0 <= re /\
    (re = 0 -> Forall (fun t => t = 0) (flat xr) /\ Forall (fun t => t = 0) (flat xi)).
Proof. exact csp_inner_positive. Qed.
Print Assumptions complex_pspace_inner_positive.

(* ================= tie to the source by regeneration ================= *)
(* Gen/Weighting.v is re-emitted from the CURRENT source on every run by translate/weighting.py
   (fail closed).  Over ANY carrier (so for the executed Q instance and the proved R instance) the
   hand-written model computes exactly what the generated dispatch tables say: the three-way
   exponent dispatch and formulas of NumpyTensorSpaceConstWeighting.norm/.dist, the inner formulas
   of both tensor weightings, the combination rules of ProductSpaceConstWeighting.norm/.dist and
   ProductSpaceArrayWeighting.norm, the disjunction in DiscretizedSpace.is_uniformly_weighted (the
   model's variant switches [gen_quirks] are read off the generated code), the per-slice factor of
   _scaling_func_list and the default weighting of uniform_discr_frompartition. *)
Theorem model_follows_generated_dispatch : forall (T : Type) (HN : Num T) (HR : Root T),
  (forall (c : T) p x, t_norm_v (WConst c) p x = eval_tab c [] p x [] [] gen_tconst_norm) /\
  (forall (c : T) p x y, t_dist_v (WConst c) p x y = eval_tab c [] p x y [] gen_tconst_dist) /\
  (forall (c : T) p x y, t_inner_v (WConst c) x y = eval c [] p x y [] gen_tconst_inner) /\
  (forall (a : list T) p x y, t_inner_v (WArr a) x y = eval nzero a p x y [] gen_tarr_inner) /\
  (forall (c : T) p dn n, lpnorm p dn = Ok n ->
     ps_dist_comb_const c p dn = Ok (eval_tab c [] p [] [] dn gen_pconst_dist)) /\
  (forall (c : T) p norms n, lpnorm p norms = Ok n ->
     ps_norm_comb (PWConst c) p norms = Ok (eval_tab c [] p [] [] norms gen_pconst_norm)) /\
  (forall (a : list T) p norms,
     ps_norm_comb (PWArr a) p norms = lpnorm p (eval_scale_tab a p norms gen_parr_norm_scaling)) /\
  (forall (axes : list (@axis T)) (w : @tweight T) p,
     unif_weighted gen_quirks axes w p = existsb (eval_uatom axes w p) gen_unif_weighted) /\
  (forall (r : T -> T) (f : T), (if close1 f then none_ else r f) = eval_side gen_scaling r f) /\
  (forall (axes : list (@axis T)) p,
     d_weight axes LDefault p = WConst (eval_default gen_default_weighting axes p)).
Proof. exact model_follows_generated. Qed.
Print Assumptions model_follows_generated_dispatch.

(* _inner_default, regenerated decision tree: for every size regime (below / above THRESHOLD_MEDIUM)
   real dtypes run the bilinear sum and complex dtypes the sum with the second argument conjugated
   -- the two kernels the model uses ([dot], [c_inner_v]); moving a condition breaks this proof *)
Theorem inner_kernel_dispatch_all_sizes : forall large : bool,
  ksel true large gen_inner_default = KBilinear /\ ksel false large gen_inner_default = KConjSecond.
Proof. exact tie_inner_default. Qed.
Print Assumptions inner_kernel_dispatch_all_sizes.

(* ================= executed instance = rational restriction of the proved instance ================= *)
(* The inner product of every space tree (tensor and discretized leaves with partitions,
   boundary-cell fractions, isclose snapping, boundary weight array, is_uniformly_weighted; nested
   product spaces with every weighting) evaluated at Q by the correspondence shards IS the model the
   theorems above speak about, restricted to rationals: Q2R commutes with [sp_inner], error
   outcomes included.  [space_divs_ok]: the grid of every axis with n <> 1 points has nonzero
   stride (the only divisions of the root-free model). *)
Theorem inner_Q_instance_is_restriction_of_R_instance : forall q (s : @space Q) (x y : @elem Q),
  space_divs_ok s ->
  omap Q2R (sp_inner q s x y) = sp_inner q (space_map Q2R s) (elem_map Q2R x) (elem_map Q2R y).
Proof. exact sp_inner_transfer. Qed.
Print Assumptions inner_Q_instance_is_restriction_of_R_instance.
