(* C02/Props.v -- property theorems only. *)
From Coq Require Import Reals List Bool.
From Verif Require Import Base.Num Base.Vec Base.VecR C02.Model C02.Proofs.
