(* C02/TreeDist.v -- dist(x, y) = norm(x - y) on constant-weighted exponent-2 product spaces over
   exponent-2 components (the branch where norm goes through inner and dist through the component
   norms), and symmetry of dist on every tree. *)
From Coq Require Import ZArith Reals Lra Lia List Bool Psatz.
From Verif Require Import Base.Num Base.Vec Base.VecR C02.Model C02.Roots C02.IPS C02.TensorR C02.DiscrR
  C02.TreeR C02.Mink C02.LeafR C02.TreeNorm.
Import ListNotations.
Local Open Scope R_scope.

(* leaves of an exponent-2 tree hold data and are not 0-d *)
Fixpoint hleaves_ok (s : @space R) (x : @elem R) {struct s} : Prop :=
  match s, x with
  | SLeaf lf, ELeaf a => leaf_okp lf (length a) /\ a <> []
  | SProd _ _ cs, ENode xs => all2 hleaves_ok cs xs
  | _, _ => False
  end.

Lemma hleaves_shape (s : @space R) : forall x y, hleaves_ok s x -> same_shape x y -> hleaves_ok s y.
Proof.
  induction s as [lf|w p cs IH] using space_ind'; intros [a|xs] [b|ys] Hl Hsh;
    cbn [hleaves_ok same_shape] in *; try tauto.
  - rewrite <- Hsh. split; [tauto|]. destruct Hl as [_ Hne]. destruct a; [congruence|]. destruct b; [cbn in Hsh; lia | congruence].
  - revert xs ys Hl Hsh. induction IH as [|c cs Hc _ IHcs]; intros [|x xs] [|y ys] Hl Hsh; cbn in *; try tauto.
    destruct Hl, Hsh. split; [eapply Hc; eassumption | eapply IHcs; eassumption].
Qed.

Lemma hilbert_normable q (s : @space R) (x : @elem R) : q_ps2_via_inner q = true ->
  hshape s x -> hleaves_ok s x -> normable q s x.
Proof.
  intros Hq Hs Hl. destruct s as [lf|w p cs]; destruct x as [a|xs]; cbn [hshape hleaves_ok normable] in *; try tauto.
  destruct Hs as (-> & Hne & Hw & Hall). cbn [is2 pvalid]. rewrite Hq. cbn [andb].
  repeat split; try assumption; try lia.
Qed.

Lemma hilbert_norm q (s : @space R) (x : @elem R) : q_ps2_via_inner q = true ->
  hshape s x -> hleaves_ok s x ->
  sp_norm_v q s x = sqrt (wdot (flat_w q s x) (flat x) (flat x)).
Proof.
  intros Hq Hs Hl. destruct s as [lf|w p cs]; destruct x as [a|xs]; cbn [hshape hleaves_ok] in *; try tauto.
  - cbn [sp_norm_v flat_w flat]. apply leaf_norm2_inner; [tauto|].
    destruct lf; cbn [leaf_ok2 leaf_expo] in *; tauto.
  - destruct Hs as (-> & _). cbn [sp_norm_v is2]. rewrite Hq. reflexivity.
Qed.

Lemma dot_map_sqrt (v : Rvec) : Forall (fun a => 0 <= a) v -> dot (map sqrt v) (map sqrt v) = sumf v.
Proof.
  induction 1 as [|a v Ha _ IH]; [reflexivity|]. cbn [map]. rewrite dot_cons, sumf_cons, IH, sqrt_sqrt by assumption. reflexivity.
Qed.

Lemma hilbert_components q (cs : list (@space R)) : q_ps2_via_inner q = true ->
  forall ds, all2 hshape cs ds -> all2 hleaves_ok cs ds ->
  exists v, collect2 (sp_inner q) cs ds ds = Ok v /\ Forall (fun a => 0 <= a) v /\
            collect1 (sp_norm q) cs ds = Ok (map sqrt v).
Proof.
  intros Hq. induction cs as [|c0 cs IH]; intros [|d ds] Hall HlD; cbn in Hall, HlD; try tauto.
  - exists []. repeat split; constructor.
  - destruct Hall as [H1 H2], HlD as [L1 L2]. destruct (IH ds H2 L2) as (v & E2 & P2 & N2).
    destruct (sp_inner_flat q c0 d d H1 (same_shape_refl _)) as (E1 & _ & P1).
    exists (wdot (flat_w q c0 d) (flat d) (flat d) :: v).
    cbn [collect2 collect1]. fold (collect2 (sp_inner q)). fold (collect1 (sp_norm q)).
    rewrite E1. cbn [bind]. rewrite E2. cbn [bind].
    destruct (sp_norm_value q c0 d (hilbert_normable q c0 d Hq H1 L1)) as [En _].
    rewrite En. cbn [bind]. rewrite N2. cbn [bind map].
    rewrite (hilbert_norm q c0 d Hq H1 L1).
    repeat split. constructor; [apply wdot_self_nonneg, Forall_pos_nonneg; assumption | assumption].
Qed.

Theorem sp_dist_hilbert_const q c cs (xs ys : list (@elem R)) : q_ps2_via_inner q = true ->
  let s := SProd (PWConst c) (PFin 2) cs in
  hshape s (ENode xs) -> hleaves_ok s (ENode xs) -> same_shape (ENode xs) (ENode ys) ->
  sp_dist q s (ENode xs) (ENode ys) = Ok (sp_norm_v q s (esub (ENode xs) (ENode ys))).
Proof.
  intros Hq s Hs Hl Hsh.
  destruct (flat_esub (ENode xs) (ENode ys) Hsh) as [_ Hsd].
  pose proof (hshape_shape s _ _ Hs Hsd) as HsD.
  cbn [esub] in *. set (ds := zip_with esub xs ys) in *.
  pose proof (hleaves_shape s _ _ Hl Hsd) as HlD.
  rewrite (hilbert_norm q s (ENode ds) Hq HsD HlD).
  destruct (sp_inner_flat q s (ENode ds) (ENode ds) HsD (same_shape_refl _)) as (Ein & _ & Ppos).
  pose proof HsD as HsD'. cbn [hshape] in HsD'. destruct HsD' as (_ & Hne & Hw & Hall). cbn [pw_ok] in Hw.
  cbn [hleaves_ok] in HlD.
  (* component-wise: inner products and norms of the differences *)
  pose proof (hilbert_components q cs Hq ds Hall HlD) as Hcomp.
  destruct Hcomp as (v & Ec2 & Pv & Ec1).
  destruct cs as [|c0 cs0]; [congruence|]. subst s.
  set (S := SProd (PWConst c) (PFin 2) (c0 :: cs0)) in *.
  assert (Eeq : c * sumf v = wdot (flat_w q S (ENode ds)) (flat (ENode ds)) (flat (ENode ds))).
  { pose proof Ein as E'. unfold S in E'. cbn [sp_inner is2 negb] in E'. rewrite Ec2 in E'.
    cbn [bind ps_inner_comb] in E'. injection E' as E'. exact E'. }
  unfold S at 1. cbn [sp_dist esub is_nil andb]. fold ds. rewrite Ec1. cbn [bind]. unfold ps_dist_comb_const.
  rewrite lpnorm_fin_ok. cbn [bind lpnorm_v]. rootR. f_equal.
  rewrite dot_map_sqrt by assumption. rewrite <- Eeq.
  rewrite <- Rroot_mult by (try lia; try lra; apply sumf_nonneg; assumption).
  apply Rroot_2_sqrt. apply Rmult_le_pos; [lra | apply sumf_nonneg; assumption].
Qed.

(* symmetry: norm(y - x) = norm(x - y) on every tree *)
Lemma esub_swap x : forall y, same_shape x y -> esub y x = escal (-1) (esub x y).
Proof.
  induction x as [a|xs IH] using elem_ind'; intros [b|ys] Hsh; cbn [same_shape] in Hsh; try tauto.
  - cbn [esub escal]. rewrite vsub_swap. reflexivity.
  - cbn [esub escal]. f_equal. revert ys Hsh.
    induction IH as [|x xs Hx _ IHxs]; intros [|y ys] Hsh; cbn in Hsh; try tauto; try reflexivity.
    destruct Hsh as [H1 H2]. cbn [zip_with map]. fold (@zip_with (@elem R) esub).
    rewrite (Hx y H1), (IHxs ys H2). reflexivity.
Qed.

Theorem sp_dist_norm_symmetric q (s : @space R) (x y : @elem R) : normable q s x -> same_shape x y ->
  sp_norm_v q s (esub y x) = sp_norm_v q s (esub x y).
Proof.
  intros Hn Hsh. rewrite (esub_swap x y Hsh).
  destruct (flat_esub x y Hsh) as [_ Hsd].
  rewrite sp_norm_homog by (eapply normable_shape; eassumption).
  assert (E1 : Rabs (-1) = 1) by (unfold Rabs; destruct (Rcase_abs (-1)); lra). rewrite E1. lra.
Qed.

(* dist(x, y) = norm(x - y) on EVERY normable tree (exponent-2 leaves of the through-inner
   branch must hold data), and dist is symmetric *)
Theorem sp_dist_all q (s : @space R) (x y : @elem R) : normable q s x -> same_shape x y ->
  (match s with
   | SProd (PWConst _) p _ => is2 p && q_ps2_via_inner q = true -> hleaves_ok s x
   | _ => True end) ->
  sp_dist q s x y = Ok (sp_norm_v q s (esub x y)) /\
  sp_dist q s y x = Ok (sp_norm_v q s (esub x y)).
Proof.
  intros Hn Hsh Hl.
  assert (Hsh' : same_shape y x) by (apply same_shape_sym; assumption).
  pose proof (normable_shape q s x y Hn Hsh) as Hny.
  assert (Hone : forall u v, normable q s u -> same_shape u v ->
            (match s with SProd (PWConst _) p _ => is2 p && q_ps2_via_inner q = true -> hleaves_ok s u | _ => True end) ->
            sp_dist q s u v = Ok (sp_norm_v q s (esub u v))).
  { clear. intros u v Hn Hsh Hl. destruct s as [lf|[c|a] p cs].
    - apply sp_dist_value; auto.
    - destruct (is2 p && q_ps2_via_inner q) eqn:Eb.
      + apply andb_true_iff in Eb. destruct Eb as [E2 Eq].
        destruct p as [|[|[|[|k]]]]; try discriminate.
        destruct u as [a|us]; [cbn in Hn; tauto|]. destruct v as [b|vs]; [cbn in Hsh; tauto|].
        apply sp_dist_hilbert_const; try assumption; [|apply Hl; reflexivity].
        cbn [normable] in Hn. destruct Hn as (_ & _ & _ & Hr). cbn [is2] in Hr. rewrite Eq in Hr. exact Hr.
      + apply sp_dist_value; auto.
    - apply sp_dist_value; auto. }
  split; [apply Hone; assumption|].
  rewrite Hone; [f_equal; apply sp_dist_norm_symmetric; assumption | assumption | assumption |].
  destruct s as [lf|[c|a] p cs]; auto. intros Hb. eapply hleaves_shape; [apply Hl, Hb | assumption].
Qed.

Lemma normable_example_proof :
  let l1 := SLeaf (LTensor (LConst 2) (PFin 1)) in
  let l3 := SLeaf (LTensor (LArr [1; 2]) (PFin 3)) in
  let s := SProd (PWArr [1; 3]) PInf [l1; SProd (PWConst (/ 2)) (PFin 3) [l3; l1]] in
  normable wit_quirks s (ENode [ELeaf [1; 2]; ENode [ELeaf [0; 5]; ELeaf [1]]]).
Proof.
  cbn. repeat split; try congruence; try lia; try lra; repeat constructor; lra.
Qed.
