(* C02/Transfer.v -- the root-free core of the model executed at Q by the correspondence shards
   (inner products of tensor, discretized and nested product spaces, including partitions,
   boundary-cell fractions, isclose snapping, the boundary weight array and
   is_uniformly_weighted) is the rational restriction of the model the theorems are about:
   Q2R commutes with [sp_inner]. *)
From Coq Require Import ZArith QArith Qreals Reals Lra Lia List Bool.
From Verif Require Import Base.Num Base.Vec Base.Transfer C02.Model.
Import ListNotations.

Notation QR := (map Q2R).

(* ---------- lists ---------- *)
Lemma sumf_transfer (l : list Q) : Q2R (sumf l) = sumf (QR l).
Proof. induction l as [|a l IH]; [apply Q2R_nzero|]. cbn [sumf map]. rewrite Q2R_nadd, IH. reflexivity. Qed.
Lemma vmap2_transfer (f : Q -> Q -> Q) (g : R -> R -> R) :
  (forall a b, Q2R (f a b) = g (Q2R a) (Q2R b)) ->
  forall x y, QR (vmap2 f x y) = vmap2 g (QR x) (QR y).
Proof.
  intros Hfg. induction x as [|a x IH]; intros [|b y]; try reflexivity.
  cbn [vmap2 map]. rewrite Hfg, IH. reflexivity.
Qed.
Lemma vmul_transfer (x y : list Q) : QR (vmul x y) = vmul (QR x) (QR y).
Proof. apply vmap2_transfer, Q2R_nmul. Qed.
Lemma dot_transfer (x y : list Q) : Q2R (dot x y) = dot (QR x) (QR y).
Proof. unfold dot. rewrite sumf_transfer, vmul_transfer. reflexivity. Qed.
Lemma map_nmul_transfer (a : Q) (v : list Q) : QR (map (nmul a) v) = map (nmul (Q2R a)) (QR v).
Proof. induction v as [|b v IH]; [reflexivity|]. cbn [map]. rewrite Q2R_nmul, IH. reflexivity. Qed.
Lemma kron_transfer (u v : list Q) : QR (kron u v) = kron (QR u) (QR v).
Proof.
  unfold kron. induction u as [|a u IH]; [reflexivity|]. cbn [flat_map map].
  rewrite map_app, map_nmul_transfer, IH. reflexivity.
Qed.
Lemma repeat_one_transfer k : QR (repeat none_ k) = repeat none_ k.
Proof. induction k; [reflexivity|]. cbn [repeat map]. rewrite Q2R_none, IHk. reflexivity. Qed.

(* ---------- mapping the carrier through the syntax of spaces and elements ---------- *)
Section Maps.
Context {A B : Type} (f : A -> B).
Definition tw_map (w : @tweight A) : @tweight B :=
  match w with WConst c => WConst (f c) | WArr a => WArr (map f a) end.
Definition lw_map (w : @lweight A) : @lweight B :=
  match w with LDefault => LDefault | LConst c => LConst (f c) | LArr a => LArr (map f a) end.
Definition ax_map (ax : @axis A) : @axis B :=
  {| ax_n := ax_n ax; ax_a := f (ax_a ax); ax_b := f (ax_b ax); ax_g0 := f (ax_g0 ax); ax_g1 := f (ax_g1 ax) |}.
Definition leaf_map (lf : @leaf A) : @leaf B :=
  match lf with
  | LTensor w p => LTensor (lw_map w) p
  | LDiscr axes w p => LDiscr (map ax_map axes) (lw_map w) p
  end.
Definition pw_map (w : @pweight A) : @pweight B :=
  match w with PWConst c => PWConst (f c) | PWArr a => PWArr (map f a) end.
Fixpoint space_map (s : @space A) : @space B :=
  match s with
  | SLeaf lf => SLeaf (leaf_map lf)
  | SProd w p cs => SProd (pw_map w) p (map space_map cs)
  end.
Fixpoint elem_map (x : @elem A) : @elem B :=
  match x with ELeaf a => ELeaf (map f a) | ENode xs => ENode (map elem_map xs) end.
Definition omap (o : outcome A) : outcome B :=
  match o with
  | Ok v => Ok (f v) | NotImpl => NotImpl | ValueErr => ValueErr | BlasErr => BlasErr
  | IndexErr => IndexErr | ShapeErr => ShapeErr
  end.
End Maps.

(* ---------- tensor level ---------- *)
Lemma t_inner_v_transfer (w : @tweight Q) (x y : list Q) :
  Q2R (t_inner_v w x y) = t_inner_v (tw_map Q2R w) (QR x) (QR y).
Proof.
  destruct w as [c|a]; cbn [t_inner_v tw_map].
  - rewrite Q2R_nmul, dot_transfer. reflexivity.
  - rewrite dot_transfer, vmul_transfer. reflexivity.
Qed.
Lemma t_inner_transfer (w : @tweight Q) p (x y : list Q) :
  omap Q2R (t_inner w p x y) = t_inner (tw_map Q2R w) p (QR x) (QR y).
Proof. unfold t_inner. destruct (is2 p); cbn [omap]; [rewrite t_inner_v_transfer|]; reflexivity. Qed.

(* ---------- partitions ---------- *)
Lemma of_nat_transfer k : Q2R (@of_nat Q _ k) = @of_nat R _ k.
Proof. unfold of_nat. apply Q2R_of_Z. Qed.
Lemma of_nat_nz k : (1 <= k)%nat -> ~ (@of_nat Q _ k == 0)%Q.
Proof.
  intros Hk E. unfold of_nat in E. cbn [of_Z Num_Q] in E. unfold Qeq, inject_Z in E. cbn in E. lia.
Qed.
Lemma nhalf_transfer : Q2R nhalf = nhalf.
Proof.
  unfold nhalf. rewrite Q2R_ndiv, !Q2R_of_Z; [reflexivity|].
  cbn [of_Z Num_Q]. intros E. unfold Qeq, inject_Z in E. cbn in E. discriminate.
Qed.
Lemma ax_stride_transfer (ax : @axis Q) : Q2R (ax_stride ax) = ax_stride (ax_map Q2R ax).
Proof.
  unfold ax_stride. cbn [ax_map ax_n ax_g0 ax_g1]. destruct (Nat.ltb_spec 1 (ax_n ax)); [|apply Q2R_nzero].
  rewrite Q2R_ndiv by (apply of_nat_nz; lia). rewrite Q2R_nsub, of_nat_transfer. reflexivity.
Qed.
Lemma ax_side_transfer (ax : @axis Q) : Q2R (ax_side ax) = ax_side (ax_map Q2R ax).
Proof.
  unfold ax_side. rewrite <- ax_stride_transfer.
  destruct (neqb (ax_stride ax) nzero) eqn:E; rewrite Q2R_neqb, Q2R_nzero in E; rewrite E; [|reflexivity].
  cbn [ax_map ax_a ax_b]. apply Q2R_nsub.
Qed.
(* every division of the model is by a nonzero number: grid of an axis with >= 2 points is not degenerate *)
Definition ax_divs_ok (ax : @axis Q) : Prop := ax_n ax <> 1%nat -> ~ (ax_stride ax == 0)%Q.
Lemma ax_fracs_transfer (ax : @axis Q) : ax_divs_ok ax ->
  (Q2R (fst (ax_fracs ax)), Q2R (snd (ax_fracs ax))) = ax_fracs (ax_map Q2R ax).
Proof.
  intros Hd. unfold ax_fracs. rewrite <- !ax_stride_transfer. cbn [ax_map ax_n ax_a ax_b ax_g0 ax_g1].
  destruct (Nat.eqb_spec (ax_n ax) 1) as [E|E]; cbn [fst snd]; [rewrite Q2R_none; reflexivity|].
  assert (Hs : ~ (ax_stride ax == 0)%Q) by (apply Hd; assumption).
  rewrite !Q2R_nadd, nhalf_transfer, !Q2R_ndiv, !Q2R_nsub by assumption. reflexivity.
Qed.
Lemma close1_transfer (t : Q) : close1 t = close1 (Q2R t).
Proof. unfold close1. rewrite Q2R_nleb, Q2R_nabs, Q2R_nsub, Q2R_none, Q2R_of_Q. reflexivity. Qed.

Lemma ax_wvec_transfer (ax : @axis Q) : ax_divs_ok ax ->
  QR (ax_wvec (fun t => t) ax) = ax_wvec (fun t => t) (ax_map Q2R ax).
Proof.
  intros Hd. unfold ax_wvec. rewrite <- (ax_fracs_transfer ax Hd).
  destruct (ax_fracs ax) as [fl fr]. cbn [fst snd ax_map ax_n]. rewrite <- !close1_transfer.
  assert (El : Q2R (if close1 fl then none_ else fl) = if close1 fl then none_ else Q2R fl)
    by (destruct (close1 fl); [apply Q2R_none | reflexivity]).
  assert (Er : Q2R (if close1 fr then none_ else fr) = if close1 fr then none_ else Q2R fr)
    by (destruct (close1 fr); [apply Q2R_none | reflexivity]).
  destruct (ax_n ax) as [|[|k]]; [reflexivity | cbn [map]; rewrite Q2R_nmul, El, Er; reflexivity |].
  cbn [map]. rewrite map_app, repeat_one_transfer, El. cbn [map]. rewrite Er. reflexivity.
Qed.
Lemma bdry_w_transfer (axes : list (@axis Q)) : Forall ax_divs_ok axes ->
  QR (bdry_w (fun t => t) axes) = bdry_w (fun t => t) (map (ax_map Q2R) axes).
Proof.
  induction 1 as [|ax axes Hax _ IH]; [unfold bdry_w; cbn [fold_right map]; rewrite Q2R_none; reflexivity|].
  cbn [bdry_w fold_right map]. rewrite kron_transfer, ax_wvec_transfer by assumption.
  unfold bdry_w in IH. rewrite IH. reflexivity.
Qed.
Lemma cell_volume_transfer (axes : list (@axis Q)) : Q2R (cell_volume axes) = cell_volume (map (ax_map Q2R) axes).
Proof.
  induction axes as [|ax axes IH]; [apply Q2R_none|]. cbn [cell_volume fold_right map].
  rewrite Q2R_nmul, ax_side_transfer. unfold cell_volume in IH. rewrite IH. reflexivity.
Qed.
Lemma all_close1_transfer (axes : list (@axis Q)) : Forall ax_divs_ok axes ->
  all_close1 axes = all_close1 (map (ax_map Q2R) axes).
Proof.
  induction 1 as [|ax axes Hax _ IH]; [reflexivity|]. cbn [all_close1 forallb map].
  unfold all_close1 in IH. rewrite IH. f_equal.
  rewrite <- (ax_fracs_transfer ax Hax). destruct (ax_fracs ax) as [fl fr]. cbn [fst snd].
  rewrite <- !close1_transfer. reflexivity.
Qed.
Lemma d_weight_transfer (axes : list (@axis Q)) w p :
  tw_map Q2R (d_weight axes w p) = d_weight (map (ax_map Q2R) axes) (lw_map Q2R w) p.
Proof.
  destruct w as [|c|a]; cbn [d_weight lw_map tw_map]; try reflexivity.
  destruct p as [|k]; [cbn [map tw_map]; rewrite Q2R_none; destruct axes; reflexivity|].
  destruct axes as [|ax axes]; [cbn [map tw_map]; rewrite Q2R_none; reflexivity|].
  cbn [map tw_map]. rewrite cell_volume_transfer. reflexivity.
Qed.
Lemma is_weighted_transfer (w : @tweight Q) : is_weighted w = is_weighted (tw_map Q2R w).
Proof. destruct w as [c|a]; cbn [is_weighted tw_map]; [|reflexivity]. rewrite Q2R_neqb, Q2R_none. reflexivity. Qed.
Lemma unif_weighted_transfer q (axes : list (@axis Q)) w p : Forall ax_divs_ok axes ->
  unif_weighted q axes w p = unif_weighted q (map (ax_map Q2R) axes) (tw_map Q2R w) p.
Proof. intros Hd. unfold unif_weighted. rewrite <- all_close1_transfer, <- is_weighted_transfer by assumption. reflexivity. Qed.

(* ---------- leaves ---------- *)
Definition leaf_divs_ok (lf : @leaf Q) : Prop :=
  match lf with LTensor _ _ => True | LDiscr axes _ _ => Forall ax_divs_ok axes end.
Lemma t_weight_transfer (w : @lweight Q) : tw_map Q2R (t_weight w) = t_weight (lw_map Q2R w).
Proof. destruct w; cbn [t_weight lw_map tw_map]; rewrite ?Q2R_none; reflexivity. Qed.
Lemma leaf_inner_transfer q (lf : @leaf Q) (x y : list Q) : leaf_divs_ok lf ->
  omap Q2R (leaf_inner q lf x y) = leaf_inner q (leaf_map Q2R lf) (QR x) (QR y).
Proof.
  destruct lf as [w p | axes w p]; cbn [leaf_divs_ok leaf_inner leaf_map]; intros Hd.
  - rewrite t_inner_transfer, t_weight_transfer. reflexivity.
  - rewrite <- d_weight_transfer, <- unif_weighted_transfer by assumption.
    destruct (unif_weighted q axes (d_weight axes w p) p); rewrite t_inner_transfer; [reflexivity|].
    unfold scale_bdry. rewrite vmul_transfer, bdry_w_transfer by assumption. reflexivity.
Qed.

(* ---------- trees ---------- *)
Lemma spaceQ_ind' (P : @space Q -> Prop) :
  (forall lf, P (SLeaf lf)) -> (forall w p cs, Forall P cs -> P (SProd w p cs)) -> forall s, P s.
Proof.
  intros Hl Hp. fix IH 1. intros [lf|w p cs]; [apply Hl|]. apply Hp.
  induction cs as [|c cs IHcs]; constructor; [apply IH | exact IHcs].
Qed.
Fixpoint space_divs_ok (s : @space Q) : Prop :=
  match s with
  | SLeaf lf => leaf_divs_ok lf
  | SProd _ _ cs => (fix all (l : list (@space Q)) : Prop :=
                      match l with [] => True | c :: l' => space_divs_ok c /\ all l' end) cs
  end.
Lemma ps_inner_comb_transfer (w : @pweight Q) (v : list Q) :
  Q2R (ps_inner_comb w v) = ps_inner_comb (pw_map Q2R w) (QR v).
Proof.
  destruct w as [c|a]; cbn [ps_inner_comb pw_map]; [rewrite Q2R_nmul, sumf_transfer | rewrite dot_transfer]; reflexivity.
Qed.
Lemma omap_bind {A B A' B'} (f : A -> A') (g : B -> B') (o : outcome A) (k : A -> outcome B) (k' : A' -> outcome B') :
  (forall a, omap g (k a) = k' (f a)) -> omap g (bind o k) = bind (omap f o) k'.
Proof. intros Hk. destruct o; cbn; auto. Qed.

Theorem sp_inner_transfer q (s : @space Q) : forall x y, space_divs_ok s ->
  omap Q2R (sp_inner q s x y) = sp_inner q (space_map Q2R s) (elem_map Q2R x) (elem_map Q2R y).
Proof.
  induction s as [lf|w p cs IH] using spaceQ_ind'; intros x y Hd.
  - destruct x as [a|xs], y as [b|ys]; cbn [sp_inner space_map elem_map omap]; try reflexivity.
    apply leaf_inner_transfer. exact Hd.
  - destruct x as [a|xs], y as [b|ys]; cbn [sp_inner space_map elem_map omap]; try reflexivity.
    destruct (negb (is2 p)); [reflexivity|].
    assert (Hc : forall xs ys, omap QR (collect2 (sp_inner q) cs xs ys)
                 = collect2 (sp_inner q) (map (space_map Q2R) cs) (map (elem_map Q2R) xs) (map (elem_map Q2R) ys)).
    { cbn [space_divs_ok] in Hd. clear w. induction IH as [|c cs Hc _ IHcs]; intros xs' ys'.
      - destruct xs', ys'; reflexivity.
      - destruct Hd as [Hd1 Hd2]. destruct xs' as [|x xs'], ys' as [|y ys']; try reflexivity.
        cbn [collect2 map]. fold (collect2 (@sp_inner Q _ q)). fold (collect2 (@sp_inner R _ q)).
        rewrite <- (Hc x y Hd1), <- (IHcs Hd2 xs' ys').
        destruct (sp_inner q c x y); cbn [bind omap]; try reflexivity.
        destruct (collect2 (sp_inner q) cs xs' ys'); reflexivity. }
    rewrite <- Hc. destruct (collect2 (sp_inner q) cs xs ys); cbn [bind omap]; try reflexivity.
    rewrite ps_inner_comb_transfer. reflexivity.
Qed.
