(* C02/ComplexR.v -- complex tensor spaces, data as (re, im): the inner product
   <x, y> = sum_i w_i x_i conj(y_i)  (np.vdot(x2, x1)) is conjugate-symmetric, linear in the
   first argument over C, positive definite, and satisfies Cauchy-Schwarz. *)
From Coq Require Import ZArith Reals Lra Lia List Bool Psatz.
From Verif Require Import Base.Num Base.Vec Base.VecR C02.Model C02.Roots C02.IPS C02.TensorR.
Import ListNotations.
Local Open Scope R_scope.

Section Cplx.
Variable n : nat.
Variable w : @tweight R.
Hypothesis Hw : tw_ok n w.
Let tip := t_inner_v w.
Let okv (x : Rvec) := length x = n.

Lemma c_inner_unfold xr xi yr yi :
  c_inner_v w xr xi yr yi = (tip xr yr + tip xi yi, tip xi yr - tip xr yi).
Proof. reflexivity. Qed.

(* <y, x> = conj <x, y> *)
Theorem c_inner_conj_sym xr xi yr yi : okv xr -> okv xi -> okv yr -> okv yi ->
  c_inner_v w yr yi xr xi = (fst (c_inner_v w xr xi yr yi), - snd (c_inner_v w xr xi yr yi)).
Proof.
  intros Hxr Hxi Hyr Hyi. rewrite !c_inner_unfold. cbn [fst snd]. unfold tip.
  rewrite (ti_sym n w yr xr), (ti_sym n w yi xi), (ti_sym n w yi xr), (ti_sym n w yr xi) by assumption.
  f_equal; lra.
Qed.

(* complex scalar times complex vector, and sums *)
Definition cscal_r (ar ai : R) (xr xi : Rvec) : Rvec := vadd (vscal ar xr) (vscal (- ai) xi).
Definition cscal_i (ar ai : R) (xr xi : Rvec) : Rvec := vadd (vscal ar xi) (vscal ai xr).

Lemma ip_lin2 a b (u v y : Rvec) : okv u -> okv v -> okv y ->
  tip (vadd (vscal a u) (vscal b v)) y = a * tip u y + b * tip v y.
Proof.
  intros Hu Hv Hy. unfold tip.
  rewrite (ti_add_l n w) by (rewrite ?vscal_length; assumption).
  rewrite !(ti_scal_l n w) by assumption. reflexivity.
Qed.
Lemma ip_lin2_r a b (u v y : Rvec) : okv u -> okv v -> okv y ->
  tip y (vadd (vscal a u) (vscal b v)) = a * tip y u + b * tip y v.
Proof.
  intros Hu Hv Hy. unfold tip. rewrite (ti_sym n w y) by (try assumption; apply okv_add; apply okv_scal; assumption).
  fold tip. rewrite ip_lin2 by assumption. unfold tip. rewrite (ti_sym n w u y), (ti_sym n w v y) by assumption. reflexivity.
Qed.

Lemma ip_add_l' (u v y : Rvec) : okv u -> okv v -> okv y -> tip (vadd u v) y = tip u y + tip v y.
Proof. intros. unfold tip. apply (ti_add_l n w); assumption. Qed.

(* <a x + z, y> = a <x, y> + <z, y>   (a = ar + i ai, complex multiplication written out) *)
Theorem c_inner_linear_first ar ai xr xi zr zi yr yi :
  okv xr -> okv xi -> okv zr -> okv zi -> okv yr -> okv yi ->
  let '(re, im) := c_inner_v w xr xi yr yi in
  let '(zre, zim) := c_inner_v w zr zi yr yi in
  c_inner_v w (vadd (cscal_r ar ai xr xi) zr) (vadd (cscal_i ar ai xr xi) zi) yr yi
  = (ar * re - ai * im + zre, ar * im + ai * re + zim).
Proof.
  intros Hxr Hxi Hzr Hzi Hyr Hyi. rewrite !c_inner_unfold. unfold cscal_r, cscal_i.
  assert (O1 : okv (vadd (vscal ar xr) (vscal (- ai) xi))) by (apply okv_add; apply okv_scal; assumption).
  assert (O2 : okv (vadd (vscal ar xi) (vscal ai xr))) by (apply okv_add; apply okv_scal; assumption).
  rewrite !ip_add_l' by (repeat first [assumption | apply (okv_add n) | apply (okv_scal n)]).
  unfold tip. rewrite !(ti_scal_l n w) by assumption. f_equal; ring.
Qed.

(* <x, x> is real, non-negative, and zero only for x = 0 *)
Theorem c_inner_positive xr xi : okv xr -> okv xi ->
  snd (c_inner_v w xr xi xr xi) = 0 /\ 0 <= fst (c_inner_v w xr xi xr xi) /\
  (fst (c_inner_v w xr xi xr xi) = 0 -> Forall (fun a => a = 0) xr /\ Forall (fun a => a = 0) xi).
Proof.
  intros Hxr Hxi. rewrite c_inner_unfold. cbn [fst snd]. unfold tip.
  pose proof (ti_nonneg n w Hw xr Hxr) as H1. pose proof (ti_nonneg n w Hw xi Hxi) as H2.
  split; [rewrite (ti_sym n w xi xr) by assumption; lra|]. split; [lra|].
  intros Hz. split; [apply (ti_definite n w Hw xr Hxr) | apply (ti_definite n w Hw xi Hxi)]; lra.
Qed.

(* Cauchy-Schwarz:  |<x, y>|^2 <= <x, x> <y, y> *)
Theorem c_cauchy_schwarz xr xi yr yi : okv xr -> okv xi -> okv yr -> okv yi ->
  let '(re, im) := c_inner_v w xr xi yr yi in
  re * re + im * im <= fst (c_inner_v w xr xi xr xi) * fst (c_inner_v w yr yi yr yi).
Proof.
  intros Hxr Hxi Hyr Hyi. rewrite !c_inner_unfold. cbn [fst].
  set (r := tip xr yr + tip xi yi). set (m := tip xi yr - tip xr yi).
  set (A := tip xr xr + tip xi xi). set (B := tip yr yr + tip yi yi).
  (* Z = r Y + m JY with Y = (yr, yi), JY = (-yi, yr) *)
  set (zr := vadd (vscal r yr) (vscal (- m) yi)). set (zi := vadd (vscal r yi) (vscal m yr)).
  assert (Ozr : okv zr) by (apply okv_add; apply okv_scal; assumption).
  assert (Ozi : okv zi) by (apply okv_add; apply okv_scal; assumption).
  assert (Syy : tip yi yr = tip yr yi) by (apply (ti_sym n w); assumption).
  assert (HXZ : tip xr zr + tip xi zi = r * r + m * m).
  { unfold zr, zi. rewrite !ip_lin2_r by assumption. unfold r, m. ring. }
  assert (HZZ : tip zr zr + tip zi zi = (r * r + m * m) * B).
  { unfold zr at 1, zi at 1. rewrite !ip_lin2 by assumption.
    unfold zr, zi. rewrite !ip_lin2_r by assumption. unfold B. rewrite Syy. ring. }
  (* real Cauchy-Schwarz for the pair form, through the discriminant lemma *)
  assert (HCS : (tip xr zr + tip xi zi) * (tip xr zr + tip xi zi) <= A * (tip zr zr + tip zi zi)).
  { apply quad_nonneg_discr. intros t.
    assert (Ot1 : okv (vadd (vscal t xr) zr)) by (apply okv_add; [apply okv_scal|]; assumption).
    assert (Ot2 : okv (vadd (vscal t xi) zi)) by (apply okv_add; [apply okv_scal|]; assumption).
    pose proof (ti_nonneg n w Hw _ Ot1) as N1. pose proof (ti_nonneg n w Hw _ Ot2) as N2.
    fold tip in N1, N2.
    assert (E1 : tip (vadd (vscal t xr) zr) (vadd (vscal t xr) zr) = tip xr xr * t * t + 2 * tip xr zr * t + tip zr zr).
    { apply (ip_expand Rvec okv vadd vscal tip (okv_add n) (okv_scal n)
                          (ti_sym n w) (ti_add_l n w) (ti_scal_l n w)); assumption. }
    assert (E2 : tip (vadd (vscal t xi) zi) (vadd (vscal t xi) zi) = tip xi xi * t * t + 2 * tip xi zi * t + tip zi zi).
    { apply (ip_expand Rvec okv vadd vscal tip (okv_add n) (okv_scal n)
                          (ti_sym n w) (ti_add_l n w) (ti_scal_l n w)); assumption. }
    unfold A. nra. }
  rewrite HXZ, HZZ in HCS.
  assert (HA : 0 <= A) by (unfold A; pose proof (ti_nonneg n w Hw xr Hxr) as P1; pose proof (ti_nonneg n w Hw xi Hxi) as P2; fold tip in P1, P2; lra).
  assert (HB : 0 <= B) by (unfold B; pose proof (ti_nonneg n w Hw yr Hyr) as P1; pose proof (ti_nonneg n w Hw yi Hyi) as P2; fold tip in P1, P2; lra).
  set (s := r * r + m * m) in *.
  assert (Hs : 0 <= s) by (unfold s; nra).
  destruct (Req_dec s 0) as [E|E]; [rewrite E; nra|].
  assert (0 < s) by lra. apply (Rmult_le_reg_l s); [assumption|]. nra.
Qed.
End Cplx.
