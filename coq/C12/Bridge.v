(* C12/Bridge.v -- the generic solver steps of C12/Model.v, instantiated with lists over R, ARE the
   loop-body models of C11/Model.v, which C11/GenProofs.v proves equal to the programs that
   translate/solvers.py REGENERATES from /repo's source on every run (Gen/Solvers.v) and executes
   with the heap-level interpreter C11/Interp.v.  Hence the C12 theorems are statements about
   code regenerated from source: the composed theorems at the end of this file speak about
   [run_prog ... landweber_noproj_body] etc. directly.

   Operators, adjoints, proximals and gradients are ARBITRARY functions here (no linearity, no
   length conditions): the equalities are entrywise ring identities. *)
From Coq Require Import ZArith QArith Reals Lra Lia List Bool String.
From Verif Require Import Base.Num Base.Vec Base.VecR.
From Verif Require C11.Model C11.Syntax C11.Interp C11.Proofs C11.GenProofs Gen.Solvers.
From Verif Require Import C12.Model C12.Space C12.ProofsLin C12.Inst.
Import ListNotations.
Local Open Scope R_scope.

Module M11 := Verif.C11.Model.
Module G11 := Verif.C11.GenProofs.
Module I11 := Verif.C11.Interp.
Module S11 := Verif.Gen.Solvers.

Notation lvec := (list R).

(* ---------------- entrywise identities between the two vocabularies ---------------- *)
Lemma vsub_as_add (x y : lvec) : vsub x y = vadd x (vscal (- (1)) y).
Proof.
  revert y; induction x as [|a x IH]; intros [|b y]; try reflexivity.
  unfold vsub, vadd, vscal in *; cbn [vmap2 map]. rewrite IH. f_equal. numR. ring.
Qed.
Lemma vlin_as_add a (x : lvec) b (y : lvec) : vlin a x b y = vadd (vscal a x) (vscal b y).
Proof.
  revert y; induction x as [|c x IH]; intros [|d y]; try reflexivity.
  unfold vlin, vadd, vscal in *; cbn [vmap2 map]. rewrite IH. reflexivity.
Qed.
Lemma vscal_one (x : lvec) : vscal 1 x = x.
Proof. induction x as [|a x IH]; [reflexivity|]. unfold vscal in *; cbn [map]. rewrite IH. f_equal. numR. ring. Qed.
Lemma vlin1_as_add (x : lvec) b (y : lvec) : vlin 1 x b y = vadd x (vscal b y).
Proof. rewrite vlin_as_add, vscal_one. reflexivity. Qed.
Lemma vsub_scal_as_add (x : lvec) c (y : lvec) : vsub x (vscal c y) = vadd x (vscal (- c) y).
Proof.
  revert y; induction x as [|a x IH]; intros [|b y]; try reflexivity.
  unfold vsub, vadd, vscal in *; cbn [vmap2 map]. rewrite IH. f_equal. numR. ring.
Qed.

(* the two libraries' loop combinators *)
Lemma trace_11_12 {S : Type} (f : S -> S) n s : M11.trace (fun x => x) n f s = trace f n s.
Proof. revert s; induction n as [|n IH]; intros s; cbn; [reflexivity | rewrite IH; reflexivity]. Qed.
Lemma trace_ext12 {S : Type} (f g : S -> S) : (forall s, f s = g s) -> forall n s, trace f n s = trace g n s.
Proof. intros E n; induction n as [|n IH]; intros s; cbn; [reflexivity | rewrite E, IH; reflexivity]. Qed.
Lemma iter_11_12 {S : Type} (f : S -> S) n s : M11.iter n f s = iter f n s.
Proof. revert s; induction n as [|n IH]; intros s; cbn; [reflexivity | rewrite IH; reflexivity]. Qed.

(* ---------------- Landweber / Kaczmarz ---------------- *)
Definition lw12 (A At : lvec -> lvec) (omega : R) (b : lvec) : lvec -> lvec :=
  lw_step lvec lvec vadd vscal vadd vscal A At omega b.

Theorem landweber_step_is_c11 (A At : lvec -> lvec) omega b x :
  lw12 A At omega b x = M11.landweber_step A (fun _ => At) (fun v => v) b omega x.
Proof.
  unfold lw12, lw_step, subW, M11.landweber_step. numR.
  rewrite vlin1_as_add, vsub_as_add. reflexivity.
Qed.

(* a Kaczmarz block of C11 with a linear operator (derivative adjoint independent of the point) *)
Definition kz_lin (A At : lvec -> lvec) (b : lvec) (omega : R) : @M11.kzop R :=
  M11.mk_kzop A (fun _ => At) b omega.
Theorem kaczmarz_block_is_c11 (A At : lvec -> lvec) b omega x :
  lw12 A At omega b x = M11.kz_one (fun v => v) (kz_lin A At b omega) x.
Proof. unfold M11.kz_one, kz_lin; cbn. apply landweber_step_is_c11. Qed.
Theorem kaczmarz_sweep_is_c11 (blocks : list ((lvec -> lvec) * (lvec -> lvec) * lvec * R)) x :
  kz_sweep lvec (map (fun q => let '(A, At, b, om) := q in lw12 A At om b) blocks) x
  = M11.kz_step (fun v => v) (map (fun q => let '(A, At, b, om) := q in kz_lin A At b om) blocks) x.
Proof.
  unfold kz_sweep, M11.kz_step. revert x; induction blocks as [|[[[A At] b] om] bs IH]; intros x; cbn [map fold_left M11.kz_sweep].
  - reflexivity.
  - rewrite IH, kaczmarz_block_is_c11.
    destruct (M11.kz_sweep (fun v => v) (map (fun q => let '(A0, At0, b0, om0) := q in kz_lin A0 At0 b0 om0) bs)
                (M11.kz_one (fun v => v) (kz_lin A At b om) x)) as [xf tr]. reflexivity.
Qed.

(* ---------------- PDHG ---------------- *)
Definition pd_to11 (s : @pdst lvec lvec) : @M11.pdhg_st R :=
  M11.mk_pdhg_st (pd_x _ _ s) (pd_xr _ _ s) (pd_y _ _ s).
Theorem pdhg_step_is_c11 (L Ladj : lvec -> lvec) (proxF proxGc : R -> lvec -> lvec) tau sigma theta s :
  pd_to11 (pdhg_step lvec lvec vadd vscal vadd vscal L Ladj proxF proxGc tau sigma theta s)
  = M11.pdhg_step L Ladj (proxF tau) (proxGc sigma) tau sigma theta (pd_to11 s).
Proof.
  destruct s as [x xr y]. unfold pdhg_step, M11.pdhg_step, pd_to11; cbn [pd_x pd_xr pd_y M11.pd_x M11.pd_xr M11.pd_y]. numR.
  rewrite !vlin1_as_add, vlin_as_add. reflexivity.
Qed.

(* ---------------- linearized ADMM (against the textbook reference step of C11, which C11 proves
   equal to the regenerated buffer-reusing loop) ---------------- *)
Definition ad_to11 (s : @admst lvec lvec) : @M11.admm_rst R :=
  M11.mk_admm_rst (ad_x _ _ s) (ad_z _ _ s) (ad_u _ _ s).
Theorem admm_step_is_c11 (L Ladj : lvec -> lvec) (proxF proxG : R -> lvec -> lvec) tau sigma s :
  ad_to11 (admm_step lvec lvec vadd vscal vadd vscal L Ladj proxF proxG tau sigma s)
  = M11.admm_ref_step L Ladj (proxF tau) (proxG sigma) tau sigma (ad_to11 s).
Proof.
  destruct s as [x z u]. unfold admm_step, M11.admm_ref_step, ad_to11, subW;
    cbn [ad_x ad_z ad_u M11.ar_x M11.ar_z M11.ar_u]. numR.
  rewrite !vsub_scal_as_add, !vsub_as_add. f_equal; try reflexivity. f_equal. apply C11.Proofs.vadd_comm.
Qed.

(* ---------------- proximal gradient and its accelerated form ---------------- *)
Theorem proximal_gradient_step_is_c11 (proxF : R -> lvec -> lvec) (gradG : lvec -> lvec) gamma (lam : nat -> R) k x :
  pg_step lvec vadd vscal proxF gradG gamma (lam k) x = M11.pg_step (proxF gamma) gradG gamma lam k x.
Proof. unfold pg_step, M11.pg_step. numR. rewrite vlin1_as_add, vlin_as_add. reflexivity. Qed.

Theorem accelerated_proximal_gradient_step_is_c11 (proxF : R -> lvec -> lvec) (gradG : lvec -> lvec)
    gamma rt (s : @apst R lvec) k :
  let s' := apg_step lvec vadd vscal proxF gradG gamma rt s in
  (ap_x _ s', ap_y _ s')
  = M11.apg_step (proxF gamma) gradG gamma (fun _ => (ap_t _ s - 1) / ((1 + rt) / 2)) k (ap_x _ s, ap_y _ s).
Proof.
  destruct s as [x y t]. unfold apg_step, M11.apg_step, two; cbn [ap_x ap_y ap_t]. numR.
  rewrite vlin1_as_add, vlin_as_add. reflexivity.
Qed.

(* ---------------- steepest descent: the update with the step the line search returned ---------------- *)
Theorem steepest_descent_update_is_c11 (grad : lvec -> lvec) step tol x :
  M11.sd_stops grad tol x = false ->
  M11.sd_step grad (fun v => v) step tol (x, false) = (vadd x (vscal (- step) (grad x)), false).
Proof. intros E. unfold M11.sd_step. rewrite E, vlin1_as_add. reflexivity. Qed.

(* ====================================================================================== *)
(* Composed: theorems about the REGENERATED programs                                        *)
(* ====================================================================================== *)
Local Open Scope string_scope.

(* landweber (projection=None) as regenerated from odl/solvers/iterative/iterative.py, run by the heap
   interpreter with op := a matrix, adjoint := its transpose: the callback log has a non-increasing
   residual, for every matrix, relaxation in the admissible window, start and budget *)
Theorem regenerated_landweber_residual_nonincreasing
    (m n : nat) (M : list (list R)) (Mb omega : R) (b x : lvec) (k : nat) (junk : string -> lvec) :
  wf_mat m n M ->
  (forall v : lvec, List.length v = n -> wdot (repeat 1 m) (mvec M v) (mvec M v) <= Mb * wdot (repeat 1 n) v v) ->
  0 <= omega -> omega * Mb <= 2 -> List.length b = m -> List.length x = n ->
  exists s,
    I11.run_prog (G11.lw_I (mvec M) (fun _ => mvec (transpose n M)) (fun v => v) omega junk)
                 S11.landweber_noproj_pre S11.landweber_noproj_body k
                 (I11.mk_hst G11.env_lw_in [x; b] []) = Some s
    /\ nonincr (res_list (repeat 1 m) M b) x (I11.h_log s).
Proof.
  intros HM HB Ho HMb Hb Hx.
  destruct (G11.gen_lw_noproj_run (mvec M) (fun _ => mvec (transpose n M)) omega junk k x b) as (s & Hs & _ & Hlog).
  exists s; split; [exact Hs|]. rewrite Hlog, trace_11_12.
  rewrite (trace_ext12 _ (lw12 (mvec M) (mvec (transpose n M)) omega b)) by
    (intros; symmetry; apply landweber_step_is_c11).
  exact (landweber_lists_transpose m n M Mb omega b HM HB Ho HMb Hb k x Hx).
Qed.
