(* C12/Proofs.v -- collects the lemma files of C12 (split to keep each file fast):
     Space.v            abstract inner-product spaces, adjoints, sub-gradients, proximal points
     ProofsLin.v        Landweber, Kaczmarz, CG, CGN, power method
     ProofsCG.v         CG: Krylov orthogonality/conjugacy invariant, exactness after dimension-many steps
     ProofsDescent.v    backtracking line search, steepest descent
     ProofsNonsmooth.v  PDHG, ADMM, (accelerated) proximal gradient, forward-backward PD
     Inst1.v            the instance R (non-vacuity of every hypothesis)
     Dim.v              linear dependence of n+1 vectors of R^n; R^n has dimension n; CG on lists exact after n steps
     Inst.v             the instance R^n (lists, weighted dot product, matrices): theorems about the list model itself
     Refuted.v          forward_backward_pd as coded does not converge *)
From Verif Require Export C12.Space C12.ProofsLin C12.ProofsCG C12.ProofsDescent C12.ProofsNonsmooth C12.Inst1 C12.Inst C12.Dim C12.Refuted.
