(* C12/Proofs.v -- lemmas (placeholder, filled in below) *)
From Coq Require Import Reals Lra List Bool.
From Verif Require Import Base.Num Base.Vec C12.Model.
