(* C12/Model.v -- executable models of the solver loops anchored by C12
   (definitions only; proofs live in C12/Proofs.v).

   Every solver is written ONCE, generically over the vector operations it
   uses (add, scalar multiple, inner product, operator, adjoint, proximals);
   the list instance at the bottom (matrices as lists of rows, weighted dot
   products) is what the correspondence shards run at Q, and the abstract
   inner-product-space instance (C12/Space.v) is what the theorems are about.
   Scalars are a [Num] carrier throughout.

   Source mirrored (odl/solvers):
     iterative/iterative.py   landweber, conjugate_gradient, conjugate_gradient_normal, kaczmarz
     nonsmooth/primal_dual_hybrid_gradient.py  pdhg (constant steps)
     nonsmooth/douglas_rachford.py             douglas_rachford_pd
     nonsmooth/forward_backward.py             forward_backward_pd
     nonsmooth/proximal_gradient_solvers.py    proximal_gradient, accelerated_proximal_gradient
     nonsmooth/admm.py                         admm_linearized
     smooth/gradient.py + util/steplen.py      steepest_descent, BacktrackingLineSearch
     operator/oputils.py                       power_method_opnorm *)
From Coq Require Import ZArith QArith List Bool.
From Verif Require Import Base.Num Base.Vec.
Import ListNotations.
Local Open Scope num_scope.

(* generic iteration helpers *)
Fixpoint iter {S : Type} (step : S -> S) (n : nat) (s : S) : S :=
  match n with O => s | S n' => iter step n' (step s) end.
Fixpoint trace {S : Type} (step : S -> S) (n : nat) (s : S) : list S :=
  match n with O => [] | S n' => let s' := step s in s' :: trace step n' s' end.
(* iteration that may stop early ([None] = the loop executed `return`) *)
Fixpoint otrace {S : Type} (step : S -> option S) (n : nat) (s : S) : list S :=
  match n with
  | O => []
  | S n' => match step s with None => [] | Some s' => s' :: otrace step n' s' end
  end.

Section Generic.
Context {T : Type} `{Num T}.
Variables V W : Type.
Variable addV : V -> V -> V.
Variable scalV : T -> V -> V.
Variable ipV : V -> V -> T.
Variable addW : W -> W -> W.
Variable scalW : T -> W -> W.
Variable ipW : W -> W -> T.

Definition two : T := of_Z 2.
Definition subV (x y : V) : V := addV x (scalV (- none_) y).
Definition subW (x y : W) : W := addW x (scalW (- none_) y).

(* ------------------------------------------------------------------ *)
(* landweber (projection=None):
     op(x, out=tmp_ran); tmp_ran -= rhs; adjoint(tmp_ran, out=tmp_dom);
     x.lincomb(1, x, -omega, tmp_dom)                                   *)
Definition lw_step (A : V -> W) (At : W -> V) (omega : T) (b : W) (x : V) : V :=
  addV x (scalV (- omega) (At (subW (A x) b))).

(* kaczmarz (random=False, projection=None): one sweep applies the blocks'
   Landweber steps in order; a block is its step function x |-> x' *)
Definition kz_sweep (steps : list (V -> V)) (x : V) : V :=
  fold_left (fun x s => s x) steps x.

(* kaczmarz with random=True: `rng = np.random.permutation(range(len(ops)))`; the blocks are
   visited in the drawn ORDER (a list of operator indices), block i always with ITS OWN
   rhs[i] and omega[i].  An index outside the list leaves x unchanged (cannot occur). *)
Definition kz_sweep_order (steps : list (V -> V)) (order : list nat) (x : V) : V :=
  fold_left (fun x i => nth i steps (fun y => y) x) order x.
(* one order per outer iteration *)
Fixpoint kz_run_orders (steps : list (V -> V)) (orders : list (list nat)) (x : V) : list V :=
  match orders with
  | [] => []
  | o :: orders' => let x' := kz_sweep_order steps o x in x' :: kz_run_orders steps orders' x'
  end.

(* ------------------------------------------------------------------ *)
(* conjugate_gradient: state after the preamble / after each iteration *)
Record cgst := { cg_x : V; cg_r : V; cg_p : V; cg_rr : T }.
Definition cg_init (A : V -> V) (b x : V) : cgst :=
  let r := addV b (scalV (- none_) (A x)) in
  {| cg_x := x; cg_r := r; cg_p := r; cg_rr := ipV r r |}.
Definition cg_step (A : V -> V) (s : cgst) : option cgst :=
  let d := A (cg_p s) in
  let pd := ipV (cg_p s) d in
  if pd =? nzero then None else
  let alpha := cg_rr s / pd in
  let x' := addV (cg_x s) (scalV alpha (cg_p s)) in
  let r' := addV (cg_r s) (scalV (- alpha) d) in
  let rr' := ipV r' r' in
  let beta := rr' / cg_rr s in
  Some {| cg_x := x'; cg_r := r'; cg_p := addV r' (scalV beta (cg_p s)); cg_rr := rr' |}.
(* the states visited (callback sees cg_x of each) *)
Definition cg_run (A : V -> V) (b x : V) (niter : nat) : list cgst :=
  let s := cg_init A b x in
  if cg_rr s =? nzero then [] else otrace (cg_step A) niter s.

(* conjugate_gradient_normal.  [epsm] is np.finfo(float).eps = 2^-52, [eps2] is epsm ** 2.  Two stopping rules
   besides `sqnorm_q == 0`:
     * `sqnorm_s_old <= sqnorm_s_stop`  with sqnorm_s_stop = |A^T d_0|^2 * eps2            (fix d9e50f5)
     * after d = d - a q:  `sqnorm_d_new > sqnorm_d_old * (1 + 100 * epsm)`: undo the step
       (x.lincomb(1, x, -a, p); d.lincomb(1, d, a, q)) and return                             (fix b290190)
   [None] = the loop executed `return`; in the second case x has been restored (gen_cgn_guard_exit_x). *)
Record cgnst := { n_x : V; n_d : W; n_p : V; n_s : V; n_ss : T; n_stop : T; n_dd : T }.
Definition cgn_init (A : V -> W) (At : W -> V) (eps2 : T) (b : W) (x : V) : cgnst :=
  let d := addW b (scalW (- none_) (A x)) in
  let p := At d in
  {| n_x := x; n_d := d; n_p := p; n_s := p; n_ss := ipV p p; n_stop := ipV p p * eps2; n_dd := ipW d d |}.
Definition cgn_step (A : V -> W) (At : W -> V) (epsm : T) (s : cgnst) : option cgnst :=
  if n_ss s <=? n_stop s then None else
  let q := A (n_p s) in
  let qq := ipW q q in
  if qq =? nzero then None else
  let a := n_ss s / qq in
  let x' := addV (n_x s) (scalV a (n_p s)) in
  let d' := addW (n_d s) (scalW (- a) q) in
  let dd' := ipW d' d' in
  if n_dd s * (none_ + of_Z 100 * epsm) <? dd' then None else
  let s' := At d' in
  let ss' := ipV s' s' in
  let b := ss' / n_ss s in
  Some {| n_x := x'; n_d := d'; n_p := addV s' (scalV b (n_p s)); n_s := s'; n_ss := ss'; n_stop := n_stop s;
          n_dd := dd' |}.
Definition cgn_run (A : V -> W) (At : W -> V) (eps2 epsm : T) (b : W) (x : V) (niter : nat) : list cgnst :=
  otrace (cgn_step A At epsm) niter (cgn_init A At eps2 b x).

(* ------------------------------------------------------------------ *)
(* power_method_opnorm, un-normalised form.  The code iterates
     x <- B x / |B x|   (B = A^* A, or A when `op.adjoint is op`)
   from x0/|x0| and returns |B x| (self-adjoint) or sqrt |B x| (normal).
   With y_k = B^k x0 one has x_k = y_k/|y_k| and |B x_k| = |y_{k+1}|/|y_k|,
   so the square of the k-th value of `x_norm` is the rational number below
   (proved in C12/Proofs.v: pm_normalised_ratio).  [None] = the code raises
   ValueError (zero start vector or x = 0 reached). *)
Definition pm_sq (B : V -> V) (k : nat) (x0 : V) : option T :=
  let yk := iter B k x0 in
  let den := ipV yk yk in
  if den =? nzero then None else
  let y' := B yk in Some (ipV y' y' / den).
(* all values of x_norm^2 for iterations 1..n; None if any iteration raises *)
Fixpoint pm_sqs (B : V -> V) (n : nat) (x0 : V) : option (list T) :=
  match n with
  | O => Some []
  | S n' => match pm_sqs B n' x0, pm_sq B n' x0 with
            | Some l, Some v => if v =? nzero then None else Some (l ++ [v])
            | _, _ => None
            end
  end.

(* `if x_norm == 0: raise ValueError('xstart must be nonzero')` precedes the loop *)
Definition pm_checked (B : V -> V) (n : nat) (x0 : V) : option (list T) :=
  if ipV x0 x0 =? nzero then None else pm_sqs B n x0.

(* power_method_opnorm as written (normalising every iteration); [rt] is the square root
   (sqrt at R; not executed at Q).  Returns the successive values of x_norm; the code returns
   the last one (self-adjoint branch) or its square root (non-self-adjoint branch).
     x /= |x|;  loop: x = B x; x_norm = |x|; if x_norm == 0: raise; ...; x /= x_norm       *)
Variable rt : T -> T.
Definition pmn_step (B : V -> V) (x : V) : option (T * V) :=
  let y := B x in
  let nrm := rt (ipV y y) in
  if nrm =? nzero then None else Some (nrm, scalV (none_ / nrm) y).
Fixpoint pmn_loop (B : V -> V) (n : nat) (x : V) : option (list T) :=
  match n with
  | O => Some []
  | S n' => match pmn_step B x with
            | None => None
            | Some (nrm, x') => match pmn_loop B n' x' with None => None | Some l => Some (nrm :: l) end
            end
  end.
Definition pmn_run (B : V -> V) (n : nat) (x0 : V) : option (list T) :=
  let n0 := rt (ipV x0 x0) in
  if n0 =? nzero then None else pmn_loop B n (scalV (none_ / n0) x0).

(* ------------------------------------------------------------------ *)
(* pdhg with constant steps (gamma_primal = gamma_dual = None):
     dual_tmp = y + sigma L x_relax;  y = prox_{sigma g*}(dual_tmp)
     primal_tmp = x - tau L^* y;      x = prox_{tau f}(primal_tmp)
     x_relax = (1+theta) x - theta x_old                                *)
Record pdst := { pd_x : V; pd_xr : V; pd_y : W }.
Definition pdhg_step (A : V -> W) (At : W -> V) (proxF : T -> V -> V) (proxGc : T -> W -> W)
    (tau sigma theta : T) (s : pdst) : pdst :=
  let y' := proxGc sigma (addW (pd_y s) (scalW sigma (A (pd_xr s)))) in
  let x' := proxF tau (addV (pd_x s) (scalV (- tau) (At y'))) in
  {| pd_x := x'; pd_xr := addV (scalV (none_ + theta) x') (scalV (- theta) (pd_x s)); pd_y := y' |}.

(* pdhg with acceleration (gamma_primal or gamma_dual): after the two proximal steps
     theta = 1/sqrt(1 + 2 gamma tau); tau *= theta; sigma /= theta          (primal)
     theta = 1/sqrt(1 + 2 gamma sigma); tau /= theta; sigma *= theta        (dual)
   and x_relax uses the NEW theta.  The roots are supplied ([rts], checked by pdhg_roots_ok). *)
Fixpoint pdhg_acc_run (A : V -> W) (At : W -> V) (proxF : T -> V -> V) (proxGc : T -> W -> W)
    (primal : bool) (rts : list T) (tau sigma : T) (s : pdst) : list pdst :=
  match rts with
  | [] => []
  | r :: rts' =>
      let theta := none_ / r in
      let s' := pdhg_step A At proxF proxGc tau sigma theta s in
      let tau' := if primal then tau * theta else tau / theta in
      let sigma' := if primal then sigma / theta else sigma * theta in
      s' :: pdhg_acc_run A At proxF proxGc primal rts' tau' sigma' s'
  end.
Fixpoint pdhg_roots_ok (tol : T) (primal : bool) (gamma : T) (rts : list T) (tau sigma : T) : bool :=
  match rts with
  | [] => true
  | r :: rts' =>
      let v := none_ + of_Z 2 * gamma * (if primal then tau else sigma) in
      let theta := none_ / r in
      (nzero <? r) && (nabs (r * r - v) <=? tol * v)
      && pdhg_roots_ok tol primal gamma rts'
           (if primal then tau * theta else tau / theta) (if primal then sigma / theta else sigma * theta)
  end.

(* admm_linearized:
     x = prox_{tau f}(x - tau/sigma L^*(L x + u - z)); z = prox_{sigma g}(L x + u); u = u + L x - z *)
Record admst := { ad_x : V; ad_z : W; ad_u : W }.
Definition admm_step (A : V -> W) (At : W -> V) (proxF : T -> V -> V) (proxG : T -> W -> W)
    (tau sigma : T) (s : admst) : admst :=
  let t := subW (addW (A (ad_x s)) (ad_u s)) (ad_z s) in
  let x' := proxF tau (addV (ad_x s) (scalV (- (tau / sigma)) (At t))) in
  let Lx := A x' in
  let z' := proxG sigma (addW Lx (ad_u s)) in
  {| ad_x := x'; ad_z := z'; ad_u := subW (addW (ad_u s) Lx) z' |}.

(* proximal_gradient:  x = (1-lam_k) x + lam_k prox_{gamma f}(x - gamma grad g(x)) *)
Definition pg_step (proxF : T -> V -> V) (gradG : V -> V) (gamma lam : T) (x : V) : V :=
  addV (scalV (none_ - lam) x) (scalV lam (proxF gamma (addV x (scalV (- gamma) (gradG x))))).
Fixpoint pg_run (proxF : T -> V -> V) (gradG : V -> V) (gamma : T) (lams : list T) (x : V) : list V :=
  match lams with
  | [] => []
  | l :: lams' => let x' := pg_step proxF gradG gamma l x in x' :: pg_run proxF gradG gamma lams' x'
  end.

(* accelerated_proximal_gradient: state (x, y, t);
     t' = (1 + sqrt(1 + 4 t^2))/2; alpha = (t - 1)/t';
     tmp = y - gamma grad g(y); y = x; x = prox(tmp); y = (1+alpha) x - alpha y.
   The root is supplied by the caller ([rt], checked by the correspondence
   to satisfy rt^2 = 1 + 4t^2 up to rounding, rt >= 0). *)
Record apst := { ap_x : V; ap_y : V; ap_t : T }.
Definition apg_step (proxF : T -> V -> V) (gradG : V -> V) (gamma : T) (rt : T) (s : apst) : apst :=
  let t' := (none_ + rt) / two in
  let alpha := (ap_t s - none_) / t' in
  let x' := proxF gamma (addV (ap_y s) (scalV (- gamma) (gradG (ap_y s)))) in
  {| ap_x := x'; ap_y := addV (scalV (none_ + alpha) x') (scalV (- alpha) (ap_x s)); ap_t := t' |}.
Fixpoint apg_run (proxF : T -> V -> V) (gradG : V -> V) (gamma : T) (rts : list T) (s : apst) : list apst :=
  match rts with
  | [] => []
  | r :: rts' => let s' := apg_step proxF gradG gamma r s in s' :: apg_run proxF gradG gamma rts' s'
  end.
(* the witnesses really are the roots the code computes (up to [tol]) *)
Fixpoint apg_roots_ok (tol : T) (rts : list T) (t : T) : bool :=
  match rts with
  | [] => true
  | r :: rts' => (nzero <=? r) && (nabs (r * r - (none_ + of_Z 4 * t * t)) <=? tol * (none_ + of_Z 4 * t * t))
                 && apg_roots_ok tol rts' ((none_ + r) / two)
  end.

(* ------------------------------------------------------------------ *)
(* blocks (L_i, L_i^*, prox_{sigma g_i^*}, sigma_i) of the primal-dual splittings *)
Record blk := { bA : V -> W; bAt : W -> V; bproxGc : T -> W -> W; bsigma : T;
                 bproxLc : option (T -> W -> W);    (* prox of sigma l_i^* (douglas_rachford_pd, `l`) *)
                 bgradLc : option (W -> W) }.       (* gradient of l_i^*    (forward_backward_pd, `l`) *)

Fixpoint sum_adj (bs : list blk) (vs : list W) (acc : V) : V :=
  match bs, vs with
  | b :: bs', v :: vs' => sum_adj bs' vs' (addV acc (bAt b v))
  | _, _ => acc
  end.
Fixpoint map2 {X Y Z : Type} (f : X -> Y -> Z) (l : list X) (m : list Y) : list Z :=
  match l, m with a :: l', b :: m' => f a b :: map2 f l' m' | _, _ => [] end.

(* forward_backward_pd (l = None).  [alias = true] is the code as it stands:
   `x_old = x` binds the SAME object that prox_f then overwrites, so
   y = 2 x_new - x_new = x_new;  [alias = false] is the documented
   algorithm y = 2 x_new - x_old. *)
Definition fb_step (alias : bool) (proxF : T -> V -> V) (gradH : V -> V) (bs : list blk) (tau : T)
    (s : V * list W) : V * list W :=
  let '(x, vs) := s in
  let tmp1 := sum_adj bs vs (gradH x) in
  let x' := proxF tau (addV x (scalV (- tau) tmp1)) in
  let y := addV (scalV two x') (scalV (- none_) (if alias then x' else x)) in
  (x', map2 (fun b v =>
              let t := match bgradLc b with Some G => subW (bA b y) (G v) | None => bA b y end in
              bproxGc b (bsigma b) (addW v (scalW (bsigma b) t))) bs vs).

(* douglas_rachford_pd (l = None), one full (non-final) iteration.
   Returns (p1, next state); the callback sees p1. *)
Definition zeroV_of (x : V) : V := scalV nzero x.
Definition sum_adj0 (bs : list blk) (vs : list W) (x : V) : V :=
  match bs, vs with
  | b :: bs', v :: vs' => sum_adj bs' vs' (bAt b v)
  | _, _ => zeroV_of x
  end.
Definition dr_p1 (proxF : T -> V -> V) (bs : list blk) (tau : T) (s : V * list W) : V :=
  let '(x, vs) := s in
  proxF tau (addV x (scalV (- (tau / two)) (sum_adj0 bs vs x))).
Definition dr_step (proxF : T -> V -> V) (bs : list blk) (tau lam : T) (s : V * list W) : V * list W :=
  let '(x, vs) := s in
  let p1 := dr_p1 proxF bs tau s in
  let w1 := addV (scalV two p1) (scalV (- none_) x) in
  let x1 := addV x (scalV (- lam) p1) in
  let p2 := map2 (fun b v => bproxGc b (bsigma b) (addW v (scalW (bsigma b / two) (bA b w1)))) bs vs in
  let w2 := map2 (fun p v => addW (scalW two p) (scalW (- none_) v)) p2 vs in
  let z1 := addV w1 (scalV (- (tau / two)) (sum_adj0 bs w2 x)) in
  let x2 := addV x1 (scalV lam z1) in
  let q1 := addV (scalV two z1) (scalV (- none_) w1) in
  let z2 := map2 (fun b w => let z := addW w (scalW (bsigma b / two) (bA b q1)) in
                             match bproxLc b with Some P => P (bsigma b) z | None => z end) bs w2 in
  let vs' := map2 (fun vz p => addW vz (scalW (- lam) p))
                  (map2 (fun v z => addW v (scalW lam z)) vs z2) p2 in
  (x2, vs').
(* the list of callback values p1 for niter iterations, and the final x *)
Fixpoint dr_run (proxF : T -> V -> V) (bs : list blk) (tau : T) (lams : list T) (s : V * list W)
  : list V * V :=
  match lams with
  | [] => ([], fst s)
  | [l] => let p1 := dr_p1 proxF bs tau s in ([p1], p1)
  | l :: lams' => let p1 := dr_p1 proxF bs tau s in
                  let '(tr, xf) := dr_run proxF bs tau lams' (dr_step proxF bs tau l s) in
                  (p1 :: tr, xf)
  end.

(* ------------------------------------------------------------------ *)
(* BacktrackingLineSearch.__call__ (finite function values):
     alpha0 = self.alpha if estimate_step else 1; negated when dir_derivative > 0
     loop: if num_iter > max_num_iter: raise; fval = f(x + alpha d);
           if fval <= fx - |alpha * dd * discount|: break;  num_iter += 1; alpha *= tau
     assert fval < fx;  self.alpha = |alpha|;  return alpha *)
Inductive ls_out := LsOk (alpha : T) | LsMaxIter | LsZeroDeriv | LsAssert.
Fixpoint bt_loop (f : V -> T) (x d : V) (fx dd tau discount : T) (fuel : nat) (alpha : T) : ls_out :=
  match fuel with
  | O => LsMaxIter
  | S k => let fval := f (addV x (scalV alpha d)) in
           if fval <=? fx - nabs (alpha * dd * discount)
           then (if fval <? fx then LsOk alpha else LsAssert)
           else bt_loop f x d fx dd tau discount k (alpha * tau)
  end.
(* [alpha_st] is the object's stored alpha; max_num_iter+1 evaluations are allowed *)
Definition bt_search (f : V -> T) (tau discount : T) (max_num_iter : nat) (estimate : bool) (alpha_st : T)
    (x d : V) (dd : T) : ls_out :=
  if dd =? nzero then LsZeroDeriv else
  let a0 := if estimate then alpha_st else none_ in
  let a0 := if nzero <? dd then - a0 else a0 in
  bt_loop f x d (f x) dd tau discount (S max_num_iter) a0.

(* steepest_descent (projection=None) with a backtracking line search *)
Inductive sd_end := SdDone | SdLs (e : ls_out).
Fixpoint sd_loop (f : V -> T) (grad : V -> V) (tau discount : T) (mni : nat) (estimate : bool)
    (tol : T) (fuel : nat) (alpha_st : T) (x : V) : list V * sd_end :=
  match fuel with
  | O => ([], SdDone)
  | S k =>
      let g := grad x in
      let dd := - ipV g g in
      if nabs dd <? tol then ([], SdDone) else
      match bt_search f tau discount mni estimate alpha_st x (scalV (- none_) g) dd with
      | LsOk step =>
          let x' := addV x (scalV (- step) g) in
          let '(tr, e) := sd_loop f grad tau discount mni estimate tol k (nabs step) x' in
          (x' :: tr, e)
      | e => ([], SdLs e)
      end
  end.
(* the alpha the line-search OBJECT holds when the run above ends (self.alpha = |alpha| after every accepted
   step): a later run that reuses the object with estimate_step=True starts from it -- and from nothing else
   (the object caches no function value: fx is evaluated at the point it is called with) *)
Fixpoint sd_alpha_after (f : V -> T) (grad : V -> V) (tau discount : T) (mni : nat) (estimate : bool)
    (tol : T) (fuel : nat) (alpha_st : T) (x : V) : T :=
  match fuel with
  | O => alpha_st
  | S k =>
      let g := grad x in
      let dd := - ipV g g in
      if nabs dd <? tol then alpha_st else
      match bt_search f tau discount mni estimate alpha_st x (scalV (- none_) g) dd with
      | LsOk step => sd_alpha_after f grad tau discount mni estimate tol k (nabs step) (addV x (scalV (- step) g))
      | _ => alpha_st
      end
  end.
End Generic.

(* ====================================================================== *)
(* List instance: R^n as lists, operators as matrices (list of rows), inner
   products weighted by a vector of positive weights.                       *)
Section Lists.
Context {T : Type} `{Num T}.

Definition lip (w : list T) (x y : list T) : T := wdot w x y.
Definition lA (M : list (list T)) : list T -> list T := mvec M.

(* separable functionals the correspondence uses; c > 0, lo <= hi *)
Inductive fn :=
| FZero | FIndZero
| FL1 (c : T)                 (* c * ||x||_1 *)
| FL2sq (c : T)               (* c * ||x||_2^2 *)
| FBox (lo hi : T)            (* indicator of [lo, hi]^n *)
| FTr (f : fn) (b : list T).  (* f(. - b) *)

Definition soft (t a : T) : T :=
  if t <? a then a - t else if a <? - t then a + t else nzero.
Definition clip (lo hi a : T) : T := if a <? lo then lo else if hi <? a then hi else a.

(* prox_{sigma f} *)
Fixpoint fprox (f : fn) (sigma : T) (x : list T) : list T :=
  match f with
  | FZero => x
  | FIndZero => map (fun _ => nzero) x
  | FL1 c => map (soft (c * sigma)) x
  | FL2sq c => map (fun a => a / (none_ + of_Z 2 * sigma * c)) x
  | FBox lo hi => map (clip lo hi) x
  | FTr g b => vadd b (fprox g sigma (vsub x b))
  end.
(* prox_{sigma f^*} *)
Fixpoint fcprox (f : fn) (sigma : T) (y : list T) : list T :=
  match f with
  | FZero => map (fun _ => nzero) y
  | FIndZero => y
  | FL1 c => map (clip (- c) c) y
  | FL2sq c => map (fun a => a / (none_ + sigma / (of_Z 2 * c))) y
  | FBox lo hi => map (fun a => a - sigma * clip lo hi (a / sigma)) y
  | FTr g b => fcprox g sigma (vsub y (vscal sigma b))
  end.

(* smooth terms: q * ||M x - b||^2 with gradient 2 q M^T (M x - b) (M, M^T given) *)
Definition quad_grad (q : T) (M Mt : list (list T)) (b : list T) (x : list T) : list T :=
  vscal (of_Z 2 * q) (mvec Mt (vsub (mvec M x) b)).
(* smooth objectives of the descent cases: x^T Q x + b^T x + c, gradient (Q + Q^T) x + b *)
Definition qf_val (Qm : list (list T)) (b : list T) (c : T) (x : list T) : T :=
  dot x (mvec Qm x) + dot b x + c.
Definition qf_grad (Qm Qt : list (list T)) (b : list T) (x : list T) : list T :=
  vadd (vadd (mvec Qm x) (mvec Qt x)) b.
(* Rosenbrock: sum_i scale (x_{i+1} - x_i^2)^2 + (x_i - 1)^2 *)
Fixpoint rosen_val (scale : T) (x : list T) : T :=
  match x with
  | a :: ((b :: _) as x') => scale * ((b - a * a) * (b - a * a)) + (a - none_) * (a - none_) + rosen_val scale x'
  | _ => nzero
  end.
(* d/dx_i: -4 scale x_i (x_{i+1} - x_i^2) + 2 (x_i - 1)   [i < n-1]   + 2 scale (x_i - x_{i-1}^2)   [i > 0] *)
Fixpoint rosen_grad_from (scale : T) (prev : option T) (x : list T) : list T :=
  match x with
  | [] => []
  | a :: x' =>
      let back := match prev with Some p => of_Z 2 * scale * (a - p * p) | None => nzero end in
      let fwd := match x' with
                 | b :: _ => - (of_Z 4 * scale * a * (b - a * a)) + of_Z 2 * (a - none_)
                 | [] => nzero end in
      (fwd + back) :: rosen_grad_from scale (Some a) x'
  end.
Definition rosen_grad (scale : T) (x : list T) : list T := rosen_grad_from scale None x.
End Lists.
