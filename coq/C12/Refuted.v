(* C12/Refuted.v -- the clause "the non-smooth solvers drive the iterate towards a
   point satisfying the optimality conditions" is FALSE of the faithful model of
   forward_backward_pd (finding C12/forward_backward_pd-x_old-alias):
   `x_old = x` binds the object that `prox_f(tau)(..., out=x)` overwrites, so the
   over-relaxation  y = 2 x_new - x_old  degenerates to  y = x_new.

   Witness problem (one-dimensional, admissible steps tau = sigma = 1/2, |L| = 1):
     f = 0, h = 0, g = indicator of {0} (so g^* = 0, prox = identity), L = identity;
   the unique primal-dual solution is (x, v) = (0, 0).
   * aliased variant (the code): the positive definite form
       E(x, v) = x^2/2 - x v/4 + v^2/2
     is CONSERVED by every step, so from (1, 0) the iterates stay on the ellipse
     E = 1/2 for ever and never approach the solution;
   * documented variant: the form  x^2/2 - x v/2 + v^2/2  shrinks by the factor 3/4
     per step, so the iterates converge geometrically. *)
From Coq Require Import Reals Lra Lia Psatz List Bool.
From Verif Require Import Base.Num C12.Model C12.Space C12.ProofsNonsmooth C12.Inst1.
Import ListNotations.
Local Open Scope R_scope.

Definition wblk : pblk R1 R1 :=
  {| pA := scal_op 1; pgc := f_zero; pprox := (fun _ z => z); psig := / 2 |}.
Lemma wblk_ok : pblk_ok R1 R1 wblk.
Proof. repeat split; try apply f_zero_convex; try apply f_zero_prox; cbn; auto; lra. Qed.

Definition wFB (alias : bool) : R1 * list R1 -> R1 * list R1 :=
  FB R1 R1 (fun _ z => z) (fun _ => 0) alias [wblk] (/ 2).

Lemma wFB_alias x v : wFB true (x, [v]) = (x - v / 2, [v + (x - v / 2) / 2]).
Proof.
  unfold wFB, FB, fb_step; cbn. unfold two; numR. cbn.
  apply f_equal2; [field | apply f_equal2; [field | reflexivity]].
Qed.
Lemma wFB_doc x v : wFB false (x, [v]) = (x - v / 2, [x / 2 + v / 2]).
Proof.
  unfold wFB, FB, fb_step; cbn. unfold two; numR. cbn.
  apply f_equal2; [field | apply f_equal2; [field | reflexivity]].
Qed.

Definition st_x (s : R1 * list R1) : R := fst s.
Definition st_v (s : R1 * list R1) : R := match snd s with v :: _ => v | [] => 0 end.
Definition Ealias (s : R1 * list R1) : R := st_x s * st_x s / 2 - st_x s * st_v s / 4 + st_v s * st_v s / 2.
Definition Edoc (s : R1 * list R1) : R := st_x s * st_x s / 2 - st_x s * st_v s / 2 + st_v s * st_v s / 2.

Lemma shape_preserved alias n x v : exists x' v', iter (wFB alias) n (x, [v]) = (x', [v']).
Proof.
  revert x v; induction n as [|n IH]; intros x v; cbn [iter].
  - exists x, v; reflexivity.
  - destruct alias; [rewrite wFB_alias | rewrite wFB_doc]; apply IH.
Qed.

(* the solution (0, [0]) is a fixed point of both variants ... *)
Lemma fb_witness_solution alias : wFB alias (0, [0]) = (0, [0]).
Proof.
  destruct alias; [rewrite wFB_alias | rewrite wFB_doc];
    (apply f_equal2; [field | apply f_equal2; [field | reflexivity]]).
Qed.

(* ... but the code's variant conserves E, for every iteration count *)
Lemma fb_alias_energy_conserved_lemma n x v : Ealias (iter (wFB true) n (x, [v])) = Ealias (x, [v]).
Proof.
  revert x v; induction n as [|n IH]; intros x v; cbn [iter]; auto.
  rewrite wFB_alias, IH. unfold Ealias, st_x, st_v; cbn. field.
Qed.

(* hence the squared distance to the solution stays >= 4/5 of ... in fact >= 4/5 * E0 / ... ; concretely: *)
Lemma Ealias_upper s : Ealias s <= 5 / 8 * (st_x s * st_x s + st_v s * st_v s).
Proof.
  unfold Ealias. generalize (st_x s) (st_v s); intros a b.
  pose proof (Rle_0_sqr (a + b)) as H; unfold Rsqr in H. lra.
Qed.

Lemma fb_alias_never_converges_lemma n :
  let s := iter (wFB true) n ((1 : R1), [(0 : R1)]) in 4 / 5 <= st_x s * st_x s + st_v s * st_v s.
Proof.
  cbv zeta. pose proof (fb_alias_energy_conserved_lemma n (1 : R1) (0 : R1)) as H.
  pose proof (Ealias_upper (iter (wFB true) n ((1 : R1), [(0 : R1)]))) as Hu. rewrite H in Hu.
  unfold Ealias at 1 in Hu. unfold st_x at 1 2 3, st_v at 1 2 3 in Hu. cbn [fst snd] in Hu. lra.
Qed.

(* the documented algorithm contracts: Edoc shrinks by 3/4 per step *)
Lemma fb_documented_contracts_lemma n x v :
  Edoc (iter (wFB false) n (x, [v])) = (3 / 4) ^ n * Edoc (x, [v]).
Proof.
  revert x v; induction n as [|n IH]; intros x v; cbn [iter pow]; [lra|].
  rewrite wFB_doc, IH. unfold Edoc, st_x, st_v; cbn. field.
Qed.
