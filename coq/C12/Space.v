(* C12/Space.v -- abstract real inner-product spaces, bounded linear operators
   with adjoints, and the convex-analysis facts (sub-gradients, proximal
   points) the solver theorems of C12 rest on.  Everything is a structure
   (Record) whose fields are the usual axioms, so nothing is assumed at top
   level; C12/Inst.v builds the instance R^n (lists of fixed length with a
   weighted dot product, matrices as operators). *)
From Coq Require Import Reals Lra Lia Psatz List Bool.
Import ListNotations.
Local Open Scope R_scope.

Record IPS := {
  car :> Type;
  vnull : car;
  vplus : car -> car -> car;
  smul : R -> car -> car;
  inner : car -> car -> R;
  vplus_comm : forall x y, vplus x y = vplus y x;
  vplus_assoc : forall x y z, vplus x (vplus y z) = vplus (vplus x y) z;
  vplus_0_r : forall x, vplus x vnull = x;
  vplus_opp : forall x, vplus x (smul (- (1)) x) = vnull;
  inner_sym : forall x y, inner x y = inner y x;
  inner_add_l : forall x y z, inner (vplus x y) z = inner x z + inner y z;
  inner_scal_l : forall a x y, inner (smul a x) y = a * inner x y;
  inner_pos : forall x, 0 <= inner x x;
  inner_def : forall x, inner x x = 0 -> x = vnull }.

Arguments vnull {_}.
Arguments vplus {_} _ _.
Arguments smul {_} _ _.
Arguments inner {_} _ _.
Arguments vplus_comm {_} _ _.
Arguments vplus_assoc {_} _ _ _.
Arguments vplus_0_r {_} _.
Arguments vplus_opp {_} _.
Arguments inner_sym {_} _ _.
Arguments inner_add_l {_} _ _ _.
Arguments inner_scal_l {_} _ _ _.
Arguments inner_pos {_} _.
Arguments inner_def {_} _ _.

Declare Scope ips_scope.
Delimit Scope ips_scope with ips.
Infix "+'" := vplus (at level 50, left associativity).
Infix "*'" := smul (at level 40, left associativity).
Notation "<< x , y >>" := (inner x y) (at level 0, format "<< x ,  y >>").
Notation "x -' y" := (vplus x (smul (- (1)) y)) (at level 50, left associativity).
Definition nsq {X : IPS} (x : X) : R := inner x x.

Section IPSFacts.
Variable X : IPS.
Implicit Types x y z u v w : X.

Lemma inner_add_r x y z : <<x, y +' z>> = <<x, y>> + <<x, z>>.
Proof. rewrite inner_sym, inner_add_l, (inner_sym y), (inner_sym z); reflexivity. Qed.
Lemma inner_scal_r a x y : <<x, a *' y>> = a * <<x, y>>.
Proof. rewrite inner_sym, inner_scal_l, (inner_sym y); reflexivity. Qed.

(* two vectors with the same inner products against everything are equal:
   the engine behind every vector identity below *)
Lemma inner_ext u v : (forall w, <<u, w>> = <<v, w>>) -> u = v.
Proof.
  intros Hw.
  assert (H0 : u -' v = vnull).
  { apply inner_def. rewrite inner_add_l, inner_scal_l, !Hw. lra. }
  assert (H1 : u = (u -' v) +' v).
  { rewrite <- vplus_assoc, (vplus_comm (smul (- (1)) v) v), vplus_opp, vplus_0_r. reflexivity. }
  rewrite H1, H0, vplus_comm, vplus_0_r. reflexivity.
Qed.

Lemma inner_null_l x : <<vnull, x>> = 0.
Proof.
  pose proof (inner_add_l (vnull : X) vnull x) as H. rewrite vplus_0_r in H. lra.
Qed.
Lemma inner_null_r x : <<x, vnull>> = 0.
Proof. rewrite inner_sym; apply inner_null_l. Qed.
End IPSFacts.

(* rewrite an inner product of linear combinations into scalars *)
Ltac inner_expand :=
  repeat first [ rewrite inner_add_l | rewrite inner_add_r | rewrite inner_scal_l | rewrite inner_scal_r
               | rewrite inner_null_l | rewrite inner_null_r ].
(* decide a linear identity between vectors *)
Ltac vec_eq := apply inner_ext; intro; inner_expand; try ring; try (field; first [assumption | lra]).

Section IPSFacts2.
Variable X : IPS.
Implicit Types x y z u v w : X.

Lemma smul_1 x : 1 *' x = x.                     Proof. vec_eq. Qed.
Lemma smul_0 x : 0 *' x = vnull.                 Proof. vec_eq. Qed.
Lemma vplus_0_l x : vnull +' x = x.              Proof. vec_eq. Qed.
Lemma smul_smul a b x : a *' (b *' x) = (a * b) *' x.   Proof. vec_eq. Qed.
Lemma smul_plus_r a x y : a *' (x +' y) = a *' x +' a *' y.   Proof. vec_eq. Qed.
Lemma smul_plus_l a b x : (a + b) *' x = a *' x +' b *' x.    Proof. vec_eq. Qed.
Lemma smul_null a : a *' (vnull : X) = vnull.    Proof. vec_eq. Qed.

Lemma nsq_pos x : 0 <= nsq x.  Proof. apply inner_pos. Qed.
Lemma nsq_add_scal x u c : nsq (x +' c *' u) = nsq x + 2 * c * <<x, u>> + c * c * nsq u.
Proof. unfold nsq; inner_expand; rewrite (inner_sym u x); ring. Qed.
Lemma nsq_sub x y : nsq (x -' y) = nsq x - 2 * <<x, y>> + nsq y.
Proof. unfold nsq; inner_expand; rewrite (inner_sym y x); ring. Qed.
Lemma nsq_scal a x : nsq (a *' x) = a * a * nsq x.
Proof. unfold nsq; inner_expand; ring. Qed.
Lemma nsq_null : nsq (vnull : X) = 0.
Proof. unfold nsq; apply inner_null_l. Qed.
Lemma nsq_zero_iff x : nsq x = 0 -> x = vnull.
Proof. apply inner_def. Qed.
Lemma sub_self x : x -' x = vnull.  Proof. apply vplus_opp. Qed.
Lemma sub_eq x y : x -' y = vnull -> x = y.
Proof.
  intros H0. apply inner_ext; intro w.
  assert (H : <<x -' y, w>> = 0) by (rewrite H0; apply inner_null_l).
  revert H; inner_expand; lra.
Qed.

(* Cauchy-Schwarz, squared form *)
Lemma cauchy_schwarz x y : <<x, y>> * <<x, y>> <= nsq x * nsq y.
Proof.
  destruct (Req_dec (nsq y) 0) as [Hy|Hy].
  - apply nsq_zero_iff in Hy; subst y. rewrite inner_null_r, nsq_null. lra.
  - pose proof (nsq_pos y) as Hy0.
    pose proof (nsq_pos (nsq y *' x +' (- <<x, y>>) *' y)) as H.
    rewrite nsq_add_scal, nsq_scal in H. rewrite inner_scal_l in H. fold (nsq y) in H.
    assert (Hk : nsq y * (nsq x * nsq y - <<x, y>> * <<x, y>>) >= 0) by nra.
    assert (0 < nsq y) by lra. nra.
Qed.
End IPSFacts2.

(* ---------------------------------------------------------------------- *)
(* bounded linear operators with an adjoint *)
Record LinOp (X Y : IPS) := {
  ap :> X -> Y;
  adj : Y -> X;
  ap_add : forall x y, ap (x +' y) = ap x +' ap y;
  ap_scal : forall a x, ap (a *' x) = a *' ap x;
  adj_eq : forall x y, <<ap x, y>> = <<x, adj y>> }.
Arguments ap {_ _} _ _.
Arguments adj {_ _} _ _.

Section LinOpFacts.
Variables X Y : IPS.
Variable A : LinOp X Y.

Lemma adj_add y y' : adj A (y +' y') = adj A y +' adj A y'.
Proof. apply inner_ext; intro w. rewrite inner_add_l, !(inner_sym _ w), <- !adj_eq. inner_expand; ring. Qed.
Lemma adj_scal a y : adj A (a *' y) = a *' adj A y.
Proof. apply inner_ext; intro w. rewrite inner_scal_l, !(inner_sym _ w), <- !adj_eq. inner_expand; ring. Qed.
Lemma ap_null : A vnull = vnull.
Proof. rewrite <- (smul_0 X vnull), ap_scal. vec_eq. Qed.
Lemma ap_sub x x' : A (x -' x') = A x -' A x'.
Proof. rewrite ap_add, ap_scal; reflexivity. Qed.

(* |A v|^2 <= M |v|^2 for all v *)
Definition bounded (M : R) : Prop := forall v, nsq (A v) <= M * nsq v.
Definition adj_bounded (M : R) : Prop := forall w, nsq (adj A w) <= M * nsq w.

Lemma bounded_adj M : 0 <= M -> bounded M -> adj_bounded M.
Proof.
  intros HM HB w. set (v := adj A w).
  assert (E : nsq v = <<A v, w>>) by (unfold nsq, v; rewrite adj_eq; reflexivity).
  pose proof (cauchy_schwarz Y (A v) w) as CS. rewrite <- E in CS.
  pose proof (HB v) as Hb. pose proof (nsq_pos X v) as Hv. pose proof (nsq_pos Y w) as Hw.
  pose proof (nsq_pos Y (A v)) as Hav.
  destruct (Req_dec (nsq v) 0) as [Hz|Hz]; [rewrite Hz; nra|].
  assert (Hvp : 0 < nsq v) by lra.
  assert (H1 : nsq v * nsq v <= M * nsq v * nsq w) by nra.
  assert (H2 : nsq v * (nsq v - M * nsq w) <= 0) by nra.
  nra.
Qed.
End LinOpFacts.

Ltac lin_expand :=
  repeat first [ rewrite ap_add | rewrite ap_scal | rewrite adj_add | rewrite adj_scal
               | rewrite ap_null ].
Ltac vec_eq' := lin_expand; vec_eq.

(* ---------------------------------------------------------------------- *)
(* convex analysis: extended-valued functionals as (domain, value) *)
Record cfun (X : IPS) := { fdom : X -> Prop; fval : X -> R }.
Arguments fdom {_} _ _.
Arguments fval {_} _ _.

Section Convex.
Variable X : IPS.
Implicit Types x y z p g w : X.
Variable f : cfun X.

Definition convex : Prop :=
  forall x y t, fdom f x -> fdom f y -> 0 <= t <= 1 ->
    fdom f (t *' x +' (1 - t) *' y) /\
    fval f (t *' x +' (1 - t) *' y) <= t * fval f x + (1 - t) * fval f y.

(* g is a sub-gradient of f at x *)
Definition subgrad x g : Prop :=
  fdom f x /\ forall z, fdom f z -> fval f x + <<g, z -' x>> <= fval f z.

(* p minimises  f(w) + |w - z|^2 / (2 tau) *)
Definition is_prox (tau : R) z p : Prop :=
  fdom f p /\ forall w, fdom f w ->
    fval f p + / (2 * tau) * nsq (p -' z) <= fval f w + / (2 * tau) * nsq (w -' z).

(* x minimises f *)
Definition minimiser x : Prop := fdom f x /\ forall z, fdom f z -> fval f x <= fval f z.

Lemma subgrad_null_minimiser x : subgrad x vnull <-> minimiser x.
Proof.
  unfold subgrad, minimiser; split; intros [Hd H]; split; auto; intros z Hz; specialize (H z Hz);
    rewrite inner_null_l in *; lra.
Qed.

(* sub-gradient inclusion  (z - p)/tau in df(p)  ==>  p is the proximal point (any f) *)
Lemma subgrad_prox tau z p : 0 < tau -> subgrad p (/ tau *' (z -' p)) -> is_prox tau z p.
Proof.
  intros Ht [Hd Hs]; split; auto. intros w Hw. specialize (Hs w Hw).
  rewrite inner_scal_l in Hs.
  assert (E : nsq (w -' z) = nsq (p -' z) - 2 * <<z -' p, w -' p>> + nsq (w -' p)).
  { unfold nsq; inner_expand. rewrite (inner_sym z w), (inner_sym p w), (inner_sym p z). ring. }
  rewrite E. pose proof (nsq_pos X (w -' p)) as Hp.
  assert (Hi : 0 < / (2 * tau)) by (apply Rinv_0_lt_compat; lra).
  assert (Ei : / (2 * tau) * 2 = / tau) by (field; lra).
  assert (H3 : / (2 * tau) * (2 * <<z -' p, w -' p>>) = / tau * <<z -' p, w -' p>>)
    by (rewrite <- Ei; ring).
  nra.
Qed.

(* proximal point of a convex f  ==>  sub-gradient inclusion *)
Lemma prox_subgrad tau z p : convex -> 0 < tau -> is_prox tau z p -> subgrad p (/ tau *' (z -' p)).
Proof.
  intros Hc Ht [Hd Hp]; split; auto. intros w Hw.
  rewrite inner_scal_l.
  set (a := fval f p) in *. set (b := fval f w) in *.
  set (c := <<z -' p, w -' p>>). set (d := nsq (w -' p)).
  (* for every t in (0,1]:  a <= b - c/tau + t d / (2 tau) *)
  assert (Hall : forall t, 0 < t <= 1 -> a + / tau * c <= b + t * (/ (2 * tau) * d)).
  { intros t Htt.
    destruct (Hc w p t Hw Hd ltac:(lra)) as [Hdm Hcv].
    specialize (Hp _ Hdm). fold a b in Hcv.
    assert (E : nsq (t *' w +' (1 - t) *' p -' z) = nsq (p -' z) - 2 * t * c + t * t * d).
    { unfold nsq, c, d, nsq; inner_expand.
      rewrite (inner_sym z w), (inner_sym p w), (inner_sym p z). ring. }
    rewrite E in Hp.
    assert (Hi : 0 < / (2 * tau)) by (apply Rinv_0_lt_compat; lra).
    assert (Ei : / tau = 2 * / (2 * tau)) by (field; lra).
    rewrite Ei.
    assert (H1 : t * a + t * (2 * / (2 * tau) * c) <= t * b + t * (t * (/ (2 * tau) * d))) by nra.
    assert (H2 : t * (a + 2 * / (2 * tau) * c) <= t * (b + t * (/ (2 * tau) * d))) by lra.
    apply Rmult_le_reg_l with t; lra. }
  (* let t -> 0 *)
  pose proof (nsq_pos X (w -' p)) as Hd0. fold d in Hd0.
  assert (Hi : 0 < / (2 * tau)) by (apply Rinv_0_lt_compat; lra).
  set (e := / (2 * tau) * d) in *. assert (He : 0 <= e) by (unfold e; nra).
  destruct (Rle_dec (a + / tau * c) b) as [|Hn]; [assumption|exfalso].
  assert (Hgap : 0 < a + / tau * c - b) by lra.
  set (gap := a + / tau * c - b) in *.
  destruct (Rle_dec e gap) as [Hle|Hgt].
  - specialize (Hall (1 / 2) ltac:(lra)). unfold gap in *. nra.
  - assert (He' : 0 < e) by lra.
    assert (Ht0 : 0 < gap / (2 * e) <= 1).
    { split; [apply Rdiv_lt_0_compat; lra|]. apply Rmult_le_reg_r with (2 * e); [lra|].
      unfold Rdiv; rewrite Rmult_assoc, Rinv_l by lra. lra. }
    specialize (Hall _ Ht0).
    assert (E : gap / (2 * e) * e = gap / 2) by (field; lra).
    rewrite E in Hall. unfold gap in Hall. lra.
Qed.

(* the proximal point of a convex functional is unique *)
Lemma prox_unique tau z p p' : convex -> 0 < tau -> is_prox tau z p -> is_prox tau z p' -> p = p'.
Proof.
  intros Hc Ht H1 H2.
  pose proof (prox_subgrad tau z p Hc Ht H1) as [_ S1].
  pose proof (prox_subgrad tau z p' Hc Ht H2) as [_ S2].
  destruct H1 as [D1 _], H2 as [D2 _].
  specialize (S1 p' D2). specialize (S2 p D1). rewrite inner_scal_l in S1, S2.
  assert (Hi : 0 < / tau) by (apply Rinv_0_lt_compat; lra).
  assert (E : <<z -' p, p' -' p>> + <<z -' p', p -' p'>> = nsq (p -' p')).
  { unfold nsq; inner_expand. rewrite (inner_sym z p), (inner_sym z p'), (inner_sym p' p). ring. }
  pose proof (nsq_pos X (p -' p')) as Hp.
  assert (H0 : nsq (p -' p') = 0) by nra.
  apply sub_eq, nsq_zero_iff, H0.
Qed.

(* a proximal operator of f: for every step and argument it returns a proximal point *)
Definition prox_of (P : R -> X -> X) : Prop := forall tau z, 0 < tau -> is_prox tau z (P tau z).

(* THE bridge between optimality conditions and solver steps *)
Lemma prox_fix P tau p g : convex -> prox_of P -> 0 < tau -> subgrad p g -> P tau (p +' tau *' g) = p.
Proof.
  intros Hc HP Ht Hs.
  apply (prox_unique tau (p +' tau *' g)); auto.
  apply subgrad_prox; auto.
  replace (/ tau *' (p +' tau *' g -' p)) with g; auto.
  apply inner_ext; intro w; inner_expand; field; lra.
Qed.
Lemma prox_fix_inv P tau p z : convex -> prox_of P -> 0 < tau -> P tau z = p -> subgrad p (/ tau *' (z -' p)).
Proof. intros Hc HP Ht E. apply prox_subgrad; auto. rewrite <- E. apply HP; auto. Qed.
End Convex.
