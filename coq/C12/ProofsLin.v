(* C12/ProofsLin.v -- the linear solvers: Landweber, Kaczmarz, CG, CGN, power method.
   The generic models of C12/Model.v are instantiated with the operations of an
   abstract inner-product space (C12/Space.v) and scalars R. *)
From Coq Require Import Reals Lra Lia Psatz List Bool.
From Verif Require Import Base.Num C12.Model C12.Space.
Import ListNotations.
Local Open Scope R_scope.

(* a quantity that never increases along a list of states, starting from s *)
Fixpoint nonincr {S : Type} (phi : S -> R) (s : S) (l : list S) : Prop :=
  match l with [] => True | s' :: l' => phi s' <= phi s /\ nonincr phi s' l' end.

Lemma trace_nonincr {S : Type} (step : S -> S) (phi : S -> R) :
  (forall s, phi (step s) <= phi s) -> forall n s, nonincr phi s (trace step n s).
Proof. intros Hs n; induction n as [|n IH]; intros s; cbn; auto. Qed.

Lemma otrace_nonincr {S : Type} (step : S -> option S) (Inv : S -> Prop) (phi : S -> R) :
  (forall s s', Inv s -> step s = Some s' -> Inv s' /\ phi s' <= phi s) ->
  forall n s, Inv s -> nonincr phi s (otrace step n s).
Proof.
  intros Hs n; induction n as [|n IH]; intros s Hi; cbn; auto.
  destruct (step s) as [s'|] eqn:E; cbn; auto.
  destruct (Hs s s' Hi E) as [Hi' Hle]. split; auto.
Qed.

Lemma iter_le {S : Type} (step : S -> S) (phi : S -> R) :
  (forall s, phi (step s) <= phi s) -> forall n s, phi (iter step n s) <= phi s.
Proof.
  intros Hs n; induction n as [|n IH]; intros s; cbn; [lra|].
  eapply Rle_trans; [apply IH | apply Hs].
Qed.

(* ====================================================================== *)
Section Landweber.
Variables X Y : IPS.
Variable A : LinOp X Y.

Definition LW (omega : R) (b : Y) (x : X) : X :=
  lw_step X Y vplus smul vplus smul A (adj A) omega b x.
Lemma LW_eq omega b x : LW omega b x = x +' (- omega) *' adj A (A x -' b).
Proof. reflexivity. Qed.

Definition residual2 (b : Y) (x : X) : R := nsq (A x -' b).

Lemma landweber_step_residual M omega b x :
  bounded X Y A M -> 0 <= omega -> omega * M <= 2 ->
  residual2 b (LW omega b x) <= residual2 b x.
Proof.
  intros HB Ho HM. unfold residual2. rewrite LW_eq.
  set (r := A x -' b). set (w := adj A r).
  assert (E : A (x +' (- omega) *' w) -' b = r +' (- omega) *' A w) by (unfold r; vec_eq').
  rewrite E, nsq_add_scal.
  assert (Erw : <<r, A w>> = nsq w) by (unfold nsq, w; rewrite inner_sym, adj_eq; reflexivity).
  rewrite Erw. pose proof (HB w) as Hb. pose proof (nsq_pos X w) as Hw. pose proof (nsq_pos Y (A w)) as Haw.
  assert (H1 : omega * (omega * nsq (A w)) <= omega * (omega * (M * nsq w))) by
    (apply Rmult_le_compat_l; auto; apply Rmult_le_compat_l; auto).
  assert (H2 : omega * M * (omega * nsq w) <= 2 * (omega * nsq w)) by
    (apply Rmult_le_compat_r; auto; nra).
  nra.
Qed.

(* the distance to any solution never increases either (same step-size window) *)
Lemma landweber_step_distance M omega b xs x :
  bounded X Y A M -> 0 <= M -> 0 <= omega -> omega * M <= 2 -> A xs = b ->
  nsq (LW omega b x -' xs) <= nsq (x -' xs).
Proof.
  intros HB HM0 Ho HM Hxs. rewrite LW_eq, <- Hxs.
  set (e := x -' xs).
  assert (E1 : A x -' A xs = A e) by (unfold e; vec_eq').
  rewrite E1. set (u := adj A (A e)).
  assert (E2 : x +' (- omega) *' u -' xs = e +' (- omega) *' u) by (unfold e; vec_eq).
  rewrite E2, nsq_add_scal.
  assert (Eu : <<e, u>> = nsq (A e)) by (unfold u, nsq; rewrite <- adj_eq; reflexivity).
  rewrite Eu.
  pose proof (bounded_adj X Y A M HM0 HB (A e)) as Hb. fold u in Hb.
  pose proof (nsq_pos Y (A e)) as Hae. pose proof (nsq_pos X u) as Hu.
  assert (H1 : omega * (omega * nsq u) <= omega * (omega * (M * nsq (A e)))) by
    (apply Rmult_le_compat_l; auto; apply Rmult_le_compat_l; auto).
  assert (H2 : omega * M * (omega * nsq (A e)) <= 2 * (omega * nsq (A e))) by
    (apply Rmult_le_compat_r; auto; nra).
  nra.
Qed.

Theorem landweber_residual_all M omega b :
  bounded X Y A M -> 0 <= omega -> omega * M <= 2 ->
  forall n x, nonincr (residual2 b) x (trace (LW omega b) n x).
Proof. intros HB Ho HM. apply trace_nonincr. intro s. eapply landweber_step_residual; eauto. Qed.
End Landweber.

(* ====================================================================== *)
Section Kaczmarz.
Variable X : IPS.

(* a block: its own range space, operator, right-hand side, relaxation, norm bound *)
Record kblock := { kW : IPS; kA : LinOp X kW; kb : kW; kom : R; kM : R }.
Definition kstep (b : kblock) : X -> X := LW X (kW b) (kA b) (kom b) (kb b).
Definition kadm (b : kblock) : Prop :=
  bounded X (kW b) (kA b) (kM b) /\ 0 <= kM b /\ 0 <= kom b /\ kom b * kM b <= 2.
Definition dist2 (xs x : X) : R := nsq (x -' xs).

Lemma kstep_nonexp b xs x : kadm b -> kA b xs = kb b -> dist2 xs (kstep b x) <= dist2 xs x.
Proof.
  intros (HB & HM0 & Ho & HM) Hs. unfold dist2, kstep.
  eapply landweber_step_distance; eauto.
Qed.

Lemma sweep_nonexp (steps : list (X -> X)) xs :
  Forall (fun s => forall x, dist2 xs (s x) <= dist2 xs x) steps ->
  forall x, dist2 xs (kz_sweep X steps x) <= dist2 xs x.
Proof.
  unfold kz_sweep. induction steps as [|s steps IH]; intros HF x; cbn; [lra|].
  inversion HF as [|? ? Hs HF']; subst.
  eapply Rle_trans; [apply IH; auto | apply Hs].
Qed.

Theorem kaczmarz_sweep_distance (blocks : list kblock) xs :
  Forall kadm blocks -> Forall (fun b => kA b xs = kb b) blocks ->
  forall x, dist2 xs (kz_sweep X (map kstep blocks) x) <= dist2 xs x.
Proof.
  intros Ha Hc. apply sweep_nonexp.
  induction blocks as [|b bs IH]; cbn; constructor.
  - intro x. apply kstep_nonexp; [inversion Ha | inversion Hc]; auto.
  - apply IH; [inversion Ha | inversion Hc]; auto.
Qed.

(* random=True: ANY order list (in particular every permutation numpy can draw), block i
   always taken with its own right-hand side and relaxation parameter *)
Theorem kaczmarz_order_distance (blocks : list kblock) xs :
  Forall kadm blocks -> Forall (fun b => kA b xs = kb b) blocks ->
  forall (order : list nat) x, dist2 xs (kz_sweep_order X (map kstep blocks) order x) <= dist2 xs x.
Proof.
  intros Ha Hc order. unfold kz_sweep_order.
  assert (Hnth : forall i x, dist2 xs (nth i (map kstep blocks) (fun y => y) x) <= dist2 xs x).
  { clear order. induction blocks as [|b bs IHb]; intros i x.
    - destruct i; cbn; lra.
    - destruct i as [|i]; cbn [map nth].
      + apply kstep_nonexp; [inversion Ha | inversion Hc]; auto.
      + apply IHb; [inversion Ha | inversion Hc]; auto. }
  induction order as [|i order IH]; intros x; cbn [fold_left]; [lra|].
  eapply Rle_trans; [apply IH | apply Hnth].
Qed.

Theorem kaczmarz_random_all (blocks : list kblock) xs :
  Forall kadm blocks -> Forall (fun b => kA b xs = kb b) blocks ->
  forall (orders : list (list nat)) x,
  nonincr (dist2 xs) x (kz_run_orders X (map kstep blocks) orders x).
Proof.
  intros Ha Hc orders; induction orders as [|o orders IH]; intros x; cbn [kz_run_orders nonincr]; auto.
  split; [apply kaczmarz_order_distance; auto | apply IH].
Qed.
(* also after every single block step (callback_loop='inner') *)
Theorem kaczmarz_block_step_distance (blocks : list kblock) xs :
  Forall kadm blocks -> Forall (fun b => kA b xs = kb b) blocks ->
  forall i x, dist2 xs (nth i (map kstep blocks) (fun y => y) x) <= dist2 xs x.
Proof.
  intros Ha Hc. induction blocks as [|b bs IHb]; intros i x.
  - destruct i; cbn; lra.
  - destruct i as [|i]; cbn [map nth].
    + apply kstep_nonexp; [inversion Ha | inversion Hc]; auto.
    + apply IHb; [inversion Ha | inversion Hc]; auto.
Qed.

Theorem kaczmarz_all (blocks : list kblock) xs :
  Forall kadm blocks -> Forall (fun b => kA b xs = kb b) blocks ->
  forall n x, nonincr (dist2 xs) x (trace (kz_sweep X (map kstep blocks)) n x).
Proof. intros Ha Hc. apply trace_nonincr. apply kaczmarz_sweep_distance; auto. Qed.
End Kaczmarz.

(* ====================================================================== *)
Section CG.
Variable X : IPS.
Variable A : LinOp X X.
Hypothesis Hsym : forall x y : X, <<A x, y>> = <<x, A y>>.
Hypothesis Hpos : forall x : X, 0 <= <<x, A x>>.

Notation st := (@cgst R X).
Definition CGinit (b x : X) : st := cg_init X vplus smul inner A b x.
Definition CGstep (s : st) : option st := cg_step X vplus smul inner A s.
Definition CGrun (b x : X) (n : nat) : list st := cg_run X vplus smul inner A b x n.

(* energy-norm error  <x - xs, A (x - xs)>  where xs is the solution *)
Definition energy (xs x : X) : R := <<x -' xs, A (x -' xs)>>.

Definition cg_inv (b : X) (s : st) : Prop :=
  cg_r X s = b -' A (cg_x X s) /\ cg_rr X s = nsq (cg_r X s) /\ <<cg_r X s, cg_p X s>> = nsq (cg_r X s).

Lemma cg_init_inv b x : cg_inv b (CGinit b x).
Proof. unfold cg_inv, CGinit, cg_init; cbn. repeat split; reflexivity. Qed.

Lemma cg_step_spec b xs s s' :
  A xs = b -> cg_inv b s -> CGstep s = Some s' ->
  cg_inv b s' /\ 0 < <<cg_p X s, A (cg_p X s)>> /\
  energy xs (cg_x X s') = energy xs (cg_x X s) - cg_rr X s * cg_rr X s / <<cg_p X s, A (cg_p X s)>>.
Proof.
  intros Hxs (Hr & Hrr & Hrp). unfold CGstep, cg_step. numR.
  destruct s as [x r p rr]; cbn [cg_x cg_r cg_p cg_rr] in *.
  destruct (Reqb_spec <<p, A p>> 0) as [|Hpd]; [discriminate|].
  intros E; injection E as <-. cbn [cg_x cg_r cg_p cg_rr].
  set (pd := <<p, A p>>) in *. set (al := rr / pd).
  assert (Hpd0 : 0 < pd) by (pose proof (Hpos p); fold pd in H; lra).
  assert (Hr' : r +' (- al) *' A p = b -' A (x +' al *' p)) by (rewrite Hr; vec_eq').
  assert (Hz : <<r +' (- al) *' A p, p>> = 0).
  { inner_expand. rewrite Hrp, <- Hrr, (Hsym p p). fold pd. unfold al. field. lra. }
  set (r' := r +' (- al) *' A p) in *.
  unfold cg_inv; cbn [cg_x cg_r cg_p cg_rr].
  repeat split; auto.
  - rewrite inner_add_r, inner_scal_r, Hz. unfold nsq. ring.
  - unfold energy.
    set (e := x -' xs).
    assert (E1 : x +' al *' p -' xs = e +' al *' p) by (unfold e; vec_eq).
    rewrite E1.
    assert (E2 : A e = (- (1)) *' r) by (unfold e; rewrite Hr, <- Hxs; vec_eq').
    lin_expand. inner_expand. rewrite <- (Hsym e p), E2. inner_expand.
    rewrite (inner_sym p r), Hrp, <- Hrr. fold pd. unfold al. field. lra.
Qed.

Lemma cg_step_energy b xs s s' :
  A xs = b -> cg_inv b s -> CGstep s = Some s' ->
  cg_inv b s' /\ energy xs (cg_x X s') <= energy xs (cg_x X s).
Proof.
  intros Hxs Hi E. destruct (cg_step_spec b xs s s' Hxs Hi E) as (Hi' & Hpd & HE).
  split; auto. rewrite HE.
  assert (0 <= cg_rr X s * cg_rr X s / <<cg_p X s, A (cg_p X s)>>).
  { apply Rmult_le_pos; [nra | left; apply Rinv_0_lt_compat; auto]. }
  lra.
Qed.

(* strict decrease while the residual is non-zero *)
Lemma cg_step_energy_strict b xs s s' :
  A xs = b -> cg_inv b s -> CGstep s = Some s' -> cg_rr X s <> 0 ->
  energy xs (cg_x X s') < energy xs (cg_x X s).
Proof.
  intros Hxs Hi E Hn. destruct (cg_step_spec b xs s s' Hxs Hi E) as (Hi' & Hpd & HE).
  rewrite HE.
  assert (0 < cg_rr X s * cg_rr X s / <<cg_p X s, A (cg_p X s)>>).
  { apply Rmult_lt_0_compat; [nra | apply Rinv_0_lt_compat; auto]. }
  lra.
Qed.

Theorem cg_energy_all b xs x n :
  A xs = b -> nonincr (fun s => energy xs (cg_x X s)) (CGinit b x) (CGrun b x n).
Proof.
  intros Hxs. unfold CGrun, cg_run. fold (CGinit b x).
  destruct (neqb _ _); cbn; auto.
  apply (otrace_nonincr (cg_step X vplus smul inner A) (cg_inv b)).
  - intros s s' Hi E. eapply cg_step_energy; eauto.
  - apply cg_init_inv.
Qed.

(* the carried residual is the true residual at every visited state *)
Theorem cg_residual_tracked b x n :
  Forall (fun s => cg_r X s = b -' A (cg_x X s)) (CGrun b x n).
Proof.
  unfold CGrun, cg_run. fold (CGinit b x). destruct (neqb _ _); [constructor|].
  assert (G : forall n s, cg_inv b s -> Forall (fun s => cg_r X s = b -' A (cg_x X s))
                                          (otrace (cg_step X vplus smul inner A) n s)).
  { clear n; intros n; induction n as [|n IH]; intros s Hi; cbn; [constructor|].
    destruct (cg_step X vplus smul inner A s) as [s'|] eqn:E; [|constructor].
    assert (Hi' : cg_inv b s').
    { destruct Hi as (Hr & Hrr & Hrp).
      (* invariant part of cg_step_spec does not need a solution *)
      revert E. unfold cg_step. numR.
      destruct s as [x0 r p rr]; cbn [cg_x cg_r cg_p cg_rr] in *.
      destruct (Reqb_spec <<p, A p>> 0) as [|Hpd]; [discriminate|].
      intros E; injection E as <-. unfold cg_inv; cbn [cg_x cg_r cg_p cg_rr].
      set (pd := <<p, A p>>) in *. set (al := rr / pd).
      assert (Hz : <<r +' (- al) *' A p, p>> = 0).
      { inner_expand. rewrite Hrp, <- Hrr, (Hsym p p). fold pd. unfold al. field. lra. }
      repeat split.
      - rewrite Hr; vec_eq'.
      - set (r' := r +' (- al) *' A p) in *.
        rewrite inner_add_r, inner_scal_r, Hz. unfold nsq. ring. }
    constructor; [apply Hi' | apply IH; auto]. }
  apply G, cg_init_inv.
Qed.
End CG.

(* ====================================================================== *)
Section CGN.
Variables X Y : IPS.
Variable A : LinOp X Y.

Notation st := (@cgnst R X Y).
Variables eps2 epsm : R.
Hypothesis Hepsm : 0 <= epsm.
Definition CGNinit (b : Y) (x : X) : st := cgn_init X Y inner vplus smul inner A (adj A) eps2 b x.
Definition CGNstep (s : st) : option st := cgn_step X Y vplus smul inner vplus smul inner A (adj A) epsm s.
Definition CGNrun (b : Y) (x : X) (n : nat) : list st :=
  cgn_run X Y vplus smul inner vplus smul inner A (adj A) eps2 epsm b x n.

Definition cgn_inv (b : Y) (s : st) : Prop :=
  n_d X Y s = b -' A (n_x X Y s) /\ n_s X Y s = adj A (n_d X Y s) /\
  n_ss X Y s = nsq (n_s X Y s) /\ <<n_s X Y s, n_p X Y s>> = nsq (n_s X Y s) /\ n_dd X Y s = nsq (n_d X Y s).

Lemma cgn_init_inv b x : cgn_inv b (CGNinit b x).
Proof. unfold cgn_inv, CGNinit, cgn_init; cbn. repeat split; reflexivity. Qed.

Lemma cgn_step_spec b s s' :
  cgn_inv b s -> CGNstep s = Some s' ->
  cgn_inv b s' /\ 0 < nsq (A (n_p X Y s)) /\
  nsq (n_d X Y s') = nsq (n_d X Y s) - n_ss X Y s * n_ss X Y s / nsq (A (n_p X Y s)).
Proof.
  intros (Hd & Hs & Hss & Hsp & Hdd). unfold CGNstep, cgn_step. numR.
  destruct s as [x d p s ss stp dd]; cbn [n_x n_d n_p n_s n_ss n_stop n_dd] in *.
  destruct (Rleb ss stp); [discriminate|].
  fold (nsq (A p)).
  destruct (Reqb_spec (nsq (A p)) 0) as [|Hqq]; [discriminate|].
  set (qq := nsq (A p)) in *. set (a := ss / qq).
  assert (Hqq0' : 0 < qq) by (pose proof (nsq_pos Y (A p)) as Hq; fold qq in Hq; lra).
  assert (Hdq' : <<d, A p>> = ss).
  { rewrite inner_sym, adj_eq, <- Hs, inner_sym, Hsp, <- Hss. reflexivity. }
  assert (Hres' : nsq (d +' (- a) *' A p) = nsq d - ss * ss / qq).
  { rewrite nsq_add_scal, Hdq'. fold qq. unfold a. field. lra. }
  fold (nsq (d +' (- a) *' A p)).
  (* the guard of fix b290190 never fires in exact arithmetic *)
  destruct (Rltb_spec (dd * (1 + 100 * epsm)) (nsq (d +' - a *' A p))) as [Hfire|_].
  { exfalso. rewrite Hres', Hdd in Hfire. pose proof (nsq_pos Y d) as Hd0.
    assert (0 <= ss * ss / qq) by (apply Rmult_le_pos; [nra | left; apply Rinv_0_lt_compat; auto]).
    nra. }
  intros E; injection E as <-. cbn [n_x n_d n_p n_s n_ss n_stop n_dd].
  assert (Hqq0 : 0 < qq) by (pose proof (nsq_pos Y (A p)); fold qq in H; lra).
  assert (Hdq : <<d, A p>> = ss).
  { rewrite inner_sym, adj_eq, <- Hs, inner_sym, Hsp, <- Hss. reflexivity. }
  assert (Hz : <<adj A (d +' (- a) *' A p), p>> = 0).
  { rewrite inner_sym, <- adj_eq. inner_expand. rewrite (inner_sym (A p) d), Hdq.
    fold (nsq (A p)). fold qq. unfold a. field. lra. }
  assert (Hres : nsq (d +' (- a) *' A p) = nsq d - ss * ss / qq).
  { rewrite nsq_add_scal, Hdq. fold qq. unfold a. field. lra. }
  set (s' := adj A (d +' (- a) *' A p)) in *.
  unfold cgn_inv; cbn [n_x n_d n_p n_s n_ss n_stop n_dd].
  repeat split; auto.
  - rewrite Hd; vec_eq'.
  - rewrite inner_add_r, inner_scal_r, Hz. unfold nsq. ring.
Qed.

(* the guard added by fix b290190 (`sqnorm_d_new > sqnorm_d_old * (1 + 100 eps)`: undo the step and return)
   never fires in exact arithmetic: the residual of the trial step is <= the old one *)
Lemma cgn_guard_never_fires_exact b (s : st) :
  cgn_inv b s -> nsq (A (n_p X Y s)) <> 0 ->
  Rltb (n_dd X Y s * (1 + 100 * epsm))
       (nsq (n_d X Y s +' (- (n_ss X Y s / nsq (A (n_p X Y s)))) *' A (n_p X Y s))) = false.
Proof.
  intros (Hd & Hs & Hss & Hsp & Hdd) Hq.
  destruct s as [x d p s ss stp dd]; cbn [n_x n_d n_p n_s n_ss n_stop n_dd] in *.
  set (qq := nsq (A p)) in *.
  assert (Hqq0 : 0 < qq) by (pose proof (nsq_pos Y (A p)) as H0; fold qq in H0; lra).
  assert (Hdq : <<d, A p>> = ss).
  { rewrite inner_sym, adj_eq, <- Hs, inner_sym, Hsp, <- Hss. reflexivity. }
  assert (Hres : nsq (d +' (- (ss / qq)) *' A p) = nsq d - ss * ss / qq).
  { rewrite nsq_add_scal, Hdq. fold qq. field. lra. }
  destruct (Rltb_spec (dd * (1 + 100 * epsm)) (nsq (d +' - (ss / qq) *' A p))) as [Hfire|]; [exfalso|reflexivity].
  rewrite Hres, Hdd in Hfire. pose proof (nsq_pos Y d) as Hd0.
  assert (0 <= ss * ss / qq) by (apply Rmult_le_pos; [nra | left; apply Rinv_0_lt_compat; auto]).
  nra.
Qed.

Theorem cgn_residual_all b x n :
  nonincr (fun s => nsq (b -' A (n_x X Y s))) (CGNinit b x) (CGNrun b x n).
Proof.
  unfold CGNrun, cgn_run. fold (CGNinit b x).
  apply (otrace_nonincr (cgn_step X Y vplus smul inner vplus smul inner A (adj A) epsm) (cgn_inv b)).
  - intros s s' Hi E. destruct (cgn_step_spec b s s' Hi E) as (Hi' & Hqq & HE).
    split; auto. destruct Hi as (Hd & _), Hi' as (Hd' & _). rewrite <- Hd, <- Hd', HE.
    assert (0 <= n_ss X Y s * n_ss X Y s / nsq (A (n_p X Y s))).
    { apply Rmult_le_pos; [nra | left; apply Rinv_0_lt_compat; auto]. }
    lra.
  - apply cgn_init_inv.
Qed.
End CGN.

(* ====================================================================== *)
Section Power.
Variables X Y : IPS.
Variable A : LinOp X Y.

Definition Bn (x : X) : X := adj A (A x).

Lemma Bn_bound M : 0 <= M -> bounded X Y A M -> forall x, nsq (Bn x) <= M * M * nsq x.
Proof.
  intros HM HB x. unfold Bn.
  pose proof (bounded_adj X Y A M HM HB (A x)) as H1. pose proof (HB x) as H2.
  pose proof (nsq_pos X x). nra.
Qed.

(* non-self-adjoint branch: x_norm^2 = (estimate)^4 <= M^2 whenever |A v|^2 <= M |v|^2 *)
Theorem pm_normal_bound M k x0 v :
  0 <= M -> bounded X Y A M -> pm_sq X inner Bn k x0 = Some v -> v <= M * M.
Proof.
  intros HM HB. unfold pm_sq. numR. set (y := iter Bn k x0).
  destruct (Reqb_spec <<y, y>> 0) as [|Hy]; [discriminate|].
  intros E; injection E as <-.
  pose proof (Bn_bound M HM HB y) as Hb. unfold nsq in Hb.
  pose proof (inner_pos y) as Hp. assert (Hy0 : 0 < <<y, y>>) by lra.
  apply Rmult_le_reg_r with <<y, y>>; auto.
  unfold Rdiv. rewrite Rmult_assoc, Rinv_l by lra. lra.
Qed.
End Power.

Section PowerSelf.
Variable X : IPS.
Variable A : LinOp X X.
(* self-adjoint branch (`op.adjoint is op`): x_norm^2 = (estimate)^2 <= M *)
Theorem pm_selfadjoint_bound M k x0 v :
  bounded X X A M -> pm_sq X inner A k x0 = Some v -> v <= M.
Proof.
  intros HB. unfold pm_sq. numR. set (y := iter A k x0).
  destruct (Reqb_spec <<y, y>> 0) as [|Hy]; [discriminate|].
  intros E; injection E as <-.
  pose proof (HB y) as Hb. unfold nsq in Hb.
  pose proof (inner_pos y) as Hp. assert (Hy0 : 0 < <<y, y>>) by lra.
  apply Rmult_le_reg_r with <<y, y>>; auto.
  unfold Rdiv. rewrite Rmult_assoc, Rinv_l by lra. lra.
Qed.
End PowerSelf.

(* every value in the list produced by pm_sqs is one of the pm_sq values *)
Lemma pm_sqs_In {X : IPS} (B : X -> X) n x0 l v :
  pm_sqs X inner B n x0 = Some l -> In v l -> exists k, (k < n)%nat /\ pm_sq X inner B k x0 = Some v.
Proof.
  revert l; induction n as [|n IH]; intros l; cbn [pm_sqs].
  - intros E; injection E as <-. intros [].
  - destruct (pm_sqs X inner B n x0) as [l0|] eqn:E0; [|discriminate].
    destruct (pm_sq X inner B n x0) as [v0|] eqn:E1; [|discriminate].
    destruct (neqb v0 nzero); [discriminate|].
    intros E; injection E as <-. intros Hin. apply in_app_or in Hin. destruct Hin as [Hin|Hin].
    + destruct (IH l0 eq_refl Hin) as (k & Hk & Ek). exists k; split; auto.
    + cbn in Hin. destruct Hin as [Hv|Hf]; [subst v0|contradiction]. exists n; split; auto.
Qed.

(* from v = e^4 <= K^4 (resp. e^2 <= K^2) to e <= K *)
Lemma pow4_le e K : 0 <= e -> 0 <= K -> e * e * (e * e) <= K * K * (K * K) -> e <= K.
Proof.
  intros He HK H. destruct (Rle_dec e K); auto. exfalso. assert (K < e) by lra.
  assert (H1 : K * K < e * e) by nra. assert (H2 : 0 <= K * K) by nra.
  assert (H3 : K * K * (K * K) < e * e * (e * e)) by (apply Rmult_le_0_lt_compat; lra).
  lra.
Qed.
Lemma pow2_le e K : 0 <= e -> 0 <= K -> e * e <= K * K -> e <= K.
Proof. intros He HK H. destruct (Rle_dec e K); auto. exfalso. assert (K < e) by lra. nra. Qed.

(* ====================================================================== *)
(* the normalised loop of power_method_opnorm (with sqrt) and its link to pm_sq *)
Section PMnorm.
Variable X : IPS.
Variable B : X -> X.
Hypothesis Bhom : forall c x, B (c *' x) = c *' B x.

Definition PMstep := pmn_step X smul inner sqrt B.
Definition PMloop := pmn_loop X smul inner sqrt B.
Definition PMrun := pmn_run X smul inner sqrt B.

Lemma sqrt_nsq_sq (y : X) : sqrt (nsq y) * sqrt (nsq y) = nsq y.
Proof. apply sqrt_sqrt, nsq_pos. Qed.

Lemma normalize_unit (y : X) : sqrt (nsq y) <> 0 -> nsq ((1 / sqrt (nsq y)) *' y) = 1.
Proof.
  intros Hn. rewrite nsq_scal. pose proof (sqrt_nsq_sq y) as E.
  unfold Rdiv. rewrite !Rmult_1_l.
  replace (/ sqrt (nsq y) * / sqrt (nsq y) * nsq y) with (/ sqrt (nsq y) * / sqrt (nsq y) * (sqrt (nsq y) * sqrt (nsq y)))
    by (rewrite E; reflexivity).
  field. exact Hn.
Qed.

(* invariant |x| = 1; every x_norm is bounded by Kb when |B z|^2 <= Kb^2 |z|^2 *)
Lemma pm_loop_bounded Kb : 0 <= Kb -> (forall z, nsq (B z) <= Kb * Kb * nsq z) ->
  forall n x l, nsq x = 1 -> PMloop n x = Some l -> Forall (fun v => 0 <= v <= Kb) l.
Proof.
  intros HK HB n; induction n as [|n IH]; intros x l Hx; cbn [PMloop pmn_loop].
  - intros E; injection E as <-. constructor.
  - unfold pmn_step. numR. fold (nsq (B x)).
    destruct (Reqb_spec (sqrt (nsq (B x))) 0) as [|Hn]; [discriminate|].
    destruct (PMloop n (1 / sqrt (nsq (B x)) *' B x)) as [l'|] eqn:El; [|discriminate].
    intros E; injection E as <-. constructor.
    + split; [apply sqrt_pos|].
      rewrite <- (sqrt_square Kb) by auto. apply sqrt_le_1_alt.
      specialize (HB x). rewrite Hx in HB. lra.
    + apply (IH (1 / sqrt (nsq (B x)) *' B x)); auto. apply normalize_unit; auto.
Qed.

Theorem pm_run_bounded Kb : 0 <= Kb -> (forall z, nsq (B z) <= Kb * Kb * nsq z) ->
  forall n x0 l, PMrun n x0 = Some l -> Forall (fun v => 0 <= v <= Kb) l.
Proof.
  intros HK HB n x0 l. unfold PMrun, pmn_run. numR. fold (nsq x0).
  destruct (Reqb_spec (sqrt (nsq x0)) 0) as [|Hn]; [discriminate|].
  apply pm_loop_bounded; auto. apply normalize_unit; auto.
Qed.

(* link with the un-normalised executable model: started from y/|y|, the k-th value of
   x_norm satisfies  x_norm^2 = |B^(k+1) y|^2 / |B^k y|^2 = pm_sq B k y *)
Lemma pm_loop_ratio n : forall (y : X) l, sqrt (nsq y) <> 0 ->
  PMloop n ((1 / sqrt (nsq y)) *' y) = Some l ->
  Forall2 (fun v k => pm_sq X inner B k y = Some (v * v)) l (seq 0 n).
Proof.
  induction n as [|n IH]; intros y l Hy; cbn [PMloop pmn_loop].
  - intros E; injection E as <-. constructor.
  - unfold pmn_step. numR. rewrite Bhom. fold (nsq ((1 / sqrt (nsq y)) *' B y)). rewrite nsq_scal.
    set (sy := sqrt (nsq y)) in *. set (sb := sqrt (nsq (B y))).
    assert (Hsy : 0 < sy) by (pose proof (sqrt_pos (nsq y)); fold sy in H; lra).
    assert (Esy : sy * sy = nsq y) by apply sqrt_nsq_sq.
    assert (Esb : sb * sb = nsq (B y)) by apply sqrt_nsq_sq.
    assert (Hsb0 : 0 <= sb) by apply sqrt_pos.
    assert (Enrm : sqrt (1 / sy * (1 / sy) * nsq (B y)) = sb / sy).
    { rewrite <- Esb.
      replace (1 / sy * (1 / sy) * (sb * sb)) with ((sb / sy) * (sb / sy)) by (field; lra).
      apply sqrt_square. apply Rmult_le_pos; auto. left. apply Rinv_0_lt_compat; auto. }
    rewrite Enrm.
    destruct (Reqb_spec (sb / sy) 0) as [|Hn]; [discriminate|].
    assert (Hsb : sb <> 0).
    { intro E0. apply Hn. rewrite E0. unfold Rdiv. ring. }
    assert (Ex' : 1 / (sb / sy) *' (1 / sy *' B y) = (1 / sb) *' B y).
    { rewrite smul_smul. f_equal. field. split; lra. }
    rewrite Ex'. fold sb.
    destruct (PMloop n (1 / sb *' B y)) as [l'|] eqn:El; [|discriminate].
    intros E; injection E as <-.
    cbn [seq]. constructor.
    + unfold pm_sq. cbn [iter]. numR. fold (nsq y) (nsq (B y)).
      destruct (Reqb_spec (nsq y) 0) as [E0|_]; [rewrite <- Esy in E0; nra|].
      f_equal. rewrite <- Esy, <- Esb. field. lra.
    + pose proof (IH (B y) l' Hsb El) as F.
      rewrite <- seq_shift. clear - F.
      induction F as [|v k l ks Hv F IHF]; cbn [map]; constructor; auto.
Qed.

Theorem pm_run_ratio n x0 l : PMrun n x0 = Some l ->
  Forall2 (fun v k => pm_sq X inner B k x0 = Some (v * v)) l (seq 0 n).
Proof.
  unfold PMrun, pmn_run. numR. fold (nsq x0).
  destruct (Reqb_spec (sqrt (nsq x0)) 0) as [|Hn]; [discriminate|].
  apply pm_loop_ratio; auto.
Qed.
End PMnorm.

