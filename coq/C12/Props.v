(* C12/Props.v -- property theorems only; each is closed by [exact] of a lemma from
   the C12 proof files and followed by Print Assumptions.

   Setting.  X, Y range over ALL real inner-product spaces (Record IPS of C12/Space.v:
   a carrier with +, scalar multiple, inner product and the usual axioms as fields),
   A over ALL linear operators X -> Y with an adjoint (Record LinOp).  The solver
   steps are the generic definitions of C12/Model.v -- the very terms the
   correspondence shards execute at Q on lists -- instantiated with the operations
   of X, Y and scalars R.  [nonincr phi s l] says phi never increases along s :: l.
   Iteration counts, budgets, dimensions and problem data are universally quantified. *)
From Coq Require Import Reals List Bool.
From Verif Require Import Base.Num Base.Vec C12.Model C12.Proofs Gen.SolversC12 C12.Bridge.
Import ListNotations.
Local Open Scope R_scope.

(* ---------------------------------------------------------------- Landweber *)
(* residual |A x - b|^2 never increases, for every relaxation 0 <= omega <= 2/M where
   |A v|^2 <= M |v|^2, every right-hand side (consistent or not), start and budget *)
Theorem landweber_residual_nonincreasing :
  forall (X Y : IPS) (A : LinOp X Y) (M omega : R) (b : Y),
  bounded X Y A M -> 0 <= omega -> omega * M <= 2 ->
  forall (n : nat) (x : X),
  nonincr (fun x => nsq (A x -' b)) x
          (trace (lw_step X Y vplus smul vplus smul A (adj A) omega b) n x).
Proof. exact landweber_residual_all. Qed.
Print Assumptions landweber_residual_nonincreasing.

(* ----------------------------------------------------------------- Kaczmarz *)
(* every sweep (blocks in order, each with its own range space, relaxation omega_i in
   [0, 2/M_i]) never increases the distance to ANY solution of a consistent system *)
Theorem kaczmarz_distance_nonincreasing :
  forall (X : IPS) (blocks : list (kblock X)) (xs : X),
  Forall (fun b => bounded X (kW X b) (kA X b) (kM X b) /\ 0 <= kM X b /\ 0 <= kom X b /\ kom X b * kM X b <= 2) blocks ->
  Forall (fun b => kA X b xs = kb X b) blocks ->
  forall (n : nat) (x : X),
  nonincr (fun x => nsq (x -' xs)) x
          (trace (kz_sweep X (map (fun b => lw_step X (kW X b) vplus smul vplus smul (kA X b) (adj (kA X b)) (kom X b) (kb X b)) blocks)) n x).
Proof. exact kaczmarz_all. Qed.
Print Assumptions kaczmarz_distance_nonincreasing.

(* random=True: the blocks are visited in ANY order (every list of operator indices, in particular
   every permutation numpy can draw, a fresh one per outer iteration), block i always with its own
   rhs[i] and omega[i]: the distance to any solution still never increases -- per sweep and after
   every single block step *)
Theorem kaczmarz_random_order_distance_nonincreasing :
  forall (X : IPS) (blocks : list (kblock X)) (xs : X),
  Forall (fun b => bounded X (kW X b) (kA X b) (kM X b) /\ 0 <= kM X b /\ 0 <= kom X b /\ kom X b * kM X b <= 2) blocks ->
  Forall (fun b => kA X b xs = kb X b) blocks ->
  forall (orders : list (list nat)) (x : X),
  nonincr (fun x => nsq (x -' xs)) x
          (kz_run_orders X (map (fun b => lw_step X (kW X b) vplus smul vplus smul (kA X b) (adj (kA X b)) (kom X b) (kb X b)) blocks) orders x).
Proof. exact kaczmarz_random_all. Qed.
Print Assumptions kaczmarz_random_order_distance_nonincreasing.
Theorem kaczmarz_every_block_step_distance_nonincreasing :
  forall (X : IPS) (blocks : list (kblock X)) (xs : X),
  Forall (fun b => bounded X (kW X b) (kA X b) (kM X b) /\ 0 <= kM X b /\ 0 <= kom X b /\ kom X b * kM X b <= 2) blocks ->
  Forall (fun b => kA X b xs = kb X b) blocks ->
  forall (i : nat) (x : X),
  nsq (nth i (map (fun b => lw_step X (kW X b) vplus smul vplus smul (kA X b) (adj (kA X b)) (kom X b) (kb X b)) blocks) (fun y => y) x -' xs)
  <= nsq (x -' xs).
Proof. exact kaczmarz_block_step_distance. Qed.

(* ------------------------------------------------------ conjugate gradients *)
(* energy-norm error <x - xs, A (x - xs)> never increases along the states visited by
   conjugate_gradient (A symmetric positive semi-definite, A xs = b), any budget;
   it strictly decreases while the residual is non-zero, by exactly |r|^4 / <p, A p> *)
Theorem cg_energy_error_nonincreasing :
  forall (X : IPS) (A : LinOp X X),
  (forall x y : X, <<A x, y>> = <<x, A y>>) -> (forall x : X, 0 <= <<x, A x>>) ->
  forall (b xs x : X) (n : nat), A xs = b ->
  nonincr (fun s => <<cg_x X s -' xs, A (cg_x X s -' xs)>>)
          (cg_init X vplus smul inner A b x) (cg_run X vplus smul inner A b x n).
Proof. exact cg_energy_all. Qed.
Print Assumptions cg_energy_error_nonincreasing.

Theorem cg_energy_error_step :
  forall (X : IPS) (A : LinOp X X),
  (forall x y : X, <<A x, y>> = <<x, A y>>) -> (forall x : X, 0 <= <<x, A x>>) ->
  forall (b xs : X) (s s' : @cgst R X), A xs = b -> cg_inv X A b s ->
  cg_step X vplus smul inner A s = Some s' ->
  cg_inv X A b s' /\ 0 < <<cg_p X s, A (cg_p X s)>> /\
  <<cg_x X s' -' xs, A (cg_x X s' -' xs)>> =
  <<cg_x X s -' xs, A (cg_x X s -' xs)>> - cg_rr X s * cg_rr X s / <<cg_p X s, A (cg_p X s)>>.
Proof. exact cg_step_spec. Qed.
Print Assumptions cg_energy_error_step.

(* the recursively updated residual is the true residual b - A x at every visited state *)
Theorem cg_residual_is_true_residual :
  forall (X : IPS) (A : LinOp X X),
  (forall x y : X, <<A x, y>> = <<x, A y>>) ->
  forall (b x : X) (n : nat),
  Forall (fun s => cg_r X s = b -' A (cg_x X s)) (cg_run X vplus smul inner A b x n).
Proof. exact cg_residual_tracked. Qed.
Print Assumptions cg_residual_is_true_residual.

(* exact after dimension-many steps: in a space where n+1 mutually orthogonal vectors cannot all
   be non-zero (dimension <= n), for A symmetric positive definite and any budget k >= n, the
   last state visited by conjugate_gradient carries the exact solution -- whether the loop ran all
   k steps or left early through one of its `return`s.  Proof: the full Krylov invariant
   (residuals mutually orthogonal, directions A-conjugate) by induction over the loop. *)
Theorem cg_exact_after_dimension_many_steps :
  forall (X : IPS) (A : LinOp X X),
  (forall x y : X, <<A x, y>> = <<x, A y>>) -> (forall x : X, <<x, A x>> = 0 -> x = vnull) ->
  forall (n : nat) (b xs x : X) (k : nat),
  (forall l : list X, length l = S n -> ForallOrdPairs (fun u v => <<u, v>> = 0) l -> exists v, In v l /\ v = vnull) ->
  A xs = b -> (n <= k)%nat ->
  cg_x X (last (cg_run X vplus smul inner A b x k) (cg_init X vplus smul inner A b x)) = xs.
Proof. intros X A Hs Hd n b xs x k Hdim; exact (cg_exact_after_dim X A Hs Hd n b xs x k Hdim). Qed.
Print Assumptions cg_exact_after_dimension_many_steps.
(* the residuals of all visited states are mutually orthogonal, the earlier ones non-zero *)
Theorem cg_krylov_invariant_preserved :
  forall (X : IPS) (A : LinOp X X),
  (forall x y : X, <<A x, y>> = <<x, A y>>) ->
  forall (b : X) (hist : list (@cgst R X)) (s s' : @cgst R X),
  krylov X A b hist s -> cg_step X vplus smul inner A s = Some s' -> krylov X A b (s :: hist) s'.
Proof. intros X A Hs; exact (krylov_step X A Hs). Qed.
(* the dimension premise is discharged for weighted R^n of every n below (Rn_has_dimension_n),
   giving cg_on_lists_exact_after_n_steps with no abstract premise left *)

(* -------------------------------------------- CG on the normal equations *)
(* residual |b - A x|^2 never increases (any A with adjoint, any b, start, budget, and any value of
   the relative stopping constant eps2 = np.finfo(float).eps ** 2) *)
Theorem cgn_residual_nonincreasing :
  forall (X Y : IPS) (A : LinOp X Y) (eps2 epsm : R), 0 <= epsm -> forall (b : Y) (x : X) (n : nat),
  nonincr (fun s => nsq (b -' A (n_x X Y s)))
          (cgn_init X Y inner vplus smul inner A (adj A) eps2 b x)
          (cgn_run X Y vplus smul inner vplus smul inner A (adj A) eps2 epsm b x n).
Proof. exact cgn_residual_all. Qed.
(* the guard of fix b290190 (stop and undo when the residual of the trial step exceeds the old one by more than
   rounding) never fires in exact arithmetic -- so the theorems above are unchanged by it -- and when it does
   fire (floats) it leaves x exactly where the iteration started *)
Theorem cgn_guard_never_fires_in_exact_arithmetic :
  forall (X Y : IPS) (A : LinOp X Y) (eps2 epsm : R), 0 <= epsm ->
  forall (b : Y) (s : @cgnst R X Y), cgn_inv X Y A b s -> nsq (A (n_p X Y s)) <> 0 ->
  Rltb (n_dd X Y s * (1 + 100 * epsm))
       (nsq (n_d X Y s +' (- (n_ss X Y s / nsq (A (n_p X Y s)))) *' A (n_p X Y s))) = false.
Proof. intros X Y A eps2 epsm H; exact (cgn_guard_never_fires_exact X Y A epsm H). Qed.
Theorem cgn_guard_exit_restores_x :
  forall (X Y : IPS) (A : X -> Y) (At : Y -> X) (epsm : R) (s : @cgnst R X Y),
  gen_cgn_exit1_x X Y vplus smul vplus smul inner A At epsm s = n_x X Y s.
Proof. exact gen_cgn_guard_exit_restores_x. Qed.
Print Assumptions cgn_residual_nonincreasing.

(* ------------------------------------------------------------- power method *)
(* every value x_norm^2 the loop can produce is <= M^2 (non-self-adjoint branch, where the
   returned estimate e satisfies e^4 = x_norm^2) resp. <= M (self-adjoint branch,
   e^2 = x_norm^2) whenever |A v|^2 <= M |v|^2: the estimate never exceeds the norm *)
Theorem power_method_normal_bound :
  forall (X Y : IPS) (A : LinOp X Y) (M : R) (k : nat) (x0 : X) (v : R),
  0 <= M -> bounded X Y A M ->
  pm_sq X inner (fun x => adj A (A x)) k x0 = Some v -> v <= M * M.
Proof. exact pm_normal_bound. Qed.
Print Assumptions power_method_normal_bound.
Theorem power_method_selfadjoint_bound :
  forall (X : IPS) (A : LinOp X X) (M : R) (k : nat) (x0 : X) (v : R),
  bounded X X A M -> pm_sq X inner A k x0 = Some v -> v <= M.
Proof. exact pm_selfadjoint_bound. Qed.
Print Assumptions power_method_selfadjoint_bound.
Theorem power_method_estimate_le_norm :
  forall e K : R, 0 <= e -> 0 <= K -> e * e * (e * e) <= K * K * (K * K) -> e <= K.
Proof. exact pow4_le. Qed.

(* the loop exactly as coded (normalising with sqrt every iteration): every x_norm it produces
   is in [0, Kb] when |B z|^2 <= Kb^2 |z|^2; with B = A (self-adjoint branch, estimate = x_norm,
   Kb = K) and B = A^* A (estimate = sqrt x_norm, Kb = K^2) the returned estimate is <= K *)
Theorem power_method_as_coded_bounded :
  forall (X : IPS) (B : X -> X) (Kb : R),
  0 <= Kb -> (forall z, nsq (B z) <= Kb * Kb * nsq z) ->
  forall (n : nat) (x0 : X) (l : list R),
  pmn_run X smul inner sqrt B n x0 = Some l -> Forall (fun v => 0 <= v <= Kb) l.
Proof. exact pm_run_bounded. Qed.
Print Assumptions power_method_as_coded_bounded.
(* ... and its k-th x_norm squared IS the rational quantity pm_sq that the correspondence
   compares with the implementation (B homogeneous, e.g. linear) *)
Theorem power_method_as_coded_matches_executable_model :
  forall (X : IPS) (B : X -> X), (forall c x, B (c *' x) = c *' B x) ->
  forall (n : nat) (x0 : X) (l : list R),
  pmn_run X smul inner sqrt B n x0 = Some l ->
  Forall2 (fun v k => pm_sq X inner B k x0 = Some (v * v)) l (seq 0 n).
Proof. exact pm_run_ratio. Qed.
Print Assumptions power_method_as_coded_matches_executable_model.

(* ------------------------------------- backtracking / steepest descent *)
(* whenever BacktrackingLineSearch returns alpha, f(x + alpha d) <= f(x) - |alpha dd discount|
   and f(x + alpha d) < f(x): for EVERY f, direction, parameters, fuel *)
Theorem backtracking_line_search_decreases :
  forall (X : IPS) (f : X -> R) (tau disc : R) (mni : nat) (est : bool) (alpha_st : R) (x d : X) (dd alpha : R),
  bt_search X vplus smul f tau disc mni est alpha_st x d dd = LsOk alpha ->
  f (x +' alpha *' d) <= f x - Rabs (alpha * dd * disc) /\ f (x +' alpha *' d) < f x.
Proof. exact backtracking_decrease. Qed.
Print Assumptions backtracking_line_search_decreases.

(* steepest_descent with a backtracking line search never increases the objective:
   every callback iterate has a strictly smaller value than its predecessor *)
Theorem steepest_descent_objective_nonincreasing :
  forall (X : IPS) (f : X -> R) (grad : X -> X) (tau disc : R) (mni : nat) (est : bool) (tol : R) (maxiter : nat)
         (alpha_st : R) (x : X) (tr : list X) (e : @sd_end R),
  sd_loop X vplus smul inner f grad tau disc mni est tol maxiter alpha_st x = (tr, e) ->
  nonincr f x tr /\ strict_decr f x tr.
Proof. intros; split; [eapply steepest_descent_monotone | eapply steepest_descent_strict]; eauto. Qed.
Print Assumptions steepest_descent_objective_nonincreasing.

(* ------------------------------------------------ optimality <-> fixed points *)
(* the link between sub-gradient inclusion and proximal maps, both directions *)
Theorem subgradient_inclusion_gives_prox :
  forall (X : IPS) (f : cfun X) (tau : R) (z p : X),
  0 < tau -> subgrad X f p (/ tau *' (z -' p)) -> is_prox X f tau z p.
Proof. exact subgrad_prox. Qed.
Theorem prox_gives_subgradient_inclusion :
  forall (X : IPS) (f : cfun X) (tau : R) (z p : X),
  convex X f -> 0 < tau -> is_prox X f tau z p -> subgrad X f p (/ tau *' (z -' p)).
Proof. exact prox_subgrad. Qed.
Print Assumptions prox_gives_subgradient_inclusion.

(* PDHG: a primal-dual optimal pair is a fixed point, for all tau, sigma > 0 and theta *)
Theorem pdhg_solution_is_fixed_point :
  forall (X Y : IPS) (A : LinOp X Y) (f : cfun X) (gc : cfun Y) (proxF : R -> X -> X) (proxGc : R -> Y -> Y),
  convex X f -> convex Y gc -> prox_of X f proxF -> prox_of Y gc proxGc ->
  forall (tau sigma theta : R) (xs : X) (ys : Y) (n : nat),
  0 < tau -> 0 < sigma ->
  subgrad X f xs ((- (1)) *' adj A ys) -> subgrad Y gc ys (A xs) ->
  iter (pdhg_step X Y vplus smul vplus smul A (adj A) proxF proxGc tau sigma theta) n
       {| pd_x := xs; pd_xr := xs; pd_y := ys |} = {| pd_x := xs; pd_xr := xs; pd_y := ys |}.
Proof. intros; apply (pdhg_fixed_point_iter X Y A f gc proxF proxGc); auto; split; auto. Qed.
Print Assumptions pdhg_solution_is_fixed_point.

(* the same for accelerated pdhg (gamma_primal / gamma_dual), whose steps change every iteration *)
Theorem pdhg_accelerated_solution_is_fixed_point :
  forall (X Y : IPS) (A : LinOp X Y) (f : cfun X) (gc : cfun Y) (proxF : R -> X -> X) (proxGc : R -> Y -> Y),
  convex X f -> convex Y gc -> prox_of X f proxF -> prox_of Y gc proxGc ->
  forall (primal : bool) (rts : list R) (tau sigma : R) (xs : X) (ys : Y),
  0 < tau -> 0 < sigma -> Forall (fun r => 0 < r) rts ->
  subgrad X f xs ((- (1)) *' adj A ys) -> subgrad Y gc ys (A xs) ->
  Forall (fun s => s = {| pd_x := xs; pd_xr := xs; pd_y := ys |})
         (pdhg_acc_run X Y vplus smul vplus smul A (adj A) proxF proxGc primal rts tau sigma
                       {| pd_x := xs; pd_xr := xs; pd_y := ys |}).
Proof. intros; apply (pdhg_accelerated_fixed_point X Y A f gc proxF proxGc); auto; split; auto. Qed.
Print Assumptions pdhg_accelerated_solution_is_fixed_point.

(* ... and a state that a PDHG step leaves unchanged satisfies the optimality conditions *)
Theorem pdhg_fixed_point_is_solution :
  forall (X Y : IPS) (A : LinOp X Y) (f : cfun X) (gc : cfun Y) (proxF : R -> X -> X) (proxGc : R -> Y -> Y),
  convex X f -> convex Y gc -> prox_of X f proxF -> prox_of Y gc proxGc ->
  forall (tau sigma theta : R) (s : @pdst X Y),
  0 < tau -> 0 < sigma ->
  pdhg_step X Y vplus smul vplus smul A (adj A) proxF proxGc tau sigma theta s = s ->
  (subgrad X f (pd_x X Y s) ((- (1)) *' adj A (pd_y X Y s)) /\ subgrad Y gc (pd_y X Y s) (A (pd_x X Y s)))
  /\ pd_xr X Y s = pd_x X Y s.
Proof. exact pdhg_fixed_is_optimal. Qed.
Print Assumptions pdhg_fixed_point_is_solution.

(* linearized ADMM: (x, z, u) = (xs, A xs, sigma ys) is a fixed point *)
Theorem admm_solution_is_fixed_point :
  forall (X Y : IPS) (A : LinOp X Y) (f : cfun X) (g : cfun Y) (proxF : R -> X -> X) (proxG : R -> Y -> Y),
  convex X f -> convex Y g -> prox_of X f proxF -> prox_of Y g proxG ->
  forall (tau sigma : R) (xs : X) (ys : Y),
  0 < tau -> 0 < sigma ->
  subgrad X f xs ((- (1)) *' adj A ys) -> subgrad Y g (A xs) ys ->
  admm_step X Y vplus smul vplus smul A (adj A) proxF proxG tau sigma
            {| ad_x := xs; ad_z := A xs; ad_u := sigma *' ys |}
  = {| ad_x := xs; ad_z := A xs; ad_u := sigma *' ys |}.
Proof. intros; apply (admm_fixed_point X Y A f g proxF proxG); auto; split; auto. Qed.
Print Assumptions admm_solution_is_fixed_point.

(* proximal gradient: stationary points are exactly the fixed points (any lam <> 0) *)
Theorem proximal_gradient_solution_is_fixed_point :
  forall (X : IPS) (f : cfun X) (proxF : R -> X -> X) (gradG : X -> X),
  convex X f -> prox_of X f proxF ->
  forall (gamma : R) (lams : list R) (xs : X),
  0 < gamma -> subgrad X f xs ((- (1)) *' gradG xs) ->
  Forall (fun x => x = xs) (pg_run X vplus smul proxF gradG gamma lams xs).
Proof. exact proximal_gradient_fixed_all. Qed.
Theorem proximal_gradient_fixed_point_is_solution :
  forall (X : IPS) (f : cfun X) (proxF : R -> X -> X) (gradG : X -> X),
  convex X f -> prox_of X f proxF ->
  forall (gamma lam : R) (x : X),
  0 < gamma -> lam <> 0 -> pg_step X vplus smul proxF gradG gamma lam x = x ->
  subgrad X f x ((- (1)) *' gradG x).
Proof. exact proximal_gradient_fixed_is_optimal. Qed.
Print Assumptions proximal_gradient_fixed_point_is_solution.

(* accelerated form: (x, y) = (xs, xs) stays put for every momentum sequence *)
Theorem accelerated_proximal_gradient_solution_is_fixed_point :
  forall (X : IPS) (f : cfun X) (proxF : R -> X -> X) (gradG : X -> X),
  convex X f -> prox_of X f proxF ->
  forall (gamma : R) (rts : list R) (t : R) (xs : X),
  0 < gamma -> subgrad X f xs ((- (1)) *' gradG xs) ->
  Forall (fun s => ap_x X s = xs /\ ap_y X s = xs)
         (apg_run X vplus smul proxF gradG gamma rts {| ap_x := xs; ap_y := xs; ap_t := t |}).
Proof. exact accelerated_proximal_gradient_fixed_all. Qed.
Print Assumptions accelerated_proximal_gradient_solution_is_fixed_point.

(* T2: proximal gradient (lam = 1) decreases f + g when gamma <= 2/L, L the constant of the
   quadratic upper bound of the smooth term (no convexity of g needed) *)
Theorem proximal_gradient_objective_decreases :
  forall (X : IPS) (f : cfun X) (proxF : R -> X -> X) (gradG : X -> X),
  convex X f -> prox_of X f proxF ->
  forall (gval : X -> R) (Lg : R),
  (forall x y, gval y <= gval x + <<gradG x, y -' x>> + Lg / 2 * nsq (y -' x)) ->
  forall (gamma : R) (x : X), 0 < gamma -> gamma * Lg <= 2 -> fdom f x ->
  let x' := pg_step X vplus smul proxF gradG gamma 1 x in
  fdom f x' /\ fval f x' + gval x' <= fval f x + gval x - (/ gamma - Lg / 2) * nsq (x' -' x)
  /\ fval f x' + gval x' <= fval f x + gval x.
Proof. exact proximal_gradient_descent. Qed.
Print Assumptions proximal_gradient_objective_decreases.

(* forward-backward PD over any number of operators: a KKT point is a fixed point of BOTH
   the step as coded (alias = true) and the documented step (alias = false) *)
Theorem forward_backward_solution_is_fixed_point :
  forall (X Y : IPS) (f : cfun X) (proxF : R -> X -> X),
  convex X f -> prox_of X f proxF ->
  forall (gradH : X -> X) (alias : bool) (bs : list (pblk X Y)) (tau : R) (xs : X) (vs : list Y),
  0 < tau ->
  Forall (fun b => convex Y (pgc X Y b) /\ prox_of Y (pgc X Y b) (pprox X Y b) /\ 0 < psig X Y b) bs ->
  subgrad X f xs ((- (1)) *' sum_adj X Y vplus (map (mk X Y) bs) vs (gradH xs)) ->
  Forall2 (fun b v => subgrad Y (pgc X Y b) v (pA X Y b xs)) bs vs ->
  fb_step X Y vplus smul vplus smul alias proxF gradH (map (mk X Y) bs) tau (xs, vs) = (xs, vs).
Proof. intros; apply (forward_backward_fixed_point X Y f proxF); auto; split; auto. Qed.
Print Assumptions forward_backward_solution_is_fixed_point.

(* Douglas-Rachford PD: its state (x, v) is not the solution itself.  For a KKT point
   (xs, vss) the state (xh, vh) with  vh_i = vs_i + sigma_i/2 L_i xh  and
   xh - tau/2 sum L_i^* vh_i = xs - tau sum L_i^* vs_i  is a fixed point of the step and the
   iterate handed to the callback (p1) is xs -- any number of operators, any lam *)
Theorem douglas_rachford_solution_is_fixed_point :
  forall (X Y : IPS) (f : cfun X) (proxF : R -> X -> X),
  convex X f -> prox_of X f proxF ->
  forall (bs : list (pblk X Y)) (tau lam : R) (xs : X) (vss : list Y) (xh : X),
  0 < tau ->
  Forall (fun b => convex Y (pgc X Y b) /\ prox_of Y (pgc X Y b) (pprox X Y b) /\ 0 < psig X Y b) bs ->
  subgrad X f xs ((- (1)) *' adjsum X Y bs vss) ->
  Forall2 (fun b v => subgrad Y (pgc X Y b) v (pA X Y b xs)) bs vss ->
  xh +' (- (tau / 2)) *' adjsum X Y bs (vhat X Y bs xh vss) = xs +' tau *' ((- (1)) *' adjsum X Y bs vss) ->
  dr_p1 X Y vplus smul proxF (map (mk X Y) bs) tau (xh, vhat X Y bs xh vss) = xs /\
  dr_step X Y vplus smul vplus smul proxF (map (mk X Y) bs) tau lam (xh, vhat X Y bs xh vss)
  = (xh, vhat X Y bs xh vss).
Proof. exact douglas_rachford_fixed_point. Qed.
Print Assumptions douglas_rachford_solution_is_fixed_point.

(* FULL CLAUSE "the non-smooth solvers drive the iterate towards a point that satisfies the
   first-order optimality conditions" -- convergence is not proved for any solver (validated by
   KKT-residual probes only), and it is REFUTED for forward_backward_pd as coded
   (finding forward_backward_pd-x_old-alias): on the one-dimensional problem f = h = 0,
   g = indicator{0}, L = id, tau = sigma = 1/2 (admissible) the positive definite quantity
   x^2/2 - x v/4 + v^2/2 is conserved, so the iterates started at (1, 0) keep distance
   >= sqrt(4/5) from the unique solution (0, 0) for every iteration count, although
   that solution is a fixed point; the documented step (y = 2 x_new - x_old) contracts
   x^2/2 - x v/2 + v^2/2 by 3/4 per step on the same problem. *)
Theorem forward_backward_as_coded_convergence_refuted :
  wFB true (0, [0]) = (0, [0]) /\
  forall n : nat, let s := iter (wFB true) n ((1 : R1), [(0 : R1)]) in
                  4 / 5 <= st_x s * st_x s + st_v s * st_v s.
Proof. split; [exact (fb_witness_solution true) | exact fb_alias_never_converges_lemma]. Qed.
Print Assumptions forward_backward_as_coded_convergence_refuted.
Theorem forward_backward_documented_contracts_partial :
  forall (n : nat) (x v : R1), Edoc (iter (wFB false) n (x, [v])) = (3 / 4) ^ n * Edoc (x, [v]).
Proof. exact fb_documented_contracts_lemma. Qed.
Print Assumptions forward_backward_documented_contracts_partial.

(* ------------------------------------ the same, about the LIST model itself *)
(* C12/Inst.v instantiates the abstract spaces with R^n = lists of length n under a weighted dot
   product and matrices as operators, and transports theorems to the very terms the shards run:
   all dimensions m, n, all matrices, all positive weights. *)
Theorem landweber_on_lists :
  forall (n m : nat) (wV wW : list R),
  length wV = n -> Forall (fun c => 0 < c) wV -> length wW = m -> Forall (fun c => 0 < c) wW ->
  forall (M Mt : list (list R)), wf_mat m n M -> wf_mat n m Mt ->
  (forall x y : list R, length x = n -> length y = m -> wdot wW (mvec M x) y = wdot wV x (mvec Mt y)) ->
  forall (Mb omega : R) (b : list R),
  (forall v : list R, length v = n -> wdot wW (mvec M v) (mvec M v) <= Mb * wdot wV v v) ->
  0 <= omega -> omega * Mb <= 2 -> length b = m ->
  forall (k : nat) (x : list R), length x = n ->
  nonincr (fun x => let r := vadd (mvec M x) (vscal (- (1)) b) in wdot wW r r) x
          (trace (lw_step (list R) (list R) vadd vscal vadd vscal (mvec M) (mvec Mt) omega b) k x).
Proof.
  intros n m wV wW H1 H2 H3 H4 M Mt HM HMt Hadj Mb omega b HB Ho HMb Hb k x Hx.
  exact (landweber_lists n m wV wW H1 H2 H3 H4 M Mt HM HMt Hadj Mb omega b HB Ho HMb Hb k x Hx).
Qed.
Print Assumptions landweber_on_lists.

(* with unit weights the plain transpose (Base.Vec.transpose) IS the adjoint: nothing about
   adjoints is assumed any more *)
Theorem landweber_on_lists_with_transpose :
  forall (m n : nat) (M : list (list R)) (Mb omega : R) (b : list R),
  wf_mat m n M ->
  (forall v : list R, length v = n ->
     wdot (repeat 1 m) (mvec M v) (mvec M v) <= Mb * wdot (repeat 1 n) v v) ->
  0 <= omega -> omega * Mb <= 2 -> length b = m ->
  forall (k : nat) (x : list R), length x = n ->
  nonincr (fun x => let r := vadd (mvec M x) (vscal (- (1)) b) in wdot (repeat 1 m) r r) x
          (trace (lw_step (list R) (list R) vadd vscal vadd vscal (mvec M) (mvec (transpose n M)) omega b) k x).
Proof. exact landweber_lists_transpose. Qed.
Print Assumptions landweber_on_lists_with_transpose.

Theorem transpose_is_the_adjoint :
  forall (m n : nat) (M : list (list R)), wf_mat m n M ->
  forall x y : list R, length x = n -> length y = m ->
  wdot (repeat 1 m) (mvec M x) y = wdot (repeat 1 n) x (mvec (transpose n M) y).
Proof. exact transpose_is_adjoint. Qed.

(* conjugate gradients on lists: M self-adjoint positive semi-definite for the weighted inner
   product, M xs = b: the energy error never increases along the executed list model *)
Theorem cg_on_lists :
  forall (n : nat) (w : list R), length w = n -> Forall (fun c => 0 < c) w ->
  forall (M : list (list R)), wf_mat n n M ->
  (forall x y : list R, length x = n -> length y = n -> wdot w (mvec M x) y = wdot w x (mvec M y)) ->
  (forall v : list R, length v = n -> 0 <= wdot w v (mvec M v)) ->
  forall (b xs x : list R) (k : nat),
  length b = n -> length xs = n -> length x = n -> mvec M xs = b ->
  nonincr (fun s => let e := vadd (cg_x (list R) s) (vscal (- (1)) xs) in wdot w e (mvec M e))
          (cg_init (list R) vadd vscal (wdot w) (mvec M) b x)
          (cg_run (list R) vadd vscal (wdot w) (mvec M) b x k).
Proof.
  intros n w H1 H2 M HM Hsa Hpsd b xs x k Hb Hxs Hx Hsol.
  exact (cg_lists n w H1 H2 M HM Hsa Hpsd b xs x k Hb Hxs Hx Hsol).
Qed.
Print Assumptions cg_on_lists.

(* n+1 lists of length n are linearly dependent; weighted R^n satisfies the dimension premise *)
Theorem linear_dependence_of_n_plus_1_vectors :
  forall (n : nat) (vs : list (list R)), length vs = S n -> Forall (fun v => length v = n) vs ->
  exists cs : list R, length cs = length vs /\ Exists (fun c => c <> 0) cs /\ lc n cs vs = repeat 0 n.
Proof. exact lin_dep. Qed.
Theorem Rn_has_dimension_n :
  forall (n : nat) (w : list R) (Hwl : length w = n) (Hwp : Forall (fun c => 0 < c) w), dim_le (Rn n w Hwl Hwp) n.
Proof. exact Rn_dim. Qed.
Print Assumptions Rn_has_dimension_n.

(* conjugate gradients on the list model is EXACT after n steps: every n, every positive weights,
   every matrix that is symmetric positive definite for the weighted dot product, every right-hand
   side with solution xs, every start, every budget k >= n (including runs that leave the loop early) *)
Theorem cg_on_lists_exact_after_n_steps :
  forall (n : nat) (w : list R), length w = n -> Forall (fun c => 0 < c) w ->
  forall (M : list (list R)), wf_mat n n M ->
  (forall x y : list R, length x = n -> length y = n -> wdot w (mvec M x) y = wdot w x (mvec M y)) ->
  (forall v : list R, length v = n -> wdot w v (mvec M v) = 0 -> v = repeat 0 n) ->
  forall (b xs x : list R) (k : nat),
  length b = n -> length xs = n -> length x = n -> mvec M xs = b -> (n <= k)%nat ->
  cg_x (list R) (last (cg_run (list R) vadd vscal (wdot w) (mvec M) b x k)
                      (cg_init (list R) vadd vscal (wdot w) (mvec M) b x)) = xs.
Proof.
  intros n w H1 H2 M HM Hsa Hpd b xs x k Hb Hxs Hx Hsol Hk.
  exact (cg_lists_exact n w H1 H2 M HM Hsa Hpd b xs x k Hb Hxs Hx Hsol Hk).
Qed.
Print Assumptions cg_on_lists_exact_after_n_steps.

(* ===================================================== tie to the source: regenerated code *)
(* (1) translate/solvers_c12.py re-emits the loop bodies of conjugate_gradient,
   conjugate_gradient_normal, power_method_opnorm and forward_backward_pd from /repo on every run
   (Gen/SolversC12.v, symbolic execution with object identity); the models used above ARE those
   functions, over every inner-product space.  An edit of one of these loop bodies breaks a proof here. *)
Theorem regenerated_cg_is_the_model :
  forall (X : IPS) (A : X -> X) (b x : X) (n : nat),
  match gen_cg_start X vplus smul inner A b x with
  | None => [] | Some s => otrace (gen_cg_step X vplus smul inner A) n s end
  = cg_run X vplus smul inner A b x n.
Proof. exact gen_cg_run_is_model. Qed.
Theorem regenerated_cgn_is_the_model :
  forall (X Y : IPS) (A : X -> Y) (At : Y -> X) (eps2 epsm : R) (b : Y) (x : X) (n : nat),
  otrace (gen_cgn_step X Y vplus smul inner vplus smul inner A At epsm) n
         (gen_cgn_start X Y inner vplus smul inner A At eps2 b x)
  = cgn_run X Y vplus smul inner vplus smul inner A At eps2 epsm b x n.
Proof. exact gen_cgn_run_is_model. Qed.
Theorem regenerated_power_method_is_the_model :
  forall (X Y : IPS) (A : X -> Y) (At : Y -> X) (S : X -> X) (x : X),
  gen_pm_normal_step X Y smul inner sqrt A At x = pmn_step X smul inner sqrt (fun z => At (A z)) x /\
  gen_pm_selfadjoint_step X smul inner sqrt S x = pmn_step X smul inner sqrt S x.
Proof. intros; split; [apply gen_pm_normal_step_is_model | apply gen_pm_selfadjoint_step_is_model]. Qed.
Theorem regenerated_forward_backward_is_the_model :
  forall (X Y : IPS) (proxF : R -> X -> X) (gradH : X -> X),
  exists alias : bool, forall (bs : list (pblk X Y)) (tau : R) (s : X * list Y),
  gen_fb_step X Y vplus smul vplus smul proxF gradH (map (mk X Y) bs) tau s
  = fb_step X Y vplus smul vplus smul alias proxF gradH (map (mk X Y) bs) tau s.
Proof. exact gen_fb_step_is_model. Qed.
Print Assumptions regenerated_forward_backward_is_the_model.

Theorem regenerated_douglas_rachford_is_the_model :
  forall (X Y : IPS) (proxF : R -> X -> X) (bs : list (pblk X Y)) (tau lam : R) (s : X * list Y),
  gen_dr_step X Y vplus smul vplus smul proxF (map (mk X Y) bs) tau lam s
  = dr_step X Y vplus smul vplus smul proxF (map (mk X Y) bs) tau lam s /\
  gen_dr_p1 X Y vplus smul proxF (map (mk X Y) bs) tau s = dr_p1 X Y vplus smul proxF (map (mk X Y) bs) tau s.
Proof. intros; split; [apply gen_dr_step_is_model | apply gen_dr_p1_is_model]. Qed.
Print Assumptions regenerated_douglas_rachford_is_the_model.
(* BacktrackingLineSearch: the loop skeleton is pinned by the translator, its formulas are regenerated *)
Theorem regenerated_backtracking_is_the_model :
  forall (X : IPS) (f : X -> R) (tau disc : R) (mni : nat) (est : bool) (alpha_st : R) (x d : X) (dd fx : R) (k : nat) (alpha : R),
  bt_search X vplus smul f tau disc mni est alpha_st x d dd
  = (if gen_bt_zero_derivative dd then LsZeroDeriv
     else bt_loop X vplus smul f x d (f x) dd tau disc (S mni) (gen_bt_alpha0 est alpha_st dd)) /\
  bt_loop X vplus smul f x d fx dd tau disc (S k) alpha
  = (let fval := f (gen_bt_point X vplus smul x d alpha) in
     if gen_bt_accept disc fx dd alpha fval
     then (if gen_bt_assert fx fval then LsOk alpha else LsAssert)
     else bt_loop X vplus smul f x d fx dd tau disc k (gen_bt_next tau alpha)).
Proof. intros; split; [apply gen_bt_search_is_model | apply gen_bt_loop_is_model]. Qed.

(* composed: the C12 clauses stated directly about the regenerated functions *)
Theorem regenerated_cg_energy_error_nonincreasing :
  forall (X : IPS) (A : LinOp X X),
  (forall x y : X, <<A x, y>> = <<x, A y>>) -> (forall x : X, 0 <= <<x, A x>>) ->
  forall (b xs x : X) (n : nat), A xs = b ->
  nonincr (fun s => <<cg_x X s -' xs, A (cg_x X s -' xs)>>)
          (cg_init X vplus smul inner A b x)
          (match gen_cg_start X vplus smul inner A b x with
           | None => [] | Some s => otrace (gen_cg_step X vplus smul inner A) n s end).
Proof. intros X A Hs Hp b xs x n Hxs. rewrite gen_cg_run_is_model. apply cg_energy_all; auto. Qed.
Print Assumptions regenerated_cg_energy_error_nonincreasing.
Theorem regenerated_cgn_residual_nonincreasing :
  forall (X Y : IPS) (A : LinOp X Y) (eps2 epsm : R), 0 <= epsm -> forall (b : Y) (x : X) (n : nat),
  nonincr (fun s => nsq (b -' A (n_x X Y s)))
          (gen_cgn_start X Y inner vplus smul inner A (adj A) eps2 b x)
          (otrace (gen_cgn_step X Y vplus smul inner vplus smul inner A (adj A) epsm) n
                  (gen_cgn_start X Y inner vplus smul inner A (adj A) eps2 b x)).
Proof. intros. rewrite gen_cgn_run_is_model, gen_cgn_start_is_model. apply cgn_residual_all; auto. Qed.
Theorem regenerated_forward_backward_solution_is_fixed_point :
  forall (X Y : IPS) (f : cfun X) (proxF : R -> X -> X),
  convex X f -> prox_of X f proxF ->
  forall (gradH : X -> X) (bs : list (pblk X Y)) (tau : R) (xs : X) (vs : list Y),
  0 < tau ->
  Forall (fun b => convex Y (pgc X Y b) /\ prox_of Y (pgc X Y b) (pprox X Y b) /\ 0 < psig X Y b) bs ->
  subgrad X f xs ((- (1)) *' sum_adj X Y vplus (map (mk X Y) bs) vs (gradH xs)) ->
  Forall2 (fun b v => subgrad Y (pgc X Y b) v (pA X Y b xs)) bs vs ->
  gen_fb_step X Y vplus smul vplus smul proxF gradH (map (mk X Y) bs) tau (xs, vs) = (xs, vs).
Proof.
  intros X Y f proxF Hf HP gradH bs tau xs vs Ht Hok Kf Kd.
  destruct (gen_fb_step_is_model X Y proxF gradH) as [alias E]. rewrite E.
  apply (forward_backward_fixed_point X Y f proxF); auto; split; auto.
Qed.
Print Assumptions regenerated_forward_backward_solution_is_fixed_point.

Theorem regenerated_douglas_rachford_solution_is_fixed_point :
  forall (X Y : IPS) (f : cfun X) (proxF : R -> X -> X),
  convex X f -> prox_of X f proxF ->
  forall (bs : list (pblk X Y)) (tau lam : R) (xs : X) (vss : list Y) (xh : X),
  0 < tau ->
  Forall (fun b => convex Y (pgc X Y b) /\ prox_of Y (pgc X Y b) (pprox X Y b) /\ 0 < psig X Y b) bs ->
  subgrad X f xs ((- (1)) *' adjsum X Y bs vss) ->
  Forall2 (fun b v => subgrad Y (pgc X Y b) v (pA X Y b xs)) bs vss ->
  xh +' (- (tau / 2)) *' adjsum X Y bs (vhat X Y bs xh vss) = xs +' tau *' ((- (1)) *' adjsum X Y bs vss) ->
  gen_dr_p1 X Y vplus smul proxF (map (mk X Y) bs) tau (xh, vhat X Y bs xh vss) = xs /\
  gen_dr_step X Y vplus smul vplus smul proxF (map (mk X Y) bs) tau lam (xh, vhat X Y bs xh vss)
  = (xh, vhat X Y bs xh vss).
Proof.
  intros X Y f proxF Hf HP bs tau lam xs vss xh Ht Hok Kf Kd C1.
  rewrite gen_dr_p1_is_model, gen_dr_step_is_model.
  exact (douglas_rachford_fixed_point X Y f proxF Hf HP bs tau lam xs vss xh Ht Hok Kf Kd C1).
Qed.
Print Assumptions regenerated_douglas_rachford_solution_is_fixed_point.
(* power method: every x_norm of the regenerated step is bounded, |x| = 1 is preserved *)
Theorem regenerated_power_method_step_bounded :
  forall (X Y : IPS) (A : LinOp X Y) (K : R) (x : X) (nrm : R) (x' : X),
  0 <= K -> bounded X Y A (K * K) -> nsq x = 1 ->
  gen_pm_normal_step X Y smul inner sqrt A (adj A) x = Some (nrm, x') ->
  0 <= nrm <= K * K /\ nsq x' = 1.
Proof. exact gen_pm_normal_step_bounded. Qed.

(* (2) for the solvers C11 translates (translate/solvers.py -> Gen/Solvers.v, heap-level programs run by
   C11/Interp.v, proved equal to C11's loop models in C11/GenProofs.v): the list instance of each C12
   step IS C11's model step -- arbitrary operator / proximal / gradient functions, no side conditions *)
Theorem landweber_model_is_regenerated_model :
  forall (A At : list R -> list R) (omega : R) (b x : list R),
  lw_step (list R) (list R) vadd vscal vadd vscal A At omega b x
  = C11.Model.landweber_step A (fun _ => At) (fun v => v) b omega x.
Proof. exact landweber_step_is_c11. Qed.
Theorem kaczmarz_model_is_regenerated_model :
  forall (blocks : list ((list R -> list R) * (list R -> list R) * list R * R)) (x : list R),
  kz_sweep (list R) (map (fun q => let '(A, At, b, om) := q in lw_step (list R) (list R) vadd vscal vadd vscal A At om b) blocks) x
  = C11.Model.kz_step (fun v => v) (map (fun q => let '(A, At, b, om) := q in kz_lin A At b om) blocks) x.
Proof. exact kaczmarz_sweep_is_c11. Qed.
Theorem pdhg_model_is_regenerated_model :
  forall (L Ladj : list R -> list R) (proxF proxGc : R -> list R -> list R) (tau sigma theta : R) (s : @pdst (list R) (list R)),
  pd_to11 (pdhg_step (list R) (list R) vadd vscal vadd vscal L Ladj proxF proxGc tau sigma theta s)
  = C11.Model.pdhg_step L Ladj (proxF tau) (proxGc sigma) tau sigma theta (pd_to11 s).
Proof. exact pdhg_step_is_c11. Qed.
Theorem admm_model_is_regenerated_model :
  forall (L Ladj : list R -> list R) (proxF proxG : R -> list R -> list R) (tau sigma : R) (s : @admst (list R) (list R)),
  ad_to11 (admm_step (list R) (list R) vadd vscal vadd vscal L Ladj proxF proxG tau sigma s)
  = C11.Model.admm_ref_step L Ladj (proxF tau) (proxG sigma) tau sigma (ad_to11 s).
Proof. exact admm_step_is_c11. Qed.
Theorem proximal_gradient_model_is_regenerated_model :
  forall (proxF : R -> list R -> list R) (gradG : list R -> list R) (gamma : R) (lam : nat -> R) (k : nat) (x : list R),
  pg_step (list R) vadd vscal proxF gradG gamma (lam k) x = C11.Model.pg_step (proxF gamma) gradG gamma lam k x.
Proof. exact proximal_gradient_step_is_c11. Qed.
Theorem accelerated_proximal_gradient_model_is_regenerated_model :
  forall (proxF : R -> list R -> list R) (gradG : list R -> list R) (gamma rt : R) (s : @apst R (list R)) (k : nat),
  let s' := apg_step (list R) vadd vscal proxF gradG gamma rt s in
  (ap_x _ s', ap_y _ s')
  = C11.Model.apg_step (proxF gamma) gradG gamma (fun _ => (ap_t _ s - 1) / ((1 + rt) / 2)) k (ap_x _ s, ap_y _ s).
Proof. exact accelerated_proximal_gradient_step_is_c11. Qed.

(* composed, all the way down: landweber as REGENERATED from the source and run by the heap
   interpreter (op := a matrix, adjoint := its transpose): the callback log has a non-increasing residual *)
Theorem regenerated_landweber_program_residual_nonincreasing :
  forall (m n : nat) (M : list (list R)) (Mb omega : R) (b x : list R) (k : nat) (junk : String.string -> list R),
  wf_mat m n M ->
  (forall v : list R, length v = n -> wdot (repeat 1 m) (mvec M v) (mvec M v) <= Mb * wdot (repeat 1 n) v v) ->
  0 <= omega -> omega * Mb <= 2 -> length b = m -> length x = n ->
  exists s,
    C11.Interp.run_prog (C11.GenProofs.lw_I (mvec M) (fun _ => mvec (transpose n M)) (fun v => v) omega junk)
                 Gen.Solvers.landweber_noproj_pre Gen.Solvers.landweber_noproj_body k
                 (C11.Interp.mk_hst C11.GenProofs.env_lw_in [x; b] []) = Some s
    /\ nonincr (res_list (repeat 1 m) M b) x (C11.Interp.h_log s).
Proof. exact regenerated_landweber_residual_nonincreasing. Qed.
Print Assumptions regenerated_landweber_program_residual_nonincreasing.

(* ------------------------------------------------------------ non-vacuity *)
(* every hypothesis above is satisfied by concrete objects: the space R, the operator
   x |-> c x (bounded by c^2, symmetric, positive for c >= 0), the convex functionals 0 and
   |.| with proximal maps identity and soft-thresholding, a sub-gradient inclusion, and the
   block of the refutation witness *)
Example hypotheses_satisfiable :
  (forall c, bounded R1 R1 (scal_op c) (c * c)) /\
  (forall c (x y : R1), <<scal_op c x, y>> = <<x, scal_op c y>>) /\
  (forall c (x : R1), 0 <= c -> 0 <= <<x, scal_op c x>>) /\
  convex R1 f_zero /\ prox_of R1 f_zero (fun _ z => z) /\
  convex R1 f_abs /\ prox_of R1 f_abs softR /\ subgrad R1 f_abs 0 0 /\
  pblk_ok R1 R1 wblk /\ dim_le R1 1 /\ (forall c (x : R1), 0 < c -> <<x, scal_op c x>> = 0 -> x = vnull).
Proof.
  split; [exact scal_op_bounded|]. split; [exact scal_op_sym|]. split; [exact scal_op_pos|].
  split; [exact f_zero_convex|]. split; [exact f_zero_prox|]. split; [exact f_abs_convex|].
  split; [exact f_abs_prox|]. split; [exact f_abs_subgrad0|]. split; [exact wblk_ok|].
  split; [exact R1_dim | exact scal_op_definite].
Qed.
