(* C12/Props.v -- property theorems only *)
From Coq Require Import Reals List Bool.
From Verif Require Import Base.Num Base.Vec C12.Model C12.Proofs.
