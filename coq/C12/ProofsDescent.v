(* C12/ProofsDescent.v -- BacktrackingLineSearch and steepest_descent:
   whenever the search returns, the objective has strictly decreased by at least
   the Armijo amount, hence steepest descent never increases the objective --
   for EVERY objective (no smoothness or convexity is used), every direction,
   every parameter setting and every iteration budget. *)
From Coq Require Import Reals Lra Lia Psatz List Bool.
From Verif Require Import Base.Num C12.Model C12.Space C12.ProofsLin.
Import ListNotations.
Local Open Scope R_scope.

Section Descent.
Variable X : IPS.
Variable f : X -> R.

Definition BTloop := bt_loop X vplus smul f.
Definition BTsearch := bt_search X vplus smul f.

Lemma bt_loop_decrease x d fx dd tau disc fuel a0 alpha :
  BTloop x d fx dd tau disc fuel a0 = LsOk alpha ->
  f (x +' alpha *' d) <= fx - Rabs (alpha * dd * disc) /\ f (x +' alpha *' d) < fx.
Proof.
  unfold BTloop. revert a0. induction fuel as [|k IH]; intros a0; cbn [bt_loop]; [discriminate|].
  numR.
  destruct (Rleb_spec (f (x +' a0 *' d)) (fx - Rabs (a0 * dd * disc))) as [Hle|Hgt].
  - destruct (Rltb_spec (f (x +' a0 *' d)) fx) as [Hlt|]; [|discriminate].
    intros E; injection E as <-. split; auto.
  - apply IH.
Qed.

Theorem backtracking_decrease tau disc mni est alpha_st x d dd alpha :
  BTsearch tau disc mni est alpha_st x d dd = LsOk alpha ->
  f (x +' alpha *' d) <= f x - Rabs (alpha * dd * disc) /\ f (x +' alpha *' d) < f x.
Proof.
  unfold BTsearch, bt_search. numR. destruct (Reqb dd 0); [discriminate|].
  apply bt_loop_decrease.
Qed.

(* the step actually taken by steepest_descent is the point the search evaluated *)
Lemma sd_point (x g : X) step : x +' (- step) *' g = x +' step *' ((- (1)) *' g).
Proof. vec_eq. Qed.

Variable grad : X -> X.
Definition SDloop := sd_loop X vplus smul inner f grad.

Theorem steepest_descent_monotone tau disc mni est tol fuel :
  forall alpha_st x tr e,
  SDloop tau disc mni est tol fuel alpha_st x = (tr, e) -> nonincr f x tr.
Proof.
  unfold SDloop. induction fuel as [|k IH]; intros alpha_st x tr e; cbn [sd_loop].
  - intros E; injection E as <- <-. exact I.
  - numR. destruct (Rltb _ tol).
    + intros E; injection E as <- <-. exact I.
    + destruct (bt_search X vplus smul f tau disc mni est alpha_st x (- (1) *' grad x) (- <<grad x, grad x>>))
        as [step| | |] eqn:Els; try (intros E; injection E as <- <-; exact I).
      destruct (sd_loop X vplus smul inner f grad tau disc mni est tol k (Rabs step) (x +' - step *' grad x))
        as [tr' e'] eqn:Er.
      intros E; injection E as <- <-. cbn [nonincr]. split.
      * apply backtracking_decrease in Els. rewrite sd_point. lra.
      * eapply IH; eauto.
Qed.

(* strict version: every accepted step strictly decreases the objective *)
Fixpoint strict_decr {S : Type} (phi : S -> R) (s : S) (l : list S) : Prop :=
  match l with [] => True | s' :: l' => phi s' < phi s /\ strict_decr phi s' l' end.
Theorem steepest_descent_strict tau disc mni est tol fuel :
  forall alpha_st x tr e,
  SDloop tau disc mni est tol fuel alpha_st x = (tr, e) -> strict_decr f x tr.
Proof.
  unfold SDloop. induction fuel as [|k IH]; intros alpha_st x tr e; cbn [sd_loop].
  - intros E; injection E as <- <-. exact I.
  - numR. destruct (Rltb _ tol).
    + intros E; injection E as <- <-. exact I.
    + destruct (bt_search X vplus smul f tau disc mni est alpha_st x (- (1) *' grad x) (- <<grad x, grad x>>))
        as [step| | |] eqn:Els; try (intros E; injection E as <- <-; exact I).
      destruct (sd_loop X vplus smul inner f grad tau disc mni est tol k (Rabs step) (x +' - step *' grad x))
        as [tr' e'] eqn:Er.
      intros E; injection E as <- <-. cbn [strict_decr]. split.
      * apply backtracking_decrease in Els. rewrite sd_point. lra.
      * eapply IH; eauto.
Qed.
End Descent.
