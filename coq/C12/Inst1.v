(* C12/Inst1.v -- the one-dimensional instance R of the abstract structures of
   C12/Space.v: shows that every hypothesis used by the C12 theorems is
   satisfiable by concrete objects (inner-product space, operator with
   adjoint and norm bound, convex functionals with their proximal maps), and
   is the carrier of the refutation in C12/Refuted.v. *)
From Coq Require Import Reals Lra Lia Psatz List Bool.
From Verif Require Import Base.Num C12.Model C12.Space C12.ProofsCG.
Import ListNotations.
Local Open Scope R_scope.

Definition R1 : IPS.
Proof.
  refine {| car := R; vnull := 0; vplus := Rplus; smul := Rmult; inner := Rmult |};
    intros; try ring; try nra.
Defined.

(* x |-> c x, self-adjoint, |c x|^2 <= c^2 |x|^2 *)
Definition scal_op (c : R) : LinOp R1 R1.
Proof.
  refine {| ap := (fun x : R1 => c * x) : R1 -> R1; adj := (fun y : R1 => c * y) : R1 -> R1 |};
    intros; cbn; ring.
Defined.
Lemma scal_op_bounded c : bounded R1 R1 (scal_op c) (c * c).
Proof. intro v; unfold nsq; cbn. nra. Qed.
Lemma scal_op_sym c (x y : R1) : <<scal_op c x, y>> = <<x, scal_op c y>>.
Proof. cbn; ring. Qed.
Lemma scal_op_pos c (x : R1) : 0 <= c -> 0 <= <<x, scal_op c x>>.
Proof. intros; cbn. nra. Qed.

(* the zero functional and its proximal map (identity) *)
Definition f_zero : cfun R1 := {| fdom := fun _ => True; fval := fun _ => 0 |}.
Lemma f_zero_convex : convex R1 f_zero.
Proof. intros x y t _ _ _; cbn; split; auto; lra. Qed.
Lemma f_zero_prox : prox_of R1 f_zero (fun _ z => z).
Proof.
  intros tau z Ht; split; cbn; auto. intros w _. unfold nsq; cbn.
  assert (0 < / (2 * tau)) by (apply Rinv_0_lt_compat; lra).
  replace (z + - (1) * z) with 0 by ring. rewrite Rmult_0_l, Rmult_0_r.
  apply Rplus_le_compat_l. apply Rmult_le_pos; [lra | generalize (w + - (1) * z); intro q; nra].
Qed.

(* the absolute value and soft thresholding *)
Definition f_abs : cfun R1 := {| fdom := fun _ => True; fval := (fun x : R1 => Rabs x) |}.
Lemma f_abs_convex : convex R1 f_abs.
Proof.
  intros x y t _ _ Ht; cbn; split; auto.
  eapply Rle_trans; [apply Rabs_triang|]. rewrite !Rabs_mult, (Rabs_pos_eq t), (Rabs_pos_eq (1 - t)); lra.
Qed.
Definition softR (t a : R) : R := if Rlt_dec t a then a - t else if Rlt_dec a (- t) then a + t else 0.
Lemma f_abs_prox : prox_of R1 f_abs softR.
Proof.
  intros tau z Ht. apply subgrad_prox; auto. split; cbn; auto. intros w _.
  assert (Hi : 0 < / tau) by (apply Rinv_0_lt_compat; lra).
  unfold softR. destruct (Rlt_dec tau z) as [H1|H1]; [|destruct (Rlt_dec z (- tau)) as [H2|H2]].
  - replace (/ tau * (z + - (1) * (z - tau))) with 1 by (field; lra).
    rewrite (Rabs_pos_eq (z - tau)) by lra. pose proof (Rle_abs w). lra.
  - replace (/ tau * (z + - (1) * (z + tau))) with (-1) by (field; lra).
    rewrite (Rabs_left (z + tau)) by lra. pose proof (Rle_abs (- w)). rewrite Rabs_Ropp in H. lra.
  - rewrite Rabs_R0.
    assert (Hb : -1 <= / tau * z <= 1).
    { split; apply Rmult_le_reg_l with tau; auto; rewrite <- Rmult_assoc, Rinv_r by lra; lra. }
    replace (/ tau * (z + - (1) * 0) * (w + - (1) * 0)) with (/ tau * z * w) by ring.
    destruct (Rle_dec 0 w).
    + rewrite (Rabs_pos_eq w) by lra. nra.
    + rewrite (Rabs_left w) by lra. nra.
Qed.

(* a sub-gradient inclusion that holds: 0 in d|.|(0), i.e. 0 minimises |x| *)
Lemma f_abs_subgrad0 : subgrad R1 f_abs 0 0.
Proof. split; cbn; auto. intros z _. rewrite Rabs_R0. pose proof (Rabs_pos z). lra. Qed.

(* R has dimension <= 1: of two orthogonal reals one is zero; x |-> c x is positive definite for c > 0 *)
Lemma R1_dim : dim_le R1 1.
Proof.
  intros l Hl Ho. destruct l as [|a [|b [|c l]]]; cbn in Hl; try discriminate.
  inversion Ho as [|? ? Ha _]; subst. inversion Ha as [|? ? Hab _]; subst. cbn in Hab.
  apply Rmult_integral in Hab. destruct Hab as [H0|H0]; [exists a | exists b]; cbn; auto.
Qed.
Lemma scal_op_definite c (x : R1) : 0 < c -> <<x, scal_op c x>> = 0 -> x = vnull.
Proof.
  intros Hc; cbn. intros H.
  assert (H1 : c * (x * x) = 0) by (rewrite <- H; ring).
  apply Rmult_integral in H1. destruct H1 as [H1|H1]; [lra|].
  apply Rmult_integral in H1. destruct H1; auto.
Qed.
