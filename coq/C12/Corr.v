(* C12/Corr.v -- correspondence checkers (executed at Q by the shards): the
   list instance of the generic solver models of C12/Model.v is run on the
   case's inputs and compared with the iterates the implementation produced. *)
From Coq Require Import ZArith QArith Qabs List Bool.
From Verif Require Import Base.Num Base.Vec Base.Check C12.Model.
Import ListNotations.

Definition tol : Q := 1 # 100000000.          (* 1e-8: float rounding of non-dyadic quotients *)
Definition vclose := Qsclose tol tol.
Definition vsclose := all2 vclose.

Notation vec := (list Q).
Notation mat := (list (list Q)).

Definition addQ : vec -> vec -> vec := vadd.
Definition scalQ : Q -> vec -> vec := vscal.

(* np.finfo(float).eps ** 2 *)
Definition eps2Q : Q := 1 # (2 ^ 104).
(* np.finfo(float).eps *)
Definition epsmQ : Q := 1 # (2 ^ 52).

(* ---------------- linear solvers ---------------- *)
Inductive lsolver := SLandweber | SCG | SCGN.
Record case_lin := { cl_solver : lsolver; cl_M : mat; cl_Mt : mat; cl_wV : vec; cl_wW : vec;
                     cl_b : vec; cl_x0 : vec; cl_omega : Q; cl_niter : nat; cl_trace : list vec }.

(* exact arithmetic may stop (`return`) where floats continue with a residual of
   rounding size: the common prefix must agree, later float iterates must stay
   at the model's last iterate *)
Fixpoint prefix_then_stay (last : vec) (model impl : list vec) : bool :=
  match model, impl with
  | m :: model', i :: impl' => vclose i m && prefix_then_stay m model' impl'
  | [], i :: impl' => Qsclose (1 # 100000) (1 # 100000) i last && prefix_then_stay last [] impl'
  | _, [] => true
  end.

Definition check_lin (k : case_lin) : bool :=
  let A := lA (cl_M k) in let At := lA (cl_Mt k) in
  let ipV := lip (cl_wV k) in let ipW := lip (cl_wW k) in
  match cl_solver k with
  | SLandweber =>
      vsclose (cl_trace k)
              (trace (lw_step vec vec addQ scalQ addQ scalQ A At (cl_omega k) (cl_b k)) (cl_niter k) (cl_x0 k))
  | SCG =>
      let st := cg_run vec addQ scalQ ipV A (cl_b k) (cl_x0 k) (cl_niter k) in
      (length st <=? length (cl_trace k))%nat
      && prefix_then_stay (cl_x0 k) (map (cg_x vec) st) (cl_trace k)
  | SCGN =>
      let st := cgn_run vec vec addQ scalQ ipV addQ scalQ ipW A At eps2Q epsmQ (cl_b k) (cl_x0 k) (cl_niter k) in
      (length st <=? length (cl_trace k))%nat
      && prefix_then_stay (cl_x0 k) (map (n_x vec vec) st) (cl_trace k)
  end.

(* kaczmarz: blocks (M_i, Mt_i, b_i, omega_i) *)
Record kblock := { kb_M : mat; kb_Mt : mat; kb_b : vec; kb_omega : Q }.
(* kz_orders: None = sequential (random=False); Some os = the permutations drawn by
   np.random.permutation (seed fixed by the harness), one per outer iteration *)
Record case_kz := { kz_blocks : list kblock; kz_x0 : vec; kz_niter : nat; kz_inner : bool;
                    kz_orders : option (list (list nat)); kz_trace : list vec }.
Definition kstep (b : kblock) : vec -> vec :=
  lw_step vec vec addQ scalQ addQ scalQ (lA (kb_M b)) (lA (kb_Mt b)) (kb_omega b) (kb_b b).
(* callback_loop='inner': one callback after every block step *)
Fixpoint inner_trace (steps : list (vec -> vec)) (x : vec) : list vec * vec :=
  match steps with
  | [] => ([], x)
  | s :: steps' => let x' := s x in let '(tr, xf) := inner_trace steps' x' in (x' :: tr, xf)
  end.
Fixpoint kz_inner_run (steps : list (vec -> vec)) (n : nat) (x : vec) : list vec :=
  match n with
  | O => []
  | S n' => let '(tr, xf) := inner_trace steps x in tr ++ kz_inner_run steps n' xf
  end.
Fixpoint inner_trace_order (steps : list (vec -> vec)) (order : list nat) (x : vec) : list vec * vec :=
  match order with
  | [] => ([], x)
  | i :: order' => let x' := nth i steps (fun y => y) x in
                   let '(tr, xf) := inner_trace_order steps order' x' in (x' :: tr, xf)
  end.
Fixpoint kz_inner_orders (steps : list (vec -> vec)) (orders : list (list nat)) (x : vec) : list vec :=
  match orders with
  | [] => []
  | o :: orders' => let '(tr, xf) := inner_trace_order steps o x in tr ++ kz_inner_orders steps orders' xf
  end.
Definition is_perm_of (n : nat) (o : list nat) : bool :=
  Nat.eqb (length o) n && forallb (fun i => existsb (Nat.eqb i) o) (seq 0 n).
Definition check_kz (k : case_kz) : bool :=
  let steps := map kstep (kz_blocks k) in
  match kz_orders k with
  | Some os =>
      Nat.eqb (length os) (kz_niter k) && forallb (is_perm_of (length steps)) os &&
      (if kz_inner k then vsclose (kz_trace k) (kz_inner_orders steps os (kz_x0 k))
       else vsclose (kz_trace k) (kz_run_orders vec steps os (kz_x0 k)))
  | None =>
  if kz_inner k then vsclose (kz_trace k) (kz_inner_run steps (kz_niter k) (kz_x0 k))
  else vsclose (kz_trace k) (trace (kz_sweep vec steps) (kz_niter k) (kz_x0 k))
  end.

(* power method: [pm_iters] iterations were executed, [pm_est] was returned,
   [pm_xs] are the callback vectors (normalised iterates x_1, x_2, ...) *)
Record case_pm := { pm_M : mat; pm_Mt : mat; pm_w : vec; pm_selfadj : bool; pm_x0 : vec;
                    pm_iters : nat; pm_raised : bool; pm_est : Q; pm_xs : list vec }.
Definition ptol : Q := 1 # 1000000000.
Fixpoint pm_xs_ok (B : vec -> vec) (w : vec) (y : vec) (xs : list vec) : bool :=
  match xs with
  | [] => true
  | x :: xs' =>
      let y' := B y in
      let nn := lip w y' y' in
      (* x = y'/|y'| : same signs, x_i^2 |y'|^2 = y'_i^2, up to rounding *)
      all2 (fun xi yi => Qclose (ptol * nn) ptol (xi * xi * nn) (yi * yi)
                         && Qle_bool 0 (xi * yi)) x y'
      && pm_xs_ok B w y' xs'
  end.
Definition check_pm (k : case_pm) : bool :=
  let A := lA (pm_M k) in let At := lA (pm_Mt k) in
  let B := if pm_selfadj k then A else (fun x => At (A x)) in
  let ip := lip (pm_w k) in
  match pm_checked vec ip B (pm_iters k) (pm_x0 k) with
  | None => pm_raised k
  | Some sq =>
      negb (pm_raised k) &&
      let v := last sq 0 in
      let e2 := pm_est k * pm_est k in
      Qclose 0 (1 # 100000000) (if pm_selfadj k then e2 else e2 * e2) v
      && pm_xs_ok B (pm_w k) (pm_x0 k) (pm_xs k)
  end.

(* ---------------- non-smooth solvers ---------------- *)
Record smooth := { sm_q : Q; sm_M : mat; sm_Mt : mat; sm_b : vec }.   (* q |M x - b|^2 *)
Definition sgrad (s : smooth) : vec -> vec := quad_grad (sm_q s) (sm_M s) (sm_Mt s) (sm_b s).

Record case_pdhg := { ph_f : @fn Q; ph_g : @fn Q; ph_M : mat; ph_Mt : mat; ph_tau : Q; ph_sigma : Q;
                      ph_theta : Q; ph_x0 : vec; ph_xr0 : vec; ph_y0 : vec; ph_niter : nat;
                      ph_trace : list vec; ph_obs : bool; ph_xr : vec; ph_y : vec;
                      ph_acc : option (bool * Q * list Q) }.   (* (primal?, gamma, roots) *)
Definition check_pdhg (k : case_pdhg) : bool :=
  let step := pdhg_step vec vec addQ scalQ addQ scalQ (lA (ph_M k)) (lA (ph_Mt k))
                        (fun t => fprox (ph_f k) t) (fun s => fcprox (ph_g k) s)
                        (ph_tau k) (ph_sigma k) (ph_theta k) in
  let s0 := {| pd_x := ph_x0 k; pd_xr := ph_xr0 k; pd_y := ph_y0 k |} in
  let tr := match ph_acc k with
            | None => trace step (ph_niter k) s0
            | Some (primal, gamma, rts) =>
                pdhg_acc_run vec vec addQ scalQ addQ scalQ (lA (ph_M k)) (lA (ph_Mt k))
                             (fun t => fprox (ph_f k) t) (fun s => fcprox (ph_g k) s)
                             primal rts (ph_tau k) (ph_sigma k) s0
            end in
  let sf := last tr s0 in
  match ph_acc k with
  | None => true
  | Some (primal, gamma, rts) =>
      pdhg_roots_ok (1 # 1000000000000) primal gamma rts (ph_tau k) (ph_sigma k)
      && Nat.eqb (length rts) (ph_niter k)
  end &&
  vsclose (ph_trace k) (map (pd_x vec vec) tr)
  && (negb (ph_obs k) || (vclose (ph_xr k) (pd_xr vec vec sf) && vclose (ph_y k) (pd_y vec vec sf))).

Record case_admm := { am_f : @fn Q; am_g : @fn Q; am_M : mat; am_Mt : mat; am_tau : Q; am_sigma : Q;
                      am_x0 : vec; am_nW : nat; am_niter : nat; am_trace : list vec }.
Definition check_admm (k : case_admm) : bool :=
  let step := admm_step vec vec addQ scalQ addQ scalQ (lA (am_M k)) (lA (am_Mt k))
                        (fun t => fprox (am_f k) t) (fun s => fprox (am_g k) s) (am_tau k) (am_sigma k) in
  let z0 := repeat 0 (am_nW k) in
  vsclose (am_trace k)
          (map (ad_x vec vec) (trace step (am_niter k) {| ad_x := am_x0 k; ad_z := z0; ad_u := z0 |})).

Record case_pg := { pg_f : @fn Q; pg_g : smooth; pg_gamma : Q; pg_lams : list Q; pg_x0 : vec;
                    pg_accel : bool; pg_roots : list Q; pg_trace : list vec }.
Definition check_pg (k : case_pg) : bool :=
  let prox := fun t => fprox (pg_f k) t in
  if pg_accel k then
    apg_roots_ok (1 # 1000000000000) (pg_roots k) 1
    && vsclose (pg_trace k)
         (map (ap_x vec) (apg_run vec addQ scalQ prox (sgrad (pg_g k)) (pg_gamma k) (pg_roots k)
                                  {| ap_x := pg_x0 k; ap_y := pg_x0 k; ap_t := 1 |}))
  else vsclose (pg_trace k) (pg_run vec addQ scalQ prox (sgrad (pg_g k)) (pg_gamma k) (pg_lams k) (pg_x0 k)).

(* pb_l: the optional functional l_i; forward_backward_pd needs grad l_i^*, available for (translated) c|.|^2 *)
Record pblock := { pb_g : @fn Q; pb_M : mat; pb_Mt : mat; pb_sigma : Q; pb_n : nat; pb_l : option (@fn Q) }.
Fixpoint fcgrad (f : @fn Q) : option (vec -> vec) :=
  match f with
  | FL2sq c => Some (fun y => map (fun a => Qred (a / (2 * c))) y)
  | FTr g b => match fcgrad g with Some G => Some (fun y => vadd (G y) b) | None => None end
  | _ => None
  end.
Definition mkblk (b : pblock) : blk vec vec :=
  {| bA := lA (pb_M b); bAt := lA (pb_Mt b); bproxGc := fun s => fcprox (pb_g b) s; bsigma := pb_sigma b;
     bproxLc := match pb_l b with Some l => Some (fun s => fcprox l s) | None => None end;
     bgradLc := match pb_l b with Some l => fcgrad l | None => None end |}.
Definition zeros_of (bs : list pblock) : list vec := map (fun b => repeat 0 (pb_n b)) bs.

Record case_fb := { fb_f : @fn Q; fb_h : smooth; fb_blocks : list pblock; fb_tau : Q; fb_x0 : vec;
                    fb_niter : nat; fb_alias : bool; fb_trace : list vec }.
Definition check_fb (k : case_fb) : bool :=
  let step := fb_step vec vec addQ scalQ addQ scalQ (fb_alias k) (fun t => fprox (fb_f k) t)
                      (sgrad (fb_h k)) (map mkblk (fb_blocks k)) (fb_tau k) in
  vsclose (fb_trace k) (map fst (trace step (fb_niter k) (fb_x0 k, zeros_of (fb_blocks k)))).

Record case_dr := { dr_f : @fn Q; dr_blocks : list pblock; dr_tau : Q; dr_lams : list Q; dr_x0 : vec;
                    dr_trace : list vec; dr_final : vec }.
Definition check_dr (k : case_dr) : bool :=
  let '(tr, xf) := dr_run vec vec addQ scalQ addQ scalQ (fun t => fprox (dr_f k) t)
                          (map mkblk (dr_blocks k)) (dr_tau k) (dr_lams k) (dr_x0 k, zeros_of (dr_blocks k)) in
  vsclose (dr_trace k) tr && vclose (dr_final k) xf.

(* ---------------- smooth descent ---------------- *)
Inductive objective := OQuad (Qm Qt : mat) (b : vec) (c : Q) | ORosen (scale : Q).
Definition oval (o : objective) : vec -> Q :=
  match o with OQuad Qm _ b c => qf_val Qm b c | ORosen s => rosen_val s end.
Definition ograd (o : objective) : vec -> vec :=
  match o with OQuad Qm Qt b _ => qf_grad Qm Qt b | ORosen s => rosen_grad s end.
Inductive ls_res := RAlpha (a : Q) | RMaxIter | RZeroDeriv | RAssert.
Definition ls_match (r : ls_res) (m : @ls_out Q) : bool :=
  match r, m with
  | RAlpha a, LsOk a' => Qclose 0 0 a a'          (* powers of tau times alpha0: exact *)
  | RMaxIter, LsMaxIter | RZeroDeriv, LsZeroDeriv | RAssert, LsAssert => true
  | _, _ => false
  end.
Record case_ls := { ls_obj : objective; ls_tau : Q; ls_disc : Q; ls_mni : nat; ls_est : bool; ls_alpha : Q;
                    ls_x : vec; ls_d : vec; ls_dd : Q; ls_res_ : ls_res }.
Definition check_ls (k : case_ls) : bool :=
  ls_match (ls_res_ k)
    (bt_search vec addQ scalQ (oval (ls_obj k)) (ls_tau k) (ls_disc k) (ls_mni k) (ls_est k) (ls_alpha k)
               (ls_x k) (ls_d k) (ls_dd k)).

(* two consecutive calls of the SAME line-search object: the second starts from the alpha the
   first one stored (`self.alpha = |alpha|`) when estimate_step is set *)
Record case_ls2 := { l2_first : case_ls; l2_x : vec; l2_d : vec; l2_dd : Q; l2_res : ls_res }.
Definition check_ls2 (k : case_ls2) : bool :=
  let c := l2_first k in
  let run st x d dd := bt_search vec addQ scalQ (oval (ls_obj c)) (ls_tau c) (ls_disc c) (ls_mni c) (ls_est c) st x d dd in
  let r1 := run (ls_alpha c) (ls_x c) (ls_d c) (ls_dd c) in
  ls_match (ls_res_ c) r1 &&
  match r1 with
  | LsOk a => ls_match (l2_res k) (run (Qabs a) (l2_x k) (l2_d k) (l2_dd k))
  | _ => true
  end.

Record case_sd := { sd_obj : objective; sd_tau : Q; sd_disc : Q; sd_mni : nat; sd_est : bool; sd_alpha : Q;
                    sd_tol : Q; sd_maxiter : nat; sd_x0 : vec; sd_trace : list vec; sd_err : option ls_res;
                    (* a SECOND run with the same line-search object from another start: (x0', trace', error') *)
                    sd_second : option (vec * list vec * option ls_res) }.
Definition sd_end_match (r : option ls_res) (e : @sd_end Q) : bool :=
  match r, e with
  | None, SdDone => true
  | Some r, SdLs m => ls_match r m
  | _, _ => false
  end.
Definition check_sd (k : case_sd) : bool :=
  let ip := lip (map (fun _ => 1) (sd_x0 k)) in
  let run a x := sd_loop vec addQ scalQ ip (oval (sd_obj k)) (ograd (sd_obj k))
                         (sd_tau k) (sd_disc k) (sd_mni k) (sd_est k) (sd_tol k) (sd_maxiter k) a x in
  let '(tr, e) := run (sd_alpha k) (sd_x0 k) in
  vsclose (sd_trace k) tr && sd_end_match (sd_err k) e
  && match sd_second k with
     | None => true
     | Some (x0', tr', err') =>
         let a' := sd_alpha_after vec addQ scalQ ip (oval (sd_obj k)) (ograd (sd_obj k)) (sd_tau k) (sd_disc k)
                                  (sd_mni k) (sd_est k) (sd_tol k) (sd_maxiter k) (sd_alpha k) (sd_x0 k) in
         let '(tr2, e2) := run a' x0' in
         vsclose tr' tr2 && sd_end_match err' e2
     end.

Inductive case :=
| CLin (k : case_lin) | CKz (k : case_kz) | CPm (k : case_pm)
| CPdhg (k : case_pdhg) | CAdmm (k : case_admm) | CPg (k : case_pg) | CFb (k : case_fb) | CDr (k : case_dr)
| CLs (k : case_ls) | CLs2 (k : case_ls2) | CSd (k : case_sd)
| CRaised.   (* the implementation raised on a valid input: never agrees with the model *)
Definition check (c : case) : bool :=
  match c with
  | CLin k => check_lin k | CKz k => check_kz k | CPm k => check_pm k
  | CPdhg k => check_pdhg k | CAdmm k => check_admm k | CPg k => check_pg k
  | CFb k => check_fb k | CDr k => check_dr k | CLs k => check_ls k | CLs2 k => check_ls2 k | CSd k => check_sd k
  | CRaised => false
  end.
