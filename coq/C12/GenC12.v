(* C12/GenC12.v -- the hand-written loop models of C12/Model.v ARE the functions that
   translate/solvers_c12.py regenerates from /repo's source on every run (Gen/SolversC12.v):
   conjugate_gradient, conjugate_gradient_normal, power_method_opnorm (both branches),
   forward_backward_pd.  Proved over every inner-product space (the only facts used are the vector
   space identities 1 x = x, a (b x) = (a b) x), so the C12 theorems about cg_step, cgn_step, pmn_step,
   fb_step are theorems about code regenerated from source.  A changed sign, operand, step-size
   update or a missing copy in one of those loop bodies makes one of these proofs fail. *)
From Coq Require Import Reals Lra Psatz List Bool.
From Verif Require Import Base.Num C12.Model C12.Space C12.ProofsLin C12.ProofsNonsmooth Gen.SolversC12.
Import ListNotations.
Local Open Scope R_scope.

Section GenCG.
Variable X : IPS.
Variable A : X -> X.

Theorem gen_cg_step_is_model (s : @cgst R X) :
  gen_cg_step X vplus smul inner A s = cg_step X vplus smul inner A s.
Proof.
  destruct s as [x r p rr]. unfold gen_cg_step, cg_step; cbn [cg_x cg_r cg_p cg_rr]. numR.
  rewrite !smul_1. reflexivity.
Qed.
Theorem gen_cg_start_is_model (b x : X) :
  gen_cg_start X vplus smul inner A b x
  = (let s := cg_init X vplus smul inner A b x in if neqb (cg_rr X s) nzero then None else Some s).
Proof. unfold gen_cg_start, cg_init; cbn [cg_rr]. numR. rewrite !smul_1. reflexivity. Qed.
(* hence the whole call *)
Theorem gen_cg_run_is_model (b x : X) (n : nat) :
  match gen_cg_start X vplus smul inner A b x with
  | None => []
  | Some s => otrace (gen_cg_step X vplus smul inner A) n s
  end = cg_run X vplus smul inner A b x n.
Proof.
  rewrite gen_cg_start_is_model. unfold cg_run. cbv zeta.
  destruct (neqb _ _); [reflexivity|].
  generalize (cg_init X vplus smul inner A b x). induction n as [|n IH]; intros s; cbn [otrace]; [reflexivity|].
  rewrite gen_cg_step_is_model. destruct (cg_step X vplus smul inner A s); [rewrite IH|]; reflexivity.
Qed.
End GenCG.

Section GenCGN.
Variables X Y : IPS.
Variable A : X -> Y.
Variable At : Y -> X.

Theorem gen_cgn_step_is_model (epsm : R) (s : @cgnst R X Y) :
  gen_cgn_step X Y vplus smul inner vplus smul inner A At epsm s
  = cgn_step X Y vplus smul inner vplus smul inner A At epsm s.
Proof.
  destruct s as [x d p s ss stp dd]. unfold gen_cgn_step, cgn_step; cbn [n_x n_d n_p n_s n_ss n_stop n_dd]. numR.
  rewrite !smul_1. reflexivity.
Qed.
Theorem gen_cgn_start_is_model (eps2 : R) (b : Y) (x : X) :
  gen_cgn_start X Y inner vplus smul inner A At eps2 b x = cgn_init X Y inner vplus smul inner A At eps2 b x.
Proof. unfold gen_cgn_start, cgn_init. numR. rewrite !smul_1. reflexivity. Qed.
Theorem gen_cgn_run_is_model (eps2 epsm : R) (b : Y) (x : X) (n : nat) :
  otrace (gen_cgn_step X Y vplus smul inner vplus smul inner A At epsm) n
         (gen_cgn_start X Y inner vplus smul inner A At eps2 b x)
  = cgn_run X Y vplus smul inner vplus smul inner A At eps2 epsm b x n.
Proof.
  rewrite gen_cgn_start_is_model. unfold cgn_run.
  generalize (cgn_init X Y inner vplus smul inner A At eps2 b x). induction n as [|n IH]; intros s; cbn [otrace]; [reflexivity|].
  rewrite gen_cgn_step_is_model. destruct (cgn_step X Y vplus smul inner vplus smul inner A At epsm s); [rewrite IH|]; reflexivity.
Qed.
(* the exit through the guard of fix b290190 (`x.lincomb(1, x, -a, p); d.lincomb(1, d, a, q); return`)
   leaves exactly the x the iteration started with *)
Theorem gen_cgn_guard_exit_restores_x (epsm : R) (s : @cgnst R X Y) :
  gen_cgn_exit1_x X Y vplus smul vplus smul inner A At epsm s = n_x X Y s.
Proof. unfold gen_cgn_exit1_x. numR. apply inner_ext; intro w; inner_expand; ring. Qed.
End GenCGN.

Section GenPM.
Variables X Y : IPS.
Variable A : X -> Y.
Variable At : Y -> X.
Variable S : X -> X.            (* a self-adjoint operator, `op.adjoint is op` *)

Theorem gen_pm_normal_step_is_model (x : X) :
  gen_pm_normal_step X Y smul inner sqrt A At x = pmn_step X smul inner sqrt (fun z => At (A z)) x.
Proof. reflexivity. Qed.
Theorem gen_pm_selfadjoint_step_is_model (x : X) :
  gen_pm_selfadjoint_step X smul inner sqrt S x = pmn_step X smul inner sqrt S x.
Proof. reflexivity. Qed.
Theorem gen_pm_start_is_model (B : X -> X) (n : nat) (x0 : X) :
  pmn_run X smul inner sqrt B n x0
  = match gen_pm_normal_start X smul inner sqrt x0 with
    | None => None | Some x => pmn_loop X smul inner sqrt B n x end
  /\ gen_pm_selfadjoint_start X smul inner sqrt x0 = gen_pm_normal_start X smul inner sqrt x0.
Proof.
  split; [|reflexivity]. unfold pmn_run, gen_pm_normal_start. numR.
  destruct (Reqb (sqrt <<x0, x0>>) 0); reflexivity.
Qed.
End GenPM.

Section GenFB.
Variables X Y : IPS.
Variable proxF : R -> X -> X.
Variable gradH : X -> X.

(* the regenerated step is one of the two variants of the model -- as the source stands, the aliased
   one (`x_old = x` shares the object that prox_f overwrites); after the repair x_old = x.copy() this
   proof selects the documented variant instead, and both have the fixed-point theorem *)
Theorem gen_fb_step_is_model :
  exists alias : bool, forall (bs : list (pblk X Y)) (tau : R) (s : X * list Y),
  gen_fb_step X Y vplus smul vplus smul proxF gradH (map (mk X Y) bs) tau s
  = fb_step X Y vplus smul vplus smul alias proxF gradH (map (mk X Y) bs) tau s.
Proof.
  first [ exists true; intros bs tau [x vs]; unfold gen_fb_step, fb_step, gen_fb_block, two; numR;
          replace (x +' - (1) *' (tau *' sum_adj X Y vplus (map (mk X Y) bs) vs (gradH x)))
            with (x +' - tau *' sum_adj X Y vplus (map (mk X Y) bs) vs (gradH x)) by vec_eq;
          f_equal;
          generalize (2 *' proxF tau (x +' - tau *' sum_adj X Y vplus (map (mk X Y) bs) vs (gradH x))
                      +' - (1) *' proxF tau (x +' - tau *' sum_adj X Y vplus (map (mk X Y) bs) vs (gradH x)));
          intro y; revert vs; induction bs as [|b bs IH]; intros [|v vs]; cbn [map map2]; try reflexivity;
          rewrite IH; reflexivity
        | exists false; intros bs tau [x vs]; unfold gen_fb_step, fb_step, gen_fb_block, two; numR;
          replace (x +' - (1) *' (tau *' sum_adj X Y vplus (map (mk X Y) bs) vs (gradH x)))
            with (x +' - tau *' sum_adj X Y vplus (map (mk X Y) bs) vs (gradH x)) by vec_eq;
          f_equal;
          generalize (2 *' proxF tau (x +' - tau *' sum_adj X Y vplus (map (mk X Y) bs) vs (gradH x))
                      +' - (1) *' x);
          intro y; revert vs; induction bs as [|b bs IH]; intros [|v vs]; cbn [map map2]; try reflexivity;
          rewrite IH; reflexivity ].
Qed.
End GenFB.

(* BacktrackingLineSearch.__call__: the control skeleton (while True / budget test / break / assert) is
   pinned statement by statement in the translator; the formulas inside it -- start value and sign of
   alpha, trial point, acceptance (Armijo) test, shrinking rule, final assertion, zero-derivative test --
   are regenerated, and the model bt_loop / bt_search is exactly their composition *)
Section GenBT.
Variable X : IPS.
Variable f : X -> R.

Theorem gen_bt_loop_is_model (x d : X) (fx dd tau disc : R) (k : nat) (alpha : R) :
  bt_loop X vplus smul f x d fx dd tau disc (S k) alpha
  = (let fval := f (gen_bt_point X vplus smul x d alpha) in
     if gen_bt_accept disc fx dd alpha fval
     then (if gen_bt_assert fx fval then LsOk alpha else LsAssert)
     else bt_loop X vplus smul f x d fx dd tau disc k (gen_bt_next tau alpha)).
Proof.
  cbn [bt_loop]. unfold gen_bt_point, gen_bt_accept, gen_bt_assert, gen_bt_next. numR.
  rewrite smul_1. reflexivity.
Qed.
Theorem gen_bt_search_is_model (tau disc : R) (mni : nat) (est : bool) (alpha_st : R) (x d : X) (dd : R) :
  bt_search X vplus smul f tau disc mni est alpha_st x d dd
  = (if gen_bt_zero_derivative dd then LsZeroDeriv
     else bt_loop X vplus smul f x d (f x) dd tau disc (S mni) (gen_bt_alpha0 est alpha_st dd)).
Proof.
  unfold bt_search, gen_bt_zero_derivative. numR. destruct (Reqb dd 0); [reflexivity|].
  assert (E : gen_bt_alpha0 est alpha_st dd
              = (if Rltb 0 dd then - (if est then alpha_st else 1) else (if est then alpha_st else 1))).
  { unfold gen_bt_alpha0. numR. destruct est, (Rltb 0 dd); try reflexivity; ring. }
  rewrite E. reflexivity.
Qed.
End GenBT.

(* douglas_rachford_pd (branch len(L) > 0, l = None): the regenerated step and callback iterate are the model's.
   The two accumulation loops over the operators are recognised by the translator as the fold sum_adj0. *)
Lemma map2_ext {A B C : Type} (f g : A -> B -> C) : (forall a b, f a b = g a b) ->
  forall l m, map2 f l m = map2 g l m.
Proof. intros E l; induction l as [|a l IH]; intros [|b m]; cbn; try reflexivity. rewrite E, IH. reflexivity. Qed.

Section GenDR.
Variables X Y : IPS.
Variable proxF : R -> X -> X.

Theorem gen_dr_p1_is_model (bs : list (pblk X Y)) (tau : R) (s : X * list Y) :
  gen_dr_p1 X Y vplus smul proxF (map (mk X Y) bs) tau s = dr_p1 X Y vplus smul proxF (map (mk X Y) bs) tau s.
Proof.
  destruct s as [x vs]. unfold gen_dr_p1, dr_p1, two. numR. rewrite smul_1.
  replace (- tau / 2) with (- (tau / 2)) by field. reflexivity.
Qed.

Theorem gen_dr_step_is_model (bs : list (pblk X Y)) (tau lam : R) (s : X * list Y) :
  gen_dr_step X Y vplus smul vplus smul proxF (map (mk X Y) bs) tau lam s
  = dr_step X Y vplus smul vplus smul proxF (map (mk X Y) bs) tau lam s.
Proof.
  destruct s as [x vs]. unfold gen_dr_step, dr_step, dr_p1, two. numR.
  replace (- tau / 2) with (- (tau / 2)) by field.
  rewrite !smul_1.
  set (p1 := proxF tau (x +' - (tau / 2) *' sum_adj0 X Y vplus smul (map (mk X Y) bs) vs x)).
  set (w1 := 2 *' p1 +' - (1) *' x).
  rewrite (map2_ext (fun b v => gen_dr_blk_p2 X Y vplus smul b w1 v)
                    (fun b v => bproxGc X Y b (bsigma X Y b) (v +' bsigma X Y b / 2 *' bA X Y b w1))) by
    (intros b v; unfold gen_dr_blk_p2; numR; rewrite smul_1; reflexivity).
  set (p2 := map2 (fun b v => bproxGc X Y b (bsigma X Y b) (v +' bsigma X Y b / 2 *' bA X Y b w1)) (map (mk X Y) bs) vs).
  rewrite (map2_ext (fun p v => gen_dr_blk_w2 Y vplus smul p v) (fun p v => 2 *' p +' - (1) *' v)) by
    (intros p v; reflexivity).
  set (w2 := map2 (fun p v => 2 *' p +' - (1) *' v) p2 vs).
  set (z1 := w1 +' - (tau / 2) *' sum_adj0 X Y vplus smul (map (mk X Y) bs) w2 x).
  f_equal.
  rewrite (map2_ext (fun vz p => gen_dr_blk_v2 Y vplus smul lam vz p) (fun vz p => vz +' - lam *' p)) by
    (intros vz p; unfold gen_dr_blk_v2; numR; rewrite smul_1; reflexivity).
  f_equal.
  rewrite (map2_ext (fun v z => gen_dr_blk_v1 Y vplus smul lam v z) (fun v z => v +' lam *' z)) by
    (intros v z; unfold gen_dr_blk_v1; numR; rewrite smul_1; reflexivity).
  f_equal.
  generalize (2 *' z1 +' - (1) *' w1); intro q1. generalize w2; intro ws. clear.
  revert ws; induction bs as [|b bs IH]; intros [|w ws]; cbn [map map2]; try reflexivity.
  rewrite IH. f_equal. unfold gen_dr_blk_z2. cbn [bproxLc bsigma bA mk]. numR. rewrite smul_1. reflexivity.
Qed.
End GenDR.

(* every x_norm of the regenerated power-method step is bounded, and |x| = 1 is preserved *)
Lemma gen_pm_normal_step_bounded :
  forall (X Y : IPS) (A : LinOp X Y) (K : R) (x : X) (nrm : R) (x' : X),
  0 <= K -> bounded X Y A (K * K) -> nsq x = 1 ->
  gen_pm_normal_step X Y smul inner sqrt A (adj A) x = Some (nrm, x') ->
  0 <= nrm <= K * K /\ nsq x' = 1.
Proof.
  intros X Y A K x nrm x' HK HB Hx E. rewrite gen_pm_normal_step_is_model in E.
  assert (HB2 : forall z : X, nsq (adj A (A z)) <= (K * K) * (K * K) * nsq z).
  { intros z. apply (Bn_bound X Y A (K * K)); auto. nra. }
  pose proof (pm_loop_bounded X (fun z => adj A (A z)) (K * K) ltac:(nra) HB2 1 x [nrm] Hx) as Hb.
  unfold pmn_step in E. numR. fold (nsq (adj A (A x))) in E.
  destruct (Reqb_spec (sqrt (nsq (adj A (A x)))) 0) as [|Hn]; [discriminate|].
  injection E as <- <-. split.
  - assert (G : PMloop X (fun z => adj A (A z)) 1 x = Some [sqrt (nsq (adj A (A x)))]).
    { unfold PMloop; cbn [pmn_loop]. unfold pmn_step. numR. fold (nsq (adj A (A x))).
      destruct (Reqb_spec (sqrt (nsq (adj A (A x)))) 0); [contradiction|]. reflexivity. }
    specialize (Hb G). inversion Hb; subst; auto.
  - apply normalize_unit; auto.
Qed.
