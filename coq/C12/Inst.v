(* C12/Inst.v -- the instance R^n of C12/Space.v: vectors are lists of length n,
   the inner product is the weighted dot product with positive weights, operators are
   matrices (lists of rows) -- exactly the list instance of C12/Model.v that the
   correspondence shards execute at Q.  The abstract theorems are transported to
   statements about the list model itself (all dimensions, all matrices). *)
From Coq Require Import Reals Lra Lia List Bool Eqdep_dec PeanoNat.
From Verif Require Import Base.Num Base.Vec Base.VecR C12.Model C12.Space C12.ProofsLin.
Import ListNotations.
Local Open Scope R_scope.

Notation lvec := (list R).
Notation lmat := (list (list R)).

(* ---------------- list lemmas ---------------- *)
Lemma vadd_len (x y : lvec) n : length x = n -> length y = n -> length (vadd x y) = n.
Proof. intros Hx Hy. unfold vadd. rewrite (vmap2_length nadd x y); congruence. Qed.
Lemma vscal_len a (x : lvec) n : length x = n -> length (vscal a x) = n.
Proof. intros; unfold vscal; rewrite map_length; auto. Qed.

Lemma vadd_cons a b (x y : lvec) : vadd (a :: x) (b :: y) = (a + b) :: vadd x y.
Proof. reflexivity. Qed.
Lemma vscal_cons c a (x : lvec) : vscal c (a :: x) = (c * a) :: vscal c x.
Proof. reflexivity. Qed.
Lemma vadd_comm_l (x y : lvec) : vadd x y = vadd y x.
Proof.
  revert y; induction x as [|a x IH]; intros [|b y]; try reflexivity.
  rewrite !vadd_cons, IH. f_equal. ring.
Qed.
Lemma vadd_assoc_l (x y z : lvec) : vadd x (vadd y z) = vadd (vadd x y) z.
Proof.
  revert y z; induction x as [|a x IH]; intros [|b y] [|c z]; try reflexivity.
  rewrite !vadd_cons, IH. f_equal. ring.
Qed.
Lemma vadd_zero_r (x : lvec) : vadd x (repeat 0 (length x)) = x.
Proof. induction x as [|a x IH]; [reflexivity|]. cbn [length repeat]. rewrite vadd_cons, IH. f_equal. ring. Qed.
Lemma vadd_opp_l (x : lvec) : vadd x (vscal (- (1)) x) = repeat 0 (length x).
Proof. induction x as [|a x IH]; [reflexivity|]. cbn [length repeat]. rewrite vscal_cons, vadd_cons, IH. f_equal. ring. Qed.

Lemma wdot_nil_l (w y z : lvec) : wdot w [] z = 0.
Proof. destruct w; reflexivity. Qed.
Lemma wdot_add_l (w x y z : lvec) : length x = length y ->
  wdot w (vadd x y) z = wdot w x z + wdot w y z.
Proof.
  revert x y z; induction w as [|c w IH]; intros x y z Hl.
  - cbn. numR. lra.
  - destruct x as [|a x], y as [|b y]; cbn in Hl; try discriminate.
    + cbn. numR. lra.
    + destruct z as [|d z].
      * cbn. numR. lra.
      * unfold vadd; cbn [vmap2]. rewrite !wdot_cons. fold (vadd x y). rewrite IH by congruence. numR. ring.
Qed.
Lemma wdot_scal_l (w : lvec) a (x z : lvec) : wdot w (vscal a x) z = a * wdot w x z.
Proof.
  revert x z; induction w as [|c w IH]; intros x z.
  - cbn. numR. lra.
  - destruct x as [|b x]; [cbn; numR; lra|]. destruct z as [|d z]; [cbn; numR; lra|].
    unfold vscal; cbn [map]. rewrite !wdot_cons. fold (vscal a x). rewrite IH. numR. ring.
Qed.
Lemma wdot_pos (w x : lvec) : Forall (fun c => 0 < c) w -> 0 <= wdot w x x.
Proof.
  intros Hw; revert x; induction Hw as [|c w Hc Hw IH]; intros x.
  - cbn. numR. lra.
  - destruct x as [|a x]; [cbn; numR; lra|]. rewrite wdot_cons. specialize (IH x). nra.
Qed.
Lemma wdot_def (w x : lvec) : Forall (fun c => 0 < c) w -> length x = length w ->
  wdot w x x = 0 -> x = repeat 0 (length x).
Proof.
  intros Hw; revert x; induction Hw as [|c w Hc Hw IH]; intros x Hl Hd.
  - destruct x; [reflexivity|discriminate].
  - destruct x as [|a x]; [discriminate|]. rewrite wdot_cons in Hd.
    pose proof (wdot_pos w x Hw) as Hp. cbn in Hl.
    assert (Haa : 0 <= c * (a * a)) by (apply Rmult_le_pos; [lra | apply Rle_0_sqr]).
    assert (Hr : wdot w x x = 0) by lra.
    assert (Hca : c * (a * a) = 0) by lra.
    apply Rmult_integral in Hca. destruct Hca as [Hca|Hca]; [lra|].
    apply Rmult_integral in Hca. assert (Ha : a = 0) by (destruct Hca; auto).
    cbn [length repeat]. f_equal; auto.
Qed.

(* ---------------- vectors of length n ---------------- *)
Definition vecn (n : nat) : Type := { l : lvec | length l = n }.
Lemma vecn_eq n (a b : vecn n) : proj1_sig a = proj1_sig b -> a = b.
Proof.
  destruct a as [a Ha], b as [b Hb]; cbn; intros E. subst b. f_equal. apply UIP_dec, Nat.eq_dec.
Qed.
Definition mkv {n} (l : lvec) (H : length l = n) : vecn n := exist _ l H.

Section Rn.
Variable n : nat.
Variable w : lvec.
Hypothesis Hwl : length w = n.
Hypothesis Hwp : Forall (fun c => 0 < c) w.

Definition zn : vecn n := exist _ (repeat 0 n) (repeat_length 0 n).
Definition addn (a b : vecn n) : vecn n :=
  exist _ (vadd (proj1_sig a) (proj1_sig b)) (vadd_len _ _ n (proj2_sig a) (proj2_sig b)).
Definition scaln (c : R) (a : vecn n) : vecn n :=
  exist _ (vscal c (proj1_sig a)) (vscal_len c _ n (proj2_sig a)).
Definition ipn (a b : vecn n) : R := wdot w (proj1_sig a) (proj1_sig b).

Definition Rn : IPS.
Proof.
  refine {| car := vecn n; vnull := zn; vplus := addn; smul := scaln; inner := ipn |}.
  - intros x y. apply vecn_eq; cbn. apply vadd_comm_l.
  - intros x y z. apply vecn_eq; cbn. apply vadd_assoc_l.
  - intros [x Hx]. apply vecn_eq; cbn. rewrite <- Hx. apply vadd_zero_r.
  - intros [x Hx]. apply vecn_eq; cbn. rewrite <- Hx. apply vadd_opp_l.
  - intros x y. unfold ipn. apply wdot_comm.
  - intros [x Hx] [y Hy] [z Hz]. unfold ipn; cbn. apply wdot_add_l. congruence.
  - intros a [x Hx] [y Hy]. unfold ipn; cbn. apply wdot_scal_l.
  - intros [x Hx]. unfold ipn; cbn. apply wdot_pos; auto.
  - intros [x Hx]. unfold ipn; cbn. intros Hd. apply vecn_eq; cbn.
    rewrite <- Hx. apply wdot_def with w; auto. congruence.
Defined.
End Rn.

(* ---------------- matrices as operators ---------------- *)
Lemma dot_vadd_r (r x y : lvec) : length x = length y -> length r = length x ->
  dot r (vadd x y) = dot r x + dot r y.
Proof.
  intros H1 H2. rewrite dot_comm, dot_vadd_l by congruence. rewrite (dot_comm x r), (dot_comm y r). reflexivity.
Qed.
Lemma dot_vscal_r a (r x : lvec) : dot r (vscal a x) = a * dot r x.
Proof. rewrite dot_comm, dot_vscal_l, dot_comm. reflexivity. Qed.

Definition wf_mat (m n : nat) (M : lmat) : Prop := length M = m /\ Forall (fun r => length r = n) M.

Lemma mvec_len m n (M : lmat) (x : lvec) : wf_mat m n M -> length (mvec M x) = m.
Proof. intros [Hm _]. unfold mvec. rewrite map_length; auto. Qed.
Lemma mvec_cons r (M : lmat) (x : lvec) : mvec (r :: M) x = dot r x :: mvec M x.
Proof. reflexivity. Qed.
Lemma mvec_add m n (M : lmat) (x y : lvec) : wf_mat m n M -> length x = n -> length y = n ->
  mvec M (vadd x y) = vadd (mvec M x) (mvec M y).
Proof.
  intros [_ Hr] Hx Hy. clear m. induction Hr as [|r M Hrl Hr IH]; [reflexivity|].
  rewrite !mvec_cons, vadd_cons, IH, dot_vadd_r by congruence. reflexivity.
Qed.
Lemma mvec_scal (M : lmat) a (x : lvec) : mvec M (vscal a x) = vscal a (mvec M x).
Proof.
  induction M as [|r M IH]; [reflexivity|].
  rewrite !mvec_cons, vscal_cons, IH, dot_vscal_r. reflexivity.
Qed.

Section MatOp.
Variables n m : nat.
Variables wV wW : lvec.
Hypothesis HwVl : length wV = n.
Hypothesis HwVp : Forall (fun c => 0 < c) wV.
Hypothesis HwWl : length wW = m.
Hypothesis HwWp : Forall (fun c => 0 < c) wW.
Variables M Mt : lmat.
Hypothesis HM : wf_mat m n M.
Hypothesis HMt : wf_mat n m Mt.
(* Mt is the adjoint of M for the two weighted inner products *)
Hypothesis Hadj : forall x y : lvec, length x = n -> length y = m ->
  wdot wW (mvec M x) y = wdot wV x (mvec Mt y).

Notation XV := (Rn n wV HwVl HwVp).
Notation XW := (Rn m wW HwWl HwWp).

Definition apM (x : vecn n) : vecn m := exist _ (mvec M (proj1_sig x)) (mvec_len m n M _ HM).
Definition adjM (y : vecn m) : vecn n := exist _ (mvec Mt (proj1_sig y)) (mvec_len n m Mt _ HMt).

Definition matop : LinOp XV XW.
Proof.
  refine {| ap := (apM : XV -> XW); adj := (adjM : XW -> XV) |}.
  - intros [x Hx] [y Hy]. apply vecn_eq; cbn. apply (mvec_add m n); auto.
  - intros a [x Hx]. apply vecn_eq; cbn. apply mvec_scal.
  - intros [x Hx] [y Hy]. cbn. unfold ipn; cbn. apply Hadj; auto.
Defined.

(* ---- Landweber on lists ---- *)
Definition lw_list (omega : R) (b : lvec) : lvec -> lvec :=
  lw_step lvec lvec vadd vscal vadd vscal (mvec M) (mvec Mt) omega b.
Definition res_list (b x : lvec) : R :=
  let r := vadd (mvec M x) (vscal (- (1)) b) in wdot wW r r.

Lemma lw_list_proj omega (b : vecn m) (x : vecn n) :
  proj1_sig (LW XV XW matop omega b x) = lw_list omega (proj1_sig b) (proj1_sig x).
Proof. reflexivity. Qed.
Lemma res_list_proj (b : vecn m) (x : vecn n) :
  residual2 XV XW matop b x = res_list (proj1_sig b) (proj1_sig x).
Proof. reflexivity. Qed.

Lemma lw_list_len omega b x : length b = m -> length x = n -> length (lw_list omega b x) = n.
Proof.
  intros Hb Hx. change (lw_list omega b x) with (lw_list omega (proj1_sig (mkv b Hb)) (proj1_sig (mkv x Hx))).
  rewrite <- lw_list_proj. apply proj2_sig.
Qed.

(* the abstract theorem, transported: for the LIST model that the shards execute *)
Theorem landweber_lists Mb omega (b : lvec) :
  (forall v : lvec, length v = n -> wdot wW (mvec M v) (mvec M v) <= Mb * wdot wV v v) ->
  0 <= omega -> omega * Mb <= 2 -> length b = m ->
  forall (k : nat) (x : lvec), length x = n ->
  nonincr (res_list b) x (trace (lw_list omega b) k x).
Proof.
  intros HB Ho HMb Hb k. induction k as [|k IH]; intros x Hx; cbn [trace nonincr]; auto.
  split.
  - pose proof (landweber_step_residual XV XW matop Mb omega (mkv b Hb) (mkv x Hx)) as H.
    rewrite !res_list_proj, lw_list_proj in H. cbn [proj1_sig mkv] in H. apply H; auto.
    intros [v Hv]. unfold nsq; cbn. unfold ipn; cbn. apply HB; auto.
  - apply IH. apply lw_list_len; auto.
Qed.
End MatOp.

(* ---------------- plain transpose is the adjoint for unit weights ---------------- *)
Lemma wdot_ones (x y : lvec) : length x = length y -> wdot (repeat 1 (length x)) x y = dot x y.
Proof.
  revert y; induction x as [|a x IH]; intros [|b y] Hl; cbn in Hl; try discriminate; auto.
  cbn [length repeat]. rewrite wdot_cons, dot_cons, IH by congruence. ring.
Qed.
Lemma dot_zero_r (x : lvec) k : dot x (repeat 0 k) = 0.
Proof.
  revert k; induction x as [|a x IH]; intros [|k]; cbn [repeat]; try reflexivity.
  rewrite dot_cons, IH. ring.
Qed.
Lemma mvec_repeat_nil k (y : lvec) : mvec (repeat [] k) y = repeat 0 k.
Proof. induction k as [|k IH]; [reflexivity|]. cbn [repeat]. rewrite mvec_cons, IH. reflexivity. Qed.
Lemma mvec_zipcons (r : lvec) (Tm : lmat) b (y : lvec) : length r = length Tm ->
  mvec (zipcons r Tm) (b :: y) = vadd (vscal b r) (mvec Tm y).
Proof.
  revert Tm; induction r as [|a r IH]; intros [|c Tm] Hl; cbn in Hl; try discriminate; [reflexivity|].
  cbn [zipcons]. rewrite !mvec_cons, vscal_cons, vadd_cons, dot_cons, IH by congruence.
  f_equal. ring.
Qed.
Lemma transpose_len n (M : lmat) : Forall (fun r => length r = n) M -> length (transpose n M) = n.
Proof.
  intros H; induction H as [|r M Hr H IH]; cbn; [apply repeat_length|].
  revert IH. generalize (transpose n M). revert Hr. clear. revert n.
  induction r as [|a r IHr]; intros n Hr Tm HT; cbn in *.
  - congruence.
  - destruct Tm as [|c Tm]; cbn in *; [congruence|]. destruct n; [discriminate|].
    f_equal. apply IHr; congruence.
Qed.
Lemma transpose_adjoint n (M : lmat) (x y : lvec) :
  Forall (fun r => length r = n) M -> length x = n -> length y = length M ->
  dot (mvec M x) y = dot x (mvec (transpose n M) y).
Proof.
  intros HM Hx; revert y; induction HM as [|r M Hr HM IH]; intros y Hy.
  - destruct y; [|discriminate]. cbn [transpose]. rewrite mvec_repeat_nil, dot_zero_r. reflexivity.
  - destruct y as [|b y]; [discriminate|]. cbn in Hy. cbn [transpose].
    rewrite mvec_cons, dot_cons, IH by congruence.
    rewrite mvec_zipcons by (rewrite transpose_len; auto).
    rewrite dot_vadd_r.
    + rewrite dot_vscal_r, (dot_comm x r). ring.
    + rewrite vscal_len with (n := n); auto. unfold mvec. rewrite map_length, transpose_len; auto.
    + rewrite vscal_len with (n := n); auto.
Qed.

Lemma Forall_repeat_pos k : Forall (fun c => 0 < c) (repeat 1 k).
Proof. induction k; cbn; constructor; auto; lra. Qed.
Lemma transpose_wf m n (M : lmat) : wf_mat m n M -> wf_mat n m (transpose n M).
Proof.
  intros [Hm Hr]. split; [apply transpose_len; auto|]. subst m.
  induction Hr as [|r M Hrl Hr IH]; cbn.
  - clear. induction n; cbn; constructor; auto.
  - revert IH. generalize (transpose n M). clear - r. intros Tm; revert Tm.
    induction r as [|a r IHr]; intros [|c Tm] HT; cbn; constructor; inversion HT; subst; cbn; auto.
Qed.

(* the plain transpose IS the adjoint for unit weights *)
Lemma transpose_is_adjoint m n (M : lmat) : wf_mat m n M ->
  forall x y : lvec, length x = n -> length y = m ->
  wdot (repeat 1 m) (mvec M x) y = wdot (repeat 1 n) x (mvec (transpose n M) y).
Proof.
  intros HM x0 y0 Hx0 Hy0. pose proof HM as [Hm Hr].
  rewrite <- (mvec_len m n M x0 HM) at 1. rewrite wdot_ones by (rewrite (mvec_len m n M x0 HM); auto).
  rewrite <- Hx0 at 1. rewrite wdot_ones.
  - apply transpose_adjoint; auto. congruence.
  - unfold mvec. rewrite map_length, transpose_len; auto.
Qed.

(* Landweber on lists with the plain transpose and the Euclidean inner product:
   no hypothesis about an adjoint is left *)
Theorem landweber_lists_transpose (m n : nat) (M : lmat) (Mb omega : R) (b : lvec) :
  wf_mat m n M ->
  (forall v : lvec, length v = n ->
     wdot (repeat 1 m) (mvec M v) (mvec M v) <= Mb * wdot (repeat 1 n) v v) ->
  0 <= omega -> omega * Mb <= 2 -> length b = m ->
  forall (k : nat) (x : lvec), length x = n ->
  nonincr (res_list (repeat 1 m) M b) x
          (trace (lw_step lvec lvec vadd vscal vadd vscal (mvec M) (mvec (transpose n M)) omega b) k x).
Proof.
  intros HM HB Ho HMb Hb k x Hx.
  exact (landweber_lists n m (repeat 1 n) (repeat 1 m) (repeat_length 1 n) (Forall_repeat_pos n)
           (repeat_length 1 m) (Forall_repeat_pos m) M (transpose n M) HM (transpose_wf m n M HM)
           (transpose_is_adjoint m n M HM) Mb omega b HB Ho HMb Hb k x Hx).
Qed.

(* ---------------- conjugate gradients on lists ---------------- *)
Lemma otrace_map {S S' : Type} (pi : S -> S') (step : S -> option S) (step' : S' -> option S') :
  (forall s, step' (pi s) = option_map pi (step s)) ->
  forall k s, map pi (otrace step k s) = otrace step' k (pi s).
Proof.
  intros Hc k; induction k as [|k IH]; intros s; cbn [otrace]; [reflexivity|].
  rewrite Hc. destruct (step s) as [s'|]; cbn; [|reflexivity]. rewrite IH. reflexivity.
Qed.
Lemma nonincr_map {S S' : Type} (pi : S -> S') (phi : S -> R) (phi' : S' -> R) :
  (forall s, phi' (pi s) = phi s) -> forall l s, nonincr phi s l -> nonincr phi' (pi s) (map pi l).
Proof.
  intros He l; induction l as [|s' l IH]; intros s; cbn; auto.
  intros [Hle Hn]. rewrite !He. split; auto.
Qed.

Section CGLists.
Variable n : nat.
Variable w : lvec.
Hypothesis Hwl : length w = n.
Hypothesis Hwp : Forall (fun c => 0 < c) w.
Variable M : lmat.
Hypothesis HM : wf_mat n n M.
(* M is self-adjoint and positive semi-definite for the weighted inner product *)
Hypothesis Hsa : forall x y : lvec, length x = n -> length y = n ->
  wdot w (mvec M x) y = wdot w x (mvec M y).
Hypothesis Hpsd : forall v : lvec, length v = n -> 0 <= wdot w v (mvec M v).

Notation Xn := (Rn n w Hwl Hwp).
Definition Aop : LinOp Xn Xn := matop n n w w Hwl Hwp Hwl Hwp M M HM HM Hsa.

Definition pist (s : @cgst R (vecn n)) : @cgst R lvec :=
  {| cg_x := proj1_sig (cg_x _ s); cg_r := proj1_sig (cg_r _ s); cg_p := proj1_sig (cg_p _ s);
     cg_rr := cg_rr _ s |}.
Definition energy_list (xs x : lvec) : R :=
  let e := vadd x (vscal (- (1)) xs) in wdot w e (mvec M e).

Lemma cg_step_commutes (s : @cgst R (vecn n)) :
  cg_step lvec vadd vscal (wdot w) (mvec M) (pist s) = option_map pist (CGstep Xn Aop s).
Proof.
  unfold CGstep, cg_step. destruct s as [[x Hx] [r Hr] [p Hp] rr]. cbn [pist cg_x cg_r cg_p cg_rr proj1_sig].
  cbn [inner vplus smul Rn ap Aop matop]. unfold ipn, apM; cbn [proj1_sig].
  destruct (neqb (wdot w p (mvec M p)) nzero); reflexivity.
Qed.

Theorem cg_lists (b xs x : lvec) (k : nat) :
  length b = n -> length xs = n -> length x = n -> mvec M xs = b ->
  nonincr (fun s => energy_list xs (cg_x lvec s))
          (cg_init lvec vadd vscal (wdot w) (mvec M) b x)
          (cg_run lvec vadd vscal (wdot w) (mvec M) b x k).
Proof.
  intros Hb Hxs Hx Hsol.
  assert (Hsym : forall u v : Xn, <<Aop u, v>> = <<u, Aop v>>).
  { intros [u Hu] [v Hv]. cbn. unfold ipn; cbn. apply Hsa; auto. }
  assert (Hpos : forall u : Xn, 0 <= <<u, Aop u>>).
  { intros [u Hu]. cbn. unfold ipn; cbn. apply Hpsd; auto. }
  assert (Hs' : Aop (mkv xs Hxs : Xn) = (mkv b Hb : Xn)) by (apply vecn_eq; cbn; exact Hsol).
  pose proof (cg_energy_all Xn Aop Hsym Hpos (mkv b Hb) (mkv xs Hxs) (mkv x Hx) k Hs') as T.
  apply (nonincr_map pist _ (fun s => energy_list xs (cg_x lvec s))) in T; [|reflexivity].
  replace (cg_run lvec vadd vscal (wdot w) (mvec M) b x k)
    with (map pist (CGrun Xn Aop (mkv b Hb) (mkv x Hx) k)); [exact T|].
  unfold CGrun, cg_run.
  change (cg_init lvec vadd vscal (wdot w) (mvec M) b x) with (pist (cg_init Xn vplus smul inner Aop (mkv b Hb) (mkv x Hx))).
  change (cg_rr lvec (pist (cg_init Xn vplus smul inner Aop (mkv b Hb) (mkv x Hx))))
    with (cg_rr Xn (cg_init Xn vplus smul inner Aop (mkv b Hb) (mkv x Hx))).
  destruct (neqb _ _); [reflexivity|].
  apply otrace_map. apply cg_step_commutes.
Qed.
End CGLists.
