(* C12/Dim.v -- weighted R^n (lists) has dimension n in the sense of C12/ProofsCG.v:
   n+1 lists of length n are linearly dependent (Gaussian elimination as an induction on n:
   find a pivot with non-zero head, move it to the front, eliminate, recurse on the tails),
   and an orthogonal family that is linearly dependent contains the zero vector.
   Consequence: conjugate gradients on the LIST model is exact after n steps. *)
From Coq Require Import Reals Lra Lia List Bool.
From Verif Require Import Base.Num Base.Vec Base.VecR C12.Model C12.Space C12.ProofsLin C12.ProofsCG C12.Inst.
Import ListNotations.
Local Open Scope R_scope.

Notation zeros n := (repeat 0 n).

(* linear combination of a family of lists *)
Fixpoint lc (n : nat) (cs : list R) (vs : list lvec) : lvec :=
  match cs, vs with
  | c :: cs', v :: vs' => vadd (vscal c v) (lc n cs' vs')
  | _, _ => zeros n
  end.
Fixpoint hsum (cs hs : list R) : R :=
  match cs, hs with c :: cs', h :: hs' => c * h + hsum cs' hs' | _, _ => 0 end.

Definition mkc (at_ : R * lvec) : lvec := fst at_ :: snd at_.

Lemma lc_len n cs vs : Forall (fun v => length v = n) vs -> length (lc n cs vs) = n.
Proof.
  intros H; revert cs; induction H as [|v vs Hv H IH]; intros [|c cs]; cbn [lc]; try apply repeat_length.
  apply vadd_len; [apply vscal_len; auto | apply IH].
Qed.

Lemma lc_cons n cs (ats : list (R * lvec)) :
  lc (S n) cs (map mkc ats) = hsum cs (map fst ats) :: lc n cs (map snd ats).
Proof.
  revert cs; induction ats as [|[a t] ats IH]; intros [|c cs]; cbn [map lc hsum]; try reflexivity.
  rewrite IH. unfold mkc; cbn [fst snd]. rewrite vscal_cons, vadd_cons. reflexivity.
Qed.

(* elementwise list algebra (no length conditions needed) *)
Lemma vscal_vadd c (x y : lvec) : vscal c (vadd x y) = vadd (vscal c x) (vscal c y).
Proof.
  revert y; induction x as [|a x IH]; intros [|b y]; try reflexivity.
  rewrite vadd_cons, !vscal_cons, vadd_cons, IH. f_equal. ring.
Qed.
Lemma vscal_vscal a b (x : lvec) : vscal a (vscal b x) = vscal (a * b) x.
Proof. induction x as [|c x IH]; [reflexivity|]. rewrite !vscal_cons, IH. f_equal. ring. Qed.
Lemma vscal_plus a b (x : lvec) : vadd (vscal a x) (vscal b x) = vscal (a + b) x.
Proof. induction x as [|c x IH]; [reflexivity|]. rewrite !vscal_cons, vadd_cons, IH. f_equal. ring. Qed.
Lemma vscal_zero (x : lvec) : vscal 0 x = zeros (length x).
Proof. induction x as [|c x IH]; [reflexivity|]. rewrite vscal_cons, IH. cbn [length repeat]. f_equal. ring. Qed.
Lemma vadd_zero_l (x : lvec) : vadd (zeros (length x)) x = x.
Proof. rewrite vadd_comm_l. apply vadd_zero_r. Qed.

Lemma zeros_add n : vadd (zeros n) (zeros n) = zeros n.
Proof. induction n as [|n IH]; [reflexivity|]. cbn [repeat]. rewrite vadd_cons, IH. f_equal. ring. Qed.

(* eliminating with a pivot vector t0: u = t + (k a) t0 *)
Lemma lc_elim n k (t0 : lvec) cs (ats : list (R * lvec)) :
  length t0 = n -> Forall (fun at_ => length (snd at_) = n) ats ->
  lc n cs (map (fun at_ => vadd (snd at_) (vscal (k * fst at_) t0)) ats)
  = vadd (lc n cs (map snd ats)) (vscal (k * hsum cs (map fst ats)) t0).
Proof.
  intros Ht H; revert cs; induction H as [|[a t] ats Hl H IH]; intros [|c cs]; cbn [map lc hsum fst snd].
  - rewrite Rmult_0_r, vscal_zero, Ht, zeros_add. reflexivity.
  - rewrite Rmult_0_r, vscal_zero, Ht, zeros_add. reflexivity.
  - rewrite Rmult_0_r, vscal_zero, Ht, zeros_add. reflexivity.
  - rewrite IH. cbn [snd] in Hl.
    rewrite vscal_vadd, vscal_vscal.
    replace (k * (c * a + hsum cs (map fst ats))) with (c * (k * a) + k * hsum cs (map fst ats)) by ring.
    rewrite <- vscal_plus.
    set (P := vscal c t). set (Q := vscal (c * (k * a)) t0). set (Rr := lc n cs (map snd ats)).
    set (S2 := vscal (k * hsum cs (map fst ats)) t0).
    rewrite <- !vadd_assoc_l. f_equal. rewrite !vadd_assoc_l. f_equal. apply vadd_comm_l.
Qed.

(* every family of vectors of length S n is a family of (head, tail) pairs *)
Lemma decompose n (vs : list lvec) : Forall (fun v => length v = S n) vs ->
  exists ats, vs = map mkc ats /\ Forall (fun at_ => length (snd at_) = n) ats.
Proof.
  intros H; induction H as [|v vs Hv H (ats & E & F)].
  - exists []; split; [reflexivity|constructor].
  - destruct v as [|a t]; [discriminate|]. exists ((a, t) :: ats). split; [cbn; rewrite E; reflexivity|].
    constructor; [cbn in *; lia | auto].
Qed.

(* moving a pivot from the middle to the front does not change a linear combination *)
Lemma lc_move n c cs1 cs2 (x : lvec) pre post : length cs1 = length pre ->
  lc n (cs1 ++ c :: cs2) (pre ++ x :: post) = lc n (c :: cs1 ++ cs2) (x :: pre ++ post).
Proof.
  revert pre; induction cs1 as [|d cs1 IH]; intros [|y pre] Hl; cbn in Hl; try discriminate; [reflexivity|].
  cbn [app lc]. rewrite IH by congruence. cbn [lc].
  rewrite !vadd_assoc_l. f_equal. apply vadd_comm_l.
Qed.

Definition dependent (n : nat) (vs : list lvec) : Prop :=
  exists cs, length cs = length vs /\ Exists (fun c => c <> 0) cs /\ lc n cs vs = zeros n.

Lemma dependent_pivot_first n a0 t0 (rest : list (R * lvec)) :
  (forall us, length us = S n -> Forall (fun v => length v = n) us -> dependent n us) ->
  a0 <> 0 -> length t0 = n -> length rest = S n -> Forall (fun at_ => length (snd at_) = n) rest ->
  dependent (S n) (map mkc ((a0, t0) :: rest)).
Proof.
  intros IH Ha Ht Hr Hf.
  set (us := map (fun at_ => vadd (snd at_) (vscal ((- / a0) * fst at_) t0)) rest).
  destruct (IH us) as (cs & Hcl & Hex & Hlc).
  { unfold us; rewrite map_length; auto. }
  { unfold us. apply Forall_forall. intros u Hu. apply in_map_iff in Hu. destruct Hu as (at_ & <- & Hin).
    apply vadd_len; [eapply Forall_forall in Hf; eauto | apply vscal_len; auto]. }
  unfold us in Hlc. rewrite (lc_elim n) in Hlc by auto.
  set (c0 := - / a0 * hsum cs (map fst rest)) in *.
  exists (c0 :: cs). split; [|split].
  - cbn. unfold us in Hcl. rewrite map_length in *. congruence.
  - right; exact Hex.
  - rewrite lc_cons. cbn [map fst snd hsum lc repeat]. f_equal.
    + unfold c0. field. exact Ha.
    + rewrite vadd_comm_l. exact Hlc.
Qed.

Lemma find_pivot (ats : list (R * lvec)) :
  Forall (fun at_ => fst at_ = 0) ats \/
  exists pre a t post, ats = pre ++ (a, t) :: post /\ a <> 0.
Proof.
  induction ats as [|[a t] ats IH]; [left; constructor|].
  destruct (Req_dec a 0) as [Ha|Ha].
  - destruct IH as [H|(pre & a' & t' & post & E & Hn)].
    + left; constructor; auto.
    + right. exists ((a, t) :: pre), a', t', post. split; [cbn; rewrite E; reflexivity | exact Hn].
  - right. exists [], a, t, ats. split; [reflexivity|exact Ha].
Qed.

(* n+1 vectors of length n are linearly dependent *)
Theorem lin_dep n : forall vs, length vs = S n -> Forall (fun v => length v = n) vs -> dependent n vs.
Proof.
  induction n as [|n IH]; intros vs Hl Hf.
  - destruct vs as [|v [|? ?]]; cbn in Hl; try discriminate. inversion Hf; subst.
    destruct v; [|discriminate]. exists [1]. split; [reflexivity|split; [left; lra|reflexivity]].
  - destruct (decompose n vs Hf) as (ats & -> & Hats). rewrite map_length in Hl.
    destruct (find_pivot ats) as [Hz|(pre & a & t & post & -> & Ha)].
    + (* all heads vanish: a dependence among the first S n tails *)
      destruct ats as [|at0 ats]; [discriminate|]. cbn in Hl.
      assert (Hl' : length ats = S n) by lia.
      (* drop the FIRST vector (coefficient 0) *)
      destruct (IH (map snd ats)) as (cs & Hcl & Hex & Hlc).
      { rewrite map_length; auto. }
      { pose proof (Forall_inv_tail Hats) as H2. apply Forall_forall. intros u Hu. apply in_map_iff in Hu.
        destruct Hu as (at_ & <- & Hin). eapply Forall_forall in H2; eauto. }
      exists (0 :: cs). split; [|split].
      * cbn. rewrite !map_length in *. congruence.
      * right; exact Hex.
      * rewrite lc_cons. cbn [map hsum lc repeat]. f_equal.
        -- assert (G : forall cs' (l : list (R * lvec)), Forall (fun at_ => fst at_ = 0) l -> hsum cs' (map fst l) = 0).
           { intros cs' l Hl0; revert cs'; induction Hl0 as [|x l Hx Hl0 IHl]; intros [|c cs']; cbn; try reflexivity.
             rewrite Hx, IHl. ring. }
           rewrite (G cs ats (Forall_inv_tail Hz)). ring.
        -- pose proof (Forall_inv Hats) as Hl0. cbv beta in Hl0.
           rewrite vscal_zero, Hl0, Hlc. apply zeros_add.
    + (* a pivot with non-zero head: move it to the front *)
      assert (Hpre : Forall (fun at_ => length (snd at_) = n) (pre ++ post) /\ length t = n).
      { apply Forall_app in Hats. destruct Hats as [H1 H2]. inversion H2; subst. split; [apply Forall_app; split; auto | auto]. }
      destruct Hpre as [Hpp Ht].
      destruct (dependent_pivot_first n a t (pre ++ post) IH Ha Ht) as (cs & Hcl & Hex & Hlc); auto.
      { rewrite app_length in *. cbn in Hl. lia. }
      destruct cs as [|c cs]; [inversion Hex|].
      cbn [map] in Hlc. rewrite map_app in Hlc.
      cbn in Hcl. rewrite map_length, app_length in Hcl.
      assert (Hlen : (length pre <= length cs)%nat) by lia.
      pose proof (firstn_skipn (length pre) cs) as Ecs.
      assert (Hl1 : length (firstn (length pre) cs) = length pre) by (rewrite firstn_length; lia).
      remember (firstn (length pre) cs) as cs1 eqn:E1. remember (skipn (length pre) cs) as cs2 eqn:E2.
      clear E1 E2. subst cs.
      exists (cs1 ++ c :: cs2). split; [|split].
      * rewrite !app_length in *. cbn [length] in *. rewrite map_length, app_length. cbn [length]. lia.
      * apply Exists_app. inversion Hex as [? ? Hc|? ? Hc]; subst.
        -- right; left; exact Hc.
        -- apply Exists_app in Hc. destruct Hc; [left; auto | right; right; auto].
      * rewrite map_app. cbn [map]. rewrite (lc_move (S n)) by (rewrite map_length; exact Hl1). exact Hlc.
Qed.

(* ---------------- from dependence + orthogonality to a zero vector ---------------- *)
Lemma wdot_zeros_l (w0 v : lvec) k : wdot w0 (zeros k) v = 0.
Proof.
  revert v k; induction w0 as [|c w' IH]; intros v k; [reflexivity|].
  destruct k as [|k]; [reflexivity|]. destruct v as [|a v]; [reflexivity|].
  cbn [repeat]. rewrite wdot_cons, IH. ring.
Qed.

Section OrthDep.
Variable n : nat.
Variable w : lvec.
Hypothesis Hwl : length w = n.
Hypothesis Hwp : Forall (fun c => 0 < c) w.

Lemma wdot_lc_orth (v : lvec) cs (vs : list lvec) :
  length v = n -> Forall (fun u => length u = n) vs -> Forall (fun u => wdot w v u = 0) vs ->
  wdot w (lc n cs vs) v = 0.
Proof.
  intros Hv Hl Ho; revert cs; induction Hl as [|u vs Hu Hl IH]; intros [|c cs]; cbn [lc]; try apply wdot_zeros_l.
  pose proof (Forall_inv Ho) as Hou. pose proof (Forall_inv_tail Ho) as Ho'. cbv beta in Hou.
  rewrite wdot_add_l.
  - rewrite wdot_scal_l, (wdot_comm w u v), Hou, (IH Ho'). ring.
  - rewrite (vscal_len c u n Hu), lc_len; auto.
Qed.

Lemma orth_dep_zero (vs : list lvec) : Forall (fun u => length u = n) vs ->
  ForallOrdPairs (fun u v => wdot w u v = 0) vs ->
  forall cs, length cs = length vs -> Exists (fun c => c <> 0) cs -> lc n cs vs = zeros n ->
  exists v, In v vs /\ v = zeros n.
Proof.
  intros Hl Ho; induction Ho as [|v vs Hv Ho IH]; intros cs Hcl Hex Hlc.
  - destruct cs; [inversion Hex|discriminate].
  - destruct cs as [|c cs]; [discriminate|]. cbn [lc] in Hlc. cbn in Hcl.
    pose proof (Forall_inv Hl) as Hvl. pose proof (Forall_inv_tail Hl) as Hl'. cbv beta in Hvl.
    assert (E : c * wdot w v v = 0).
    { pose proof (f_equal (fun x => wdot w x v) Hlc) as E. cbv beta in E.
      rewrite wdot_add_l, wdot_scal_l, wdot_lc_orth, wdot_zeros_l in E; auto.
      - lra.
      - rewrite vscal_len with (n := n), lc_len; auto. }
    destruct (Req_dec c 0) as [Hc|Hc].
    + subst c. rewrite vscal_zero, Hvl in Hlc.
      assert (Hlc' : lc n cs vs = zeros n).
      { rewrite <- Hlc. rewrite <- (lc_len n cs vs Hl') at 2. symmetry. apply vadd_zero_l. }
      inversion Hex as [? ? Hc|? ? Hex']; subst; [contradiction|].
      destruct (IH Hl' cs) as (u & Hin & Hu); auto. exists u; split; [right; auto|auto].
    + apply Rmult_integral in E. destruct E as [E|E]; [contradiction|].
      exists v; split; [left; reflexivity|]. rewrite <- Hvl. apply (wdot_def w); auto. congruence.
Qed.

(* R^n (weighted) has dimension <= n in the sense used by cg_exact_after_dim *)
Theorem Rn_dim : dim_le (Rn n w Hwl Hwp) n.
Proof.
  intros l Hlen Ho.
  set (vs := map (@proj1_sig _ _) l).
  assert (Hvl : Forall (fun u => length u = n) vs).
  { unfold vs. apply Forall_forall. intros u Hu. apply in_map_iff in Hu. destruct Hu as ([x Hx] & <- & _). exact Hx. }
  assert (Hvo : ForallOrdPairs (fun u v => wdot w u v = 0) vs).
  { unfold vs. clear - Ho. induction Ho as [|a l Ha Ho IH]; cbn [map]; constructor; auto.
    clear - Ha. induction Ha as [|b l Hb Ha IH]; cbn [map]; constructor; auto. }
  destruct (lin_dep n vs) as (cs & Hcl & Hex & Hlc); auto.
  { unfold vs; rewrite map_length; auto. }
  destruct (orth_dep_zero vs Hvl Hvo cs Hcl Hex Hlc) as (v & Hin & Hv).
  unfold vs in Hin. apply in_map_iff in Hin. destruct Hin as (x & Hx & Hxin).
  exists x; split; auto. apply vecn_eq. cbn. rewrite Hx. exact Hv.
Qed.
End OrthDep.

(* ---------------- conjugate gradients on lists: exact after n steps ---------------- *)
Lemma last_map {S S' : Type} (pi : S -> S') (l : list S) d : last (map pi l) (pi d) = pi (last l d).
Proof. induction l as [|a [|b l] IH]; cbn in *; auto. Qed.

Section CGListsExact.
Variable n : nat.
Variable w : lvec.
Hypothesis Hwl : length w = n.
Hypothesis Hwp : Forall (fun c => 0 < c) w.
Variable M : lmat.
Hypothesis HM : wf_mat n n M.
Hypothesis Hsa : forall x y : lvec, length x = n -> length y = n ->
  wdot w (mvec M x) y = wdot w x (mvec M y).
(* positive definite *)
Hypothesis Hpd : forall v : lvec, length v = n -> wdot w v (mvec M v) = 0 -> v = zeros n.

Notation Xn := (Rn n w Hwl Hwp).
Notation Aop' := (Aop n w Hwl Hwp M HM Hsa).

Theorem cg_lists_exact (b xs x : lvec) (k : nat) :
  length b = n -> length xs = n -> length x = n -> mvec M xs = b -> (n <= k)%nat ->
  cg_x lvec (last (cg_run lvec vadd vscal (wdot w) (mvec M) b x k)
                  (cg_init lvec vadd vscal (wdot w) (mvec M) b x)) = xs.
Proof.
  intros Hb Hxs Hx Hsol Hk.
  assert (Hsym : forall u v : Xn, <<Aop' u, v>> = <<u, Aop' v>>).
  { intros [u Hu] [v Hv]. cbn. unfold ipn; cbn. apply Hsa; auto. }
  assert (Hdef : forall u : Xn, <<u, Aop' u>> = 0 -> u = vnull).
  { intros [u Hu]. cbn. unfold ipn; cbn. intros H0. apply vecn_eq; cbn. apply Hpd; auto. }
  assert (Hs' : Aop' (mkv xs Hxs : Xn) = (mkv b Hb : Xn)) by (apply vecn_eq; cbn; exact Hsol).
  pose proof (cg_exact_after_dim Xn Aop' Hsym Hdef n (mkv b Hb) (mkv xs Hxs) (mkv x Hx) k
                (Rn_dim n w Hwl Hwp) Hs' Hk) as T.
  replace (cg_run lvec vadd vscal (wdot w) (mvec M) b x k)
    with (map (pist n) (CGrun Xn Aop' (mkv b Hb) (mkv x Hx) k)).
  - change (cg_init lvec vadd vscal (wdot w) (mvec M) b x)
      with (pist n (CGinit Xn Aop' (mkv b Hb) (mkv x Hx))).
    rewrite last_map. apply (f_equal (@proj1_sig _ _)) in T. exact T.
  - unfold CGrun, cg_run.
    change (cg_init lvec vadd vscal (wdot w) (mvec M) b x) with (pist n (cg_init Xn vplus smul inner Aop' (mkv b Hb) (mkv x Hx))).
    change (cg_rr lvec (pist n (cg_init Xn vplus smul inner Aop' (mkv b Hb) (mkv x Hx))))
      with (cg_rr Xn (cg_init Xn vplus smul inner Aop' (mkv b Hb) (mkv x Hx))).
    destruct (neqb _ _); [reflexivity|].
    apply otrace_map. apply (cg_step_commutes n w Hwl Hwp M HM Hsa).
Qed.
End CGListsExact.
