(* C12/ProofsNonsmooth.v -- PDHG, linearized ADMM, (accelerated) proximal gradient,
   forward-backward PD, Douglas-Rachford PD:
   * a point satisfying the first-order optimality conditions (sub-gradient
     inclusions) is a fixed point of one step, for all admissible parameters;
   * conversely a fixed point of the step satisfies the inclusions (so "the
     iterate stopped moving" certifies optimality);
   * proximal gradient decreases the objective for gamma <= 1/L.
   Proximal operators enter as maps satisfying the proximal inequality of a
   convex functional (C12/Space.v: prox_of), nothing else. *)
From Coq Require Import Reals Lra Lia Psatz List Bool.
From Verif Require Import Base.Num C12.Model C12.Space C12.ProofsLin.
Import ListNotations.
Local Open Scope R_scope.

(* ====================================================================== *)
Section PDHG.
Variables X Y : IPS.
Variable A : LinOp X Y.
Variable f : cfun X.
Variable gc : cfun Y.                 (* the convex conjugate g^* *)
Variable proxF : R -> X -> X.
Variable proxGc : R -> Y -> Y.
Hypothesis Hf : convex X f.
Hypothesis Hgc : convex Y gc.
Hypothesis HPf : prox_of X f proxF.
Hypothesis HPg : prox_of Y gc proxGc.

(* primal-dual optimality of  min f(x) + g(Ax):   -A^* y in df(x),   A x in dg^*(y) *)
Definition kkt (xs : X) (ys : Y) : Prop :=
  subgrad X f xs ((- (1)) *' adj A ys) /\ subgrad Y gc ys (A xs).

Definition PD (tau sigma theta : R) : @pdst X Y -> @pdst X Y :=
  pdhg_step X Y vplus smul vplus smul A (adj A) proxF proxGc tau sigma theta.

Theorem pdhg_fixed_point tau sigma theta xs ys :
  0 < tau -> 0 < sigma -> kkt xs ys ->
  PD tau sigma theta {| pd_x := xs; pd_xr := xs; pd_y := ys |} = {| pd_x := xs; pd_xr := xs; pd_y := ys |}.
Proof.
  intros Ht Hs [Kf Kg]. unfold PD, pdhg_step; cbn [pd_x pd_xr pd_y]. numR.
  rewrite (prox_fix Y gc proxGc sigma ys (A xs)); auto.
  replace (xs +' - tau *' adj A ys) with (xs +' tau *' ((- (1)) *' adj A ys)) by vec_eq.
  rewrite (prox_fix X f proxF tau xs ((- (1)) *' adj A ys)); auto.
  f_equal. vec_eq.
Qed.

Theorem pdhg_fixed_point_iter tau sigma theta xs ys n :
  0 < tau -> 0 < sigma -> kkt xs ys ->
  iter (PD tau sigma theta) n {| pd_x := xs; pd_xr := xs; pd_y := ys |} = {| pd_x := xs; pd_xr := xs; pd_y := ys |}.
Proof.
  intros Ht Hs K. induction n as [|n IH]; cbn [iter]; auto. rewrite pdhg_fixed_point; auto.
Qed.

(* accelerated pdhg (gamma_primal / gamma_dual): the steps change every iteration but stay
   positive, so the KKT state is left unchanged by every iteration, whatever the roots *)
Theorem pdhg_accelerated_fixed_point primal rts : forall tau sigma xs ys,
  0 < tau -> 0 < sigma -> Forall (fun r => 0 < r) rts -> kkt xs ys ->
  Forall (fun s => s = {| pd_x := xs; pd_xr := xs; pd_y := ys |})
         (pdhg_acc_run X Y vplus smul vplus smul A (adj A) proxF proxGc primal rts tau sigma
                       {| pd_x := xs; pd_xr := xs; pd_y := ys |}).
Proof.
  induction rts as [|r rts IH]; intros tau sigma xs ys Ht Hs Hr K; cbn [pdhg_acc_run]; [constructor|].
  inversion Hr as [|? ? Hr0 Hr']; subst. numR.
  fold (PD tau sigma (1 / r)). rewrite pdhg_fixed_point; auto.
  assert (Hth : 0 < 1 / r) by (apply Rdiv_lt_0_compat; lra).
  constructor; [reflexivity|].
  apply IH; auto; destruct primal.
  - apply Rmult_lt_0_compat; auto.
  - apply Rdiv_lt_0_compat; auto.
  - apply Rdiv_lt_0_compat; auto.
  - apply Rmult_lt_0_compat; auto.
Qed.

(* converse: a state that one step leaves unchanged is primal-dual optimal *)
Theorem pdhg_fixed_is_optimal tau sigma theta s :
  0 < tau -> 0 < sigma -> PD tau sigma theta s = s ->
  kkt (pd_x X Y s) (pd_y X Y s) /\ pd_xr X Y s = pd_x X Y s.
Proof.
  intros Ht Hs. destruct s as [x xr y]. unfold PD, pdhg_step; cbn [pd_x pd_xr pd_y]. numR.
  intros E. injection E as Ex Exr Ey.
  rewrite Ey in Ex, Exr. rewrite Ex in Exr.
  assert (Hxr : xr = x) by (rewrite <- Exr; vec_eq).
  clear Exr. subst xr. split; [|auto].
  split.
  - pose proof (prox_fix_inv X f proxF tau x _ Hf HPf Ht Ex) as S.
    replace (/ tau *' (x +' - tau *' adj A y -' x)) with ((- (1)) *' adj A y) in S; auto.
    apply inner_ext; intro w; inner_expand; field; lra.
  - pose proof (prox_fix_inv Y gc proxGc sigma y _ Hgc HPg Hs Ey) as S.
    replace (/ sigma *' (y +' sigma *' A x -' y)) with (A x) in S; auto.
    apply inner_ext; intro w; inner_expand; field; lra.
Qed.
End PDHG.

(* ====================================================================== *)
Section ADMM.
Variables X Y : IPS.
Variable A : LinOp X Y.
Variable f : cfun X.
Variable g : cfun Y.
Variable proxF : R -> X -> X.
Variable proxG : R -> Y -> Y.
Hypothesis Hf : convex X f.
Hypothesis Hg : convex Y g.
Hypothesis HPf : prox_of X f proxF.
Hypothesis HPg : prox_of Y g proxG.

(* optimality of  min f(x) + g(Ax)  with multiplier y:  -A^* y in df(x),  y in dg(Ax) *)
Definition kkt_admm (xs : X) (ys : Y) : Prop :=
  subgrad X f xs ((- (1)) *' adj A ys) /\ subgrad Y g (A xs) ys.

Definition AD (tau sigma : R) : @admst X Y -> @admst X Y :=
  admm_step X Y vplus smul vplus smul A (adj A) proxF proxG tau sigma.

(* fixed state: x = xs, z = A xs, u = sigma ys *)
Theorem admm_fixed_point tau sigma xs ys :
  0 < tau -> 0 < sigma -> kkt_admm xs ys ->
  AD tau sigma {| ad_x := xs; ad_z := A xs; ad_u := sigma *' ys |}
  = {| ad_x := xs; ad_z := A xs; ad_u := sigma *' ys |}.
Proof.
  intros Ht Hs [Kf Kg]. unfold AD, admm_step, subW; cbn [ad_x ad_z ad_u]. numR.
  assert (E1 : xs +' - (tau / sigma) *' adj A (A xs +' sigma *' ys -' A xs)
               = xs +' tau *' ((- (1)) *' adj A ys)).
  { lin_expand. apply inner_ext; intro w; inner_expand; field; lra. }
  rewrite E1, (prox_fix X f proxF tau xs _ Hf HPf Ht Kf).
  rewrite (prox_fix Y g proxG sigma (A xs) ys Hg HPg Hs Kg).
  f_equal. vec_eq.
Qed.
End ADMM.

(* ====================================================================== *)
Section ProxGrad.
Variable X : IPS.
Variable f : cfun X.
Variable proxF : R -> X -> X.
Variable gradG : X -> X.
Hypothesis Hf : convex X f.
Hypothesis HPf : prox_of X f proxF.

(* optimality of  min f + g  (g differentiable):  -grad g(x) in df(x) *)
Definition stationary (xs : X) : Prop := subgrad X f xs ((- (1)) *' gradG xs).

Definition PG (gamma lam : R) : X -> X := pg_step X vplus smul proxF gradG gamma lam.

Theorem proximal_gradient_fixed_point gamma lam xs :
  0 < gamma -> stationary xs -> PG gamma lam xs = xs.
Proof.
  intros Hg K. unfold PG, pg_step. numR.
  replace (xs +' - gamma *' gradG xs) with (xs +' gamma *' ((- (1)) *' gradG xs)) by vec_eq.
  rewrite (prox_fix X f proxF gamma xs _ Hf HPf Hg K). vec_eq.
Qed.

Theorem proximal_gradient_fixed_all gamma lams xs :
  0 < gamma -> stationary xs ->
  Forall (fun x => x = xs) (pg_run X vplus smul proxF gradG gamma lams xs).
Proof.
  intros Hg K. induction lams as [|l lams IH]; cbn [pg_run]; [constructor|].
  fold (PG gamma l xs). rewrite proximal_gradient_fixed_point; auto.
Qed.

Theorem proximal_gradient_fixed_is_optimal gamma lam x :
  0 < gamma -> lam <> 0 -> PG gamma lam x = x -> stationary x.
Proof.
  intros Hg Hl. unfold PG, pg_step. numR. intros E.
  set (p := proxF gamma (x +' - gamma *' gradG x)) in *.
  assert (Hp : p = x).
  { apply inner_ext; intro w.
    assert (H : <<(1 - lam) *' x +' lam *' p, w>> = <<x, w>>) by (rewrite E; reflexivity).
    revert H; inner_expand; intro H.
    assert (lam * (<<p, w>> - <<x, w>>) = 0) by lra.
    apply Rmult_integral in H0. destruct H0; [contradiction|lra]. }
  unfold stationary.
  pose proof (prox_fix_inv X f proxF gamma x _ Hf HPf Hg Hp) as S.
  replace (/ gamma *' (x +' - gamma *' gradG x -' x)) with ((- (1)) *' gradG x) in S; auto.
  apply inner_ext; intro w; inner_expand; field; lra.
Qed.

(* accelerated form: (x, y) = (xs, xs) stays put whatever the momentum sequence *)
Definition APG (gamma rt : R) : @apst R X -> @apst R X := apg_step X vplus smul proxF gradG gamma rt.
Theorem accelerated_proximal_gradient_fixed_point gamma rt t xs :
  0 < gamma -> stationary xs ->
  let s' := APG gamma rt {| ap_x := xs; ap_y := xs; ap_t := t |} in
  ap_x X s' = xs /\ ap_y X s' = xs.
Proof.
  intros Hg K. unfold APG, apg_step; cbn [ap_x ap_y ap_t]. numR.
  replace (xs +' - gamma *' gradG xs) with (xs +' gamma *' ((- (1)) *' gradG xs)) by vec_eq.
  rewrite (prox_fix X f proxF gamma xs _ Hf HPf Hg K). split; [reflexivity|vec_eq].
Qed.
Theorem accelerated_proximal_gradient_fixed_all gamma rts t xs :
  0 < gamma -> stationary xs ->
  Forall (fun s => ap_x X s = xs /\ ap_y X s = xs)
         (apg_run X vplus smul proxF gradG gamma rts {| ap_x := xs; ap_y := xs; ap_t := t |}).
Proof.
  intros Hg K. revert t. induction rts as [|r rts IH]; intros t; cbn [apg_run]; [constructor|].
  destruct (accelerated_proximal_gradient_fixed_point gamma r t xs Hg K) as [Ex Ey].
  fold (APG gamma r {| ap_x := xs; ap_y := xs; ap_t := t |}).
  set (s' := APG gamma r {| ap_x := xs; ap_y := xs; ap_t := t |}) in *.
  constructor; [split; auto|].
  destruct s' as [x' y' t']; cbn [ap_x ap_y] in Ex, Ey; subst x' y'. apply IH.
Qed.

(* descent: with lam = 1 and a smooth term obeying the quadratic upper bound with
   constant L, one step decreases F = f + g by (1/gamma - L/2) |x' - x|^2 >= 0
   as soon as gamma <= 2/L (in particular for the usual gamma <= 1/L).  No convexity of g. *)
Variable gval : X -> R.
Variable Lg : R.
Hypothesis Hdescent : forall x y, gval y <= gval x + <<gradG x, y -' x>> + Lg / 2 * nsq (y -' x).

Theorem proximal_gradient_descent gamma x :
  0 < gamma -> gamma * Lg <= 2 -> fdom f x ->
  let x' := PG gamma 1 x in
  fdom f x' /\ fval f x' + gval x' <= fval f x + gval x - (/ gamma - Lg / 2) * nsq (x' -' x)
  /\ fval f x' + gval x' <= fval f x + gval x.
Proof.
  intros Hg HL Hd. unfold PG, pg_step. numR.
  set (z := x +' - gamma *' gradG x). set (p := proxF gamma z).
  assert (Ex : (1 - 1) *' x +' 1 *' p = p) by vec_eq. rewrite Ex.
  pose proof (prox_subgrad X f gamma z p Hf Hg (HPf gamma z Hg)) as [Hpd Hs].
  specialize (Hs x Hd). rewrite inner_scal_l in Hs. specialize (Hdescent x p).
  assert (E : <<z -' p, x -' p>> = nsq (p -' x) + gamma * <<gradG x, p -' x>>).
  { unfold z, nsq; inner_expand.
    rewrite (inner_sym x p), (inner_sym (gradG x) p), (inner_sym (gradG x) x). ring. }
  rewrite E in Hs.
  assert (Ei : / gamma * gamma = 1) by (field; lra).
  pose proof (nsq_pos X (p -' x)) as Hn.
  assert (H3 : / gamma * (nsq (p -' x) + gamma * <<gradG x, p -' x>>)
               = / gamma * nsq (p -' x) + <<gradG x, p -' x>>).
  { rewrite Rmult_plus_distr_l, <- Rmult_assoc, Ei. ring. }
  rewrite H3 in Hs.
  assert (Hmain : fval f p + gval p <= fval f x + gval x - (/ gamma - Lg / 2) * nsq (p -' x)) by nra.
  split; [auto|split; [exact Hmain|]].
  assert (0 <= (/ gamma - Lg / 2) * nsq (p -' x)).
  { apply Rmult_le_pos; auto.
    assert (gamma * (Lg / 2) <= 1) by lra.
    assert (Lg / 2 <= / gamma).
    { apply Rmult_le_reg_l with gamma; auto. rewrite Rinv_r by lra. lra. }
    lra. }
  lra.
Qed.
End ProxGrad.

(* ====================================================================== *)
(* primal-dual splittings over several operators L_i : X -> Y *)
Section Splittings.
Variables X Y : IPS.
Variable f : cfun X.
Variable proxF : R -> X -> X.
Hypothesis Hf : convex X f.
Hypothesis HPf : prox_of X f proxF.

Record pblk := { pA : LinOp X Y; pgc : cfun Y; pprox : R -> Y -> Y; psig : R }.
Definition pblk_ok (b : pblk) : Prop := convex Y (pgc b) /\ prox_of Y (pgc b) (pprox b) /\ 0 < psig b.
Definition mk (b : pblk) : @blk R X Y :=
  {| bA := pA b; bAt := adj (pA b); bproxGc := pprox b; bsigma := psig b; bproxLc := None; bgradLc := None |}.

(* sum_i L_i^* v_i, accumulated exactly as the code does *)
Definition SA (bs : list pblk) (vs : list Y) (acc : X) : X := sum_adj X Y vplus (map mk bs) vs acc.

(* dual inclusions  L_i x in dg_i^*(v_i)  for every block *)
Definition dual_ok (bs : list pblk) (xs : X) (vs : list Y) : Prop :=
  Forall2 (fun b v => subgrad Y (pgc b) v (pA b xs)) bs vs.

Lemma dual_update_fixed bs xs vs :
  Forall pblk_ok bs -> dual_ok bs xs vs ->
  map2 (fun b v =>
          let t := match bgradLc X Y b with
                   | Some G => subW Y vplus smul (bA X Y b xs) (G v) | None => bA X Y b xs end in
          bproxGc X Y b (bsigma X Y b) (v +' bsigma X Y b *' t)) (map mk bs) vs = vs.
Proof.
  intros Hok Hd. induction Hd as [|b v bs vs Hbv Hd IH]; cbn; auto.
  inversion Hok as [|? ? (Hc & Hp & Hs) Hok']; subst.
  rewrite (prox_fix Y (pgc b) (pprox b) (psig b) v (pA b xs) Hc Hp Hs Hbv).
  f_equal. apply IH; auto.
Qed.

(* ---------- forward_backward_pd (both the aliased and the documented variant) ---------- *)
Variable gradH : X -> X.
Definition FB (alias : bool) (bs : list pblk) (tau : R) : X * list Y -> X * list Y :=
  fb_step X Y vplus smul vplus smul alias proxF gradH (map mk bs) tau.

(* optimality of  min f + h + sum g_i(L_i x):  -(grad h(x) + sum L_i^* v_i) in df(x),  L_i x in dg_i^*(v_i) *)
Definition kkt_fb (bs : list pblk) (xs : X) (vs : list Y) : Prop :=
  subgrad X f xs ((- (1)) *' SA bs vs (gradH xs)) /\ dual_ok bs xs vs.

Theorem forward_backward_fixed_point alias bs tau xs vs :
  0 < tau -> Forall pblk_ok bs -> kkt_fb bs xs vs -> FB alias bs tau (xs, vs) = (xs, vs).
Proof.
  intros Ht Hok [Kf Kd]. unfold FB, fb_step. numR. fold (SA bs vs (gradH xs)).
  set (S := SA bs vs (gradH xs)) in *.
  replace (xs +' - tau *' S) with (xs +' tau *' ((- (1)) *' S)) by vec_eq.
  rewrite (prox_fix X f proxF tau xs _ Hf HPf Ht Kf).
  assert (Ey : two *' xs +' - (1) *' (if alias then xs else xs) = xs).
  { unfold two; numR. destruct alias; vec_eq. }
  rewrite Ey. f_equal. apply dual_update_fixed; auto.
Qed.
End Splittings.

(* ====================================================================== *)
(* douglas_rachford_pd: the fixed state that belongs to a primal-dual solution *)
Section DR.
Variables X Y : IPS.
Variable f : cfun X.
Variable proxF : R -> X -> X.
Hypothesis Hf : convex X f.
Hypothesis HPf : prox_of X f proxF.

Notation pblk := (pblk X Y).
Notation mk := (mk X Y).

(* sum_i L_i^* v_i as the code accumulates it in douglas_rachford_pd *)
Definition S0 (bs : list pblk) (vs : list Y) (x : X) : X := sum_adj0 X Y vplus smul (map mk bs) vs x.

(* value of sum_adj as a plain sum *)
Fixpoint adjsum (bs : list pblk) (vs : list Y) : X :=
  match bs, vs with
  | b :: bs', v :: vs' => adj (pA X Y b) v +' adjsum bs' vs'
  | _, _ => vnull
  end.
Lemma sum_adj_eq bs vs acc : sum_adj X Y vplus (map mk bs) vs acc = acc +' adjsum bs vs.
Proof.
  revert vs acc; induction bs as [|b bs IH]; intros [|v vs] acc; cbn [map sum_adj adjsum]; try (symmetry; apply vplus_0_r).
  rewrite IH. cbn [bAt mk]. vec_eq.
Qed.
Lemma S0_eq bs vs x : S0 bs vs x = adjsum bs vs.
Proof.
  unfold S0, sum_adj0. destruct bs as [|b bs]; destruct vs as [|v vs]; cbn [map adjsum];
    try (unfold zeroV_of; numR; apply smul_0).
  rewrite sum_adj_eq. reflexivity.
Qed.

(* the fixed state belonging to a primal-dual solution (xs, vss):
     vh_i = vs_i + sigma_i/2 L_i xh,   xh - tau/2 sum L_i^* vh_i = xs - tau sum L_i^* vs_i *)
Definition vhat (bs : list pblk) (xh : X) (vss : list Y) : list Y :=
  map2 (fun b v => v +' (psig X Y b / 2) *' pA X Y b xh) bs vss.

Lemma adjsum_lin bs ps vs : length ps = length bs -> length vs = length bs ->
  adjsum bs (map2 (fun p v => 2 *' p +' (- (1)) *' v) ps vs) = 2 *' adjsum bs ps +' (- (1)) *' adjsum bs vs.
Proof.
  revert ps vs; induction bs as [|b bs IH]; intros [|p ps] [|v vs] Hp Hv; cbn in Hp, Hv; try discriminate.
  - cbn. vec_eq.
  - cbn [map2 adjsum]. rewrite IH by congruence. vec_eq'.
Qed.
Lemma vhat_length bs xh vss : length vss = length bs -> length (vhat bs xh vss) = length bs.
Proof.
  revert vss; induction bs as [|b bs IH]; intros [|v vs] Hl; cbn in *; try discriminate; auto.
  f_equal. apply IH. congruence.
Qed.

Definition DRstep (bs : list pblk) (tau lam : R) := dr_step X Y vplus smul vplus smul proxF (map mk bs) tau lam.
Definition DRp1 (bs : list pblk) (tau : R) := dr_p1 X Y vplus smul proxF (map mk bs) tau.

Theorem douglas_rachford_fixed_point bs tau lam xs vss xh :
  0 < tau -> Forall (pblk_ok X Y) bs ->
  subgrad X f xs ((- (1)) *' adjsum bs vss) -> dual_ok X Y bs xs vss ->
  xh +' (- (tau / 2)) *' adjsum bs (vhat bs xh vss) = xs +' tau *' ((- (1)) *' adjsum bs vss) ->
  DRp1 bs tau (xh, vhat bs xh vss) = xs /\
  DRstep bs tau lam (xh, vhat bs xh vss) = (xh, vhat bs xh vss).
Proof.
  intros Ht Hok Kf Kd C1.
  assert (Hlen : length vss = length bs) by (clear - Kd; induction Kd; cbn; congruence).
  assert (P1 : DRp1 bs tau (xh, vhat bs xh vss) = xs).
  { unfold DRp1, dr_p1. numR. fold (S0 bs (vhat bs xh vss) xh). rewrite S0_eq.
    unfold two; numR. rewrite C1. apply (prox_fix X f); auto. }
  split; [exact P1|].
  unfold DRstep, dr_step. fold (DRp1 bs tau (xh, vhat bs xh vss)). rewrite P1.
  unfold two; numR.
  set (w1 := 2 *' xs +' - (1) *' xh).
  (* p2 = vss *)
  assert (P2 : map2 (fun b v => bproxGc X Y b (bsigma X Y b) (v +' bsigma X Y b / 2 *' bA X Y b w1))
                    (map mk bs) (vhat bs xh vss) = vss).
  { clear C1 Kf P1 Hlen. unfold vhat. induction Kd as [|b v bs vs Hbv Kd IH]; cbn [map map2]; auto.
    inversion Hok as [|? ? (Hc & Hp & Hs) Hok']; subst. f_equal; [|apply IH; auto].
    cbn [bproxGc bsigma bA mk].
    replace (v +' psig X Y b / 2 *' pA X Y b xh +' psig X Y b / 2 *' pA X Y b w1)
      with (v +' psig X Y b *' pA X Y b xs) by (unfold w1; vec_eq').
    apply (prox_fix Y (pgc X Y b)); auto. }
  rewrite P2.
  fold (S0 bs (map2 (fun p v => 2 *' p +' - (1) *' v) vss (vhat bs xh vss)) xh).
  rewrite S0_eq, adjsum_lin by (auto; apply vhat_length; auto).
  set (a := adjsum bs vss) in *. set (c := adjsum bs (vhat bs xh vss)) in *.
  assert (Z1 : w1 +' - (tau / 2) *' (2 *' a +' - (1) *' c) = xs).
  { unfold w1. apply inner_ext; intro w.
    pose proof (f_equal (fun v => <<v, w>>) C1) as E. cbv beta in E. revert E. inner_expand. intro E.
    lra. }
  rewrite Z1.
  f_equal.
  - vec_eq.
  - replace (2 *' xs +' - (1) *' w1) with xh by (unfold w1; vec_eq).
    clear C1 Kf P1 P2 Z1 a c. unfold vhat.
    revert vss Hlen Kd. induction bs as [|b bs IH]; intros [|v vs] Hlen Kd; cbn in Hlen; try discriminate; auto.
    cbn [map map2]. inversion Kd; subst. inversion Hok; subst. f_equal; [|apply IH; auto].
    cbn [bsigma bA bproxLc mk]. vec_eq.
Qed.
End DR.

