(* C12/ProofsCG.v -- conjugate gradients is exact after dimension-many steps.
   The full Krylov invariant (residuals mutually orthogonal, directions A-conjugate) is
   carried through the loop WITHOUT indices: membership in a span is expressed as
   "whatever is orthogonal to the generators is orthogonal to the member".  Dimension
   enters through orthogonal families: dim_le X n says that among n+1 mutually
   orthogonal vectors one is zero. *)
From Coq Require Import Reals Lra Lia Psatz List Bool.
From Verif Require Import Base.Num C12.Model C12.Space C12.ProofsLin.
Import ListNotations.
Local Open Scope R_scope.

(* iteration with the history of visited states (most recent first) *)
Fixpoint run_hist {S : Type} (step : S -> option S) (n : nat) (hist : list S) (s : S) : list S * S :=
  match n with
  | O => (hist, s)
  | S n' => match step s with None => (hist, s) | Some s' => run_hist step n' (s :: hist) s' end
  end.

Lemma run_hist_inv {S : Type} (step : S -> option S) (Inv : list S -> S -> Prop) :
  (forall hist s s', Inv hist s -> step s = Some s' -> Inv (s :: hist) s') ->
  forall n hist s, Inv hist s -> Inv (fst (run_hist step n hist s)) (snd (run_hist step n hist s)).
Proof.
  intros Hs n; induction n as [|n IH]; intros hist s Hi; cbn [run_hist]; auto.
  destruct (step s) as [s'|] eqn:E; auto.
Qed.
Lemma last_cons {S : Type} (l : list S) a d : last (a :: l) d = last l a.
Proof.
  revert a d; induction l as [|b l IH]; intros a d; [reflexivity|].
  change (last (a :: b :: l) d) with (last (b :: l) d). rewrite !IH. reflexivity.
Qed.
Lemma run_hist_last {S : Type} (step : S -> option S) n : forall hist (s : S),
  snd (run_hist step n hist s) = last (otrace step n s) s.
Proof.
  induction n as [|n IH]; intros hist s; cbn [run_hist otrace]; auto.
  destruct (step s) as [s'|] eqn:E; auto. rewrite IH, last_cons. reflexivity.
Qed.
(* either all n steps were executed, or the loop stopped at the returned state *)
Lemma run_hist_stop {S : Type} (step : S -> option S) n : forall hist (s : S),
  length (fst (run_hist step n hist s)) = (length hist + n)%nat \/ step (snd (run_hist step n hist s)) = None.
Proof.
  induction n as [|n IH]; intros hist s; cbn [run_hist]; [left; cbn; lia|].
  destruct (step s) as [s'|] eqn:E; [|right; exact E].
  destruct (IH (s :: hist) s') as [Hl|Hn]; [left; rewrite Hl; cbn; lia | right; exact Hn].
Qed.

Lemma firstn_In' {T : Type} (l : list T) : forall m u, In u (firstn m l) -> In u l.
Proof.
  induction l as [|a l IH]; intros [|m] u H; cbn [firstn] in H; try contradiction.
  destruct H as [<-|H]; [left; reflexivity | right; eapply IH; eauto].
Qed.
Lemma FOP_firstn {T : Type} (Rel : T -> T -> Prop) (l : list T) : forall m,
  ForallOrdPairs Rel l -> ForallOrdPairs Rel (firstn m l).
Proof.
  induction l as [|a l IH]; intros m H; destruct m; cbn [firstn]; try constructor.
  - inversion H as [|? ? Ha Hl]; subst. apply Forall_forall. intros u Hu. apply firstn_In' in Hu.
    eapply Forall_forall; eauto.
  - inversion H as [|? ? Ha Hl]; subst. apply IH; auto.
Qed.

(* dimension <= n, stated through orthogonal families: among n+1 mutually orthogonal
   vectors one is zero *)
Definition dim_le (X : IPS) (n : nat) : Prop :=
  forall l : list X, length l = S n -> ForallOrdPairs (fun u v => <<u, v>> = 0) l -> exists v, In v l /\ v = vnull.

Section CGorth.
Variable X : IPS.
Variable A : LinOp X X.
Hypothesis Hsym : forall x y : X, <<A x, y>> = <<x, A y>>.
Hypothesis Hdef : forall x : X, <<x, A x>> = 0 -> x = vnull.

Notation st := (@cgst R X).
Notation rS := (cg_r X).
Notation pS := (cg_p X).

(* the full Krylov invariant, phrased without indices: spans are expressed as
   "whatever is orthogonal to the generators is orthogonal to the member" *)
Record krylov (b : X) (hist : list st) (s : st) : Prop := {
  k_res : rS s = b -' A (cg_x X s);
  k_rr : cg_rr X s = nsq (rS s);
  k_rp : <<rS s, pS s>> = nsq (rS s);
  k_z : cg_rr X s = 0 -> pS s = vnull;
  k_s1p : forall h, In h hist -> forall v, (forall g, In g hist -> <<pS g, v>> = 0) -> <<rS h, v>> = 0;
  k_s1c : forall v, (forall g, In g hist -> <<pS g, v>> = 0) -> <<pS s, v>> = 0 -> <<rS s, v>> = 0;
  k_s2 : forall h, In h hist -> forall v, (forall g, In g hist -> <<rS g, v>> = 0) -> <<rS s, v>> = 0 ->
                                       <<A (pS h), v>> = 0;
  k_o1 : forall h, In h hist -> <<pS h, rS s>> = 0;
  k_o2 : forall h, In h hist -> <<pS h, A (pS s)>> = 0;
  k_nz : forall h, In h hist -> rS h <> vnull;
  k_or : ForallOrdPairs (fun u v => <<u, v>> = 0) (rS s :: map rS hist) }.

Lemma krylov_init b x : krylov b [] (CGinit X A b x).
Proof.
  unfold CGinit, cg_init. constructor; cbn [cg_x cg_r cg_p cg_rr].
  - reflexivity.
  - reflexivity.
  - reflexivity.
  - intros Hz. apply nsq_zero_iff. exact Hz.
  - intros h [].
  - intros v _ Hv. exact Hv.
  - intros h [].
  - intros h [].
  - intros h [].
  - intros h [].
  - cbn [map]. constructor; constructor.
Qed.

Lemma krylov_step b hist s s' : krylov b hist s -> CGstep X A s = Some s' -> krylov b (s :: hist) s'.
Proof.
  intros K. unfold CGstep, cg_step. numR.
  destruct s as [x r p rr]. destruct K as [Kres Krr Krp Kz K1p K1c K2 Ko1 Ko2 Knz Kor].
  cbn [cg_x cg_r cg_p cg_rr] in *.
  destruct (Reqb_spec <<p, A p>> 0) as [|Hpd]; [discriminate|].
  intros E; injection E as <-.
  set (pd := <<p, A p>>) in *. set (al := rr / pd).
  assert (Hrr0 : rr <> 0).
  { intro Hz. apply Hpd. unfold pd. rewrite (Kz Hz). lin_expand. apply inner_null_l. }
  assert (Hal : al <> 0).
  { unfold al. intro H0. apply Hrr0. apply Rmult_eq_reg_r with (/ pd); [|apply Rinv_neq_0_compat; auto].
    unfold Rdiv in H0. rewrite H0. ring. }
  set (r' := r +' (- al) *' A p) in *.
  set (be := <<r', r'>> / rr).
  (* new O1: every earlier direction (and p itself) is orthogonal to r' *)
  assert (O1' : forall h, In h ({| cg_x := x; cg_r := r; cg_p := p; cg_rr := rr |} :: hist) -> <<pS h, r'>> = 0).
  { intros h [<-|Hh]; cbn [cg_p]; unfold r'; inner_expand.
    - rewrite (inner_sym p r), Krp, <- Krr. fold pd. unfold al. field. exact Hpd.
    - rewrite (Ko1 h Hh), (Ko2 h Hh). ring. }
  (* all residuals so far are orthogonal to r' *)
  assert (R' : forall g, In g ({| cg_x := x; cg_r := r; cg_p := p; cg_rr := rr |} :: hist) -> <<rS g, r'>> = 0).
  { intros g [<-|Hg]; cbn [cg_r].
    - apply K1c; [intros g Hg; apply (O1' g); right; exact Hg | apply (O1' _ (or_introl eq_refl))].
    - apply (K1p g Hg). intros g' Hg'. apply (O1' g'); right; exact Hg'. }
  assert (Er : <<r, r'>> = 0) by (apply (R' _ (or_introl eq_refl))).
  assert (Hpr : <<p, r'>> = 0) by (apply (O1' _ (or_introl eq_refl))).
  (* A p = (r - r')/al *)
  assert (EAp : A p = (/ al) *' (r -' r')).
  { unfold r'. apply inner_ext; intro w. inner_expand. field. exact Hal. }
  constructor; cbn [cg_x cg_r cg_p cg_rr].
  - fold r'. unfold r'. rewrite Kres. vec_eq'.
  - reflexivity.
  - fold r'. rewrite inner_add_r, inner_scal_r, (inner_sym r' p), Hpr. unfold nsq. ring.
  - fold r'. intros Hz. apply nsq_zero_iff in Hz. fold be.
    assert (Hbe : be = 0) by (unfold be; rewrite Hz, (inner_null_l X vnull); unfold Rdiv; ring).
    rewrite Hbe, Hz. vec_eq.
  - (* S1 for the past (now including s) *)
    intros h [<-|Hh] v Hv; cbn [cg_r].
    + apply K1c; [intros g Hg; apply Hv; right; exact Hg | apply (Hv _ (or_introl eq_refl))].
    + apply (K1p h Hh). intros g Hg. apply Hv; right; exact Hg.
  - (* S1 for the new current state: r' = p' - be p *)
    fold r'. intros v Hv Hp'. fold be in Hp'.
    pose proof (Hv _ (or_introl eq_refl)) as Hpv. cbn [cg_p] in Hpv.
    revert Hp'. inner_expand. rewrite Hpv. intros Hp'. lra.
  - (* S2 for the past (now including s) *)
    fold r'. intros h [<-|Hh] v Hv Hr'v; cbn [cg_p].
    + rewrite EAp. inner_expand. pose proof (Hv _ (or_introl eq_refl)) as H0. cbn [cg_r] in H0. rewrite H0, Hr'v. ring.
    + apply (K2 h Hh); [intros g Hg; apply Hv; right; exact Hg | apply (Hv _ (or_introl eq_refl))].
  - fold r'. exact O1'.
  - (* new O2: conjugacy *)
    fold r'. fold be. intros h Hh. lin_expand. inner_expand. rewrite <- (Hsym (pS h) r').
    destruct Hh as [<-|Hh]; cbn [cg_p].
    + assert (H1 : <<A p, r'>> = - <<r', r'>> / al).
      { rewrite EAp. inner_expand. rewrite Er. field. exact Hal. }
      rewrite H1. fold pd. unfold be, al. field. split; auto.
    + rewrite (Ko2 h Hh).
      rewrite (K2 h Hh r'); [ring | intros g Hg; apply R'; right; exact Hg | exact Er].
  - intros h [<-|Hh]; cbn [cg_r]; [|apply Knz; exact Hh].
    intro Hz. apply Hrr0. rewrite Krr, Hz. apply nsq_null.
  - fold r'. cbn [map cg_r]. constructor; [|exact Kor].
    apply Forall_forall. intros u Hu. rewrite inner_sym.
    destruct Hu as [<-|Hu]; [exact Er|].
    apply in_map_iff in Hu. destruct Hu as (g & <- & Hg). apply R'. right; exact Hg.
Qed.

(* a state whose residual vanishes carries the solution *)
Lemma residual_zero_exact b xs (s : st) : A xs = b -> rS s = b -' A (cg_x X s) -> rS s = vnull -> cg_x X s = xs.
Proof.
  intros Hxs Hr Hz. apply sub_eq. apply Hdef.
  assert (E : A (cg_x X s -' xs) = (- (1)) *' rS s) by (rewrite Hr, <- Hxs; vec_eq').
  rewrite E, Hz. inner_expand. ring.
Qed.

(* conjugate gradients is exact after dimension-many steps *)
Theorem cg_exact_after_dim n b xs x k :
  dim_le X n -> A xs = b -> (n <= k)%nat ->
  cg_x X (last (CGrun X A b x k) (CGinit X A b x)) = xs.
Proof.
  intros Hdim Hxs Hk. unfold CGrun, cg_run. fold (CGinit X A b x).
  pose proof (krylov_init b x) as K0.
  numR. destruct (Reqb_spec (cg_rr X (CGinit X A b x)) 0) as [Hz|Hnz].
  - (* start is already exact *)
    cbn [last]. apply (residual_zero_exact b xs _ Hxs (k_res _ _ _ K0)).
    apply nsq_zero_iff. rewrite <- (k_rr _ _ _ K0). exact Hz.
  - fold (CGstep X A). rewrite <- (run_hist_last (CGstep X A) k []).
    pose proof (run_hist_inv (CGstep X A) (krylov b) (krylov_step b) k [] _ K0) as K.
    set (hs := run_hist (CGstep X A) k [] (CGinit X A b x)) in *.
    apply (residual_zero_exact b xs _ Hxs (k_res _ _ _ K)).
    destruct (run_hist_stop (CGstep X A) k [] (CGinit X A b x)) as [Hl|Hn]; fold hs in Hl || fold hs in Hn.
    + (* k >= n steps executed: k+1 mutually orthogonal residuals, the earlier ones non-zero *)
      cbn [length] in Hl.
      set (l := rS (snd hs) :: map rS (fst hs)).
      assert (Hlen : (S n <= length l)%nat) by (unfold l; cbn [length]; rewrite map_length, Hl; lia).
      (* take the first n+1 of them (the current residual is among them) *)
      pose proof (k_or _ _ _ K) as Hor. fold l in Hor.
      assert (Hf : ForallOrdPairs (fun u v => <<u, v>> = 0) (firstn (S n) l)) by (apply FOP_firstn; exact Hor).
      destruct (Hdim (firstn (S n) l)) as (v & Hin & Hv0); auto.
      { rewrite firstn_length. lia. }
      unfold l in Hin. cbn [firstn] in Hin. destruct Hin as [<-|Hin]; [exact Hv0|].
      exfalso. apply firstn_In' in Hin. apply in_map_iff in Hin. destruct Hin as (g & Hg & Hgin).
      apply (k_nz _ _ _ K g Hgin). rewrite Hg. exact Hv0.
    + (* stopped early: <p, A p> = 0, hence p = 0, hence |r|^2 = <r, p> = 0 *)
      revert Hn. unfold CGstep, cg_step. numR.
      destruct (Reqb_spec <<pS (snd hs), A (pS (snd hs))>> 0) as [Hpd|]; [|discriminate]. intros _.
      apply Hdef in Hpd. apply nsq_zero_iff. rewrite <- (k_rp _ _ _ K), Hpd. apply inner_null_r.
Qed.
End CGorth.
