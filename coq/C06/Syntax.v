(* C06/Syntax.v -- the syntax the translator of odl/ufunc_ops/ufunc_ops.py
   (derivative_factory, gradient_factory, LINEAR_UFUNCS) emits into
   Gen/UfuncDeriv.v (hand-written, fixed). *)
From Coq Require Import ZArith QArith List Bool.
Import ListNotations.

(* one-argument ufuncs known to the model; constructor = U ++ numpy name *)
Inductive ufn :=
| Usin | Ucos | Utan | Usqrt | Usquare | Ulog | Uexp | Ureciprocal | Usinh | Ucosh
| Unegative | Urad2deg | Udeg2rad
| Uabsolute | Usign | Utanh | Uarcsin | Uarccos | Uarctan | Uarcsinh | Uarccosh | Uarctanh
| Uexp2 | Uexpm1 | Ulog2 | Ulog10 | Ulog1p.

Definition ufn_eqb (a b : ufn) : bool :=
  match a, b with
  | Usin, Usin | Ucos, Ucos | Utan, Utan | Usqrt, Usqrt | Usquare, Usquare | Ulog, Ulog
  | Uexp, Uexp | Ureciprocal, Ureciprocal | Usinh, Usinh | Ucosh, Ucosh
  | Unegative, Unegative | Urad2deg, Urad2deg | Udeg2rad, Udeg2rad
  | Uabsolute, Uabsolute | Usign, Usign | Utanh, Utanh | Uarcsin, Uarcsin | Uarccos, Uarccos
  | Uarctan, Uarctan | Uarcsinh, Uarcsinh | Uarccosh, Uarccosh | Uarctanh, Uarctanh
  | Uexp2, Uexp2 | Uexpm1, Uexpm1 | Ulog2, Ulog2 | Ulog10, Ulog10 | Ulog1p, Ulog1p => true
  | _, _ => false
  end.

(* the multiplicand of the derivative, as an expression in the scalar `point`
   (all ufuncs act entry-wise, so this is the per-entry formula) *)
Inductive uex :=
| UPoint
| UApp (f : ufn) (e : uex)           (* f applied entry-wise *)
| UK (c : Q)
| UAdd (a b : uex) | USub (a b : uex) | UMul (a b : uex) | UDiv (a b : uex)
| UNeg (a : uex)
| UPow (a : uex) (n : positive).
