(* C06/Syntax.v -- the syntax the translator of odl/ufunc_ops/ufunc_ops.py
   (derivative_factory, gradient_factory, LINEAR_UFUNCS) emits into
   Gen/UfuncDeriv.v (hand-written, fixed). *)
From Coq Require Import ZArith QArith List Bool.
Import ListNotations.

(* one-argument ufuncs known to the model; constructor = U ++ numpy name *)
Inductive ufn :=
| Usin | Ucos | Utan | Usqrt | Usquare | Ulog | Uexp | Ureciprocal | Usinh | Ucosh
| Unegative | Urad2deg | Udeg2rad
| Uabsolute | Usign | Utanh | Uarcsin | Uarccos | Uarctan | Uarcsinh | Uarccosh | Uarctanh
| Uexp2 | Uexpm1 | Ulog2 | Ulog10 | Ulog1p.

Definition ufn_eqb (a b : ufn) : bool :=
  match a, b with
  | Usin, Usin | Ucos, Ucos | Utan, Utan | Usqrt, Usqrt | Usquare, Usquare | Ulog, Ulog
  | Uexp, Uexp | Ureciprocal, Ureciprocal | Usinh, Usinh | Ucosh, Ucosh
  | Unegative, Unegative | Urad2deg, Urad2deg | Udeg2rad, Udeg2rad
  | Uabsolute, Uabsolute | Usign, Usign | Utanh, Utanh | Uarcsin, Uarcsin | Uarccos, Uarccos
  | Uarctan, Uarctan | Uarcsinh, Uarcsinh | Uarccosh, Uarccosh | Uarctanh, Uarctanh
  | Uexp2, Uexp2 | Uexpm1, Uexpm1 | Ulog2, Ulog2 | Ulog10, Ulog10 | Ulog1p, Ulog1p => true
  | _, _ => false
  end.

(* the multiplicand of the derivative, as an expression in the scalar `point`
   (all ufuncs act entry-wise, so this is the per-entry formula) *)
Inductive uex :=
| UPoint
| UApp (f : ufn) (e : uex)           (* f applied entry-wise *)
| UK (c : Q)
| UAdd (a b : uex) | USub (a b : uex) | UMul (a b : uex) | UDiv (a b : uex)
| UNeg (a : uex)
| UPow (a : uex) (n : positive).

(* ---------------------------------------------------------------------------
   Syntax of the REGENERATED derivative rules (Gen/Derivatives.v, emitted by
   translate/derivatives.py from odl/operator/operator.py, pspace_ops.py,
   default_ops.py): each `derivative(self, x)` body as an expression over the
   fields of `self`. *)
Inductive dsub := SLeft | SRight | SOperator | SFunctional.      (* self.left ... *)
Inductive dpt :=
| PX                      (* x *)
| PAt (s : dsub)          (* self.<s>(x) *)
| PScalX                  (* self.scalar * x *)
| PVecX.                  (* self.vector * x *)
Inductive dcond := CSelfLin | CSubLin (s : dsub).                (* self.is_linear, self.<s>.is_linear *)
Inductive dctor2 := KSum | KComp.                                (* OperatorSum(a, b, ..), OperatorComp(a, b, ..) *)
Inductive dex :=
| DSelf                                  (* self *)
| DSub (s : dsub)                        (* self.<s> *)
| DDeriv (s : dsub) (p : dpt)            (* self.<s>.derivative(<p>) *)
| DCtor2 (k : dctor2) (a b : dex)
| DFLVec (a : dex)                       (* FunctionalLeftVectorMult(a, self.vector) *)
| DScalMul (e : dex)                     (* self.scalar * e *)
| DMulScal (e : dex)                     (* e * self.scalar *)
| DVecMul (e : dex)                      (* self.vector * e *)
| DMulVec (e : dex)                      (* e * self.vector *)
| DValMul (s : dsub) (e : dex)           (* self.<s>(x) * e *)
| DAdd (a b : dex)                       (* a + b *)
| DIf (c : dcond) (t e : dex).           (* if c: t  else: e *)

(* the `linear=` argument handed to Operator.__init__ *)
Inductive linex := LinBoth (a b : dsub) | LinOf (s : dsub) | LinFalse.

Inductive oclass := CSum | CVecSum | CComp | CPProd | CLScal | CRScal | CFLVec | CLVec | CRVec.

(* block operators: which part of the point each operand is differentiated at *)
Inductive bpt :=
| BSame                   (* op.derivative(x) for op in self.operators *)
| BZip                    (* op.derivative(xi) for op, xi in zip(self.operators, x) *)
| BCol.                   (* op.derivative(x[col]) for op, col in zip(self.ops.data, self.ops.col) *)
Record brule := { b_linself : bool;     (* `if self.is_linear: return self` first *)
                  b_pt : bpt }.
Inductive bclass := CBroadcast | CReduction | CDiagonal | CPSO.

(* leaf operators of default_ops.py with a closed-form derivative *)
Inductive lnex := LNNorm | LNDist.       (* point.norm(),  self.vector.dist(point) *)
Inductive lvex :=
| LVPoint                                (* point *)
| LVDiff                                 (* point - self.vector *)
| LVPowM1                                (* point ** (self.exponent - 1) *)
| LVDiv (v : lvex) (n : lnex).           (* v / n *)
Inductive lrule :=
| LRSelf                                 (* return self *)
| LRLinSelfElseRaise                     (* Operator.derivative: self if linear, else raise *)
| LRZero                                 (* ZeroOperator(domain=self.domain, range=self.range) *)
| LRExpMultiply (v : lvex)               (* self.exponent * MultiplyOperator(v, domain=.., range=..) *)
| LRInner (n : lnex) (v : lvex).         (* if n == 0: raise ValueError ; InnerProductOperator(v) *)
Inductive lclass := KPower | KNorm | KDist | KConstant | KRealPart | KImagPart | KBase.

(* ---------------------------------------------------------------------------
   Syntax of the REGENERATED gradient rules of the functional arithmetic
   (Gen/Gradients.v, emitted by translate/gradients.py from
   odl/solvers/functional/functional.py): each `gradient` property as an
   operator expression over the fields of `self`, resp. the `_call(self, x)` of
   the locally defined gradient class as a value expression. *)
Inductive gsub := GLeft | GRight | GFunctional | GOperator | GDividend | GDivisor.
Inductive kex :=                        (* scalar factors in _call bodies *)
| KVal (s : gsub)                       (* func.<s>(x) *)
| KInvVal (s : gsub)                    (* 1 / <s>x *)
| KNegOverSq (a b : gsub).              (* -<a>x / <b>x ** 2 *)
Inductive gop :=
| GGrad (s : gsub)                      (* self.<s>.gradient  (as an operator; in a _call: .gradient(x)) *)
| GScalL (e : gop)                      (* self.scalar * e *)
| GScalR (e : gop)                      (* e * self.scalar *)
| GVecL (e : gop)                       (* self.vector * e *)
| GVecR (e : gop)                       (* e * self.vector *)
| GAdd (a b : gop)                      (* a + b *)
| GShift (e : gop)                      (* e * (IdentityOperator(self.domain) - self.translation) *)
| GTwoQuadId                            (* 2 * self.quadratic_coeff * IdentityOperator(self.domain) *)
| GConstLinTerm                         (* ConstantOperator(self.linear_term) *)
| GKMul (k : kex) (e : gop)             (* k * e   (value level) *)
| GAdjDeriv (f op : gsub).              (* op.derivative(x).adjoint(func.gradient(op(x))) *)
Inductive fclass := FCLScal | FCRScal | FCComp | FCRVec | FCSum | FCTransl | FCQP | FCProd | FCQuot.
