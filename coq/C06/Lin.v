(* C06/Lin.v -- bounded linear maps list R -> list R and their closure rules. *)
From Coq Require Import Reals Lra Lia List Bool.
From Verif Require Import Base.Num Base.Vec Base.VecR C06.Calc.
Import ListNotations.
Local Open Scope R_scope.

(* ---------- list algebra ---------- *)
Lemma vscal_vadd c (a b : Rvec) : vscal c (vadd a b) = vadd (vscal c a) (vscal c b).
Proof.
  revert b; induction a as [|u a IH]; intros [|v b]; cbn; try reflexivity.
  unfold vadd, vscal in *; cbn. rewrite IH. f_equal. numR; ring.
Qed.
Lemma vmul_vadd_l (a b v : Rvec) : vmul (vadd a b) v = vadd (vmul a v) (vmul b v).
Proof.
  revert b v; induction a as [|u a IH]; intros [|w b] [|z v]; cbn; try reflexivity.
  unfold vadd, vmul in *; cbn. rewrite IH. f_equal. numR; ring.
Qed.
Lemma vmul_vscal_l c (a v : Rvec) : vmul (vscal c a) v = vscal c (vmul a v).
Proof.
  revert v; induction a as [|u a IH]; intros [|z v]; cbn; try reflexivity.
  unfold vscal, vmul in *; cbn. rewrite IH. f_equal. numR; ring.
Qed.
Lemma vadd_zero_r n (a : Rvec) : length a = n -> vadd a (vconst n 0) = a.
Proof.
  revert a; induction n as [|n IH]; intros [|u a] Ha; cbn in *; try lia; try reflexivity.
  unfold vadd, vconst in *; cbn. rewrite IH by lia. f_equal. numR; ring.
Qed.
Lemma vadd_zeros n : vadd (vconst n 0) (vconst n 0) = vconst n 0.
Proof. apply vadd_zero_r. apply vconst_len. Qed.
Lemma vscal_zeros c n : vscal c (vconst n 0) = vconst n 0.
Proof.
  induction n as [|n IH]; [reflexivity|]. unfold vscal, vconst in *. cbn [repeat map]. rewrite IH. f_equal. numR; ring.
Qed.
Lemma dot_vscal_l' c (a v : Rvec) : dot (vscal c a) v = c * dot a v.
Proof. apply dot_vscal_l. Qed.
Lemma mvec_vadd (rows : list Rvec) n (a b : Rvec) :
  (forall r, In r rows -> length r = n) -> length a = n -> length b = n ->
  mvec rows (vadd a b) = vadd (mvec rows a) (mvec rows b).
Proof.
  intros Hr Ha Hb. induction rows as [|r rows IH]; [reflexivity|].
  unfold mvec, vadd in *. cbn [map vmap2]. rewrite IH by (intros r' Hin; apply Hr; right; exact Hin).
  f_equal. rewrite !(dot_comm r).
  assert (length r = n) by (apply Hr; left; reflexivity).
  apply dot_vadd_l; lia.
Qed.
Lemma mvec_vscal (rows : list Rvec) c (a : Rvec) : mvec rows (vscal c a) = vscal c (mvec rows a).
Proof.
  induction rows as [|r rows IH]; [reflexivity|].
  unfold mvec, vscal in *. cbn [map]. rewrite IH. f_equal.
  rewrite (dot_comm r), (dot_comm r a). apply dot_vscal_l.
Qed.

(* ---------- bounded linear maps ---------- *)
Definition blin (n m : nat) (L : Rvec -> Rvec) : Prop :=
  (forall d, length d = n -> length (L d) = m) /\
  (forall a b, length a = n -> length b = n -> L (vadd a b) = vadd (L a) (L b)) /\
  (forall c a, length a = n -> L (vscal c a) = vscal c (L a)) /\
  (forall y, length y = n -> hdiff n m L y L).

Ltac bsplit := split; [|split; [|split]].

Lemma blin_len n m L d : blin n m L -> length d = n -> length (L d) = m.
Proof. intros (H & _); apply H. Qed.
Lemma blin_hdiff n m L y : blin n m L -> length y = n -> hdiff n m L y L.
Proof. intros (_ & _ & _ & H); apply H. Qed.
Lemma blin_ext n m L L' : (forall d, L d = L' d) -> blin n m L -> blin n m L'.
Proof.
  intros He (Hl & Ha & Hs & Hd). bsplit.
  - intros d Hd'; rewrite <- He; apply Hl; exact Hd'.
  - intros a b Hx Hy; rewrite <- !He; apply Ha; assumption.
  - intros c a Hx; rewrite <- !He; apply Hs; assumption.
  - intros y Hy. eapply hdiff_ext; [exact He|exact He|apply Hd; exact Hy].
Qed.

Lemma blin_id n : blin n n (fun d => d).
Proof. bsplit; auto. intros y _. apply hdiff_id. Qed.

Lemma blin_scale n c : blin n n (vscal c).
Proof.
  bsplit.
  - intros d Hd; rewrite vscal_len; exact Hd.
  - intros a b _ _; apply vscal_vadd.
  - intros c' a _. rewrite !vscal_vscal. f_equal. ring.
  - intros y _ g d Hc. apply curve_scal; exact Hc.
Qed.

Lemma blin_mulv n v : length v = n -> blin n n (fun d => vmul d v).
Proof.
  intros Hv. bsplit.
  - intros d Hd. unfold vmul; apply vmap2_len; assumption.
  - intros a b _ _; apply vmul_vadd_l.
  - intros c a _; apply vmul_vscal_l.
  - intros y _ g d Hc. apply curve_mul_const; assumption.
Qed.

Lemma blin_mvec n (rows : list Rvec) :
  (forall r, In r rows -> length r = n) -> blin n (length rows) (mvec rows).
Proof.
  intros Hr. bsplit.
  - intros d _; apply mvec_len.
  - intros a b Ha Hb; apply (mvec_vadd rows n); assumption.
  - intros c a _; apply mvec_vscal.
  - intros y _ g d Hc. apply (curve_mvec n); assumption.
Qed.

Lemma blin_dot n v : length v = n -> blin n 1 (fun d => [dot d v]).
Proof.
  intros Hv. bsplit.
  - intros d _; reflexivity.
  - intros a b Ha Hb. unfold vadd at 2; cbn. f_equal. apply dot_vadd_l; lia.
  - intros c a _. unfold vscal at 2; cbn. f_equal. apply dot_vscal_l.
  - intros y _ g d Hc. apply (curve_dot n); assumption.
Qed.

Lemma blin_zero n m : blin n m (fun _ => vconst m 0).
Proof.
  bsplit.
  - intros d _; apply vconst_len.
  - intros a b _ _; symmetry; apply vadd_zeros.
  - intros c a _; symmetry; apply vscal_zeros.
  - intros y _. apply hdiff_const. apply vconst_len.
Qed.

Lemma blin_add n m L1 L2 : blin n m L1 -> blin n m L2 -> blin n m (fun d => vadd (L1 d) (L2 d)).
Proof.
  intros (Al & Aa & As & Ad) (Bl & Ba & Bs & Bd). bsplit.
  - intros d Hd. unfold vadd; apply vmap2_len; auto.
  - intros a b Ha Hb. rewrite Aa, Ba by assumption.
    apply nth_ext0.
    + unfold vadd. rewrite !(vmap2_len _ _ _ m); auto; apply vmap2_len; auto.
    + intros i Hi. unfold vadd in *.
      assert (Hm : (i < m)%nat).
      { rewrite (vmap2_len _ _ _ m) in Hi; auto; apply vmap2_len; auto. }
      assert (E : forall u w : Rvec, length u = m -> length w = m -> nth i (vmap2 nadd u w) 0 = nth i u 0 + nth i w 0).
      { intros u w Hu Hw. rewrite nth_vmap2 by lia. reflexivity. }
      rewrite !E; auto; try (apply vmap2_len; auto). ring.
  - intros c a Ha. rewrite As, Bs by assumption. symmetry; apply vscal_vadd.
  - intros y Hy. apply hdiff_add; auto.
Qed.

Lemma blin_comp n k m L1 L2 : blin n k L2 -> blin k m L1 -> blin n m (fun d => L1 (L2 d)).
Proof.
  intros (Bl & Ba & Bs & Bd) (Al & Aa & As & Ad). bsplit.
  - intros d Hd. apply Al, Bl, Hd.
  - intros a b Ha Hb. rewrite Ba by assumption. apply Aa; apply Bl; assumption.
  - intros c a Ha. rewrite Bs by assumption. apply As; apply Bl; assumption.
  - intros y Hy. apply (hdiff_comp n k m); [apply Bd; exact Hy|apply Ad; apply Bl; exact Hy].
Qed.

(* d |-> hd (L d) * v   for scalar-valued L *)
Lemma blin_outer m v : length v = m -> blin 1 m (fun y => vscal (hd 0 y) v).
Proof.
  intros Hv. bsplit.
  - intros d _; rewrite vscal_len; exact Hv.
  - intros [|a [|? ?]] [|b [|? ?]] Ha Hb; cbn in Ha, Hb; try lia. cbn [vadd vmap2 hd].
    apply nth_ext0.
    + unfold vadd. rewrite (vmap2_len _ _ _ m); rewrite ?vscal_len; auto.
    + intros i Hi. rewrite vscal_len in Hi. unfold vadd. rewrite nth_vmap2; rewrite ?vscal_len; try lia.
      rewrite !nth_vscal. numR. ring.
  - intros c [|a [|? ?]] Ha; cbn in Ha; try lia. cbn [vscal map hd]. rewrite vscal_vscal. reflexivity.
  - intros y Hy g d (A0 & Ad & Al & Ader). repeat split.
    + rewrite A0; reflexivity.
    + rewrite vscal_len; exact Hv.
    + intros t; rewrite vscal_len; exact Hv.
    + intros i Hi. rewrite nth_vscal.
      apply (dpl_ext (fun t => nth 0 (g t) 0 * nth i v 0)).
      * intros t. rewrite nth_vscal. specialize (Al t). destruct (g t); [cbn in Al; lia|reflexivity].
      * apply (dpl_eq _ _ (nth 0 d 0 * nth i v 0 + nth 0 (g 0) 0 * 0)).
        { destruct d; [cbn in Ad; lia|]. cbn. ring. }
        apply (derivable_pt_lim_mult (fun t => nth 0 (g t) 0) (fun _ => nth i v 0));
          [apply Ader; lia|apply derivable_pt_lim_const].
Qed.
