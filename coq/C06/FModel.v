(* C06/FModel.v -- functionals: Functional.derivative(x) = <gradient(x), .>
   (odl/solvers/functional/functional.py).  Executable definitions only.

   Functionals on rn(n) / uniform_discr with weighting w (array of per-entry
   weights; <x, y> = sum_i w_i x_i y_i) and the gradient RULES of the functional
   arithmetic at value level: [feval w f x] is f(x), [fgrad w f x] is the element
   f.gradient(x); Functional.derivative(x) is InnerProductOperator(fgrad w f x),
   i.e. d |-> <d, fgrad w f x>_w. *)
From Coq Require Import ZArith QArith List Bool.
From Verif Require Import Base.Num Base.Vec.
Import ListNotations.
Local Open Scope num_scope.

Section FModel.
Context {T : Type} `{Num T}.
Variable rt : T -> T.       (* square root *)
(* variant switch, measured on the code at run time (both values are proved sound under [fok]):
   mav: MatrixOperator.adjoint is the true adjoint  W^-1 M^T W'  between weighted spaces (the repair
        asked of C05) instead of the plain transpose (current source) *)
Variable mav : bool.

(* RosenbrockFunctional(space, scale=c):  sum_i c (x_{i+1} - x_i^2)^2 + (x_i - 1)^2  and the vector of
   its partial derivatives (the gradient divides it by the weights of the space: `out /= _weights()`) *)
Fixpoint rosen (c : T) (x : list T) : T :=
  match x with
  | a :: ((b :: _) as r) => c * ((b - a * a) * (b - a * a)) + (a - none_) * (a - none_) + rosen c r
  | _ => nzero
  end.
Definition addhd (u : T) (l : list T) : list T :=
  match l with h :: r => (h + u) :: r | [] => [] end.
Fixpoint rgrad (c : T) (x : list T) : list T :=
  match x with
  | a :: ((b :: _) as r) =>
      let t := b - a * a in
      (- (of_Z 4 * c * t * a) + of_Z 2 * (a - none_)) :: addhd (of_Z 2 * c * t) (rgrad c r)
  | [_] => [nzero]
  | [] => []
  end.

Inductive fexpr :=
| FRosen (n : nat) (c : T)                 (* RosenbrockFunctional(rn(n), scale=c), n >= 2 *)
| FL2Sq (n : nat)                          (* L2NormSquared(rn(n)) *)
| FL2 (n : nat)                            (* L2Norm *)
| FL1 (n : nat)                            (* L1Norm *)
| FConst (n : nat) (c : T)                 (* ConstantFunctional / ZeroFunctional (c = 0) *)
| FLScal (f : fexpr) (s : T)               (* FunctionalLeftScalarMult:   s * f(x) *)
| FRScal (f : fexpr) (s : T)               (* FunctionalRightScalarMult:  f(s * x) *)
| FSum (f g : fexpr)                       (* FunctionalSum *)
| FScalarSum (f : fexpr) (c : T)           (* FunctionalScalarSum = FunctionalSum(f, Constant c) *)
| FTransl (f : fexpr) (t : list T)         (* FunctionalTranslation:  f(x - t) *)
| FQP (f : fexpr) (a : T) (u : list T) (c : T)   (* FunctionalQuadraticPerturb: f(x) + a<x,x> + <x,u> + c *)
| FProd (f g : fexpr)                      (* FunctionalProduct *)
| FQuot (f g : fexpr)                      (* FunctionalQuotient *)
| FRVec (f : fexpr) (v : list T)           (* FunctionalRightVectorMult:  f(v * x) *)
| FCompM (f : fexpr) (w' : list T) (n : nat) (rows : list (list T)).
    (* FunctionalComp(f, MatrixOperator(rows)) on rn(n); w' = weights of the matrix operator's range *)

Fixpoint fdim (f : fexpr) : nat :=
  match f with
  | FL2Sq n | FL2 n | FL1 n | FConst n _ | FRosen n _ => n
  | FLScal f _ | FRScal f _ | FSum f _ | FScalarSum f _ | FTransl f _ | FQP f _ _ _
  | FProd f _ | FQuot f _ | FRVec f _ => fdim f
  | FCompM _ _ n _ => n
  end.

Fixpoint fwt (f : fexpr) : bool :=
  match f with
  | FRosen n _ => Nat.leb 2 n
  | FL2Sq _ | FL2 _ | FL1 _ | FConst _ _ => true
  | FLScal f _ | FRScal f _ | FScalarSum f _ => fwt f
  | FSum f g | FProd f g | FQuot f g => fwt f && fwt g && Nat.eqb (fdim f) (fdim g)
  | FTransl f t => fwt f && Nat.eqb (length t) (fdim f)
  | FQP f _ u _ => fwt f && Nat.eqb (length u) (fdim f)
  | FRVec f v => fwt f && Nat.eqb (length v) (fdim f)
  | FCompM f w' n rows =>
      fwt f && Nat.eqb (length rows) (fdim f) && forallb (fun r => Nat.eqb (length r) n) rows
      && Nat.eqb (length w') (fdim f)
  end.
(* the gradient of a composition uses op.derivative(x).adjoint, which for MatrixOperator is the plain
   transpose: a true adjoint only between unweighted spaces (recorded finding otherwise) *)
Definition all_one (w : list T) : bool := forallb (fun a => a =? none_) w.
Definition all_nz (w : list T) : bool := forallb (fun a => negb (a =? nzero)) w.
Fixpoint fok (w : list T) (f : fexpr) : bool :=
  match f with
  | FRosen _ _ => all_nz w        (* partial derivatives / weights: weights must be non-zero *)
  | FL2Sq _ | FL2 _ | FL1 _ | FConst _ _ => true
  | FLScal f _ | FRScal f _ | FScalarSum f _ | FTransl f _ | FQP f _ _ _ | FRVec f _ => fok w f
  | FSum f g | FProd f g | FQuot f g => fok w f && fok w g
  | FCompM f w' _ _ => ((mav && all_nz w) || (all_one w && all_one w')) && fok w' f
  end.

Fixpoint feval (w : list T) (f : fexpr) (x : list T) : T :=
  match f with
  | FRosen _ c => rosen c x
  | FL2Sq _ => wdot w x x
  | FL2 _ => rt (wdot w x x)
  | FL1 _ => sumf (vmul w (map nabs x))          (* |x|.inner(one) *)
  | FConst _ c => c
  | FLScal f s => s * feval w f x
  | FRScal f s => feval w f (vscal s x)
  | FSum f g => feval w f x + feval w g x
  | FScalarSum f c => feval w f x + c
  | FTransl f t => feval w f (vsub x t)
  | FQP f a u c => feval w f x + a * wdot w x x + wdot w x u + c
  | FProd f g => feval w f x * feval w g x
  | FQuot f g => feval w f x / feval w g x
  | FRVec f v => feval w f (vmul x v)
  | FCompM f w' _ rows => feval w' f (mvec rows x)
  end.

(* M^T g  written as  sum_i g_i * row_i *)
Fixpoint mtvec (n : nat) (rows : list (list T)) (g : list T) : list T :=
  match rows, g with
  | r :: rows', gi :: g' => vadd (vscal gi r) (mtvec n rows' g')
  | _, _ => vconst n nzero
  end.

(* the element f.gradient(x) *)
Fixpoint fgrad (w : list T) (f : fexpr) (x : list T) : list T :=
  match f with
  | FRosen _ c => vdiv (rgrad c x) w
  | FL2Sq _ => vscal (of_Z 2) x                                   (* ScalingOperator(2) *)
  | FL2 _ => let nrm := rt (wdot w x x) in
             if nrm =? nzero then vconst (length x) nzero else map (fun a => a / nrm) x
  | FL1 _ => map nsign x
  | FConst n _ => vconst n nzero                                  (* ZeroOperator *)
  | FLScal f s => vscal s (fgrad w f x)                           (* s * f.gradient *)
  | FRScal f s => vscal s (fgrad w f (vscal s x))                 (* s * f.gradient * s *)
  | FSum f g => vadd (fgrad w f x) (fgrad w g x)
  | FScalarSum f _ => vadd (fgrad w f x) (vconst (fdim f) nzero)
  | FTransl f t => fgrad w f (vsub x t)                           (* f.gradient * (I - t) *)
  | FQP f a u _ => vadd (vadd (fgrad w f x) (vscal (of_Z 2 * a) x)) u   (* f.gradient + 2a I + Const(u) *)
  | FProd f g => vadd (vscal (feval w g x) (fgrad w f x)) (vscal (feval w f x) (fgrad w g x))
  | FQuot f g =>
      let fx := feval w f x in let gx := feval w g x in
      vadd (vscal (none_ / gx) (fgrad w f x)) (vscal (- fx / (gx * gx)) (fgrad w g x))
  | FRVec f v => vmul v (fgrad w f (vmul x v))                    (* v * f.gradient * v *)
  | FCompM f w' n rows =>                                        (* op'(x)^* (f.gradient(op x)) *)
      let g := fgrad w' f (mvec rows x) in
      if mav then vdiv (mtvec n rows (vmul w' g)) w else mtvec n rows g
  end.

End FModel.

Arguments FRosen {T}. Arguments FL2Sq {T}. Arguments FL2 {T}. Arguments FL1 {T}. Arguments FConst {T}.
Arguments FLScal {T}. Arguments FRScal {T}. Arguments FSum {T}. Arguments FScalarSum {T}.
Arguments FTransl {T}. Arguments FQP {T}. Arguments FProd {T}. Arguments FQuot {T}.
Arguments FRVec {T}. Arguments FCompM {T}.
