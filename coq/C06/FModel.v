(* C06/FModel.v -- functionals: Functional.derivative(x) = <gradient(x), .>
   (odl/solvers/functional/functional.py).  Executable definitions only.

   Functionals on (unweighted) rn(n) with the gradient RULES of the functional
   arithmetic at value level: [feval f x] is f(x), [fgrad f x] is the element
   f.gradient(x); Functional.derivative(x) is InnerProductOperator(fgrad f x). *)
From Coq Require Import ZArith QArith List Bool.
From Verif Require Import Base.Num Base.Vec.
Import ListNotations.
Local Open Scope num_scope.

Section FModel.
Context {T : Type} `{Num T}.
Variable rt : T -> T.       (* square root *)

Inductive fexpr :=
| FL2Sq (n : nat)                          (* L2NormSquared(rn(n)) *)
| FL2 (n : nat)                            (* L2Norm *)
| FL1 (n : nat)                            (* L1Norm *)
| FConst (n : nat) (c : T)                 (* ConstantFunctional / ZeroFunctional (c = 0) *)
| FLScal (f : fexpr) (s : T)               (* FunctionalLeftScalarMult:   s * f(x) *)
| FRScal (f : fexpr) (s : T)               (* FunctionalRightScalarMult:  f(s * x) *)
| FSum (f g : fexpr)                       (* FunctionalSum *)
| FScalarSum (f : fexpr) (c : T)           (* FunctionalScalarSum = FunctionalSum(f, Constant c) *)
| FTransl (f : fexpr) (t : list T)         (* FunctionalTranslation:  f(x - t) *)
| FQP (f : fexpr) (a : T) (u : list T) (c : T)   (* FunctionalQuadraticPerturb: f(x) + a<x,x> + <x,u> + c *)
| FProd (f g : fexpr)                      (* FunctionalProduct *)
| FQuot (f g : fexpr)                      (* FunctionalQuotient *)
| FRVec (f : fexpr) (v : list T)           (* FunctionalRightVectorMult:  f(v * x) *)
| FCompM (f : fexpr) (n : nat) (rows : list (list T)).  (* FunctionalComp(f, MatrixOperator(rows)) on rn(n) *)

Fixpoint fdim (f : fexpr) : nat :=
  match f with
  | FL2Sq n | FL2 n | FL1 n | FConst n _ => n
  | FLScal f _ | FRScal f _ | FSum f _ | FScalarSum f _ | FTransl f _ | FQP f _ _ _
  | FProd f _ | FQuot f _ | FRVec f _ => fdim f
  | FCompM _ n _ => n
  end.

Fixpoint fwt (f : fexpr) : bool :=
  match f with
  | FL2Sq _ | FL2 _ | FL1 _ | FConst _ _ => true
  | FLScal f _ | FRScal f _ | FScalarSum f _ => fwt f
  | FSum f g | FProd f g | FQuot f g => fwt f && fwt g && Nat.eqb (fdim f) (fdim g)
  | FTransl f t => fwt f && Nat.eqb (length t) (fdim f)
  | FQP f _ u _ => fwt f && Nat.eqb (length u) (fdim f)
  | FRVec f v => fwt f && Nat.eqb (length v) (fdim f)
  | FCompM f n rows => fwt f && Nat.eqb (length rows) (fdim f) && forallb (fun r => Nat.eqb (length r) n) rows
  end.

Fixpoint feval (f : fexpr) (x : list T) : T :=
  match f with
  | FL2Sq _ => dot x x
  | FL2 _ => rt (dot x x)
  | FL1 _ => sum1 x
  | FConst _ c => c
  | FLScal f s => s * feval f x
  | FRScal f s => feval f (vscal s x)
  | FSum f g => feval f x + feval g x
  | FScalarSum f c => feval f x + c
  | FTransl f t => feval f (vsub x t)
  | FQP f a u c => feval f x + a * dot x x + dot x u + c
  | FProd f g => feval f x * feval g x
  | FQuot f g => feval f x / feval g x
  | FRVec f v => feval f (vmul x v)
  | FCompM f _ rows => feval f (mvec rows x)
  end.

(* M^T g  written as  sum_i g_i * row_i *)
Fixpoint mtvec (n : nat) (rows : list (list T)) (g : list T) : list T :=
  match rows, g with
  | r :: rows', gi :: g' => vadd (vscal gi r) (mtvec n rows' g')
  | _, _ => vconst n nzero
  end.

(* the element f.gradient(x) *)
Fixpoint fgrad (f : fexpr) (x : list T) : list T :=
  match f with
  | FL2Sq _ => vscal (of_Z 2) x                                   (* ScalingOperator(2) *)
  | FL2 _ => let nrm := rt (dot x x) in
             if nrm =? nzero then vconst (length x) nzero else map (fun a => a / nrm) x
  | FL1 _ => map nsign x
  | FConst n _ => vconst n nzero                                  (* ZeroOperator *)
  | FLScal f s => vscal s (fgrad f x)                             (* s * f.gradient *)
  | FRScal f s => vscal s (fgrad f (vscal s x))                   (* s * f.gradient * s *)
  | FSum f g => vadd (fgrad f x) (fgrad g x)
  | FScalarSum f _ => vadd (fgrad f x) (vconst (fdim f) nzero)
  | FTransl f t => fgrad f (vsub x t)                             (* f.gradient * (I - t) *)
  | FQP f a u _ => vadd (vadd (fgrad f x) (vscal (of_Z 2 * a) x)) u   (* f.gradient + 2a I + Const(u) *)
  | FProd f g => vadd (vscal (feval g x) (fgrad f x)) (vscal (feval f x) (fgrad g x))
  | FQuot f g =>
      let fx := feval f x in let gx := feval g x in
      vadd (vscal (none_ / gx) (fgrad f x)) (vscal (- fx / (gx * gx)) (fgrad g x))
  | FRVec f v => vmul v (fgrad f (vmul v x))                      (* v * f.gradient * v *)
  | FCompM f n rows => mtvec n rows (fgrad f (mvec rows x))       (* op'(x)^* (f.gradient(op x)) *)
  end.

End FModel.

Arguments FL2Sq {T}. Arguments FL2 {T}. Arguments FL1 {T}. Arguments FConst {T}.
Arguments FLScal {T}. Arguments FRScal {T}. Arguments FSum {T}. Arguments FScalarSum {T}.
Arguments FTransl {T}. Arguments FQP {T}. Arguments FProd {T}. Arguments FQuot {T}.
Arguments FRVec {T}. Arguments FCompM {T}.
