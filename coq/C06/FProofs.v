(* C06/FProofs.v -- Functional.derivative(x) = <gradient(x), .> is the derivative of the
   functional, for every tree of the functional arithmetic (value-level gradient rules). *)
From Coq Require Import Reals Lra Lia List Bool ZArith.
From Verif Require Import Base.Num Base.Vec Base.VecR C06.Calc C06.Lin C06.Syntax Gen.UfuncDeriv C06.Model C06.Leaves C06.PwNorm C06.FModel.
Import ListNotations.
Local Open Scope R_scope.

Notation fexprR := (@fexpr R).

(* scalar-valued maps: phi is differentiable at x with derivative d |-> ell d *)
Definition sdiff (n : nat) (phi : Rvec -> R) (x : Rvec) (ell : Rvec -> R) : Prop :=
  forall g d, curve n g x d -> derivable_pt_lim (fun t => phi (g t)) 0 (ell d).

Lemma sdiff_hdiff n phi x ell :
  sdiff n phi x ell -> hdiff n 1 (fun y => [phi y]) x (fun d => [ell d]).
Proof.
  intros H g d Hc. pose proof Hc as (H0 & _). repeat split.
  - rewrite H0; reflexivity.
  - intros [|i] Hi; [|lia]. cbn [nth]. apply H. exact Hc.
Qed.

Lemma sdiff_ext n phi phi' x ell ell' :
  (forall y, phi y = phi' y) -> (forall d, length d = n -> ell d = ell' d) ->
  sdiff n phi x ell -> sdiff n phi' x ell'.
Proof.
  intros Hp He H g d Hc. pose proof Hc as (_ & Hd & _).
  rewrite <- (He d Hd). eapply dpl_ext; [|apply H; exact Hc]. intros t; apply Hp.
Qed.

(* ---------- dot algebra ---------- *)
Lemma dot_vscal_r c (a b : Rvec) : dot a (vscal c b) = c * dot a b.
Proof. rewrite (dot_comm a), dot_vscal_l, (dot_comm b). reflexivity. Qed.
Lemma dot_vadd_r (a b c : Rvec) : length b = length c -> length b = length a ->
  dot a (vadd b c) = dot a b + dot a c.
Proof. intros H1 H2. rewrite (dot_comm a), dot_vadd_l by assumption. rewrite !(dot_comm a). reflexivity. Qed.
Lemma dot_zero_r (a : Rvec) n : dot a (vconst n 0) = 0.
Proof.
  revert n; induction a as [|u a IH]; intros [|n]; cbn [vconst repeat]; rewrite ?dot_nil_l, ?dot_nil_r; try reflexivity.
  rewrite dot_cons'. unfold vconst in IH. rewrite IH. ring.
Qed.
Lemma dot_vmul_shift (d v g : Rvec) : dot (vmul d v) g = dot d (vmul v g).
Proof.
  revert v g; induction d as [|a d IH]; intros [|b v] [|c g]; cbn [vmul vmap2]; rewrite ?dot_nil_l, ?dot_nil_r; try reflexivity.
  rewrite !dot_cons'. fold (vmul d v). fold (vmul v g). rewrite IH. numR. ring.
Qed.
Lemma mtvec_len n (rows : list Rvec) : forall g, (forall r, In r rows -> length r = n) -> length (mtvec n rows g) = n.
Proof.
  induction rows as [|r rows IH]; intros [|gi g] Hr; cbn [mtvec]; try apply vconst_len.
  unfold vadd. apply vmap2_len; [rewrite vscal_len; apply Hr; left; reflexivity|].
  apply IH. intros r' Hin. apply Hr. right; exact Hin.
Qed.
Lemma dot_mtvec n (rows : list Rvec) : forall (g d : Rvec),
  (forall r, In r rows -> length r = n) -> length d = n -> length g = length rows ->
  dot d (mtvec n rows g) = dot (mvec rows d) g.
Proof.
  induction rows as [|r rows IH]; intros [|gi g] d Hr Hd Hg; cbn in Hg; try lia.
  - cbn [mtvec mvec map]. rewrite dot_zero_r, dot_nil_l. reflexivity.
  - cbn [mtvec mvec map]. rewrite dot_cons'.
    assert (Hrl : length r = n) by (apply Hr; left; reflexivity).
    rewrite dot_vadd_r.
    + rewrite dot_vscal_r, (IH g d); [|intros r' Hin; apply Hr; right; exact Hin|exact Hd|lia].
      rewrite (dot_comm d r). fold (mvec rows d). ring.
    + rewrite vscal_len, Hrl. symmetry. apply mtvec_len. intros r' Hin. apply Hr. right; exact Hin.
    + rewrite vscal_len. lia.
Qed.

(* ---------- weighted inner product algebra ---------- *)
Lemma wdot_vscal_r (w d g : Rvec) c : wdot w d (vscal c g) = c * wdot w d g.
Proof. rewrite !wdot_as_dot_r. rewrite <- dot_vscal_r. f_equal. unfold vmul, vscal.
  revert g; induction w as [|u w IH]; intros [|b g]; cbn [map vmap2]; try reflexivity.
  rewrite IH. f_equal. numR. ring.
Qed.
Lemma wdot_vscal_l (w d g : Rvec) c : wdot w (vscal c d) g = c * wdot w d g.
Proof. rewrite !wdot_as_dot_r. apply dot_vscal_l. Qed.
Lemma wdot_vadd_r (w d g1 g2 : Rvec) : length g1 = length g2 ->
  wdot w d (vadd g1 g2) = wdot w d g1 + wdot w d g2.
Proof.
  revert d g1 g2; induction w as [|u w IH]; intros [|a d] [|b g1] [|c g2] Hl; cbn in Hl; try lia;
    try (cbn; lra).
  unfold vadd. cbn [vmap2]. rewrite !wdot_cons. fold (vadd g1 g2). rewrite IH by lia. numR. ring.
Qed.
Lemma wdot_zero_r (w d : Rvec) n : wdot w d (vconst n 0) = 0.
Proof. rewrite wdot_as_dot_r.
  assert (E : forall (w : Rvec) n, exists m, vmul w (vconst n 0) = vconst m 0).
  { clear. induction w as [|u w IH]; intros [|n]; try (exists 0%nat; reflexivity).
    destruct (IH n) as [m Hm]. exists (S m). unfold vmul, vconst in *. cbn [repeat vmap2]. rewrite Hm. f_equal. numR; ring. }
  destruct (E w n) as [m ->]. apply dot_zero_r.
Qed.
Lemma wdot_vmul_shift (w d v g : Rvec) : wdot w (vmul d v) g = wdot w d (vmul v g).
Proof.
  revert d v g; induction w as [|u w IH]; intros [|a d] [|b v] [|c g]; try reflexivity.
  unfold vmul. cbn [vmap2]. rewrite !wdot_cons. fold (vmul d v). fold (vmul v g). rewrite IH. numR. ring.
Qed.
Lemma all_one_wdot (w a b : Rvec) : all_one w = true -> length w = length a -> wdot w a b = dot a b.
Proof.
  revert a b; induction w as [|u w IH]; intros [|x a] [|y b] Ho Hl; cbn in Hl; try lia; try reflexivity.
  cbn [all_one forallb] in Ho. apply andb_prop in Ho as [Hu Ho]. numR.
  destruct (Reqb_spec u 1) as [->|]; [|discriminate Hu].
  rewrite wdot_cons, dot_cons', IH by (auto; lia). ring.
Qed.

(* ---------- Rosenbrock ---------- *)
Lemma dot_addhd (d G : Rvec) u : G <> [] -> dot d (addhd u G) = dot d G + nth 0 d 0 * u.
Proof.
  destruct G as [|h G]; [congruence|]. intros _. destruct d as [|a d]; cbn [addhd nth]; rewrite ?dot_nil_l; [ring|].
  rewrite !dot_cons'. numR. ring.
Qed.
Lemma addhd_len u (l : Rvec) : length (addhd u l) = length l.
Proof. destruct l; reflexivity. Qed.
Lemma rgrad_cons2 c a b (r : Rvec) :
  rgrad c (a :: b :: r) =
  (- (of_Z 4 * c * (b - a * a) * a) + of_Z 2 * (a - none_))%num :: addhd (of_Z 2 * c * (b - a * a))%num (rgrad c (b :: r)).
Proof. reflexivity. Qed.
Lemma rgrad_len c (x : Rvec) : length (rgrad c x) = length x.
Proof.
  induction x as [|a [|b r] IH]; try reflexivity.
  rewrite rgrad_cons2. cbn [length]. rewrite addhd_len, IH. reflexivity.
Qed.

Lemma rosen_sdiff c n : forall g x d, curve n g x d ->
  derivable_pt_lim (fun t => rosen c (g t)) 0 (dot d (rgrad c x)).
Proof.
  induction n as [|n IH]; intros g x d Hc; pose proof Hc as (G0 & Gd & Gl & Gder).
  - pose proof (curve_len_x _ _ _ _ Hc) as Hx. destruct x; [|discriminate Hx]. destruct d; [|discriminate Gd].
    apply (dpl_ext (fun _ => 0)); [|apply derivable_pt_lim_const].
    intros t. specialize (Gl t). destruct (g t); [reflexivity|discriminate Gl].
  - destruct n as [|m].
    + (* one entry: the functional is constant 0 *)
      pose proof (curve_len_x _ _ _ _ Hc) as Hx.
      destruct x as [|a [|? ?]]; try discriminate Hx. destruct d as [|u [|? ?]]; try discriminate Gd.
      apply (dpl_ext (fun _ => 0)).
      * intros t. specialize (Gl t). destruct (g t) as [|? [|? ?]]; try discriminate Gl. reflexivity.
      * cbn [rgrad]. rewrite dot_cons', dot_nil_l. numR.
        eapply dpl_eq; [|apply derivable_pt_lim_const]. ring.
    + (* a :: b :: r *)
      pose proof (curve_len_x _ _ _ _ Hc) as Hx.
      destruct x as [|a [|b r]]; try discriminate Hx. destruct d as [|da [|db d']]; try discriminate Gd.
      assert (Htl : curve (S m) (fun t => tl (g t)) (b :: r) (db :: d')).
      { repeat split.
        - rewrite G0; reflexivity.
        - cbn in Gd |- *; lia.
        - intros t. specialize (Gl t). destruct (g t); cbn in *; lia.
        - intros i Hi. apply (dpl_ext (fun t => nth (S i) (g t) 0)).
          + intros t. destruct (g t); [destruct i|]; reflexivity.
          + apply (Gder (S i)). lia. }
      pose proof (IH _ _ _ Htl) as Htail.
      pose proof (Gder 0%nat ltac:(lia)) as Ha. pose proof (Gder 1%nat ltac:(lia)) as Hb.
      cbn [nth] in Ha, Hb.
      set (A := fun t => nth 0 (g t) 0) in *. set (B := fun t => nth 1 (g t) 0) in *.
      apply (dpl_ext (fun t => c * ((B t - A t * A t) * (B t - A t * A t)) + (A t - 1) * (A t - 1)
                              + rosen c (tl (g t)))).
      { intros t. unfold A, B. specialize (Gl t). destruct (g t) as [|u [|v q]]; try discriminate Gl. reflexivity. }
      assert (HA0 : A 0 = a) by (unfold A; rewrite G0; reflexivity).
      assert (HB0 : B 0 = b) by (unfold B; rewrite G0; reflexivity).
      rewrite rgrad_cons2. rewrite dot_cons'.
      rewrite dot_addhd by (intros E; pose proof (rgrad_len c (b :: r)) as L; rewrite E in L; discriminate L).
      cbn [nth]. numR.
      apply (dpl_eq _ _ ((c * (((db - (da * A 0 + A 0 * da)) * (B 0 - A 0 * A 0))
                               + ((B 0 - A 0 * A 0) * (db - (da * A 0 + A 0 * da))))
                          + ((da - 0) * (A 0 - 1) + (A 0 - 1) * (da - 0)))
                         + dot (db :: d') (rgrad c (b :: r)))).
      { rewrite HA0, HB0. ring. }
      apply derivable_pt_lim_plus; [|exact Htail].
      assert (HT : derivable_pt_lim (fun t => B t - A t * A t) 0 (db - (da * A 0 + A 0 * da))).
      { apply (derivable_pt_lim_minus B (fun t => A t * A t)); [exact Hb|].
        apply (derivable_pt_lim_mult A A); exact Ha. }
      assert (HS : derivable_pt_lim (fun t => A t - 1) 0 (da - 0)).
      { apply (derivable_pt_lim_minus A (fun _ => 1)); [exact Ha|apply derivable_pt_lim_const]. }
      apply derivable_pt_lim_plus.
      * apply derivable_pt_lim_scal.
        apply (derivable_pt_lim_mult (fun t => B t - A t * A t) (fun t => B t - A t * A t)); exact HT.
      * apply (derivable_pt_lim_mult (fun t => A t - 1) (fun t => A t - 1)); exact HS.
Qed.

Lemma all_one_all_nz (w : Rvec) : all_one w = true -> all_nz w = true.
Proof.
  induction w as [|u w IH]; [reflexivity|]. cbn [all_one all_nz forallb]. intros H.
  apply andb_prop in H as [Hu Hw]. fold (all_nz w). rewrite (IH Hw), andb_true_r. numR.
  destruct (Reqb_spec u 1) as [->|]; [|discriminate Hu]. destruct (Reqb_spec 1 0); [lra|reflexivity].
Qed.
Lemma wdot_vdiv_nz (w d g : Rvec) : all_nz w = true -> length w = length g ->
  wdot w d (vdiv g w) = dot d g.
Proof.
  revert d g; induction w as [|u w IH]; intros [|a d] [|b g] Hnz Hl; cbn in Hl; try lia; try reflexivity.
  cbn [all_nz forallb] in Hnz. apply andb_prop in Hnz as [Hu Hnz]. numR.
  destruct (Reqb_spec u 0) as [|Hu0]; [discriminate Hu|].
  unfold vdiv. cbn [vmap2]. rewrite wdot_cons, dot_cons'. fold (vdiv g w). rewrite IH by (auto; lia).
  numR. field. exact Hu0.
Qed.
Lemma vdiv_len (g w : Rvec) n : length g = n -> length w = n -> length (vdiv g w) = n.
Proof. intros; unfold vdiv; apply vmap2_len; assumption. Qed.

Section Variants.
Variable mav : bool.     (* the measured variant of FModel: the theorem holds for both values *)
Notation fgradR := (fgrad sqrt mav).
Notation fokR := (fok mav).

(* ---------- regular points ---------- *)
Fixpoint fregular (w : Rvec) (f : fexprR) (x : Rvec) : Prop :=
  match f with
  | FL2 _ => 0 < wdot w x x
  | FL1 _ => forall i, (i < length x)%nat -> nth i x 0 <> 0
  | FL2Sq _ | FConst _ _ | FRosen _ _ => True
  | FLScal f _ | FScalarSum f _ | FQP f _ _ _ => fregular w f x
  | FRScal f s => fregular w f (vscal s x)
  | FSum f g | FProd f g => fregular w f x /\ fregular w g x
  | FQuot f g => fregular w f x /\ fregular w g x /\ feval sqrt w g x <> 0
  | FTransl f t => fregular w f (vsub x t)
  | FRVec f v => fregular w f (vmul x v)
  | FCompM f w' _ rows => fregular w' f (mvec rows x)
  end.

Lemma fgrad_len (f : fexprR) : forall w x, fwt f = true -> length w = fdim f -> length x = fdim f ->
  length (fgradR w f x) = fdim f.
Proof.
  induction f as [n c|n|n|n|n c|f IH s|f IH s|f IHf g IHg|f IH c|f IH t|f IH a u c|f IHf g IHg|f IHf g IHg|f IH v|f IH w' n rows];
    intros w x Hw Hwl Hx; cbn [fwt fdim fgrad] in *.
  - apply vdiv_len; [rewrite rgrad_len; exact Hx|exact Hwl].
  - rewrite vscal_len; exact Hx.
  - destruct (_ =? _)%num; [rewrite vconst_len|rewrite map_length]; exact Hx.
  - rewrite map_length; exact Hx.
  - apply vconst_len.
  - rewrite vscal_len; apply IH; auto.
  - rewrite vscal_len; apply IH; auto. rewrite vscal_len; exact Hx.
  - apply andb_prop in Hw as [Hw He]. apply andb_prop in Hw as [Wf Wg]. apply Nat.eqb_eq in He.
    unfold vadd. apply vmap2_len; [apply IHf; auto|rewrite He; apply IHg; auto; lia].
  - unfold vadd. apply vmap2_len; [apply IH; auto|apply vconst_len].
  - apply andb_prop in Hw as [Wf Ht]. apply Nat.eqb_eq in Ht.
    apply IH; auto. unfold vsub; apply vmap2_len; lia.
  - apply andb_prop in Hw as [Wf Hu]. apply Nat.eqb_eq in Hu.
    unfold vadd. apply vmap2_len; [apply vmap2_len; [apply IH; auto|rewrite vscal_len; exact Hx]|exact Hu].
  - apply andb_prop in Hw as [Hw He]. apply andb_prop in Hw as [Wf Wg]. apply Nat.eqb_eq in He.
    unfold vadd. apply vmap2_len; rewrite vscal_len; [apply IHf; auto|rewrite He; apply IHg; auto; lia].
  - apply andb_prop in Hw as [Hw He]. apply andb_prop in Hw as [Wf Wg]. apply Nat.eqb_eq in He.
    unfold vadd. apply vmap2_len; rewrite vscal_len; [apply IHf; auto|rewrite He; apply IHg; auto; lia].
  - apply andb_prop in Hw as [Wf Hv]. apply Nat.eqb_eq in Hv.
    unfold vmul at 1. apply vmap2_len; [exact Hv|]. apply IH; auto. unfold vmul; apply vmap2_len; lia.
  - apply andb_prop in Hw as [Hw _]. apply andb_prop in Hw as [Hw Hr].
    assert (Hrl : forall r, In r rows -> length r = n).
    { intros r Hin. rewrite forallb_forall in Hr. apply Nat.eqb_eq. apply Hr. exact Hin. }
    destruct mav; [apply vdiv_len; [apply mtvec_len; exact Hrl|exact Hwl]|apply mtvec_len; exact Hrl].
Qed.

(* ---------- the theorem ---------- *)
Theorem fgrad_sound (f : fexprR) : forall w x,
  fwt f = true -> fokR w f = true -> length w = fdim f -> length x = fdim f -> fregular w f x ->
  sdiff (fdim f) (feval sqrt w f) x (fun d => wdot w d (fgradR w f x)).
Proof.
  induction f as [n c|n|n|n|n c|f IH s|f IH s|f IHf g IHg|f IH c|f IH t|f IH a u c|f IHf g IHg|f IHf g IHg|f IH v|f IH w' n rows];
    intros w x Hw Hok Hwl Hx Hreg; cbn [fwt fok fdim feval fgrad fregular] in *.
  - (* Rosenbrock: gradient = partial derivatives / weights *)
    intros g d Hc. pose proof Hc as (_ & Hd & _).
    rewrite (wdot_vdiv_nz w d _ Hok) by (rewrite rgrad_len; lia). apply (rosen_sdiff c n); exact Hc.
  - (* L2NormSquared *)
    intros g d Hc.
    pose proof (dpl_dot2 _ _ _ _ _ _ _ (curve_mul_const _ _ _ _ w Hc Hwl) Hc) as H2.
    apply (dpl_ext (fun t => dot (vmul (g t) w) (g t))); [intros t; rewrite wdot_as_dot; reflexivity|].
    eapply dpl_eq; [|exact H2].
    rewrite wdot_vscal_r, <- !wdot_as_dot, (dot_comm d), <- wdot_as_dot, (wdot_comm w x d). numR. ring.
  - (* L2Norm *)
    intros g d Hc. destruct (curve_wnorm _ w _ _ _ Hc Hwl Hreg) as (_ & _ & _ & Hder).
    numR. destruct (Reqb_spec (sqrt (wdot w x x)) 0) as [E|_].
    { exfalso. apply sqrt_eq_0 in E; lra. }
    apply (Hder 0%nat). lia.
  - (* L1Norm *)
    intros g d Hc. pose proof Hc as (_ & Hd & Hl & _).
    pose proof (curve_map _ Rabs sgnR _ _ _ Hc) as Hm.
    assert (Hm' : curve n (fun t => map Rabs (g t)) (map Rabs x) (vmul d (map sgnR x))).
    { apply Hm. intros i Hi. apply dpl_abs. apply Hreg. rewrite Hx. exact Hi. }
    destruct (curve_mul_const _ _ _ _ w Hm' Hwl) as (M0 & Md & Ml & Mder).
    apply (dpl_ext (fun t => sumf (vmul (map Rabs (g t)) w))).
    { intros t. numR. rewrite (vmul_comm w). reflexivity. }
    eapply dpl_eq; [|apply (dpl_sumf n); [exact Ml|exact Md|exact Mder]].
    unfold wdot. rewrite (vmul_comm w). reflexivity.
  - (* Constant *)
    intros g d Hc. rewrite wdot_zero_r. apply derivable_pt_lim_const.
  - (* LeftScalarMult *)
    intros g d Hc. rewrite wdot_vscal_r. numR. apply derivable_pt_lim_scal. apply (IH w x Hw Hok Hwl Hx Hreg g d Hc).
  - (* RightScalarMult *)
    intros g d Hc. rewrite wdot_vscal_r, <- wdot_vscal_l.
    assert (Hsx : length (vscal s x) = fdim f) by (rewrite vscal_len; exact Hx).
    apply (IH w (vscal s x) Hw Hok Hwl Hsx Hreg (fun t => vscal s (g t)) (vscal s d)). apply curve_scal. exact Hc.
  - (* Sum *)
    apply andb_prop in Hw as [Hw He]. apply andb_prop in Hw as [Wf Wg]. apply Nat.eqb_eq in He.
    apply andb_prop in Hok as [Of Og].
    destruct Hreg as [Rf Rg]. assert (Hxg : length x = fdim g) by lia. assert (Hwg : length w = fdim g) by lia.
    intros h d Hc.
    rewrite wdot_vadd_r by (rewrite !fgrad_len; auto). numR.
    apply derivable_pt_lim_plus; [apply (IHf w x Wf Of Hwl Hx Rf h d Hc)|].
    rewrite He in Hc. apply (IHg w x Wg Og Hwg Hxg Rg h d Hc).
  - (* ScalarSum *)
    intros h d Hc.
    rewrite wdot_vadd_r by (rewrite fgrad_len, vconst_len; auto).
    rewrite wdot_zero_r. numR.
    apply derivable_pt_lim_plus; [apply (IH w x Hw Hok Hwl Hx Hreg h d Hc)|apply derivable_pt_lim_const].
  - (* Translation *)
    apply andb_prop in Hw as [Wf Ht]. apply Nat.eqb_eq in Ht.
    intros h d Hc.
    assert (Hxt : length (vsub x t) = fdim f) by (unfold vsub; apply vmap2_len; lia).
    apply (IH w (vsub x t) Wf Hok Hwl Hxt Hreg (fun s => vsub (h s) t) d). apply curve_sub_const; [exact Hc|exact Ht].
  - (* QuadraticPerturb *)
    apply andb_prop in Hw as [Wf Hu]. apply Nat.eqb_eq in Hu.
    intros h d Hc. pose proof Hc as (_ & Hd & _).
    pose proof (fgrad_len f w x Wf Hwl Hx) as Hgl.
    rewrite wdot_vadd_r by (unfold vadd; rewrite (vmap2_len _ _ _ (fdim f)); rewrite ?vscal_len; auto; lia).
    rewrite wdot_vadd_r by (rewrite vscal_len; lia). rewrite wdot_vscal_r. numR.
    apply (dpl_eq _ _ (wdot w d (fgradR w f x) + a * (2 * wdot w d x) + wdot w d u + 0)); [ring|].
    apply derivable_pt_lim_plus; [|apply derivable_pt_lim_const].
    apply derivable_pt_lim_plus.
    + apply derivable_pt_lim_plus; [apply (IH w x Wf Hok Hwl Hx Hreg h d Hc)|].
      apply derivable_pt_lim_scal.
      pose proof (dpl_dot2 _ _ _ _ _ _ _ (curve_mul_const _ _ _ _ w Hc Hwl) Hc) as H2.
      apply (dpl_ext (fun t => dot (vmul (h t) w) (h t))); [intros t; rewrite wdot_as_dot; reflexivity|].
      eapply dpl_eq; [|exact H2].
      rewrite <- !wdot_as_dot, (dot_comm d), <- wdot_as_dot, (wdot_comm w x d). ring.
    + apply (dpl_ext (fun t => dot (h t) (vmul w u))); [intros t; rewrite wdot_as_dot_r; reflexivity|].
      rewrite wdot_as_dot_r.
      assert (Hwu : length (vmul w u) = fdim f) by (unfold vmul; apply vmap2_len; lia).
      destruct (curve_dot _ _ _ _ (vmul w u) Hc Hwu) as (_ & _ & _ & Hder). apply (Hder 0%nat). lia.
  - (* Product *)
    apply andb_prop in Hw as [Hw He]. apply andb_prop in Hw as [Wf Wg]. apply Nat.eqb_eq in He.
    apply andb_prop in Hok as [Of Og].
    destruct Hreg as [Rf Rg]. assert (Hxg : length x = fdim g) by lia. assert (Hwg : length w = fdim g) by lia.
    intros h d Hc. pose proof Hc as (H0 & Hd & _).
    rewrite wdot_vadd_r by (rewrite !vscal_len, !fgrad_len; auto).
    rewrite !wdot_vscal_r. numR.
    apply (dpl_eq _ _ (wdot w d (fgradR w f x) * feval sqrt w g (h 0) + feval sqrt w f (h 0) * wdot w d (fgradR w g x))).
    { rewrite H0. ring. }
    apply (derivable_pt_lim_mult (fun t => feval sqrt w f (h t)) (fun t => feval sqrt w g (h t)));
      [apply (IHf w x Wf Of Hwl Hx Rf h d Hc)|rewrite He in Hc; apply (IHg w x Wg Og Hwg Hxg Rg h d Hc)].
  - (* Quotient *)
    apply andb_prop in Hw as [Hw He]. apply andb_prop in Hw as [Wf Wg]. apply Nat.eqb_eq in He.
    apply andb_prop in Hok as [Of Og].
    destruct Hreg as (Rf & Rg & Hnz). assert (Hxg : length x = fdim g) by lia. assert (Hwg : length w = fdim g) by lia.
    intros h d Hc. pose proof Hc as (H0 & Hd & _).
    rewrite wdot_vadd_r by (rewrite !vscal_len, !fgrad_len; auto).
    rewrite !wdot_vscal_r. numR.
    apply (dpl_eq _ _ ((wdot w d (fgradR w f x) * feval sqrt w g (h 0) - wdot w d (fgradR w g x) * feval sqrt w f (h 0))
                       / Rsqr (feval sqrt w g (h 0)))).
    { rewrite H0. unfold Rsqr. field. exact Hnz. }
    apply (derivable_pt_lim_div (fun t => feval sqrt w f (h t)) (fun t => feval sqrt w g (h t)));
      [apply (IHf w x Wf Of Hwl Hx Rf h d Hc)|rewrite He in Hc; apply (IHg w x Wg Og Hwg Hxg Rg h d Hc)|rewrite H0; exact Hnz].
  - (* RightVectorMult *)
    apply andb_prop in Hw as [Wf Hv]. apply Nat.eqb_eq in Hv.
    intros h d Hc.
    assert (Hxv : length (vmul x v) = fdim f) by (unfold vmul; apply vmap2_len; lia).
    rewrite <- wdot_vmul_shift.
    apply (IH w (vmul x v) Wf Hok Hwl Hxv Hreg (fun t => vmul (h t) v) (vmul d v)). apply curve_mul_const; [exact Hc|exact Hv].
  - (* Comp with a matrix: unweighted spaces (transpose), or the true adjoint W^-1 M^T W' *)
    apply andb_prop in Hw as [Hw Hw'l]. apply Nat.eqb_eq in Hw'l.
    apply andb_prop in Hw as [Hw Hr]. apply andb_prop in Hw as [Wf Hrows]. apply Nat.eqb_eq in Hrows.
    apply andb_prop in Hok as [Hok Of].
    assert (Hrl : forall r, In r rows -> length r = n).
    { intros r Hin. rewrite forallb_forall in Hr. apply Nat.eqb_eq. apply Hr. exact Hin. }
    intros h d Hc. pose proof Hc as (_ & Hd & _).
    assert (Hmx : length (mvec rows x) = fdim f) by (rewrite mvec_len; exact Hrows).
    pose proof (fgrad_len f w' (mvec rows x) Wf Hw'l Hmx) as Hgl.
    assert (HIH : derivable_pt_lim (fun t => feval sqrt w' f (mvec rows (h t))) 0
                    (wdot w' (mvec rows d) (fgradR w' f (mvec rows x)))).
    { apply (IH w' (mvec rows x) Wf Of Hw'l Hmx Hreg (fun t => mvec rows (h t)) (mvec rows d)).
      rewrite <- Hrows. apply (curve_mvec n); assumption. }
    destruct mav; cbn [andb orb] in Hok.
    + assert (Hnz : all_nz w = true).
      { apply orb_prop in Hok as [E|E]; [exact E|apply andb_prop in E as [E _]; apply all_one_all_nz; exact E]. }
      rewrite (wdot_vdiv_nz w d _ Hnz) by (rewrite mtvec_len; auto; lia).
      rewrite (dot_mtvec n rows _ d Hrl Hd);
        [|unfold vmul; rewrite (vmap2_len _ _ _ (fdim f)); auto].
      rewrite <- wdot_as_dot_r. exact HIH.
    + apply andb_prop in Hok as [O1 O1'].
      rewrite (all_one_wdot w d _ O1) by lia.
      rewrite (dot_mtvec n rows _ d Hrl Hd); [|rewrite Hgl; auto].
      rewrite <- (all_one_wdot w' (mvec rows d) _ O1') by (rewrite mvec_len; lia).
      exact HIH.
Qed.

(* Functional.derivative(x) = InnerProductOperator(gradient(x)) is the Frechet derivative *)
Corollary functional_derivative_sound (f : fexprR) w x :
  fwt f = true -> fokR w f = true -> length w = fdim f -> length x = fdim f -> fregular w f x ->
  hdiff (fdim f) 1 (fun y => [feval sqrt w f y]) x (fun d => [wdot w d (fgradR w f x)]).
Proof. intros Hw Hok Hwl Hx Hr. apply sdiff_hdiff. apply fgrad_sound; assumption. Qed.

End Variants.

(* non-vacuity *)
Definition ex_f : fexprR :=
  FQuot (FProd (FQP (FL2Sq 2) 3 [1; -1] 2) (FLScal (FL2 2) 2))
        (FScalarSum (FRScal (FTransl (FL1 2) [5; 5]) 2) 1).
Definition ex_g : fexprR := FSum (FCompM (FL2Sq 1) [1] 2 [[1; 2]]) (FL1 2).
Lemma ex_f_premises :
  (fwt ex_f = true /\ fok false [2; 3] ex_f = true /\ length [2; 3] = fdim ex_f /\ length [1; 2] = fdim ex_f /\
   fregular [2; 3] ex_f [1; 2]) /\
  (fwt ex_g = true /\ fok false [1; 1] ex_g = true /\ fregular [1; 1] ex_g [1; 2]).
Proof.
  cbn. numR.
  assert (E1 : Reqb 1 1 = true) by (destruct (Reqb_spec 1 1); [reflexivity|lra]).
  rewrite E1. cbn [andb].
  split; [split; [reflexivity|split; [reflexivity|split; [reflexivity|split; [reflexivity|]]]]
         |split; [reflexivity|split; [reflexivity|split; [exact I|]]]].
  - split; [split; [exact I|lra]|split].
    + intros i Hi. destruct i as [|[|i]]; [lra|lra|lia].
    + rewrite !Rabs_left by lra. lra.
  - intros i Hi. destruct i as [|[|i]]; [lra|lra|lia].
Qed.

(* ---------- without [fok] the statement is FALSE of the faithful model ----------
   (recorded finding FunctionalComp-MatrixOperator-weighted-space):
   f = L2NormSquared(rn(1)) o MatrixOperator([[1]]) on rn(1, weighting=2), x = 1:
   the code's derivative(x)(d) is <d, 2x>_w = 4 d, the derivative of x |-> x^2 is 2 d. *)
Definition bad_f : fexprR := FCompM (FL2Sq 1) [1] 1 [[1]].
Lemma fgrad_weighted_comp_refuted :
  fwt bad_f = true /\ length [2] = fdim bad_f /\ fregular [2] bad_f [1] /\
  ~ sdiff (fdim bad_f) (feval sqrt [2] bad_f) [1] (fun d => wdot [2] d (fgrad sqrt false [2] bad_f [1])).
Proof.
  repeat split; try reflexivity.
  intros H.
  pose proof (H (line [1] [1]) [1] (curve_line 1 [1] [1] eq_refl eq_refl)) as H1.
  assert (H2 : derivable_pt_lim (fun t => feval sqrt [2] bad_f (line [1] [1] t)) 0 2).
  { apply (dpl_ext (fun t => (1 + t) * (1 + t))).
    - intros t. cbn. numR. ring.
    - apply (dpl_eq _ _ ((0 + 1) * (1 + 0) + (1 + 0) * (0 + 1))); [ring|].
      apply (derivable_pt_lim_mult (fun t => 1 + t) (fun t => 1 + t));
        (apply derivable_pt_lim_plus; [apply derivable_pt_lim_const|apply derivable_pt_lim_id]). }
  pose proof (uniqueness_limite _ _ _ _ H1 H2) as E. cbn in E. numR. lra.
Qed.
