(* C06/FProofs.v -- Functional.derivative(x) = <gradient(x), .> is the derivative of the
   functional, for every tree of the functional arithmetic (value-level gradient rules). *)
From Coq Require Import Reals Lra Lia List Bool ZArith.
From Verif Require Import Base.Num Base.Vec Base.VecR C06.Calc C06.Lin C06.Syntax Gen.UfuncDeriv C06.Model C06.Leaves C06.PwNorm C06.FModel.
Import ListNotations.
Local Open Scope R_scope.

Notation fexprR := (@fexpr R).

(* scalar-valued maps: phi is differentiable at x with derivative d |-> ell d *)
Definition sdiff (n : nat) (phi : Rvec -> R) (x : Rvec) (ell : Rvec -> R) : Prop :=
  forall g d, curve n g x d -> derivable_pt_lim (fun t => phi (g t)) 0 (ell d).

Lemma sdiff_hdiff n phi x ell :
  sdiff n phi x ell -> hdiff n 1 (fun y => [phi y]) x (fun d => [ell d]).
Proof.
  intros H g d Hc. pose proof Hc as (H0 & _). repeat split.
  - rewrite H0; reflexivity.
  - intros [|i] Hi; [|lia]. cbn [nth]. apply H. exact Hc.
Qed.

Lemma sdiff_ext n phi phi' x ell ell' :
  (forall y, phi y = phi' y) -> (forall d, length d = n -> ell d = ell' d) ->
  sdiff n phi x ell -> sdiff n phi' x ell'.
Proof.
  intros Hp He H g d Hc. pose proof Hc as (_ & Hd & _).
  rewrite <- (He d Hd). eapply dpl_ext; [|apply H; exact Hc]. intros t; apply Hp.
Qed.

(* ---------- dot algebra ---------- *)
Lemma dot_vscal_r c (a b : Rvec) : dot a (vscal c b) = c * dot a b.
Proof. rewrite (dot_comm a), dot_vscal_l, (dot_comm b). reflexivity. Qed.
Lemma dot_vadd_r (a b c : Rvec) : length b = length c -> length b = length a ->
  dot a (vadd b c) = dot a b + dot a c.
Proof. intros H1 H2. rewrite (dot_comm a), dot_vadd_l by assumption. rewrite !(dot_comm a). reflexivity. Qed.
Lemma dot_zero_r (a : Rvec) n : dot a (vconst n 0) = 0.
Proof.
  revert n; induction a as [|u a IH]; intros [|n]; cbn [vconst repeat]; rewrite ?dot_nil_l, ?dot_nil_r; try reflexivity.
  rewrite dot_cons'. unfold vconst in IH. rewrite IH. ring.
Qed.
Lemma dot_vmul_shift (d v g : Rvec) : dot (vmul d v) g = dot d (vmul v g).
Proof.
  revert v g; induction d as [|a d IH]; intros [|b v] [|c g]; cbn [vmul vmap2]; rewrite ?dot_nil_l, ?dot_nil_r; try reflexivity.
  rewrite !dot_cons'. fold (vmul d v). fold (vmul v g). rewrite IH. numR. ring.
Qed.
Lemma mtvec_len n (rows : list Rvec) : forall g, (forall r, In r rows -> length r = n) -> length (mtvec n rows g) = n.
Proof.
  induction rows as [|r rows IH]; intros [|gi g] Hr; cbn [mtvec]; try apply vconst_len.
  unfold vadd. apply vmap2_len; [rewrite vscal_len; apply Hr; left; reflexivity|].
  apply IH. intros r' Hin. apply Hr. right; exact Hin.
Qed.
Lemma dot_mtvec n (rows : list Rvec) : forall (g d : Rvec),
  (forall r, In r rows -> length r = n) -> length d = n -> length g = length rows ->
  dot d (mtvec n rows g) = dot (mvec rows d) g.
Proof.
  induction rows as [|r rows IH]; intros [|gi g] d Hr Hd Hg; cbn in Hg; try lia.
  - cbn [mtvec mvec map]. rewrite dot_zero_r, dot_nil_l. reflexivity.
  - cbn [mtvec mvec map]. rewrite dot_cons'.
    assert (Hrl : length r = n) by (apply Hr; left; reflexivity).
    rewrite dot_vadd_r.
    + rewrite dot_vscal_r, (IH g d); [|intros r' Hin; apply Hr; right; exact Hin|exact Hd|lia].
      rewrite (dot_comm d r). fold (mvec rows d). ring.
    + rewrite vscal_len, Hrl. symmetry. apply mtvec_len. intros r' Hin. apply Hr. right; exact Hin.
    + rewrite vscal_len. lia.
Qed.

(* ---------- regular points ---------- *)
Fixpoint fregular (f : fexprR) (x : Rvec) : Prop :=
  match f with
  | FL2 _ => 0 < dot x x
  | FL1 _ => forall i, (i < length x)%nat -> nth i x 0 <> 0
  | FL2Sq _ | FConst _ _ => True
  | FLScal f _ | FScalarSum f _ | FQP f _ _ _ => fregular f x
  | FRScal f s => fregular f (vscal s x)
  | FSum f g | FProd f g => fregular f x /\ fregular g x
  | FQuot f g => fregular f x /\ fregular g x /\ feval sqrt g x <> 0
  | FTransl f t => fregular f (vsub x t)
  | FRVec f v => fregular f (vmul x v)
  | FCompM f _ rows => fregular f (mvec rows x)
  end.

Lemma fgrad_len (f : fexprR) : forall x, fwt f = true -> length x = fdim f -> length (fgrad sqrt f x) = fdim f.
Proof.
  induction f as [n|n|n|n c|f IH s|f IH s|f IHf g IHg|f IH c|f IH t|f IH a u c|f IHf g IHg|f IHf g IHg|f IH v|f IH n rows];
    intros x Hw Hx; cbn [fwt fdim fgrad] in *.
  - rewrite vscal_len; exact Hx.
  - destruct (_ =? _)%num; [rewrite vconst_len|rewrite map_length]; exact Hx.
  - rewrite map_length; exact Hx.
  - apply vconst_len.
  - rewrite vscal_len; apply IH; auto.
  - rewrite vscal_len; apply IH; auto. rewrite vscal_len; exact Hx.
  - apply andb_prop in Hw as [Hw He]. apply andb_prop in Hw as [Wf Wg]. apply Nat.eqb_eq in He.
    unfold vadd. apply vmap2_len; [apply IHf; auto|rewrite He; apply IHg; auto; lia].
  - unfold vadd. apply vmap2_len; [apply IH; auto|apply vconst_len].
  - apply andb_prop in Hw as [Wf Ht]. apply Nat.eqb_eq in Ht.
    apply IH; auto. unfold vsub; apply vmap2_len; lia.
  - apply andb_prop in Hw as [Wf Hu]. apply Nat.eqb_eq in Hu.
    unfold vadd. apply vmap2_len; [apply vmap2_len; [apply IH; auto|rewrite vscal_len; exact Hx]|exact Hu].
  - apply andb_prop in Hw as [Hw He]. apply andb_prop in Hw as [Wf Wg]. apply Nat.eqb_eq in He.
    unfold vadd. apply vmap2_len; rewrite vscal_len; [apply IHf; auto|rewrite He; apply IHg; auto; lia].
  - apply andb_prop in Hw as [Hw He]. apply andb_prop in Hw as [Wf Wg]. apply Nat.eqb_eq in He.
    unfold vadd. apply vmap2_len; rewrite vscal_len; [apply IHf; auto|rewrite He; apply IHg; auto; lia].
  - apply andb_prop in Hw as [Wf Hv]. apply Nat.eqb_eq in Hv.
    unfold vmul at 1. apply vmap2_len; [exact Hv|]. apply IH; auto. unfold vmul; apply vmap2_len; lia.
  - apply andb_prop in Hw as [Hw Hr]. apply mtvec_len. intros r Hin.
    rewrite forallb_forall in Hr. apply Nat.eqb_eq. apply Hr. exact Hin.
Qed.

(* ---------- the theorem ---------- *)
Theorem fgrad_sound (f : fexprR) : forall x,
  fwt f = true -> length x = fdim f -> fregular f x ->
  sdiff (fdim f) (feval sqrt f) x (fun d => dot d (fgrad sqrt f x)).
Proof.
  induction f as [n|n|n|n c|f IH s|f IH s|f IHf g IHg|f IH c|f IH t|f IH a u c|f IHf g IHg|f IHf g IHg|f IH v|f IH n rows];
    intros x Hw Hx Hreg; cbn [fwt fdim feval fgrad fregular] in *.
  - (* L2NormSquared *)
    intros g d Hc. pose proof (curve_mul _ _ _ _ _ _ _ Hc Hc) as (M0 & Md & Ml & Mder).
    eapply dpl_eq; [|unfold dot; apply (dpl_sumf n); [exact Ml|exact Md|exact Mder]].
    rewrite sumf_vadd_self, dot_vscal_r. numR. reflexivity.
  - (* L2Norm *)
    intros g d Hc. destruct (curve_norm _ _ _ _ Hc Hreg) as (_ & _ & _ & Hder).
    numR. destruct (Reqb_spec (sqrt (dot x x)) 0) as [E|_].
    { apply sqrt_eq_0 in E; [lra|apply dot_self_nonneg]. }
    apply (Hder 0%nat). lia.
  - (* L1Norm *)
    intros g d Hc. pose proof Hc as (_ & Hd & Hl & _).
    pose proof (curve_map _ Rabs sgnR _ _ _ Hc) as Hm.
    destruct Hm as (M0 & Md & Ml & Mder).
    { intros i Hi. apply dpl_abs. apply Hreg. rewrite Hx. exact Hi. }
    unfold sum1. numR. unfold dot.
    apply (dpl_sumf n); [exact Ml|exact Md|exact Mder].
  - (* Constant *)
    intros g d Hc. rewrite dot_zero_r. apply derivable_pt_lim_const.
  - (* LeftScalarMult *)
    intros g d Hc. rewrite dot_vscal_r. numR. apply derivable_pt_lim_scal. apply (IH x Hw Hx Hreg g d Hc).
  - (* RightScalarMult *)
    intros g d Hc. rewrite dot_vscal_r, <- dot_vscal_l.
    assert (Hsx : length (vscal s x) = fdim f) by (rewrite vscal_len; exact Hx).
    apply (IH (vscal s x) Hw Hsx Hreg (fun t => vscal s (g t)) (vscal s d)). apply curve_scal. exact Hc.
  - (* Sum *)
    apply andb_prop in Hw as [Hw He]. apply andb_prop in Hw as [Wf Wg]. apply Nat.eqb_eq in He.
    destruct Hreg as [Rf Rg]. assert (Hxg : length x = fdim g) by lia.
    intros h d Hc. pose proof Hc as (_ & Hd & _).
    rewrite dot_vadd_r; [|rewrite !fgrad_len; auto|rewrite fgrad_len; auto; lia]. numR.
    apply derivable_pt_lim_plus; [apply (IHf x Wf Hx Rf h d Hc)|].
    rewrite He in Hc. apply (IHg x Wg Hxg Rg h d Hc).
  - (* ScalarSum *)
    intros h d Hc. pose proof Hc as (_ & Hd & _).
    rewrite dot_vadd_r; [|rewrite fgrad_len, vconst_len; auto|rewrite fgrad_len; auto; lia].
    rewrite dot_zero_r. numR.
    apply derivable_pt_lim_plus; [apply (IH x Hw Hx Hreg h d Hc)|apply derivable_pt_lim_const].
  - (* Translation *)
    apply andb_prop in Hw as [Wf Ht]. apply Nat.eqb_eq in Ht.
    intros h d Hc.
    assert (Hxt : length (vsub x t) = fdim f) by (unfold vsub; apply vmap2_len; lia).
    apply (IH (vsub x t) Wf Hxt Hreg (fun s => vsub (h s) t) d). apply curve_sub_const; [exact Hc|exact Ht].
  - (* QuadraticPerturb *)
    apply andb_prop in Hw as [Wf Hu]. apply Nat.eqb_eq in Hu.
    intros h d Hc. pose proof Hc as (_ & Hd & _).
    pose proof (fgrad_len f x Wf Hx) as Hgl.
    rewrite dot_vadd_r; [|unfold vadd; rewrite (vmap2_len _ _ _ (fdim f)); rewrite ?vscal_len; auto; lia
                         |unfold vadd; rewrite (vmap2_len _ _ _ (fdim f)); rewrite ?vscal_len; auto; lia].
    rewrite dot_vadd_r; [|rewrite vscal_len; lia|lia]. rewrite dot_vscal_r. numR.
    apply (dpl_eq _ _ (dot d (fgrad sqrt f x) + a * (2 * dot d x) + dot d u + 0)); [ring|].
    apply derivable_pt_lim_plus; [|apply derivable_pt_lim_const].
    apply derivable_pt_lim_plus.
    + apply derivable_pt_lim_plus; [apply (IH x Wf Hx Hreg h d Hc)|].
      apply derivable_pt_lim_scal.
      pose proof (curve_mul _ _ _ _ _ _ _ Hc Hc) as (M0 & Md & Ml & Mder).
      eapply dpl_eq; [|unfold dot; apply (dpl_sumf (fdim f)); [exact Ml|exact Md|exact Mder]].
      rewrite sumf_vadd_self. reflexivity.
    + destruct (curve_dot _ _ _ _ u Hc Hu) as (_ & _ & _ & Hder). apply (Hder 0%nat). lia.
  - (* Product *)
    apply andb_prop in Hw as [Hw He]. apply andb_prop in Hw as [Wf Wg]. apply Nat.eqb_eq in He.
    destruct Hreg as [Rf Rg]. assert (Hxg : length x = fdim g) by lia.
    intros h d Hc. pose proof Hc as (H0 & Hd & _).
    rewrite dot_vadd_r; [|rewrite !vscal_len, !fgrad_len; auto|rewrite vscal_len, fgrad_len; auto; lia].
    rewrite !dot_vscal_r. numR.
    apply (dpl_eq _ _ (dot d (fgrad sqrt f x) * feval sqrt g (h 0) + feval sqrt f (h 0) * dot d (fgrad sqrt g x))).
    { rewrite H0. ring. }
    apply (derivable_pt_lim_mult (fun t => feval sqrt f (h t)) (fun t => feval sqrt g (h t)));
      [apply (IHf x Wf Hx Rf h d Hc)|rewrite He in Hc; apply (IHg x Wg Hxg Rg h d Hc)].
  - (* Quotient *)
    apply andb_prop in Hw as [Hw He]. apply andb_prop in Hw as [Wf Wg]. apply Nat.eqb_eq in He.
    destruct Hreg as (Rf & Rg & Hnz). assert (Hxg : length x = fdim g) by lia.
    intros h d Hc. pose proof Hc as (H0 & Hd & _).
    rewrite dot_vadd_r; [|rewrite !vscal_len, !fgrad_len; auto|rewrite vscal_len, fgrad_len; auto; lia].
    rewrite !dot_vscal_r. numR.
    apply (dpl_eq _ _ ((dot d (fgrad sqrt f x) * feval sqrt g (h 0) - dot d (fgrad sqrt g x) * feval sqrt f (h 0))
                       / Rsqr (feval sqrt g (h 0)))).
    { rewrite H0. unfold Rsqr. field. exact Hnz. }
    apply (derivable_pt_lim_div (fun t => feval sqrt f (h t)) (fun t => feval sqrt g (h t)));
      [apply (IHf x Wf Hx Rf h d Hc)|rewrite He in Hc; apply (IHg x Wg Hxg Rg h d Hc)|rewrite H0; exact Hnz].
  - (* RightVectorMult *)
    apply andb_prop in Hw as [Wf Hv]. apply Nat.eqb_eq in Hv.
    intros h d Hc.
    assert (Hxv : length (vmul x v) = fdim f) by (unfold vmul; apply vmap2_len; lia).
    rewrite <- dot_vmul_shift, (vmul_comm v x).
    apply (IH (vmul x v) Wf Hxv Hreg (fun t => vmul (h t) v) (vmul d v)). apply curve_mul_const; [exact Hc|exact Hv].
  - (* Comp with a matrix *)
    apply andb_prop in Hw as [Hw Hr]. apply andb_prop in Hw as [Wf Hrows]. apply Nat.eqb_eq in Hrows.
    assert (Hrl : forall r, In r rows -> length r = n).
    { intros r Hin. rewrite forallb_forall in Hr. apply Nat.eqb_eq. apply Hr. exact Hin. }
    intros h d Hc. pose proof Hc as (_ & Hd & _).
    assert (Hmx : length (mvec rows x) = fdim f) by (rewrite mvec_len; exact Hrows).
    rewrite (dot_mtvec n rows _ d Hrl Hd); [|rewrite fgrad_len; auto].
    apply (IH (mvec rows x) Wf Hmx Hreg (fun t => mvec rows (h t)) (mvec rows d)).
    rewrite <- Hrows. apply (curve_mvec n); assumption.
Qed.

(* Functional.derivative(x) = InnerProductOperator(gradient(x)) is the Frechet derivative *)
Corollary functional_derivative_sound (f : fexprR) x :
  fwt f = true -> length x = fdim f -> fregular f x ->
  hdiff (fdim f) 1 (fun y => [feval sqrt f y]) x (fun d => [dot d (fgrad sqrt f x)]).
Proof. intros Hw Hx Hr. apply sdiff_hdiff. apply fgrad_sound; assumption. Qed.

(* non-vacuity *)
Definition ex_f : fexprR :=
  FQuot (FProd (FQP (FL2Sq 2) 3 [1; -1] 2) (FLScal (FL2 2) 2))
        (FScalarSum (FCompM (FRScal (FTransl (FL1 2) [5; 5]) 2) 2 [[1; 0]; [0; 1]]) 1).
Lemma ex_f_premises : fwt ex_f = true /\ length [1; 2] = fdim ex_f /\ fregular ex_f [1; 2].
Proof.
  cbn. repeat split; try lra.
  - intros i Hi. destruct i as [|[|i]]; cbn; [lra|lra|lia].
  - intros Hz. unfold sum1 in Hz. cbn in Hz. numR.
    rewrite !Rabs_left in Hz by lra. lra.
Qed.
